(* C07 - always terminates; worker failure is neither a hang nor a silent success. Property theorems only. *)
From Grcov Require Import Model.Pipeline.

(* The pinned code (main keeps a receiver handle) has a reachable stuck state: one worker, capacity 2,
   three inputs, the first one kills the worker; the producer finishes, main blocks forever on the stop marker.
   Reproduced on the real binary (hang), repaired by the fix: commit that drops main's receiver. *)
Definition cfg_stuck (keep : bool) : cfg :=
  mkCfg 1 2 keep (fun _ => Some []) (fun i => if (i =? 0)%N then FDieParse else FNone).
Definition sched_stuck : list label := [LSend; LSend; LRecv 0; LSend; LDieParse 0; LProdDone; LJoinedProd].
Theorem C07_stuck_refuted_keep_rx :
  exists s, run (cfg_stuck true) (init (cfg_stuck true) [0; 1; 2]%N) sched_stuck = Some s /\ stuck (cfg_stuck true) s = true.
Proof. eexists. split; [vm_compute; reflexivity|vm_compute; reflexivity]. Qed.
(* Without the handle the same schedule continues to a non-zero exit status. *)
Theorem C07_same_schedule_exits_nonzero :
  exists s, run (cfg_stuck false) (init (cfg_stuck false) [0; 1; 2]%N) (sched_stuck ++ [LStopFail]) = Some s /\ s_m s = MExit 101.
Proof. eexists. split; vm_compute; reflexivity. Qed.
