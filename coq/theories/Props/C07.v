(* C07 - always terminates; worker failure is neither a hang nor a silent success.
   Property theorems only; proofs in Proofs/PipelineFacts.v. *)
From Grcov Require Import Model.Pipeline Proofs.MergeFacts Proofs.PipelineFacts.

(* Termination: every step strictly decreases a natural-number measure, so every execution - whatever the
   inputs, faults, number of workers, capacity and interleaving - has at most measure(init) steps. *)
Theorem C07_step_decreases : forall c s l s',
  length (s_w s) = n_workers c -> step c s l = Some s' ->
  (measure c s' < measure c s)%nat /\ length (s_w s') = n_workers c.
Proof. exact step_decreases. Qed.
Theorem C07_terminates : forall c items ls s,
  run c (init c items) ls = Some s -> (length ls <= measure c (init c items))%nat.
Proof. exact terminates. Qed.
(* No hang: once main does not keep a receiver handle (the repaired code), every reachable state that has
   not exited can take a step - together with termination every execution ends with an exit status. *)
Theorem C07_no_stuck_state : forall c items ls s,
  keep_rx c = false -> (1 <= n_workers c)%nat -> (1 <= cap c)%nat ->
  run c (init c items) ls = Some s -> exited s = false ->
  exists l s', step c s l = Some s'.
Proof. exact no_stuck_state. Qed.
(* No silent success: if the producer or a worker died, the exit status is not 0. *)
Theorem C07_death_gives_nonzero : forall c items ls s code,
  run c (init c items) ls = Some s -> s_m s = MExit code ->
  (s_p s = PDead \/ WDead ∈ s_w s) -> code <> 0.
Proof. exact death_gives_nonzero. Qed.
(* Reject isolation: without deaths, a run that exits 0 reports exactly the aggregation of the accepted
   inputs - the rejected ones (by the parser or by an injected rejection) contribute nothing. *)
Theorem C07_reject_isolation : forall c items ls s,
  (1 <= n_workers c)%nat -> no_deaths c items ->
  run c (init c items) ls = Some s -> s_m s = MExit 0 ->
  s_merged s ≡ₚ filter (fun i => accepted c i = true) items /\
  obs_map (s_acc s) = obs_map (add_results ∅ (concat (map (batch c) (filter (fun i => accepted c i = true) items)))).
Proof. exact exactly_once. Qed.
(* The pinned code (main kept a receiver handle) had a reachable stuck state: one worker, capacity 2, three
   inputs, the first kills the worker; reproduced on the real binary as a hang, repaired by fix: 7e36c21. *)
Theorem C07_stuck_refuted_keep_rx :
  exists ls s, run cfg_stuck (init cfg_stuck [0; 1; 2]%N) ls = Some s /\ stuck cfg_stuck s = true.
Proof. exact stuck_refuted_keep_rx. Qed.
Theorem C07_not_stuck_without_rx :
  exists s, run cfg_unstuck (init cfg_unstuck [0; 1; 2]%N) stuck_schedule = Some s /\
            stuck cfg_unstuck s = false /\
            exists s', step cfg_unstuck s LStopFail = Some s' /\ s_m s' = MExit 101.
Proof. exact not_stuck_without_rx. Qed.
