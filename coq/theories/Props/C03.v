(* C03 - report fidelity: decoding a report recovers the aggregated data.  Property theorems only.
   Modelled at the abstract-document level (Model/Reports.v): coveralls(+) coverage array, branch quadruples and functions, covdir coverage array and
   tree, Cobertura class lines / conditions, HTML file rows, Markdown row counts, ActiveData-ETL records, files.  The serialisation of the
   documents (serde_json, quick-xml, Tera) and the formats not listed (lcov bytes, Cobertura methods,
   Markdown ranges) are validated on the real outputs by independent Python readers. *)
From Grcov Require Import Model.Stats Model.Reports Proofs.StatsFacts Proofs.ReportsFacts.

(* the generic fact behind three formats: an array with one slot per line 1..n, read back slot by slot, is the line map *)
Theorem C03_line_array_fidelity : forall (A : Type) (g : option N -> A) (h : A -> option N) (m : gmap N N) (n : N),
  (forall k c, m !! k = Some c -> 1 <= k /\ k <= n) ->
  (forall k, h (g (m !! k)) = m !! k) ->
  decode_array h (line_array g m n) = m.
Proof. exact @decode_line_array. Qed.

(* line_array_n (binary line counter) is the same array: the check evaluates it for the result sets with 2^16 .. 2^20 slots *)
Theorem C03_line_array_n : forall (A : Type) (g : option N -> A) (m : gmap N N) (n : N), line_array g m n = line_array_n g m n.
Proof. exact @line_array_n_eq. Qed.

(* coveralls / coveralls+: the coverage array (null = not instrumented) carries exactly the instrumented lines and
   their counts, for every count up to 2^64-1; hypotheses the code needs: line numbers >= 1, last line < 2^32-1 *)
Theorem C03_coveralls_lines : forall c : cov,
  (forall k v, c_lines c !! k = Some v -> 1 <= k) -> last_line (c_lines c) < U32_MAX ->
  decode_cv_lines (encode_coveralls_file true [] c) = c_lines c.
Proof. exact coveralls_lines_ok. Qed.

(* the branch quadruples (line, 0, n, taken) rebuild every branch vector, slot by slot (vectors are non-empty: an empty
   vector has no quadruple; branch numbers are u32) *)
Theorem C03_coveralls_branches : forall (with_fn : bool) (rel : name) (c : cov),
  (forall k v, c_branches c !! k = Some v -> v <> [] /\ N.of_nat (length v) <= 4294967296) ->
  decode_cv_branches (encode_coveralls_file with_fn rel c) = c_branches c.
Proof. exact coveralls_branches_ok. Qed.
(* coveralls+ lists every function with name, start line and executed flag; plain coveralls lists none *)
Theorem C03_coveralls_functions : forall (rel : name) (c : cov),
  decode_cv_funcs (encode_coveralls_file true rel c) = Some (c_funcs c) /\
  decode_cv_funcs (encode_coveralls_file false rel c) = None.
Proof. exact coveralls_funcs_ok. Qed.

(* covdir: guarded by count < 2^63 (finding F9), and the witness that the guard is needed *)
Theorem C03_covdir_fidelity_partial : forall m : gmap N N,
  (forall k c, m !! k = Some c -> 1 <= k /\ c < 9223372036854775808) ->
  decode_cd_lines (cd_coverage m) = m.
Proof. exact covdir_lines_ok. Qed.
Theorem C03_covdir_fidelity_refuted :
  exists m : gmap N N, (forall k c, m !! k = Some c -> 1 <= k /\ c <= U64_MAX) /\ decode_cd_lines (cd_coverage m) <> m.
Proof. exact covdir_lines_refuted. Qed.
(* covdir: the tree holds exactly the files of the result list (none added, dropped or duplicated) *)
Theorem C03_covdir_tree_files : forall rs : list rfile,
  cd_all_files (cd_build rs) ≡ₚ map (fun r => c_lines (r_cov r)) rs.
Proof. exact cd_build_files. Qed.

(* HTML file page: for a source at least as long as the highest instrumented line, the rows show exactly the
   instrumented lines with their counts ("no coverage" otherwise); guarded by count < 2^63 (finding F9) *)
Theorem C03_html_rows_partial : forall (c : cov) (src : N),
  (forall k v, c_lines c !! k = Some v -> 1 <= k /\ k <= src /\ v < 9223372036854775808) ->
  decode_html_lines (html_rows c src) = c_lines c.
Proof. exact html_lines_ok. Qed.
Theorem C03_html_rows_lookup_partial : forall (c : cov) (src k : N),
  (forall k v, c_lines c !! k = Some v -> v < 9223372036854775808) ->
  decode_html_lines (html_rows c src) !! k = if (1 <=? k) && (k <=? src) then c_lines c !! k else None.
Proof. exact html_rows_lookup. Qed.
Theorem C03_html_rows_refuted :
  exists (c : cov) (src : N), (forall k v, c_lines c !! k = Some v -> 1 <= k /\ k <= src /\ v <= U64_MAX) /\
                              decode_html_lines (html_rows c src) <> c_lines c.
Proof. exact html_lines_refuted. Qed.

(* Cobertura: the class lines are exactly the instrumented lines with exact hits; the conditions are the branch
   outcomes of the lines that ALSO have a line count (finding F10: branch data of other lines is dropped) *)
Theorem C03_cobertura_lines : forall c : cov, decode_cob_lines (cob_lines c) = c_lines c.
Proof. exact cobertura_lines_ok. Qed.
Theorem C03_cobertura_branches_partial : forall (c : cov) (k : N),
  decode_cob_branches (cob_lines c) !! k = if decide (is_Some (c_lines c !! k)) then c_branches c !! k else None.
Proof. exact cobertura_branches_lookup. Qed.
Theorem C03_cobertura_branches_guarded : forall c : cov,
  (forall k v, c_branches c !! k = Some v -> is_Some (c_lines c !! k)) ->
  decode_cob_branches (cob_lines c) = c_branches c.
Proof. exact cobertura_branches_ok. Qed.
Theorem C03_cobertura_branches_refuted : exists c : cov, decode_cob_branches (cob_lines c) <> c_branches c.
Proof. exact cobertura_branches_refuted. Qed.

(* Markdown: the row of a file names it and shows covered = lines with a positive count, total = instrumented lines *)
Theorem C03_markdown_counts : forall p rel c,
  let r := encode_md_row p rel c in
  md_file r = rel /\ md_total r = N.of_nat (size (c_lines c)) /\
  md_covered r = covered_lines (map_to_list (c_lines c)) /\ md_covered r <= md_total r.
Proof. exact md_row_counts. Qed.

(* ActiveData-ETL.  The file record: covered / uncovered are exactly the instrumented lines with a positive / zero count,
   each once *)
Theorem C03_ade_file_lines : forall (rel : name) (c : cov),
  let F := encode_ade_file rel c in
  af_name F = rel /\
  (forall l, l ∈ ap_covered (af_file F) <-> exists n, c_lines c !! l = Some n /\ 0 < n) /\
  (forall l, l ∈ ap_uncovered (af_file F) <-> c_lines c !! l = Some 0) /\
  NoDup (ap_covered (af_file F)) /\ NoDup (ap_uncovered (af_file F)).
Proof. exact ade_file_lines_lem. Qed.
(* one method record per function of the file, names preserved, each carrying that function's lists *)
Theorem C03_ade_functions : forall (rel : name) (c : cov),
  let F := encode_ade_file rel c in
  map fst (af_methods F) = map fst (map_to_list (c_funcs c)) /\ NoDup (map fst (af_methods F)) /\
  (forall nm m, (nm, m) ∈ af_methods F <-> exists f, c_funcs c !! nm = Some f /\ m = ade_method c f).
Proof. exact ade_functions_lem. Qed.
(* a function extends from its start line to the least function start that is strictly greater (functions sharing a start
   line share the range), or past the last instrumented line when no function starts later *)
Theorem C03_ade_func_end : forall (c : cov) (f : func),
  let fe := ade_fend c f in
  (forall nm' f', c_funcs c !! nm' = Some f' -> f_start f < f_start f' -> fe <= f_start f') /\
  ((fe = ade_end c /\ forall nm' f', c_funcs c !! nm' = Some f' -> f_start f' <= f_start f) \/
   (exists nm' f', c_funcs c !! nm' = Some f' /\ f_start f' = fe /\ f_start f < fe)).
Proof. exact ade_func_end_lem. Qed.
(* the method's lists are exactly the file's covered / uncovered lines inside [start, end of the function) *)
Theorem C03_ade_method_range : forall (c : cov) (f : func) (l : N),
  (l ∈ ap_covered (ade_method c f) <-> (exists n, c_lines c !! l = Some n /\ 0 < n) /\ f_start f <= l /\ l < ade_fend c f) /\
  (l ∈ ap_uncovered (ade_method c f) <-> c_lines c !! l = Some 0 /\ f_start f <= l /\ l < ade_fend c f).
Proof. exact ade_method_range_lem. Qed.
(* every line of the file is an orphan or in some method's list; an orphan is in no method's list; method lists hold file lines *)
Theorem C03_ade_cover : forall (rel : name) (c : cov) (l : N),
  let F := encode_ade_file rel c in
  (l ∈ ap_covered (af_file F) -> l ∈ ap_covered (af_orphan F) \/ exists m, m ∈ af_methods F /\ l ∈ ap_covered m.2) /\
  (l ∈ ap_uncovered (af_file F) -> l ∈ ap_uncovered (af_orphan F) \/ exists m, m ∈ af_methods F /\ l ∈ ap_uncovered m.2) /\
  (l ∈ ap_covered (af_orphan F) <-> l ∈ ap_covered (af_file F) /\ forall m, m ∈ af_methods F -> l ∉ ap_covered m.2) /\
  (l ∈ ap_uncovered (af_orphan F) <-> l ∈ ap_uncovered (af_file F) /\ forall m, m ∈ af_methods F -> l ∉ ap_uncovered m.2) /\
  (forall m, m ∈ af_methods F -> (l ∈ ap_covered m.2 -> l ∈ ap_covered (af_file F)) /\ (l ∈ ap_uncovered m.2 -> l ∈ ap_uncovered (af_file F))).
Proof. exact ade_cover_lem. Qed.
(* non-vacuity: two functions on one start line (they share the range 2..4), one starting at 5, one past the last line
   (empty), and line 1 before every function (orphan) *)
Definition ex_ade_cov : cov :=
  mkCov {[1 := 5; 2 := 0; 3 := 0; 5 := 7; 6 := 1]} ∅
        {[ [102] := mkFunc 2 true; [103] := mkFunc 2 false; [104] := mkFunc 5 true; [122] := mkFunc 9 true ]}.
Example C03_ex_ade :
  let F := encode_ade_file [97] ex_ade_cov in
  (ap_covered (af_file F), ap_uncovered (af_file F)) = ([1; 5; 6], [2; 3]) /\
  (ap_covered (af_orphan F), ap_uncovered (af_orphan F)) = ([1], []) /\
  ade_fend ex_ade_cov (mkFunc 2 true) = 5 /\ ade_fend ex_ade_cov (mkFunc 5 true) = 9 /\ ade_fend ex_ade_cov (mkFunc 9 true) = 7 /\
  ap_uncovered (ade_method ex_ade_cov (mkFunc 2 true)) = [2; 3] /\ ap_uncovered (ade_method ex_ade_cov (mkFunc 2 false)) = [2; 3] /\
  ap_covered (ade_method ex_ade_cov (mkFunc 5 true)) = [5; 6] /\
  ade_method ex_ade_cov (mkFunc 9 true) = mkAdePart [] [] 0 0 /\ length (af_methods F) = 4%nat.
Proof. vm_compute. repeat split. Qed.

(* files: exactly the relative paths, in order *)
Theorem C03_files_exact : forall rs : list (name * cov), encode_files rs = map fst rs.
Proof. reflexivity. Qed.

(* non-vacuity: a record with the boundary counts below 2^63, a gap, and a branch on a counted line *)
Definition ex_cov : cov :=
  mkCov {[1 := 0; 2 := 1; 4 := 4294967296; 7 := 9223372036854775807]} {[2 := [true; false]]} ∅.
Example C03_ex_guards :
  (forall k v, c_lines ex_cov !! k = Some v -> 1 <= k /\ k <= 9 /\ v < 9223372036854775808) /\
  cd_coverage (c_lines ex_cov) = [0; 1; -1; 4294967296; -1; -1; 9223372036854775807]%Z /\
  map_to_list (decode_cob_branches (cob_lines ex_cov)) = [(2, [true; false])].
Proof.
  split; [|vm_compute; split; reflexivity].
  intros k v H. cbn [c_lines ex_cov] in H.
  repeat (apply lookup_insert_Some in H as [[<- <-]|[_ H]]; [lia|]). apply lookup_singleton_Some in H as [<- <-]. lia.
Qed.
