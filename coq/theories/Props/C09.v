(* C09 - gcov report fidelity (intermediate text of gcov <= 7, JSON of gcov >= 9).
   Property theorems only; the proofs are in Proofs/GcovFacts.v and Proofs/GcovJsonFacts.v. *)
From Grcov Require Import Model.GcovText Model.GcovJson Model.GcovSpec Proofs.GcovFacts Proofs.GcovJsonFacts.
Import Coq.Strings.String.StringSyntax.

(* ---------------------------------------------------------------- text form *)

(* Soundness: for EVERY well-formed report (any number of sections, records in any order, CRLF or LF,
   unknown keys, names with commas / colons / template brackets / any bytes but LF), parse_gcov of its
   bytes succeeds and returns, in order, exactly the sections that list at least one line, each with
   the record its records describe: line -> count (negative -> 0), line -> branch outcomes in record
   order (taken -> true, nottaken / notexec -> false), function -> (start line, count <> 0; a call count printed
   with a minus sign - a counter above 2^63 in old gcov - is non-zero: negative-reads-as-zero is for lines only). *)
Theorem C09_text_sound :
  forall f, wf_greport f = true ->
  exists rs, parse_gcov (render_greport f) = Ok rs /\ greport_spec f rs.
Proof. exact gcov_text_sound. Qed.

(* sections without lines are omitted; every other section is reported once, in report order *)
Theorem C09_text_sections :
  forall f rs, wf_greport f = true -> parse_gcov (render_greport f) = Ok rs ->
  rs.*1 = gs_name <$> filter (fun s => has_lcount s = true) (gr_sections f).
Proof. exact gcov_text_sections. Qed.

(* an lcount count of 2^64 or more makes the whole report an error (never a wrapped value), wherever the
   line stands and whatever surrounds it *)
Theorem C09_text_overflow_rejected :
  forall pre post l c,
  (pre = [] \/ last pre = Some 10) -> gdigits l = true -> gdigits c = true -> two64 <= dec_val c ->
  parse_gcov (pre ++ (bs "lcount:" ++ l ++ [44] ++ c) ++ [10] ++ post) = Err.
Proof. exact parse_gcov_overflow_rejected. Qed.

(* a line number / function start line of 2^32 or more is an error in every state *)
Theorem C09_text_line_number_overflow_rejected :
  forall key rest l st,
  key ∈ [k_function; k_lcount; k_branch] -> gdigits l = true -> two32 <= dec_val l ->
  gstep (key ++ [gColon] ++ l ++ [gComma] ++ rest) st = Err.
Proof. exact gstep_line_overflow. Qed.

(* a negative count reads as 0, whatever follows the minus sign *)
Theorem C09_text_neg_zero :
  forall l rest st, gdigits l = true -> dec_val l <? two32 = true ->
  gstep (bs "lcount:" ++ l ++ [44; 45] ++ rest) st =
  Ok (mkG (g_file st) (<[dec_val l := 0]> (g_lines st)) (g_branches st) (g_funcs st) (g_results st)).
Proof. exact gstep_lcount_negative. Qed.

(* for ALL byte inputs: the model needs no fuel and parse_gcov never panics (since fix 31d3a3d the final
   `cur_file` is matched instead of unwrapped; every other unwrap/index is guarded by try_next!/try_parse!) *)
Theorem C09_text_no_fuel : forall b, parse_gcov b <> OutOfFuel.
Proof. exact parse_gcov_no_fuel. Qed.
Theorem C09_text_no_panic : forall b, parse_gcov b <> Panic.
Proof. exact parse_gcov_no_panic. Qed.

(* ---------------------------------------------------------------- JSON form *)

(* From the tree serde_json produced: if serde accepts every number (u32 fields, counters through
   deserialize_counter) the result is, in order, every file object with at least one line entry, once, with
   line -> sum of the counts of its entries clamped at 2^64-1, line -> the branch outcomes of its entries
   concatenated in entry order (taken iff count > 0), function -> (start line, count > 0), a later entry for
   the same demangled name standing. *)
Theorem C09_json_sound :
  forall t d, deser t = Ok d -> parse_gcov_gz_tree t = Ok (conv d) /\ jreport_spec d (conv d).
Proof. exact gcov_json_sound. Qed.
Theorem C09_json_deser : forall t d, deser t = Ok d -> Forall2 file_rel t d.
Proof. exact deser_rel. Qed.

(* the clause in the property's words, for any line n of a file object: the line is reported iff it has an entry;
   its count is the clamped sum over its entries; its branch vector is the concatenation over its entries, in
   entry order, of "branch count positive", and it has none iff no entry has a branch *)
Theorem C09_json_line_entries :
  forall f c n, jfile_spec f c ->
  let es := entries_of n (dfile_lines f) in
  c_lines c !! n = (match es with [] => None | _ => Some (N.min (sum_N (map dl_count es)) U64_MAX) end) /\
  (es <> [] -> default [] (c_branches c !! n) = concat (map (fun l => map (fun x => 0 <? x) (dl_branches l)) es)) /\
  (c_branches c !! n = None <-> Forall (fun l => dl_branches l = []) es).
Proof. exact jfile_spec_entries. Qed.
(* with distinct line numbers in a file object, each listed line has exactly its count, and its branch
   vector is, in order, "branch count positive" (no vector for a line without branches) *)
Theorem C09_json_branch_positive :
  forall f c l, jfile_spec f c -> NoDup (map dl_number (dfile_lines f)) -> l ∈ dfile_lines f ->
  c_lines c !! dl_number l = Some (N.min (dl_count l) U64_MAX) /\
  c_branches c !! dl_number l = match dl_branches l with [] => None | b => Some (map (fun x => 0 <? x) b) end.
Proof. exact jfile_spec_line. Qed.
(* regression: the fold used before the fix of C20/gcov-json-line-in-several-functions (the last entry of a line
   stood) differs from the present one on the two-functions-on-one-line witness: 3 and [t;f;f;f] against 0 and [f;f] *)
Theorem C09_json_last_entry_fold_differs :
  let new := fold_left add_line witness_two_functions_one_line (∅, ∅) in
  let old := fold_left add_line_last_wins witness_two_functions_one_line (∅, ∅) in
  new.1 !! 1 = Some 3 /\ old.1 !! 1 = Some 0 /\
  new.2 !! 1 = Some [true; false; false; false] /\ old.2 !! 1 = Some [false; false].
Proof. exact old_fold_differs. Qed.
(* with distinct function names, each function has its start line and is executed iff its count is non-zero *)
Theorem C09_json_fun_exec :
  forall f c g, jfile_spec f c -> NoDup (map df_name (dfile_funs f)) -> g ∈ dfile_funs f ->
  c_funcs c !! df_name g = Some (mkFunc (df_start g) (0 <? df_count g)).
Proof. exact jfile_spec_fun. Qed.

(* deserialize_counter: an accepted number is read as its integer part, and fits 64 bits ... *)
Theorem C09_counter_fits : forall x v, counter_of_number x = Ok v -> jnum_floor x = Some v.
Proof. exact counter_fits. Qed.
Theorem C09_counter_in_range : forall x v, jnum_wf x = true -> counter_of_number x = Ok v -> v <= U64_MAX.
Proof. exact counter_in_range. Qed.
(* ... every non-negative number below 2^64 is accepted ... *)
Theorem C09_counter_accepts_below : forall x w, jnum_floor x = Some w -> w < two64 -> counter_of_number x = Ok w.
Proof. exact counter_accepts_below. Qed.
(* ... numbers of 2^64 or more (2^64 itself included, since fix 79d6ea6) and negative numbers are rejected *)
Theorem C09_counter_rejects_above :
  forall x w, jnum_wf x = true -> jnum_floor x = Some w -> two64 <= w -> counter_of_number x = Err.
Proof. exact counter_rejects_above. Qed.
Theorem C09_counter_rejects_two64 : forall x, jnum_wf x = true -> jnum_floor x = Some two64 -> counter_of_number x = Err.
Proof. exact counter_rejects_two64. Qed.
Theorem C09_counter_rejects_negative : forall x, jnum_floor x = None -> counter_of_number x = Err.
Proof. exact counter_rejects_negative. Qed.
(* rejection of a JSON report is an error, not a panic (since fix 61ca3c1) *)
Theorem C09_json_reject_is_error : forall t, (forall d, deser t <> Ok d) -> parse_gcov_gz_tree t = Err.
Proof. exact gcov_json_rejects. Qed.

(* ---------------------------------------------------------------- the hypotheses are satisfiable *)
Definition ex_report : greport :=
  mkGReport [(GOther (bs "version") (bs "7.3.0"), false)]
    [mkGSection (bs "src/a,b:é.c") true
       [(GFunction (bs "3") (bs "2") (bs "Foo<int, std::pair<a, b> >::bar(int)"), true);
        (GFunction (bs "9") (bs "0") (bs "g"), false);
        (GLcount (bs "3") false (bs "18446744073709551615"), false);
        (GBranch (bs "3") BTaken, false); (GBranch (bs "3") BNotExec, true); (GBranch (bs "3") BNotTaken, false);
        (GLcount (bs "04") true (bs "7"), false); (GOther (bs "lcounts") (bs "x"), false);
        (GLcount (bs "5") false (bs "0"), false)];
     mkGSection (bs "empty.h") false [(GFunction (bs "1") (bs "1") (bs "h"), false)];
     mkGSection (bs "b.c") false [(GLcount (bs "1") false (bs "1"), false);
                                    (GFunction (bs "2") (bs "-9223372036854775808") (bs "k"), false)]].
Example C09_ex_wf : wf_greport ex_report = true.
Proof. vm_compute. reflexivity. Qed.
Example C09_ex_parse :
  (fun o => match o with Ok rs => Some (map (fun '(n, c) => (n, cov_to_l c)) rs) | _ => None end)
    (parse_gcov (render_greport ex_report)) =
  Some (map (fun '(n, c) => (n, cov_to_l c)) (greport_denote ex_report)).
Proof. vm_compute. reflexivity. Qed.
Example C09_ex_denote :
  map (fun '(n, c) => (n, cov_to_l c)) (greport_denote ex_report) =
  [(bs "src/a,b:é.c", ([(3, U64_MAX); (5, 0); (4, 0)], [(3, [true; false; false])],
                        [(bs "Foo<int, std::pair<a, b> >::bar(int)", (3, true)); (bs "g", (9, false))]));
   (bs "b.c", ([(1, 1)], [], [(bs "k", (2, true))]))].
Proof. vm_compute. reflexivity. Qed.
Example C09_ex_overflow_hyp : gdigits (bs "18446744073709551616") = true /\ two64 <= dec_val (bs "18446744073709551616").
Proof. vm_compute. split; [reflexivity|discriminate]. Qed.
Definition ex_tree : list jfile :=
  [mkJFile (bs "a.c") [mkJFun (bs "f()") (JU 1) (JF false 5629499534213120 (-50))]
     [mkJLine (JU 1) (JU 7) [JU 2; JF false 0 (-1074)]; mkJLine (JU 2) (JF false 4503599627370496 11) [];
      mkJLine (JU 1) (JU 5) []; mkJLine (JU 2) (JF false 4503599627370496 11) [JU 0]; mkJLine (JU 1) (JU 0) [JU 9]];
   mkJFile (bs "nolines.h") [mkJFun (bs "g") (JU 2) (JU 1)] []].
Example C09_ex_deser : exists d, deser ex_tree = Ok d /\
  map (fun '(n, c) => (n, cov_to_l c)) (conv d) =
  [(bs "a.c", ([(1, 12); (2, U64_MAX)], [(1, [true; false; true]); (2, [false])], [(bs "f()", (1, true))]))].
Proof. eexists. split; [vm_compute; reflexivity|]. vm_compute. reflexivity. Qed.
(* the old witness of the 2^64 clamp (binary64 2^64 = 2^52 * 2^12) is now rejected; 2^64 - 2048 is the largest float accepted *)
Example C09_ex_two64_rejected :
  jnum_floor (JF false 4503599627370496 12) = Some two64 /\ counter_of_number (JF false 4503599627370496 12) = Err /\
  counter_of_number (JF false 9007199254740991 11) = Ok 18446744073709549568 /\ jnum_wf (JU U64_MAX) = true.
Proof. vm_compute. auto. Qed.
(* the old witness of the text panic is now an error *)
Example C09_ex_lcount_without_file : parse_gcov (bs "lcount:1,1") = Err.
Proof. vm_compute. reflexivity. Qed.
