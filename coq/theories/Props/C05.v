(* C05 - LCOV fixed point: grcov's own lcov report re-imports to the same report.  Property theorems only. *)
From Grcov Require Import Model.Lcov Model.LcovSpec Model.LcovOut Proofs.LcovRoundtrip.

(* decimal printing is read back exactly *)
Theorem C05_dec_roundtrip : forall n, dec_val (print_dec n) = n.
Proof. exact dec_val_print_dec. Qed.
(* every report (paths and function names without line terminators, numbers in range, non-empty branch
   vectors - what every parser of grcov produces) is read back to exactly the same list of records *)
Theorem C05_roundtrip : forall rs, results_ok rs -> parse_lcov (output_lcov rs) true = Ok rs.
Proof. exact lcov_roundtrip. Qed.
Theorem C05_roundtrip_nobranch : forall rs, results_ok rs ->
  parse_lcov (output_lcov rs) false = Ok (map (fun r => (r.1, mkCov (c_lines r.2) ∅ (c_funcs r.2))) rs).
Proof. exact lcov_roundtrip_nobranch. Qed.
(* the re-exported report is byte-identical, summary lines included *)
Theorem C05_fixed_point : forall rs rs', results_ok rs ->
  parse_lcov (output_lcov rs) true = Ok rs' -> output_lcov rs' = output_lcov rs.
Proof. exact lcov_fixed_point. Qed.
(* any number of export/import round trips changes nothing *)
Theorem C05_iter : forall k rs, results_ok rs ->
  Nat.iter k (fun o => match o with Ok r => parse_lcov (output_lcov r) true | e => e end) (Ok rs) = Ok rs.
Proof. exact lcov_iter. Qed.

(* non-vacuity: a record with a saturated count, a two-slot vector, a UTF-8 comma name *)
Import Coq.Strings.String.StringSyntax.
Definition ex_rs : list (name * cov) :=
  [(bs "src/é,1.c", cov_of_l ([(3, 18446744073709551615); (4, 0)], [(3, [true; false])], [(bs "f,g<T>", (3, true))]))].
Example C05_ex_roundtrip :
  (fun o => match o with Ok rs => Some (map (fun '(n, c) => (n, cov_to_l c)) rs) | _ => None end)
    (parse_lcov (output_lcov ex_rs) true) = Some (map (fun '(n, c) => (n, cov_to_l c)) ex_rs).
Proof. vm_compute. reflexivity. Qed.
