(* C12 - one record per source file.  Property theorems only.
   A report is made of `merge_same_paths (rewrite_paths .. None ..) filter_option` (main.rs); the model of that
   composition is `report_list` (Model/Rewrite.v). *)
From Grcov Require Import Model.Rewrite Proofs.PathsFacts Proofs.RewriteFacts Proofs.MergeFacts.
Import Coq.Strings.String.StringSyntax.
From Grcov Require Import Base.Dec.

(* Each distinct source file appears at most once: no two reported paths are equal, neither as strings nor as
   component sequences (PathBuf equality), for every filesystem, every option set and every result map. *)
Theorem C12_one_record : forall fs o kvs,
  NoDup (map rel_of (report_list fs o kvs)) /\ NoDup (map (fun t => ckey (rel_of t)) (report_list fs o kvs)).
Proof. exact one_record. Qed.
(* The record of a path is the C01 aggregate of every retained record (not ignored, kept, existing) whose
   rewritten path is that path, the covered / uncovered decision is taken on the aggregate, and the two paths
   shown are those of one of the aggregated records. *)
Theorem C12_same_file_merged : forall fs o kvs a r c,
  (a, r, c) ∈ report_list fs o kvs ->
  covs_with r (rewrite_list fs (with_filter o None) kvs) <> [] /\
  c = agg (covs_with r (rewrite_list fs (with_filter o None) kvs)) /\
  filter_ok (o_filter o) c = true /\
  exists c', (a, r, c') ∈ rewrite_list fs (with_filter o None) kvs.
Proof. exact same_file_merged. Qed.
(* No file is lost: every retained path whose aggregate passes --filter is reported (under a spelling with the
   same components). *)
Theorem C12_report_complete : forall fs o kvs r,
  covs_with r (rewrite_list fs (with_filter o None) kvs) <> [] ->
  filter_ok (o_filter o) (agg (covs_with r (rewrite_list fs (with_filter o None) kvs))) = true ->
  exists a r', ckey r' = ckey r /\ (a, r', agg (covs_with r (rewrite_list fs (with_filter o None) kvs))) ∈ report_list fs o kvs.
Proof. exact report_complete. Qed.
Theorem C12_group_lookup : forall rs k, (fun v => v.2) <$> (merge_by_rel rs !! k) = fold_group (covs_key k rs).
Proof. exact merge_by_rel_lookup. Qed.
(* the whole call, and the covered / uncovered partition on merged records *)
Theorem C12_call_is_list : forall fs o m rs, report_paths fs o m = Ok rs -> rs = report_list fs o (map_to_list m).
Proof. exact report_paths_ok. Qed.
Theorem C12_partition_filter : forall fs o kvs,
  o_filter o = None ->
  report_list fs (with_filter o (Some true)) kvs ++ report_list fs (with_filter o (Some false)) kvs ≡ₚ report_list fs o kvs.
Proof. exact report_partition_filter. Qed.

(* Why the merge stage is needed: rewrite_paths ALONE lists one file several times.  Three distinct keys, no
   source directory, three records with the same path (this was finding `duplicate-spellings`, DESIGN F7,
   repaired by 46eccbd; grcov's own unit test pins this behaviour of the library function). *)
Definition nofs : fsys := mkFs [] [] [] [].
Definition noopts : opts := mkOpts None None None false no_glob None None.
Theorem C12_rewrite_paths_alone_duplicates :
  exists kvs, NoDup kvs.*1 /\
    map rel_of (rewrite_list nofs noopts kvs) = [bs "foo/bar.c"; bs "foo/bar.c"; bs "foo/bar.c"] /\
    map rel_of (report_list nofs noopts kvs) = [bs "foo/bar.c"].
Proof.
  exists [(bs "foo/./bar.c", empty_cov); (bs "foo/bar.c", empty_cov); (bs "foo//bar.c", empty_cov)].
  split; [|split; vm_compute; reflexivity].
  cbn. repeat (apply NoDup_cons; split; [vm_compute; intros H; repeat (apply elem_of_cons in H as [H|H]; [discriminate|]); inversion H|]).
  constructor.
Qed.
(* with a source directory and the file on disk, add_results merges "./" and "//" spellings, but the backslash,
   prefixed and absolute spellings still reach rewrite_paths as distinct keys; the merge stage unites them *)
Definition fs1 : fsys :=
  mkFs [[bs "w"]; [bs "w"; bs "src"]; [bs "w"; bs "src"; bs "foo"]] [[bs "w"; bs "src"; bs "foo"; bs "bar.c"]] [] [bs "w"].
Definition o1 : opts := mkOpts None (Some (components (bs "/w/src"))) (Some (components (bs "/builds/w"))) false no_glob None None.
Theorem C12_rewrite_paths_alone_duplicates_with_source_dir :
  map (add_key fs1 (o_source o1)) [bs "foo/./bar.c"; bs "foo//bar.c"; bs "foo/bar.c"] = repeat (bs "/w/src/foo/bar.c") 3 /\
  let keys := map (add_key fs1 (o_source o1)) [bs "foo/bar.c"; bs "foo\bar.c"; bs "/builds/w/foo/bar.c"] in
  NoDup keys /\
  map rel_of (rewrite_list fs1 o1 (map (fun k => (k, empty_cov)) keys)) = repeat (bs "foo/bar.c") 3 /\
  map rel_of (report_list fs1 o1 (map (fun k => (k, empty_cov)) keys)) = [bs "foo/bar.c"].
Proof.
  split; [vm_compute; reflexivity|]. split; [|split; vm_compute; reflexivity].
  vm_compute. repeat (apply NoDup_cons; split; [intros H; repeat (apply elem_of_cons in H as [H|H]; [discriminate|]); inversion H|]).
  constructor.
Qed.
(* rewrite_paths alone: duplicates arise only from distinct keys with the same rewritten path *)
Theorem C12_rewrite_paths_one_record_if_distinct : forall fs o kvs,
  NoDup kvs.*1 ->
  (forall k1 k2 a1 r1 a2 r2, k1 ∈ kvs.*1 -> k2 ∈ kvs.*1 -> k1 <> k2 ->
     rewritten fs o k1 = Some (a1, r1) -> rewritten fs o k2 = Some (a2, r2) ->
     replace_bs (render r1) <> replace_bs (render r2)) ->
  NoDup (map rel_of (rewrite_list fs o kvs)).
Proof. exact one_record_if_distinct. Qed.

(* the witness through the whole pipeline: one record, the aggregate; and --filter sees the aggregate
   (the first spelling alone is uncovered, the merged file is covered) *)
Definition ex_kvs : list (bytes * cov) :=
  [(bs "foo/./bar.c", cov_of_l ([(1, 0)], [], [])); (bs "foo/bar.c", cov_of_l ([(1, 2); (2, 0)], [], [])); (bs "foo//bar.c", cov_of_l ([(3, 5)], [], []))].
Example C12_ex_report :
  map (fun '(a, r, c) => (r, cov_to_l c)) (report_list nofs noopts ex_kvs) = [(bs "foo/bar.c", ([(1, 2); (3, 5); (2, 0)], [], []))] /\
  map rel_of (report_list nofs (with_filter noopts (Some false)) ex_kvs) = [] /\
  map rel_of (rewrite_list nofs (with_filter noopts (Some false)) ex_kvs) = [bs "foo/bar.c"].
Proof. vm_compute. auto. Qed.
