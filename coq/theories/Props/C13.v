(* C13 - summary figures equal what their parts imply, at every level.  Property theorems only.
   Modelled formats: lcov, covdir, Cobertura, HTML (stats), Markdown, ActiveData-ETL (rates).  Rates are exact rationals
   followed by the format's rounding (IEEE rounding is not modelled; the check compares printed decimals with the exact
   rational on the real outputs). *)
From Grcov Require Import Model.Stats Model.Reports Proofs.StatsFacts Proofs.ReportsFacts.
Import Coq.Strings.String.StringSyntax.

(* lcov: LF/LH/BRF/BRH/FNF/FNH are the counts of the DA / BRDA / FN records of the same section *)
Theorem C13_lcov_summaries : forall c : cov,
  let s := lcov_summary c in
  s_LF s = N.of_nat (size (c_lines c)) /\
  s_LH s = nlen (filter (fun p => 0 <? p.2 = true) (map_to_list (c_lines c))) /\
  s_BRF s = sumN (map (fun p => nlen p.2) (map_to_list (c_branches c))) /\
  s_BRH s = sumN (map (fun p => count_true p.2) (map_to_list (c_branches c))) /\
  s_FN s = (if decide (c_funcs c = ∅) then None
            else Some (N.of_nat (size (c_funcs c)),
                       nlen (filter (fun p => f_exec p.2 = true) (map_to_list (c_funcs c))))) /\
  s_LH s <= s_LF s /\ s_BRH s <= s_BRF s /\
  (forall f h, s_FN s = Some (f, h) -> h <= f).
Proof. exact lcov_summary_facts. Qed.
(* and they are the numbers output_lcov (Model/LcovOut.v) prints after the detail records *)
Theorem C13_lcov_summaries_written : forall r : name * cov,
  let s := lcov_summary r.2 in
  out_lines (map_to_list (c_lines r.2)) =
    concat (map (fun '(l, c) => ln "DA:" (print_dec l ++ [44] ++ print_dec c)) (map_to_list (c_lines r.2))) ++
    ln "LF:" (print_dec (s_LF s)) ++ ln "LH:" (print_dec (s_LH s)) /\
  out_branches (map_to_list (c_branches r.2)) =
    concat (map (fun '(l, v) => out_branch_line l v) (map_to_list (c_branches r.2))) ++
    ln "BRF:" (print_dec (s_BRF s)) ++ ln "BRH:" (print_dec (s_BRH s)).
Proof. exact lcov_summary_written. Qed.

(* covdir, file level: total = number of lines, covered = number with a positive count (line numbers >= 1),
   missed = total - covered *)
Theorem C13_covdir_file_stats : forall m : gmap N N,
  let st := cd_file_stats m in
  cd_total st = N.of_nat (size m) /\
  cd_covered st = nlen (filter (fun p => (1 <=? p.1) && (0 <? p.2) = true) (map_to_list m)) /\
  cd_covered st <= cd_total st /\
  cd_missed st = cd_total st - cd_covered st /\
  cd_covered st + cd_missed st = cd_total st.
Proof. exact cd_file_stats_facts. Qed.
Theorem C13_covdir_file_covered : forall m : gmap N N,
  (forall k c, m !! k = Some c -> 1 <= k) ->
  cd_covered (cd_file_stats m) = covered_lines (map_to_list m).
Proof. exact cd_file_covered_pos. Qed.
(* file level against the listed detail: the number of array slots that are not -1 is linesTotal, provided no count
   reaches 2^63 (finding F9: a count of 2^64-1 is listed as -1 but counted in linesTotal) *)
Theorem C13_covdir_total_matches_array_partial : forall m : gmap N N,
  (forall k c, m !! k = Some c -> 1 <= k /\ c < 9223372036854775808) ->
  cd_total (cd_file_stats m) = nlen (filter (fun z => is_Some (cd_read z)) (cd_coverage m)).
Proof. exact covdir_total_matches_array_partial_lem. Qed.
Theorem C13_covdir_total_matches_array_refuted :
  exists m : gmap N N, (forall k c, m !! k = Some c -> 1 <= k /\ c <= U64_MAX) /\
    cd_total (cd_file_stats m) <> nlen (filter (fun z => is_Some (cd_read z)) (cd_coverage m)).
Proof. exact covdir_total_matches_array_refuted_lem. Qed.

(* covdir, directory level: the three figures of a directory are the sums over all files below it, up to the root *)
Theorem C13_covdir_dir_total : forall t : cdtree,
  cd_total (cd_set_stats t) = sumN (map (fun m => cd_total (cd_file_stats m)) (cd_all_files t)) /\
  cd_covered (cd_set_stats t) = sumN (map (fun m => cd_covered (cd_file_stats m)) (cd_all_files t)) /\
  cd_missed (cd_set_stats t) = sumN (map (fun m => cd_missed (cd_file_stats m)) (cd_all_files t)).
Proof. exact covdir_dir_total_lem. Qed.
(* one level: a directory is the sum of its children (files, then sub-directories with their own totals) *)
Theorem C13_covdir_dir_children : forall nm fs ds,
  cd_set_stats (CDNode nm fs ds) =
  foldl cdstats_add (foldl cdstats_add cd0 (map (fun f => cd_file_stats f.2) fs)) (map cd_set_stats ds).
Proof. reflexivity. Qed.
(* covered <= total and covered + missed = total at every node of the tree built from any result list *)
Theorem C13_covered_plus_missed : forall t : cdtree,
  cd_covered (cd_set_stats t) + cd_missed (cd_set_stats t) = cd_total (cd_set_stats t).
Proof. exact cd_set_stats_ok. Qed.
Theorem C13_covered_le_total : forall t : cdtree, cd_covered (cd_set_stats t) <= cd_total (cd_set_stats t).
Proof. exact covered_le_total_lem. Qed.
(* the root of the report of a result list sums exactly the files of the list (no file lost or invented by the tree) *)
Theorem C13_covdir_root_total : forall rs : list rfile,
  cd_total (cd_set_stats (cd_build rs)) = sumN (map (fun r => N.of_nat (size (c_lines (r_cov r)))) rs).
Proof. exact covdir_root_total_lem. Qed.

(* Cobertura: class / package figures and the global sums *)
Theorem C13_cobertura_class_le : forall ls,
  lines_covered (cob_from_lines ls) <= lines_valid (cob_from_lines ls) /\
  branches_covered (cob_from_lines ls) <= branches_valid (cob_from_lines ls).
Proof. exact cob_from_lines_le. Qed.
Theorem C13_cobertura_sums : forall rs : list (name * cov),
  let g := (encode_cobertura rs).2 in
  let ps := map snd (encode_cobertura rs).1 in
  lines_valid g = sumN (map lines_valid ps) /\ lines_covered g = sumN (map lines_covered ps) /\
  branches_valid g = sumN (map branches_valid ps) /\ branches_covered g = sumN (map branches_covered ps) /\
  lines_covered g <= lines_valid g /\ branches_covered g <= branches_valid g.
Proof. exact cobertura_sums_lem. Qed.

(* HTML: file stats, directory stats = sum of the directory's files, global = sum of all reported files *)
Theorem C13_html_file_stats_le : forall c : cov,
  let s := html_get_stats c in h_cl s <= h_tl s /\ h_cf s <= h_tf s /\ h_cb s <= h_tb s.
Proof. exact html_get_stats_le. Qed.
Theorem C13_html_dir_sums : forall (fs : list (name * hstats)) (d : name),
  html_dirs fs !! d =
    match filter (fun f => f.1 = d) fs with
    | [] => None
    | l => Some (foldl hs_add hs0 (map snd l))
    end.
Proof. exact html_dirs_lookup. Qed.
Theorem C13_html_global_sums : forall fs : list (name * hstats),
  h_tl (html_global fs) = sumN (map (fun f => h_tl f.2) fs) /\ h_cl (html_global fs) = sumN (map (fun f => h_cl f.2) fs) /\
  h_tf (html_global fs) = sumN (map (fun f => h_tf f.2) fs) /\ h_cf (html_global fs) = sumN (map (fun f => h_cf f.2) fs) /\
  h_tb (html_global fs) = sumN (map (fun f => h_tb f.2) fs) /\ h_cb (html_global fs) = sumN (map (fun f => h_cb f.2) fs).
Proof. exact html_global_sums_lem. Qed.
(* the badge and coverage.json are computed from the same two global numbers as the index summary *)
Theorem C13_badge_same_totals : forall (x y p : N),
  (exists q, html_percent x y = RNum q /\ html_shown x y p = RNum (round_to p q) /\ badge_percent x y = Some (Qfloor q)).
Proof. exact badge_same_totals_lem. Qed.

(* Markdown: covered / total of a row *)
Theorem C13_markdown_row : forall p rel c,
  let r := encode_md_row p rel c in
  md_file r = rel /\ md_total r = N.of_nat (size (c_lines c)) /\
  md_covered r = covered_lines (map_to_list (c_lines c)) /\ md_covered r <= md_total r.
Proof. exact md_row_counts. Qed.

(* Rates.  With a non-zero total every printed rate is a number in range within half a unit of the last printed
   digit of covered/total (exact-rational model of the division, then the format's rounding). *)
Theorem C13_rate_precision_covdir : forall x y p, x <= y -> 0 < y ->
  rate_spec (covdir_percent x y p) (NQ x / NQ y * 100)%Q p 100.
Proof. exact covdir_percent_spec. Qed.
Theorem C13_rate_precision_html : forall x y p, x <= y -> 0 < y ->
  rate_spec (html_shown x y p) (NQ x / NQ y * 100)%Q p 100.
Proof. exact html_shown_spec. Qed.
Theorem C13_rate_precision_markdown : forall x y p, x <= y -> 0 < y ->
  rate_spec (markdown_percent x y p) (NQ x / NQ y * 100)%Q p 100.
Proof. exact markdown_percent_spec. Qed.
Theorem C13_rate_cobertura : forall x y, x <= y -> 0 < y ->
  exists q, cobertura_rate x y = RNum q /\ (q == NQ x / NQ y)%Q /\ (0 <= q)%Q /\ (q <= 1)%Q.
Proof. exact cobertura_rate_spec. Qed.
(* ActiveData-ETL: every total_covered / total_uncovered is the length of the list next to it; the file's two totals are
   the lines with a positive count and add up to the instrumented lines *)
Theorem C13_ade_totals : forall (rel : name) (c : cov),
  let F := encode_ade_file rel c in
  ap_total_covered (af_file F) = nlen (ap_covered (af_file F)) /\ ap_total_uncovered (af_file F) = nlen (ap_uncovered (af_file F)) /\
  ap_total_covered (af_orphan F) = nlen (ap_covered (af_orphan F)) /\ ap_total_uncovered (af_orphan F) = nlen (ap_uncovered (af_orphan F)) /\
  (forall m, m ∈ af_methods F -> ap_total_covered m.2 = nlen (ap_covered m.2) /\ ap_total_uncovered m.2 = nlen (ap_uncovered m.2)) /\
  ap_total_covered (af_file F) = covered_lines (map_to_list (c_lines c)) /\
  ap_total_covered (af_file F) + ap_total_uncovered (af_file F) = N.of_nat (size (c_lines c)).
Proof. exact ade_totals_lem. Qed.
Theorem C13_rate_activedata : forall c u, 0 < c + u ->
  exists q, ade_percent c u = RNum q /\ (q == NQ c / NQ (c + u))%Q /\ (0 <= q)%Q /\ (q <= 1)%Q.
Proof. exact ade_percent_spec. Qed.
(* The decision each format takes when the total is zero: covdir 0, Cobertura 0, HTML 100 (shown as 100, badge 100);
   Markdown 100 (since fix: 340319e); ActiveData divides by zero. *)
Theorem C13_rate_total_zero : forall x p,
  covdir_percent x 0 p = RNum 0 /\ cobertura_rate x 0 = RNum 0 /\ html_percent x 0 = RNum 100 /\
  html_shown x 0 p = RNum (round_to p 100) /\ badge_percent x 0 = Some 100%Z /\
  markdown_percent x 0 p = RNum (round_to p 100) /\ ade_percent 0 0 = RNaN.
Proof. exact rate_total_zero. Qed.
Theorem C13_round_to_100 : forall p, (round_to p 100 == 100)%Q.
Proof. exact round_to_100. Qed.
Theorem C13_rate_total_zero_finite : forall x y p,
  is_finite (covdir_percent x y p) = true /\ is_finite (cobertura_rate x y) = true /\
  is_finite (html_percent x y) = true /\ is_finite (html_shown x y p) = true.
Proof. exact rate_always_finite. Qed.
(* Markdown (after fix: 340319e): finite for every covered / total, including total = 0 *)
Theorem C13_markdown_rate_finite : forall x y p, is_finite (markdown_percent x y p) = true.
Proof. exact markdown_rate_always_finite. Qed.
(* finding F8 (remaining half): the same statement is false for ActiveData (a file or function without lines) *)
Theorem C13_activedata_rate_total_zero_finite_refuted : exists c u, is_finite (ade_percent c u) = false.
Proof. exact activedata_rate_total_zero_finite_refuted_lem. Qed.

(* non-vacuity: a two-level tree with three files *)
Example C13_ex_tree :
  let t := cd_build [mkRfile [] [[115]; [97]] [] (mkCov {[1 := 5; 2 := 0]} ∅ ∅) 0;
                     mkRfile [] [[115]; [100]; [98]] [] (mkCov {[7 := 1]} ∅ ∅) 0;
                     mkRfile [] [[99]] [] (mkCov {[3 := 0]} ∅ ∅) 0] in
  (cd_total (cd_set_stats t), cd_covered (cd_set_stats t), cd_missed (cd_set_stats t)) = (4, 2, 2) /\ length (cd_all_files t) = 3%nat.
Proof. vm_compute. split; reflexivity. Qed.
