(* C11 - file selection and path rewriting follow the user's filters exactly.  Property theorems only.
   The model is Model/Paths.v (std::path on Unix) and Model/Rewrite.v (rewrite_paths over an explicit
   filesystem value); glob verdicts are arbitrary functions (universally quantified). *)
From Grcov Require Import Model.Rewrite Proofs.PathsFacts Proofs.RewriteFacts.
Import Coq.Strings.String.StringSyntax.
From Grcov Require Import Base.Dec.

(* ---- normalize_path ---- *)
(* every path read from bytes is well formed: names are non-empty, contain no '/', are not "." or "..";
   "." survives only as the first component of a relative path *)
Theorem C11_components_wf : forall b, wf_path (components b) = true.
Proof. exact components_wf. Qed.
(* the result of normalize_path has names only: no ".", no "..", no empty component *)
Theorem C11_normal_form : forall p q, wf_path p = true -> normalize_path p = Some q -> normal q = true.
Proof. exact normalize_normal. Qed.
Theorem C11_normalize_idem : forall p q, normalize_path p = Some q -> normalize_path q = Some q.
Proof. exact normalize_idem. Qed.
(* a normal form written out with '/' reads back as itself *)
Theorem C11_render_roundtrip : forall q, normal q = true -> components (render q) = q.
Proof. exact components_render_normal. Qed.
(* normalize_path gives up (and the key is dropped) exactly when some prefix of the component sequence has
   more ".." than names.  This holds for absolute paths as well: "/.." is dropped, it does not stay at "/". *)
Theorem C11_escape_dropped : forall p,
  normalize_path p = None <-> exists k : nat, (count_name (take k (p_segs p)) < count_up (take k (p_segs p)))%nat.
Proof. exact normalize_none. Qed.
Theorem C11_escape_dropped_key : forall fs o k,
  (exists n : nat, let s := p_segs (fixup_rel_path (o_source o)
        (abs_candidate fs (o_source o) (remove_prefix (o_prefix o) (apply_mapping (o_mapping o) (replace_bs k))))
        (remove_prefix (o_prefix o) (apply_mapping (o_mapping o) (replace_bs k)))) in
      (count_name (take n s) < count_up (take n s))%nat) ->
  forall c, rewrite_one fs o k c = None.
Proof. exact escape_dropped_key. Qed.

(* ---- selection ---- *)
(* a record is reported iff it comes from a key whose rewritten path is not ignored, is kept when a
   keep-only set is given, exists when --ignore-not-existing is given, and has the requested status *)
Theorem C11_present_iff : forall fs o kvs t,
  t ∈ rewrite_list fs o kvs <->
  exists k c a r, (k, c) ∈ kvs /\ rewritten fs o k = Some (a, r) /\
    o_ignore o (render r) = false /\
    (o_keep o = None \/ exists g, o_keep o = Some g /\ g (render r) = true) /\
    (o_ine o = true -> exists_ fs a = true) /\
    filter_ok (o_filter o) c = true /\
    t = (a, replace_bs (render r), c).
Proof. exact present_iff. Qed.
(* for one glob set g: --ignore g and --keep-only g partition the report (paths and data) *)
Theorem C11_partition_ignore_keep : forall fs o (g : bytes -> bool) kvs,
  o_ignore o = no_glob -> o_keep o = None ->
  rewrite_list fs (with_ignore o g) kvs ++ rewrite_list fs (with_keep o (Some g)) kvs ≡ₚ rewrite_list fs o kvs.
Proof. exact partition_ignore_keep. Qed.
Theorem C11_partition_filter : forall fs o kvs,
  o_filter o = None ->
  rewrite_list fs (with_filter o (Some true)) kvs ++ rewrite_list fs (with_filter o (Some false)) kvs ≡ₚ rewrite_list fs o kvs.
Proof. exact partition_filter. Qed.
(* the whole call: result = the per-key closure over the map's entries; option variants that share
   mapping and source_dir return (or panic) together *)
Theorem C11_call_is_list : forall fs o m rs, rewrite_paths fs o m = Ok rs -> rs = rewrite_list fs o (map_to_list m).
Proof. exact rewrite_paths_ok. Qed.
Theorem C11_call_same_outcome : forall fs o o' m,
  o_mapping o' = o_mapping o -> o_source o' = o_source o ->
  forall rs, rewrite_paths fs o m = Ok rs -> rewrite_paths fs o' m = Ok (rewrite_list fs o' (map_to_list m)).
Proof. exact rewrite_paths_same_outcome. Qed.
(* the coverage record of a reported file is the record stored under its key, unchanged *)
Theorem C11_data_passthrough : forall fs o kvs a r c, (a, r, c) ∈ rewrite_list fs o kvs -> exists k, (k, c) ∈ kvs.
Proof. exact data_passthrough. Qed.

(* ---- rewriting ---- *)
(* a path under the prefix directory loses exactly the prefix's components; any other path is untouched *)
Theorem C11_prefix_removed : forall d p q,
  strip_pfx p d = Some q -> remove_prefix (Some d) p = q /\ clist p = clist d ++ clist q.
Proof. exact prefix_removed. Qed.
Theorem C11_prefix_not_under : forall d p, starts_with p d = false -> remove_prefix (Some d) p = p.
Proof. exact prefix_not_under. Qed.
Theorem C11_prefix_join : forall d q,
  p_abs q = false -> is_empty d = false -> drop_cur (p_segs q) = p_segs q -> remove_prefix (Some d) (pjoin d q) = q.
Proof. exact prefix_join. Qed.
(* when the (canonicalised, else as-written) absolute path starts with the source directory, the reported
   path is relative, it is the normal form of the remainder, and abs = source_dir / rel *)
Theorem C11_under_source_relative : forall fs sd rel a r l,
  sd = mkPath true (map Name l) ->
  get_abs_path fs (Some sd) rel = Some (a, r) ->
  starts_with (abs_candidate fs (Some sd) rel) sd = true ->
  p_abs r = false /\ a = mkPath true (p_segs sd ++ p_segs r) /\
  normalize_path (mkPath false (drop (length l) (p_segs (abs_candidate fs (Some sd) rel)))) = Some r.
Proof. exact under_source_relative. Qed.
(* both reported paths are sequences of names *)
Theorem C11_reported_shape : forall fs sd rel a r,
  get_abs_path fs sd rel = Some (a, r) -> (exists la, p_segs a = map Name la) /\ (exists lr, p_segs r = map Name lr).
Proof. exact get_abs_path_shape. Qed.
Theorem C11_reported_normal : forall fs sd rel a r,
  wf_path (abs_candidate fs sd rel) = true -> wf_path (fixup_rel_path sd (abs_candidate fs sd rel) rel) = true ->
  get_abs_path fs sd rel = Some (a, r) -> normal a = true /\ normal r = true.
Proof. exact get_abs_path_normal. Qed.

(* ---- examples: the hypotheses are satisfiable, and two corners where the property's text fails ---- *)
Definition fs0 : fsys :=
  mkFs [[bs "w"]; [bs "w"; bs "src"]; [bs "w"; bs "src"; bs "foo"]; [bs "w"; bs "other"]]
       [[bs "w"; bs "src"; bs "foo"; bs "bar.c"]; [bs "w"; bs "src"; bs "a.c"]] [] [bs "w"].
Definition o0 : opts := mkOpts None (Some (components (bs "/w/src"))) (Some (components (bs "/builds/worker"))) false no_glob None None.
Definition show (r : option (path * path)) := match r with Some (a, r) => Some (render a, render r) | None => None end.
(* five spellings of one existing file: all rewritten to (/w/src/foo/bar.c, foo/bar.c) *)
Example C11_ex_spellings :
  map (fun k => show (rewritten fs0 o0 k))
      [bs "foo/bar.c"; bs "./foo//bar.c"; bs "foo\bar.c"; bs "/w/src/foo/./bar.c"; bs "/builds/worker/foo/bar.c"; bs "/w/other/../src/foo/bar.c"]
  = repeat (Some (bs "/w/src/foo/bar.c", bs "foo/bar.c")) 6.
Proof. vm_compute. reflexivity. Qed.
(* escaping keys are dropped, relative and absolute *)
Example C11_ex_escape :
  map (fun k => show (rewritten fs0 (mkOpts None None None false no_glob None None) k)) [bs "../x.c"; bs "a/../../x.c"; bs "/../x.c"; bs "/a/../../x.c"]
  = [None; None; None; None].
Proof. vm_compute. reflexivity. Qed.
(* known corner (finding `unresolved-dotdot-abs`): an absolute key that reaches the source directory through a
   ".." after a missing directory cannot be canonicalised; the file lies under source_dir but is reported absolute *)
Example C11_unresolved_dotdot_reported_absolute :
  show (rewritten fs0 o0 (bs "/w/missing/../src/a.c")) = Some (bs "/w/src/a.c", bs "/w/src/a.c").
Proof. vm_compute. reflexivity. Qed.
(* known corner (finding `backslash-in-mapped-path`): a mapped value containing '\' is one file name for
   normalize_path and is turned into separators afterwards: the reported path contains ".." *)
Example C11_backslash_mapping_not_normal :
  (fun t => (t.1.2, normal (components t.1.2))) <$>
    rewrite_one fs0 (mkOpts (Some [(bs "x.c", bs "a\..\b.c")]) None None false no_glob None None) (bs "x.c") empty_cov
  = Some (bs "a/../b.c", false).
Proof. vm_compute. reflexivity. Qed.
