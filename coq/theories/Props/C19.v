(* C19 - writes stay inside the temp dir and the output path.  Property theorems only (lexical confinement of every
   destination path; what the kernel does with symbolic links and what the external gcov writes are observed by the check). *)
From Grcov Require Import Model.Confine Proofs.ConfineFacts Model.Producer Proofs.ProducerFacts.
Import Coq.Strings.String.StringSyntax.

(* A member whose name is relative and free of ".." is extracted inside the temporary directory, whatever else it contains. *)
Theorem C19_extract_confined : forall tmp p f, safe p = true -> resolves_under tmp (extract_dest p f).
Proof. exact extract_confined. Qed.
(* Every zip member that discovery hands on (Model/Producer.v `found`, i.e. after `is_safe_entry_name`, fix ee819ce) is
   extracted inside the temporary directory.  Directory members are named by WalkDir relative to the directory
   (no root, no '..': C19_extract_confined applies); the plain-file archive is never extracted. *)
Theorem C19_extract_confined_all : forall l a e tmp f,
  In (a, e) (found l) -> a_kind a = Zip -> resolves_under tmp (extract_dest (parse (e_name e)) f).
Proof. intros l a e tmp f H K. apply extract_confined. exact (found_zip_safe l a e H K). Qed.
(* The names that used to escape (zip-slip, found by this check, fixed): `safe_entry` rejects them, and they would escape. *)
Example C19_unsafe_names_rejected :
  safe_entry (bs "../../canary/x.gcno") = false /\ safe_entry (bs "/sb/canary/abs.gcno") = false /\
  ~ resolves_under [bs "sb"; bs "tmp"; bs ".tmpAAAA"] (extract_dest (parse (bs "../../canary/x.gcno")) (bs "x_1.gcno")) /\
  ~ resolves_under [bs "sb"; bs "tmp"; bs ".tmpAAAA"] (extract_dest (parse (bs "/sb/canary/abs.gcno")) (bs "abs_1.gcno")).
Proof.
  split; [vm_compute; reflexivity|]. split; [vm_compute; reflexivity|].
  split; intros H%resolves_underb_spec; vm_compute in H; discriminate.
Qed.
(* HTML pages: rewrite_paths only lets normalised relative paths through (C11); for those the page is inside the output directory. *)
Theorem C19_html_confined : forall out rel f, safe rel = true -> resolves_under out (html_dest rel f).
Proof. exact html_confined. Qed.
Theorem C19_html_unnormalised_refuted :
  exists rel f, ~ resolves_under [bs "sb"; bs "out"] (html_dest rel f).
Proof.
  exists (parse (bs "../canary/victim.c")), (bs "victim.c.html").
  intros H%resolves_underb_spec. vm_compute in H. discriminate.
Qed.
(* index.html, coverage.json, badges, the per-type file names of a multi-output run *)
Theorem C19_outputs_confined : forall out, Forall (fun p => resolves_under out p) fixed_outputs.
Proof. exact fixed_outputs_confined. Qed.
(* worker directories and the gcov output files inside them *)
Theorem C19_workers_confined : forall tmp i f, resolves_under tmp (worker_dir i) /\ resolves_under tmp (gcov_out i f).
Proof. exact worker_confined. Qed.
(* the decision procedure used by the check is the predicate of the theorems *)
Theorem C19_resolves_underb_spec : forall root p, resolves_underb root p = true <-> resolves_under root p.
Proof. exact resolves_underb_spec. Qed.
(* hypotheses are satisfiable: ordinary member names are safe *)
Example C19_safe_example : safe_entry (bs "obj/dir/file.gcno") = true /\ safe_entry (bs "./a.gcda") = true /\
  safe_entry (bs "a/../../b.gcno") = false /\ safe_entry (bs "/etc/x.gcno") = false.
Proof. vm_compute. repeat split; reflexivity. Qed.
