(* C08 - gcno/gcda counts agree with the toolchain's gcov.  What is proved is about the counting algorithm
   (model of reader.rs); the agreement with llvm-cov's line attribution is established differentially by the check
   (llvm-cov gcov vs Gcno::compute vs this model, on compiled generated programs).  Property theorems only. *)
From Grcov Require Import Model.GcnoCount Model.GcnoFlow Proofs.GcnoBase Proofs.GcnoShape Proofs.GcnoStruct Proofs.GcnoExec Proofs.GcnoFlow Proofs.GcnoRecover.

(* In an executed function, a line carried by exactly one block gets that block's execution count. *)
Theorem C08_single_block_line : forall f line b blk ex fl,
  lines_to_block (f_blocks f) !! line = Some [b] -> nthN (f_blocks f) b = Some blk ->
  add_line_count wrap64 sub64 f = Ok (ex, fl) -> ex = true -> fl !! line = Some (b_counter blk).
Proof. exact (single_block_line wrap64 sub64). Qed.

(* The instrumented lines of a function are exactly the lines listed for its blocks, executed or not. *)
Theorem C08_instrumented_lines : forall f ex fl,
  add_line_count wrap64 sub64 f = Ok (ex, fl) ->
  forall line, is_Some (fl !! line) <-> line ∈ all_lines (f_blocks f).
Proof. intros f ex fl H. exact (add_line_count_dom wrap64 sub64 f (ex, fl) H). Qed.

(* A function whose first arc was never taken is reported not executed and adds count 0 to each of its lines
   (counts the file already has from other functions are kept). *)
Theorem C08_unexecuted_zero : forall br res f res',
  first_arc_positive f = false -> fin_fun wrap64 sub64 br res f = Ok res' ->
  exists c', res' !! f_file f = Some c' /\
    (forall line, c_lines c' !! line =
       match c_lines (default empty_cov (res !! f_file f)) !! line with
       | Some n => Some n
       | None => if bool_decide (line ∈ all_lines (f_blocks f)) then Some 0 else None
       end).
Proof. exact (unexecuted_zero wrap64 sub64). Qed.

(* The executed flag is "first arc counter > 0". *)
Theorem C08_executed_flag : forall br res f res',
  fin_fun wrap64 sub64 br res f = Ok res' ->
  exists c', res' !! f_file f = Some c' /\
             c_funcs c' !! f_name f = Some (mkFunc (f_start_line f) (first_arc_positive f)).
Proof. exact (executed_iff_first_arc wrap64 sub64). Qed.

(* Flow uniqueness.  net edges v = (sum of the counters of the arcs entering block v) - (sum of those leaving it);
   peel_ok edges ord = the ON_TREE arcs (the virtual sink->source arc included) can be removed leaf by leaf in the
   order ord, i.e. they form a forest.  Then two assignments of counters to the same arcs that are both conserving
   at every block and agree on the measured (not ON_TREE) arcs agree on every arc.  The check evaluates
   `conserving` and `peel_ok` on the model state after `stop` for every compiled program: whenever they hold, the
   counts grcov derived are the only ones any correct gcov can print. *)
Theorem C08_flow_unique : forall ed1 ed2 ord,
  map eshape ed1 = map eshape ed2 ->
  peel_ok ed1 ord = true ->
  (forall v, net ed1 v = 0%Z) -> (forall v, net ed2 v = 0%Z) ->
  (forall k e1 e2, ed1 !! k = Some e1 -> ed2 !! k = Some e2 -> is_on_tree e1 = false -> e_counter e1 = e_counter e2) ->
  map e_counter ed1 = map e_counter ed2.
Proof. exact flow_unique. Qed.
(* the executable check `conserving` (blocks below nb) gives conservation at every vertex *)
Theorem C08_conserving_all : forall nb edges,
  Forall (fun e => e_src e < N.of_nat nb /\ e_dst e < N.of_nat nb) edges -> conserving nb edges = true ->
  forall v, net edges v = 0%Z.
Proof. exact conserving_all. Qed.

(* Flow recovery.  tree_graph version f = the blocks and arcs count_on_tree works on (the function's graph with the
   virtual sink->source ON_TREE arc).  rooted_b = executable check of a rooted-forest witness for its ON_TREE arcs
   (parent arc / parent block, rank and root of every block; found by find_rooted and evaluated by the check on every
   compiled program).  For EVERY assignment c of counts to the arcs that agrees with the measured (not ON_TREE)
   counters and is conserving at every block (sum over the block's incoming list = sum over its outgoing list, below
   2^64), count_on_tree leaves counter e = c e on every arc: the algorithm computes the flow that C08_flow_unique
   shows to be the only one. *)
Theorem C08_flow_recovery : forall version f f' blocks edges parl rankl rootl (c : N -> N),
  2 <= lenN (f_blocks f) ->
  tree_graph version f = Ok (blocks, edges) ->
  rooted_b blocks edges parl rankl rootl = true ->
  (forall id e, nthN edges id = Some e -> is_on_tree e = false -> e_counter e = c id) ->
  (forall b blk, nthN blocks b = Some blk -> sumc c (b_src blk) = sumc c (b_dst blk)) ->
  (forall b blk, nthN blocks b = Some blk -> sumc c (b_src blk) < two64) ->
  count_on_tree wrap64 version f = Ok f' ->
  map eshape (f_edges f') = map eshape edges /\ forall id e, nthN (f_edges f') id = Some e -> e_counter e = c id.
Proof. intros version f f' blocks edges parl rankl rootl c. exact (flow_recovery wrap64 version f f' blocks edges parl rankl rootl c wrap64_small). Qed.
(* ... and counter b = the sum of the counts of ALL arcs leaving b, when before counting every block counter is the
   sum of its measured outgoing arcs (blocks_consistent: the state read_gcda leaves, evaluated by the check) and the
   out-flow of every block fits in 64 bits. *)
Theorem C08_flow_recovery_blocks : forall version f f' blocks edges parl rankl rootl (c : N -> N),
  2 <= lenN (f_blocks f) ->
  tree_graph version f = Ok (blocks, edges) ->
  rooted_b blocks edges parl rankl rootl = true ->
  (forall id e, nthN edges id = Some e -> is_on_tree e = false -> e_counter e = c id) ->
  (forall b blk, nthN blocks b = Some blk -> sumc c (b_src blk) = sumc c (b_dst blk)) ->
  (forall b blk, nthN blocks b = Some blk -> sumc c (b_src blk) < two64) ->
  blocks_consistent blocks edges = true ->
  count_on_tree wrap64 version f = Ok f' ->
  (forall b, osum any_arc (f_edges f') b < two64) ->
  forall b blk', nthN (f_blocks f') b = Some blk' -> b_counter blk' = osum any_arc (f_edges f') b.
Proof. intros version f f' blocks edges parl rankl rootl c. exact (flow_recovery_blocks wrap64 version f f' blocks edges parl rankl rootl c wrap64_small). Qed.
