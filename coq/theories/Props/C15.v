(* C15 - run data only scales counts: structural laws of the gcno/gcda reader.  Property theorems only. *)
From Grcov Require Import Model.GcnoCount Proofs.GcnoBase Proofs.GcnoReadSafe Proofs.GcnoShape Proofs.GcnoLaws Proofs.GcnoZero
  Proofs.GcnoPerm Proofs.GcnoRel Proofs.GcnoScale Proofs.GcnoStruct Proofs.GcnoExec Proofs.GcnoWrap.
From Grcov Require Import Model.GcnoFlow.
From Grcov Require Import Run.ShowGcno.

(* compute_map is the model of Gcno::compute with u64 wrapping arithmetic (release build); its result is the map
   file name -> coverage record.  compute = its map_to_list. *)

(* 1. A gcda whose version or checksum word differs from the gcno's (or whose header cannot be read) is never mixed
   in: wherever it stands in the list, the computation for the notes file is an error. *)
Theorem C15_mismatch_is_error_header : forall gcno_buf g ds1 d ds2 br,
  read_gcno gcno_buf = Ok g ->
  (forall v c, gcda_header d = Some (v, c) -> v <> g_version g \/ c <> g_checksum g) ->
  compute_map gcno_buf (ds1 ++ d :: ds2) br = Err.
Proof. exact (mismatch_is_error_header wrap64 sub64). Qed.
(* The same for a gcda whose first function record names a function of the gcno with a different line or cfg checksum. *)
Theorem C15_mismatch_is_error_function : forall gcno_buf g ds1 d ds2 br id lsum csum fid f,
  read_gcno gcno_buf = Ok g ->
  gcda_first_function d = Some (id, lsum, csum) ->
  find_ident id (g_funs g) = Some fid -> nthN (g_funs g) fid = Some f ->
  lsum <> f_line_sum f \/ csum <> f_cfg_sum f ->
  compute_map gcno_buf (ds1 ++ d :: ds2) br = Err.
Proof. exact (mismatch_is_error_function wrap64 sub64). Qed.

(* 2. With no gcda every line count is 0, no function is executed, every branch is not taken. *)
Theorem C15_no_gcda_all_zero : forall gcno_buf br m,
  compute_map gcno_buf [] br = Ok m ->
  map_Forall (fun _ c =>
    map_Forall (fun _ n => n = 0) (c_lines c) /\
    map_Forall (fun _ f => f_exec f = false) (c_funcs c) /\
    map_Forall (fun _ v => Forall (fun b => b = false) v) (c_branches c)) m.
Proof. exact (no_gcda_all_zero wrap64 sub64 eq_refl). Qed.

(* 3. The structure is determined by the gcno alone: for every file, the set of instrumented lines, the functions
   with their start lines and the number of slots of every branch vector are the same with any gcda list as with none. *)
Theorem C15_structure_from_gcno : forall gcno_buf ds br r r0,
  compute_map gcno_buf ds br = Ok r ->
  compute_map gcno_buf [] br = Ok r0 ->
  forall file, option_Forall2 (fun c c0 =>
      (forall line, is_Some (c_lines c !! line) <-> is_Some (c_lines c0 !! line)) /\
      f_start <$> c_funcs c = f_start <$> c_funcs c0 /\
      length <$> c_branches c = length <$> c_branches c0) (r !! file) (r0 !! file).
Proof. exact (structure_from_gcno wrap64 sub64). Qed.

(* 4. The result does not depend on the order of the gcda files (u64 wrap-around included). *)
Lemma wrap64_absorb x y : wrap64 (wrap64 x + y) = wrap64 (x + y).
Proof. unfold wrap64. by rewrite N.add_mod_idemp_l. Qed.
Theorem C15_gcda_order_irrelevant : forall gcno_buf ds ds' br,
  ds ≡ₚ ds' -> compute_map gcno_buf ds br = compute_map gcno_buf ds' br.
Proof. exact (gcda_order_irrelevant wrap64 wrap64_absorb eq_refl sub64). Qed.

(* 5. k copies of one gcda give k times the counts of one copy: same outcome class; on success, per file, every
   line count is multiplied by k, the function records (names, start lines, executed flags) and the branch vectors
   are identical.  Overflow is excluded by evaluating the same model in exact arithmetic (W = id, `-` = N.sub). *)
Theorem C15_k_copies_scale : forall gcno_buf d (k : nat) br, (1 <= k)%nat ->
  match compute_map_gen Wid N.sub gcno_buf [d] br, compute_map_gen Wid N.sub gcno_buf (repeat d k) br with
  | Ok r, Ok rk =>
      forall file, option_Forall2 (fun c ck =>
        (forall line, option_Forall2 (fun n nk => nk = N.of_nat k * n) (c_lines c !! line) (c_lines ck !! line)) /\
        c_funcs c = c_funcs ck /\ c_branches c = c_branches ck) (r !! file) (rk !! file)
  | Err, Err => True
  | Panic, Panic => True
  | OutOfFuel, OutOfFuel => True
  | _, _ => False
  end.
Proof. exact k_copies_scale. Qed.

(* 5b. The same for the release (u64 wrapping) model, under an explicit no-overflow hypothesis.  no_overflow_b is
   an executable check, evaluated on the exact-arithmetic run of the same model, that (i) every counter read from
   the gcda list fits in 64 bits, (ii) every function has a rooted-forest witness for its ON_TREE arcs and its exact
   counts are a conserving extension of the measured ones with block throughputs and total below 2^64 (then
   count_on_tree computes that flow and no sum wraps: C08_flow_recovery), (iii) no source line is carried by several
   blocks (the circuit enumeration, where u64 `-` could wrap, is not entered), (iv) the reported line counts fit in
   64 bits.  Under it the wrapping model computes exactly what the exact model computes (C15_no_overflow_bridge),
   hence k copies give k times the counts. *)
Theorem C15_no_overflow_bridge : forall gcno_buf ds br re,
  compute_map_gen Wid N.sub gcno_buf ds br = Ok re -> no_overflow_b gcno_buf ds br = true ->
  compute_map gcno_buf ds br = Ok re.
Proof. intros gcno_buf ds br re H Hb. exact (compute_bridge gcno_buf ds br re H (no_overflow_b_sound _ _ _ Hb)). Qed.
Theorem C15_k_copies_scale_wrap : forall gcno_buf d (k : nat) br r1, (1 <= k)%nat ->
  compute_map_gen Wid N.sub gcno_buf [d] br = Ok r1 ->
  no_overflow_b gcno_buf [d] br = true -> no_overflow_b gcno_buf (repeat d k) br = true ->
  exists rk, compute_map gcno_buf [d] br = Ok r1 /\ compute_map gcno_buf (repeat d k) br = Ok rk /\
    forall file, option_Forall2 (fun c ck =>
        (forall line, option_Forall2 (fun n nk => nk = N.of_nat k * n) (c_lines c !! line) (c_lines ck !! line)) /\
        c_funcs c = c_funcs ck /\ c_branches c = c_branches ck) (r1 !! file) (rk !! file).
Proof.
  intros gcno_buf d k br r1 Hk H1 Hb1 Hbk.
  exact (k_copies_scale_wrap gcno_buf d k br r1 Hk H1 (no_overflow_b_sound _ _ _ Hb1) (no_overflow_b_sound _ _ _ Hbk)).
Qed.

(* 6. A function is reported executed iff the counter of its first arc (the arc leaving the entry block in the
   files LLVM and GCC write) is positive after counting: entered at least once. *)
Theorem C15_executed_iff_first_arc : forall br res f res',
  fin_fun wrap64 sub64 br res f = Ok res' ->
  exists c', res' !! f_file f = Some c' /\
             c_funcs c' !! f_name f = Some (mkFunc (f_start_line f) (first_arc_positive f)).
Proof. exact (executed_iff_first_arc wrap64 sub64). Qed.

(* Non-vacuity: test/llvm/file.gcno with its gcda, the same gcda twice, a gcda with a flipped checksum bit. *)
Definition ex_gcno : bytes := [111; 110; 99; 103; 42; 50; 48; 52; 74; 200; 254; 66; 0; 0; 0; 1; 9; 0; 0; 0; 0; 0; 0; 0; 236; 217; 93; 255; 2; 0; 0; 0; 109; 97; 105; 110; 0; 0; 0; 0; 2; 0; 0; 0; 102; 105; 108; 101; 46; 99; 0; 0; 1; 0; 0; 0; 0; 0; 65; 1; 3; 0; 0; 0; 0; 0; 0; 0; 0; 0; 0; 0; 0; 0; 0; 0; 0; 0; 67; 1; 3; 0; 0; 0; 0; 0; 0; 0; 1; 0; 0; 0; 0; 0; 0; 0; 0; 0; 67; 1; 3; 0; 0; 0; 1; 0; 0; 0; 2; 0; 0; 0; 0; 0; 0; 0; 0; 0; 69; 1; 3; 0; 0; 0; 0; 0; 0; 0; 0; 0; 0; 0; 0; 0; 0; 0; 0; 0; 69; 1; 8; 0; 0; 0; 1; 0; 0; 0; 0; 0; 0; 0; 2; 0; 0; 0; 102; 105; 108; 101; 46; 99; 0; 0; 2; 0; 0; 0; 0; 0; 0; 0; 0; 0; 0; 0; 0; 0; 0; 0; 0; 0; 0; 0].
Definition ex_gcda : bytes := [97; 100; 99; 103; 42; 50; 48; 52; 74; 200; 254; 66; 0; 0; 0; 1; 5; 0; 0; 0; 0; 0; 0; 0; 236; 217; 93; 255; 2; 0; 0; 0; 109; 97; 105; 110; 0; 0; 0; 0; 0; 0; 161; 1; 4; 0; 0; 0; 1; 0; 0; 0; 0; 0; 0; 0; 1; 0; 0; 0; 0; 0; 0; 0; 0; 0; 0; 161; 9; 0; 0; 0; 0; 0; 0; 0; 0; 0; 0; 0; 1; 0; 0; 0; 0; 0; 0; 0; 0; 0; 0; 0; 0; 0; 0; 0; 0; 0; 0; 0; 0; 0; 0; 0; 0; 0; 0; 0; 0; 0; 0; 163; 0; 0; 0; 0; 0; 0; 0; 0; 0; 0; 0; 0].
Definition ex_gcda_badsum : bytes := [97; 100; 99; 103; 42; 50; 48; 52; 75; 200; 254; 66; 0; 0; 0; 1; 5; 0; 0; 0; 0; 0; 0; 0; 236; 217; 93; 255; 2; 0; 0; 0; 109; 97; 105; 110; 0; 0; 0; 0; 0; 0; 161; 1; 4; 0; 0; 0; 1; 0; 0; 0; 0; 0; 0; 0; 1; 0; 0; 0; 0; 0; 0; 0; 0; 0; 0; 161; 9; 0; 0; 0; 0; 0; 0; 0; 0; 0; 0; 0; 1; 0; 0; 0; 0; 0; 0; 0; 0; 0; 0; 0; 0; 0; 0; 0; 0; 0; 0; 0; 0; 0; 0; 0; 0; 0; 0; 0; 0; 0; 0; 163; 0; 0; 0; 0; 0; 0; 0; 0; 0; 0; 0; 0].
Example C15_ex_one : run_gcno ex_gcno [ex_gcda] true = (0, [([102; 105; 108; 101; 46; 99], ([(2, 1)], [], [([109; 97; 105; 110], (1, true))]))]).
Proof. vm_compute. reflexivity. Qed.
Example C15_ex_two : run_gcno ex_gcno [ex_gcda; ex_gcda] true = (0, [([102; 105; 108; 101; 46; 99], ([(2, 2)], [], [([109; 97; 105; 110], (1, true))]))]).
Proof. vm_compute. reflexivity. Qed.
Example C15_ex_none : run_gcno ex_gcno [] true = (0, [([102; 105; 108; 101; 46; 99], ([(2, 0)], [], [([109; 97; 105; 110], (1, false))]))]).
Proof. vm_compute. reflexivity. Qed.
Example C15_ex_mismatch : run_gcno ex_gcno [ex_gcda; ex_gcda_badsum] true = (1, []).
Proof. vm_compute. reflexivity. Qed.
Example C15_ex_no_overflow : no_overflow_b ex_gcno [ex_gcda; ex_gcda; ex_gcda] true = true /\ no_overflow_b ex_gcno [ex_gcda] true = true.
Proof. vm_compute. split; reflexivity. Qed.
