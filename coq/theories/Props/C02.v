(* C02 - every input is counted exactly once.  Property theorems only. *)
From Grcov Require Import Model.Pipeline.

(* a complete no-fault execution of two workers over three items (non-vacuity of the run relation) *)
Definition cfg2 : cfg := mkCfg 2 4 false (fun i => Some [([102], mkCov {[ 1 := i ]} ∅ ∅)]) (fun _ => FNone).
Definition sched2 : list label :=
  [LSend; LSend; LRecv 1; LSend; LRecv 0; LParsed 0; LProdDone; LMerged 0; LRecv 0; LParsed 1; LJoinedProd; LSentStop;
   LMerged 1; LParsed 0; LSentStop; LStopsDone; LMerged 0; LRecvStop 1; LRecvStop 0; LJoined; LJoined; LFinish].
Theorem C02_example_run :
  (fun o => match o with
            | Some s => Some (s_m s, s_merged s, (c_lines <$> s_acc s !! [102]) ≫= (.!! 1%N))
            | None => None end) (run cfg2 (init cfg2 [0; 1; 2]%N) sched2)
  = Some (MExit 0, [1; 0; 2]%N, Some 3%N).
Proof. vm_compute. reflexivity. Qed.
