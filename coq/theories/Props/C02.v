(* C02 - every input is counted exactly once, for every thread count and interleaving.
   Property theorems only; proofs in Proofs/PipelineFacts.v (inductive invariant over the 18 labels). *)
From Grcov Require Import Model.Pipeline Proofs.MergeFacts Proofs.PipelineFacts.

(* No item is lost or duplicated at any point of any execution (for every number of workers, every
   queue capacity, every interleaving): remaining + queued + held + merged + rejected + lost = all items. *)
Theorem C02_conservation : forall c items ls s,
  run c (init c items) ls = Some s ->
  exists d, items ≡ₚ tracked s ++ d /\ (s_p s <> PDead -> d = []).
Proof. exact conservation_strong. Qed.
(* The result map is always the aggregation (C01) of the batches merged so far, in merge order. *)
Theorem C02_acc_is_aggregate : forall c items ls s,
  run c (init c items) ls = Some s ->
  s_acc s = add_results ∅ (concat (map (batch c) (s_merged s))).
Proof. exact acc_is_aggregate. Qed.
(* Exactly once: an execution without worker-killing faults that ends with status 0 has merged exactly the
   accepted items, each once; its map observably equals the aggregation of their batches in list order. *)
Theorem C02_exactly_once : forall c items ls s,
  (1 <= n_workers c)%nat ->
  no_deaths c items ->
  run c (init c items) ls = Some s -> s_m s = MExit 0 ->
  s_merged s ≡ₚ filter (fun i => accepted c i = true) items /\
  obs_map (s_acc s) = obs_map (add_results ∅ (concat (map (batch c) (filter (fun i => accepted c i = true) items)))).
Proof. exact exactly_once. Qed.
(* Independence of the number of workers, the capacity, the interleaving and the order of the inputs:
   two runs may differ only outside [obs] (start lines of functions the inputs disagree about). *)
Theorem C02_order_independent : forall c1 c2 items1 items2 ls1 ls2 s1 s2,
  (1 <= n_workers c1)%nat -> (1 <= n_workers c2)%nat ->
  parse c1 = parse c2 -> fault c1 = fault c2 -> items1 ≡ₚ items2 ->
  no_deaths c1 items1 ->
  run c1 (init c1 items1) ls1 = Some s1 -> s_m s1 = MExit 0 ->
  run c2 (init c2 items2) ls2 = Some s2 -> s_m s2 = MExit 0 ->
  obs_map (s_acc s1) = obs_map (s_acc s2).
Proof. exact order_independent. Qed.
(* the hypothesis N >= 1 is needed (the property quantifies over N >= 1): with no worker the model exits 0
   with the items still queued *)
Theorem C02_exactly_once_needs_a_worker :
  ~ (forall c items ls s, no_deaths c items -> run c (init c items) ls = Some s -> s_m s = MExit 0 ->
       s_merged s ≡ₚ filter (fun i => accepted c i = true) items /\
       obs_map (s_acc s) = obs_map (add_results ∅ (concat (map (batch c) (filter (fun i => accepted c i = true) items))))).
Proof. exact exactly_once_needs_a_worker. Qed.

(* a complete no-fault execution of two workers over three items (non-vacuity of the hypotheses) *)
Definition cfg2 : cfg := mkCfg 2 4 false (fun i => Some [([102], mkCov {[ 1 := i ]} ∅ ∅)]) (fun _ => FNone).
Definition sched2 : list label :=
  [LSend; LSend; LRecv 1; LSend; LRecv 0; LParsed 0; LProdDone; LMerged 0; LRecv 0; LParsed 1; LJoinedProd; LSentStop;
   LMerged 1; LParsed 0; LSentStop; LStopsDone; LMerged 0; LRecvStop 1; LRecvStop 0; LJoined; LJoined; LFinish].
Example C02_example_run :
  (fun o => match o with
            | Some s => Some (s_m s, s_merged s, (c_lines <$> s_acc s !! [102]) ≫= (.!! 1%N))
            | None => None end) (run cfg2 (init cfg2 [0; 1; 2]%N) sched2)
  = Some (MExit 0, [1; 0; 2]%N, Some 3%N).
Proof. vm_compute. reflexivity. Qed.
