(* C10 - JaCoCo report fidelity.  Property theorems only.
   Level: the recursive descent of parse_jacoco_xml_report over quick-xml's event stream (Model/Jacoco.v) is
   proved against the report model; quick-xml's tokeniser/unescaper is trusted and enters as data. *)
From Grcov Require Import Model.Jacoco Model.JacocoSpec Proofs.JacocoFacts.
Import Coq.Strings.String.StringSyntax.

(* (i) The descent never needs more fuel than there are events, for EVERY event list. *)
Theorem C10_jacoco_fuel : forall evs, parse_jacoco evs <> JFuel.
Proof. exact jacoco_fuel. Qed.
(* (i) It never panics, for EVERY event list in which no <line> asks for a branch vector beyond isize::MAX ... *)
Theorem C10_jacoco_no_panic : forall evs,
  Forall (fun e => ev_small e = true) evs -> parse_jacoco evs <> JPanic.
Proof. exact jacoco_no_panic. Qed.
(* ... and the unrestricted statement is false of the code: cb = 2^63 panics ("capacity overflow", confirmed on
   the implementation; known finding jacoco-branch-vector-alloc). *)
Theorem C10_jacoco_no_panic_refuted : exists evs, parse_jacoco evs = JPanic.
Proof. exact jacoco_no_panic_refuted. Qed.
(* Termination for ALL event lists (since fix 0b9ca48 every inner loop has an Eof arm): at most one loop
   iteration per event, ending in a result, an error, or the known capacity-overflow panic. *)
Theorem C10_jacoco_terminates : forall evs,
  (exists rs, parse_jacoco evs = JOk rs) \/ parse_jacoco evs = JErr \/ parse_jacoco evs = JPanic.
Proof. exact jacoco_terminates. Qed.
(* the report that used to make the parser spin (it ends inside <sourcefile>) is now an error *)
Example C10_truncated_report_is_err : parse_jacoco hang_witness = JErr.
Proof. exact hang_witness_err. Qed.
(* DESIGN F16: the vector built for a <line> has exactly cb + mb entries: its size is a number written in the
   input, not bounded by the input's length. *)
Theorem C10_branch_vec_alloc : forall cb mb v, branch_vec cb mb = JOk v -> N.of_nat (length v) = alloc_request cb mb.
Proof. exact branch_vec_alloc. Qed.

(* (iv) Attribute order does not matter on a well-formed start tag. *)
Theorem C10_get_attr_perm : forall k l l',
  attrs_ok l -> Permutation l l' -> get_attr k l = get_attr k l'.
Proof. exact get_attr_perm. Qed.

(* (ii) Per-element lemmas on serialised children: each loop consumes exactly its element. *)
Theorem C10_parse_method : forall m evs,
  ser_method m evs ->
  exists attrs body, evs = EStart n_method attrs :: body
    /\ get_attr k_name attrs = Some (m_name m)
    /\ (exists l, get_attr k_line attrs = Some l /\ parse_uint U32_MAX l = Some (m_line m))
    /\ forall rest b, method_loop (body ++ rest) b = JOk (0 <? m_covered m, rest).
Proof. exact parse_method. Qed.
Theorem C10_parse_class : forall cls ms body,
  ser_list ser_method noise_class ms body ->
  forall fuel rest fs, (length (body ++ EEnd n_class :: rest) <= fuel)%nat ->
    class_loop fuel cls (body ++ EEnd n_class :: rest) fs = JOk (foldl (ins_method cls) fs ms, rest).
Proof. exact parse_class. Qed.
Theorem C10_parse_sourcefile : forall ls body,
  ser_list ser_line noise_sf ls body -> Forall wf_line ls ->
  forall rest st, sourcefile_loop (body ++ EEnd n_sourcefile :: rest) st = JOk (foldl den_line st ls, rest).
Proof. exact parse_sourcefile. Qed.

(* (iii) Soundness: every serialisation of a well-formed report model (any attribute order, extra attributes,
   escaped values, <x/> or <x></x>, text/comments/PIs/DOCTYPE, sessioninfo, counters at any level, group
   nesting, any interleaving of class and sourcefile elements) is read as the model's denotation.  The result
   list is stated with the model's own enumeration of the per-package hash map (map_to_list); the
   implementation's order is FxHashMap's, so the tie to the code is up to Permutation. *)
Theorem C10_jacoco_sound : forall r evs,
  wf_report r -> serialises r evs -> parse_jacoco evs = JOk (denote r).
Proof. exact jacoco_sound. Qed.

(* What the denotation says, clause by clause. *)
(* branch line => cb taken entries then mb not-taken entries and no line count; other line => count [ci > 0] *)
Theorem C10_line_clause : forall s l,
  wf_sourcefile s -> In l (sf_lines s) ->
  if is_branch_line l
  then (den_sf s).2 !! l_nr l = Some (repeat true (N.to_nat (l_cb l)) ++ repeat false (N.to_nat (l_mb l))) /\ (den_sf s).1 !! l_nr l = None
  else (den_sf s).1 !! l_nr l = Some (if 0 <? l_ci l then 1 else 0) /\ (den_sf s).2 !! l_nr l = None.
Proof. exact den_sf_clause. Qed.
Theorem C10_line_only : forall s n,
  n ∉ map l_nr (sf_lines s) -> (den_sf s).1 !! n = None /\ (den_sf s).2 !! n = None.
Proof. exact den_sf_only. Qed.
(* each <sourcefile> of a package yields the record of that name with exactly its lines and branches *)
Theorem C10_sourcefile_record : forall p s,
  wf_package p -> In (JS s) (p_children p) ->
  exists cv, den_pkg_map p !! sf_name s = Some cv /\ c_lines cv = (den_sf s).1 /\ c_branches cv = (den_sf s).2.
Proof. exact den_pkg_lines. Qed.
(* each <method> of each <class> is the function Class#method on the record of the class's source file,
   starting at its line attribute, executed iff METHOD covered > 0 *)
Theorem C10_method_function : forall p c m,
  wf_package p -> In (JC c) (p_children p) -> In m (c_methods c) ->
  exists cv, den_pkg_map p !! file_of c = Some cv
    /\ c_funcs cv !! (simple_name c ++ HASH :: m_name m) = Some (mkFunc (m_line m) (0 <? m_covered m)).
Proof. exact den_pkg_funcs. Qed.
(* records exist only for files named by a <sourcefile> or attributed to a <class> *)
Theorem C10_record_domain : forall p f,
  is_Some (den_pkg_map p !! f) -> f ∈ map child_file (p_children p).
Proof. exact den_pkg_dom. Qed.
(* record name: package/file, no leading slash for the default package (this is what the code's
   format!("{}/{}").trim_start_matches('/') gives on the property's domain) *)
Theorem C10_record_name : forall pkg f,
  no_lead_slash pkg -> (pkg = [] -> no_lead_slash f) ->
  join_name pkg f = (if bool_decide (pkg = []) then f else pkg ++ SLASH :: f).
Proof. exact join_name_spec. Qed.
(* nested classes keep their $-qualified name: the class name is what follows the last '/' *)
Theorem C10_class_simple_name : forall d s, SLASH ∉ s -> forall acc, last_seg (d ++ SLASH :: s) acc = s.
Proof. exact last_seg_spec. Qed.
(* without sourcefilename the file is Top.java, Top = the part before the first '$' *)
Theorem C10_top_class : forall t r, DOLLAR ∉ t -> before_dollar (t ++ DOLLAR :: r) = t.
Proof. exact before_dollar_spec. Qed.

(* The hypotheses are satisfiable: a report with a nested class without sourcefilename, an escaped method name,
   shuffled and extra attributes, counters at three levels, text and comment events, a "+2" counter value. *)
Example C10_hypotheses_satisfiable :
  wf_report ex_report /\ serialises ex_report ex_events /\
  map (fun '(n, c) => (n, cov_to_l c)) (denote ex_report) =
  [(bs "org/example/Outer.java", ([(3, 1)], [(4, [true; true; false])], [(bs "Outer$Inner#<init>", (3, true))]))].
Proof. exact (conj ex_wf (conj ex_serialises ex_result)). Qed.
