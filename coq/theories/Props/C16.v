(* C16 - exclusion markers remove exactly the marked lines and branches.  Property theorems only. *)
From Grcov Require Import Model.Markers Proofs.MarkersFacts.

(* Line dimension: source line i+1 (i < number of lines) loses its line count iff it matches the
   line marker or lies in a start(inclusive)..stop(exclusive) region; otherwise the count is untouched. *)
Theorem C16_lines : forall ls c (i : nat),
  (i < length ls)%nat ->
  (excluded m_line m_start m_stop ls i ->
     c_lines (apply_filters (create true true ls) c) !! (N.of_nat i + 1) = None) /\
  (~ excluded m_line m_start m_stop ls i ->
     c_lines (apply_filters (create true true ls) c) !! (N.of_nat i + 1) = c_lines c !! (N.of_nat i + 1)).
Proof. exact markers_lines. Qed.
(* Branch dimension: the same rule with the branch markers, independently of the line dimension. *)
Theorem C16_branches : forall ls c (i : nat),
  (i < length ls)%nat ->
  (excluded m_brline m_brstart m_brstop ls i ->
     c_branches (apply_filters (create true true ls) c) !! (N.of_nat i + 1) = None) /\
  (~ excluded m_brline m_brstart m_brstop ls i ->
     c_branches (apply_filters (create true true ls) c) !! (N.of_nat i + 1) = c_branches c !! (N.of_nat i + 1)).
Proof. exact markers_branches. Qed.
(* Nothing else changes: numbers outside the file, and all functions. *)
Theorem C16_outside : forall ls c n,
  (n = 0 \/ N.of_nat (length ls) < n) ->
  c_lines (apply_filters (create true true ls) c) !! n = c_lines c !! n /\
  c_branches (apply_filters (create true true ls) c) !! n = c_branches c !! n.
Proof. exact markers_outside. Qed.
Theorem C16_funcs : forall en rd ls c, c_funcs (apply_filters (create en rd ls) c) = c_funcs c.
Proof. exact markers_funcs. Qed.
(* No marker option, or an unreadable source: the record is unaffected. *)
Theorem C16_no_options : forall rd ls c, apply_filters (create false rd ls) c = c.
Proof. exact markers_off. Qed.
Theorem C16_unreadable : forall en ls c, apply_filters (create en false ls) c = c.
Proof. exact markers_unreadable. Qed.
(* The region flag of the loop is exactly the declarative region. *)
Theorem C16_region_recurrence : forall start stop ls (i : nat),
  (i < length ls)%nat ->
  (region_flags start stop false ls !! i = Some true <-> in_region start stop ls i).
Proof. exact region_flags_in_region. Qed.

(* Non-vacuity / independence: one source in which the four combinations all occur:
   line 2 loses only its line data (line marker inside nothing), line 3 only its branch data,
   line 5 both (line marker inside a branch region), line 1 neither. *)
Definition fl (a b c d e f : bool) := mkFlags a b c d e f.
Definition ex_src : list flags :=
  [fl false false false false false false;   (* 1: plain *)
   fl true  false false false false false;   (* 2: line marker *)
   fl false false false true  false false;   (* 3: branch-line marker *)
   fl false false false false true  false;   (* 4: branch region starts *)
   fl true  false false false false false;   (* 5: line marker inside the branch region *)
   fl false false false false false true;    (* 6: branch region stops (exclusive) *)
   fl false true  true  false false false].  (* 7: start and stop on the same line: region begins *)
Definition ex_cov : cov :=
  cov_of_l ([(1, 1); (2, 1); (3, 1); (4, 1); (5, 1); (6, 1); (7, 1)],
            [(1, [true]); (2, [true]); (3, [true]); (4, [true]); (5, [true]); (6, [true]); (7, [true])], []).
Example C16_ex_independent :
  map fst (cov_to_l (apply_filters (create true true ex_src) ex_cov)).1.1 ≡ₚ [1; 3; 4; 6] /\
  map fst (cov_to_l (apply_filters (create true true ex_src) ex_cov)).1.2 ≡ₚ [1; 2; 6; 7].
Proof. vm_compute. split; apply (Permutation_refl _) || (eapply perm_trans; [|apply Permutation_refl]; solve_Permutation). Qed.
