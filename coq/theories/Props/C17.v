(* C17 - input discovery is complete, exact and independent of packaging.  Property theorems only.
   Model: Model/Producer.v (`work_items`).  `good o l`: member names are distinct inside each archive, the plain-file
   archive holds no gcno/gcda (build_archives guarantees it), no profraw/profdata members (outside the property's
   domain), and one (format, content) per gcno relative name across the archives.
   `content_of` forgets archive names, link numbers and orders; gcda lists are sorted. *)
From Grcov Require Import Model.Producer Proofs.ProducerFacts.
Import Coq.Strings.String.StringSyntax.

(* The model against the flat specification: info/xml once per member, per gcno name exactly `per_stem`. *)
Theorem C17_meets_spec : forall o l,
  wf (o_llvm o) l -> no_profiles (o_llvm o) l -> consistent (gcnos (o_llvm o) l) ->
  (nothing_usable (o_llvm o) l -> work_items o l = Panic) /\
  (~ nothing_usable (o_llvm o) l -> exists its, work_items o l = Ok its /\ map content_of its ≡ₚ spec o l).
Proof. exact work_items_spec. Qed.

(* Any order of the arguments: same failure, or the same multiset of item contents. *)
Theorem C17_perm_invariant : forall o l l',
  good o l -> l ≡ₚ l' -> same_outcome (work_items o l) (work_items o l').
Proof. exact perm_invariant. Qed.

(* However the members are split over archives (same multiset of info, xml and gcda members per name, same set of
   gcno members): same failure, or the same multiset of item contents. *)
Theorem C17_repack_invariant : forall o l l',
  good o l -> good o l' -> same_summary (o_llvm o) l l' -> same_outcome (work_items o l) (work_items o l').
Proof. exact repack_invariant. Qed.

(* A gcno named s is combined with exactly the gcda named s of every archive that has one
   (LLVM: one item with all of them; GCC: one item per gcda). *)
Theorem C17_pairing_exact : forall o l s b g its,
  good o l -> In (s, b, g) (gcnos (o_llvm o) l) -> work_items o l = Ok its ->
  filter (about s) (map content_of its) ≡ₚ per_stem (o_covered o) s b g (vals s (gcdas (o_llvm o) l)).
Proof. exact pairing_exact. Qed.

Theorem C17_orphan_gcno_zero_unless_covered : forall o l s b g its,
  good o l -> In (s, b, g) (gcnos (o_llvm o) l) -> vals s (gcdas (o_llvm o) l) = [] -> work_items o l = Ok its ->
  filter (about s) (map content_of its) =
    if o_covered o then [] else if b then [KBuffers s g []] else [KPath s (Some g) None].
Proof. exact orphan_gcno_zero_unless_covered. Qed.

Theorem C17_orphan_gcda_nothing : forall o l s its,
  good o l -> (forall b g, ~ In (s, b, g) (gcnos (o_llvm o) l)) -> work_items o l = Ok its ->
  filter (about s) (map content_of its) = [].
Proof. exact orphan_gcda_nothing. Qed.

Theorem C17_decoys_ignored : forall o l1 a l2 e,
  classify (o_llvm o) e = CNone ->
  good o (l1 ++ a :: l2) -> good o (l1 ++ add_entry e a :: l2) ->
  same_outcome (work_items o (l1 ++ a :: l2)) (work_items o (l1 ++ add_entry e a :: l2)).
Proof. exact decoys_ignored. Qed.

Theorem C17_empty_fails : forall o l,
  (forall ae, In ae (found l) ->
     exists s, classify (o_llvm o) ae.2 = CGcda s \/ classify (o_llvm o) ae.2 = CMap \/ classify (o_llvm o) ae.2 = CNone) ->
  work_items o l = Panic.
Proof. exact empty_fails. Qed.

(* What "decoy" means for the two sniffed formats. *)
Theorem C17_info_signature : forall ll n c h s,
  split_ext n = Some (s, bs "info") -> classify ll (mkEntry n c h) = if is_info h then CInfo else CNone.
Proof. intros ll n c h s E. unfold classify. cbn [e_name e_head]. rewrite E. reflexivity. Qed.
Theorem C17_is_info_spec : forall h, is_info h = true <-> (take 3 h = bs "TN:" \/ take 3 h = bs "SF:").
Proof.
  intros h. unfold is_info, starts_with. rewrite orb_true_iff, !bool_decide_eq_true. reflexivity.
Qed.
(* The JaCoCo signature: the DTD marker within the first 256 bytes (or the whole file when it is shorter).
   Before fix 00bbd37 files shorter than 256 bytes, and files whose first 256 bytes are not valid UTF-8 on their
   own, were dropped (found by this check, former known finding jacoco-sniff-256). *)
Theorem C17_jacoco_signature : forall ll n c h s,
  split_ext n = Some (s, bs "xml") -> classify ll (mkEntry n c h) = if is_jacoco h then CXml else CNone.
Proof. intros ll n c h s E. unfold classify. cbn [e_name e_head]. rewrite E. reflexivity. Qed.
Theorem C17_is_jacoco_spec : forall h, is_jacoco h = contains (bs "-//JACOCO//DTD") (take 256 h).
Proof. reflexivity. Qed.
Theorem C17_jacoco_short_recognised : forall h,
  (length h <= 256)%nat -> contains (bs "-//JACOCO//DTD") h = true -> is_jacoco h = true.
Proof. intros h L H. unfold is_jacoco. rewrite take_ge by exact L. exact H. Qed.
Example C17_jacoco_short_example :
  is_jacoco (bs "<!DOCTYPE report PUBLIC '-//JACOCO//DTD Report 1.1//EN' 'report.dtd'><report name='x'/>") = true.
Proof. vm_compute. reflexivity. Qed.
(* the window is 256 bytes: a marker that starts later is not a signature *)
Example C17_jacoco_window_example :
  is_jacoco (repeat 32 250 ++ bs "-//JACOCO//DTD") = false /\ is_jacoco (repeat 32 242 ++ bs "-//JACOCO//DTD") = true.
Proof. vm_compute. split; reflexivity. Qed.

(* A zip member with an unsafe name contributes nothing, whatever its extension and content. *)
Theorem C17_unsafe_member_ignored : forall o l1 a l2 e,
  a_kind a = Zip -> safe_entry (e_name e) = false ->
  good o (l1 ++ a :: l2) -> good o (l1 ++ add_entry e a :: l2) ->
  same_outcome (work_items o (l1 ++ a :: l2)) (work_items o (l1 ++ add_entry e a :: l2)).
Proof. exact unsafe_member_ignored. Qed.

(* ---- the hypotheses are satisfiable, and the conclusions are not vacuous ---- *)
Definition ex_gcno : entry := mkEntry (bs "obj/file.gcno") 12 (bs "oncg*204....").
Definition ex_layout : layout :=
  [ mkArchive Zip (bs "a.zip") [ex_gcno; mkEntry (bs "a.info") 0 (bs "TN:"); mkEntry (bs "decoy.info") 5 (bs "no");
                                    mkEntry (bs "../../up.info") 1 (bs "TN:"); mkEntry (bs "/abs/x.gcno") 12 (bs "oncg*204....")];
    mkArchive Dir (bs "d") [mkEntry (bs "obj/file.gcda") 13 []; mkEntry (bs "lonely.gcda") 21 []; mkEntry (bs "gcc/o.gcno") 20 (bs "gcno")];
    mkArchive Zip (bs "b.zip") [mkEntry (bs "obj/file.gcda") 14 []] ].
Example ex_items :
  (fun r => match r with Ok its => map content_of its | _ => [] end) (work_items (mkOpts false false) ex_layout)
  = [KContent FInfo 0; KBuffers (bs "obj/file") 12 [13; 14]; KPath (bs "gcc/o") (Some 20) None].
Proof. vm_compute. reflexivity. Qed.
Example ex_good : good (mkOpts false false) ex_layout.
Proof.
  split; [|split].
  - unfold wf, ex_layout. repeat (constructor; [split; [apply (bool_decide_unpack _); vm_compute; exact I|cbn; discriminate]|]). constructor.
  - intros ae H. vm_compute in H. repeat (destruct H as [<-|H]; [vm_compute; split; discriminate|]). destruct H.
  - intros s b g b' g' H1 H2. vm_compute in H1, H2.
    repeat (destruct H1 as [H1|H1]; [injection H1 as <- <- <-|]); try destruct H1;
    repeat (destruct H2 as [H2|H2]; [try discriminate H2; injection H2 as <- <-|]); try destruct H2; try (split; reflexivity);
    exfalso; vm_compute in H2; try discriminate; congruence.
Qed.
