(* C04 - LCOV input fidelity.  Property theorems only. *)
From Grcov Require Import Model.Lcov Model.LcovSpec.
Import Coq.Strings.String.StringSyntax.

(* non-vacuity of the specification: a well-formed two-section file with duplicates, CRLF, a
   negative count, BRDA 0 and '-', out-of-order branch numbers, and its meaning *)
Definition ex_file : lfile :=
  mkLfile [mkSection [(ROther (bs "TN:t"), false)] (bs "a,b/é.c") false
             [(RFN (bs "3") (bs "f,1"), false); (RDA (bs "3") (bs "18446744073709551615"), true);
              (RBRDA (bs "5") (bs "0") (bs "1") (Some (bs "2")), false); (RDA (bs "3") (bs "1"), false);
              (RBRDA (bs "5") (bs "1") (bs "0") None, false); (RBRDA (bs "5") (bs "0") (bs "2") (Some (bs "0")), false);
              (RDAneg (bs "4") (bs "7"), false); (RFNDA (bs "2") (bs "f,1"), true); (RSkip (bs "FNF") (bs "1"), false)] false]
          [].
Example C04_ex_wf : wf_file ex_file = true /\ existsb KnownClass_fnda_first (l_sections ex_file) = false.
Proof. vm_compute. auto. Qed.
Example C04_ex_parse :
  (fun o => match o with Ok rs => Some (map (fun '(n, c) => (n, cov_to_l c)) rs) | _ => None end)
    (parse_lcov (render_file ex_file) true) =
  Some [(bs "a,b/é.c", cov_to_l (denote true (s_recs (hd (mkSection [] [] false [] false) (l_sections ex_file))).*1))].
Proof. vm_compute. reflexivity. Qed.
Theorem C04_placeholder_example_saturates :
  c_lines (denote true (s_recs (hd (mkSection [] [] false [] false) (l_sections ex_file))).*1) !! 3 = Some U64_MAX.
Proof. vm_compute. reflexivity. Qed.
