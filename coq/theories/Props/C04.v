(* C04 - LCOV input fidelity.  Property theorems only. *)
From Grcov Require Import Model.Lcov Model.LcovSpec Proofs.MergeFacts Proofs.LcovFacts.
Import Coq.Strings.String.StringSyntax.

(* non-vacuity of the specification: a well-formed two-section file with duplicates, CRLF, a
   negative count, BRDA 0 and '-', out-of-order branch numbers, and its meaning *)
Definition ex_file : lfile :=
  mkLfile [mkSection [(ROther (bs "TN:t"), false)] (bs "a,b/é.c") false
             [(RFN (bs "3") (bs "f,1"), false); (RDA (bs "3") (bs "18446744073709551615"), true);
              (RBRDA (bs "5") (bs "0") (bs "1") (Some (bs "2")), false); (RDA (bs "3") (bs "1"), false);
              (RBRDA (bs "5") (bs "1") (bs "0") None, false); (RBRDA (bs "5") (bs "0") (bs "2") (Some (bs "0")), false);
              (RDAneg (bs "4") (bs "7"), false); (RFNDA (bs "2") (bs "f,1"), true); (RSkip (bs "FNF") (bs "1"), false)] false]
          [].
Example C04_ex_wf : wf_file ex_file = true /\ existsb KnownClass_fnda_first (l_sections ex_file) = false.
Proof. vm_compute. auto. Qed.
Example C04_ex_parse :
  (fun o => match o with Ok rs => Some (map (fun '(n, c) => (n, cov_to_l c)) rs) | _ => None end)
    (parse_lcov (render_file ex_file) true) =
  Some [(bs "a,b/é.c", cov_to_l (denote true (s_recs (hd (mkSection [] [] false [] false) (l_sections ex_file))).*1))].
Proof. vm_compute. reflexivity. Qed.
Example C04_ex_saturates :
  c_lines (denote true (s_recs (hd (mkSection [] [] false [] false) (l_sections ex_file))).*1) !! 3 = Some U64_MAX.
Proof. vm_compute. reflexivity. Qed.

(* Soundness: for every well-formed tracefile (any record order, duplicates, blank lines, LF / CRLF,
   summary and unused record kinds, names over all bytes but line terminators) outside the known-finding
   class (an FNDA before the FN of its function), the parser returns one record per section, named as the
   SF line says, whose lines / branches / functions are exactly what the section's records say. *)
Theorem C04_parse_lcov_sound : forall b f,
  wf_file f = true ->
  existsb KnownClass_fnda_first (l_sections f) = false ->
  exists res, parse_lcov (render_file f) b = Ok res /\
              Forall2 (fun s r => r.1 = s_name s /\ sec_spec b (s_recs s).*1 r.2) (l_sections f) res.
Proof. exact parse_lcov_sound. Qed.
(* The meaning does not depend on record order, and it determines the record. *)
Theorem C04_sec_spec_perm : forall b rs rs' c,
  rs ≡ₚ rs' -> NoDup (fn_names rs) -> sec_spec b rs c -> sec_spec b rs' c.
Proof. exact sec_spec_perm. Qed.
Theorem C04_sec_spec_unique : forall b rs c c', sec_spec b rs c -> sec_spec b rs c' -> c = c'.
Proof. exact sec_spec_unique. Qed.
(* With branch parsing disabled no branch data is produced - for every byte string. *)
Theorem C04_no_branch : forall bs res, parse_lcov bs false = Ok res -> Forall (fun r => c_branches r.2 = ∅) res.
Proof. exact parse_lcov_no_branch. Qed.
(* add_branch is slot-wise OR padded with false: a vector indexed by branch number, order-free. *)
Theorem C04_add_branch_alg : forall m line no taken,
  add_branch m line no taken =
  <[line := or_vec (default [] (m !! line)) (replicate (N.to_nat no) false ++ [taken])]> m.
Proof. exact add_branch_alg. Qed.
(* The model never needs more fuel than the input length and never panics (shared with C14). *)
Theorem C04_parse_lcov_total : forall bs b, parse_lcov bs b <> Panic /\ parse_lcov bs b <> OutOfFuel.
Proof. intros bs b. split; [apply parse_lcov_no_panic | apply parse_lcov_fuel]. Qed.

(* The known-finding class is real: the FNDA-before-FN witness is well-formed and is rejected. *)
Definition ex_known : lfile :=
  mkLfile [mkSection [] (bs "a") false [(RFNDA (bs "1") (bs "f"), false); (RFN (bs "1") (bs "f"), false)] false] [].
Example C04_known_class_witness :
  wf_file ex_known = true /\ existsb KnownClass_fnda_first (l_sections ex_known) = true /\
  parse_lcov (render_file ex_known) true = Err.
Proof. vm_compute. auto. Qed.
