(* C14 - malformed input is rejected with an error, never a crash, hang or memory blow-up.
   Property theorems only.  Every theorem quantifies over ALL byte strings. *)
From Grcov Require Import Model.Lcov Proofs.LcovStep Proofs.LcovFacts.

(* lcov: the reader model never panics and never needs more steps than the input has bytes
   (fuel = length of the input is enough: the loop consumes at least one byte per iteration) *)
Theorem C14_lcov_never_panics : forall bs b, parse_lcov bs b <> Panic.
Proof. exact parse_lcov_no_panic. Qed.
Theorem C14_lcov_linear_steps : forall bs b, parse_lcov bs b <> OutOfFuel.
Proof. exact parse_lcov_fuel. Qed.

(* ---- gcov text / JSON (Model/GcovText.v, Model/GcovJson.v) ---- *)
From Grcov Require Import Model.GcovText Model.GcovJson Proofs.GcovFacts Proofs.GcovJsonFacts.
(* every byte string: parse_gcov returns Ok or Err; the model uses no fuel, so there is no OutOfFuel escape *)
Theorem C14_gcov_text_never_panics : forall b : bytes, parse_gcov b <> Panic.
Proof. exact parse_gcov_no_panic. Qed.
Theorem C14_gcov_text_no_fuel : forall b : bytes, parse_gcov b <> OutOfFuel.
Proof. exact parse_gcov_no_fuel. Qed.
(* the same for any sequence of chunks, however the reader delivers the lines *)
Theorem C14_gcov_text_lines_never_panic : forall ls : list bytes, parse_gcov_lines ls <> Panic.
Proof. exact parse_gcov_lines_no_panic. Qed.
(* every JSON value tree of the expected shape, whatever its numbers: Ok or Err *)
Theorem C14_gcov_json_tree_never_panics :
  forall t : list jfile, parse_gcov_gz_tree t <> Panic /\ parse_gcov_gz_tree t <> OutOfFuel.
Proof. exact gcov_json_no_panic. Qed.
Theorem C14_gcov_counter_never_panics :
  forall x : jnum, counter_of_number x <> Panic /\ counter_of_number x <> OutOfFuel.
Proof. exact counter_no_panic. Qed.

(* ---- JaCoCo (Model/Jacoco.v, over quick-xml's event stream) ---- *)
From Grcov Require Import Model.Jacoco Model.JacocoSpec Proofs.JacocoFacts.
(* at most one loop iteration per event: fuel = number of events is never exhausted *)
Theorem C14_jacoco_linear_steps : forall evs, parse_jacoco evs <> JFuel.
Proof. exact jacoco_fuel. Qed.
(* never a hang: the descent always ends in a result, an error or the (known) capacity-overflow panic *)
Theorem C14_jacoco_terminates : forall evs,
  (exists rs, parse_jacoco evs = JOk rs) \/ parse_jacoco evs = JErr \/ parse_jacoco evs = JPanic.
Proof. exact jacoco_terminates. Qed.
(* a stream that ends while an element is open is an error at every level (fix 0b9ca48) *)
Theorem C14_jacoco_eof_inside_is_err :
  (forall st t, sourcefile_loop (Eof :: t) st = JErr /\ sourcefile_loop [] st = JErr) /\
  (forall b t, method_loop (Eof :: t) b = JErr /\ method_loop [] b = JErr) /\
  (forall fuel cls fs t, class_loop (S fuel) cls (Eof :: t) fs = JErr /\ class_loop fuel cls [] fs = JErr) /\
  (forall fuel pkg m t, package_loop (S fuel) pkg (Eof :: t) m = JErr /\ package_loop fuel pkg [] m = JErr).
Proof. exact eof_inside_is_err. Qed.
Example C14_jacoco_truncated_report_is_err : parse_jacoco hang_witness = JErr.
Proof. exact hang_witness_err. Qed.
(* no panic outside the known class jacoco-branch-vector-alloc (a <line> whose cb + mb exceeds isize::MAX) ... *)
Theorem C14_jacoco_no_panic : forall evs,
  Forall (fun e => ev_small e = true) evs -> parse_jacoco evs <> JPanic.
Proof. exact jacoco_no_panic. Qed.
(* ... inside it the code panics (witness confirmed on the implementation: cb = 2^63, "capacity overflow") *)
Theorem C14_jacoco_known_class_panics : exists evs, parse_jacoco evs = JPanic.
Proof. exact jacoco_no_panic_refuted. Qed.
(* memory: the vector built for a <line> has cb + mb entries - a number written in the input, not bounded by
   the input's length (DESIGN F16; below 2^63 the request is made whatever its size) *)
Theorem C14_jacoco_branch_vec_alloc : forall cb mb v, branch_vec cb mb = JOk v -> N.of_nat (length v) = alloc_request cb mb.
Proof. exact branch_vec_alloc. Qed.

(* ---- gcno / gcda (Model/GcnoRead.v, Model/GcnoCount.v) ---- *)
From Grcov Require Import Model.GcnoCount Proofs.GcnoBase Proofs.GcnoReadSafe Proofs.GcnoCountSafe Proofs.GcnoFuel Proofs.GcnoPrefix.
(* For EVERY byte string offered as gcno and every list of byte strings offered as gcda, with or without branches,
   the model of Gcno::compute does not panic: every index expression of reader.rs is a checked lookup in the model
   (a failed lookup is Panic), and none can fail. *)
Theorem C14_gcno_never_panics : forall (gcno_buf : bytes) (gcdas : list bytes) (br : bool),
  compute gcno_buf gcdas br <> Panic.
Proof. exact compute_never_panics. Qed.

(* The reading half is total with fuel = buffer length + 1: reading a gcno and any gcda list ends in a decoded
   structure or an error, never a panic and never fuel exhaustion; the decoded graphs are well formed (every stored
   edge id / block number is in range). *)
Theorem C14_gcno_reader_total : forall (gcno_buf : bytes) (gcdas : list bytes),
  match (let* g := read_gcno gcno_buf in ofold (read_gcda wrap64) gcdas g) with
  | Ok g => wf_gcno g
  | Err => True
  | Panic => False
  | OutOfFuel => False
  end.
Proof. exact (read_all_good wrap64). Qed.

(* Fuel.  count_on_tree / propagate_counts with fuel = number of blocks + 2 never runs out, for any decoded structure. *)
Theorem C14_gcno_stop_fuel : forall g, stop wrap64 g <> OutOfFuel.
Proof. exact (stop_never_out_of_fuel wrap64). Qed.
(* The whole computation never runs out of fuel when no source line of the gcno is carried by more than one block
   (otherwise the circuit enumeration runs, whose depth/time is not bounded by a theorem: known finding). *)
Theorem C14_gcno_fuel_partial : forall gcno_buf gcdas br,
  (forall g, read_gcno gcno_buf = Ok g -> Forall single_block_lines (g_funs g)) ->
  compute_map gcno_buf gcdas br <> OutOfFuel.
Proof. exact (compute_fuel_partial wrap64 sub64). Qed.

(* A truncated gcda: if reading the prefix p of a gcda p ++ k succeeds, the result is exactly the state that the
   record loop of the run on p ++ k has at one of its record boundaries (the counters of complete records only). *)
Theorem C14_gcda_prefix_safe : forall g p k gp,
  read_gcda wrap64 g p = Ok gp ->
  exists le version l2, gcda_body (p ++ k) = Some (le, version, l2) /\ boundary wrap64 le version g None l2 gp.
Proof. exact (gcda_prefix_safe wrap64). Qed.
