(* C20 - coverage obtained through external tools.  Property theorems only; proofs are in Proofs/ToolsFacts.v.

   These theorems are about grcov's GLUE (Model/Tools.v) given the tools' results, which are universally quantified
   (`toolset`, `bpath` walk entries, `gi_left`, the parsers).  That the tools' results equal "the toolchain's own
   account" is not a theorem: it is checked differentially against gcc/gcov 12 (py/c20.py). *)
From Grcov Require Import Model.Tools Proofs.MergeFacts Proofs.ToolsFacts.

(** LLVM - every discovered profile is handed to the merge tool exactly once. *)

(* exactly one merge call per work item, and its stdin is the item's profile list *)
Theorem C20_llvm_each_profile_once : forall t found b,
  t_profdata_found t = true ->
  merge_calls (llvm_profiles_to_lcov t (profile_paths found) b).1 = [profile_paths found].
Proof. intros t found b. exact (llvm_merge_once t (profile_paths found) b). Qed.
(* that list has one entry per (profile name, archive) occurrence found ... *)
Theorem C20_llvm_profile_list_length : forall found,
  length (profile_paths found) = sum_list (map (fun p => length p.2) found).
Proof. exact profile_paths_length. Qed.
(* ... every occurrence is in it ... *)
Theorem C20_llvm_profile_list_complete : forall found nm archives (i : nat) a,
  (nm, archives) ∈ found -> archives !! i = Some a -> path_of (nm, i, a) ∈ profile_paths found.
Proof. exact profile_paths_complete. Qed.
(* ... no duplicates are introduced (names are hash-map keys; a plain argument occurs once per name) ... *)
Theorem C20_llvm_profile_list_nodup : forall found,
  NoDup found.*1 -> Forall (fun p => plain_once p.2) found -> NoDup (profile_paths found).
Proof. exact profile_paths_nodup. Qed.
(* ... and the hash-map iteration order only permutes it. *)
Theorem C20_llvm_profile_list_perm : forall found found',
  found ≡ₚ found' -> profile_paths found ≡ₚ profile_paths found'.
Proof. exact profile_paths_perm. Qed.

(** LLVM - every selected binary is exported exactly once per merged profile. *)
Theorem C20_llvm_each_binary_once : forall t ps b bins,
  tools_ok t ps -> find_binaries b = Ok bins -> export_calls (llvm_profiles_to_lcov t ps b).1 = bins.
Proof. exact llvm_exports_once. Qed.
Theorem C20_llvm_binaries_selected : forall walk p,
  p ∈ map fe_path (filter (fun e => selected e = true) walk) <->
  exists e, e ∈ walk /\ fe_path e = p /\ fe_is_file e = true /\ fe_read e <> 0 /\ fe_is_app e = true.
Proof. exact find_binaries_dir_elem. Qed.
Theorem C20_llvm_binaries_nodup : forall walk,
  NoDup (map fe_path walk) -> NoDup (map fe_path (filter (fun e => selected e = true) walk)).
Proof. exact find_binaries_dir_nodup. Qed.
Theorem C20_llvm_no_export_without_merge : forall t ps b,
  t_merge_ok t ps = false -> export_calls (llvm_profiles_to_lcov t ps b).1 = [].
Proof. exact llvm_merge_failed_no_export. Qed.
(* several work items (the profdata item and the profraw item): each binary once per item *)
Theorem C20_llvm_items : forall parse b bins m items,
  no_abort parse -> find_binaries b = Ok bins -> Forall (fun it => tools_ok it.1 it.2) items ->
  consume_llvm_items parse (Some b) m items =
    (flat_map (fun it => CMerge it.2 :: map CExport bins) items,
     Ok (add_results m (flat_map (fun it => flat_map (good_batch parse it.1) bins) items))).
Proof. exact consume_llvm_items_result. Qed.

(** LLVM - a failing export does not suppress the others. *)
(* the result is add_results over what the successful (and parsable) exports contain *)
Theorem C20_llvm_result : forall parse t b bins m ps,
  no_abort parse -> tools_ok t ps -> find_binaries b = Ok bins ->
  consume_llvm parse t (Some b) m ps =
    (CMerge ps :: map CExport bins, Ok (add_results m (flat_map (good_batch parse t) bins))).
Proof. exact consume_llvm_result. Qed.
Theorem C20_llvm_successful_only : forall parse t bins,
  flat_map (good_batch parse t) bins =
  flat_map (good_batch parse t) (filter (fun b => is_Some (t_export t b)) bins).
Proof. exact good_batch_filter. Qed.
(* removing a failing binary from the tree changes nothing *)
Theorem C20_llvm_failure_isolated : forall parse t b b' l1 b0 l2 m ps,
  no_abort parse -> tools_ok t ps ->
  find_binaries b = Ok (l1 ++ b0 :: l2) -> find_binaries b' = Ok (l1 ++ l2) ->
  t_export t b0 = None ->
  (consume_llvm parse t (Some b) m ps).2 = (consume_llvm parse t (Some b') m ps).2.
Proof.
  intros parse t b b' l1 b0 l2 m ps Hna Ht Hb Hb' He.
  exact (llvm_failure_isolated parse t b b' l1 b0 l2 m ps Hna Ht Hb Hb' (good_batch_failed parse t b0 He)).
Qed.

(** LLVM - the report is the C01 aggregation of the exported data, whatever the order. *)
Theorem C20_llvm_report_is_agg : forall parse t b bins m ps rs,
  no_abort parse -> tools_ok t ps -> find_binaries b = Ok bins ->
  rs ≡ₚ flat_map (good_batch parse t) bins ->
  exists m', (consume_llvm parse t (Some b) m ps).2 = Ok m' /\ obs_map m' = obs_map (add_results m rs).
Proof. exact llvm_report_is_agg. Qed.
Theorem C20_llvm_binary_order_free : forall parse t b b' bins bins' m ps,
  no_abort parse -> tools_ok t ps -> find_binaries b = Ok bins -> find_binaries b' = Ok bins' -> bins ≡ₚ bins' ->
  exists m1 m2, (consume_llvm parse t (Some b) m ps).2 = Ok m1 /\ (consume_llvm parse t (Some b') m ps).2 = Ok m2 /\
                obs_map m1 = obs_map m2.
Proof. exact llvm_binary_order_free. Qed.
(* per source file: the C01 aggregate of the records exported for it *)
Theorem C20_llvm_file_is_agg : forall parse t b bins ps p,
  no_abort parse -> tools_ok t ps -> find_binaries b = Ok bins ->
  exists m', (consume_llvm parse t (Some b) ∅ ps).2 = Ok m' /\
    m' !! p = match map snd (filter (fun r => r.1 = p) (flat_map (good_batch parse t) bins)) with
              | [] => None | cs => Some (agg cs) end.
Proof. exact llvm_file_is_agg. Qed.
(* when the tools fail as a whole, or no binary path is given, the map is left as it was *)
Theorem C20_llvm_tool_failure : forall parse t b m ps,
  (llvm_profiles_to_lcov t ps b).2 = Err -> (consume_llvm parse t (Some b) m ps).2 = Ok m.
Proof. exact consume_llvm_tool_failure. Qed.

(** GCC - the report is the aggregation of what gcov wrote, for every split over workers and every lock order. *)
Theorem C20_gcc_report_is_agg : forall parse_file has_ext ext rename guess m (parts : list (list gitem)) items bs,
  Forall (behaved parse_file has_ext ext) parts -> concat parts ≡ₚ items ->
  bs ≡ₚ concat (map (fun w => match gcc_worker parse_file has_ext ext rename guess GUnknown [] w with
                              | Ok (_, _, b) => b | _ => [] end) parts) ->
  Forall (fun w => exists ty, gcc_worker parse_file has_ext ext rename guess GUnknown [] w =
                              Ok (ty, [], map (item_results parse_file rename guess) w)) parts /\
  obs_map (add_batches m bs) = obs_map (add_results m (flat_map (item_results parse_file rename guess) items)).
Proof. exact gcc_report_is_agg. Qed.
(* the two regimes of the latch *)
Theorem C20_gcc_single : forall parse_file has_ext ext rename guess items,
  Forall (single_behaved parse_file ext) items ->
  gcc_worker parse_file has_ext ext rename guess GSingle [] items =
    Ok (GSingle, [], map (item_results parse_file rename guess) items).
Proof. exact worker_single. Qed.
Theorem C20_gcc_multiple : forall parse_file has_ext ext rename guess items,
  Forall (multi_behaved parse_file has_ext) items ->
  gcc_worker parse_file has_ext ext rename guess GMultiple [] items =
    Ok (GMultiple, [], map (item_results parse_file rename guess) items).
Proof. exact worker_multi. Qed.
Theorem C20_gcc_latch_multiple : forall parse_file has_ext ext rename guess it items,
  gi_run_ok it = true -> dir_lookup (expected ext it) (gi_left it) = None ->
  gcc_worker parse_file has_ext ext rename guess GUnknown [] (it :: items) =
  gcc_worker parse_file has_ext ext rename guess GMultiple [] (it :: items).
Proof. exact worker_latch_multi. Qed.
Theorem C20_gcc_latch_single : forall parse_file has_ext ext rename guess it items c,
  gi_run_ok it = true -> dir_lookup (expected ext it) (gi_left it) = Some c ->
  gcc_worker parse_file has_ext ext rename guess GUnknown [] (it :: items) =
  gcc_worker parse_file has_ext ext rename guess GSingle [] (it :: items).
Proof. exact worker_latch_single. Qed.
(* hazard (outside the property's domain: gcov wrote nothing for a later item): the SingleFile latch turns it into a panic *)
Theorem C20_gcc_single_latch_missing_panics : forall parse_file has_ext ext rename guess it,
  gi_run_ok it = true -> dir_lookup (expected ext it) (gi_left it) = None ->
  gcc_step parse_file has_ext ext rename guess GSingle [] it = Panic.
Proof. exact step_single_missing_panics. Qed.
(* a work item on which gcov FAILS (stale .gcda, unreadable notes file ...): whatever gcov left is removed, nothing is added,
   the latch stays as it was *)
Theorem C20_gcc_failed_step : forall parse_file has_ext ext rename guess ty d it,
  gi_run_ok it = false -> gcc_step parse_file has_ext ext rename guess ty d it = Ok (ty, [], None).
Proof. exact step_failed. Qed.
(* with failing items anywhere, for every split over workers and lock order: the aggregation of the non-failing items *)
Theorem C20_gcc_report_with_failures : forall parse_file has_ext ext rename guess m (parts : list (list gitem)) items bs,
  Forall (fun w => behaved parse_file has_ext ext (good w)) parts -> concat parts ≡ₚ items ->
  bs ≡ₚ concat (map (fun w => match gcc_worker parse_file has_ext ext rename guess GUnknown [] w with
                              | Ok (_, _, b) => b | _ => [] end) parts) ->
  obs_map (add_batches m bs) = obs_map (add_results m (flat_map (item_results parse_file rename guess) (good items))).
Proof. exact gcc_report_with_failures. Qed.
(* the report of a run with failing items equals the report of the same run without them *)
Theorem C20_gcc_failed_item_contributes_nothing : forall parse_file has_ext ext rename guess m (parts : list (list gitem)) bs bs',
  Forall (fun w => behaved parse_file has_ext ext (good w)) parts ->
  bs ≡ₚ concat (map (fun w => match gcc_worker parse_file has_ext ext rename guess GUnknown [] w with
                              | Ok (_, _, b) => b | _ => [] end) parts) ->
  bs' ≡ₚ concat (map (fun w => match gcc_worker parse_file has_ext ext rename guess GUnknown [] w with
                               | Ok (_, _, b) => b | _ => [] end) (map good parts)) ->
  obs_map (add_batches m bs) = obs_map (add_batches m bs').
Proof. exact gcc_failed_item_contributes_nothing. Qed.
Theorem C20_batches_order_free : forall m bs bs',
  bs ≡ₚ bs' -> obs_map (add_batches m bs) = obs_map (add_batches m bs').
Proof. exact add_batches_perm_obs. Qed.

(** Non-vacuity: the hypotheses are satisfiable, and failure isolation is exercised. *)
Definition ex_parse (l : bytes) : outcome (list (name * cov)) :=
  match l with
  | [] => Err
  | n :: _ => Ok [([n], mkCov {[1 := n]} ∅ ∅)]
  end.
Definition ex_tools : toolset :=
  mkTools true true (fun _ => true) (fun b => match b with [7] => None | [8] => Some [] | _ => Some b end).
Definition ex_walk : list fentry :=
  [mkFentry [5] true 128 true; mkFentry [7] true 128 true; mkFentry [8] true 128 true; mkFentry [6] true 128 true;
   mkFentry [9] true 0 true; mkFentry [10] true 5 false; mkFentry [11] false 0 false].
Example C20_ex_no_abort : no_abort ex_parse.
Proof. intros [|n l]; split; discriminate. Qed.
Example C20_ex_tools_ok : tools_ok ex_tools [PPlain [1]; PTmp [2] 1].
Proof. repeat split. Qed.
Example C20_ex_trace :
  (consume_llvm ex_parse ex_tools (Some (BPDir ex_walk)) ∅ [PPlain [1]; PTmp [2] 1]).1 =
  [CMerge [PPlain [1]; PTmp [2] 1]; CExport [5]; CExport [7]; CExport [8]; CExport [6]].
Proof. reflexivity. Qed.
(* binary [7] fails, binary [8] exports something unparsable: [5] and [6] are still in the report *)
Example C20_ex_report :
  match (consume_llvm ex_parse ex_tools (Some (BPDir ex_walk)) ∅ [PPlain [1]; PTmp [2] 1]).2 with
  | Ok m => map (fun '(n, c) => (n, map_to_list (c_lines c))) (map_to_list m) = [([5], [(1, 5)]); ([6], [(1, 6)])]
  | _ => False
  end.
Proof. vm_compute. reflexivity. Qed.
Example C20_ex_profiles :
  profile_paths [([97], [AExtract; AExtract; APlain]); ([98], [AExtract])] =
  [PTmp [97] 1; PTmp [97] 2; PPlain [97]; PTmp [98] 1]
  /\ plain_once [AExtract; AExtract; APlain].
Proof. split; [reflexivity|]. unfold plain_once. vm_compute. lia. Qed.

Definition ex_pf (n : name) (c : bytes) : outcome (list (name * cov)) := Ok [(c, mkCov {[1 := 1]} ∅ ∅)].
Definition ex_he (n : name) : bool := true.
Example C20_ex_single_behaved :
  single_behaved ex_pf [46; 103] (mkGitem [1] [2] true [([2; 46; 103], [65])]).
Proof. split; [reflexivity|]. exists [65], [([65], mkCov {[1 := 1]} ∅ ∅)]. split; reflexivity. Qed.
Example C20_ex_multi_behaved :
  multi_behaved ex_pf ex_he (mkGitem [1] [2] true [([3; 46; 103], [65]); ([4; 46; 103], [66])])
  /\ dir_lookup (expected [46; 103] (mkGitem [1] [2] true [([3; 46; 103], [65]); ([4; 46; 103], [66])]))
                [([3; 46; 103], [65]); ([4; 46; 103], [66])] = None.
Proof.
  split; [|reflexivity]. split; [reflexivity|]. split.
  - repeat constructor; set_solver.
  - repeat constructor; simpl; eauto.
Qed.

(* Refutation of the behaviour before fix 1aab954 (gcc_step_old: the output of a failed gcov run stays in the worker
   directory): the item after a failed one, on the same worker, reports the failed item's file - so one worker and two
   workers give different reports.  The current glue (gcc_worker) does not. *)
Definition ex_bad : gitem := mkGitem [1] [2] false [([9; 46; 103], [66])].
Definition ex_ok : gitem := mkGitem [3] [4] true [([8; 46; 103], [65])].
Definition ex_files (o : outcome (gcov_type * wdir * list (list (name * cov)))) : list (list name) :=
  match o with Ok (_, _, bs) => map (map fst) bs | _ => [] end.
Example C20_gcc_old_failure_leaks_refuted :
  ex_files (gcc_worker_old ex_pf ex_he [46; 103] (fun _ n => n) false GUnknown [] [ex_bad; ex_ok]) = [[[65]; [66]]]
  /\ ex_files (gcc_worker_old ex_pf ex_he [46; 103] (fun _ n => n) false GUnknown [] [ex_ok]) = [[[65]]]
  /\ ex_files (gcc_worker ex_pf ex_he [46; 103] (fun _ n => n) false GUnknown [] [ex_bad; ex_ok]) = [[[65]]].
Proof. vm_compute. auto. Qed.
