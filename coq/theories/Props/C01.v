(* C01 - Aggregation law.  Property theorems only; proofs are in Proofs/MergeFacts.v. *)
From Grcov Require Import Model.Merge Proofs.MergeFacts.

(* The model's two forms of merge_results agree (loop transcription = algebraic form). *)
Theorem C01_merge_loop_eq : forall a b, merge_loop a b = merge a b.
Proof. exact merge_loop_eq. Qed.

(* Lines: clamped sum over unbounded naturals, never wrapped. *)
Theorem C01_lines_clamped_sum : forall rs n,
  Forall lines_bounded rs ->
  c_lines (agg rs) !! n = (fun s => N.min s U64_MAX) <$> osum (map (fun r => c_lines r !! n) rs).
Proof. exact agg_lines_sum. Qed.
Theorem C01_lines_dom : forall rs n,
  is_Some (c_lines (agg rs) !! n) <-> exists r, r ∈ rs /\ is_Some (c_lines r !! n).
Proof. exact agg_lines_dom. Qed.

(* Branches: taken iff some input reports it taken; as many slots as the longest vector. *)
Theorem C01_branch_taken : forall rs n (i : nat),
  (c_branches (agg rs) !! n ≫= (.!! i)) = Some true <->
  exists r, r ∈ rs /\ (c_branches r !! n ≫= (.!! i)) = Some true.
Proof. exact agg_branch_taken. Qed.
Theorem C01_branch_len : forall rs n,
  olen (c_branches (agg rs) !! n) = foldr Nat.max 0%nat (map (fun r => olen (c_branches r !! n)) rs).
Proof. exact agg_branch_len. Qed.
Theorem C01_branch_dom : forall rs n,
  is_Some (c_branches (agg rs) !! n) <-> exists r, r ∈ rs /\ is_Some (c_branches r !! n).
Proof. exact agg_branch_dom. Qed.

(* Functions: reported iff named by some input, executed iff executed in some input,
   start line from one of the inputs, the common one when they agree. *)
Theorem C01_fun_dom : forall rs f,
  is_Some (c_funcs (agg rs) !! f) <-> exists r, r ∈ rs /\ is_Some (c_funcs r !! f).
Proof. exact agg_fun_dom. Qed.
Theorem C01_fun_exec : forall rs f,
  (f_exec <$> c_funcs (agg rs) !! f) = Some true <->
  exists r, r ∈ rs /\ (f_exec <$> c_funcs r !! f) = Some true.
Proof. exact agg_fun_exec. Qed.
Theorem C01_fun_start_in : forall rs f g,
  c_funcs (agg rs) !! f = Some g ->
  exists r h, r ∈ rs /\ c_funcs r !! f = Some h /\ f_start h = f_start g.
Proof. exact agg_fun_start_in. Qed.
Theorem C01_fun_start_common : forall rs f g s,
  c_funcs (agg rs) !! f = Some g ->
  (forall r h, r ∈ rs -> c_funcs r !! f = Some h -> f_start h = s) ->
  f_start g = s.
Proof. exact agg_fun_start_common. Qed.

(* Order and grouping: the aggregate is the same for every permutation and every parenthesisation. *)
Theorem C01_comm_obs : forall a b, obs (merge a b) = obs (merge b a).
Proof. exact merge_comm_obs. Qed.
Theorem C01_assoc : forall a b c, merge (merge a b) c = merge a (merge b c).
Proof. exact merge_assoc. Qed.
Theorem C01_perm_obs : forall rs rs', rs ≡ₚ rs' -> obs (agg rs) = obs (agg rs').
Proof. exact agg_perm_obs. Qed.
Theorem C01_tree_obs : forall (t : bintree cov) rs, leaves t ≡ₚ rs -> obs (eval_tree t) = obs (agg rs).
Proof. exact agg_tree_obs. Qed.
Theorem C01_tree_full : forall t : bintree cov, eval_tree t = agg (leaves t).
Proof. exact eval_tree_agg. Qed.

(* Identity: combining with an input that says nothing leaves the data unchanged. *)
Theorem C01_empty_l : forall a, merge empty_cov a = a.
Proof. exact merge_empty_l. Qed.
Theorem C01_empty_r : forall a, merge a empty_cov = a.
Proof. exact merge_empty_r. Qed.
Theorem C01_file_absent : forall m rs p, p ∉ rs.*1 -> add_results m rs !! p = m !! p.
Proof. exact add_results_absent. Qed.
Theorem C01_files_perm_obs : forall m rs rs',
  rs ≡ₚ rs' -> obs_map (add_results m rs) = obs_map (add_results m rs').
Proof. exact add_results_perm_obs. Qed.
Theorem C01_file_is_agg : forall rs p,
  add_results ∅ rs !! p =
  match map snd (filter (fun r => r.1 = p) rs) with [] => None | cs => Some (agg cs) end.
Proof. exact add_results_empty_lookup. Qed.

(* Monotonicity of adding an input. *)
Theorem C01_mono_lines_l : forall a b n c, c_lines a !! n = Some c -> c <= U64_MAX ->
  exists c', c_lines (merge a b) !! n = Some c' /\ c <= c'.
Proof. exact merge_mono_lines_l. Qed.
Theorem C01_mono_lines_r : forall a b n c, c_lines b !! n = Some c -> c <= U64_MAX ->
  exists c', c_lines (merge a b) !! n = Some c' /\ c <= c'.
Proof. exact merge_mono_lines_r. Qed.
Theorem C01_mono_branch_l : forall a b n v, c_branches a !! n = Some v ->
  exists v', c_branches (merge a b) !! n = Some v' /\ (length v <= length v')%nat /\
             forall i : nat, v !! i = Some true -> v' !! i = Some true.
Proof. exact merge_mono_branch_l. Qed.
Theorem C01_mono_branch_r : forall a b n v, c_branches b !! n = Some v ->
  exists v', c_branches (merge a b) !! n = Some v' /\ (length v <= length v')%nat /\
             forall i : nat, v !! i = Some true -> v' !! i = Some true.
Proof. exact merge_mono_branch_r. Qed.
Theorem C01_mono_fun_l : forall a b f g, c_funcs a !! f = Some g ->
  exists g', c_funcs (merge a b) !! f = Some g' /\ f_start g' = f_start g /\ (f_exec g = true -> f_exec g' = true).
Proof. exact merge_mono_fun_l. Qed.
Theorem C01_mono_fun_r : forall a b f g, c_funcs b !! f = Some g ->
  exists g', c_funcs (merge a b) !! f = Some g' /\ (f_exec g = true -> f_exec g' = true).
Proof. exact merge_mono_fun_r. Qed.

(* Non-vacuity: a pair that saturates, a pair with unequal vector lengths, a pair that
   disagrees on a start line (which is why the start is outside [obs]). *)
Definition ex_a : cov := cov_of_l ([(1, 18446744073709551615); (2, 5)], [(2, [true; false; false])], [([102], (7, false))]).
Definition ex_b : cov := cov_of_l ([(1, 1); (3, 4)], [(2, [false; true])], [([102], (9, true))]).
Example C01_ex_saturates : c_lines (merge ex_a ex_b) !! 1 = Some U64_MAX.
Proof. vm_compute. reflexivity. Qed.
Example C01_ex_vectors : c_branches (merge ex_a ex_b) !! 2 = Some [true; true; false]
                      /\ c_branches (merge ex_b ex_a) !! 2 = Some [true; true; false].
Proof. vm_compute. auto. Qed.
Example C01_ex_start_differs : (f_start <$> c_funcs (merge ex_a ex_b) !! [102]) = Some 7
                            /\ (f_start <$> c_funcs (merge ex_b ex_a) !! [102]) = Some 9.
Proof. vm_compute. auto. Qed.
Example C01_ex_bounded : Forall lines_bounded [ex_a; ex_b].
Proof.
  repeat constructor; intros n x; unfold ex_a, ex_b, cov_of_l; simpl;
    intros H; repeat (apply lookup_insert_Some in H as [[_ <-]|[_ H]]; [unfold U64_MAX; lia|]);
    rewrite lookup_empty in H; discriminate.
Qed.
