(* C06 - sharded aggregation through lcov equals direct aggregation.  Property theorems only.
   A stage aggregates its inputs and hands the result on as an lcov report that is re-imported unchanged
   (C05_roundtrip, with --branch at every stage); [stage] is therefore the list of records of the aggregated map. *)
From Grcov Require Import Model.Merge Proofs.MergeFacts Proofs.ShardFacts.

Theorem C06_stage_identity : forall m : filemap, add_results ∅ (map_to_list m) = m.
Proof. exact add_results_map_to_list. Qed.
(* every partition into shards: same map, start lines included *)
Theorem C06_shard_eq_direct_full : forall shards : list (list (name * cov)),
  add_results ∅ (concat (map stage shards)) = add_results ∅ (concat shards).
Proof. exact shard_eq_direct_full. Qed.
Theorem C06_shard_eq_direct : forall shards : list (list (name * cov)),
  obs_map (add_results ∅ (concat (map stage shards))) = obs_map (add_results ∅ (concat shards)).
Proof. exact shard_eq_direct. Qed.
(* every nesting depth of intermediate aggregation *)
Theorem C06_shard_tree_full : forall t, add_results ∅ (eval_stree t) = add_results ∅ (flat t).
Proof. exact shard_tree_full. Qed.
Theorem C06_shard_tree : forall t, obs_map (add_results ∅ (eval_stree t)) = obs_map (add_results ∅ (flat t)).
Proof. exact shard_tree. Qed.
