(* C18 - reports stay well-formed whatever the names and source text contain.  Property theorems only.
   All statements quantify over ALL byte strings (list N), hence over the UTF-8 bytes of every string of
   printable Unicode characters.  Model/Escape.v: the three escapers the writers go through, independent
   strict decoders, byte scanners for the skeleton of markup and of JSON. *)
From Grcov Require Import Model.Escape Proofs.EscapeFacts.
Import Coq.Strings.String.StringSyntax.

(* 1. What a reader decodes is the exact name.  The decoders reject every raw delimiter and every
      malformed reference / escape, so these also say the escaped text is well-formed in its context. *)
Theorem C18_xml_inverse : forall s, xml_unescape (xml_escape s) = Some s.
Proof. exact xml_escape_inverse. Qed.
Theorem C18_json_inverse : forall s, json_unescape (json_escape s) = Some s.
Proof. exact json_escape_inverse. Qed.
Theorem C18_html_inverse : forall s, html_unescape (html_escape s) = Some s.
Proof. exact html_escape_inverse. Qed.

(* 2. No raw delimiter: neither < > nor a quote of either kind occurs in escaped markup text, every &
      starts one of the references the escaper writes; escaped JSON has no control byte. *)
Theorem C18_xml_no_meta : forall s c, In c (xml_escape s) -> c <> 60 /\ c <> 62 /\ c <> 34 /\ c <> 39.
Proof. exact xml_no_meta. Qed.
Theorem C18_html_no_meta : forall s c, In c (html_escape s) -> c <> 60 /\ c <> 62 /\ c <> 34 /\ c <> 39.
Proof. exact html_no_meta. Qed.
Theorem C18_xml_amp : forall s, amp_ok xml_names (xml_escape s) = true.
Proof. exact xml_amp_ok. Qed.
Theorem C18_html_amp : forall s, amp_ok html_names (html_escape s) = true.
Proof. exact html_amp_ok. Qed.
Theorem C18_json_no_control : forall s c, In c (json_escape s) -> 32 <= c.
Proof. exact json_no_control. Qed.

(* 3. The hole cannot end its context: a scanner looking for the end of the attribute value / text /
      string (first raw delimiter [d]: any subset of < > and the two quotes; first unescaped quote for JSON)
      stops exactly after the escaped name, whatever the name. *)
Theorem C18_xml_hole_end : forall d q s post,
  (forall c, d c = true -> markup_meta c = true) -> d q = true ->
  scan_to d (xml_escape s ++ q :: post) = (xml_escape s, q :: post).
Proof. exact xml_hole_end. Qed.
Theorem C18_html_hole_end : forall d q s post,
  (forall c, d c = true -> markup_meta c = true) -> d q = true ->
  scan_to d (html_escape s ++ q :: post) = (html_escape s, q :: post).
Proof. exact html_hole_end. Qed.
Theorem C18_json_hole_end : forall s post,
  json_scan (json_escape s ++ 34 :: post) = (json_escape s, 34 :: post).
Proof. exact json_string_end. Qed.

(* 3b. Hence what a reader extracts from the report is the exact name: scan to the closing delimiter, decode. *)
Theorem C18_xml_attr_exact : forall s post,
  let '(v, rest) := scan_to (fun c => c =? 34) (xml_escape s ++ 34 :: post) in
  xml_unescape v = Some s /\ rest = 34 :: post.
Proof. exact xml_attr_exact. Qed.
Theorem C18_html_text_exact : forall s post,
  let '(v, rest) := scan_to (fun c => c =? 60) (html_escape s ++ 60 :: post) in
  html_unescape v = Some s /\ rest = 60 :: post.
Proof. exact html_text_exact. Qed.
Theorem C18_json_string_exact : forall s post,
  let '(v, rest) := json_scan (json_escape s ++ 34 :: post) in
  json_unescape v = Some s /\ rest = 34 :: post.
Proof. exact json_string_exact. Qed.

(* 4. Non-interference.  A report is fixed text with holes; every escaped hole sits in text or inside a
      quoted attribute value (markup) / inside a string (JSON).  Two reports of the same shape - same fixed
      text, any names in the holes - have the same skeleton (all tags with their attribute names and
      delimiters; all JSON structure outside strings) and leave the scanner in the same state. *)
Theorem C18_xml_skeleton : forall ps qs st,
  same_shape ps qs = true -> well_placed mstep m_hole st ps = true ->
  tokens mstep st (render xml_escape ps) = tokens mstep st (render xml_escape qs) /\
  state_after mstep st (render xml_escape ps) = state_after mstep st (render xml_escape qs).
Proof. exact (tokens_same_shape mstep m_hole xml_escape mrun_xml). Qed.
Theorem C18_html_skeleton : forall ps qs st,
  same_shape ps qs = true -> well_placed mstep m_hole st ps = true ->
  tokens mstep st (render html_escape ps) = tokens mstep st (render html_escape qs) /\
  state_after mstep st (render html_escape ps) = state_after mstep st (render html_escape qs).
Proof. exact (tokens_same_shape mstep m_hole html_escape mrun_html). Qed.
Theorem C18_json_skeleton : forall ps qs st,
  same_shape ps qs = true -> well_placed jstep j_hole st ps = true ->
  tokens jstep st (render json_escape ps) = tokens jstep st (render json_escape qs) /\
  state_after jstep st (render json_escape ps) = state_after jstep st (render json_escape qs).
Proof. exact (tokens_same_shape jstep j_hole json_escape jrun_json). Qed.

(* 4b. Cobertura start tags as quick-xml writes them (push_attribute escapes the value): the skeleton of
       `<tag k1="v1" k2="v2" ...>` is the tag name and the attribute names, whatever the values. *)
Theorem C18_start_tag_tokens : forall tag attrs,
  plain_name tag = true -> forallb plain_name (map fst attrs) = true ->
  run mstep MText (xml_start_tag tag attrs) =
  (MText, TOpen :: map TRaw tag ++ flat_map attr_toks (map fst attrs) ++ [TClose]).
Proof. exact start_tag_tokens. Qed.

(* 5. The HTML templates.  Every hole that Tera renders without escaping (marked `safe`, or a macro call)
      is fed by constants, option values, numbers or already-rendered macro output only.  (Until fix 6a2db8b
      `parent.0 | safe` in macros.html was the exception, defect F13.) *)
Theorem C18_unescaped_holes_trusted : forall h,
  In h html_holes -> unescaped h = true -> forallb (fun o => negb (untrusted o)) (h_from h) = true.
Proof. exact unescaped_holes_trusted. Qed.
(* the F13 witness at byte level: were the breadcrumb link pasted raw (`| safe`, as before the fix), a directory
   name would change the skeleton of the breadcrumb entry when a link prefix is given (an img element with an
   event handler appears) ... *)
Definition hostile_dir : bytes := bs "d""><img src=x onerror=alert(1)>".
Theorem C18_breadcrumb_refuted :
  tokens mstep MText (breadcrumb true (Some (bs "https://h")) hostile_dir) <>
  tokens mstep MText (breadcrumb true (Some (bs "https://h")) (bs "d")).
Proof. vm_compute. discriminate. Qed.
(* ... which cannot happen with the template as it stands (escaped link), for every prefix and all directory names, *)
Theorem C18_breadcrumb_fixed : forall p d1 d2,
  tokens mstep MText (breadcrumb false p d1) = tokens mstep MText (breadcrumb false p d2).
Proof. exact breadcrumb_fixed. Qed.
(* nor, even with a raw link, without a link prefix. *)
Theorem C18_breadcrumb_no_prefix : forall d1 d2,
  tokens mstep MText (breadcrumb true None d1) = tokens mstep MText (breadcrumb true None d2).
Proof. exact breadcrumb_no_prefix. Qed.

(* ---------- examples: hostile strings, and the hypotheses of 4 are satisfiable ---------- *)
Example C18_ex_xml : xml_escape (bs """><script>alert(1)</script>")
                     = bs "&quot;&gt;&lt;script&gt;alert(1)&lt;/script&gt;".
Proof. vm_compute. reflexivity. Qed.
Example C18_ex_xml2 : xml_escape (bs "a&b<c>'d""") = bs "a&amp;b&lt;c&gt;&apos;d&quot;".
Proof. vm_compute. reflexivity. Qed.
Example C18_ex_html : html_escape (bs """><script>alert(1)</script>")
                      = bs "&quot;&gt;&lt;script&gt;alert(1)&lt;&#x2F;script&gt;".
Proof. vm_compute. reflexivity. Qed.
Example C18_ex_html2 : html_escape (bs "a&b<c>'d""") = bs "a&amp;b&lt;c&gt;&#x27;d&quot;".
Proof. vm_compute. reflexivity. Qed.
(* c a f e-acute (C3 A9), a double quote, a backslash, TAB and byte 01 *)
Example C18_ex_json : json_string [99; 97; 102; 195; 169; 34; 92; 9; 1]
                      = [34; 99; 97; 102; 195; 169; 92; 34; 92; 92; 92; 116] ++ bs "\u0001" ++ [34].
Proof. vm_compute. reflexivity. Qed.
(* non-ASCII bytes pass through all three unchanged: U+65E5 U+672C, U+1F600 *)
Example C18_ex_utf8 :
  let s := [230; 151; 165; 230; 156; 172; 240; 159; 152; 128] in
  xml_escape s = s /\ html_escape s = s /\ json_escape s = s.
Proof. vm_compute. tauto. Qed.
(* the decoders are not the identity and do reject: numeric references, raw delimiters, bad escapes *)
Example C18_ex_decoders :
  xml_unescape (bs "&#x3C;&#60;&lt;") = Some (bs "<<<") /\ xml_unescape (bs "a<b") = None /\
  xml_unescape (bs "a&b") = None /\ xml_unescape (bs "&#xE9;") = Some [195; 169] /\
  html_unescape (bs "&#x27;&#x2F;&apos;") = Some (bs "'/'") /\ html_unescape (bs "a""b") = None /\
  json_unescape (bs "é\n\/") = Some [195; 169; 10; 47] /\ json_unescape (bs "a""b") = None /\
  json_unescape (bs "\x") = None /\ json_unescape [9] = None.
Proof. vm_compute. tauto. Qed.
Example C18_ex_start_tag :
  xml_start_tag (bs "class") [(bs "name", bs "a""><x y=""1"); (bs "filename", bs "d/a<b>.c")]
  = bs "<class name=""a&quot;&gt;&lt;x y=&quot;1"" filename=""d/a&lt;b&gt;.c"">".
Proof. vm_compute. reflexivity. Qed.
(* a Cobertura-like element with two attribute holes and a text hole is well placed; the unquoted
   position is not *)
Example C18_ex_placed :
  well_placed mstep m_hole MText
    [Fixed (bs "<class name="""); Hole (bs "a""><x y=""1"); Fixed (bs """ filename='"); Hole (bs "b'c");
     Fixed (bs "'>"); Hole (bs "</class><script>"); Fixed (bs "</class>")] = true /\
  well_placed mstep m_hole MText [Fixed (bs "<class name="); Hole (bs "x"); Fixed (bs ">")] = false /\
  well_placed jstep j_hole JOut [Fixed (bs "{""name"":"""); Hole (bs """,""x"":""1"); Fixed (bs """}")] = true.
Proof. vm_compute. tauto. Qed.
