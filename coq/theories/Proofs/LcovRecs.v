(* Operational meaning of one rendered record / section line in the parser model. *)
From Grcov Require Import Model.Lcov Model.LcovSpec Proofs.MergeFacts Proofs.LcovStep.
From Coq Require Import ZifyBool ZifyN ZifyNat.
Import Coq.Strings.String.StringSyntax.
Ltac Zify.zify_post_hook ::= Z.div_mod_to_equations.

(** * end of line *)
Definition eol_tl (crlf : bool) : bytes := if crlf then [10] else [].

Lemma run_lf b l st : run b (10 :: l) st = run b l st.
Proof. apply run_step. reflexivity. Qed.
Lemma run_eol_tl b crlf l st : run b (eol_tl crlf ++ l) st = run b l st.
Proof. destruct crlf; [apply run_lf|reflexivity]. Qed.

Lemma take_while_eol p xs crlf r :
  forallb p xs = true -> p 10 = false -> p 13 = false ->
  take_while p (xs ++ eol crlf ++ r) = (xs, eol_tl crlf ++ r).
Proof.
  intros Hxs H10 H13. destruct crlf; cbn [eol eol_tl app]; apply take_while_app; assumption.
Qed.
Lemma skip_line_eol xs crlf r : forallb not_lf xs = true -> skip_line (xs ++ eol crlf ++ r) = r.
Proof.
  intros Hxs. destruct crlf; cbn [eol app].
  - change (xs ++ 13 :: 10 :: r) with (xs ++ [13] ++ 10 :: r). rewrite app_assoc.
    apply skip_line_app. rewrite forallb_app, Hxs. reflexivity.
  - apply skip_line_app, Hxs.
Qed.

Lemma forallb_impl {A} (p q : A -> bool) l :
  (forall x, p x = true -> q x = true) -> forallb p l = true -> forallb q l = true.
Proof.
  intros Hpq. induction l as [|x l IH]; simpl; [reflexivity|].
  intros H. apply andb_true_iff in H as [Hx Hl]. rewrite (Hpq _ Hx), IH by assumption. reflexivity.
Qed.
Lemma is_digit_not_lf x : is_digit x = true -> not_lf x = true.
Proof. unfold is_digit, not_lf, cLF. lia. Qed.
Lemma not_eol_not_lf x : not_eol x = true -> not_lf x = true.
Proof. unfold not_eol, not_lf, cLF. lia. Qed.
Lemma is_upper_not_lf x : is_upper x = true -> not_lf x = true.
Proof. unfold is_upper, not_lf, cLF. lia. Qed.

(** * lines that are skipped *)
Lemma run_skip_line b c xs crlf r st :
  (c =? ce) = false -> (c =? cLF) = false -> starts_sdfb c = false -> forallb not_lf xs = true ->
  run b (c :: xs ++ eol crlf ++ r) st = run b r st.
Proof.
  intros He Hlf Hs Hxs. apply run_step. unfold step. rewrite He, Hlf.
  change ((c =? cS) || (c =? cD) || (c =? cF) || (c =? cB)) with (starts_sdfb c). rewrite Hs.
  cbn [negb]. rewrite skip_line_eol by assumption. reflexivity.
Qed.
Lemma run_blank b crlf r st : run b (eol crlf ++ r) st = run b r st.
Proof.
  destruct crlf; cbn [eol app]; [|apply run_lf].
  apply (run_skip_line b 13 [] false r st); reflexivity.
Qed.
Lemma run_digits_line b d crlf r st :
  forallb is_digit d = true -> run b (d ++ eol crlf ++ r) st = run b r st.
Proof.
  intros Hd. destruct d as [|x d]; [apply run_blank|].
  cbn [forallb] in Hd. apply andb_true_iff in Hd as [Hx Hd]. cbn [app].
  apply run_skip_line.
  - unfold is_digit, ce in *. lia.
  - unfold is_digit, cLF in *. lia.
  - unfold is_digit, starts_sdfb, cS, cD, cF, cB in *. lia.
  - eapply forallb_impl; [apply is_digit_not_lf|assumption].
Qed.

(** * keyed lines *)
Definition step_DA (l : bytes) (st : pstate) : outcome (bytes * pstate) :=
          if negb (digit_guard l) then Err else
          let '(ds, l) := take_while is_digit l in
          let line_no := dec_fold two32 0 ds in
          match l with
          | [] => Err
          | c :: l =>
              let '(count, l) :=
                if c =? cMinus then (0, skip_line l)
                else let '(ds, l) := take_while is_digit l in
                     (dec_fold two64 ((c + 256 - c0) mod 256) ds, l) in
              let old := default 0 (p_lines st !! line_no) in
              Ok (l, mkP (p_file st) (<[line_no := sat_add64 old count]> (p_lines st))
                         (p_branches st) (p_funcs st) (p_results st))
          end.
Definition step_FN (l : bytes) (st : pstate) : outcome (bytes * pstate) :=
          if negb (digit_guard l) then Err else
          let '(ds, l) := take_while is_digit l in
          let start := dec_fold two32 0 ds in
          match l with
          | [] => Err
          | _ =>
              let '(nm, l) := take_while not_eol l in
              Ok (l, mkP (p_file st) (p_lines st) (p_branches st)
                         (<[nm := mkFunc start false]> (p_funcs st)) (p_results st))
          end.
Definition step_FNDA (l : bytes) (st : pstate) : outcome (bytes * pstate) :=
          if negb (digit_guard l) then Err else
          let '(ds, l) := take_while is_digit l in
          let executed := dec_fold two64 0 ds in
          match l with
          | [] => Err
          | _ =>
              let '(nm, l) := take_while not_eol l in
              match p_funcs st !! nm with
              | Some f =>
                  Ok (l, mkP (p_file st) (p_lines st) (p_branches st)
                             (<[nm := mkFunc (f_start f) (f_exec f || negb (executed =? 0))]> (p_funcs st))
                             (p_results st))
              | None => Err
              end
          end.
Definition step_BRDA (l : bytes) (st : pstate) : outcome (bytes * pstate) :=
            if negb (digit_guard l) then Err else
            let '(ds, l) := take_while is_digit l in
            let line_no := dec_fold two32 0 ds in
            match l with
            | [] => Err
            | _ =>
                let '(_, l) := take_while is_digit l in
                match l with
                | [] => Err
                | _ =>
                    let '(ds, l) := take_while is_digit l in
                    let branch_number := dec_fold two32 0 ds in
                    match l with
                    | [] => Err
                    | _ =>
                        let '(taken, l) := brda_taken l in
                        Ok (l, mkP (p_file st) (p_lines st)
                                   (add_branch (p_branches st) line_no branch_number taken)
                                   (p_funcs st) (p_results st))
                    end
                end
            end.
Definition step_key (b : bool) (key : N) (l : bytes) (st : pstate) : outcome (bytes * pstate) :=
        if key =? K_SF then
          let '(nm, l) := take_while not_eol l in
          Ok (l, mkP (Some nm) (p_lines st) (p_branches st) (p_funcs st) (p_results st))
        else if key =? K_DA then step_DA l st
        else if key =? K_FN then step_FN l st
        else if key =? K_FNDA then step_FNDA l st
        else if key =? K_BRDA then
          if b then step_BRDA l st
          else Ok (skip_line l, st)
        else Ok (skip_line l, st).

Lemma step_keyed b c us l st :
  starts_sdfb c = true -> forallb is_upper us = true ->
  step b c (us ++ 58 :: l) st =
  match key_fold c us with None => Err | Some key => step_key b key l st end.
Proof.
  intros Hc Hus. unfold step.
  assert ((c =? ce) = false) as -> by (unfold starts_sdfb, cS, cD, cF, cB, ce in *; lia).
  assert ((c =? cLF) = false) as -> by (unfold starts_sdfb, cS, cD, cF, cB, cLF in *; lia).
  change ((c =? cS) || (c =? cD) || (c =? cF) || (c =? cB)) with (starts_sdfb c). rewrite Hc.
  cbn [negb]. rewrite (take_while_app is_upper us 58 l) by (assumption || reflexivity).
  reflexivity.
Qed.

Lemma step_key_SF b l st :
  step_key b K_SF l st =
  let '(nm, l) := take_while not_eol l in
  Ok (l, mkP (Some nm) (p_lines st) (p_branches st) (p_funcs st) (p_results st)).
Proof. reflexivity. Qed.
Lemma step_key_DA b l st : step_key b K_DA l st = step_DA l st.
Proof. reflexivity. Qed.
Lemma step_key_FN b l st : step_key b K_FN l st = step_FN l st.
Proof. reflexivity. Qed.
Lemma step_key_FNDA b l st : step_key b K_FNDA l st = step_FNDA l st.
Proof. reflexivity. Qed.
Lemma step_key_BRDA b l st :
  step_key b K_BRDA l st = if b then step_BRDA l st else Ok (skip_line l, st).
Proof. reflexivity. Qed.
Lemma step_key_other b key l st :
  key <> K_SF -> key <> K_DA -> key <> K_FN -> key <> K_FNDA -> key <> K_BRDA ->
  step_key b key l st = Ok (skip_line l, st).
Proof.
  intros H1 H2 H3 H4 H5. unfold step_key.
  apply N.eqb_neq in H1, H2, H3, H4, H5. rewrite H1, H2, H3, H4, H5. reflexivity.
Qed.

(** * decimal folds *)
Notation dstep := (fun r x : N => r * 10 + (x - 48)).
Lemma dec_fold_gen m a ds :
  m <> 0 -> dec_fold m (a mod m) ds = fold_left dstep ds a mod m.
Proof.
  intros Hm. revert a; induction ds as [|x ds IH]; intros a; cbn [fold_left dec_fold].
  - unfold dec_fold. cbn [fold_left]. reflexivity.
  - unfold dec_fold in *. cbn [fold_left]. rewrite <- IH. f_equal.
    unfold c0. rewrite N.add_mod, N.mul_mod_idemp_l, <- N.add_mod by assumption. reflexivity.
Qed.
Lemma dec_fold_val m ds : dec_val ds < m -> dec_fold m 0 ds = dec_val ds.
Proof.
  intros Hlt. assert (m <> 0) as Hm by lia.
  rewrite <- (N.mod_0_l m Hm) at 1. rewrite dec_fold_gen by assumption.
  apply N.mod_small, Hlt.
Qed.
Lemma dec_val_cons c ds : dec_val (c :: ds) = fold_left dstep ds (c - 48).
Proof. unfold dec_val. cbn [fold_left]. f_equal; lia. Qed.
Lemma dec_fold_first c ds :
  is_digit c = true -> dec_val (c :: ds) < two64 ->
  dec_fold two64 ((c + 256 - c0) mod 256) ds = dec_val (c :: ds).
Proof.
  intros Hc Hlt. rewrite dec_val_cons in *.
  assert ((c + 256 - c0) mod 256 = (c - 48) mod two64) as ->.
  { unfold is_digit, c0, two64 in *. lia. }
  rewrite dec_fold_gen by (unfold two64; lia). apply N.mod_small, Hlt.
Qed.
Lemma fold_dec_ge d a : a <= fold_left dstep d a.
Proof.
  revert a; induction d as [|x d IH]; intros a; cbn [fold_left]; [lia|].
  specialize (IH (a * 10 + (x - 48))). lia.
Qed.

Lemma digits_inv d : digits d = true -> d <> [] /\ forallb is_digit d = true.
Proof.
  unfold digits. intros H. apply andb_true_iff in H as [H1 H2]. split; [|assumption].
  apply negb_true_iff, bool_decide_eq_false in H1. assumption.
Qed.
Lemma digit_guard_app d r : digits d = true -> digit_guard (d ++ r) = true.
Proof.
  intros H. apply digits_inv in H as [Hne Hd]. destruct d as [|x d]; [congruence|].
  cbn [forallb] in Hd. apply andb_true_iff in Hd as [Hx _]. exact Hx.
Qed.

Lemma match_nonempty {A B} (l : list A) (e k : B) :
  l <> [] -> match l with [] => e | _ :: _ => k end = k.
Proof. destruct l; [congruence|reflexivity]. Qed.
Lemma eol_app_ne xs crlf r : xs ++ eol crlf ++ r <> [].
Proof. destruct xs; [destruct crlf|]; discriminate. Qed.
Lemma app_cons_ne {A} (xs : list A) y r : xs ++ y :: r <> [].
Proof. destruct xs; discriminate. Qed.

(** * brda_taken *)
Lemma brda_taken_spec b d crlf rest :
  forallb is_digit d = true ->
  exists rem, brda_taken (d ++ eol crlf ++ rest) = (0 <? dec_val d, rem) /\
              forall st, run b rem st = run b rest st.
Proof.
  induction d as [|x d IH]; intros Hd.
  - exists (eol_tl crlf ++ rest). split; [|intros; apply run_eol_tl].
    destruct crlf; reflexivity.
  - cbn [forallb] in Hd. apply andb_true_iff in Hd as [Hx Hd].
    cbn [app brda_taken].
    assert (not_eol x = true) as -> by (unfold is_digit, not_eol, cLF, cCR in *; lia).
    destruct (x =? c0) eqn:E0.
    + assert (x = 48) as -> by (unfold c0 in *; lia).
      change (negb (48 =? cMinus) && negb (48 =? c0)) with false. cbn iota.
      change (dec_val (48 :: d)) with (dec_val d). apply IH, Hd.
    + assert ((x =? cMinus) = false) as -> by (unfold is_digit, cMinus in *; lia).
      cbn [negb andb]. exists (d ++ eol crlf ++ rest). split.
      * f_equal. rewrite dec_val_cons. pose proof (fold_dec_ge d (x - 48)).
        unfold is_digit, c0 in *. lia.
      * intros st. apply run_digits_line, Hd.
Qed.
Lemma brda_taken_minus crlf rest :
  brda_taken (45 :: eol crlf ++ rest) = (false, eol_tl crlf ++ rest).
Proof. destruct crlf; reflexivity. Qed.

(** * keys *)
Lemma key_fold_ge us a : a <= fold_left (fun r x : N => r * 256 + x) us a.
Proof.
  revert a; induction us as [|x us IH]; intros a; cbn [fold_left]; [lia|].
  specialize (IH (a * 256 + x)). lia.
Qed.
Lemma key_fold_val c us :
  fold_left (fun r x : N => r * 256 + x) us c < two32 ->
  key_fold c us = Some (fold_left (fun r x : N => r * 256 + x) us c).
Proof.
  revert c; induction us as [|x us IH]; intros c Hlt; [reflexivity|].
  unfold key_fold in *. cbn [fold_left] in *.
  pose proof (key_fold_ge us (c * 256 + x)) as Hge.
  assert ((c * 256 + x <? two32) = true) as -> by lia.
  apply IH, Hlt.
Qed.
Lemma key_val_cons c us : key_val (c :: us) = fold_left (fun r x : N => r * 256 + x) us c.
Proof. unfold key_val. cbn [fold_left]. f_equal. Qed.
Lemma key_val_bound key :
  forallb is_upper key = true -> (length key <= 4)%nat -> key_val key < two32.
Proof.
  intros Hu Hl. unfold key_val.
  destruct key as [|k1 [|k2 [|k3 [|k4 [|k5 ?]]]]]; cbn [length] in Hl; try lia;
    cbn [fold_left forallb] in *; unfold is_upper, two32 in *; lia.
Qed.

(** * the state update of one record *)
Definition brda_tk (t : option bytes) : bool :=
  match t with Some d => 0 <? dec_val d | None => false end.
Definition apply_rec (b : bool) (st : pstate) (r : rec) : pstate :=
  match r with
  | RDA l c =>
      mkP (p_file st)
          (<[dec_val l := sat_add64 (default 0 (p_lines st !! dec_val l)) (dec_val c)]> (p_lines st))
          (p_branches st) (p_funcs st) (p_results st)
  | RDAneg l _ =>
      mkP (p_file st)
          (<[dec_val l := sat_add64 (default 0 (p_lines st !! dec_val l)) 0]> (p_lines st))
          (p_branches st) (p_funcs st) (p_results st)
  | RFN s nm =>
      mkP (p_file st) (p_lines st) (p_branches st)
          (<[nm := mkFunc (dec_val s) false]> (p_funcs st)) (p_results st)
  | RFNDA c nm =>
      match p_funcs st !! nm with
      | Some f =>
          mkP (p_file st) (p_lines st) (p_branches st)
              (<[nm := mkFunc (f_start f) (f_exec f || negb (dec_val c =? 0))]> (p_funcs st))
              (p_results st)
      | None => st
      end
  | RBRDA l _ n t =>
      if b then
        mkP (p_file st) (p_lines st)
            (add_branch (p_branches st) (dec_val l) (dec_val n) (brda_tk t))
            (p_funcs st) (p_results st)
      else st
  | _ => st
  end.

Ltac split_wf H :=
  repeat match type of H with
         | (_ && _) = true => let H' := fresh H in apply andb_true_iff in H as [H H']; split_wf H'
         end.

Lemma run_RDA b l c crlf rest st :
  wf_rec (RDA l c) = true ->
  run b (render_rec (RDA l c, crlf) ++ rest) st = run b rest (apply_rec b st (RDA l c)).
Proof.
  intros Hwf. cbn [wf_rec] in Hwf.
  apply andb_true_iff in Hwf as [Hwf Hc64]. apply andb_true_iff in Hwf as [Hwf Hl32].
  apply andb_true_iff in Hwf as [Hl Hc].
  unfold render_rec. cbn [fst snd]. change (bs "DA:") with [68; 65; 58].
  rewrite <- !app_assoc. cbn [app].
  rewrite <- (run_eol_tl b crlf rest). apply run_step.
  change (65 :: 58 :: ?x) with ([65] ++ 58 :: x).
  rewrite step_keyed by reflexivity.
  change (key_fold 68 [65]) with (Some K_DA). cbv beta iota.
  rewrite step_key_DA. unfold step_DA.
  rewrite digit_guard_app by assumption. cbn [negb].
  destruct (digits_inv _ Hl) as [_ Hld]. destruct (digits_inv _ Hc) as [Hcne Hcd].
  rewrite (take_while_app is_digit l 44) by (assumption || reflexivity). cbv beta iota zeta.
  destruct c as [|x cs]; [congruence|]. cbn [app].
  cbn [forallb] in Hcd. apply andb_true_iff in Hcd as [Hx Hcs].
  assert ((x =? cMinus) = false) as -> by (unfold is_digit, cMinus in *; lia).
  rewrite take_while_eol by (assumption || reflexivity). cbv beta iota zeta.
  rewrite dec_fold_val by lia. rewrite dec_fold_first by (assumption || lia).
  reflexivity.
Qed.

Lemma run_RDAneg b l t crlf rest st :
  wf_rec (RDAneg l t) = true ->
  run b (render_rec (RDAneg l t, crlf) ++ rest) st = run b rest (apply_rec b st (RDAneg l t)).
Proof.
  intros Hwf. cbn [wf_rec] in Hwf.
  apply andb_true_iff in Hwf as [Hwf Ht]. apply andb_true_iff in Hwf as [Hl Hl32].
  unfold render_rec. cbn [fst snd]. change (bs "DA:") with [68; 65; 58].
  rewrite <- !app_assoc. cbn [app].
  apply run_step.
  change (65 :: 58 :: ?x) with ([65] ++ 58 :: x).
  rewrite step_keyed by reflexivity.
  change (key_fold 68 [65]) with (Some K_DA). cbv beta iota.
  rewrite step_key_DA. unfold step_DA.
  rewrite digit_guard_app by assumption. cbn [negb].
  destruct (digits_inv _ Hl) as [_ Hld].
  rewrite (take_while_app is_digit l 44) by (assumption || reflexivity). cbv beta iota zeta.
  change (45 =? cMinus) with true. cbv beta iota zeta.
  rewrite skip_line_eol by assumption.
  rewrite dec_fold_val by lia. reflexivity.
Qed.

Lemma run_RFN b s nm crlf rest st :
  wf_rec (RFN s nm) = true ->
  run b (render_rec (RFN s nm, crlf) ++ rest) st = run b rest (apply_rec b st (RFN s nm)).
Proof.
  intros Hwf. cbn [wf_rec] in Hwf.
  apply andb_true_iff in Hwf as [Hwf Hnm]. apply andb_true_iff in Hwf as [Hs Hs32].
  unfold render_rec. cbn [fst snd]. change (bs "FN:") with [70; 78; 58].
  rewrite <- !app_assoc. cbn [app].
  rewrite <- (run_eol_tl b crlf rest). apply run_step.
  change (78 :: 58 :: ?x) with ([78] ++ 58 :: x).
  rewrite step_keyed by reflexivity.
  change (key_fold 70 [78]) with (Some K_FN). cbv beta iota.
  rewrite step_key_FN. unfold step_FN.
  rewrite digit_guard_app by assumption. cbn [negb].
  destruct (digits_inv _ Hs) as [_ Hsd].
  rewrite (take_while_app is_digit s 44) by (assumption || reflexivity). cbv beta iota zeta.
  rewrite match_nonempty by apply eol_app_ne.
  rewrite take_while_eol by (assumption || reflexivity). cbv beta iota zeta.
  rewrite dec_fold_val by lia. reflexivity.
Qed.

Lemma run_RFNDA b c nm crlf rest st :
  wf_rec (RFNDA c nm) = true -> is_Some (p_funcs st !! nm) ->
  run b (render_rec (RFNDA c nm, crlf) ++ rest) st = run b rest (apply_rec b st (RFNDA c nm)).
Proof.
  intros Hwf [f Hf]. cbn [wf_rec] in Hwf.
  apply andb_true_iff in Hwf as [Hwf Hnm]. apply andb_true_iff in Hwf as [Hc Hc64].
  unfold render_rec. cbn [fst snd]. change (bs "FNDA:") with [70; 78; 68; 65; 58].
  rewrite <- !app_assoc. cbn [app].
  rewrite <- (run_eol_tl b crlf rest). apply run_step.
  change (78 :: 68 :: 65 :: 58 :: ?x) with ([78; 68; 65] ++ 58 :: x).
  rewrite step_keyed by reflexivity.
  change (key_fold 70 [78; 68; 65]) with (Some K_FNDA). cbv beta iota.
  rewrite step_key_FNDA. unfold step_FNDA.
  rewrite digit_guard_app by assumption. cbn [negb].
  destruct (digits_inv _ Hc) as [_ Hcd].
  rewrite (take_while_app is_digit c 44) by (assumption || reflexivity). cbv beta iota zeta.
  rewrite match_nonempty by apply eol_app_ne.
  rewrite take_while_eol by (assumption || reflexivity). cbv beta iota zeta.
  rewrite dec_fold_val by lia. cbn [apply_rec]. rewrite Hf.
  match goal with |- match ?x with _ => _ end = _ => replace x with (Some f) by (symmetry; exact Hf) end.
  reflexivity.
Qed.

Lemma run_RBRDA b l bk n t crlf rest st :
  wf_rec (RBRDA l bk n t) = true ->
  run b (render_rec (RBRDA l bk n t, crlf) ++ rest) st = run b rest (apply_rec b st (RBRDA l bk n t)).
Proof.
  intros Hwf. cbn [wf_rec] in Hwf.
  apply andb_true_iff in Hwf as [Hwf Ht]. apply andb_true_iff in Hwf as [Hwf Hn32].
  apply andb_true_iff in Hwf as [Hwf Hl32]. apply andb_true_iff in Hwf as [Hwf Hn].
  apply andb_true_iff in Hwf as [Hl Hbk].
  destruct (digits_inv _ Hl) as [_ Hld]. destruct (digits_inv _ Hbk) as [_ Hbd].
  destruct (digits_inv _ Hn) as [_ Hnd].
  unfold render_rec. cbn [fst snd]. change (bs "BRDA:") with [66; 82; 68; 65; 58].
  rewrite <- !app_assoc. cbn [app].
  change (82 :: 68 :: 65 :: 58 :: ?x) with ([82; 68; 65] ++ 58 :: x).
  destruct b.
  - (* branches enabled *)
    assert (exists rem, brda_taken (default [45] t ++ eol crlf ++ rest) = (brda_tk t, rem) /\
                        forall st, run true rem st = run true rest st) as (rem & Hrem & Hrun).
    { destruct t as [d|]; cbn [default from_option id brda_tk].
      - apply brda_taken_spec. apply digits_inv in Ht. tauto.
      - exists (eol_tl crlf ++ rest). split; [apply brda_taken_minus|intros; apply run_eol_tl]. }
    rewrite <- Hrun. apply run_step.
    rewrite step_keyed by reflexivity.
    change (key_fold 66 [82; 68; 65]) with (Some K_BRDA). cbv beta iota.
    rewrite step_key_BRDA. unfold step_BRDA.
    rewrite digit_guard_app by assumption. cbn [negb].
    rewrite (take_while_app is_digit l 44) by (assumption || reflexivity). cbv beta iota zeta.
    rewrite match_nonempty by apply app_cons_ne.
    rewrite (take_while_app is_digit bk 44) by (assumption || reflexivity). cbv beta iota zeta.
    rewrite match_nonempty by apply app_cons_ne.
    rewrite (take_while_app is_digit n 44) by (assumption || reflexivity). cbv beta iota zeta.
    rewrite match_nonempty by (destruct t; [apply eol_app_ne|discriminate]).
    rewrite Hrem. rewrite !dec_fold_val by lia. reflexivity.
  - (* branches disabled: the line is skipped *)
    apply run_step. rewrite step_keyed by reflexivity.
    change (key_fold 66 [82; 68; 65]) with (Some K_BRDA). cbv beta iota.
    rewrite step_key_BRDA. cbn [apply_rec]. f_equal. f_equal.
    rewrite !app_comm_cons, !app_assoc. rewrite <- (app_assoc _ (eol crlf) rest).
    apply skip_line_eol. rewrite !forallb_app. cbn [forallb].
    rewrite (forallb_impl _ _ _ is_digit_not_lf Hld), (forallb_impl _ _ _ is_digit_not_lf Hbd),
      (forallb_impl _ _ _ is_digit_not_lf Hnd).
    destruct t as [d|]; cbn [default from_option id]; [|reflexivity].
    apply digits_inv in Ht as [_ Ht]. rewrite (forallb_impl _ _ _ is_digit_not_lf Ht). reflexivity.
Qed.

Lemma run_RSkip b key text crlf rest st :
  wf_rec (RSkip key text) = true ->
  run b (render_rec (RSkip key text, crlf) ++ rest) st = run b rest st.
Proof.
  intros Hwf. cbn [wf_rec] in Hwf.
  apply andb_true_iff in Hwf as [Hwf Htext]. apply andb_true_iff in Hwf as [Hwf Hkeys].
  apply andb_true_iff in Hwf as [Hwf Hhead]. apply andb_true_iff in Hwf as [Hup Hlen].
  apply Nat.leb_le in Hlen.
  pose proof (key_val_bound key Hup Hlen) as Hbound.
  apply negb_true_iff, bool_decide_eq_false in Hkeys.
  destruct key as [|k0 ks]; [discriminate|]. cbn [head from_option] in Hhead.
  cbn [forallb] in Hup. apply andb_true_iff in Hup as [Hk0 Hks].
  unfold render_rec. cbn [fst snd]. rewrite <- !app_assoc. cbn [app].
  apply run_step. rewrite step_keyed by assumption.
  rewrite key_val_cons in *. rewrite key_fold_val by assumption.
  rewrite step_key_other.
  - rewrite skip_line_eol by assumption. reflexivity.
  - intros E. apply Hkeys. rewrite E. set_solver.
  - intros E. apply Hkeys. rewrite E. set_solver.
  - intros E. apply Hkeys. rewrite E. set_solver.
  - intros E. apply Hkeys. rewrite E. set_solver.
  - intros E. apply Hkeys. rewrite E. set_solver.
Qed.

Lemma run_ROther b text crlf rest st :
  wf_rec (ROther text) = true ->
  run b (render_rec (ROther text, crlf) ++ rest) st = run b rest st.
Proof.
  intros Hwf. cbn [wf_rec] in Hwf. apply andb_true_iff in Hwf as [Htext Hhd].
  destruct text as [|c text]; [discriminate|].
  apply andb_true_iff in Hhd as [Hs He]. apply negb_true_iff in Hs, He.
  cbn [no_lf forallb] in Htext. apply andb_true_iff in Htext as [Hc Htext].
  unfold render_rec. cbn [fst snd]. rewrite <- !app_assoc. cbn [app].
  apply run_skip_line; try assumption.
  unfold not_lf in Hc. apply negb_true_iff in Hc. exact Hc.
Qed.

Lemma run_RBlank b crlf rest st :
  run b (render_rec (RBlank, crlf) ++ rest) st = run b rest st.
Proof. unfold render_rec. cbn [fst snd app]. apply run_blank. Qed.

Lemma apply_rec_filler b st r : is_filler r = true -> apply_rec b st r = st.
Proof. destruct r; try discriminate; reflexivity. Qed.

Lemma run_rec b r crlf rest st :
  wf_rec r = true ->
  (forall c nm, r = RFNDA c nm -> is_Some (p_funcs st !! nm)) ->
  run b (render_rec (r, crlf) ++ rest) st = run b rest (apply_rec b st r).
Proof.
  intros Hwf Hfn. destruct r.
  - apply run_RDA, Hwf.
  - apply run_RDAneg, Hwf.
  - apply run_RFN, Hwf.
  - apply run_RFNDA; [exact Hwf|eapply Hfn; reflexivity].
  - apply run_RBRDA, Hwf.
  - apply run_RSkip, Hwf.
  - apply run_ROther, Hwf.
  - apply run_RBlank.
Qed.

(** * section header and trailer lines *)
Lemma run_SF b nm crlf rest st :
  name_ok nm = true ->
  run b (bs "SF:" ++ nm ++ eol crlf ++ rest) st =
  run b rest (mkP (Some nm) (p_lines st) (p_branches st) (p_funcs st) (p_results st)).
Proof.
  intros Hnm. change (bs "SF:") with [83; 70; 58]. cbn [app].
  rewrite <- (run_eol_tl b crlf rest). apply run_step.
  change (70 :: 58 :: ?x) with ([70] ++ 58 :: x).
  rewrite step_keyed by reflexivity.
  change (key_fold 83 [70]) with (Some K_SF). cbv beta iota.
  rewrite step_key_SF.
  rewrite take_while_eol by (assumption || reflexivity). reflexivity.
Qed.

Lemma run_end_of_record b crlf rest st f :
  p_file st = Some f ->
  run b (bs "end_of_record" ++ eol crlf ++ rest) st =
  run b rest (mkP None ∅ ∅ ∅ (p_results st ++ [(f, mkCov (p_lines st) (p_branches st) (p_funcs st))])).
Proof.
  intros Hf.
  change (bs "end_of_record") with (101 :: bs "nd_of_record"). cbn [app].
  apply run_step. unfold step. change (101 =? ce) with true. cbv beta iota. rewrite Hf.
  rewrite skip_line_eol by reflexivity. reflexivity.
Qed.

(** * lists of records *)
Lemma run_fillers b rs rest st :
  forallb (fun r : rec * bool => wf_rec r.1 && is_filler r.1) rs = true ->
  run b (concat (map render_rec rs) ++ rest) st = run b rest st.
Proof.
  induction rs as [|[r crlf] rs IH]; intros H; cbn [map concat app]; [reflexivity|].
  cbn [forallb fst] in H. apply andb_true_iff in H as [H Hrs]. apply andb_true_iff in H as [Hwf Hfi].
  rewrite <- app_assoc. rewrite run_rec; [|assumption|intros ? ? ->; discriminate].
  rewrite apply_rec_filler by assumption. apply IH, Hrs.
Qed.

Lemma run_recs b rs : forall seen rest st,
  forallb (fun r : rec * bool => wf_rec r.1) rs = true ->
  fnda_after_fn seen rs.*1 = true ->
  (forall nm, nm ∈ seen -> is_Some (p_funcs st !! nm)) ->
  run b (concat (map render_rec rs) ++ rest) st = run b rest (foldl (apply_rec b) st rs.*1).
Proof.
  induction rs as [|[r crlf] rs IH]; intros seen rest st Hwf Hfn Hseen; cbn [map fmap list_fmap concat app foldl fst];
    [reflexivity|].
  cbn [forallb fst] in Hwf. apply andb_true_iff in Hwf as [Hwf Hwfs].
  rewrite <- app_assoc. cbn [fmap list_fmap fst] in Hfn.
  rewrite run_rec; [|assumption|].
  - destruct r; cbn [fnda_after_fn] in Hfn;
      try (apply (IH seen); [assumption|assumption|
           intros nm' Hin; cbn [apply_rec p_funcs]; try destruct b; apply Hseen, Hin]).
    + (* FN *)
      apply (IH (nm :: seen)); [assumption|assumption|].
      intros nm' Hin. cbn [apply_rec p_funcs]. apply elem_of_cons in Hin as [->|Hin].
      * rewrite lookup_insert. eauto.
      * destruct (decide (nm = nm')) as [->|Hne]; [rewrite lookup_insert; eauto|].
        rewrite lookup_insert_ne by assumption. apply Hseen, Hin.
    + (* FNDA *)
      apply andb_true_iff in Hfn as [Hin Hfn]. apply bool_decide_eq_true in Hin.
      apply (IH seen); [assumption|assumption|].
      intros nm' Hin'. cbn [apply_rec]. destruct (Hseen _ Hin) as [f Hf]. rewrite Hf. cbn [p_funcs].
      destruct (decide (nm = nm')) as [->|Hne]; [rewrite lookup_insert; eauto|].
      rewrite lookup_insert_ne by assumption. apply Hseen, Hin'.
  - intros c nm ->. cbn [fnda_after_fn] in Hfn. apply andb_true_iff in Hfn as [Hin _].
    apply bool_decide_eq_true in Hin. apply Hseen, Hin.
Qed.
