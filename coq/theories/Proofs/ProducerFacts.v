(* Facts about Model/Producer.v: the discovery model meets a specification that depends on the layout only through
   multisets of (kind, name, content), hence is invariant under permutation and repackaging. *)
From Grcov Require Import Model.Producer.
From Coq Require Import ZifyBool ZifyN ZifyNat.
Import Coq.Strings.String.StringSyntax.

(* ---------------- names ---------------- *)
Lemma span_not_app c s a b : span_not c s = (a, b) -> s = a ++ b.
Proof.
  revert a b. induction s as [|x t IH]; intros a b; cbn [span_not].
  - intros [= <- <-]. reflexivity.
  - destruct (x =? c).
    + intros [= <- <-]. reflexivity.
    + destruct (span_not c t) as [a' b']. intros [= <- <-]. cbn. f_equal. apply IH. reflexivity.
Qed.
Lemma span_not_hd c s a b : span_not c s = (a, b) -> b = [] \/ exists t, b = c :: t.
Proof.
  revert a b. induction s as [|x t IH]; intros a b; cbn [span_not].
  - intros [= <- <-]. left. reflexivity.
  - destruct (x =? c) eqn:E.
    + intros [= <- <-]. right. exists t. f_equal. lia.
    + destruct (span_not c t) as [a' b']. intros [= <- <-]. eapply IH. reflexivity.
Qed.
Lemma split_ext_eq n s e : split_ext n = Some (s, e) -> n = s ++ [46] ++ e.
Proof.
  unfold split_ext, file_name_split.
  destruct (span_not 47 (rev n)) as [rf rd] eqn:E1.
  case_bool_decide; [discriminate|].
  destruct (span_not 46 (rev (rev rf))) as [re rs] eqn:E2.
  apply span_not_app in E1.
  pose proof (span_not_hd _ _ _ _ E2) as Hh. apply span_not_app in E2.
  rewrite rev_involutive in E2.
  destruct rs as [|x [|y rstem]]; try discriminate.
  intros [= <- <-].
  destruct Hh as [Hh|[t Hh]]; [discriminate|]. injection Hh as -> <-.
  apply (f_equal (@rev N)) in E1. rewrite rev_involutive in E1. rewrite E1, E2.
  rewrite !rev_app_distr. cbn [rev]. rewrite <- !app_assoc. reflexivity.
Qed.

Lemma classify_gcno ll e s b : classify ll e = CGcno s b -> e_name e = s ++ bs ".gcno".
Proof.
  unfold classify. destruct (split_ext (e_name e)) as [[st ex]|] eqn:E; [|discriminate].
  apply split_ext_eq in E.
  repeat case_bool_decide; repeat case_match; try discriminate.
  intros [= <- <-]. subst ex. exact E.
Qed.
Lemma classify_gcda ll e s : classify ll e = CGcda s -> e_name e = s ++ bs ".gcda".
Proof.
  unfold classify. destruct (split_ext (e_name e)) as [[st ex]|] eqn:E; [|discriminate].
  apply split_ext_eq in E.
  repeat case_bool_decide; repeat case_match; try discriminate.
  intros [= <-]. subst ex. exact E.
Qed.

(* ---------------- association lists ---------------- *)
Section Assoc.
  Context {K V : Type} `{EqDecision K}.
  Implicit Types (m : list (K * list V)) (l : list (K * V)).

  Definition flatten m : list (K * V) := flat_map (fun kv => map (pair kv.1) kv.2) m.
  Definition vals (k : K) l : list V := omap (fun kv => if decide (kv.1 = k) then Some kv.2 else None) l.
  Definition mk {A} (l : list A) : option (list A) := match l with [] => None | _ => Some l end.

  Lemma flatten_ains k v m : flatten (ains k v m) ≡ₚ flatten m ++ [(k, v)].
  Proof.
    induction m as [|[k' vs] m IH]; cbn [ains flatten flat_map]; [reflexivity|].
    destruct (decide (k = k')) as [->|].
    - cbn [flat_map fst snd]. rewrite map_app. cbn [map].
      rewrite <- !app_assoc. apply Permutation_app_head. cbn. apply Permutation_cons_append.
    - cbn [flat_map fst snd]. fold (flatten (ains k v m)). rewrite IH. fold (flatten m). rewrite app_assoc. reflexivity.
  Qed.
  Lemma group_snoc l k v : group (l ++ [(k, v)]) = ains k v (group l).
  Proof. unfold group. rewrite fold_left_app. reflexivity. Qed.
  Lemma flatten_group l : flatten (group l) ≡ₚ l.
  Proof.
    induction l as [|[k v] l IH] using rev_ind; [reflexivity|].
    rewrite group_snoc, flatten_ains, IH. reflexivity.
  Qed.
  Lemma alookup_ains k k0 v m :
    alookup k (ains k0 v m) = if decide (k = k0) then Some (default [] (alookup k m) ++ [v]) else alookup k m.
  Proof.
    induction m as [|[k' vs] m IH]; cbn [ains alookup].
    - destruct (decide (k = k0)); [subst; cbn; destruct (decide (k0 = k0)); [reflexivity|congruence]|].
      cbn. destruct (decide (k = k0)); [congruence|reflexivity].
    - destruct (decide (k0 = k')) as [->|Hn]; cbn [alookup].
      + destruct (decide (k = k')) as [->|]; [reflexivity|reflexivity].
      + destruct (decide (k = k')) as [->|].
        * destruct (decide (k' = k0)); [congruence|reflexivity].
        * exact IH.
  Qed.
  Lemma vals_snoc k l k0 v : vals k (l ++ [(k0, v)]) = vals k l ++ (if decide (k0 = k) then [v] else []).
  Proof. unfold vals. rewrite omap_app. cbn. destruct (decide (k0 = k)); reflexivity. Qed.
  Lemma default_mk {A} (l : list A) : default [] (mk l) = l.
  Proof. destruct l; reflexivity. Qed.
  Lemma alookup_group k l : alookup k (group l) = mk (vals k l).
  Proof.
    induction l as [|[k0 v] l IH] using rev_ind; [reflexivity|].
    rewrite group_snoc, alookup_ains, vals_snoc, IH, default_mk.
    destruct (decide (k = k0)) as [->|].
    - destruct (decide (k0 = k0)); [|congruence]. destruct (vals k0 l); reflexivity.
    - destruct (decide (k0 = k)); [congruence|]. rewrite app_nil_r. reflexivity.
  Qed.
  Lemma vals_Permutation k l l' : l ≡ₚ l' -> vals k l ≡ₚ vals k l'.
  Proof. intros H. unfold vals. rewrite H. reflexivity. Qed.
End Assoc.

Section Last.
  Context {K V : Type} `{EqDecision K}.
  Implicit Types (m l : list (K * V)).
  Lemma aupd_in k v m x : In x (aupd k v m) -> In x m \/ x = (k, v).
  Proof.
    induction m as [|[k' v'] m IH]; cbn [aupd].
    - intros [<-|[]]. right. reflexivity.
    - destruct (decide (k = k')) as [->|]; cbn [In].
      + intros [<-|H]; [right; reflexivity|left; right; exact H].
      + intros [<-|H]; [left; left; reflexivity|]. destruct (IH H) as [?|?]; [left; right; assumption|right; assumption].
  Qed.
  Lemma aupd_keys k v m k1 : In k1 (map fst (aupd k v m)) <-> In k1 (map fst m) \/ k1 = k.
  Proof.
    induction m as [|[k' v'] m IH]; cbn [aupd map In fst].
    - cbn. intuition.
    - destruct (decide (k = k')) as [->|]; cbn [map In fst].
      + intuition.
      + rewrite IH. intuition.
  Qed.
  Lemma aupd_nodup k v m : NoDup (map fst m) -> NoDup (map fst (aupd k v m)).
  Proof.
    induction m as [|[k' v'] m IH]; cbn [aupd map fst].
    - intros _. apply NoDup_singleton.
    - intros H. apply NoDup_cons in H as [H1 H2].
      destruct (decide (k = k')) as [->|]; cbn [map fst]; apply NoDup_cons.
      + split; assumption.
      + split; [|apply IH; assumption].
        rewrite elem_of_list_In, aupd_keys. rewrite elem_of_list_In in H1. intuition.
  Qed.
  Lemma lastmap_snoc l k v : lastmap (l ++ [(k, v)]) = aupd k v (lastmap l).
  Proof. unfold lastmap. rewrite fold_left_app. reflexivity. Qed.
  Lemma lastmap_in l x : In x (lastmap l) -> In x l.
  Proof.
    induction l as [|[k v] l IH] using rev_ind; [intros []|].
    rewrite lastmap_snoc. intros H%aupd_in. rewrite in_app_iff. cbn. intuition.
  Qed.
  Lemma lastmap_keys l k : In k (map fst (lastmap l)) <-> In k (map fst l).
  Proof.
    induction l as [|[k0 v] l IH] using rev_ind; [reflexivity|].
    rewrite lastmap_snoc, aupd_keys, IH, map_app, in_app_iff. cbn. intuition.
  Qed.
  Lemma lastmap_nodup l : NoDup (map fst (lastmap l)).
  Proof.
    induction l as [|[k0 v] l IH] using rev_ind; [apply NoDup_nil_2|].
    rewrite lastmap_snoc. apply aupd_nodup, IH.
  Qed.
  Lemma lastmap_nil l : lastmap l = [] -> l = [].
  Proof.
    destruct l as [|x l]; [reflexivity|]. intros H.
    assert (Hk : In x.1 (map fst (lastmap (x :: l)))) by (apply lastmap_keys; left; reflexivity).
    rewrite H in Hk. destruct Hk.
  Qed.
End Last.
Lemma group_nil {K V} `{EqDecision K} (l : list (K * V)) : group l = [] -> l = [].
Proof.
  intros H. pose proof (flatten_group l) as P. rewrite H in P. cbn in P.
  apply Permutation_nil in P. exact P.
Qed.

(* ---------------- small list / outcome helpers ---------------- *)
Lemma omap_fmap_post {A B C} (f : A -> option B) (g : B -> C) (l : list A) :
  omap (fun x => g <$> f x) l = g <$> omap f l.
Proof. induction l as [|x l IH]; [reflexivity|]. cbn. destruct (f x); cbn; rewrite IH; reflexivity. Qed.
Lemma vals_fmap {K V W} `{EqDecision K} (f : V -> W) (k : K) (L : list (K * V)) :
  vals k (map (fun x => (x.1, f x.2)) L) = map f (vals k L).
Proof.
  unfold vals. induction L as [|[k0 v] L IH]; [reflexivity|]. cbn in *. destruct (decide (k0 = k)); cbn; rewrite IH; reflexivity.
Qed.
Lemma vals_in {K V} `{EqDecision K} (k : K) (L : list (K * V)) v : In v (vals k L) -> In (k, v) L.
Proof.
  unfold vals. induction L as [|[k0 v0] L IH]; [intros []|]. cbn in *. destruct (decide (k0 = k)) as [->|]; cbn.
  - intros [<-|H]; [left; reflexivity|right; apply IH, H].
  - intros H. right. apply IH, H.
Qed.
Lemma oconcat_imap_ok {A B} (f : nat -> A -> outcome (list B)) (g : nat -> A -> B) l :
  (forall i x, In x l -> f i x = Ok [g i x]) -> oconcat (imap f l) = Ok (imap g l).
Proof.
  revert f g. induction l as [|x l IH]; intros f g H; [reflexivity|].
  cbn [imap oconcat]. rewrite (H 0%nat x) by (left; reflexivity). cbn [obind].
  rewrite (IH (f ∘ S) (g ∘ S)); [reflexivity|]. intros i y Hy. apply H. right. exact Hy.
Qed.
Lemma map_imap_const {A B C} (h : B -> C) (g : nat -> A -> B) (k : A -> C) l :
  (forall i x, h (g i x) = k x) -> map h (imap g l) = map k l.
Proof.
  revert g. induction l as [|x l IH]; intros g H; [reflexivity|].
  cbn [imap map]. rewrite H. f_equal. apply IH. intros i y. apply H.
Qed.
Lemma oconcat_map_ok {A B} (F : A -> outcome (list B)) (G : A -> list B) l :
  (forall x, In x l -> F x = Ok (G x)) -> oconcat (map F l) = Ok (flat_map G l).
Proof.
  induction l as [|x l IH]; intros H; [reflexivity|].
  cbn [map oconcat flat_map]. rewrite (H x) by (left; reflexivity). cbn [obind].
  rewrite IH; [reflexivity|]. intros y Hy. apply H. right. exact Hy.
Qed.
Lemma map_omap_some {A B C} (f : A -> option B) (h : option B -> C) (l : list A) :
  Forall (fun x => is_Some (f x)) l -> map (fun x => h (f x)) l = map (fun d => h (Some d)) (omap f l).
Proof.
  induction 1 as [|x l [d Hd] _ IH]; [reflexivity|]. cbn. rewrite Hd. cbn. rewrite IH. reflexivity.
Qed.

Lemma omap_map_some {A B C} (f : B -> option C) (p : A -> B) (g : A -> C) (l : list A) :
  (forall x, In x l -> f (p x) = Some (g x)) -> omap f (map p l) = map g l.
Proof.
  induction l as [|x l IH]; intros H; [reflexivity|]. cbn. rewrite (H x) by (left; reflexivity). cbn.
  f_equal. apply IH. intros y Hy. apply H. right. exact Hy.
Qed.

Lemma omap_cons_some {A B} (f : A -> option B) x (l : list A) y : f x = Some y -> omap f (x :: l) = y :: omap f l.
Proof. intros H. cbn. rewrite H. reflexivity. Qed.

(* ---------------- well-formed layouts and what a layout contains ---------------- *)
Definition wf_arch (ll : bool) (a : archive) : Prop :=
  NoDup (map e_name (a_entries a)) /\
  (a_kind a = Plain -> forall e, In e (a_entries a) ->
     (forall s b, classify ll e <> CGcno s b) /\ (forall s, classify ll e <> CGcda s)).
Definition wf (ll : bool) (l : layout) : Prop := Forall (wf_arch ll) l.
Definition no_profiles (ll : bool) (l : layout) : Prop :=
  forall ae, In ae (found l) -> classify ll ae.2 <> CProfraw /\ classify ll ae.2 <> CProfdata.

Definition cids (c : cls) (ll : bool) (l : layout) : list N :=
  omap (fun ae : archive * entry => if bool_decide (classify ll ae.2 = c) then Some (e_cid ae.2) else None) (found l).
Definition gn_sel (ll : bool) (ae : archive * entry) : option ((bytes * bool) * (archive * entry)) :=
  match classify ll ae.2 with CGcno s b => Some ((s, b), ae) | _ => None end.
Definition gd_sel (ll : bool) (ae : archive * entry) : option (bytes * (archive * entry)) :=
  match classify ll ae.2 with CGcda s => Some (s, ae) | _ => None end.
Definition gn_full ll l := omap (gn_sel ll) (found l).
Definition gd_full ll l := omap (gd_sel ll) (found l).
(* (stem, llvm, content) of every gcno member; (stem, content) of every gcda member *)
Definition gcnos ll l : list (bytes * bool * N) := map (fun x => (x.1.1, x.1.2, e_cid x.2.2)) (gn_full ll l).
Definition gcdas ll l : list (bytes * N) := map (fun x => (x.1, e_cid x.2.2)) (gd_full ll l).
Definition consistent (gn : list (bytes * bool * N)) : Prop :=
  forall s b g b' g', In (s, b, g) gn -> In (s, b', g') gn -> b = b' /\ g = g'.

Lemma visible_sub a e : In e (visible a) -> In e (a_entries a).
Proof. unfold visible. destruct (a_kind a); [|tauto|tauto]. intros H%filter_In. apply H. Qed.
Lemma visible_zip_safe a e : a_kind a = Zip -> In e (visible a) -> safe_entry (e_name e) = true.
Proof. unfold visible. intros ->. intros H%filter_In. apply H. Qed.
Lemma found_in l a e : In (a, e) (found l) <-> In a l /\ In e (visible a).
Proof.
  unfold found. rewrite in_flat_map. split.
  - intros (a' & Ha & H). apply in_map_iff in H as (e' & [= -> ->] & He). split; assumption.
  - intros [Ha He]. exists a. split; [assumption|]. apply in_map_iff. exists e. split; [reflexivity|assumption].
Qed.
Lemma read_in a e : NoDup (map e_name (a_entries a)) -> In e (a_entries a) -> read a (e_name e) = Some (e_cid e).
Proof.
  unfold read. induction (a_entries a) as [|x es IH]; [intros _ []|].
  cbn [map find]. intros H. apply NoDup_cons in H as [H1 H2]. intros [->|He].
  - rewrite bool_decide_eq_true_2 by reflexivity. reflexivity.
  - case_bool_decide as E; [|apply IH; assumption].
    exfalso. apply H1. rewrite E. apply elem_of_list_In, in_map, He.
Qed.
Lemma wf_read ll l a e : wf ll l -> In (a, e) (found l) -> read a (e_name e) = Some (e_cid e).
Proof.
  intros W [Ha He%visible_sub]%found_in. unfold wf in W. rewrite Forall_forall in W.
  apply read_in; [|assumption]. apply (W a). apply elem_of_list_In, Ha.
Qed.
Lemma wf_extract_gcno ll l a e s b :
  wf ll l -> In (a, e) (found l) -> classify ll e = CGcno s b -> extract a (s ++ bs ".gcno") = Ok true.
Proof.
  intros W H C. pose proof (wf_read _ _ _ _ W H) as R. rewrite (classify_gcno _ _ _ _ C) in R.
  apply found_in in H as [Ha He%visible_sub]. unfold wf in W. rewrite Forall_forall in W.
  destruct (W a (proj2 (elem_of_list_In _ _) Ha)) as [_ P].
  unfold extract. destruct (a_kind a) eqn:K.
  - rewrite R. rewrite bool_decide_eq_true_2 by (eexists; reflexivity). reflexivity.
  - reflexivity.
  - exfalso. destruct (P eq_refl e He) as [P1 _]. exact (P1 _ _ C).
Qed.
Lemma wf_extract_gcda ll l a e s :
  wf ll l -> In (a, e) (found l) -> classify ll e = CGcda s -> extract a (s ++ bs ".gcda") = Ok true.
Proof.
  intros W H C. pose proof (wf_read _ _ _ _ W H) as R. rewrite (classify_gcda _ _ _ C) in R.
  apply found_in in H as [Ha He%visible_sub]. unfold wf in W. rewrite Forall_forall in W.
  destruct (W a (proj2 (elem_of_list_In _ _) Ha)) as [_ P].
  unfold extract. destruct (a_kind a) eqn:K.
  - rewrite R. rewrite bool_decide_eq_true_2 by (eexists; reflexivity). reflexivity.
  - reflexivity.
  - exfalso. destruct (P eq_refl e He) as [_ P2]. exact (P2 _ C).
Qed.

Lemma omap_ext_fun {A B} (f g : A -> option B) (l : list A) : (forall x, f x = g x) -> omap f l = omap g l.
Proof. intros H. induction l as [|x l IH]; [reflexivity|]. cbn. rewrite H, IH. reflexivity. Qed.
Lemma sel_gcno_full ll l : omap (sel_gcno ll) (found l) = map (fun x => (x.1, x.2.1)) (gn_full ll l).
Proof.
  unfold gn_full. change (map ?f ?l) with (f <$> l). rewrite <- (omap_fmap_post (gn_sel ll)). apply omap_ext_fun.
  intros [a e]. unfold sel_gcno, gn_sel. destruct (classify ll (a, e).2); reflexivity.
Qed.
Lemma sel_gcda_full ll l : omap (sel_gcda ll) (found l) = map (fun x => (x.1, x.2.1)) (gd_full ll l).
Proof.
  unfold gd_full. change (map ?f ?l) with (f <$> l). rewrite <- (omap_fmap_post (gd_sel ll)). apply omap_ext_fun.
  intros [a e]. unfold sel_gcda, gd_sel. destruct (classify ll (a, e).2); reflexivity.
Qed.
Lemma gn_full_in ll l s b a e : In ((s, b), (a, e)) (gn_full ll l) <-> In (a, e) (found l) /\ classify ll e = CGcno s b.
Proof.
  unfold gn_full. rewrite <- elem_of_list_In, elem_of_list_omap. split.
  - intros ([a' e'] & H & E). unfold gn_sel in E. cbn in E. destruct (classify ll e') eqn:C; try discriminate.
    injection E as -> -> -> ->. split; [apply elem_of_list_In, H|exact C].
  - intros [H C]. exists (a, e). split; [apply elem_of_list_In, H|]. unfold gn_sel. cbn. rewrite C. reflexivity.
Qed.
Lemma gd_full_in ll l s a e : In (s, (a, e)) (gd_full ll l) <-> In (a, e) (found l) /\ classify ll e = CGcda s.
Proof.
  unfold gd_full. rewrite <- elem_of_list_In, elem_of_list_omap. split.
  - intros ([a' e'] & H & E). unfold gd_sel in E. cbn in E. destruct (classify ll e') eqn:C; try discriminate.
    injection E as -> -> ->. split; [apply elem_of_list_In, H|exact C].
  - intros [H C]. exists (a, e). split; [apply elem_of_list_In, H|]. unfold gd_sel. cbn. rewrite C. reflexivity.
Qed.

(* ---------------- what the property demands of one gcno ---------------- *)
Definition per_stem (covered : bool) (s : bytes) (b : bool) (g : N) (ds : list N) : list icontent :=
  match ds with
  | [] => if covered then [] else if b then [KBuffers s g []] else [KPath s (Some g) None]
  | _ => if b then [KBuffers s g (merge_sort N.le ds)] else map (fun d => KPath s (Some g) (Some d)) ds
  end.

Lemma gcda_lookup ll l s : wf ll l ->
  exists das, alookup s (gcda_map ll l) = mk das /\
    omap (fun da => read da (s ++ bs ".gcda")) das = vals s (gcdas ll l) /\
    Forall (fun da => is_Some (read da (s ++ bs ".gcda")) /\ extract da (s ++ bs ".gcda") = Ok true) das.
Proof.
  intros W. exists (map fst (vals s (gd_full ll l))). split; [|split].
  - unfold gcda_map. rewrite sel_gcda_full, alookup_group, (vals_fmap fst). reflexivity.
  - unfold gcdas. rewrite (vals_fmap (fun ae : archive * entry => e_cid ae.2)).
    apply omap_map_some. intros [a e] H%vals_in. apply gd_full_in in H as [H C]. cbn [fst snd].
    rewrite <- (classify_gcda _ _ _ C). eapply wf_read; eassumption.
  - apply Forall_forall. intros da Hda%elem_of_list_In. apply in_map_iff in Hda as ([a e] & <- & H%vals_in).
    apply gd_full_in in H as [H C]. cbn [fst snd]. split.
    + rewrite <- (classify_gcda _ _ _ C). erewrite wf_read by eassumption. eexists. reflexivity.
    + eapply wf_extract_gcda; eassumption.
Qed.

Lemma merge_sort_nil : merge_sort N.le [] = [].
Proof. reflexivity. Qed.

Lemma gcno_one_spec ll covered l s b ga : wf ll l -> In ((s, b), ga) (gcno_map ll l) ->
  exists g its, In (s, b, g) (gcnos ll l) /\
    gcno_one covered (gcda_map ll l) ((s, b), ga) = Ok its /\
    map content_of its = per_stem covered s b g (vals s (gcdas ll l)).
Proof.
  intros W H. unfold gcno_map in H. apply lastmap_in in H. rewrite sel_gcno_full in H.
  apply in_map_iff in H as ([[s' b'] [a e]] & [= -> -> ->] & H). cbn [fst snd] in *.
  pose proof H as Hfull. apply gn_full_in in H as [H C].
  exists (e_cid e). 
  assert (R : read ga (s ++ bs ".gcno") = Some (e_cid e)).
  { rewrite <- (classify_gcno _ _ _ _ C). eapply wf_read; eassumption. }
  pose proof (wf_extract_gcno _ _ _ _ _ _ W H C) as X.
  destruct (gcda_lookup ll l s W) as (das & L & O & F).
  assert (G : In (s, b, e_cid e) (gcnos ll l)).
  { unfold gcnos. apply in_map_iff. exists ((s, b), (ga, e)). split; [reflexivity|exact Hfull]. }
  unfold gcno_one. rewrite L, R, X. cbn [obind].
  destruct das as [|d das].
  - cbn [mk]. assert (O' : vals s (gcdas ll l) = []) by (rewrite <- O; reflexivity). rewrite O'. cbn [per_stem].
    destruct covered; [eexists; split; [exact G|split; reflexivity]|].
    destruct b; eexists; (split; [exact G|split; reflexivity]).
  - cbn [mk]. rewrite <- O.
    assert (Hne : exists c cs, omap (fun da => read da (s ++ bs ".gcda")) (d :: das) = c :: cs).
    { apply Forall_cons in F as [[[c Hc] _] _]. exists c. eexists. apply omap_cons_some, Hc. }
    destruct Hne as (c & cs & Hne).
    destruct b.
    + eexists. split; [exact G|split; [reflexivity|]]. cbn [map content_of]. rewrite Hne. reflexivity.
    + rewrite (oconcat_imap_ok _ (fun num da => IPath (a_name da) s (N.of_nat num + 1) (read ga (s ++ bs ".gcno")) (read da (s ++ bs ".gcda")))).
      * eexists. split; [exact G|split; [reflexivity|]].
        rewrite (map_imap_const _ _ (fun da => KPath s (read ga (s ++ bs ".gcno")) (read da (s ++ bs ".gcda")))) by reflexivity.
        rewrite R. rewrite (map_omap_some (fun da => read da (s ++ bs ".gcda")) (fun o => KPath s (Some (e_cid e)) o)).
        -- rewrite Hne. reflexivity.
        -- eapply Forall_impl; [exact F|]. intros ? [? _]. assumption.
      * intros i x Hx. rewrite Forall_forall in F. destruct (F x (proj2 (elem_of_list_In _ _) Hx)) as [_ E].
        unfold gcc_one. rewrite E. cbn [obind negb andb orb]. rewrite andb_false_r. cbn. reflexivity.
Qed.

(* ---------------- the specification ---------------- *)
Definition spec_gcno (covered : bool) (gn : list (bytes * bool * N)) (gd : list (bytes * N)) : list icontent :=
  flat_map (fun t => per_stem covered t.1.1 t.1.2 t.2 (vals t.1.1 gd)) (remove_dups gn).
Definition spec (o : opts) (l : layout) : list icontent :=
  let ll := o_llvm o in
  map (KContent FInfo) (cids CInfo ll l) ++ map (KContent FXml) (cids CXml ll l) ++
  spec_gcno (o_covered o) (gcnos ll l) (gcdas ll l).
Definition nothing_usable (ll : bool) (l : layout) : Prop :=
  gcnos ll l = [] /\ cids CInfo ll l = [] /\ cids CXml ll l = [].

Lemma Forall2_choice {A B} (R : A -> B -> Prop) (l : list A) :
  (forall x, In x l -> exists y, R x y) -> exists l', Forall2 R l l'.
Proof.
  induction l as [|x l IH]; intros H; [exists []; constructor|].
  destruct (H x (or_introl eq_refl)) as [y Hy].
  destruct IH as [l' Hl']; [intros z Hz; apply H; right; exact Hz|].
  exists (y :: l'). constructor; assumption.
Qed.
Lemma flat_map_Forall2 {A B C} (F : A -> list C) (G : B -> list C) la lb :
  Forall2 (fun a b => F a = G b) la lb -> flat_map F la = flat_map G lb.
Proof. induction 1 as [|a b la lb H _ IH]; [reflexivity|]. cbn. rewrite H, IH. reflexivity. Qed.
Lemma flat_map_perm {A B} (F : A -> list B) l l' : l ≡ₚ l' -> flat_map F l ≡ₚ flat_map F l'.
Proof.
  induction 1 as [|x l l' _ IH|x y l|l1 l2 l3 _ IH1 _ IH2]; cbn.
  - reflexivity.
  - rewrite IH. reflexivity.
  - rewrite !app_assoc. apply Permutation_app_tail, Permutation_app_comm.
  - etransitivity; eassumption.
Qed.

Lemma content_items_flatten f m :
  content_items f m = omap (fun kv : bytes * archive => IContent f (a_name kv.2) <$> read kv.2 kv.1) (flatten m).
Proof.
  unfold content_items, flatten. induction m as [|[n archs] m IH]; [reflexivity|].
  cbn [flat_map fst snd]. rewrite omap_app. f_equal; [|exact IH].
  clear IH. induction archs as [|a archs IH]; [reflexivity|]. cbn. destruct (read a n); cbn; rewrite IH; reflexivity.
Qed.
Definition cidf (c : cls) (ll : bool) (ae : archive * entry) : option N :=
  if bool_decide (classify ll ae.2 = c) then Some (e_cid ae.2) else None.
Lemma content_eq f c ll (L : list (archive * entry)) :
  (forall ae, In ae L -> read ae.1 (e_name ae.2) = Some (e_cid ae.2)) ->
  map content_of (omap (fun kv : bytes * archive => IContent f (a_name kv.2) <$> read kv.2 kv.1) (omap (is_cls c ll) L))
  = map (KContent f) (omap (cidf c ll) L).
Proof.
  induction L as [|[a e] L IH]; intros H; [reflexivity|].
  specialize (IH (fun ae Hae => H ae (or_intror Hae))). pose proof (H (a, e) (or_introl eq_refl)) as R. cbn [fst snd] in R.
  cbn. unfold is_cls, cidf. cbn [fst snd]. case_bool_decide; cbn.
  - rewrite R. cbn. f_equal. exact IH.
  - exact IH.
Qed.
Lemma content_items_spec f c ll l : wf ll l ->
  map content_of (content_items f (name_map c ll l)) ≡ₚ map (KContent f) (cids c ll l).
Proof.
  intros W. rewrite content_items_flatten. unfold name_map. rewrite flatten_group.
  rewrite content_eq; [reflexivity|]. intros [a e] H. eapply wf_read; eassumption.
Qed.
Lemma omap_len_same {A B C} (f : A -> option B) (g : A -> option C) (l : list A) :
  (forall x, is_Some (f x) <-> is_Some (g x)) -> length (omap f l) = length (omap g l).
Proof.
  intros H. induction l as [|x l IH]; [reflexivity|]. cbn. specialize (H x).
  destruct (f x), (g x); cbn; try (rewrite IH; reflexivity).
  - exfalso. destruct H as [H _]. destruct H; [eexists; reflexivity|discriminate].
  - exfalso. destruct H as [_ H]. destruct H; [eexists; reflexivity|discriminate].
Qed.
Lemma is_cls_len c ll (L : list (archive * entry)) : length (omap (is_cls c ll) L) = length (omap (cidf c ll) L).
Proof.
  apply omap_len_same. intros [a e]. unfold is_cls, cidf. case_bool_decide; split; intros [? ?]; try discriminate; eexists; reflexivity.
Qed.
Lemma nm_nil c ll l : name_map c ll l = [] <-> cids c ll l = [].
Proof.
  unfold name_map, cids. fold (cidf c ll). pose proof (is_cls_len c ll (found l)) as E. split.
  - intros H%group_nil. rewrite H in E. destruct (omap (cidf c ll) (found l)); [reflexivity|discriminate].
  - intros H. rewrite H in E. destruct (omap (is_cls c ll) (found l)); [reflexivity|discriminate].
Qed.
Lemma km_nil ll l : gcno_map ll l = [] <-> gcnos ll l = [].
Proof.
  unfold gcno_map, gcnos. rewrite sel_gcno_full. split.
  - intros H%lastmap_nil. apply map_eq_nil in H. rewrite H. reflexivity.
  - intros H. apply map_eq_nil in H. rewrite H. reflexivity.
Qed.
Lemma omap_none {A B} (f : A -> option B) (l : list A) : (forall x, In x l -> f x = None) -> omap f l = [].
Proof. induction l as [|x l IH]; intros H; [reflexivity|]. cbn. rewrite (H x) by (left; reflexivity). apply IH. intros y Hy. apply H. right. exact Hy. Qed.
Lemma no_profiles_nm ll l : no_profiles ll l -> name_map CProfdata ll l = [] /\ name_map CProfraw ll l = [].
Proof.
  intros H. unfold name_map. split.
  - rewrite omap_none; [reflexivity|]. intros ae Hae. unfold is_cls. rewrite bool_decide_eq_false_2; [reflexivity|]. apply H, Hae.
  - rewrite omap_none; [reflexivity|]. intros ae Hae. unfold is_cls. rewrite bool_decide_eq_false_2; [reflexivity|]. apply H, Hae.
Qed.

Lemma gcno_items_spec ll covered l : wf ll l -> consistent (gcnos ll l) ->
  exists its, gcno_items covered (gcno_map ll l) (gcda_map ll l) = Ok its /\
    map content_of its ≡ₚ spec_gcno covered (gcnos ll l) (gcdas ll l).
Proof.
  intros W Cn.
  set (P := fun t : bytes * bool * N => per_stem covered t.1.1 t.1.2 t.2 (vals t.1.1 (gcdas ll l))).
  set (G := fun x => match gcno_one covered (gcda_map ll l) x with Ok its => its | _ => [] end).
  assert (HG : forall x, In x (gcno_map ll l) -> gcno_one covered (gcda_map ll l) x = Ok (G x) /\
             exists t, t.1 = x.1 /\ In t (gcnos ll l) /\ map content_of (G x) = P t).
  { intros [[s b] ga] Hx. destruct (gcno_one_spec ll covered l s b ga W Hx) as (g & its & Hg & E & Cn').
    unfold G. rewrite E. split; [reflexivity|]. exists (s, b, g). split; [reflexivity|]. split; [exact Hg|exact Cn']. }
  exists (flat_map G (gcno_map ll l)). split.
  { unfold gcno_items. apply oconcat_map_ok. intros x Hx. apply HG, Hx. }
  destruct (Forall2_choice (fun x t => t.1 = x.1 /\ In t (gcnos ll l) /\ map content_of (G x) = P t) (gcno_map ll l)) as [ts Hts].
  { intros x Hx. apply HG, Hx. }
  assert (E1 : map content_of (flat_map G (gcno_map ll l)) = flat_map P ts).
  { rewrite flat_map_concat_map, concat_map, map_map, <- flat_map_concat_map.
    apply flat_map_Forall2. eapply Forall2_impl; [exact Hts|]. intros x t (_ & _ & E). exact E. }
  rewrite E1. unfold spec_gcno. fold P. apply flat_map_perm.
  assert (Hk : map fst ts = map fst (gcno_map ll l)).
  { clear -Hts. induction Hts as [|x t km ts (E & _ & _) _ IH]; [reflexivity|]. cbn. rewrite E, IH. reflexivity. }
  assert (Hin : forall t, In t ts -> In t (gcnos ll l)).
  { clear -Hts. induction Hts as [|x t km ts (_ & E & _) _ IH]; [intros ? []|]. intros t' [<-|H]; [exact E|apply IH, H]. }
  apply NoDup_Permutation.
  - apply (NoDup_fmap_1 fst). change (fst <$> ts) with (map fst ts). rewrite Hk. apply lastmap_nodup.
  - apply NoDup_remove_dups.
  - intros [[s b] g]. rewrite elem_of_remove_dups, !elem_of_list_In. split; [apply Hin|].
    intros Ht.
    assert (Hkey : In (s, b) (map fst ts)).
    { rewrite Hk. unfold gcno_map. apply lastmap_keys. rewrite sel_gcno_full, map_map. cbn [fst].
      unfold gcnos in Ht. apply in_map_iff in Ht as (x & [= <- <- <-] & Hx). apply in_map_iff. exists x. split; [destruct x as [[? ?] ?]; reflexivity|exact Hx]. }
    apply in_map_iff in Hkey as ([[s' b'] g'] & [= -> ->] & Ht').
    destruct (Cn s b g b g' Ht (Hin _ Ht')) as [_ ->]. exact Ht'.
Qed.

(* ---------------- the model meets the specification ---------------- *)
Theorem work_items_spec o l :
  wf (o_llvm o) l -> no_profiles (o_llvm o) l -> consistent (gcnos (o_llvm o) l) ->
  (nothing_usable (o_llvm o) l -> work_items o l = Panic) /\
  (~ nothing_usable (o_llvm o) l -> exists its, work_items o l = Ok its /\ map content_of its ≡ₚ spec o l).
Proof.
  set (ll := o_llvm o). intros W NP Cn. destruct (no_profiles_nm _ _ NP) as [Ed Er].
  destruct (gcno_items_spec ll (o_covered o) l W Cn) as (its & E & P).
  pose proof (km_nil ll l) as Hk. pose proof (nm_nil CInfo ll l) as Hi. pose proof (nm_nil CXml ll l) as Hx.
  pose proof (content_items_spec FInfo CInfo ll l W) as Pi. pose proof (content_items_spec FXml CXml ll l W) as Px.
  unfold work_items. fold ll. rewrite Ed, Er, E. split.
  - intros (H1 & H2 & H3). apply Hk in H1. apply Hi in H2. apply Hx in H3. rewrite H1, H2, H3. reflexivity.
  - intros NU. exists (content_items FInfo (name_map CInfo ll l) ++ content_items FXml (name_map CXml ll l) ++ [] ++ [] ++ its). split.
    + destruct (gcno_map ll l) eqn:K1; destruct (name_map CInfo ll l) eqn:K2; destruct (name_map CXml ll l) eqn:K3; try reflexivity.
      exfalso. apply NU. split; [apply Hk; reflexivity|split; [apply Hi; reflexivity|apply Hx; reflexivity]].
    + rewrite !map_app. cbn [map app]. unfold spec. fold ll. rewrite Pi, Px, P. reflexivity.
Qed.

Lemma nothing_usable_dec ll l : nothing_usable ll l \/ ~ nothing_usable ll l.
Proof.
  unfold nothing_usable. destruct (gcnos ll l); [|right; intros [? _]; discriminate].
  destruct (cids CInfo ll l); [|right; intros (_ & ? & _); discriminate].
  destruct (cids CXml ll l); [left; auto|right; intros (_ & _ & ?); discriminate].
Qed.

(* ---------------- the specification depends on multisets only ---------------- *)
Lemma merge_sort_perm_eq (a b : list N) : a ≡ₚ b -> merge_sort N.le a = merge_sort N.le b.
Proof.
  intros H. apply (Sorted_unique N.le).
  - apply Sorted_merge_sort; apply _.
  - apply Sorted_merge_sort; apply _.
  - rewrite !merge_sort_Permutation. exact H.
Qed.
Lemma per_stem_perm c s b g ds ds' : ds ≡ₚ ds' -> per_stem c s b g ds ≡ₚ per_stem c s b g ds'.
Proof.
  intros H. destruct ds as [|d ds].
  - apply Permutation_nil in H. subst. reflexivity.
  - destruct ds' as [|d' ds']; [symmetry in H; apply Permutation_nil in H; discriminate|].
    unfold per_stem. destruct b.
    + rewrite (merge_sort_perm_eq _ _ H). reflexivity.
    + apply Permutation_map, H.
Qed.
Lemma flat_map_perm2 {A B} (F G : A -> list B) l l' :
  l ≡ₚ l' -> (forall x, F x ≡ₚ G x) -> flat_map F l ≡ₚ flat_map G l'.
Proof.
  intros H E. rewrite (flat_map_perm F _ _ H). clear H. induction l' as [|x l' IH]; [reflexivity|].
  cbn. rewrite (E x), IH. reflexivity.
Qed.
Definition same_summary (ll : bool) (l l' : layout) : Prop :=
  cids CInfo ll l ≡ₚ cids CInfo ll l' /\ cids CXml ll l ≡ₚ cids CXml ll l' /\
  (forall t, In t (gcnos ll l) <-> In t (gcnos ll l')) /\ gcdas ll l ≡ₚ gcdas ll l'.
Lemma spec_proper o l l' : same_summary (o_llvm o) l l' -> spec o l ≡ₚ spec o l'.
Proof.
  intros (H1 & H2 & H3 & H4). unfold spec. rewrite H1, H2. do 2 apply Permutation_app_head.
  unfold spec_gcno. apply flat_map_perm2.
  - apply NoDup_Permutation; [apply NoDup_remove_dups|apply NoDup_remove_dups|].
    intros t. rewrite !elem_of_remove_dups, !elem_of_list_In. apply H3.
  - intros t. apply per_stem_perm, vals_Permutation, H4.
Qed.
Lemma same_summary_nothing ll l l' : same_summary ll l l' -> nothing_usable ll l -> nothing_usable ll l'.
Proof.
  intros (H1 & H2 & H3 & _) (E1 & E2 & E3). rewrite E1 in H3. rewrite E2 in H1. rewrite E3 in H2.
  apply Permutation_nil in H1. apply Permutation_nil in H2. split; [|split; assumption].
  destruct (gcnos ll l') as [|t ?]; [reflexivity|]. exfalso. apply (H3 t). left. reflexivity.
Qed.
Lemma same_summary_sym ll l l' : same_summary ll l l' -> same_summary ll l' l.
Proof. intros (H1 & H2 & H3 & H4). split; [|split; [|split]]; try (symmetry; assumption). intros t. symmetry. apply H3. Qed.

Definition same_outcome (r r' : outcome (list item)) : Prop :=
  match r, r' with
  | Panic, Panic => True
  | Ok a, Ok b => map content_of a ≡ₚ map content_of b
  | _, _ => False
  end.
Definition good (o : opts) (l : layout) : Prop :=
  wf (o_llvm o) l /\ no_profiles (o_llvm o) l /\ consistent (gcnos (o_llvm o) l).

Theorem repack_invariant o l l' :
  good o l -> good o l' -> same_summary (o_llvm o) l l' -> same_outcome (work_items o l) (work_items o l').
Proof.
  intros (W & NP & Cn) (W' & NP' & Cn') S.
  destruct (work_items_spec o l W NP Cn) as [A1 A2]. destruct (work_items_spec o l' W' NP' Cn') as [B1 B2].
  destruct (nothing_usable_dec (o_llvm o) l) as [N|N].
  - rewrite (A1 N), (B1 (same_summary_nothing _ _ _ S N)). exact I.
  - destruct (A2 N) as (its & E & P).
    assert (N' : ~ nothing_usable (o_llvm o) l').
    { intros N'. apply N. eapply same_summary_nothing; [apply same_summary_sym; exact S|exact N']. }
    destruct (B2 N') as (its' & E' & P'). rewrite E, E'. cbn. rewrite P, P'. apply spec_proper, S.
Qed.

(* permuting the archives *)
Lemma found_perm l l' : l ≡ₚ l' -> found l ≡ₚ found l'.
Proof. apply flat_map_perm. Qed.
Lemma perm_same_summary ll l l' : l ≡ₚ l' -> same_summary ll l l'.
Proof.
  intros H%found_perm. unfold same_summary, cids, gcnos, gcdas, gn_full, gd_full.
  split; [rewrite H; reflexivity|]. split; [rewrite H; reflexivity|]. split.
  - intros t. split; apply Permutation_in; [rewrite H|rewrite <- H]; reflexivity.
  - rewrite H. reflexivity.
Qed.
Lemma perm_good o l l' : l ≡ₚ l' -> good o l -> good o l'.
Proof.
  intros H (W & NP & Cn). split; [|split].
  - unfold wf. rewrite <- H. exact W.
  - intros ae Hae. apply NP. eapply Permutation_in; [symmetry; apply found_perm, H|exact Hae].
  - destruct (perm_same_summary (o_llvm o) l l' H) as (_ & _ & H3 & _).
    intros s b g b' g' A B. apply (Cn s b g b' g'); apply H3; assumption.
Qed.
Theorem perm_invariant o l l' :
  good o l -> l ≡ₚ l' -> same_outcome (work_items o l) (work_items o l').
Proof.
  intros G H. apply repack_invariant; [exact G|eapply perm_good; eassumption|apply perm_same_summary, H].
Qed.

(* ---------------- pairing, orphans ---------------- *)
Definition stem_of_content (k : icontent) : option bytes :=
  match k with KBuffers s _ _ | KPath s _ _ => Some s | _ => None end.
Definition about (s : bytes) (k : icontent) : Prop := stem_of_content k = Some s.
Global Instance about_dec s k : Decision (about s k).
Proof. unfold about. apply _. Defined.

Lemma filter_all {A} (P : A -> Prop) `{forall x, Decision (P x)} (l : list A) : (forall x, In x l -> P x) -> filter P l = l.
Proof.
  induction l as [|x l IH]; intros Hl; [reflexivity|].
  rewrite filter_cons_True by (apply Hl; left; reflexivity). f_equal. apply IH. intros y Hy. apply Hl. right. exact Hy.
Qed.
Lemma filter_none {A} (P : A -> Prop) `{forall x, Decision (P x)} (l : list A) : (forall x, In x l -> ~ P x) -> filter P l = [].
Proof.
  induction l as [|x l IH]; intros Hl; [reflexivity|].
  rewrite filter_cons_False by (apply Hl; left; reflexivity). apply IH. intros y Hy. apply Hl. right. exact Hy.
Qed.
Lemma filter_flat_map_unique {A B} (P : B -> Prop) `{forall x, Decision (P x)} (F : A -> list B) (L : list A) t :
  NoDup L -> In t L -> (forall k, In k (F t) -> P k) ->
  (forall t', In t' L -> t' <> t -> forall k, In k (F t') -> ~ P k) -> filter P (flat_map F L) = F t.
Proof.
  induction L as [|x L IH]; intros ND Ht Hyes Hno; [destruct Ht|].
  apply NoDup_cons in ND as [Hx ND]. cbn [flat_map]. rewrite filter_app.
  destruct Ht as [->|Ht].
  - rewrite (filter_all P (F t) Hyes). rewrite (filter_none P (flat_map F L)); [apply app_nil_r|].
    intros k (t' & Ht' & Hk)%in_flat_map. apply (Hno t'); [right; exact Ht'| |exact Hk].
    intros ->. apply Hx, elem_of_list_In, Ht'.
  - rewrite (filter_none P (F x)).
    + cbn. apply IH; try assumption. intros t' Ht' Hne. apply Hno; [right; exact Ht'|exact Hne].
    + apply Hno; [left; reflexivity|]. intros ->. apply Hx, elem_of_list_In, Ht.
Qed.
Lemma per_stem_stem c s b g ds k : In k (per_stem c s b g ds) -> stem_of_content k = Some s.
Proof.
  unfold per_stem. destruct ds as [|d ds].
  - destruct c; [intros []|]. destruct b; (intros [<-|[]]; reflexivity).
  - destruct b; [intros [<-|[]]; reflexivity|]. intros (d' & <- & _)%in_map_iff. reflexivity.
Qed.
Lemma filter_contents s f (cs : list N) : filter (about s) (map (KContent f) cs) = [].
Proof. apply filter_none. intros k (c & <- & _)%in_map_iff. discriminate. Qed.
Lemma filter_spec_gcno c gn gd s b g : consistent gn -> In (s, b, g) gn ->
  filter (about s) (spec_gcno c gn gd) = per_stem c s b g (vals s gd).
Proof.
  intros Cn H. unfold spec_gcno.
  apply (filter_flat_map_unique (about s) (fun t => per_stem c t.1.1 t.1.2 t.2 (vals t.1.1 gd)) (remove_dups gn) (s, b, g)).
  - apply NoDup_remove_dups.
  - apply elem_of_list_In, elem_of_remove_dups, elem_of_list_In, H.
  - intros k Hk. apply per_stem_stem in Hk. exact Hk.
  - intros [[s' b'] g'] Ht Hne k Hk A. apply per_stem_stem in Hk. unfold about in A. rewrite Hk in A. injection A as ->.
    apply elem_of_list_In in Ht. apply (proj1 (elem_of_remove_dups _ _)) in Ht. apply elem_of_list_In in Ht.
    destruct (Cn s b g b' g' H Ht) as [-> ->]. apply Hne. reflexivity.
Qed.
Lemma filter_spec_gcno_none c gn gd s : (forall b g, ~ In (s, b, g) gn) -> filter (about s) (spec_gcno c gn gd) = [].
Proof.
  intros Hn. apply filter_none. intros k ([[s' b'] g'] & Ht & Hk)%in_flat_map A.
  apply per_stem_stem in Hk. unfold about in A. rewrite Hk in A. injection A as ->.
  apply elem_of_list_In in Ht. apply (proj1 (elem_of_remove_dups _ _)) in Ht. apply elem_of_list_In in Ht. exact (Hn _ _ Ht).
Qed.

Lemma ok_contents o l its : good o l -> work_items o l = Ok its -> map content_of its ≡ₚ spec o l.
Proof.
  intros (W & NP & Cn) E. destruct (work_items_spec o l W NP Cn) as [A1 A2].
  destruct (nothing_usable_dec (o_llvm o) l) as [N|N]; [rewrite (A1 N) in E; discriminate|].
  destruct (A2 N) as (its' & E' & P). rewrite E in E'. injection E' as <-. exact P.
Qed.
(* the items about stem s are exactly: the gcno of that name with the gcda of that name of every archive having one *)
Theorem pairing_exact o l s b g its :
  good o l -> In (s, b, g) (gcnos (o_llvm o) l) -> work_items o l = Ok its ->
  filter (about s) (map content_of its) ≡ₚ per_stem (o_covered o) s b g (vals s (gcdas (o_llvm o) l)).
Proof.
  intros G H E. rewrite (ok_contents o l its G E). unfold spec. rewrite !filter_app, !filter_contents. cbn [app].
  destruct G as (_ & _ & Cn). rewrite (filter_spec_gcno _ _ _ s b g Cn H). reflexivity.
Qed.
Theorem orphan_gcno_zero_unless_covered o l s b g its :
  good o l -> In (s, b, g) (gcnos (o_llvm o) l) -> vals s (gcdas (o_llvm o) l) = [] -> work_items o l = Ok its ->
  filter (about s) (map content_of its) =
    if o_covered o then [] else if b then [KBuffers s g []] else [KPath s (Some g) None].
Proof.
  intros G H V E. pose proof (pairing_exact o l s b g its G H E) as P. rewrite V in P. cbn [per_stem] in P.
  destruct (o_covered o).
  - apply Permutation_nil. symmetry. exact P.
  - destruct b; symmetry in P; apply Permutation_singleton_l in P; symmetry; exact P.
Qed.
Theorem orphan_gcda_nothing o l s its :
  good o l -> (forall b g, ~ In (s, b, g) (gcnos (o_llvm o) l)) -> work_items o l = Ok its ->
  filter (about s) (map content_of its) = [].
Proof.
  intros G H E. apply Permutation_nil. symmetry. rewrite (ok_contents o l its G E).
  unfold spec. rewrite !filter_app, !filter_contents. cbn [app]. rewrite (filter_spec_gcno_none _ _ _ s H). reflexivity.
Qed.

(* nothing that classifies as gcno, info, xml, profraw or profdata: the assertion fires *)
Theorem empty_fails o l :
  (forall ae, In ae (found l) ->
     exists s, classify (o_llvm o) ae.2 = CGcda s \/ classify (o_llvm o) ae.2 = CMap \/ classify (o_llvm o) ae.2 = CNone) ->
  work_items o l = Panic.
Proof.
  intros H. unfold work_items, gcno_map, name_map.
  rewrite (omap_none (sel_gcno (o_llvm o))).
  2:{ intros ae Hae. destruct (H ae Hae) as (s & [E|[E|E]]); unfold sel_gcno; rewrite E; reflexivity. }
  assert (Hn : forall c, (c = CInfo \/ c = CXml \/ c = CProfdata \/ c = CProfraw) -> omap (is_cls c (o_llvm o)) (found l) = []).
  { intros c Hc. apply omap_none. intros ae Hae. unfold is_cls. rewrite bool_decide_eq_false_2; [reflexivity|].
    destruct (H ae Hae) as (s & [E|[E|E]]); rewrite E; intuition congruence. }
  rewrite !Hn by tauto. reflexivity.
Qed.

(* ---------------- decoys ---------------- *)
Definition entries (l : layout) : list entry := flat_map visible l.
Lemma found_entries l : map snd (found l) = entries l.
Proof.
  unfold found, entries. induction l as [|a l IH]; [reflexivity|]. cbn [flat_map]. rewrite map_app, IH. f_equal.
  rewrite map_map. cbn. apply map_id.
Qed.
Lemma omap_map_pre {A B C} (f : B -> option C) (g : A -> B) (l : list A) : omap f (map g l) = omap (fun x => f (g x)) l.
Proof. induction l as [|x l IH]; [reflexivity|]. cbn. rewrite IH. reflexivity. Qed.
Definition gn_e (ll : bool) (e : entry) : option (bytes * bool * N) :=
  match classify ll e with CGcno s b => Some (s, b, e_cid e) | _ => None end.
Definition gd_e (ll : bool) (e : entry) : option (bytes * N) :=
  match classify ll e with CGcda s => Some (s, e_cid e) | _ => None end.
Definition cid_e (c : cls) (ll : bool) (e : entry) : option N :=
  if bool_decide (classify ll e = c) then Some (e_cid e) else None.
Lemma cids_entries c ll l : cids c ll l = omap (cid_e c ll) (entries l).
Proof. rewrite <- found_entries, omap_map_pre. reflexivity. Qed.
Lemma gcnos_entries ll l : gcnos ll l = omap (gn_e ll) (entries l).
Proof.
  rewrite <- found_entries, omap_map_pre. unfold gcnos, gn_full.
  change (map ?f ?l) with (f <$> l). rewrite <- omap_fmap_post. apply omap_ext_fun.
  intros [a e]. unfold gn_sel, gn_e. cbn [snd]. destruct (classify ll e); reflexivity.
Qed.
Lemma gcdas_entries ll l : gcdas ll l = omap (gd_e ll) (entries l).
Proof.
  rewrite <- found_entries, omap_map_pre. unfold gcdas, gd_full.
  change (map ?f ?l) with (f <$> l). rewrite <- omap_fmap_post. apply omap_ext_fun.
  intros [a e]. unfold gd_sel, gd_e. cbn [snd]. destruct (classify ll e); reflexivity.
Qed.
Definition add_entry (e : entry) (a : archive) : archive := mkArchive (a_kind a) (a_name a) (e :: a_entries a).
Lemma omap_skip {A B} (h : A -> option B) (xs ys : list A) e : h e = None -> omap h (xs ++ e :: ys) = omap h (xs ++ ys).
Proof. intros H. rewrite !omap_app. cbn. rewrite H. reflexivity. Qed.
Definition kept (a : archive) (e : entry) : bool :=
  match a_kind a with Zip => safe_entry (e_name e) | _ => true end.
Lemma visible_add e a : visible (add_entry e a) = (if kept a e then [e] else []) ++ visible a.
Proof. unfold visible, kept, add_entry. cbn [a_kind a_entries]. destruct (a_kind a); try reflexivity. cbn [List.filter]. destruct (safe_entry (e_name e)); reflexivity. Qed.
Lemma entries_add l1 a l2 e :
  entries (l1 ++ add_entry e a :: l2) = entries l1 ++ (if kept a e then [e] else []) ++ (visible a ++ entries l2).
Proof. unfold entries. rewrite flat_map_app. cbn [flat_map]. rewrite visible_add, <- app_assoc. reflexivity. Qed.
Lemma entries_mid l1 a l2 : entries (l1 ++ a :: l2) = entries l1 ++ (visible a ++ entries l2).
Proof. unfold entries. rewrite flat_map_app. reflexivity. Qed.
(* a member that is not classified (wrong extension, or .info/.xml without the signature, or an unrelated .json):
   adding it to any archive changes nothing *)
Theorem decoys_ignored o l1 a l2 e :
  classify (o_llvm o) e = CNone ->
  good o (l1 ++ a :: l2) -> good o (l1 ++ add_entry e a :: l2) ->
  same_outcome (work_items o (l1 ++ a :: l2)) (work_items o (l1 ++ add_entry e a :: l2)).
Proof.
  intros C G G'. apply repack_invariant; [exact G|exact G'|].
  unfold same_summary. rewrite !cids_entries, !gcnos_entries, !gcdas_entries, entries_add, entries_mid.
  destruct (kept a e); cbn [app]; [|split; [reflexivity|split; [reflexivity|split; [intros t; reflexivity|reflexivity]]]].
  rewrite !omap_skip; [split; [reflexivity|split; [reflexivity|split; [intros t; reflexivity|reflexivity]]]|..].
  - unfold gd_e. rewrite C. reflexivity.
  - unfold gn_e. rewrite C. reflexivity.
  - unfold cid_e. rewrite C. reflexivity.
  - unfold cid_e. rewrite C. reflexivity.
Qed.
(* a zip member whose name is absolute or contains '..' is never looked at, whatever it is *)
Theorem unsafe_member_ignored o l1 a l2 e :
  a_kind a = Zip -> safe_entry (e_name e) = false ->
  good o (l1 ++ a :: l2) -> good o (l1 ++ add_entry e a :: l2) ->
  same_outcome (work_items o (l1 ++ a :: l2)) (work_items o (l1 ++ add_entry e a :: l2)).
Proof.
  intros K U G G'. apply repack_invariant; [exact G|exact G'|].
  unfold same_summary. rewrite !cids_entries, !gcnos_entries, !gcdas_entries, entries_add, entries_mid.
  unfold kept. rewrite K, U. cbn [app].
  split; [reflexivity|split; [reflexivity|split; [intros t; reflexivity|reflexivity]]].
Qed.
(* every member that reaches handle_file from a zip has a safe name *)
Lemma found_zip_safe l a e : In (a, e) (found l) -> a_kind a = Zip -> safe_entry (e_name e) = true.
Proof. intros [_ He]%found_in K. eapply visible_zip_safe; eassumption. Qed.
