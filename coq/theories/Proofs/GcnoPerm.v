(* C15 gcda_order_irrelevant: the result does not depend on the order of the gcda files (u64 wrapping included:
   only needs that W absorbs itself under +).  Also the normal form used by k_copies_scale:
   reading d into y = y + (reading d into the zero state). *)
From Grcov Require Import Model.GcnoCount Proofs.GcnoBase Proofs.GcnoReadSafe Proofs.GcnoShape Proofs.GcnoZero Proofs.GcnoAdd.
From Coq Require Import ZifyBool ZifyN ZifyNat.
Ltac Zify.zify_post_hook ::= Z.div_mod_to_equations.

Lemma map_eq_Forall2 {A B} (h : A -> B) l k : map h l = map h k -> Forall2 (fun a b => h a = h b) l k.
Proof.
  revert k. induction l as [|x l IH]; intros [|y k] H; cbn [map] in H; try discriminate.
  - constructor.
  - injection H as H1 H2. constructor; [done|by apply IH].
Qed.
Lemma zip_with_fix_l {A B} (f : A -> B -> A) l k : Forall2 (fun a x => f a x = a) l k -> zip_with f l k = l.
Proof. induction 1 as [|a x l k H _ IH]; cbn [zip_with]; [done|]. by rewrite H, IH. Qed.
Section arith.
Context (W : N -> N).
Hypothesis HW1 : forall x y, W (W x + y) = W (x + y).
Hypothesis HW0 : W 0 = 0.

Lemma HWidem x : W (W x) = W x.
Proof. transitivity (W (W x + 0)); [f_equal; lia|]. rewrite HW1. f_equal; lia. Qed.

Definition cnorm_fun (f : gfun) : Prop :=
  Forall (fun b => W (b_counter b) = b_counter b) (f_blocks f) /\ Forall (fun e => W (e_counter e) = e_counter e) (f_edges f).
Definition cnorm (g : gcno) : Prop := Forall cnorm_fun (g_funs g) /\ g_runs g < two32 /\ g_programs g < two32.
Definition zero_state (z : gcno) : Prop := Forall zero_fun (g_funs z) /\ g_runs z = 0 /\ g_programs z = 0.

Lemma zip_badd_zero bly blz :
  map bshape bly = map bshape blz -> Forall (fun b => b_counter b = 0) blz ->
  Forall (fun b => W (b_counter b) = b_counter b) bly -> zip_with (badd W) bly blz = bly.
Proof.
  revert blz. induction bly as [|b bly IH]; intros [|z blz]; cbn [map zip_with]; try done.
  intros [= Hs Hm] [Hz Hzs]%Forall_cons [Hn Hns]%Forall_cons. f_equal; [|by apply IH].
  unfold badd. destruct b; cbn in *. unfold bshape in Hs; cbn in Hs. rewrite Hz, N.add_0_r, Hn. congruence.
Qed.
Lemma zip_eadd_zero edy edz :
  map eshape edy = map eshape edz -> Forall (fun e => e_counter e = 0) edz ->
  Forall (fun e => W (e_counter e) = e_counter e) edy -> zip_with (eadd W) edy edz = edy.
Proof.
  revert edz. induction edy as [|e edy IH]; intros [|z edz]; cbn [map zip_with]; try done.
  intros [= Hs Hm] [Hz Hzs]%Forall_cons [Hn Hns]%Forall_cons. f_equal; [|by apply IH].
  unfold eadd. destruct e; cbn in *. unfold eshape in Hs; cbn in Hs. rewrite Hz, N.add_0_r, Hn. congruence.
Qed.
Lemma fadd_zero_r fy fz : fshape fy = fshape fz -> zero_fun fz -> cnorm_fun fy -> fadd W fy fz = fy.
Proof.
  intros Hs [Zb Ze] [Nb Ne]. unfold fshape in Hs.
  assert (Hb : map bshape (f_blocks fy) = map bshape (f_blocks fz)) by congruence.
  assert (He : map eshape (f_edges fy) = map eshape (f_edges fz)) by congruence.
  unfold fadd, set_graph. rewrite zip_badd_zero, zip_eadd_zero by done.
  destruct fy; cbn in *. congruence.
Qed.
Lemma gshape_funs y z : gshape y = gshape z -> Forall2 (fun fy fz => fshape fy = fshape fz) (g_funs y) (g_funs z).
Proof. unfold gshape. intros H. apply map_eq_Forall2. congruence. Qed.
Lemma gadd_zero_r y z : gshape y = gshape z -> zero_state z -> cnorm y -> gadd W y z = y.
Proof.
  intros Hs (Zf & Zr & Zp) (Nf & Nr & Np). pose proof (gshape_funs _ _ Hs) as Hf.
  unfold gadd. rewrite Zr, Zp, !N.add_0_r.
  replace (zip_with (fadd W) (g_funs y) (g_funs z)) with (g_funs y).
  - unfold gshape in Hs. destruct y; cbn in *. unfold wrap32. rewrite !N.mod_small by done. congruence.
  - symmetry. apply zip_with_fix_l. clear Hs Zr Zp Nr Np. induction Hf as [|fy fz ly lz H _ IH]; [constructor|].
    apply Forall_cons in Zf as [? ?]. apply Forall_cons in Nf as [? ?]. constructor; [by apply fadd_zero_r|by apply IH].
Qed.

Lemma same_len_of_shape y z : gshape y = gshape z -> same_len y z.
Proof.
  intros Hs. unfold same_len. eapply Forall2_impl; [apply (gshape_funs _ _ Hs)|]. intros fy fz H. unfold fshape in H.
  assert (Hb : map bshape (f_blocks fy) = map bshape (f_blocks fz)) by congruence.
  assert (He : map eshape (f_edges fy) = map eshape (f_edges fz)) by congruence.
  apply (f_equal length) in Hb, He. by rewrite !map_length in *.
Qed.

(* shape and normal form of a sum *)
Lemma bshape_zip bly blx : length bly = length blx -> map bshape (zip_with (badd W) bly blx) = map bshape blx.
Proof. revert blx. induction bly as [|b bly IH]; intros [|x0 blx]; cbn; try done. intros [= H]. by rewrite IH. Qed.
Lemma eshape_zip edy edx : length edy = length edx -> map eshape (zip_with (eadd W) edy edx) = map eshape edx.
Proof. revert edx. induction edy as [|b edy IH]; intros [|x0 edx]; cbn; try done. intros [= H]. by rewrite IH. Qed.
Lemma gshape_gadd y x : same_len y x -> gshape (gadd W y x) = gshape x.
Proof.
  intros Hs. unfold gshape, gadd; cbn. f_equal. unfold same_len in Hs.
  induction Hs as [|fy fx ly lx [H1 H2] _ IH]; [done|]. cbn [zip_with map]. rewrite IH. f_equal.
  unfold fshape, fadd, set_graph; cbn. by rewrite bshape_zip, eshape_zip.
Qed.
Lemma cnorm_gadd y x : same_len y x -> cnorm (gadd W y x).
Proof.
  intros Hs. split; [|split; cbn; unfold wrap32, two32; lia]. cbn. unfold same_len in Hs.
  induction Hs as [|fy fx ly lx [H1 H2] _ IH]; [constructor|]. cbn [zip_with]. constructor; [|done].
  split; cbn.
  - clear H2. revert H1. generalize (f_blocks fy) (f_blocks fx). induction l as [|b l IHl]; intros [|x0 l0] Hlen; cbn in *; try discriminate;
      constructor; first [apply HWidem | apply IHl; lia].
  - clear H1. revert H2. generalize (f_edges fy) (f_edges fx). induction l as [|b l IHl]; intros [|x0 l0] Hlen; cbn in *; try discriminate;
      constructor; first [apply HWidem | apply IHl; lia].
Qed.

(* reading d into a normal state y of the shape of the zero state z = y + (reading d into z) *)
Lemma read_gcda_normal_form y z d :
  gshape y = gshape z -> zero_state z -> cnorm y ->
  read_gcda W y d = omap (gadd W y) (read_gcda W z d).
Proof.
  intros Hs Hz Hn. rewrite <- (gadd_zero_r y z Hs Hz Hn) at 1.
  apply read_gcda_frame; [done|]. by apply same_len_of_shape.
Qed.

(* two sums commute *)
Lemma wrap32_comm3 a x1 x2 : wrap32 (wrap32 (a + x1) + x2) = wrap32 (wrap32 (a + x2) + x1).
Proof. unfold wrap32, two32. lia. Qed.
Lemma gadd_comm y d1 d2 :
  gshape d1 = gshape d2 -> same_len y d1 ->
  gadd W (gadd W y d1) d2 = gadd W (gadd W y d2) d1.
Proof.
  intros Hs Hl. pose proof (gshape_funs _ _ Hs) as Hf. unfold gadd; cbn.
  unfold gshape in Hs. f_equal; [congruence|congruence| |apply wrap32_comm3|apply wrap32_comm3].
  clear Hs. unfold same_len in Hl. revert Hf. generalize (g_funs d2). induction Hl as [|fy f1 ly l1 [H1 H2] _ IH]; intros [|f2 l2] Hf; cbn [zip_with]; try done.
  apply Forall2_cons in Hf as [Hf1 Hf]. rewrite (IH l2 Hf). f_equal.
  unfold fshape in Hf1.
  assert (Hb : map bshape (f_blocks f1) = map bshape (f_blocks f2)) by congruence.
  assert (He : map eshape (f_edges f1) = map eshape (f_edges f2)) by congruence.
  unfold fadd, set_graph; cbn.
  assert (f_ident f1 = f_ident f2 /\ f_start_line f1 = f_start_line f2 /\ f_end_line f1 = f_end_line f2 /\ f_line_sum f1 = f_line_sum f2
          /\ f_cfg_sum f1 = f_cfg_sum f2 /\ f_file f1 = f_file f2 /\ f_name f1 = f_name f2 /\ f_real f1 = f_real f2)
    as (-> & -> & -> & -> & -> & -> & -> & ->) by (repeat split; congruence).
  f_equal.
  - clear He H2. revert H1 Hb. generalize (f_blocks fy) (f_blocks f1) (f_blocks f2).
    induction l as [|b l IHl]; intros [|x1 k1] [|x2 k2]; cbn; try done. intros [= H] [= Hx Hk]. rewrite IHl by done. f_equal.
    unfold badd; cbn. unfold bshape in Hx.
    assert (W (W (b_counter b + b_counter x1) + b_counter x2) = W (W (b_counter b + b_counter x2) + b_counter x1))
      as -> by (rewrite !HW1; f_equal; lia).
    congruence.
  - clear Hb H1. revert H2 He. generalize (f_edges fy) (f_edges f1) (f_edges f2).
    induction l as [|b l IHl]; intros [|x1 k1] [|x2 k2]; cbn; try done. intros [= H] [= Hx Hk]. rewrite IHl by done. f_equal.
    unfold eadd; cbn. unfold eshape in Hx.
    assert (W (W (e_counter b + e_counter x1) + e_counter x2) = W (W (e_counter b + e_counter x2) + e_counter x1))
      as -> by (rewrite !HW1; f_equal; lia).
    congruence.
Qed.

(* the state after a list of gcda does not depend on their order *)
Lemma read_gcdas_perm z ds ds' :
  wf_gcno z -> zero_state z -> ds ≡ₚ ds' ->
  forall y, gshape y = gshape z -> cnorm y -> ofold (read_gcda W) ds y = ofold (read_gcda W) ds' y.
Proof.
  intros Hwf Hz Hp. induction Hp as [|d l l' Hp IH|d1 d2 l|l1 l2 l3 _ IH1 _ IH2]; intros y Hs Hn.
  - done.
  - cbn [ofold]. rewrite (read_gcda_normal_form y z d Hs Hz Hn).
    pose proof (read_gcda_shape W z d) as Hsh.
    destruct (read_gcda W z d) as [dl| | |]; cbn [omap obind]; try done.
    specialize (Hsh _ eq_refl). assert (Hl : same_len y dl) by (apply same_len_of_shape; congruence).
    apply IH; [rewrite gshape_gadd by done; done|by apply cnorm_gadd].
  - cbn [ofold]. rewrite (read_gcda_normal_form y z d1 Hs Hz Hn), (read_gcda_normal_form y z d2 Hs Hz Hn).
    pose proof (read_gcda_shape W z d1) as Hsh1. pose proof (read_gcda_shape W z d2) as Hsh2.
    pose proof (read_gcda_good W z d1 Hwf) as Hg1. pose proof (read_gcda_good W z d2 Hwf) as Hg2.
    destruct (read_gcda W z d1) as [dl1| | |] eqn:E1; cbn in Hg1; try done;
      destruct (read_gcda W z d2) as [dl2| | |] eqn:E2; cbn in Hg2; try done; cbn [omap obind].
    + specialize (Hsh1 _ eq_refl). specialize (Hsh2 _ eq_refl).
      assert (Hl1 : same_len y dl1) by (apply same_len_of_shape; congruence).
      assert (Hl2 : same_len y dl2) by (apply same_len_of_shape; congruence).
      rewrite (read_gcda_normal_form (gadd W y dl2) z d1), (read_gcda_normal_form (gadd W y dl1) z d2), E1, E2;
        try done; try (by apply cnorm_gadd); try (rewrite gshape_gadd by done; done).
      cbn [omap obind]. rewrite (gadd_comm y dl1 dl2); [done|congruence|done].
    + specialize (Hsh1 _ eq_refl).
      assert (Hl1 : same_len y dl1) by (apply same_len_of_shape; congruence).
      rewrite (read_gcda_normal_form (gadd W y dl1) z d2), E2; try done; try (by apply cnorm_gadd); try (rewrite gshape_gadd by done; done).
    + specialize (Hsh2 _ eq_refl).
      assert (Hl2 : same_len y dl2) by (apply same_len_of_shape; congruence).
      rewrite (read_gcda_normal_form (gadd W y dl2) z d1), E1; try done; try (by apply cnorm_gadd); try (rewrite gshape_gadd by done; done).
  - rewrite IH1 by done. by apply IH2.
Qed.

Lemma read_gcno_runs buf : post (fun g => g_runs g = 0 /\ g_programs g = 0) (read_gcno buf).
Proof.
  unfold read_gcno. destruct (guess_endianness _ _ _ _ buf) as [[le l0]|]; [|done].
  eapply (post_bind (fun _ => True)); [done|]. intros [v l1] _.
  destruct (read_u32 le l1) as [[c l2]|]; [|done].
  eapply (post_bind (fun _ => True)); [done|]. intros l3 _.
  eapply (post_bind (fun _ => True)); [done|]. intros l4 _.
  eapply (post_bind (fun _ => True)); [done|]. intros funs _. by apply post_Ok.
Qed.
Lemma read_gcno_zero_state buf : post zero_state (read_gcno buf).
Proof. intros g Hg. split; [by apply (read_gcno_zero buf)|by apply (read_gcno_runs buf)]. Qed.
Lemma zero_state_cnorm z : zero_state z -> cnorm z.
Proof.
  intros (Hf & Hr & Hp). split; [|rewrite Hr, Hp; by split]. eapply Forall_impl; [exact Hf|]. intros f [Hb He]. split.
  - eapply Forall_impl; [exact Hb|]. cbn. intros b ->. apply HW0.
  - eapply Forall_impl; [exact He|]. cbn. intros e ->. apply HW0.
Qed.

Theorem gcda_order_irrelevant Wsub gcno_buf ds ds' br :
  ds ≡ₚ ds' -> compute_map_gen W Wsub gcno_buf ds br = compute_map_gen W Wsub gcno_buf ds' br.
Proof.
  intros Hp. unfold compute_map_gen. pose proof (read_gcno_zero_state gcno_buf) as Hz.
  destruct (read_gcno gcno_buf) as [g| | |] eqn:E; cbn [obind]; try done.
  specialize (Hz _ eq_refl). pose proof (read_gcno_good gcno_buf) as Hwf. rewrite E in Hwf.
  rewrite (read_gcdas_perm g ds ds' Hwf Hz Hp g eq_refl (zero_state_cnorm g Hz)). done.
Qed.
End arith.
