(* Facts about the gcov JSON model (C09). *)
From Grcov Require Import Model.GcovJson Model.GcovSpec.
From Coq Require Import ZifyBool ZifyN ZifyNat.

(* ------------------------------------------------------------------ deserialize_counter *)

Lemma f_trunc_lt m e : f_lt_two64 m e = true -> f_trunc m e < two64.
Proof.
  unfold f_lt_two64, f_trunc. destruct e as [|p|p]; intros H; try lia.
  apply N.ltb_lt in H. apply N.div_lt_upper_bound; [apply N.pow_nonzero; discriminate|]. lia.
Qed.
Lemma f_trunc_ge m e : f_lt_two64 m e = false -> two64 <= f_trunc m e.
Proof.
  unfold f_lt_two64, f_trunc. destruct e as [|p|p]; intros H; try lia.
  apply N.ltb_ge in H. apply N.div_le_lower_bound; [apply N.pow_nonzero; discriminate|]. lia.
Qed.

(* a counter that is accepted is the integer part of the number, and fits 64 bits *)
Lemma counter_fits x v : counter_of_number x = Ok v -> jnum_floor x = Some v.
Proof.
  destruct x as [u|a|neg m e]; cbn [counter_of_number jnum_floor]; try congruence.
  destruct (f_ge0 neg m) eqn:Eg; cbn [andb]; [|discriminate].
  destruct (f_lt_two64 m e) eqn:El; [|discriminate].
  intros H. injection H as <-. pose proof (f_trunc_lt m e El). unfold f_as_u64. f_equal. unfold two64, U64_MAX in *. lia.
Qed.
Lemma counter_in_range x v : jnum_wf x = true -> counter_of_number x = Ok v -> v <= U64_MAX.
Proof.
  destruct x as [u|a|neg m e]; cbn [counter_of_number jnum_wf]; try congruence.
  - intros H E. injection E as <-. lia.
  - destruct (f_ge0 neg m && f_lt_two64 m e); [|discriminate]. intros _ E. injection E as <-. unfold f_as_u64. lia.
Qed.
(* exactly the non-negative numbers below 2^64 are accepted *)
Lemma counter_accepts_below x w : jnum_floor x = Some w -> w < two64 -> counter_of_number x = Ok w.
Proof.
  destruct x as [u|a|neg m e]; cbn [counter_of_number jnum_floor]; try congruence.
  destruct (f_ge0 neg m); cbn [andb]; [|discriminate]. intros E Hw. injection E as <-.
  destruct (f_lt_two64 m e) eqn:El.
  - unfold f_as_u64. f_equal. unfold two64, U64_MAX in *. lia.
  - pose proof (f_trunc_ge m e El). lia.
Qed.
Lemma counter_rejects_above x w :
  jnum_wf x = true -> jnum_floor x = Some w -> two64 <= w -> counter_of_number x = Err.
Proof.
  destruct x as [u|a|neg m e]; cbn [counter_of_number jnum_floor jnum_wf]; try congruence.
  - intros H E Hw. injection E as <-. unfold two64, U64_MAX in *. lia.
  - destruct (f_ge0 neg m); cbn [andb]; [|reflexivity]. intros _ E Hw. injection E as <-.
    destruct (f_lt_two64 m e) eqn:El; [|reflexivity]. pose proof (f_trunc_lt m e El). lia.
Qed.
Lemma counter_rejects_two64 x : jnum_wf x = true -> jnum_floor x = Some two64 -> counter_of_number x = Err.
Proof. intros H E. eapply counter_rejects_above; [exact H|exact E|lia]. Qed.
Lemma counter_rejects_negative x : jnum_floor x = None -> counter_of_number x = Err.
Proof.
  destruct x as [u|a|neg m e]; cbn [counter_of_number jnum_floor]; try congruence.
  destruct (f_ge0 neg m); cbn [andb]; congruence.
Qed.
Lemma counter_no_panic x : counter_of_number x <> Panic /\ counter_of_number x <> OutOfFuel.
Proof. destruct x; cbn [counter_of_number]; repeat case_match; split; discriminate. Qed.

(* ------------------------------------------------------------------ the conversion loops *)
Lemma sum_N_app a b : sum_N (a ++ b) = sum_N a + sum_N b.
Proof. unfold sum_N. induction a as [|x a IH]; cbn [app fold_right]; [lia|]. rewrite IH. lia. Qed.
(* iterated saturating_add from the entry's initial value = clamped total *)
Lemma add_line_lines ls L B n :
  (fold_left add_line ls (L, B)).1 !! n =
  match omap (jline_at n) ls with
  | [] => L !! n
  | cs => Some (N.min (default 0 (L !! n) + sum_N cs) U64_MAX)
  end.
Proof.
  induction ls as [|l ls IH] using rev_ind; [reflexivity|].
  rewrite fold_left_app, omap_app. cbn [fold_left add_line fst omap list_omap]. unfold jline_at at 2.
  destruct (N.eqb_spec (dl_number l) n) as [E|Hne].
  - rewrite E, lookup_insert, IH. unfold sat_add64.
    destruct (omap (jline_at n) ls) as [|c cs]; cbn [app default].
    + f_equal. unfold sum_N. cbn [fold_right]. lia.
    + f_equal. change (c :: cs ++ [dl_count l]) with ((c :: cs) ++ [dl_count l]). rewrite sum_N_app.
      unfold id. change (sum_N [dl_count l]) with (dl_count l + 0). lia.
  - rewrite lookup_insert_ne by exact Hne. rewrite app_nil_r. exact IH.
Qed.
Lemma add_line_branches ls L B n :
  (fold_left add_line ls (L, B)).2 !! n =
  match omap (jbranch_at n) ls with
  | [] => B !! n
  | vs => Some (default [] (B !! n) ++ concat vs)
  end.
Proof.
  induction ls as [|l ls IH] using rev_ind; [reflexivity|].
  rewrite fold_left_app, omap_app. cbn [fold_left add_line snd omap list_omap]. unfold jbranch_at at 2.
  destruct (dl_branches l) as [|b bs] eqn:Eb.
  - destruct (dl_number l =? n); rewrite app_nil_r; exact IH.
  - destruct (N.eqb_spec (dl_number l) n) as [E|Hne].
    + rewrite E. etrans; [apply lookup_insert|]. rewrite IH.
      destruct (omap (jbranch_at n) ls) as [|v vs]; cbn [app default].
      * cbn [concat]. rewrite app_nil_r. reflexivity.
      * change (v :: vs ++ [map (fun c : N => 0 <? c) (b :: bs)]) with ((v :: vs) ++ [map (fun c : N => 0 <? c) (b :: bs)]).
        rewrite concat_app. cbn [concat]. unfold id. rewrite app_nil_r, <- !app_assoc. reflexivity.
    + etrans; [apply lookup_insert_ne; exact Hne|]. rewrite app_nil_r. exact IH.
Qed.
Lemma add_fun_lookup fs M g :
  fold_left add_fun fs M !! g = match spec_jfunc fs g with Some c => Some c | None => M !! g end.
Proof.
  unfold spec_jfunc. induction fs as [|f fs IH] using rev_ind; [reflexivity|].
  rewrite fold_left_app, omap_app, last_app. cbn [fold_left add_fun omap list_omap]. unfold jfunc_at at 1.
  unfold add_fun at 1.
  destruct (decide (df_name f = g)) as [E|Hne].
  - rewrite bool_decide_eq_true_2 by exact E. cbn [last]. rewrite E, lookup_insert. reflexivity.
  - rewrite bool_decide_eq_false_2 by exact Hne. cbn [last]. rewrite lookup_insert_ne by exact Hne. exact IH.
Qed.
Lemma add_line_nonempty ls acc : ls <> [] -> lines_empty_j (fold_left add_line ls acc).1 = false.
Proof.
  intros Hne. destruct (exists_last Hne) as (ls' & l & ->). rewrite fold_left_app. cbn [fold_left add_line fst].
  unfold lines_empty_j. apply bool_decide_eq_false. rewrite map_to_list_empty_iff. apply insert_non_empty.
Qed.

Definition jcov (f : dfile) : cov :=
  let acc := fold_left add_line (dfile_lines f) (∅, ∅) in mkCov acc.1 acc.2 (fold_left add_fun (dfile_funs f) ∅).
Lemma conv_file_eq f : conv_file f = if has_jline f then [(dfile_name f, jcov f)] else [].
Proof.
  unfold conv_file, has_jline, jcov. destruct (dfile_lines f) as [|l ls] eqn:E.
  - reflexivity.
  - pose proof (add_line_nonempty (l :: ls) (∅, ∅) ltac:(discriminate)) as Hn.
    destruct (fold_left add_line (l :: ls) (∅, ∅)) as [L B]. cbn [fst snd] in *. rewrite Hn. reflexivity.
Qed.
Lemma jcov_spec f : jfile_spec f (jcov f).
Proof.
  unfold jfile_spec, jcov. cbn [c_lines c_branches c_funcs]. split; [|split].
  - intros n. rewrite add_line_lines, lookup_empty. unfold spec_jline. cbn [default].
    destruct (omap (jline_at n) (dfile_lines f)); [reflexivity|]. rewrite N.add_0_l. reflexivity.
  - intros n. rewrite add_line_branches, lookup_empty. unfold spec_jbranch. cbn [default app].
    destruct (omap (jbranch_at n) (dfile_lines f)); reflexivity.
  - intros g. rewrite add_fun_lookup, lookup_empty. destruct (spec_jfunc _ g); reflexivity.
Qed.
Lemma conv_spec d : jreport_spec d (conv d).
Proof.
  unfold jreport_spec, conv. induction d as [|f d IH]; [constructor|].
  rewrite filter_cons. cbn [map concat]. rewrite conv_file_eq. destruct (has_jline f) eqn:E.
  - rewrite decide_True by reflexivity. constructor; [|exact IH]. cbn [fst snd]. split; [reflexivity|apply jcov_spec].
  - rewrite decide_False by discriminate. exact IH.
Qed.

(* what serde leaves of the tree *)
Lemma omapM_Forall2 {A B} (f : A -> outcome B) l l' : omapM f l = Ok l' -> Forall2 (fun x y => f x = Ok y) l l'.
Proof.
  revert l'; induction l as [|x l IH]; intros l' H; cbn [omapM] in H.
  - injection H as <-. constructor.
  - destruct (f x) eqn:E; try discriminate. cbn [obind] in H. destruct (omapM f l); try discriminate.
    cbn [obind] in H. injection H as <-. constructor; [exact E|apply IH; reflexivity].
Qed.
Lemma deser_line_rel j d : deser_line j = Ok d -> line_rel j d.
Proof.
  unfold deser_line, line_rel. destruct (u32_of_number (jl_number j)); try discriminate. cbn [obind].
  destruct (counter_of_number (jl_count j)); try discriminate. cbn [obind].
  destruct (omapM counter_of_number (jl_branches j)) eqn:E; try discriminate. cbn [obind].
  intros H. injection H as <-. cbn [dl_number dl_count dl_branches]. split; [reflexivity|]. split; [reflexivity|].
  apply omapM_Forall2. exact E.
Qed.
Lemma deser_fun_rel j d : deser_fun j = Ok d -> fun_rel j d.
Proof.
  unfold deser_fun, fun_rel. destruct (u32_of_number (jf_start j)); try discriminate. cbn [obind].
  destruct (counter_of_number (jf_count j)); try discriminate. cbn [obind].
  intros H. injection H as <-. auto.
Qed.
Lemma deser_rel t d : deser t = Ok d -> Forall2 file_rel t d.
Proof.
  intros H. apply omapM_Forall2 in H. eapply Forall2_impl; [exact H|]. clear. intros j d H.
  unfold deser_file in H. destruct (omapM deser_fun (jfile_funs j)) eqn:Ef; try discriminate. cbn [obind] in H.
  destruct (omapM deser_line (jfile_lines j)) eqn:El; try discriminate. cbn [obind] in H. injection H as <-.
  unfold file_rel. cbn [dfile_name dfile_funs dfile_lines]. split; [reflexivity|]. split.
  - apply omapM_Forall2 in Ef. eapply Forall2_impl; [exact Ef|]. apply deser_fun_rel.
  - apply omapM_Forall2 in El. eapply Forall2_impl; [exact El|]. apply deser_line_rel.
Qed.

Theorem gcov_json_sound t d :
  deser t = Ok d -> parse_gcov_gz_tree t = Ok (conv d) /\ jreport_spec d (conv d).
Proof. intros H. unfold parse_gcov_gz_tree. rewrite H. split; [reflexivity|apply conv_spec]. Qed.
(* a report is rejected with an error exactly when serde rejects a number *)
Theorem gcov_json_rejects t : (forall d, deser t <> Ok d) -> parse_gcov_gz_tree t = Err.
Proof. intros H. unfold parse_gcov_gz_tree. destruct (deser t); try reflexivity. exfalso. eapply H. reflexivity. Qed.
Theorem gcov_json_no_panic t : parse_gcov_gz_tree t <> Panic /\ parse_gcov_gz_tree t <> OutOfFuel.
Proof. unfold parse_gcov_gz_tree. destruct (deser t); split; discriminate. Qed.

(* ------------------------------------------------------------------ distinct keys: the entry itself decides *)
Lemma omap_unique {A B} (key : A -> N) (g : A -> option B) (ls : list A) (l : A) :
  NoDup (map key ls) -> l ∈ ls ->
  omap (fun x => if key x =? key l then g x else None) ls = option_list (g l).
Proof.
  induction ls as [|x ls IH]; intros Hnd Hin; [inversion Hin|].
  cbn [map] in Hnd. apply NoDup_cons in Hnd as [Hx Hnd]. cbn [omap list_omap].
  apply elem_of_cons in Hin as [->|Hin].
  - rewrite N.eqb_refl.
    assert (omap (fun x0 => if key x0 =? key x then g x0 else None) ls = []) as Hnil.
    { clear IH Hnd. induction ls as [|y ls IH]; [reflexivity|]. cbn [omap list_omap].
      destruct (N.eqb_spec (key y) (key x)) as [E|E].
      - exfalso. apply Hx. cbn [map]. rewrite E. left.
      - apply IH. intros Hin. apply Hx. cbn [map]. right. exact Hin. }
    change (list_omap A B) with (@omap list _ A B). rewrite Hnil. destruct (g x); reflexivity.
  - destruct (N.eqb_spec (key x) (key l)) as [E|E].
    + exfalso. apply Hx. rewrite E. apply elem_of_list_fmap_1. exact Hin.
    + apply IH; assumption.
Qed.
Lemma last_option_list {B} (o : option B) : last (option_list o) = o.
Proof. destruct o; reflexivity. Qed.

Lemma jfile_spec_line f c l :
  jfile_spec f c -> NoDup (map dl_number (dfile_lines f)) -> l ∈ dfile_lines f ->
  c_lines c !! dl_number l = Some (N.min (dl_count l) U64_MAX) /\
  c_branches c !! dl_number l = match dl_branches l with [] => None | b => Some (map (fun x => 0 <? x) b) end.
Proof.
  intros (HL & HB & _) Hnd Hin. rewrite HL, HB. unfold spec_jline, spec_jbranch, jline_at, jbranch_at. split.
  - rewrite (omap_unique dl_number (fun x => Some (dl_count x)) _ l Hnd Hin). change (option_list (Some (dl_count l))) with [dl_count l]. cbv iota.
    change (sum_N [dl_count l]) with (dl_count l + 0). rewrite N.add_0_r. reflexivity.
  - rewrite (omap_unique dl_number (fun x => match dl_branches x with [] => None | b => Some (map (fun c => 0 <? c) b) end) _ l Hnd Hin).
    destruct (dl_branches l) as [|b bs]; [reflexivity|].
    change (option_list (Some (map (fun c : N => 0 <? c) (b :: bs)))) with [map (fun c : N => 0 <? c) (b :: bs)]. cbv iota.
    cbn [concat]. rewrite app_nil_r. reflexivity.
Qed.
(* the general clause, in the words of the property: the entries of line n in entry order *)
Lemma omap_jline_entries n ls : omap (jline_at n) ls = map dl_count (entries_of n ls).
Proof.
  unfold entries_of. induction ls as [|l ls IH]; [reflexivity|]. rewrite filter_cons. cbn [omap list_omap]. unfold jline_at at 1.
  destruct (N.eqb_spec (dl_number l) n) as [E|E].
  - rewrite decide_True by exact E. cbn [map]. f_equal. exact IH.
  - rewrite decide_False by exact E. exact IH.
Qed.
Lemma concat_omap_jbranch_entries n ls :
  concat (omap (jbranch_at n) ls) = concat (map (fun l => map (fun c => 0 <? c) (dl_branches l)) (entries_of n ls)).
Proof.
  unfold entries_of. induction ls as [|l ls IH]; [reflexivity|]. rewrite filter_cons. cbn [omap list_omap]. unfold jbranch_at at 1.
  destruct (N.eqb_spec (dl_number l) n) as [E|E].
  - rewrite decide_True by exact E. cbn [map concat]. rewrite <- IH.
    destruct (dl_branches l); cbn [map concat app]; reflexivity.
  - rewrite decide_False by exact E. exact IH.
Qed.
Lemma jfile_spec_entries f c n :
  jfile_spec f c ->
  let es := entries_of n (dfile_lines f) in
  c_lines c !! n = (match es with [] => None | _ => Some (N.min (sum_N (map dl_count es)) U64_MAX) end) /\
  (es <> [] -> default [] (c_branches c !! n) = concat (map (fun l => map (fun x => 0 <? x) (dl_branches l)) es)) /\
  (c_branches c !! n = None <-> Forall (fun l => dl_branches l = []) es).
Proof.
  intros (HL & HB & _) es. subst es. rewrite HL, HB. unfold spec_jline, spec_jbranch.
  rewrite omap_jline_entries. split; [|split].
  - destruct (entries_of n (dfile_lines f)); reflexivity.
  - intros _. rewrite <- concat_omap_jbranch_entries. destruct (omap (jbranch_at n) (dfile_lines f)); reflexivity.
  - clear HL HB. unfold entries_of. induction (dfile_lines f) as [|l ls IH]; [split; [constructor|reflexivity]|].
    rewrite filter_cons. cbn [omap list_omap]. unfold jbranch_at at 1.
    destruct (N.eqb_spec (dl_number l) n) as [E|E].
    + rewrite decide_True by exact E. destruct (dl_branches l) as [|b bs] eqn:Eb.
      * rewrite IH. split; [intros H; constructor; [exact Eb|exact H]|intros H; inversion H; assumption].
      * split; [discriminate|]. intros H. inversion H as [|? ? H1 _]. rewrite Eb in H1. discriminate.
    + rewrite decide_False by exact E. exact IH.
Qed.

(* regression: the fold used before the fix (last entry stands) differs on the witness of
   C20/gcov-json-line-in-several-functions: `int f(..){..} int g(..){..}` on line 1, f run 3 times, g never *)
Lemma old_fold_differs :
  let new := fold_left add_line witness_two_functions_one_line (∅, ∅) in
  let old := fold_left add_line_last_wins witness_two_functions_one_line (∅, ∅) in
  new.1 !! 1 = Some 3 /\ old.1 !! 1 = Some 0 /\
  new.2 !! 1 = Some [true; false; false; false] /\ old.2 !! 1 = Some [false; false].
Proof. vm_compute. repeat split; reflexivity. Qed.
Lemma jfile_spec_fun f c g :
  jfile_spec f c -> NoDup (map df_name (dfile_funs f)) -> g ∈ dfile_funs f ->
  c_funcs c !! df_name g = Some (mkFunc (df_start g) (0 <? df_count g)).
Proof.
  intros (_ & _ & HF) Hnd Hin. rewrite HF. unfold spec_jfunc. clear HF.
  revert Hnd Hin. generalize (dfile_funs f). intros fs.
  induction fs as [|x fs IH] using rev_ind; intros Hnd Hin; [inversion Hin|].
  rewrite omap_app, last_app. cbn [omap list_omap]. unfold jfunc_at at 1.
  rewrite map_app in Hnd. apply NoDup_app in Hnd as (Hnd1 & Hdisj & _).
  apply elem_of_app in Hin as [Hin|Hin].
  - rewrite bool_decide_eq_false_2.
    2:{ intros E. apply (Hdisj (df_name g)); [apply elem_of_list_fmap_1; exact Hin|]. cbn [map]. rewrite E. left. }
    cbn [last]. apply IH; assumption.
  - apply elem_of_list_singleton in Hin as ->. rewrite bool_decide_eq_true_2 by reflexivity. reflexivity.
Qed.
