(* Facts about the std::path model (Model/Paths.v): boolean equalities, components, normalize_path. *)
From Grcov Require Import Model.Paths.
From Coq Require Import ZifyBool ZifyN ZifyNat.

(* ---- boolean equalities reflect Leibniz equality ---- *)
Lemma list_eqb_eq {A} (e : A -> A -> bool) :
  (forall x y, e x y = true <-> x = y) -> forall a b, list_eqb e a b = true <-> a = b.
Proof.
  intros He. induction a as [|x a IH]; intros [|y b]; cbn; try (split; congruence).
  rewrite andb_true_iff, He, IH. split; [intros [-> ->]; reflexivity | intros [= -> ->]; auto].
Qed.
Lemma bytes_eqb_eq a b : bytes_eqb a b = true <-> a = b.
Proof. apply list_eqb_eq. intros x y. apply N.eqb_eq. Qed.
Lemma bytes_eqb_refl a : bytes_eqb a a = true.
Proof. apply bytes_eqb_eq. reflexivity. Qed.
Lemma bytes_eqb_neq a b : bytes_eqb a b = false <-> a <> b.
Proof. rewrite <- bytes_eqb_eq. destruct (bytes_eqb a b); split; congruence. Qed.
Lemma names_eqb_eq a b : names_eqb a b = true <-> a = b.
Proof. apply list_eqb_eq. apply bytes_eqb_eq. Qed.
Lemma seg_eqb_eq s t : seg_eqb s t = true <-> s = t.
Proof.
  destruct s, t; cbn; try (split; congruence).
  rewrite bytes_eqb_eq. split; congruence.
Qed.
Lemma oseg_eqb_eq s t : oseg_eqb s t = true <-> s = t.
Proof.
  destruct s, t; cbn; try (split; congruence).
  rewrite seg_eqb_eq. split; congruence.
Qed.
Lemma prefix_b_spec l k : prefix_b l k = true <-> exists t, k = l ++ t.
Proof.
  revert k. induction l as [|x l IH]; intros k; cbn.
  - split; eauto.
  - destruct k as [|y k].
    + split; [discriminate | intros [t Ht]; discriminate].
    + rewrite andb_true_iff, oseg_eqb_eq, IH. split.
      * intros [-> [t ->]]. eauto.
      * intros [t [= -> ->]]. eauto.
Qed.
Lemma prefix_b_app l t : prefix_b l (l ++ t) = true.
Proof. apply prefix_b_spec. eauto. Qed.

(* ---- split_slash / components ---- *)
Definition noslash (w : bytes) : bool := forallb (fun c => negb (c =? SLASH)) w.

Lemma split_slash_nonempty b : split_slash b <> [].
Proof. destruct b as [|c b]; cbn; [discriminate|]. destruct (c =? SLASH); [discriminate|]. destruct (split_slash b); discriminate. Qed.
Lemma split_slash_noslash b : Forall (fun w => noslash w = true) (split_slash b).
Proof.
  induction b as [|c b IH]; cbn.
  - repeat constructor.
  - destruct (c =? SLASH) eqn:E.
    + constructor; [reflexivity | exact IH].
    + destruct (split_slash b) as [|w ws]; [repeat constructor; cbn; rewrite E; reflexivity|].
      inversion IH; subst. constructor; [|assumption]. cbn. rewrite E. cbn. assumption.
Qed.
Lemma split_noslash w : noslash w = true -> split_slash w = [w].
Proof.
  induction w as [|c w IH]; cbn; [reflexivity|].
  rewrite andb_true_iff, negb_true_iff. intros [E H]. rewrite E, (IH H). reflexivity.
Qed.
Lemma split_app_slash w r : noslash w = true -> split_slash (w ++ SLASH :: r) = w :: split_slash r.
Proof.
  induction w as [|c w IH]; cbn.
  - reflexivity.
  - rewrite andb_true_iff, negb_true_iff. intros [E H]. rewrite E, (IH H). reflexivity.
Qed.
Lemma split_intercalate ws : Forall (fun w => noslash w = true) ws -> ws <> [] -> split_slash (intercalate ws) = ws.
Proof.
  induction ws as [|w ws IH]; [congruence|]. intros Hf _. inversion Hf as [|? ? Hw Hws]; subst.
  destruct ws as [|w' ws].
  - cbn. apply split_noslash. assumption.
  - change (intercalate (w :: w' :: ws)) with (w ++ SLASH :: intercalate (w' :: ws)).
    rewrite split_app_slash by assumption. rewrite IH; [reflexivity | assumption | discriminate].
Qed.

Lemma seg_of_raw_ok w s : noslash w = true -> seg_of_raw w = Some s -> seg_ok s = true.
Proof.
  unfold seg_of_raw. intros Hn.
  destruct (bytes_eqb w []) eqn:E1; [discriminate|].
  destruct (bytes_eqb w [DOT]) eqn:E2; [discriminate|].
  destruct (bytes_eqb w [DOT; DOT]) eqn:E3; intros [= <-]; [reflexivity|].
  cbn. unfold good_name. rewrite E1, E2, E3. cbn. exact Hn.
Qed.
Lemma omap_seg_ok ws : Forall (fun w => noslash w = true) ws -> forallb seg_ok (omap seg_of_raw ws) = true.
Proof.
  induction 1 as [|w ws Hw _ IH]; cbn; [reflexivity|].
  destruct (seg_of_raw w) as [s|] eqn:E; [|exact IH].
  cbn. rewrite (seg_of_raw_ok _ _ Hw E). exact IH.
Qed.
(* every path read from bytes is well formed: good names, "." only as the head of a relative path *)
Lemma components_wf b : wf_path (components b) = true.
Proof.
  unfold components, wf_path. cbn [p_segs p_abs].
  pose proof (omap_seg_ok _ (split_slash_noslash b)) as Hok.
  destruct (negb (has_root b) && match split_slash b with w :: _ => bytes_eqb w [DOT] | [] => false end) eqn:E.
  - cbn [app]. apply andb_true_iff in E as [E _]. rewrite E. exact Hok.
  - cbn [app]. destruct (omap seg_of_raw (split_slash b)) as [|[| |n] t]; try exact Hok.
    cbn in Hok. discriminate.
Qed.

Lemma good_name_raw n : good_name n = true -> seg_of_raw n = Some (Name n) /\ noslash n = true.
Proof.
  unfold good_name, seg_of_raw. rewrite !andb_true_iff, !negb_true_iff. intros [[[-> ->] ->] H]. auto.
Qed.
Lemma omap_good l : forallb good_name l = true -> omap seg_of_raw l = map Name l /\ Forall (fun w => noslash w = true) l.
Proof.
  induction l as [|n l IH]; cbn; [auto|].
  rewrite andb_true_iff. intros [Hn Hl]. destruct (good_name_raw _ Hn) as [-> Hs]. destruct (IH Hl) as [-> Hf]. auto.
Qed.
Lemma has_root_intercalate l : forallb good_name l = true -> has_root (intercalate l) = false.
Proof.
  destruct l as [|n l]; [reflexivity|]. cbn [forallb]. rewrite andb_true_iff. intros [Hn _].
  assert (has_root n = false /\ n <> []) as [Hr Hne].
  { unfold good_name in Hn. rewrite !andb_true_iff, !negb_true_iff in Hn. destruct Hn as [[[H1 _] _] H4].
    destruct n as [|c n]; [discriminate|]. cbn in H4. rewrite andb_true_iff, negb_true_iff in H4. cbn. split; [tauto | discriminate]. }
  destruct n as [|c n]; [congruence|]. destruct l; exact Hr.
Qed.
(* rendering a normal form and reading it back is the identity *)
Lemma components_render_names abs l :
  forallb good_name l = true -> components (render (mkPath abs (map Name l))) = mkPath abs (map Name l).
Proof.
  intros Hl. destruct (omap_good _ Hl) as [Hom Hf].
  unfold render. cbn [p_abs p_segs]. rewrite map_map. cbn [seg_bytes]. rewrite map_id.
  destruct l as [|n l].
  - destruct abs; reflexivity.
  - assert (Hs : split_slash (intercalate (n :: l)) = n :: l) by (apply split_intercalate; [assumption | discriminate]).
    assert (Hd : bytes_eqb n [DOT] = false).
    { cbn in Hl. apply andb_true_iff in Hl as [Hn _]. unfold good_name in Hn.
      rewrite !andb_true_iff, !negb_true_iff in Hn. tauto. }
    destruct abs.
    + unfold components.
      change (has_root ([SLASH] ++ intercalate (n :: l))) with true.
      change (split_slash ([SLASH] ++ intercalate (n :: l))) with ([] :: split_slash (intercalate (n :: l))).
      rewrite Hs. cbn [negb andb app].
      change (omap seg_of_raw ([] :: n :: l)) with (omap seg_of_raw (n :: l)).
      rewrite Hom. reflexivity.
    + unfold components. cbn [app]. rewrite (has_root_intercalate _ Hl), Hs. cbn [negb andb]. rewrite Hd. cbn [app].
      rewrite Hom. reflexivity.
Qed.

(* ---- normalize_path ---- *)
Lemma norm_go_names st l : norm_go st (map Name l) = Some (rev l ++ st).
Proof.
  revert st. induction l as [|n l IH]; intros st; cbn; [reflexivity|].
  rewrite IH, <- app_assoc. reflexivity.
Qed.
Lemma norm_go_app_names st l t : norm_go st (map Name l ++ t) = norm_go (rev l ++ st) t.
Proof.
  revert st. induction l as [|n l IH]; intros st; cbn; [reflexivity|].
  rewrite IH, <- app_assoc. reflexivity.
Qed.
Lemma normalize_names abs l : normalize_path (mkPath abs (map Name l)) = Some (mkPath abs (map Name l)).
Proof. unfold normalize_path. cbn [p_segs p_abs]. rewrite norm_go_names, app_nil_r, rev_involutive. reflexivity. Qed.
Lemma normalize_shape p q : normalize_path p = Some q -> exists l, q = mkPath (p_abs p) (map Name l).
Proof. unfold normalize_path. destruct (norm_go [] (p_segs p)); intros [= <-]. eauto. Qed.
Lemma normalize_idem p q : normalize_path p = Some q -> normalize_path q = Some q.
Proof. intros H. destruct (normalize_shape _ _ H) as [l ->]. apply normalize_names. Qed.

Lemma norm_go_subset st l s : norm_go st l = Some s -> forall n, n ∈ s -> n ∈ st \/ Name n ∈ l.
Proof.
  revert st. induction l as [|[| |m] l IH]; intros st; cbn.
  - intros [= <-] n Hn. auto.
  - intros H n Hn. destruct (IH _ H n Hn); [auto | right; apply elem_of_cons; auto].
  - destruct st as [|x st]; [discriminate|]. intros H n Hn. destruct (IH _ H n Hn) as [Hi|Hi].
    + left. apply elem_of_cons. auto.
    + right. apply elem_of_cons. auto.
  - intros H n Hn. destruct (IH _ H n Hn) as [Hi|Hi].
    + apply elem_of_cons in Hi as [-> | Hi]; [right; apply elem_of_cons; auto | auto].
    + right. apply elem_of_cons. auto.
Qed.
Lemma wf_names_good p n : wf_path p = true -> Name n ∈ p_segs p -> good_name n = true.
Proof.
  unfold wf_path. intros Hw Hn.
  assert (forall l, forallb seg_ok l = true -> Name n ∈ l -> good_name n = true) as Hgen.
  { intros l Hl Hi. rewrite forallb_forall in Hl. apply (Hl (Name n)). apply elem_of_list_In. exact Hi. }
  destruct (p_segs p) as [|[| |m] t] eqn:E; try (apply (Hgen _ Hw Hn)).
  apply andb_true_iff in Hw as [_ Hw]. apply elem_of_cons in Hn as [Hn | Hn]; [discriminate|]. apply (Hgen _ Hw Hn).
Qed.
(* the result of normalize_path consists of good names only: no ".", no "..", no empty component *)
Lemma normalize_normal p q : wf_path p = true -> normalize_path p = Some q -> normal q = true.
Proof.
  unfold normalize_path, normal. intros Hw. destruct (norm_go [] (p_segs p)) as [st|] eqn:E; intros [= <-].
  cbn [p_segs]. apply forallb_forall. intros s Hs. apply in_map_iff in Hs as [n [<- Hn]]. cbn.
  apply in_rev in Hn. apply elem_of_list_In in Hn.
  destruct (norm_go_subset _ _ _ E n Hn) as [Hi|Hi]; [inversion Hi|]. apply (wf_names_good p n Hw Hi).
Qed.
Lemma normal_names q : normal q = true -> exists l, p_segs q = map Name l /\ forallb good_name l = true.
Proof.
  unfold normal. induction (p_segs q) as [|s t IH]; cbn.
  - exists []. auto.
  - rewrite andb_true_iff. intros [Hs Ht]. destruct (IH Ht) as [l [-> Hl]]. destruct s as [| |n]; try discriminate.
    exists (n :: l). cbn. cbn in Hs. rewrite Hs. auto.
Qed.
Lemma components_render_normal q : normal q = true -> components (render q) = q.
Proof. intros H. destruct (normal_names _ H) as [l [Hl Hg]]. destruct q as [a s]. cbn in Hl. subst s. apply components_render_names. exact Hg. Qed.

(* the stack only grows at the bottom *)
Lemma norm_go_app_stack st l s x : norm_go st l = Some s -> norm_go (st ++ x) l = Some (s ++ x).
Proof.
  revert st. induction l as [|[| |m] l IH]; intros st; cbn.
  - intros [= <-]. reflexivity.
  - apply IH.
  - destruct st as [|y st]; [discriminate|]. cbn. apply IH.
  - intros H. apply (IH (m :: st) H).
Qed.

Lemma count_b_take_nil {A} (f : A -> bool) k : count_b f (take k []) = O.
Proof. destruct k; reflexivity. Qed.
(* normalize_path gives up exactly when some prefix has more ".." than the names (and stack) before it *)
Lemma norm_go_none st l :
  norm_go st l = None <-> exists k : nat, (count_name (take k l) + length st < count_up (take k l))%nat.
Proof.
  unfold count_name, count_up. revert st. induction l as [|s l IH]; intros st.
  - cbn. split; [discriminate|]. intros [k Hk]. rewrite !count_b_take_nil in Hk. lia.
  - destruct s as [| |m]; cbn [norm_go].
    + rewrite IH. split; intros [k Hk].
      * exists (S k). cbn. exact Hk.
      * destruct k as [|k]; [cbn in Hk; lia|]. exists k. cbn in Hk. exact Hk.
    + destruct st as [|y st].
      * split; [intros _|reflexivity]. exists 1%nat. destruct l; cbn; lia.
      * rewrite IH. split; intros [k Hk].
        -- exists (S k). cbn. cbn in Hk. lia.
        -- destruct k as [|k]; [cbn in Hk; lia|]. exists k. cbn in Hk. cbn. lia.
    + rewrite IH. split; intros [k Hk].
      * exists (S k). cbn. cbn in Hk. lia.
      * destruct k as [|k]; [cbn in Hk; lia|]. exists k. cbn in Hk. cbn. lia.
Qed.
Lemma normalize_none p :
  normalize_path p = None <-> exists k : nat, (count_name (take k (p_segs p)) < count_up (take k (p_segs p)))%nat.
Proof.
  unfold normalize_path. destruct (norm_go [] (p_segs p)) as [st|] eqn:E.
  - split; [discriminate|]. intros [k Hk]. assert (norm_go [] (p_segs p) = None) as H; [|congruence].
    apply norm_go_none. exists k. cbn. lia.
  - split; [|reflexivity]. intros _. apply norm_go_none in E as [k Hk]. exists k. cbn in Hk. lia.
Qed.

(* ---- clist / strip_pfx ---- *)
Lemma omap_id_map_some {A} (l : list A) : omap id (map Some l) = l.
Proof. induction l; cbn; congruence. Qed.
Lemma clist_of_clist_segs l : of_clist (map Some l) = mkPath false l.
Proof. destruct l; cbn; [reflexivity|]. rewrite omap_id_map_some. reflexivity. Qed.
Lemma of_clist_clist p : of_clist (clist p) = p.
Proof.
  destruct p as [[] s]; unfold clist; cbn [p_abs p_segs app].
  - cbn. rewrite omap_id_map_some. reflexivity.
  - apply clist_of_clist_segs.
Qed.
Lemma map_some_omap_id {A} (t : list (option A)) : Forall is_Some t -> map Some (omap id t) = t.
Proof. induction 1 as [|x t [y ->] _ IH]; cbn; [reflexivity|]. rewrite IH. reflexivity. Qed.
(* RootDir can only be the first component *)
Definition okc (l : list (option seg)) : Prop := match l with [] => True | _ :: t => Forall is_Some t end.
Lemma okc_clist p : okc (clist p).
Proof.
  assert (forall s : list seg, Forall is_Some (map Some s)) as H by (intros s; induction s; constructor; eauto).
  destruct p as [[] [|x s]]; unfold clist; cbn; auto.
Qed.
Lemma okc_suffix l t : okc (l ++ t) -> okc t.
Proof.
  destruct l as [|x l]; [auto|]. cbn. intros H. apply Forall_app in H as [_ H].
  destruct t; cbn; [auto|]. inversion H; assumption.
Qed.
Lemma clist_of_clist t : okc t -> clist (of_clist t) = t.
Proof.
  destruct t as [|[x|] t]; cbn; [reflexivity| |]; intros H.
  - unfold clist. cbn. assert (Forall is_Some (Some x :: t)) as H' by (constructor; eauto).
    apply map_some_omap_id in H'. cbn in H'. exact H'.
  - unfold clist. cbn. rewrite (map_some_omap_id _ H). reflexivity.
Qed.
Lemma strip_pfx_spec a b q : strip_pfx a b = Some q -> clist a = clist b ++ clist q.
Proof.
  unfold strip_pfx, starts_with. destruct (prefix_b (clist b) (clist a)) eqn:E; [|discriminate]. intros [= <-].
  apply prefix_b_spec in E as [t Ht]. rewrite Ht, drop_app. f_equal.
  symmetry. apply clist_of_clist. apply (okc_suffix (clist b)). rewrite <- Ht. apply okc_clist.
Qed.
Lemma strip_pfx_none a b : strip_pfx a b = None <-> starts_with a b = false.
Proof. unfold strip_pfx. destruct (starts_with a b); split; congruence. Qed.
