(* C06: aggregating in shards (any nesting depth), re-importing each intermediate report,
   gives the same result as aggregating everything at once. *)
From Grcov Require Import Model.Merge Proofs.MergeFacts.

(* one aggregation stage whose report is re-imported unchanged (that is what lcov_roundtrip gives) *)
Definition stage (inputs : list (name * cov)) : list (name * cov) := map_to_list (add_results ∅ inputs).

(** * a list with distinct keys, filtered by key *)
Lemma filter_key_nodup (l : list (name * cov)) (p : name) :
  NoDup l.*1 ->
  filter (fun r => r.1 = p) l =
  match (list_to_map l : gmap name cov) !! p with Some c => [(p, c)] | None => [] end.
Proof.
  induction l as [|[k v] l IH]; intros Hnd; [reflexivity|].
  cbn [fmap list_fmap fst] in Hnd. apply NoDup_cons in Hnd as [Hnotin Hnd].
  rewrite list_to_map_cons. cbn [fst snd].
  destruct (decide (k = p)) as [->|Hne].
  - rewrite filter_cons_True by reflexivity. rewrite lookup_insert.
    rewrite (IH Hnd), (not_elem_of_list_to_map_1 _ _ Hnotin). reflexivity.
  - rewrite filter_cons_False by exact Hne. rewrite lookup_insert_ne by exact Hne. apply IH, Hnd.
Qed.

Theorem add_results_map_to_list : forall m : filemap, add_results ∅ (map_to_list m) = m.
Proof.
  intros m. apply map_eq; intros p.
  rewrite add_results_empty_lookup, filter_key_nodup by apply NoDup_fst_map_to_list.
  rewrite list_to_map_to_list. destruct (m !! p) as [c|]; [|reflexivity].
  cbn [map snd]. f_equal. unfold agg. cbn [foldl]. apply merge_empty_l.
Qed.

(** * aggregation of a concatenation: full equality, start lines included *)
Lemma add_results_app l1 l2 :
  add_results ∅ (l1 ++ l2) = uw merge (add_results ∅ l1) (add_results ∅ l2).
Proof.
  apply map_eq; intros p. rewrite lookup_uw, !add_results_empty_lookup, filter_app, map_app.
  destruct (map snd (filter (fun r => r.1 = p) l1)) as [|c1 cs1];
    destruct (map snd (filter (fun r => r.1 = p) l2)) as [|c2 cs2]; try reflexivity.
  - rewrite app_nil_r. reflexivity.
  - change (ow merge (Some (agg (c1 :: cs1))) (Some (agg (c2 :: cs2))))
      with (Some (merge (agg (c1 :: cs1)) (agg (c2 :: cs2)))).
    rewrite <- (agg_app (c1 :: cs1) (c2 :: cs2)). reflexivity.
Qed.
Lemma add_results_stage l : add_results ∅ (stage l) = add_results ∅ l.
Proof. apply add_results_map_to_list. Qed.
Lemma add_results_concat_ext {A} (f g : A -> list (name * cov)) ts :
  Forall (fun t => add_results ∅ (f t) = add_results ∅ (g t)) ts ->
  add_results ∅ (concat (map f ts)) = add_results ∅ (concat (map g ts)).
Proof.
  induction 1 as [|t ts Ht _ IH]; [reflexivity|].
  cbn [map concat]. rewrite !add_results_app, Ht, IH. reflexivity.
Qed.

(* the map_to_list order of an intermediate report only permutes records of different files,
   and the per-file order of the shards is kept: the equality holds in full *)
Theorem shard_eq_direct_full : forall shards : list (list (name * cov)),
  add_results ∅ (concat (map stage shards)) = add_results ∅ (concat shards).
Proof.
  intros shards.
  transitivity (add_results ∅ (concat (map id shards))); [|rewrite map_id; reflexivity].
  apply add_results_concat_ext. apply Forall_forall. intros l _. apply add_results_stage.
Qed.
Theorem shard_eq_direct : forall shards : list (list (name * cov)),
  obs_map (add_results ∅ (concat (map stage shards))) = obs_map (add_results ∅ (concat shards)).
Proof. intros shards. rewrite shard_eq_direct_full. reflexivity. Qed.

(* any nesting depth *)
Inductive stree := SLeaf (inputs : list (name * cov)) | SNode (children : list stree).
Fixpoint flat (t : stree) : list (name * cov) :=
  match t with SLeaf l => l | SNode ts => concat (map flat ts) end.
Fixpoint eval_stree (t : stree) : list (name * cov) :=
  match t with SLeaf l => stage l | SNode ts => stage (concat (map eval_stree ts)) end.

Lemma stree_ind' (P : stree -> Prop) :
  (forall l, P (SLeaf l)) -> (forall ts, Forall P ts -> P (SNode ts)) -> forall t, P t.
Proof.
  intros Hl Hn. fix IH 1. intros [l|ts]; [apply Hl|]. apply Hn.
  induction ts as [|t ts IHts]; constructor; [apply IH|exact IHts].
Qed.

Theorem shard_tree_full : forall t, add_results ∅ (eval_stree t) = add_results ∅ (flat t).
Proof.
  induction t as [l|ts IH] using stree_ind'.
  - apply add_results_stage.
  - cbn [eval_stree flat]. rewrite add_results_stage. apply add_results_concat_ext, IH.
Qed.
Theorem shard_tree : forall t, obs_map (add_results ∅ (eval_stree t)) = obs_map (add_results ∅ (flat t)).
Proof. intros t. rewrite shard_tree_full. reflexivity. Qed.

Print Assumptions add_results_map_to_list.
Print Assumptions shard_eq_direct.
Print Assumptions shard_eq_direct_full.
Print Assumptions shard_tree.
Print Assumptions shard_tree_full.
