(* read_gcda is additive: reading a gcda into (a + x) is reading it into x and adding a afterwards.
   Hence the state after a list of gcda does not depend on their order, and k copies add k times. *)
From Grcov Require Import Model.GcnoCount Proofs.GcnoBase Proofs.GcnoShape.
From Coq Require Import ZifyBool ZifyN ZifyNat.
Ltac Zify.zify_post_hook ::= Z.div_mod_to_equations.

Definition omap {A B} (f : A -> B) (o : outcome A) : outcome B :=
  match o with Ok a => Ok (f a) | Err => Err | Panic => Panic | OutOfFuel => OutOfFuel end.

Lemma rev_zip_with {A B C} (f : A -> B -> C) l k :
  length l = length k -> rev (zip_with f l k) = zip_with f (rev l) (rev k).
Proof.
  revert k. induction l as [|x l IH]; intros [|y k]; cbn [length]; try done. intros [= H].
  cbn [rev zip_with]. rewrite IH by done. rewrite zip_with_app; [done|by rewrite !rev_length].
Qed.
Lemma nthN_zip_with {A B C} (f : A -> B -> C) l k i :
  nthN (zip_with f l k) i = match nthN l i, nthN k i with Some x, Some y => Some (f x y) | _, _ => None end.
Proof.
  revert k i. induction l as [|x l IH]; intros k i; [done|].
  destruct k as [|y k].
  - cbn [zip_with]. by destruct (nthN (x :: l) i).
  - cbn [zip_with nthN]. destruct (i =? 0); [done|apply IH].
Qed.
Lemma alterN_zip_with_r {A B} (f : A -> B -> B) (g : B -> B) l k i :
  (forall a b, f a (g b) = g (f a b)) -> alterN g i (zip_with f l k) = zip_with f l (alterN g i k).
Proof.
  intros H. revert k i. induction l as [|x l IH]; intros [|y k] i; cbn [zip_with alterN]; try done.
  destruct (i =? 0); cbn [zip_with]; [by rewrite H|by rewrite IH].
Qed.

Section arith.
Context (W : N -> N).
Hypothesis HW1 : forall x y, W (W x + y) = W (x + y).
Lemma HW2 x y : W (x + W y) = W (x + y).
Proof. by rewrite (N.add_comm x (W y)), HW1, N.add_comm. Qed.

(* (a + x): shape and every non-counter field from x, cycles from a *)
Definition eadd (a x : gedge) : gedge := mkEdge (e_src x) (e_dst x) (e_flags x) (W (e_counter a + e_counter x)) (e_cycles a).
Definition badd (a x : gblock) : gblock := mkBlock (b_no x) (b_src x) (b_dst x) (b_lines x) (b_line_max x) (W (b_counter a + b_counter x)).
Definition fadd (a x : gfun) : gfun :=
  set_graph x (zip_with badd (f_blocks a) (f_blocks x)) (zip_with eadd (f_edges a) (f_edges x)) (f_real x).
Definition gadd (a x : gcno) : gcno :=
  mkGcno (g_version x) (g_checksum x) (zip_with fadd (g_funs a) (g_funs x))
         (wrap32 (g_runs a + g_runs x)) (wrap32 (g_programs a + g_programs x)).

Lemma add_counters_frame le ta tx da dx ba bx l :
  length ta = length tx -> length da = length dx -> length ba = length bx ->
  add_counters W le (zip_with eadd ta tx) (zip_with eadd da dx) (zip_with badd ba bx) l =
  omap (fun '(ed, bl, l') => (zip_with eadd (rev da ++ ta) ed, zip_with badd ba bl, l')) (add_counters W le tx dx bx l).
Proof.
  revert tx da dx bx l. induction ta as [|ea ta IH]; intros [|ex tx] da dx bx l Ht Hd Hb; cbn [length] in Ht; try done.
  - cbn [zip_with add_counters omap]. rewrite app_nil_r, rev_zip_with by done. done.
  - injection Ht as Ht. cbn [zip_with add_counters].
    change (is_on_tree (eadd ea ex)) with (is_on_tree ex). destruct (is_on_tree ex).
    + change (eadd ea ex :: zip_with eadd da dx) with (zip_with eadd (ea :: da) (ex :: dx)).
      rewrite (IH tx (ea :: da) (ex :: dx) bx l) by (cbn [length]; lia || done). cbn [rev]. rewrite <- app_assoc. done.
    + destruct (read_counter le l) as [[c l']|]; [|done]. cbn [eadd e_src].
      rewrite nthN_zip_with.
      destruct (nthN bx (e_src ex)) as [b|] eqn:Eb.
      * destruct (nthN_lt ba (e_src ex)) as [b0 ->].
        { apply nthN_Some_lt in Eb. unfold lenN in *. lia. }
        cbn [eadd e_src e_dst e_flags e_counter e_cycles].
        replace (W (W (e_counter ea + e_counter ex) + c)) with (W (e_counter ea + W (e_counter ex + c)))
          by (by rewrite HW1, HW2, N.add_assoc).
        change (mkEdge (e_src ex) (e_dst ex) (e_flags ex) (W (e_counter ea + W (e_counter ex + c))) (e_cycles ea) :: zip_with eadd da dx)
          with (zip_with eadd (ea :: da) (mkEdge (e_src ex) (e_dst ex) (e_flags ex) (W (e_counter ex + c)) (e_cycles ex) :: dx)).
        rewrite alterN_zip_with_r.
        2:{ intros a b1. unfold badd, add_block_counter; cbn. by rewrite HW1, HW2, N.add_assoc. }
        rewrite (IH tx (ea :: da) (mkEdge (e_src ex) (e_dst ex) (e_flags ex) (W (e_counter ex + c)) (e_cycles ex) :: dx) (alterN (add_block_counter W c) (e_src ex) bx) l'); [|done|cbn [length]; lia|]. 2:{ rewrite Hb. by rewrite alterN_alter, alter_length. }
        cbn [rev]. rewrite <- app_assoc. done.
      * by destruct (nthN ba (e_src ex)).
Qed.

Definition same_len (a x : gcno) : Prop :=
  Forall2 (fun fa fx => length (f_blocks fa) = length (f_blocks fx) /\ length (f_edges fa) = length (f_edges fx))
          (g_funs a) (g_funs x).

Lemma find_ident_zip a x id : length (g_funs a) = length (g_funs x) ->
  find_ident id (zip_with fadd (g_funs a) (g_funs x)) = find_ident id (g_funs x).
Proof.
  intros H. unfold find_ident. generalize 0 (@None N). revert H. generalize (g_funs a) (g_funs x).
  induction l as [|fa l IH]; intros [|fx l0]; cbn [length zip_with find_ident_aux]; try done.
  intros [= H] i found. by apply IH.
Qed.

Lemma wrap32_add_l x y z : wrap32 (wrap32 (x + y) + z) = wrap32 (x + wrap32 (y + z)).
Proof. unfold wrap32, two32. lia. Qed.

Lemma zip_fadd_alter la lx fid fa fx bl ed :
  nthN la fid = Some fa -> nthN lx fid = Some fx ->
  alterN (fun f => set_graph f (zip_with badd (f_blocks fa) bl) (zip_with eadd (f_edges fa) ed) (f_real f)) fid (zip_with fadd la lx)
  = zip_with fadd la (alterN (fun f => set_graph f bl ed (f_real f)) fid lx).
Proof.
  revert lx fid. induction la as [|f1 la IH]; intros [|f2 lx] fid; cbn [zip_with alterN nthN]; try done.
  destruct (fid =? 0).
  - intros [= ->] [= ->]. done.
  - intros Ha Hx. cbn [zip_with]. f_equal. by eapply IH.
Qed.
Lemma gadd_alter a x fid bl ed fa fx :
  nthN (g_funs a) fid = Some fa -> nthN (g_funs x) fid = Some fx ->
  set_funs (gadd a x) (alterN (fun f => set_graph f (zip_with badd (f_blocks fa) bl) (zip_with eadd (f_edges fa) ed) (f_real f)) fid (g_funs (gadd a x)))
  = gadd a (set_funs x (alterN (fun f => set_graph f bl ed (f_real f)) fid (g_funs x))).
Proof.
  intros Ha Hx. unfold gadd, set_funs; cbn. f_equal. by eapply zip_fadd_alter.
Qed.

Lemma same_len_alter_list (la lx : list gfun) fid bl ed fx :
  Forall2 (fun fa fx => length (f_blocks fa) = length (f_blocks fx) /\ length (f_edges fa) = length (f_edges fx)) la lx ->
  nthN lx fid = Some fx ->
  length bl = length (f_blocks fx) -> length ed = length (f_edges fx) ->
  Forall2 (fun fa fx => length (f_blocks fa) = length (f_blocks fx) /\ length (f_edges fa) = length (f_edges fx)) la
          (alterN (fun f => set_graph f bl ed (f_real f)) fid lx).
Proof.
  intros Hs. revert fid. induction Hs as [|f1 f2 l1 l2 [H1 H2] Htl IH]; intros fid Hx Hb He; [constructor|].
  cbn [alterN nthN] in *. destruct (fid =? 0).
  - injection Hx as ->. constructor; [|done]. cbn. by rewrite Hb, He.
  - constructor; [done|]. by apply IH.
Qed.
Lemma same_len_alter a x fid bl ed fx :
  same_len a x -> nthN (g_funs x) fid = Some fx ->
  length bl = length (f_blocks fx) -> length ed = length (f_edges fx) ->
  same_len a (set_funs x (alterN (fun f => set_graph f bl ed (f_real f)) fid (g_funs x))).
Proof. intros Hs Hx Hb He. unfold same_len in *; cbn. by eapply same_len_alter_list. Qed.

Lemma add_counters_lengths le todo done blocks l :
  post (fun '(ed, bl, _) => length ed = (length done + length todo)%nat /\ length bl = length blocks)
       (add_counters W le todo done blocks l).
Proof.
  eapply post_mono; [apply (add_counters_shape W)|]. intros [[ed bl] ?] [H1 H2].
  apply (f_equal length) in H1, H2. rewrite !map_length in *. rewrite app_length, rev_length in H1. done.
Qed.

Lemma read_gcda_loop_frame le version fuel a x cur l :
  same_len a x ->
  read_gcda_loop W le version fuel (gadd a x) cur l = omap (gadd a) (read_gcda_loop W le version fuel x cur l).
Proof.
  revert x cur l. induction fuel as [|fuel IH]; intros x cur l Hs; [done|].
  cbn [read_gcda_loop]. destruct (read_u32 le l) as [[tag l1]|]; [|done].
  destruct (tag =? 0); [done|]. destruct (read_u32 le l1) as [[len body]|]; [|done].
  cbv zeta.
  assert (Hlen : length (g_funs a) = length (g_funs x)) by (by eapply Forall2_length).
  destruct (tag =? TAG_FUNCTION).
  { destruct (len =? 0); [by apply IH|]. destruct (len =? 1); [done|].
    destruct (read_u32 le body) as [[id b1]|]; [|done]. destruct (read_u32 le b1) as [[lsum b2]|]; [|done].
    destruct (if 47 <=? version then _ else _) as [csum| | |]; cbn [obind omap]; try done.
    change (g_funs (gadd a x)) with (zip_with fadd (g_funs a) (g_funs x)).
    rewrite find_ident_zip by done. destruct (find_ident id (g_funs x)) as [fid|]; [|done].
    rewrite nthN_zip_with. destruct (nthN (g_funs x) fid) as [fx|] eqn:Hx.
    - destruct (nthN_lt (g_funs a) fid) as [fa ->]; [apply nthN_Some_lt in Hx; unfold lenN in *; lia|].
      change (f_line_sum (fadd fa fx)) with (f_line_sum fx). change (f_cfg_sum (fadd fa fx)) with (f_cfg_sum fx).
      destruct (_ || _); [done|]. destruct (next_record len body); [by apply IH|done].
    - by destruct (nthN (g_funs a) fid). }
  destruct (tag =? TAG_COUNTER_ARCS).
  { destruct cur as [fid|]; [|by apply IH].
    change (g_funs (gadd a x)) with (zip_with fadd (g_funs a) (g_funs x)).
    rewrite nthN_zip_with. destruct (nthN (g_funs x) fid) as [fx|] eqn:Hx; [|by destruct (nthN (g_funs a) fid)].
    destruct (nthN_lt (g_funs a) fid) as [fa Ha]; [apply nthN_Some_lt in Hx; unfold lenN in *; lia|]. rewrite Ha.
    change (f_real (fadd fa fx)) with (f_real fx). destruct (negb _); [done|].
    assert (Hfl : length (f_blocks fa) = length (f_blocks fx) /\ length (f_edges fa) = length (f_edges fx)).
    { unfold same_len in Hs. rewrite !nthN_lookup in *. by destruct (Forall2_lookup_lr _ _ _ _ _ _ Hs Ha Hx). }
    destruct Hfl as [Hfb Hfe].
    change (f_edges (fadd fa fx)) with (zip_with eadd (f_edges fa) (f_edges fx)).
    change (f_blocks (fadd fa fx)) with (zip_with badd (f_blocks fa) (f_blocks fx)).
    change (@nil gedge) with (zip_with eadd [] []) at 1.
    rewrite add_counters_frame by done.
    pose proof (add_counters_lengths le (f_edges fx) [] (f_blocks fx) body) as Hal.
    destruct (add_counters W le (f_edges fx) [] (f_blocks fx) body) as [[[ed bl] l']| | |]; cbn [omap obind]; try done.
    destruct (Hal _ eq_refl) as [Hel Hbl]. cbn [rev app length] in *.
    destruct (next_record len body) as [l2|]; [|done].
    rewrite <- IH by (by eapply same_len_alter). f_equal.
    erewrite <- gadd_alter; [|exact Ha|exact Hx]. done. }
  destruct (tag =? TAG_OBJECT_SUMMARY).
  { destruct (read_u32 le body) as [[rc b1]|]; [|done]. destruct (skip 4 b1) as [b2|]; [|done].
    destruct (if len =? 9 then _ else _) as [r| | |]; cbn [obind omap]; try done.
    destruct (next_record len body) as [l2|]; [|done].
    rewrite <- IH by done. f_equal. unfold gadd; cbn. f_equal. apply wrap32_add_l. }
  destruct (tag =? TAG_PROGRAM_SUMMARY).
  { destruct (0 <? len).
    - destruct (skip 4 body) as [b1|]; [|done]. destruct (skip 4 b1) as [b2|]; [|done].
      destruct (read_u32 le b2) as [[r ?]|]; [|done]. cbn [obind].
      destruct (next_record len body) as [l2|]; [|done].
      rewrite <- IH by done. f_equal. unfold gadd; cbn. f_equal; apply wrap32_add_l.
    - cbn [obind]. destruct (next_record len body) as [l2|]; [|done].
      rewrite <- IH by done. f_equal. unfold gadd; cbn. f_equal. apply wrap32_add_l. }
  destruct (next_record len body) as [l2|]; [by apply IH|done].
Qed.

Lemma read_gcda_frame a x d :
  same_len a x -> read_gcda W (gadd a x) d = omap (gadd a) (read_gcda W x d).
Proof.
  intros Hs. unfold read_gcda. destruct (guess_endianness _ _ _ _ d) as [[le l0]|]; [|done].
  destruct (read_version le l0) as [[v l1]| | |]; cbn [obind omap]; try done.
  change (g_version (gadd a x)) with (g_version x). destruct (negb _); [done|].
  destruct (read_u32 le l1) as [[c l2]|]; [|done].
  change (g_checksum (gadd a x)) with (g_checksum x). destruct (negb _); [done|].
  by apply read_gcda_loop_frame.
Qed.
End arith.
