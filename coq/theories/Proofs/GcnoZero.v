(* C15 no_gcda_all_zero: with no gcda every counter is zero, so no function is executed, every line count is 0
   and every branch is not taken. *)
From Grcov Require Import Model.GcnoCount Proofs.GcnoBase Proofs.GcnoShape.
From Coq Require Import ZifyBool ZifyN ZifyNat.

Definition zero_graph (blocks : list gblock) (edges : list gedge) : Prop :=
  Forall (fun b => b_counter b = 0) blocks /\ Forall (fun e => e_counter e = 0) edges.
Definition zero_fun (f : gfun) : Prop := zero_graph (f_blocks f) (f_edges f).

Ltac pstep :=
  match goal with
  | |- post _ (Ok _) => apply post_Ok
  | |- post _ Err => apply post_Err
  | |- post _ Panic => apply post_Panic
  | |- post _ OutOfFuel => apply post_OutOfFuel
  | |- post _ (match ?x with _ => _ end) => destruct x eqn:?
  end.

(* ---- the gcno reader produces zero counters ---- *)
Lemma push_arc_zero blocks edges src dst flags :
  zero_graph blocks edges -> post (fun '(b', e') => zero_graph b' e') (push_arc blocks edges src dst flags).
Proof.
  intros [Hb He]. unfold push_arc. destruct (nthN blocks src); [|done].
  eapply (post_bind (fun _ => True)); [done|]. intros i _.
  eapply (post_bind (fun _ => True)); [done|]. intros dl _.
  destruct (nthN _ dst); [|done]. apply post_Ok. split.
  - apply Forall_alterN; [apply Forall_alterN; [done|]|]; intros b Hb0; exact Hb0.
  - apply Forall_app; split; [done|]. by repeat constructor.
Qed.

Section reader.
Context (le : bool) (version blen : N).

Lemma read_arcs_zero n src blocks edges real l :
  zero_graph blocks edges -> post (fun '(b', e', _, _) => zero_graph b' e') (read_arcs le n src blocks edges real l).
Proof.
  revert blocks edges real l. induction n as [|n IH]; intros blocks edges real l Hz; cbn [read_arcs]; [by apply post_Ok|].
  repeat pstep. eapply post_bind; [by apply push_arc_zero|]. intros [b' e'] Hz'. by apply IH.
Qed.
Lemma new_blocks_zero n : Forall (fun b => b_counter b = 0) (new_blocks n).
Proof. unfold new_blocks. apply Forall_forall. by intros b [x [-> _]]%elem_of_list_fmap. Qed.
Lemma read_blocks_zero f len total l :
  zero_fun f -> post (fun '(f', _, _) => zero_fun f') (read_blocks le version blen f len total l).
Proof.
  intros [Hb He]. unfold read_blocks. repeat pstep; try by split.
  all: split; [apply Forall_app; split; [done|apply new_blocks_zero]|done].
Qed.
Lemma read_edges_zero f len l : zero_fun f -> post (fun '(f', _) => zero_fun f') (read_edges le f len l).
Proof.
  intros Hz. unfold read_edges. repeat pstep.
  eapply post_bind; [by apply read_arcs_zero|]. intros [[[bl ed] re] l2] Hz'. by apply post_Ok.
Qed.
Lemma read_lines_zero fuel f l : zero_fun f -> post (fun '(f', _) => zero_fun f') (read_lines le version fuel f l).
Proof.
  intros [Hb He]. unfold read_lines. repeat pstep.
  eapply (post_bind (fun _ => True)); [done|]. intros [[ls lm] l2] _. apply post_Ok. split; [|done].
  cbn. apply Forall_alterN; [done|]. intros b0 Hb0; exact Hb0.
Qed.
Lemma read_function_zero l : post (fun '(f, _) => zero_fun f) (read_function le version l).
Proof.
  assert (Hnew : forall a b c d e f g, zero_fun (mkFun a b c d e f g [] [] 0)) by (intros; split; constructor).
  unfold read_function. repeat pstep.
  eapply (post_bind (fun _ => True)); [done|]. intros [csum l3] _.
  eapply (post_bind (fun _ => True)); [done|]. intros [nm l4] _.
  destruct (version <? 80).
  - eapply (post_bind (fun _ => True)); [done|]. intros [file l5] _. repeat pstep. apply Hnew.
  - repeat pstep. eapply (post_bind (fun _ => True)); [done|]. intros [file l6] _. repeat pstep; apply Hnew.
Qed.
Lemma read_functions_zero fuel funs total l :
  Forall zero_fun funs -> post (Forall zero_fun) (read_functions le version blen fuel funs total l).
Proof.
  revert funs total l. induction fuel as [|fuel IH]; intros funs total l Hz; [done|].
  cbn [read_functions]. destruct (read_u32 le l) as [[tag l1]|]; [|by apply post_Ok].
  destruct (tag =? 0); [by apply post_Ok|]. destruct (read_u32 le l1) as [[len l2]|]; [|done].
  destruct (tag =? TAG_FUNCTION).
  { eapply post_bind; [apply read_function_zero|]. intros [f l3] ?. apply IH. by constructor. }
  destruct (tag =? TAG_BLOCKS).
  { destruct funs as [|f fs]; [by apply IH|]. apply Forall_cons in Hz as [? ?].
    eapply post_bind; [by apply read_blocks_zero|]. intros [[f' t'] l3] ?. apply IH. by constructor. }
  destruct (tag =? TAG_ARCS).
  { destruct funs as [|f fs]; [by apply IH|]. apply Forall_cons in Hz as [? ?].
    eapply post_bind; [by apply read_edges_zero|]. intros [f' l3] ?. apply IH. by constructor. }
  destruct (tag =? TAG_LINES).
  { destruct funs as [|f fs]; [by apply IH|]. apply Forall_cons in Hz as [? ?].
    eapply post_bind; [by apply read_lines_zero|]. intros [f' l3] ?. apply IH. by constructor. }
  by apply IH.
Qed.
End reader.

Lemma read_gcno_zero buf : post (fun g => Forall zero_fun (g_funs g)) (read_gcno buf).
Proof.
  unfold read_gcno. destruct (guess_endianness _ _ _ _ buf) as [[le l0]|]; [|done].
  eapply (post_bind (fun _ => True)); [done|]. intros [version l1] _.
  destruct (read_u32 le l1) as [[checksum l2]|]; [|done].
  eapply (post_bind (fun _ => True)); [done|]. intros l3 _.
  eapply (post_bind (fun _ => True)); [done|]. intros l4 _.
  eapply post_bind; [apply read_functions_zero; constructor|]. intros funs Hz. apply post_Ok. cbn. by apply Forall_rev.
Qed.

Section arith.
Context (W : N -> N) (Wsub : N -> N -> N).
Hypothesis HW0 : W 0 = 0.

(* ---- counting on zero counters gives zero counters ---- *)
Definition zero_edges (edges : list gedge) : Prop := Forall (fun e => e_counter e = 0) edges.

Lemma sum_side_zero rec get pred ids edges visited :
  (forall tgt id ed vis, zero_edges ed -> post (fun '(c, ed', _) => c = 0 /\ zero_edges ed') (rec tgt id ed vis)) ->
  zero_edges edges ->
  post (fun '(c, ed', _) => c = 0 /\ zero_edges ed') (sum_side W rec get pred ids 0 edges visited).
Proof.
  intros Hrec. revert edges visited. induction ids as [|id ids IH]; intros edges visited Hz; cbn [sum_side]; [by apply post_Ok|].
  destruct (match pred with Some p => p =? id | None => false end); [by apply IH|].
  destruct (nthN edges id) as [e|] eqn:He; [|done].
  destruct (is_on_tree e).
  - eapply post_bind; [by apply Hrec|]. intros [[c ed'] vis'] [-> Hz']. rewrite N.add_0_l, HW0. by apply IH.
  - unfold zero_edges in Hz. rewrite Forall_forall in Hz. rewrite (Hz e (nthN_elem _ _ _ He)), N.add_0_l, HW0.
    apply IH. by apply Forall_forall.
Qed.
Lemma propagate_zero fuel blocks edges b pred visited :
  zero_edges edges -> post (fun '(c, ed', _) => c = 0 /\ zero_edges ed') (propagate W fuel blocks edges b pred visited).
Proof.
  revert edges b pred visited. induction fuel as [|fuel IH]; intros edges b pred visited Hz; [done|].
  cbn [propagate]. destruct (memN b visited); [by apply post_Ok|].
  destruct (nthN blocks b) as [blk|]; [|done]. cbv zeta.
  eapply post_bind; [apply sum_side_zero; [|done]; intros; by apply IH|].
  intros [[pos ed1] vis1] [-> Hz1].
  eapply post_bind; [apply sum_side_zero; [|done]; intros; by apply IH|].
  intros [[neg ed2] vis2] [-> Hz2]. cbn.
  destruct pred as [id|]; [|by apply post_Ok]. destruct (nthN ed2 id); [|done]. apply post_Ok. split; [done|].
  apply Forall_alterN; [done|]. by intros.
Qed.

Lemma count_on_tree_zero version f : zero_fun f -> post zero_fun (count_on_tree W version f).
Proof.
  intros Hz. unfold count_on_tree. destruct (_ <? 2); [by apply post_Ok|].
  eapply post_bind; [by apply push_arc_zero|]. intros [blocks edges] [Hb He].
  eapply (post_bind (fun '(ed, _) => zero_edges ed)).
  { apply (post_ofold (fun '(ed, _) => zero_edges ed)); [done|]. intros [ed vis] b Hz0 _.
    eapply post_bind; [by apply propagate_zero|]. intros [[c ed'] vis'] [_ ?]. by apply post_Ok. }
  intros [ed' ?] Hz'. eapply (post_bind (Forall (fun b => b_counter b = 0))).
  { unfold add_tree_counts. apply (post_ofold (Forall (fun b => b_counter b = 0))); [done|].
    intros bl e Hbl Hin. destruct (is_on_tree e); [|by apply post_Ok]. destruct (nthN bl (e_src e)); [|done].
    apply post_Ok. apply Forall_alterN; [done|]. intros b0 Hb0. cbn. rewrite Hb0.
    apply elem_of_list_In, in_rev, elem_of_list_In in Hin. unfold zero_edges in Hz'. rewrite Forall_forall in Hz'. by rewrite (Hz' e Hin), N.add_0_l. }
  intros bl' Hbl'. apply post_Ok. by split.
Qed.
Lemma stop_zero g : Forall zero_fun (g_funs g) -> post (fun g' => Forall zero_fun (g_funs g')) (stop W g).
Proof.
  intros Hz. unfold stop. eapply (post_bind (Forall zero_fun)).
  { apply (post_ofold (Forall zero_fun)); [constructor|]. intros acc f Hacc Hin. rewrite Forall_forall in Hz.
    eapply post_bind; [apply count_on_tree_zero; by apply Hz|]. intros f' ?. apply post_Ok. by constructor. }
  intros fs Hfs. apply post_Ok. cbn. by apply Forall_rev.
Qed.

(* ---- finalize on zero counters ---- *)
Definition zero_cov (c : cov) : Prop :=
  map_Forall (fun _ n => n = 0) (c_lines c) /\
  map_Forall (fun _ f => f_exec f = false) (c_funcs c) /\
  map_Forall (fun _ v => Forall (fun b => b = false) v) (c_branches c).

Lemma add_line_count_zero f :
  zero_fun f -> post (fun '(ex, fl) => ex = false) (add_line_count W Wsub f).
Proof.
  intros [_ He]. unfold add_line_count. destruct (f_edges f) as [|e es]; [by apply post_Ok|].
  apply Forall_cons in He as [-> _]. by apply post_Ok.
Qed.
Lemma fin_branches_zero f m :
  map_Forall (fun _ v => Forall (fun b => b = false) v) m ->
  post (map_Forall (fun _ v => Forall (fun b => b = false) v)) (fin_branches f false m).
Proof.
  intros Hm. unfold fin_branches. apply (post_ofold (map_Forall (fun _ v => Forall (fun b => b = false) v))); [done|].
  intros m0 blk Hm0 _. eapply (post_bind (fun _ => True)); [done|]. intros line _.
  destruct (line =? 0); [by apply post_Ok|].
  eapply (post_bind (Forall (fun b => b = false))).
  { unfold branch_taken. eapply (post_bind (Forall (fun b => b = false))); [|intros r Hr; apply post_Ok; by apply Forall_rev].
    apply (post_ofold (Forall (fun b => b = false))); [constructor|]. intros acc no Hacc _.
    destruct (nthN (f_edges f) no); [|done]. apply post_Ok. destruct (is_fake g); [done|]. by constructor. }
  intros taken Ht. destruct (_ <=? _)%nat; apply post_Ok; [done|].
  apply map_Forall_insert_2; [|done]. apply Forall_app; split; [|done].
  destruct (m0 !! line) eqn:E; cbn; [by apply (Hm0 _ _ E)|constructor].
Qed.
Lemma fin_fun_zero br res f :
  zero_fun f -> map_Forall (fun _ c => zero_cov c) res -> post (map_Forall (fun _ c => zero_cov c)) (fin_fun W Wsub br res f).
Proof.
  intros Hz Hres. unfold fin_fun. eapply post_bind; [by apply add_line_count_zero|]. intros [ex fl] ->.
  assert (Hc : zero_cov (default empty_cov (res !! f_file f))).
  { destruct (res !! f_file f) eqn:E; cbn; [by apply (Hres _ _ E)|]. repeat split; apply map_Forall_empty. }
  destruct Hc as (Hl & Hf & Hb).
  eapply (post_bind (map_Forall (fun _ v => Forall (fun b => b = false) v))).
  { destruct br; [by apply fin_branches_zero|by apply post_Ok]. }
  intros branches Hbr. apply post_Ok. apply map_Forall_insert_2; [|done]. repeat split; cbn; [|by apply map_Forall_insert_2|done].
  intros line n. rewrite lookup_union_with, lookup_fmap.
  destruct (c_lines _ !! line) as [x|] eqn:E1, (fl !! line) as [y|] eqn:E2; cbn; intros [= <-]; try done.
  all: by apply (Hl _ _ E1).
Qed.
Lemma finalize_zero br g :
  Forall zero_fun (g_funs g) -> post (map_Forall (fun _ c => zero_cov c)) (finalize W Wsub br g).
Proof.
  intros Hz. unfold finalize. apply (post_ofold (map_Forall (fun _ c => zero_cov c))); [apply map_Forall_empty|].
  intros res f Hres Hin. rewrite Forall_forall in Hz. apply fin_fun_zero; [by apply Hz|done].
Qed.

Theorem no_gcda_all_zero gcno_buf br m :
  compute_map_gen W Wsub gcno_buf [] br = Ok m -> map_Forall (fun _ c => zero_cov c) m.
Proof.
  unfold compute_map_gen. cbn [ofold]. intros H. revert m H. change (post (map_Forall (fun _ c => zero_cov c))
    (let* g := read_gcno gcno_buf in let* g1 := Ok g in let* g2 := stop W g1 in finalize W Wsub br g2)).
  eapply post_bind; [apply read_gcno_zero|]. intros g Hg. cbn [obind].
  eapply post_bind; [by apply stop_zero|]. intros g2 Hg2. by apply finalize_zero.
Qed.
End arith.
