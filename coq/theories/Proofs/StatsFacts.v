(* Lemmas about Model/Stats.v (C13). *)
From Grcov Require Import Model.Stats.
From Coq Require Import ZifyBool ZifyN ZifyNat Lqa.
Import Coq.Strings.String.StringSyntax.

(* ---------- counting ---------- *)
Lemma nlen_filter_le {A} (P : A -> Prop) `{forall x, Decision (P x)} (l : list A) : nlen (filter P l) <= nlen l.
Proof. unfold nlen. pose proof (filter_length P l). lia. Qed.

Lemma count_true_le (l : list bool) : count_true l <= nlen l.
Proof. unfold count_true. apply (nlen_filter_le (fun b => b = true)). Qed.

Lemma nlen_app {A} (l k : list A) : nlen (l ++ k) = nlen l + nlen k.
Proof. unfold nlen. rewrite app_length. lia. Qed.

Lemma count_true_app (l k : list bool) : count_true (l ++ k) = count_true l + count_true k.
Proof. unfold count_true. rewrite filter_app, app_length. lia. Qed.

Lemma branch_total_sum (bl : list (N * list bool)) : branch_total bl = sumN (map (fun p => nlen p.2) bl).
Proof.
  unfold branch_total. induction bl as [|[l v] bl IH]; [reflexivity|].
  cbn [map concat snd sumN foldr]. rewrite nlen_app. unfold sumN in IH. rewrite IH. reflexivity.
Qed.
Lemma branch_hit_sum (bl : list (N * list bool)) : branch_hit bl = sumN (map (fun p => count_true p.2) bl).
Proof.
  unfold branch_hit. induction bl as [|[l v] bl IH]; [reflexivity|].
  cbn [map concat snd sumN foldr]. rewrite count_true_app. unfold sumN in IH. rewrite IH. reflexivity.
Qed.

Lemma filter_ext_in {A} (P1 P2 : A -> Prop) `{forall x, Decision (P1 x)} `{forall x, Decision (P2 x)} (l : list A) :
  (forall x, x ∈ l -> P1 x <-> P2 x) -> filter P1 l = filter P2 l.
Proof.
  induction l as [|x l IH]; intros Hl; [reflexivity|].
  rewrite !filter_cons. rewrite IH by (intros; apply Hl; right; assumption).
  destruct (decide (P1 x)) as [p|p], (decide (P2 x)) as [q|q]; try reflexivity; exfalso; apply (Hl x (elem_of_list_here _ _)) in p || apply (Hl x (elem_of_list_here _ _)) in q; contradiction.
Qed.

(* ---------- lcov ---------- *)
Lemma lcov_summary_facts (c : cov) :
  let s := lcov_summary c in
  s_LF s = N.of_nat (size (c_lines c)) /\
  s_LH s = nlen (filter (fun p => 0 <? p.2 = true) (map_to_list (c_lines c))) /\
  s_BRF s = sumN (map (fun p => nlen p.2) (map_to_list (c_branches c))) /\
  s_BRH s = sumN (map (fun p => count_true p.2) (map_to_list (c_branches c))) /\
  s_FN s = (if decide (c_funcs c = ∅) then None
            else Some (N.of_nat (size (c_funcs c)),
                       nlen (filter (fun p => f_exec p.2 = true) (map_to_list (c_funcs c))))) /\
  s_LH s <= s_LF s /\ s_BRH s <= s_BRF s /\
  (forall f h, s_FN s = Some (f, h) -> h <= f).
Proof.
  cbn zeta. unfold lcov_summary. cbn [s_LF s_LH s_BRF s_BRH s_FN].
  split_and!.
  - reflexivity.
  - reflexivity.
  - apply branch_total_sum.
  - apply branch_hit_sum.
  - destruct (decide (c_funcs c = ∅)) as [E|E].
    + rewrite E, map_to_list_empty. reflexivity.
    + destruct (map_to_list (c_funcs c)) eqn:El.
      * apply map_to_list_empty_iff in El. contradiction.
      * rewrite <- El. reflexivity.
  - apply (nlen_filter_le (fun p : N * N => 0 <? p.2 = true)).
  - unfold branch_hit, branch_total. apply count_true_le.
  - intros f h. destruct (map_to_list (c_funcs c)) eqn:El; [discriminate|].
    intros [= <- <-]. apply (nlen_filter_le (fun p : name * func => f_exec p.2 = true)).
Qed.

(* the numbers of lcov_summary are the ones output_lcov writes (Model/LcovOut.v) *)
Lemma lcov_summary_written (r : name * cov) :
  let s := lcov_summary r.2 in
  out_lines (map_to_list (c_lines r.2)) =
    concat (map (fun '(l, c) => ln "DA:" (print_dec l ++ [44] ++ print_dec c)) (map_to_list (c_lines r.2))) ++
    ln "LF:" (print_dec (s_LF s)) ++ ln "LH:" (print_dec (s_LH s)) /\
  out_branches (map_to_list (c_branches r.2)) =
    concat (map (fun '(l, v) => out_branch_line l v) (map_to_list (c_branches r.2))) ++
    ln "BRF:" (print_dec (s_BRF s)) ++ ln "BRH:" (print_dec (s_BRH s)).
Proof. split; reflexivity. Qed.

(* ---------- covdir ---------- *)
Definition cd_ok (st : cdstats) : Prop := cd_covered st + cd_missed st = cd_total st.

Lemma cd_file_stats_facts (m : gmap N N) :
  let st := cd_file_stats m in
  cd_total st = N.of_nat (size m) /\
  cd_covered st = nlen (filter (fun p => (1 <=? p.1) && (0 <? p.2) = true) (map_to_list m)) /\
  cd_covered st <= cd_total st /\
  cd_missed st = cd_total st - cd_covered st /\
  cd_covered st + cd_missed st = cd_total st.
Proof.
  cbn zeta. unfold cd_file_stats, cdstats_new. cbn [cd_total cd_covered cd_missed].
  pose proof (nlen_filter_le (fun p : N * N => (1 <=? p.1) && (0 <? p.2) = true) (map_to_list m)) as Hle.
  split_and!; try reflexivity; try lia.
Qed.

(* when every line number is >= 1 (the property's domain) covered is the number of lines with a positive count *)
Lemma cd_file_covered_pos (m : gmap N N) :
  (forall k c, m !! k = Some c -> 1 <= k) ->
  cd_covered (cd_file_stats m) = covered_lines (map_to_list m).
Proof.
  intros Hk. unfold cd_file_stats, cdstats_new, covered_lines. cbn [cd_covered]. f_equal.
  apply filter_ext_in. intros [k c] Hin.
  apply elem_of_map_to_list in Hin. apply Hk in Hin. cbn [fst snd]. split; intros; [|]; lia.
Qed.

Lemma cd_ok_file m : cd_ok (cd_file_stats m).
Proof. unfold cd_ok. apply cd_file_stats_facts. Qed.
Lemma cd_ok_add a b : cd_ok a -> cd_ok b -> cd_ok (cdstats_add a b).
Proof. unfold cd_ok, cdstats_add. cbn [cd_total cd_covered cd_missed]. lia. Qed.
Lemma cd_ok_foldl l : forall a, cd_ok a -> Forall cd_ok l -> cd_ok (foldl cdstats_add a l).
Proof.
  induction l as [|x l IH]; intros a Ha Hl; [exact Ha|].
  inversion Hl; subst. cbn [foldl]. apply IH; [apply cd_ok_add|]; assumption.
Qed.

(* a usable induction principle for the nested tree *)
Lemma cdtree_ind' (P : cdtree -> Prop) :
  (forall nm fs ds, Forall P ds -> P (CDNode nm fs ds)) -> forall t, P t.
Proof.
  intros H. fix IH 1. intros [nm fs ds]. apply H.
  induction ds as [|d ds IHds]; constructor; [apply IH|exact IHds].
Qed.

Lemma cd_set_stats_ok t : cd_ok (cd_set_stats t).
Proof.
  induction t as [nm fs ds IH] using cdtree_ind'. cbn [cd_set_stats].
  apply cd_ok_foldl.
  - apply cd_ok_foldl; [unfold cd_ok; reflexivity|]. apply Forall_map, Forall_forall. intros. apply cd_ok_file.
  - apply Forall_map. exact IH.
Qed.

(* projections of a fold of CDStats::add *)
Lemma cd_foldl_proj (f : cdstats -> N) :
  (forall a b, f (cdstats_add a b) = f a + f b) ->
  forall l a, f (foldl cdstats_add a l) = f a + sumN (map f l).
Proof.
  intros Hf. induction l as [|x l IH]; intros a; cbn [foldl map sumN foldr]; [lia|].
  rewrite IH, Hf. unfold sumN. lia.
Qed.
Lemma sumN_app l k : sumN (l ++ k) = sumN l + sumN k.
Proof. unfold sumN. induction l; cbn [app foldr]; lia. Qed.
Lemma sumN_concat_map {A} (g : A -> list N) (l : list A) : sumN (concat (map g l)) = sumN (map (fun x => sumN (g x)) l).
Proof. induction l as [|x l IH]; [reflexivity|]. cbn [map concat]. rewrite sumN_app, IH. reflexivity. Qed.

(* the stats of a directory are the sums over ALL files below it (up to the root) *)
Lemma cd_set_stats_all (f : cdstats -> N) :
  (forall a b, f (cdstats_add a b) = f a + f b) -> f cd0 = 0 ->
  forall t, f (cd_set_stats t) = sumN (map (fun m => f (cd_file_stats m)) (cd_all_files t)).
Proof.
  intros Hf H0. induction t as [nm fs ds IH] using cdtree_ind'.
  cbn [cd_set_stats cd_all_files].
  rewrite !(cd_foldl_proj f Hf), H0, map_app, sumN_app, !map_map. cbn [snd].
  rewrite N.add_0_l. f_equal.
  rewrite concat_map, map_map, sumN_concat_map.
  f_equal. induction IH as [|d ds Hd _ IHds]; [reflexivity|]. cbn [map]. rewrite Hd, IHds. reflexivity.
Qed.

(* ---------- cobertura ---------- *)
Lemma cob_from_lines_le ls :
  lines_covered (cob_from_lines ls) <= lines_valid (cob_from_lines ls) /\
  branches_covered (cob_from_lines ls) <= branches_valid (cob_from_lines ls).
Proof.
  unfold cob_from_lines. cbn [lines_covered lines_valid branches_covered branches_valid]. split.
  - apply (nlen_filter_le (fun l : N * N * option (list bool) => 0 <? l.1.2 = true)).
  - apply count_true_le.
Qed.
Lemma cob_foldl_proj (f : cobstats -> N) :
  (forall a b, f (cob_add a b) = f a + f b) ->
  forall l a, f (foldl cob_add a l) = f a + sumN (map f l).
Proof.
  intros Hf. induction l as [|x l IH]; intros a; cbn [foldl map sumN foldr]; [lia|].
  rewrite IH, Hf. unfold sumN. lia.
Qed.
Lemma sumN_le_pointwise {A} (f g : A -> N) (l : list A) :
  Forall (fun x => f x <= g x) l -> sumN (map f l) <= sumN (map g l).
Proof. induction 1; cbn [map sumN foldr]; [lia|]. unfold sumN in *. lia. Qed.

(* ---------- html ---------- *)
Lemma hs_foldl_proj (f : hstats -> N) :
  (forall a b, f (hs_add a b) = f a + f b) ->
  forall l a, f (foldl hs_add a l) = f a + sumN (map f l).
Proof.
  intros Hf. induction l as [|x l IH]; intros a; cbn [foldl map sumN foldr]; [lia|].
  rewrite IH, Hf. unfold sumN. lia.
Qed.
Lemma html_get_stats_le c :
  let s := html_get_stats c in h_cl s <= h_tl s /\ h_cf s <= h_tf s /\ h_cb s <= h_tb s.
Proof.
  cbn zeta. unfold html_get_stats. cbn [h_cl h_tl h_cf h_tf h_cb h_tb]. split_and!.
  - apply (nlen_filter_le (fun p : N * N => 0 <? p.2 = true)).
  - apply (nlen_filter_le (fun p : name * func => f_exec p.2 = true)).
  - apply count_true_le.
Qed.
Lemma hs_add_0_l s : hs_add hs0 s = s.
Proof. destruct s. unfold hs_add, hs0. cbn. f_equal; lia. Qed.

(* the stats of directory d are the sum over the reported files whose parent is d *)
Lemma html_dirs_lookup (fs : list (name * hstats)) (d : name) :
  html_dirs fs !! d =
    match filter (fun f => f.1 = d) fs with
    | [] => None
    | l => Some (foldl hs_add hs0 (map snd l))
    end.
Proof.
  unfold html_dirs. induction fs as [|f fs IH] using rev_ind; [reflexivity|].
  rewrite foldl_snoc, filter_app. unfold html_dir_step at 1.
  destruct (decide (f.1 = d)) as [E|E].
  - rewrite E, lookup_partial_alter, IH.
    rewrite (filter_cons_True (fun f => f.1 = d)) by exact E. rewrite filter_nil.
    destruct (filter (fun f => f.1 = d) fs) as [|x l].
    + cbn. rewrite hs_add_0_l. reflexivity.
    + cbn [app map foldl]. rewrite map_app, foldl_app. cbn [map foldl]. reflexivity.
  - rewrite lookup_partial_alter_ne by exact E. rewrite IH.
    rewrite (filter_cons_False (fun f => f.1 = d)) by exact E. rewrite filter_nil, app_nil_r. reflexivity.
Qed.

(* ---------- rates ---------- *)
Open Scope Q_scope.
Lemma NQ_nonneg n : 0 <= NQ n.
Proof. unfold NQ. change 0 with (inject_Z 0). rewrite <- Zle_Qle. lia. Qed.
Lemma NQ_pos n : (0 < n)%N -> 0 < NQ n.
Proof. intros. unfold NQ. change 0 with (inject_Z 0). rewrite <- Zlt_Qlt. lia. Qed.
Lemma NQ_le a b : (a <= b)%N -> NQ a <= NQ b.
Proof. intros. unfold NQ. rewrite <- Zle_Qle. lia. Qed.
Lemma pow10_pos p : 0 < pow10 p.
Proof.
  unfold pow10. change 0 with (inject_Z 0). rewrite <- Zlt_Qlt.
  assert (0 < 10 ^ p)%N by (apply N.neq_0_lt_0, N.pow_nonzero; lia). lia.
Qed.

(* x / y lies in [0,1] when x <= y, 0 < y *)
Lemma ratio_range x y : (x <= y)%N -> (0 < y)%N -> 0 <= NQ x / NQ y /\ NQ x / NQ y <= 1.
Proof.
  intros Hxy Hy. pose proof (NQ_pos y Hy) as Hp. pose proof (NQ_nonneg x) as Hx. pose proof (NQ_le x y Hxy) as Hl.
  split.
  - apply Qle_shift_div_l; [exact Hp|]. lra.
  - apply Qle_shift_div_r; [exact Hp|]. lra.
Qed.

(* f64::round to the nearest integer: at most 1/2 away *)
Lemma qround_near q : inject_Z (qround q) <= q + (1 # 2) /\ q - (1 # 2) < inject_Z (qround q).
Proof.
  unfold qround. pose proof (Qfloor_le (q + (1 # 2))) as H1. pose proof (Qlt_floor (q + (1 # 2))) as H2.
  rewrite inject_Z_plus in H2. change (inject_Z 1) with 1 in H2. split; lra.
Qed.
Lemma qround_mono a b : a <= b -> (qround a <= qround b)%Z.
Proof. intros. unfold qround. apply Qfloor_resp_le. lra. Qed.
Lemma qround_Z z : qround (inject_Z z) = z.
Proof.
  unfold qround. pose proof (Qfloor_le (inject_Z z + (1 # 2))) as H1. pose proof (Qlt_floor (inject_Z z + (1 # 2))) as H2.
  set (f := Qfloor (inject_Z z + (1 # 2))) in *.
  assert (inject_Z f < inject_Z z + 1) by lra. assert (inject_Z z - 1 < inject_Z f).
  { rewrite inject_Z_plus in H2. change (inject_Z 1) with 1 in H2. lra. }
  change 1 with (inject_Z 1) in *. rewrite <- inject_Z_plus in H. rewrite <- Zlt_Qlt in H.
  assert (inject_Z (z - 1) < inject_Z f) as H3. { unfold Z.sub. rewrite inject_Z_plus. exact H0. }
  rewrite <- Zlt_Qlt in H3. lia.
Qed.

(* rounding to p decimals moves a number by at most half a unit of the last printed digit *)
Lemma round_to_near p q :
  round_to p q <= q + (1 # 2) / pow10 p /\ q - (1 # 2) / pow10 p <= round_to p q.
Proof.
  unfold round_to. pose proof (pow10_pos p) as Hp. destruct (qround_near (q * pow10 p)) as [H1 H2].
  split.
  - apply Qle_shift_div_r; [exact Hp|].
    assert ((q + (1 # 2) / pow10 p) * pow10 p == q * pow10 p + (1 # 2)) as -> by (field; lra). exact H1.
  - apply Qle_shift_div_l; [exact Hp|].
    assert ((q - (1 # 2) / pow10 p) * pow10 p == q * pow10 p - (1 # 2)) as -> by (field; lra). lra.
Qed.
(* and keeps it inside [0, b] for an integer bound b *)
Lemma round_to_range p q (b : Z) : 0 <= q -> q <= inject_Z b -> 0 <= round_to p q /\ round_to p q <= inject_Z b.
Proof.
  intros H0 Hb. unfold round_to. pose proof (pow10_pos p) as Hp. split.
  - apply Qle_shift_div_l; [exact Hp|]. rewrite Qmult_0_l.
    change 0 with (inject_Z 0). rewrite <- Zle_Qle. rewrite <- (qround_Z 0). apply qround_mono.
    change (inject_Z 0) with 0. apply Qmult_le_0_compat; lra.
  - apply Qle_shift_div_r; [exact Hp|].
    unfold pow10 at 2. rewrite <- inject_Z_mult, <- Zle_Qle.
    rewrite <- (qround_Z (b * Z.of_N (10 ^ p))). apply qround_mono.
    rewrite inject_Z_mult. fold (pow10 p). apply Qmult_le_compat_r; lra.
Qed.

(* what C13 asks of a printed rate: a number, inside [0, bound], within half a unit of the last printed digit of the exact value *)
Definition rate_spec (r : rate) (exact : Q) (p : N) (bound : Z) : Prop :=
  exists q, r = RNum q /\ 0 <= q /\ q <= inject_Z bound /\
            q <= exact + (1 # 2) / pow10 p /\ exact - (1 # 2) / pow10 p <= q.

Lemma pow10_plus2 p : pow10 (p + 2) == 100 * pow10 p.
Proof.
  unfold pow10. rewrite N.pow_add_r. change (10 ^ 2)%N with 100%N.
  rewrite N2Z.inj_mul, inject_Z_mult. change (inject_Z (Z.of_N 100)) with 100. ring.
Qed.
Lemma percent_range x y : (x <= y)%N -> (0 < y)%N -> 0 <= NQ x / NQ y * 100 /\ NQ x / NQ y * 100 <= inject_Z 100.
Proof. intros H1 H2. destruct (ratio_range x y H1 H2). change (inject_Z 100) with 100. split; lra. Qed.

Lemma round_to_spec p q (b : Z) : 0 <= q -> q <= inject_Z b -> rate_spec (RNum (round_to p q)) q p b.
Proof.
  intros H0 Hb. exists (round_to p q). destruct (round_to_range p q b H0 Hb), (round_to_near p q). auto.
Qed.

Lemma covdir_percent_spec x y p : (x <= y)%N -> (0 < y)%N -> rate_spec (covdir_percent x y p) (NQ x / NQ y * 100) p 100.
Proof.
  intros H1 H2. unfold covdir_percent. replace (y =? 0)%N with false by lia.
  destruct (percent_range x y H1 H2) as [Ha Hb].
  destruct (round_to_spec p _ 100 Ha Hb) as (q & [= <-] & Hq).
  eexists. split; [reflexivity|].
  assert (inject_Z (qround (NQ x / NQ y * pow10 (p + 2))) / pow10 p == round_to p (NQ x / NQ y * 100)) as ->; [|exact Hq].
  unfold round_to. apply Qdiv_comp; [|reflexivity]. apply inject_Z_injective. unfold qround. apply Qfloor_comp.
  rewrite pow10_plus2. ring.
Qed.
Lemma html_shown_spec x y p : (x <= y)%N -> (0 < y)%N -> rate_spec (html_shown x y p) (NQ x / NQ y * 100) p 100.
Proof.
  intros H1 H2. unfold html_shown, html_percent. replace (y =? 0)%N with false by lia.
  destruct (percent_range x y H1 H2). apply round_to_spec; assumption.
Qed.
Lemma NQ_mul100 x : NQ (x * 100) == NQ x * 100.
Proof. unfold NQ. rewrite N2Z.inj_mul, inject_Z_mult. reflexivity. Qed.
Lemma markdown_percent_spec x y p : (x <= y)%N -> (0 < y)%N -> rate_spec (markdown_percent x y p) (NQ x / NQ y * 100) p 100.
Proof.
  intros H1 H2. unfold markdown_percent. replace (y =? 0)%N with false by lia.
  destruct (percent_range x y H1 H2) as [Ha Hb].
  assert (NQ (x * 100) / NQ y == NQ x / NQ y * 100) as E.
  { rewrite NQ_mul100. pose proof (NQ_pos y H2). field. lra. }
  destruct (round_to_spec p (NQ (x * 100) / NQ y) 100) as (q & Eq & Hq); [rewrite E; assumption..|].
  exists q. split; [exact Eq|]. rewrite <- E. exact Hq.
Qed.
Lemma cobertura_rate_spec x y : (x <= y)%N -> (0 < y)%N ->
  exists q, cobertura_rate x y = RNum q /\ q == NQ x / NQ y /\ 0 <= q /\ q <= 1.
Proof.
  intros H1 H2. unfold cobertura_rate. replace (0 <? y)%N with true by lia.
  destruct (ratio_range x y H1 H2). eexists. split; [reflexivity|]. split; [reflexivity|]. auto.
Qed.
Lemma ade_percent_spec c u : (0 < c + u)%N ->
  exists q, ade_percent c u = RNum q /\ q == NQ c / NQ (c + u) /\ 0 <= q /\ q <= 1.
Proof.
  intros H. unfold ade_percent, fdiv. replace (c + u =? 0)%N with false by lia.
  destruct (ratio_range c (c + u)); [lia|lia|]. eexists. split; [reflexivity|]. split; [reflexivity|]. auto.
Qed.

(* the decision each format takes when the total is zero *)
Lemma rate_total_zero x p :
  covdir_percent x 0 p = RNum 0 /\ cobertura_rate x 0 = RNum 0 /\ html_percent x 0 = RNum 100 /\
  html_shown x 0 p = RNum (round_to p 100) /\ badge_percent x 0 = Some 100%Z /\
  markdown_percent x 0 p = RNum (round_to p 100) /\ ade_percent 0 0 = RNaN.
Proof. repeat split. Qed.
Lemma round_to_100 p : round_to p 100 == 100.
Proof.
  unfold round_to. assert (100 * pow10 p == inject_Z (100 * Z.of_N (10 ^ p))) as E.
  { rewrite inject_Z_mult. reflexivity. }
  assert (qround (100 * pow10 p) = (100 * Z.of_N (10 ^ p))%Z) as ->.
  { unfold qround. rewrite (Qfloor_comp _ _ (Qplus_comp _ _ E _ _ (Qeq_refl _))). apply qround_Z. }
  rewrite inject_Z_mult. fold (pow10 p). change (inject_Z 100) with 100. pose proof (pow10_pos p). field. lra.
Qed.
Lemma rate_always_finite x y p :
  is_finite (covdir_percent x y p) = true /\ is_finite (cobertura_rate x y) = true /\
  is_finite (html_percent x y) = true /\ is_finite (html_shown x y p) = true.
Proof.
  unfold covdir_percent, cobertura_rate, html_shown, html_percent.
  destruct (y =? 0)%N, (0 <? y)%N; repeat split.
Qed.
Close Scope Q_scope.
