(* The state reached by folding apply_rec over the records of a section is what the
   section says (spec_line / spec_branch / spec_func), and the meaning is order-free. *)
From Grcov Require Import Model.Lcov Model.LcovSpec Proofs.MergeFacts Proofs.LcovStep Proofs.LcovRecs.
From Coq Require Import ZifyBool ZifyN ZifyNat.
Ltac Zify.zify_post_hook ::= Z.div_mod_to_equations.

(** * generic list facts *)
Lemma forallb_Forall {A} (f : A -> bool) l : forallb f l = true -> Forall (fun x => f x = true) l.
Proof.
  induction l as [|x l IH]; simpl; [constructor|].
  intros H. apply andb_true_iff in H as [Hx Hl]. constructor; auto.
Qed.
Lemma existsb_Exists {A} (f : A -> bool) l : existsb f l = true <-> Exists (fun x => f x = true) l.
Proof.
  induction l as [|x l IH]; simpl.
  - rewrite Exists_nil. split; [discriminate|tauto].
  - rewrite Exists_cons, orb_true_iff, IH. tauto.
Qed.
Lemma bool_list_eq (v w : list bool) :
  length v = length w ->
  (forall i : nat, v !! i = Some true <-> w !! i = Some true) -> v = w.
Proof.
  revert w; induction v as [|x v IH]; intros [|y w] Hlen H; simpl in Hlen; try discriminate; [reflexivity|].
  f_equal.
  - specialize (H 0%nat). simpl in H. destruct x, y; try reflexivity.
    + destruct H as [H _]. specialize (H eq_refl). congruence.
    + destruct H as [_ H]. specialize (H eq_refl). congruence.
  - apply IH; [lia|]. intros i. apply (H (S i)).
Qed.
Lemma lookup_pad (k : nat) (t : bool) (i : nat) :
  (replicate k false ++ [t]) !! i = Some true <-> i = k /\ t = true.
Proof.
  destruct (lt_eq_lt_dec i k) as [[Hlt|Heq]|Hgt].
  - rewrite lookup_app_l by (rewrite replicate_length; lia).
    rewrite lookup_replicate_2 by lia. split; [discriminate|lia].
  - subst i. rewrite lookup_app_r by (rewrite replicate_length; lia).
    rewrite replicate_length, Nat.sub_diag. simpl. split; [intros [= ->]; auto|intros [_ ->]; reflexivity].
  - rewrite lookup_app_r by (rewrite replicate_length; lia).
    rewrite replicate_length. destruct (i - k)%nat as [|j] eqn:E; [lia|]. simpl.
    split; [discriminate|lia].
Qed.

(** * fields that records never touch *)
Lemma apply_rec_file b st r : p_file (apply_rec b st r) = p_file st.
Proof. destruct r; cbn [apply_rec]; try reflexivity; [destruct (p_funcs st !! nm)|destruct b]; reflexivity. Qed.
Lemma apply_rec_results b st r : p_results (apply_rec b st r) = p_results st.
Proof. destruct r; cbn [apply_rec]; try reflexivity; [destruct (p_funcs st !! nm)|destruct b]; reflexivity. Qed.
Lemma foldl_apply_file b rs : forall st, p_file (foldl (apply_rec b) st rs) = p_file st.
Proof. induction rs as [|r rs IH]; intros st; cbn [foldl]; [reflexivity|]. rewrite IH. apply apply_rec_file. Qed.
Lemma foldl_apply_results b rs : forall st, p_results (foldl (apply_rec b) st rs) = p_results st.
Proof. induction rs as [|r rs IH]; intros st; cbn [foldl]; [reflexivity|]. rewrite IH. apply apply_rec_results. Qed.

(** * lines *)
Lemma lines_step b st r n :
  wf_rec r = true ->
  p_lines (apply_rec b st r) !! n = ow sat_add64 (p_lines st !! n) (da_count n r).
Proof.
  intros Hwf. destruct r; cbn [apply_rec da_count p_lines]; rewrite ?ow_none_r; try reflexivity.
  - cbn [wf_rec] in Hwf. apply andb_true_iff in Hwf as [_ Hc].
    destruct (dec_val l =? n) eqn:E.
    + assert (dec_val l = n) as -> by lia. rewrite lookup_insert.
      destruct (p_lines st !! n) as [x|]; cbn [default from_option id ow union_with option_union_with]; [reflexivity|].
      f_equal. unfold sat_add64, two64, U64_MAX in *. lia.
    + rewrite lookup_insert_ne by lia. rewrite ow_none_r. reflexivity.
  - destruct (dec_val l =? n) eqn:E.
    + assert (dec_val l = n) as -> by lia. rewrite lookup_insert.
      destruct (p_lines st !! n) as [x|]; cbn [default from_option id ow union_with option_union_with]; [reflexivity|].
      f_equal.
    + rewrite lookup_insert_ne by lia. rewrite ow_none_r. reflexivity.
  - destruct (p_funcs st !! nm); reflexivity.
  - destruct b; reflexivity.
Qed.
Lemma lines_fold b rs n : forall st,
  Forall (fun r => wf_rec r = true) rs ->
  p_lines (foldl (apply_rec b) st rs) !! n = foldl (ow sat_add64) (p_lines st !! n) (map (da_count n) rs).
Proof.
  induction rs as [|r rs IH]; intros st Hwf; cbn [foldl map]; [reflexivity|].
  inversion Hwf as [|? ? Hr Hrs]; subst. rewrite IH by assumption. rewrite lines_step by assumption. reflexivity.
Qed.
Lemma lines_spec b rs n st :
  Forall (fun r => wf_rec r = true) rs -> p_lines st = ∅ ->
  p_lines (foldl (apply_rec b) st rs) !! n = spec_line rs n.
Proof.
  intros Hwf He. rewrite lines_fold by assumption. rewrite He, lookup_empty.
  unfold spec_line. rewrite foldl_osat_none; [reflexivity|].
  apply Forall_map. eapply Forall_impl; [exact Hwf|]. clear. intros r Hwf x Hx. cbn beta in *.
  destruct r; cbn [da_count wf_rec] in *; try discriminate.
  - apply andb_true_iff in Hwf as [_ Hc]. destruct (dec_val l =? n); [|discriminate].
    injection Hx as <-. unfold two64, U64_MAX in *. lia.
  - destruct (dec_val l =? n); [|discriminate]. injection Hx as <-. unfold U64_MAX. lia.
Qed.

(** * branches *)
Definition brn (n : N) (r : rec) : option N :=
  match r with RBRDA l _ k _ => if dec_val l =? n then Some (dec_val k) else None | _ => None end.
Definition br_tk (r : rec) : bool := match r with RBRDA _ _ _ t => brda_tk t | _ => false end.
Definition br_vec (n : N) (r : rec) : option (list bool) :=
  (fun k => replicate (N.to_nat k) false ++ [br_tk r]) <$> brn n r.
Lemma brda_nums_brn n rs : brda_nums n rs = omap (brn n) rs.
Proof. reflexivity. Qed.

Lemma branches_step st r n :
  p_branches (apply_rec true st r) !! n = ow or_vec (p_branches st !! n) (br_vec n r).
Proof.
  destruct r; cbn [apply_rec p_branches]; unfold br_vec; cbn [brn br_tk fmap option_fmap option_map];
    rewrite ?ow_none_r; try reflexivity.
  - destruct (p_funcs st !! nm); reflexivity.
  - rewrite add_branch_alg_pf. destruct (dec_val l =? n) eqn:E; cbn [fmap option_fmap option_map].
    + assert (dec_val l = n) as -> by lia. rewrite lookup_insert.
      destruct (p_branches st !! n) as [v|]; reflexivity.
    + rewrite lookup_insert_ne by lia. rewrite ow_none_r. reflexivity.
Qed.
Lemma branches_fold rs n : forall st,
  p_branches (foldl (apply_rec true) st rs) !! n =
  foldl (ow or_vec) (p_branches st !! n) (map (br_vec n) rs).
Proof.
  induction rs as [|r rs IH]; intros st; cbn [foldl map]; [reflexivity|].
  rewrite IH, branches_step. reflexivity.
Qed.
Lemma branches_off_step st r : p_branches (apply_rec false st r) = p_branches st.
Proof. destruct r; cbn [apply_rec]; try reflexivity. destruct (p_funcs st !! nm); reflexivity. Qed.
Lemma branches_off rs : forall st, p_branches (foldl (apply_rec false) st rs) = p_branches st.
Proof.
  induction rs as [|r rs IH]; intros st; cbn [foldl]; [reflexivity|].
  rewrite IH. apply branches_off_step.
Qed.

Definition maxl (ks : list N) : N := foldr N.max 0 ks.
Lemma foldr_max_init k ks : foldr N.max k ks = N.max k (maxl ks).
Proof. unfold maxl. induction ks as [|x ks IH]; cbn [foldr]; [lia|]. rewrite IH. lia. Qed.
Definition len_of (ks : list N) : nat := match ks with [] => 0%nat | _ => S (N.to_nat (maxl ks)) end.
Lemma br_vec_len n rs :
  foldr Nat.max 0%nat (map olen (map (br_vec n) rs)) = len_of (omap (brn n) rs).
Proof.
  induction rs as [|r rs IH]; [reflexivity|].
  cbn [map foldr omap list_omap]. rewrite IH. unfold br_vec.
  destruct (brn n r) as [k|]; cbn [fmap option_fmap option_map olen from_option]; [|reflexivity].
  rewrite app_length, replicate_length. cbn [length].
  unfold len_of. destruct (omap (brn n) rs) as [|k' ks]; unfold maxl; cbn [foldr]; lia.
Qed.
Lemma br_vec_hit n r (i : nat) :
  (br_vec n r ≫= (.!! i)) = Some true <-> brda_hits n (N.of_nat i) r = true.
Proof.
  unfold br_vec. destruct r; cbn [brn br_tk brda_hits fmap option_fmap option_map mbind option_bind];
    try (split; discriminate).
  destruct (dec_val l =? n) eqn:E; cbn [fmap option_fmap option_map mbind option_bind].
  - rewrite lookup_pad. destruct t as [d|]; cbn [brda_tk].
    + rewrite !andb_true_iff. split; [intros [-> Ht]|intros [[_ Hk] Ht]]; (split; [|assumption]); lia.
    + split; [intros [_ ?]; discriminate|discriminate].
  - destruct t; cbn [andb]; split; discriminate.
Qed.

Lemma branches_spec rs n :
  foldl (ow or_vec) None (map (br_vec n) rs) = spec_branch rs n.
Proof.
  unfold spec_branch. rewrite brda_nums_brn.
  pose proof (foldl_orvec_len None (map (br_vec n) rs)) as Hlen.
  rewrite br_vec_len in Hlen. cbn [olen from_option] in Hlen.
  pose proof (foldl_ow_is_some or_vec None (map (br_vec n) rs)) as Hsome.
  pose proof (fun i => foldl_orvec_acc None (map (br_vec n) rs) i) as Hacc.
  destruct (omap (brn n) rs) as [|k ks] eqn:Enums.
  - destruct (foldl (ow or_vec) None (map (br_vec n) rs)) as [v|]; [|reflexivity].
    exfalso. destruct Hsome as [Hsome _]. destruct (Hsome (mk_is_Some _ _ eq_refl)) as [[? ?]|Hex]; [discriminate|].
    apply Exists_exists in Hex as (o & Hin & [w Hw]). apply elem_of_list_fmap in Hin as (r & -> & Hr).
    unfold br_vec in Hw. destruct (brn n r) as [k|] eqn:Ek; [|discriminate].
    assert (k ∈ omap (brn n) rs) as Hk by (apply elem_of_list_omap; eauto).
    rewrite Enums in Hk. inversion Hk.
  - destruct (foldl (ow or_vec) None (map (br_vec n) rs)) as [v|] eqn:Ev.
    2:{ exfalso. cbn [olen from_option len_of] in Hlen. discriminate. }
    f_equal. cbn [olen from_option len_of] in Hlen.
    rewrite foldr_max_init.
    assert (maxl (k :: ks) = N.max k (maxl ks)) as Hm by reflexivity. rewrite Hm in Hlen.
    apply bool_list_eq.
    + rewrite map_length, seq_length. exact Hlen.
    + intros i. specialize (Hacc i). cbn [mbind option_bind] in Hacc.
      rewrite Hacc. clear Hacc.
      rewrite list_lookup_fmap.
      split.
      * intros [?|Hex]; [discriminate|].
        assert (i < length v)%nat as Hi.
        { assert ((v !! i) = Some true) as Hvi.
          { pose proof (foldl_orvec_acc None (map (br_vec n) rs) i) as H. rewrite Ev in H. cbn [mbind option_bind] in H.
            apply H. right. exact Hex. }
          eapply lookup_lt_Some, Hvi. }
        rewrite lookup_seq_lt by lia. cbn [fmap option_fmap option_map]. f_equal. cbn [Nat.add].
        apply existsb_Exists. apply Exists_exists in Hex as (o & Hin & Ho).
        apply elem_of_list_fmap in Hin as (r & -> & Hr). apply br_vec_hit in Ho.
        apply Exists_exists. eauto.
      * intros Hw. right.
        destruct (seq 0 (S (N.to_nat (N.max k (maxl ks)))) !! i) as [j|] eqn:Ej; [|discriminate].
        apply lookup_seq in Ej as [-> Hi]. cbn [fmap option_fmap option_map Nat.add] in Hw.
        injection Hw as Hw. apply existsb_Exists in Hw. apply Exists_exists in Hw as (r & Hr & Hh).
        apply Exists_exists. exists (br_vec n r). split; [apply elem_of_list_fmap; eauto|].
        apply br_vec_hit, Hh.
Qed.

(** * functions *)
Definition fn_start (f : name) (r : rec) : option N :=
  match r with RFN s nm => if bool_decide (nm = f) then Some (dec_val s) else None | _ => None end.
Definition fnda_hit (f : name) (r : rec) : bool :=
  match r with RFNDA c nm => bool_decide (nm = f) && negb (dec_val c =? 0) | _ => false end.
Lemma spec_func_eq rs f :
  spec_func rs f = match omap (fn_start f) rs with
                   | [] => None
                   | s :: _ => Some (mkFunc s (existsb (fnda_hit f) rs))
                   end.
Proof. reflexivity. Qed.

Lemma fn_start_absent f rs : f ∉ fn_names rs -> omap (fn_start f) rs = [].
Proof.
  induction rs as [|r rs IH]; intros Hf; [reflexivity|].
  unfold fn_names in *. cbn [omap list_omap] in *.
  destruct r; cbn [fn_start]; try (apply IH, Hf).
  apply not_elem_of_cons in Hf as [Hne Hf]. rewrite bool_decide_false by congruence. apply IH, Hf.
Qed.
Lemma fn_start_present f rs : f ∈ fn_names rs -> omap (fn_start f) rs <> [].
Proof.
  induction rs as [|r rs IH]; intros Hf; [inversion Hf|].
  unfold fn_names in *. cbn [omap list_omap] in *.
  destruct r; cbn [fn_start]; try (apply IH, Hf).
  destruct (bool_decide (nm = f)) eqn:E; [discriminate|].
  apply bool_decide_eq_false in E. apply elem_of_cons in Hf as [->|Hf]; [congruence|]. apply IH, Hf.
Qed.
Lemma fn_start_le1 f rs : NoDup (fn_names rs) -> (length (omap (fn_start f) rs) <= 1)%nat.
Proof.
  induction rs as [|r rs IH]; intros Hnd; [simpl; lia|].
  unfold fn_names in Hnd. cbn [omap list_omap] in *.
  destruct r; cbn [fn_start]; try (apply IH, Hnd).
  apply NoDup_cons in Hnd as [Hnotin Hnd].
  destruct (bool_decide (nm = f)) eqn:E; [|apply IH, Hnd].
  apply bool_decide_eq_true in E. subst nm.
  change (omap _ rs) with (omap (fn_start f) rs). rewrite fn_start_absent by exact Hnotin. simpl. lia.
Qed.

Lemma fnda_after_fn_in seen rs c nm :
  fnda_after_fn seen rs = true -> RFNDA c nm ∈ rs -> nm ∈ seen \/ nm ∈ fn_names rs.
Proof.
  revert seen; induction rs as [|r rs IH]; intros seen Hfn Hin; [inversion Hin|].
  apply elem_of_cons in Hin as [<-|Hin].
  - cbn [fnda_after_fn] in Hfn. apply andb_true_iff in Hfn as [Hs _].
    apply bool_decide_eq_true in Hs. auto.
  - unfold fn_names. cbn [omap list_omap].
    destruct r; cbn [fnda_after_fn] in Hfn; try (apply (IH seen); assumption).
    + destruct (IH (nm0 :: seen) Hfn Hin) as [H|H]; [|right; right; exact H].
      apply elem_of_cons in H as [->|H]; [right; left|left; assumption].
    + apply andb_true_iff in Hfn as [_ Hfn]. apply (IH seen); assumption.
Qed.
Lemma fnda_hit_absent f rs :
  fnda_after_fn [] rs = true -> f ∉ fn_names rs -> existsb (fnda_hit f) rs = false.
Proof.
  intros Hfn Hf. destruct (existsb (fnda_hit f) rs) eqn:E; [|reflexivity].
  exfalso. apply existsb_Exists, Exists_exists in E as (r & Hr & Hh).
  destruct r; cbn [fnda_hit] in Hh; try discriminate.
  apply andb_true_iff in Hh as [Hnm _]. apply bool_decide_eq_true in Hnm. subst nm.
  destruct (fnda_after_fn_in [] rs c f Hfn Hr) as [H|H]; [inversion H|contradiction].
Qed.
Lemma fnda_after_fn_app seen xs ys :
  fnda_after_fn seen (xs ++ ys) =
  fnda_after_fn seen xs && fnda_after_fn (reverse (fn_names xs) ++ seen) ys.
Proof.
  revert seen; induction xs as [|r xs IH]; intros seen; [reflexivity|].
  unfold fn_names in *. cbn [app omap list_omap].
  destruct r; cbn [fnda_after_fn]; try apply IH.
  - rewrite IH, reverse_cons, <- app_assoc. reflexivity.
  - rewrite IH, andb_assoc. reflexivity.
Qed.

Lemma funcs_step_other b st r :
  match r with RFN _ _ | RFNDA _ _ => False | _ => True end -> p_funcs (apply_rec b st r) = p_funcs st.
Proof. destruct r; cbn [apply_rec]; try tauto; try reflexivity. destruct b; reflexivity. Qed.

Lemma funcs_spec b rs : forall st,
  NoDup (fn_names rs) -> fnda_after_fn [] rs = true -> p_funcs st = ∅ ->
  forall f, p_funcs (foldl (apply_rec b) st rs) !! f = spec_func rs f.
Proof.
  induction rs as [|r rs IH] using rev_ind; intros st Hnd Hfn He f.
  - cbn [foldl]. rewrite He, lookup_empty. reflexivity.
  - rewrite foldl_app. cbn [foldl].
    unfold fn_names in Hnd. rewrite omap_app in Hnd. apply NoDup_app in Hnd as (Hnd & Hdisj & _).
    rewrite fnda_after_fn_app, app_nil_r in Hfn. apply andb_true_iff in Hfn as [Hfn Hr].
    specialize (IH st Hnd Hfn He).
    set (st' := foldl (apply_rec b) st rs) in *.
    rewrite spec_func_eq, omap_app, existsb_app.
    destruct r; try (rewrite funcs_step_other by exact I; rewrite IH, spec_func_eq;
                     cbn [omap list_omap fn_start existsb fnda_hit]; rewrite app_nil_r, orb_false_r; reflexivity).
    + (* FN *)
      cbn [apply_rec p_funcs]. cbn [omap list_omap fn_start existsb fnda_hit].
      assert (nm ∉ fn_names rs) as Hnotin.
      { intros Hin. apply (Hdisj nm Hin). cbn [omap list_omap]. left. }
      destruct (decide (nm = f)) as [->|Hne].
      * rewrite lookup_insert. rewrite bool_decide_true by reflexivity.
        rewrite fn_start_absent by assumption. rewrite fnda_hit_absent by assumption.
        reflexivity.
      * rewrite lookup_insert_ne by assumption. rewrite bool_decide_false by assumption.
        rewrite app_nil_r, orb_false_r. rewrite IH, spec_func_eq. reflexivity.
    + (* FNDA *)
      cbn [fnda_after_fn] in Hr. apply andb_true_iff in Hr as [Hin _]. apply bool_decide_eq_true in Hin.
      rewrite elem_of_reverse in Hin.
      pose proof (IH nm) as Hnm. rewrite spec_func_eq in Hnm.
      pose proof (fn_start_present nm rs Hin) as Hne0.
      destruct (omap (fn_start nm) rs) as [|s0 ss] eqn:Es; [congruence|].
      cbn [apply_rec].
      match goal with |- context [match ?x with Some _ => _ | None => _ end] =>
        replace x with (Some (mkFunc s0 (existsb (fnda_hit nm) rs))) by (symmetry; exact Hnm) end.
      cbn [p_funcs f_start f_exec]. cbn [omap list_omap fn_start existsb fnda_hit]. rewrite app_nil_r.
      destruct (decide (nm = f)) as [->|Hne].
      * rewrite lookup_insert. rewrite Es. rewrite bool_decide_true by reflexivity.
        cbn [andb]. rewrite orb_false_r. reflexivity.
      * rewrite lookup_insert_ne by assumption. rewrite bool_decide_false by assumption.
        cbn [andb]. rewrite orb_false_r. rewrite IH, spec_func_eq. reflexivity.
Qed.

(** * the record built from the final state is what the section says *)
Lemma sec_spec_of_state b rs st :
  Forall (fun r => wf_rec r = true) rs -> NoDup (fn_names rs) -> fnda_after_fn [] rs = true ->
  p_lines st = ∅ -> p_branches st = ∅ -> p_funcs st = ∅ ->
  let st' := foldl (apply_rec b) st rs in
  sec_spec b rs (mkCov (p_lines st') (p_branches st') (p_funcs st')).
Proof.
  intros Hwf Hnd Hfn Hl Hb Hf st'. unfold sec_spec. cbn [c_lines c_branches c_funcs].
  split; [|split].
  - intros n. apply lines_spec; assumption.
  - intros n. subst st'. destruct b.
    + rewrite branches_fold, Hb, lookup_empty. apply branches_spec.
    + rewrite branches_off, Hb. apply lookup_empty.
  - intros f. apply funcs_spec; assumption.
Qed.

(** * D: the meaning determines the record and is order-free *)
Lemma sec_spec_unique_pf : forall b rs c c', sec_spec b rs c -> sec_spec b rs c' -> c = c'.
Proof.
  intros b rs c c' (H1 & H2 & H3) (H1' & H2' & H3').
  apply cov_eq; apply map_eq; intros k.
  - rewrite H1, H1'. reflexivity.
  - rewrite H2, H2'. reflexivity.
  - rewrite H3, H3'. reflexivity.
Qed.

Lemma osum_perm l l' : l ≡ₚ l' -> osum l = osum l'.
Proof.
  induction 1 as [|x l l' _ IH|x y l|l1 l2 l3 _ IH1 _ IH2].
  - reflexivity.
  - destruct x; cbn [osum]; rewrite IH; reflexivity.
  - destruct x, y; cbn [osum default from_option id]; try reflexivity. f_equal. lia.
  - congruence.
Qed.
Lemma existsb_perm {A} (f : A -> bool) l l' : l ≡ₚ l' -> existsb f l = existsb f l'.
Proof.
  induction 1 as [|x l l' _ IH|x y l|l1 l2 l3 _ IH1 _ IH2]; cbn [existsb].
  - reflexivity.
  - rewrite IH. reflexivity.
  - destruct (f x), (f y); reflexivity.
  - congruence.
Qed.
Lemma maxl_perm l l' : l ≡ₚ l' -> maxl l = maxl l'.
Proof.
  unfold maxl. induction 1 as [|x l l' _ IH|x y l|l1 l2 l3 _ IH1 _ IH2]; cbn [foldr].
  - reflexivity.
  - rewrite IH. reflexivity.
  - lia.
  - congruence.
Qed.

Lemma spec_line_perm rs rs' n : rs ≡ₚ rs' -> spec_line rs n = spec_line rs' n.
Proof. intros Hp. unfold spec_line. f_equal. apply osum_perm, Permutation_map, Hp. Qed.
Lemma spec_branch_perm rs rs' n : rs ≡ₚ rs' -> spec_branch rs n = spec_branch rs' n.
Proof.
  intros Hp. unfold spec_branch. rewrite !brda_nums_brn.
  pose proof (omap_Permutation (brn n) _ _ Hp) as Hn.
  destruct (omap (brn n) rs) as [|k ks], (omap (brn n) rs') as [|k' ks'].
  - reflexivity.
  - apply Permutation_nil_cons in Hn. contradiction.
  - symmetry in Hn. apply Permutation_nil_cons in Hn. contradiction.
  - f_equal. rewrite !foldr_max_init.
    apply maxl_perm in Hn. unfold maxl in Hn. cbn [foldr] in Hn. fold (maxl ks) (maxl ks') in Hn. rewrite Hn.
    apply map_ext. intros i. apply existsb_perm, Hp.
Qed.
Lemma spec_func_perm rs rs' f :
  rs ≡ₚ rs' -> NoDup (fn_names rs) -> spec_func rs f = spec_func rs' f.
Proof.
  intros Hp Hnd. rewrite !spec_func_eq.
  pose proof (omap_Permutation (fn_start f) _ _ Hp) as Hn.
  pose proof (fn_start_le1 f rs Hnd) as Hle.
  rewrite (existsb_perm _ _ _ Hp).
  destruct (omap (fn_start f) rs) as [|s [|s2 ss]].
  - apply Permutation_nil in Hn. rewrite Hn. reflexivity.
  - apply Permutation_singleton_l in Hn. rewrite <- Hn. reflexivity.
  - simpl in Hle. lia.
Qed.

Lemma sec_spec_perm_pf : forall b rs rs' c,
  rs ≡ₚ rs' -> NoDup (fn_names rs) -> sec_spec b rs c -> sec_spec b rs' c.
Proof.
  intros b rs rs' c Hp Hnd (H1 & H2 & H3). split; [|split].
  - intros n. rewrite H1. apply spec_line_perm, Hp.
  - intros n. rewrite H2. destruct b; [|reflexivity]. apply spec_branch_perm, Hp.
  - intros f. rewrite H3. apply spec_func_perm; assumption.
Qed.
