(* C20 - facts about grcov's glue around the external tools (Model/Tools.v). *)
From Grcov Require Import Model.Tools Proofs.MergeFacts.
From Coq Require Import ZifyBool ZifyN ZifyNat.

(** * LLVM: the profile list *)

Definition name_of (p : ppath) : name := match p with PPlain n => n | PTmp n _ => n end.
Definition paths_from (k : nat) (nm : name) (archives : list akind) : list ppath :=
  imap (fun i a => path_of (nm, (k + i)%nat, a)) archives.
Definition plain_once (archives : list akind) : Prop := (length (filter (fun a => a = APlain) archives) <= 1)%nat.

Lemma map_flat_map {A B C} (g : B -> C) (f : A -> list B) l :
  map g (flat_map f l) = flat_map (fun x => map g (f x)) l.
Proof. induction l as [|x l IH]; simpl; [reflexivity|]. rewrite map_app, IH. reflexivity. Qed.
Lemma profile_paths_flat found :
  profile_paths found = flat_map (fun '(nm, archives) => paths_from 0 nm archives) found.
Proof.
  unfold profile_paths, occurrences. rewrite map_flat_map. apply flat_map_ext. intros [nm archives].
  unfold paths_from. change (map path_of ?l) with (path_of <$> l). rewrite fmap_imap. reflexivity.
Qed.

Lemma paths_from_cons k nm a archives :
  paths_from k nm (a :: archives) = path_of (nm, k, a) :: paths_from (S k) nm archives.
Proof.
  unfold paths_from. simpl. rewrite Nat.add_0_r. f_equal. apply imap_ext. intros i x _. simpl.
  rewrite Nat.add_succ_r. reflexivity.
Qed.
Lemma paths_from_name k nm archives p : p ∈ paths_from k nm archives -> name_of p = nm.
Proof.
  revert k; induction archives as [|a archives IH]; intros k; [intros H; inversion H|].
  rewrite paths_from_cons. intros [->|H]%elem_of_cons; [destruct a; reflexivity|]. eapply IH, H.
Qed.
Lemma paths_from_tmp_ge k nm archives n : PTmp nm n ∈ paths_from k nm archives -> (N.of_nat k + 1 <= n).
Proof.
  revert k; induction archives as [|a archives IH]; intros k; [intros H; inversion H|].
  rewrite paths_from_cons. intros [E|H]%elem_of_cons.
  - destruct a; simpl in E; [discriminate|]. injection E as ->. lia.
  - apply IH in H. lia.
Qed.
Lemma paths_from_plain_in k nm archives : PPlain nm ∈ paths_from k nm archives -> APlain ∈ archives.
Proof.
  revert k; induction archives as [|a archives IH]; intros k; [intros H; inversion H|].
  rewrite paths_from_cons. intros [E|H]%elem_of_cons.
  - destruct a; simpl in E; [left|discriminate].
  - right. eapply IH, H.
Qed.
Lemma paths_from_nodup k nm archives : plain_once archives -> NoDup (paths_from k nm archives).
Proof.
  revert k; induction archives as [|a archives IH]; intros k Hp; [constructor|].
  rewrite paths_from_cons. unfold plain_once in *. rewrite filter_cons in Hp.
  constructor.
  - destruct a; simpl.
    + rewrite decide_True in Hp by reflexivity. simpl in Hp.
      intros Hin%paths_from_plain_in.
      assert (APlain ∈ filter (fun a => a = APlain) archives) as Hin' by (apply elem_of_list_filter; auto).
      destruct (filter (fun a => a = APlain) archives); [inversion Hin'|simpl in Hp; lia].
    + intros Hin%paths_from_tmp_ge. lia.
  - apply IH. destruct (decide (a = APlain)); simpl in Hp; lia.
Qed.

Lemma profile_paths_nodup found :
  NoDup found.*1 -> Forall (fun p => plain_once p.2) found -> NoDup (profile_paths found).
Proof.
  rewrite profile_paths_flat. induction found as [|[nm archives] found IH]; intros Hn Hf; [constructor|].
  simpl in *. apply NoDup_cons in Hn as [Hnotin Hn]. apply Forall_cons in Hf as [Hp Hf].
  apply NoDup_app. split; [apply paths_from_nodup, Hp|]. split; [|apply IH; assumption].
  intros p Hin Hin'. apply paths_from_name in Hin.
  apply elem_of_list_In, in_flat_map in Hin' as ([nm' archives'] & Hin1 & Hin2).
  apply elem_of_list_In in Hin2. apply paths_from_name in Hin2.
  apply Hnotin. apply elem_of_list_fmap. exists (nm', archives'). split; [simpl; congruence|].
  apply elem_of_list_In, Hin1.
Qed.

Lemma flat_map_perm {A B} (f : A -> list B) l l' : l ≡ₚ l' -> flat_map f l ≡ₚ flat_map f l'.
Proof.
  induction 1 as [|x l l' _ IH|x y l|l1 l2 l3 _ IH1 _ IH2]; simpl.
  - reflexivity.
  - rewrite IH. reflexivity.
  - rewrite !app_assoc. apply Permutation_app_tail, Permutation_app_comm.
  - etransitivity; eassumption.
Qed.
Lemma profile_paths_perm found found' : found ≡ₚ found' -> profile_paths found ≡ₚ profile_paths found'.
Proof. intros Hp. rewrite !profile_paths_flat. apply flat_map_perm, Hp. Qed.

Lemma flat_map_length {A B} (f : A -> list B) l :
  length (flat_map f l) = sum_list (map (fun x => length (f x)) l).
Proof. induction l as [|x l IH]; simpl; [reflexivity|]. rewrite app_length, IH. reflexivity. Qed.
Lemma profile_paths_length found :
  length (profile_paths found) = sum_list (map (fun p => length p.2) found).
Proof.
  unfold profile_paths, occurrences. rewrite map_length, flat_map_length. f_equal.
  apply map_ext. intros [nm archives]. apply imap_length.
Qed.

(* every discovered occurrence is in the list handed to the merge tool *)
Lemma profile_paths_complete found nm archives (i : nat) a :
  (nm, archives) ∈ found -> archives !! i = Some a -> path_of (nm, i, a) ∈ profile_paths found.
Proof.
  intros Hin Hi. unfold profile_paths. apply elem_of_list_fmap. exists (nm, i, a). split; [reflexivity|].
  unfold occurrences. apply elem_of_list_In, in_flat_map. exists (nm, archives).
  split; [apply elem_of_list_In, Hin|]. apply elem_of_list_In. apply elem_of_lookup_imap. eauto.
Qed.

(** * LLVM: the calls *)

Lemma merge_calls_exports bins : merge_calls (map CExport bins) = [].
Proof. induction bins; simpl; auto. Qed.
Lemma export_calls_exports bins : export_calls (map CExport bins) = bins.
Proof. induction bins; simpl; [reflexivity|]. unfold export_calls in *. simpl. f_equal. assumption. Qed.

Lemma llvm_merge_once t ps b :
  t_profdata_found t = true -> merge_calls (llvm_profiles_to_lcov t ps b).1 = [ps].
Proof.
  intros Hf. unfold llvm_profiles_to_lcov. rewrite Hf. simpl.
  destruct (t_merge_ok t ps); simpl; [|reflexivity].
  destruct (find_binaries b); simpl; try reflexivity.
  destruct (t_cov_found t); simpl; [|reflexivity].
  unfold merge_calls. simpl. fold (merge_calls (map CExport a)). rewrite merge_calls_exports. reflexivity.
Qed.
Lemma llvm_no_tool_no_call t ps b :
  t_profdata_found t = false -> llvm_profiles_to_lcov t ps b = ([], Err).
Proof. intros Hf. unfold llvm_profiles_to_lcov. rewrite Hf. reflexivity. Qed.

Definition tools_ok (t : toolset) (ps : list ppath) : Prop :=
  t_profdata_found t = true /\ t_cov_found t = true /\ t_merge_ok t ps = true.

Lemma llvm_run_ok t ps b bins :
  tools_ok t ps -> find_binaries b = Ok bins ->
  llvm_profiles_to_lcov t ps b = (CMerge ps :: map CExport bins, Ok (omap (t_export t) bins)).
Proof.
  intros (H1 & H2 & H3) Hb. unfold llvm_profiles_to_lcov. rewrite H1, H3, Hb, H2. reflexivity.
Qed.
Lemma llvm_exports_once t ps b bins :
  tools_ok t ps -> find_binaries b = Ok bins ->
  export_calls (llvm_profiles_to_lcov t ps b).1 = bins.
Proof.
  intros Ht Hb. rewrite (llvm_run_ok _ _ _ _ Ht Hb). simpl.
  unfold export_calls. simpl. fold (export_calls (map CExport bins)). apply export_calls_exports.
Qed.
(* no export before / without a successful merge *)
Lemma llvm_merge_failed_no_export t ps b :
  t_merge_ok t ps = false -> export_calls (llvm_profiles_to_lcov t ps b).1 = [].
Proof.
  intros Hm. unfold llvm_profiles_to_lcov. destruct (t_profdata_found t); simpl; [|reflexivity].
  rewrite Hm. reflexivity.
Qed.

Lemma find_binaries_dir_elem walk p :
  p ∈ map fe_path (filter (fun e => selected e = true) walk) <->
  exists e, e ∈ walk /\ fe_path e = p /\ fe_is_file e = true /\ fe_read e <> 0 /\ fe_is_app e = true.
Proof.
  rewrite elem_of_list_fmap. split.
  - intros (e & -> & [Hs Hin]%elem_of_list_filter). exists e. unfold selected in Hs.
    repeat split; auto; destruct (fe_is_file e), (fe_is_app e), (N.eqb_spec (fe_read e) 0); simpl in *; congruence.
  - intros (e & Hin & <- & H1 & H2 & H3). exists e. split; [reflexivity|]. apply elem_of_list_filter. split; [|assumption].
    unfold selected. rewrite H1, H3. destruct (N.eqb_spec (fe_read e) 0); [contradiction|reflexivity].
Qed.
Lemma find_binaries_dir_nodup walk :
  NoDup (map fe_path walk) -> NoDup (map fe_path (filter (fun e => selected e = true) walk)).
Proof.
  induction walk as [|e walk IH]; simpl; intros Hn; [constructor|].
  apply NoDup_cons in Hn as [Hnotin Hn]. rewrite filter_cons. destruct (decide (selected e = true)); [|auto].
  simpl. constructor; [|auto]. intros Hin. apply Hnotin.
  apply elem_of_list_fmap in Hin as (e' & -> & [_ Hin]%elem_of_list_filter).
  apply elem_of_list_fmap. eauto.
Qed.

(** * LLVM: the result *)

Section Consumer.
  Variable parse : bytes -> outcome (list (name * cov)).
  Definition no_abort : Prop := forall l, parse l <> Panic /\ parse l <> OutOfFuel.
  Definition parsed (l : bytes) : list (name * cov) := match parse l with Ok rs => rs | _ => [] end.

  Lemma parse_exports_spec ls : no_abort -> parse_exports parse ls = Ok (flat_map parsed ls).
  Proof.
    intros Hna. induction ls as [|l ls IH]; simpl; [reflexivity|]. unfold parsed at 1.
    destruct (Hna l) as [H1 H2]. destruct (parse l); try contradiction.
    - rewrite IH. reflexivity.
    - exact IH.
  Qed.
  Lemma flat_map_parsed_exports t bins :
    flat_map parsed (omap (t_export t) bins) = flat_map (good_batch parse t) bins.
  Proof.
    induction bins as [|b bins IH]; [reflexivity|]. cbn [flat_map]. unfold good_batch at 1.
    change (omap (t_export t) (b :: bins)) with
      (match t_export t b with Some y => y :: omap (t_export t) bins | None => omap (t_export t) bins end).
    destruct (t_export t b); [cbn [flat_map]; rewrite IH; reflexivity|exact IH].
  Qed.

  Lemma consume_llvm_result t b bins m ps :
    no_abort -> tools_ok t ps -> find_binaries b = Ok bins ->
    consume_llvm parse t (Some b) m ps =
      (CMerge ps :: map CExport bins, Ok (add_results m (flat_map (good_batch parse t) bins))).
  Proof.
    intros Hna Ht Hb. unfold consume_llvm. rewrite (llvm_run_ok _ _ _ _ Ht Hb).
    rewrite parse_exports_spec by assumption. rewrite flat_map_parsed_exports. reflexivity.
  Qed.
  (* any failure of the tools as a whole leaves the map as it was *)
  Lemma consume_llvm_tool_failure t b m ps :
    (llvm_profiles_to_lcov t ps b).2 = Err -> (consume_llvm parse t (Some b) m ps).2 = Ok m.
  Proof. unfold consume_llvm. destruct (llvm_profiles_to_lcov t ps b) as [tr r]. simpl. intros ->. reflexivity. Qed.
  Lemma consume_llvm_no_binary_path t m ps : consume_llvm parse t None m ps = ([], Ok m).
  Proof. reflexivity. Qed.

  Lemma flat_map_app' {A B} (f : A -> list B) l1 l2 : flat_map f (l1 ++ l2) = flat_map f l1 ++ flat_map f l2.
  Proof. induction l1; simpl; [reflexivity|]. rewrite IHl1, app_assoc. reflexivity. Qed.

  (* a binary whose export fails (or does not parse) changes nothing else *)
  Lemma llvm_failure_isolated t b b' l1 b0 l2 m ps :
    no_abort -> tools_ok t ps ->
    find_binaries b = Ok (l1 ++ b0 :: l2) -> find_binaries b' = Ok (l1 ++ l2) ->
    good_batch parse t b0 = [] ->
    (consume_llvm parse t (Some b) m ps).2 = (consume_llvm parse t (Some b') m ps).2.
  Proof.
    intros Hna Ht Hb Hb' Hg.
    rewrite (consume_llvm_result _ _ _ _ _ Hna Ht Hb), (consume_llvm_result _ _ _ _ _ Hna Ht Hb'). simpl.
    rewrite !flat_map_app'. simpl. rewrite Hg. reflexivity.
  Qed.
  Lemma good_batch_failed t b0 : t_export t b0 = None -> good_batch parse t b0 = [].
  Proof. unfold good_batch. intros ->. reflexivity. Qed.
  (* result = add_results over the successful exports only *)
  Lemma good_batch_filter t bins :
    flat_map (good_batch parse t) bins =
    flat_map (good_batch parse t) (filter (fun b => is_Some (t_export t b)) bins).
  Proof.
    induction bins as [|b bins IH]; simpl; [reflexivity|]. rewrite filter_cons.
    destruct (decide (is_Some (t_export t b))) as [Hs|Hn]; simpl; [rewrite IH; reflexivity|].
    rewrite good_batch_failed, IH; [reflexivity|]. destruct (t_export t b); [exfalso; apply Hn; eauto|reflexivity].
  Qed.

  Lemma llvm_report_is_agg t b bins m ps rs :
    no_abort -> tools_ok t ps -> find_binaries b = Ok bins ->
    rs ≡ₚ flat_map (good_batch parse t) bins ->
    exists m', (consume_llvm parse t (Some b) m ps).2 = Ok m' /\ obs_map m' = obs_map (add_results m rs).
  Proof.
    intros Hna Ht Hb Hp. rewrite (consume_llvm_result _ _ _ _ _ Hna Ht Hb). simpl.
    eexists; split; [reflexivity|]. apply add_results_perm_obs. symmetry. exact Hp.
  Qed.
  (* the order in which the walker delivers the binaries does not matter *)
  Lemma llvm_binary_order_free t b b' bins bins' m ps :
    no_abort -> tools_ok t ps -> find_binaries b = Ok bins -> find_binaries b' = Ok bins' -> bins ≡ₚ bins' ->
    exists m1 m2, (consume_llvm parse t (Some b) m ps).2 = Ok m1 /\ (consume_llvm parse t (Some b') m ps).2 = Ok m2 /\
                  obs_map m1 = obs_map m2.
  Proof.
    intros Hna Ht Hb Hb' Hp.
    rewrite (consume_llvm_result _ _ _ _ _ Hna Ht Hb), (consume_llvm_result _ _ _ _ _ Hna Ht Hb'). simpl.
    do 2 eexists. split; [reflexivity|]. split; [reflexivity|]. apply add_results_perm_obs, flat_map_perm, Hp.
  Qed.
  Lemma llvm_file_is_agg t b bins ps p :
    no_abort -> tools_ok t ps -> find_binaries b = Ok bins ->
    exists m', (consume_llvm parse t (Some b) ∅ ps).2 = Ok m' /\
      m' !! p = match map snd (filter (fun r => r.1 = p) (flat_map (good_batch parse t) bins)) with
                | [] => None | cs => Some (agg cs) end.
  Proof.
    intros Hna Ht Hb. rewrite (consume_llvm_result _ _ _ _ _ Hna Ht Hb). simpl.
    eexists; split; [reflexivity|]. apply add_results_empty_lookup.
  Qed.

  Lemma add_results_app m a b : add_results (add_results m a) b = add_results m (a ++ b).
  Proof. unfold add_results. rewrite foldl_app. reflexivity. Qed.

  (* several items (profdata item, profraw item): every binary once per merged profile, everything added up *)
  Lemma consume_llvm_items_result b bins m items :
    no_abort -> find_binaries b = Ok bins -> Forall (fun it => tools_ok it.1 it.2) items ->
    consume_llvm_items parse (Some b) m items =
      (flat_map (fun it => CMerge it.2 :: map CExport bins) items,
       Ok (add_results m (flat_map (fun it => flat_map (good_batch parse it.1) bins) items))).
  Proof.
    intros Hna Hb. revert m. induction items as [|[t ps] items IH]; intros m Hf.
    - reflexivity.
    - apply Forall_cons in Hf as [Ht Hf]. simpl in Ht. cbn [consume_llvm_items].
      rewrite (consume_llvm_result _ _ _ _ _ Hna Ht Hb). rewrite IH by assumption.
      cbn [flat_map fst snd]. rewrite add_results_app. reflexivity.
  Qed.
End Consumer.

(** * GCC *)

Lemma add_batches_concat m bs : add_batches m bs = add_results m (concat bs).
Proof.
  unfold add_batches. revert m; induction bs as [|b bs IH]; intros m; simpl; [reflexivity|].
  rewrite IH. unfold add_results. rewrite foldl_app. reflexivity.
Qed.
Lemma concat_perm {A} (l l' : list (list A)) : l ≡ₚ l' -> concat l ≡ₚ concat l'.
Proof.
  induction 1 as [|x l l' _ IH|x y l|l1 l2 l3 _ IH1 _ IH2]; simpl.
  - reflexivity.
  - rewrite IH. reflexivity.
  - rewrite !app_assoc. apply Permutation_app_tail, Permutation_app_comm.
  - etransitivity; eassumption.
Qed.
(* whatever the split over workers and the order of lock acquisitions: same observable map *)
Lemma add_batches_perm_obs m bs bs' : bs ≡ₚ bs' -> obs_map (add_batches m bs) = obs_map (add_batches m bs').
Proof. intros Hp. rewrite !add_batches_concat. apply add_results_perm_obs, concat_perm, Hp. Qed.

Section Gcc.
  Variable parse_file : name -> bytes -> outcome (list (name * cov)).
  Variable has_ext : name -> bool.
  Variable ext : name.
  Variable rename : name -> name -> name.
  Notation step := (gcc_step parse_file has_ext ext rename).
  Notation worker := (gcc_worker parse_file has_ext ext rename).
  Notation results := (item_results parse_file rename).

  Definition expected (it : gitem) : name := gi_gcno_name it ++ ext.
  Definition file_ok (e : name * bytes) : Prop := has_ext e.1 = true /\ exists rs, parse_file e.1 e.2 = Ok rs.
  (* gcov wrote files with distinct names that all parse (one per source with old gcov, one JSON per notes file since 9) *)
  Definition multi_behaved (it : gitem) : Prop :=
    gi_run_ok it = true /\ NoDup (gi_left it).*1 /\ Forall file_ok (gi_left it).
  (* gcov wrote exactly the file grcov expects *)
  Definition single_behaved (it : gitem) : Prop :=
    gi_run_ok it = true /\ exists c rs, gi_left it = [(expected it, c)] /\ parse_file (expected it) c = Ok rs.

  Lemma dir_write_empty l : dir_write l [] = l.
  Proof. unfold dir_write. apply (app_nil_r l). Qed.

  Lemma filter_remove n ns (d : wdir) :
    filter (fun e => e.1 ∉ n :: ns) d = filter (fun e => e.1 ∉ ns) (dir_remove n d).
  Proof.
    unfold dir_remove. induction d as [|e d IH]; [reflexivity|].
    rewrite !filter_cons. destruct (decide (e.1 <> n)) as [Hne|Heq].
    - rewrite filter_cons. destruct (decide (e.1 ∉ ns)) as [H1|H1].
      + rewrite decide_True by (rewrite not_elem_of_cons; auto). rewrite IH. reflexivity.
      + rewrite decide_False by (rewrite not_elem_of_cons; tauto). exact IH.
    - rewrite decide_False; [exact IH|]. rewrite not_elem_of_cons. intros [H _]. apply Heq. exact H.
  Qed.

  Lemma walk_dir_ok todo d acc :
    Forall file_ok todo ->
    walk_dir parse_file has_ext todo d acc =
      Ok (filter (fun e => e.1 ∉ todo.*1) d,
          acc ++ flat_map (fun e => match parse_file e.1 e.2 with Ok rs => rs | _ => [] end) todo).
  Proof.
    revert d acc; induction todo as [|[n c] todo IH]; intros d acc Hf; simpl.
    - rewrite app_nil_r. f_equal. f_equal. induction d as [|e d IHd]; [reflexivity|].
      rewrite filter_cons, decide_True by apply not_elem_of_nil. f_equal. exact IHd.
    - apply Forall_cons in Hf as [[He (rs & Hp)] Hf]. simpl in *. rewrite He, Hp. simpl.
      rewrite IH by assumption. rewrite <- filter_remove, app_assoc. reflexivity.
  Qed.
  Lemma filter_all_out (l : wdir) : filter (fun e => e.1 ∉ l.*1) l = [].
  Proof.
    assert (forall l0 : wdir, (forall e, e ∈ l0 -> e.1 ∈ l.*1) -> filter (fun e => e.1 ∉ l.*1) l0 = []) as H.
    { induction l0 as [|e l0 IH]; intros Hin; [reflexivity|]. rewrite filter_cons, decide_False.
      - apply IH. intros e' He'. apply Hin. right. exact He'.
      - intros Hn. apply Hn, Hin. left. }
    apply H. intros e He. apply elem_of_list_fmap. eauto.
  Qed.

  Lemma step_multi guess it :
    multi_behaved it -> step guess GMultiple [] it = Ok (GMultiple, [], Some (results guess it)).
  Proof.
    intros (Hr & Hn & Hf). unfold gcc_step. rewrite dir_write_empty, Hr. simpl.
    rewrite walk_dir_ok by assumption. simpl. rewrite filter_all_out. reflexivity.
  Qed.
  Lemma worker_multi guess items :
    Forall multi_behaved items -> worker guess GMultiple [] items = Ok (GMultiple, [], map (results guess) items).
  Proof.
    induction items as [|it items IH]; intros Hf; simpl; [reflexivity|].
    apply Forall_cons in Hf as [Hi Hf]. rewrite step_multi by assumption. simpl. rewrite IH by assumption. reflexivity.
  Qed.
  (* the latch: decided by the first item for which gcov ran *)
  Lemma worker_latch_multi guess it items :
    gi_run_ok it = true -> dir_lookup (expected it) (gi_left it) = None ->
    worker guess GUnknown [] (it :: items) = worker guess GMultiple [] (it :: items).
  Proof.
    intros Hr Hl. simpl. unfold gcc_step. rewrite dir_write_empty, Hr. simpl. fold (expected it). rewrite Hl. reflexivity.
  Qed.
  Lemma worker_latch_single guess it items c :
    gi_run_ok it = true -> dir_lookup (expected it) (gi_left it) = Some c ->
    worker guess GUnknown [] (it :: items) = worker guess GSingle [] (it :: items).
  Proof.
    intros Hr Hl. simpl. unfold gcc_step. rewrite dir_write_empty, Hr. simpl. fold (expected it). rewrite Hl. reflexivity.
  Qed.

  Lemma step_single guess it :
    single_behaved it -> step guess GSingle [] it = Ok (GSingle, [], Some (results guess it)).
  Proof.
    intros (Hr & c & rs & Hl & Hp). unfold gcc_step. rewrite dir_write_empty, Hr, Hl. simpl. fold (expected it).
    rewrite decide_True by reflexivity. rewrite Hp. unfold dir_remove. rewrite filter_cons, decide_False by (simpl; tauto).
    rewrite filter_nil. unfold item_results. rewrite Hl. simpl. rewrite Hp, app_nil_r. reflexivity.
  Qed.
  Lemma worker_single guess items :
    Forall single_behaved items -> worker guess GSingle [] items = Ok (GSingle, [], map (results guess) items).
  Proof.
    induction items as [|it items IH]; intros Hf; simpl; [reflexivity|].
    apply Forall_cons in Hf as [Hi Hf]. rewrite step_single by assumption. simpl. rewrite IH by assumption. reflexivity.
  Qed.
  (* a hazard of the latch: once SingleFile is latched, an item for which gcov wrote nothing under the expected name panics *)
  Lemma step_single_missing_panics guess it :
    gi_run_ok it = true -> dir_lookup (expected it) (gi_left it) = None -> step guess GSingle [] it = Panic.
  Proof. intros Hr Hl. unfold gcc_step. rewrite dir_write_empty, Hr. simpl. fold (expected it). rewrite Hl. reflexivity. Qed.

  (* well-behaved gcov: either naming regime, from the initial latch *)
  Definition behaved (items : list gitem) : Prop :=
    Forall single_behaved items \/
    (Forall multi_behaved items /\ match items with it :: _ => dir_lookup (expected it) (gi_left it) = None | [] => True end).

  Lemma worker_behaved guess items :
    behaved items -> exists ty, worker guess GUnknown [] items = Ok (ty, [], map (results guess) items).
  Proof.
    intros [Hs|[Hm Hfirst]]; destruct items as [|it items].
    - eexists; reflexivity.
    - pose proof Hs as Hs'. apply Forall_cons in Hs' as [(Hr & c & rs & Hl & Hp) _].
      rewrite (worker_latch_single _ _ _ c); [|assumption|rewrite Hl; simpl; rewrite decide_True; reflexivity].
      rewrite worker_single by assumption. eexists; reflexivity.
    - eexists; reflexivity.
    - pose proof Hm as Hm'. apply Forall_cons in Hm' as [(Hr & _) _].
      rewrite worker_latch_multi by assumption. rewrite worker_multi by assumption. eexists; reflexivity.
  Qed.

  Lemma concat_map_flat {A B} (f : A -> list B) l : concat (map f l) = flat_map f l.
  Proof. induction l; simpl; [reflexivity|]. rewrite IHl. reflexivity. Qed.

  (* the report: every split of the items over workers, every order in which the workers add their batches *)
  Lemma gcc_report_is_agg guess m (parts : list (list gitem)) items bs :
    Forall behaved parts -> concat parts ≡ₚ items ->
    (* bs: the batches in the order they were added; a permutation of what the workers produced *)
    bs ≡ₚ concat (map (fun w => match worker guess GUnknown [] w with Ok (_, _, b) => b | _ => [] end) parts) ->
    Forall (fun w => exists ty, worker guess GUnknown [] w = Ok (ty, [], map (results guess) w)) parts /\
    obs_map (add_batches m bs) = obs_map (add_results m (flat_map (results guess) items)).
  Proof.
    intros Hb Hp Hbs. split.
    - eapply Forall_impl; [exact Hb|]. intros w Hw. apply worker_behaved, Hw.
    - rewrite (add_batches_perm_obs _ _ _ Hbs), add_batches_concat.
      apply add_results_perm_obs.
      assert (concat (map (fun w => match worker guess GUnknown [] w with Ok (_, _, b) => b | _ => [] end) parts)
              = map (results guess) (concat parts)) as ->.
      { clear Hp Hbs. induction parts as [|w parts IH]; [reflexivity|]. apply Forall_cons in Hb as [Hw Hb].
        simpl. destruct (worker_behaved guess w Hw) as [ty ->]. rewrite map_app, IH by assumption. reflexivity. }
      rewrite concat_map_flat. apply flat_map_perm, Hp.
  Qed.

  (** gcov failures (fix 1aab954): the worker directory is emptied, the item contributes nothing, the latch is untouched *)
  Definition good (items : list gitem) : list gitem := filter (fun it => gi_run_ok it = true) items.
  Lemma good_cons_ok it items : gi_run_ok it = true -> good (it :: items) = it :: good items.
  Proof. intros H. unfold good. rewrite filter_cons, decide_True by assumption. reflexivity. Qed.
  Lemma good_cons_failed it items : gi_run_ok it = false -> good (it :: items) = good items.
  Proof. intros H. unfold good. rewrite filter_cons, decide_False by congruence. reflexivity. Qed.
  Lemma good_app a b : good (a ++ b) = good a ++ good b.
  Proof. apply filter_app. Qed.
  Lemma good_good items : good (good items) = good items.
  Proof.
    induction items as [|it items IH]; [reflexivity|]. destruct (gi_run_ok it) eqn:E.
    - rewrite good_cons_ok by assumption. rewrite good_cons_ok by assumption. rewrite IH. reflexivity.
    - rewrite good_cons_failed by assumption. exact IH.
  Qed.
  Lemma good_concat parts : good (concat parts) = concat (map good parts).
  Proof. induction parts as [|w parts IH]; [reflexivity|]. simpl. rewrite good_app, IH. reflexivity. Qed.
  Lemma good_perm items items' : items ≡ₚ items' -> good items ≡ₚ good items'.
  Proof.
    induction 1 as [|x l l' _ IH|x y l|l1 l2 l3 _ IH1 _ IH2].
    - reflexivity.
    - destruct (gi_run_ok x) eqn:E; [rewrite !good_cons_ok by assumption; constructor; exact IH|
                                     rewrite !good_cons_failed by assumption; exact IH].
    - destruct (gi_run_ok x) eqn:Ex, (gi_run_ok y) eqn:Ey;
        rewrite ?good_cons_ok, ?good_cons_failed by assumption;
        rewrite ?good_cons_ok, ?good_cons_failed by assumption; try reflexivity. constructor.
    - etransitivity; eassumption.
  Qed.

  Lemma step_failed guess ty d it : gi_run_ok it = false -> step guess ty d it = Ok (ty, [], None).
  Proof. intros Hr. unfold gcc_step. rewrite Hr. reflexivity. Qed.
  Lemma worker_skip_failed guess ty d it items :
    gi_run_ok it = false -> worker guess ty d (it :: items) = worker guess ty [] items.
  Proof.
    intros Hr. cbn [gcc_worker]. rewrite step_failed by assumption. cbn [obind].
    destruct (worker guess ty [] items) as [[[ty' d'] b]| | |]; reflexivity.
  Qed.
  Lemma worker_multi_f guess items :
    Forall multi_behaved (good items) ->
    worker guess GMultiple [] items = Ok (GMultiple, [], map (results guess) (good items)).
  Proof.
    induction items as [|it items IH]; intros Hf; [reflexivity|]. destruct (gi_run_ok it) eqn:E.
    - rewrite good_cons_ok in * by assumption. apply Forall_cons in Hf as [Hi Hf].
      cbn [gcc_worker]. rewrite step_multi by assumption. cbn [obind]. rewrite IH by assumption. reflexivity.
    - rewrite good_cons_failed in * by assumption. rewrite worker_skip_failed by assumption. apply IH, Hf.
  Qed.
  Lemma worker_single_f guess items :
    Forall single_behaved (good items) ->
    worker guess GSingle [] items = Ok (GSingle, [], map (results guess) (good items)).
  Proof.
    induction items as [|it items IH]; intros Hf; [reflexivity|]. destruct (gi_run_ok it) eqn:E.
    - rewrite good_cons_ok in * by assumption. apply Forall_cons in Hf as [Hi Hf].
      cbn [gcc_worker]. rewrite step_single by assumption. cbn [obind]. rewrite IH by assumption. reflexivity.
    - rewrite good_cons_failed in * by assumption. rewrite worker_skip_failed by assumption. apply IH, Hf.
  Qed.
  Lemma worker_behaved_f guess items :
    behaved (good items) -> exists ty, worker guess GUnknown [] items = Ok (ty, [], map (results guess) (good items)).
  Proof.
    induction items as [|it items IH]; intros Hb; [eexists; reflexivity|]. destruct (gi_run_ok it) eqn:E.
    - destruct Hb as [Hs|[Hm Hfirst]]; rewrite good_cons_ok in * by assumption.
      + pose proof Hs as Hs'. apply Forall_cons in Hs' as [(Hr & c & rs & Hl & Hp) _].
        rewrite (worker_latch_single _ _ _ c); [|assumption|rewrite Hl; simpl; rewrite decide_True; reflexivity].
        rewrite worker_single_f by (rewrite good_cons_ok by assumption; assumption).
        rewrite good_cons_ok by assumption. eexists; reflexivity.
      + rewrite worker_latch_multi by assumption.
        rewrite worker_multi_f by (rewrite good_cons_ok by assumption; assumption).
        rewrite good_cons_ok by assumption. eexists; reflexivity.
    - rewrite good_cons_failed in * by assumption. rewrite worker_skip_failed by assumption. apply IH, Hb.
  Qed.

  Notation out guess := (fun w => match worker guess GUnknown [] w with Ok (_, _, b) => b | _ => [] end).
  Lemma gcc_report_with_failures guess m (parts : list (list gitem)) items bs :
    Forall (fun w => behaved (good w)) parts -> concat parts ≡ₚ items ->
    bs ≡ₚ concat (map (out guess) parts) ->
    obs_map (add_batches m bs) = obs_map (add_results m (flat_map (results guess) (good items))).
  Proof.
    intros Hb Hp Hbs. rewrite (add_batches_perm_obs _ _ _ Hbs), add_batches_concat.
    apply add_results_perm_obs.
    assert (concat (map (out guess) parts) = map (results guess) (good (concat parts))) as ->.
    { clear Hp Hbs. induction parts as [|w parts IH]; [reflexivity|]. apply Forall_cons in Hb as [Hw Hb].
      simpl. destruct (worker_behaved_f guess w Hw) as [ty ->]. rewrite good_app, map_app, IH by assumption. reflexivity. }
    rewrite concat_map_flat. apply flat_map_perm, good_perm, Hp.
  Qed.
  (* the report of a run with failing items equals the report of the run without them, for every split over workers *)
  Lemma gcc_failed_item_contributes_nothing guess m (parts : list (list gitem)) bs bs' :
    Forall (fun w => behaved (good w)) parts ->
    bs ≡ₚ concat (map (out guess) parts) ->
    bs' ≡ₚ concat (map (out guess) (map good parts)) ->
    obs_map (add_batches m bs) = obs_map (add_batches m bs').
  Proof.
    intros Hb Hbs Hbs'.
    rewrite (gcc_report_with_failures guess m parts (concat parts) bs Hb (reflexivity _) Hbs).
    rewrite (gcc_report_with_failures guess m (map good parts) (concat (map good parts)) bs'); [| |reflexivity|exact Hbs'].
    - rewrite <- good_concat, good_good. reflexivity.
    - apply Forall_fmap. eapply Forall_impl; [exact Hb|]. intros w Hw. simpl. rewrite good_good. exact Hw.
  Qed.
End Gcc.
