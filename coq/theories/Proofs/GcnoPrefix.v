(* C14 gcda_prefix_safe: reading a prefix p of a gcda d (what a killed process leaves behind) gives an error, or
   exactly the state that reading d has at one of its record boundaries: the counters of the complete records of p,
   never counts that were not in the file. *)
From Grcov Require Import Model.GcnoCount Proofs.GcnoBase.
From Coq Require Import ZifyBool ZifyN ZifyNat.

Section arith.
Context (W : N -> N).

(* one iteration of the record loop of read_gcda: inl = the loop goes on with (state, current function, rest),
   inr = the loop ends with that outcome *)
Definition gcda_step (le : bool) (version : N) (g : gcno) (cur : option N) (l : bytes)
  : (gcno * option N * bytes) + outcome gcno :=
  match read_u32 le l with
  | None => inr (Ok g)
  | Some (tag, l1) =>
      if tag =? 0 then inr (Ok g) else
      match read_u32 le l1 with
      | None => inr Err
      | Some (length, body) =>
          let continue g cur := match next_record length body with
                                | None => inr Err
                                | Some l' => inl (g, cur, l')
                                end in
          if tag =? TAG_FUNCTION then
            if length =? 0 then inl (g, cur, body)
            else if length =? 1 then inr Err
            else
              match read_u32 le body with None => inr Err | Some (id, b1) =>
              match read_u32 le b1 with None => inr Err | Some (lsum, b2) =>
              match (if 47 <=? version then match read_u32 le b2 with None => Err | Some (c, _) => Ok c end else Ok 0) with
              | Ok csum =>
                match find_ident id (g_funs g) with
                | None => inr Err
                | Some fid =>
                    match nthN (g_funs g) fid with
                    | None => inr Panic
                    | Some f => if negb (lsum =? f_line_sum f) || negb (csum =? f_cfg_sum f) then inr Err
                                else continue g (Some fid)
                    end
                end
              | Err => inr Err | Panic => inr Panic | OutOfFuel => inr OutOfFuel
              end end end
          else if tag =? TAG_COUNTER_ARCS then
            match cur with
            | None => inl (g, cur, body)
            | Some fid =>
                match nthN (g_funs g) fid with
                | None => inr Panic
                | Some f =>
                    if negb (wrap32 (f_real f) =? length / 2) then inr Err else
                    match add_counters W le (f_edges f) [] (f_blocks f) body with
                    | Ok (ed, bl, _) => continue (set_funs g (alterN (fun f => set_graph f bl ed (f_real f)) fid (g_funs g))) cur
                    | Err => inr Err | Panic => inr Panic | OutOfFuel => inr OutOfFuel
                    end
                end
            end
          else if tag =? TAG_OBJECT_SUMMARY then
            match read_u32 le body with None => inr Err | Some (runcounts, b1) =>
            match skip 4 b1 with None => inr Err | Some b2 =>
            match (if length =? 9 then match read_u32 le b2 with None => Err | Some (r, _) => Ok r end else Ok runcounts) with
            | Ok r => continue (mkGcno (g_version g) (g_checksum g) (g_funs g) (wrap32 (g_runs g + r)) (g_programs g)) cur
            | Err => inr Err | Panic => inr Panic | OutOfFuel => inr OutOfFuel
            end end end
          else if tag =? TAG_PROGRAM_SUMMARY then
            match (if 0 <? length then
                     match skip 4 body with None => Err | Some b1 =>
                     match skip 4 b1 with None => Err | Some b2 =>
                     match read_u32 le b2 with None => Err | Some (r, _) =>
                     Ok (mkGcno (g_version g) (g_checksum g) (g_funs g) (wrap32 (g_runs g + r)) (g_programs g))
                     end end end
                   else Ok g) with
            | Ok g1 => continue (mkGcno (g_version g1) (g_checksum g1) (g_funs g1) (g_runs g1) (wrap32 (g_programs g1 + 1))) cur
            | Err => inr Err | Panic => inr Panic | OutOfFuel => inr OutOfFuel
            end
          else continue g cur
      end
  end.

Lemma read_gcda_loop_step le version fuel g cur l :
  read_gcda_loop W le version (S fuel) g cur l =
  match gcda_step le version g cur l with
  | inl (g', cur', l') => read_gcda_loop W le version fuel g' cur' l'
  | inr o => o
  end.
Proof.
  cbn [read_gcda_loop]. unfold gcda_step.
  destruct (read_u32 le l) as [[tag l1]|]; [|done]. destruct (tag =? 0); [done|].
  destruct (read_u32 le l1) as [[len body]|]; [|done]. cbv zeta.
  destruct (tag =? TAG_FUNCTION).
  { destruct (len =? 0); [done|]. destruct (len =? 1); [done|].
    destruct (read_u32 le body) as [[id b1]|]; [|done]. destruct (read_u32 le b1) as [[lsum b2]|]; [|done].
    destruct (if 47 <=? version then _ else _) as [csum| | |]; cbn [obind]; try done.
    destruct (find_ident id (g_funs g)) as [fid|]; [|done]. destruct (nthN (g_funs g) fid); [|done].
    destruct (_ || _); [done|]. by destruct (next_record len body). }
  destruct (tag =? TAG_COUNTER_ARCS).
  { destruct cur as [fid|]; [|done]. destruct (nthN (g_funs g) fid); [|done]. destruct (negb _); [done|].
    destruct (add_counters W le _ [] _ body) as [[[ed bl] ?]| | |]; cbn [obind]; try done. by destruct (next_record len body). }
  destruct (tag =? TAG_OBJECT_SUMMARY).
  { destruct (read_u32 le body) as [[rc b1]|]; [|done]. destruct (skip 4 b1) as [b2|]; [|done].
    destruct (if len =? 9 then _ else _) as [r| | |]; cbn [obind]; try done. by destruct (next_record len body). }
  destruct (tag =? TAG_PROGRAM_SUMMARY).
  { destruct (if 0 <? len then _ else _) as [g1| | |]; cbn [obind]; try done. by destruct (next_record len body). }
  by destruct (next_record len body).
Qed.

(* ---- reads that succeed on a buffer succeed with the same value on every extension of it ---- *)
Lemma read_u32_app le lp k w r : read_u32 le lp = Some (w, r) -> read_u32 le (lp ++ k) = Some (w, r ++ k).
Proof. destruct lp as [|b0 [|b1 [|b2 [|b3 r0]]]]; try done. by intros [= <- <-]. Qed.
Lemma split_at_app {A} n (lp k a b : list A) : split_at n lp = Some (a, b) -> split_at n (lp ++ k) = Some (a, b ++ k).
Proof.
  revert n a b. induction lp as [|x lp IH]; intros n a b; cbn [split_at app].
  - destruct (n =? 0) eqn:E; [|done]. intros [= <- <-]. destruct k; cbn [split_at]; by rewrite ?E.
  - destruct (n =? 0); [by intros [= <- <-]|]. destruct (split_at (N.pred n) lp) as [[a0 b0]|] eqn:E; [|done].
    intros [= <- <-]. by rewrite (IH _ _ _ E).
Qed.
Lemma skip_app n lp k r : skip n lp = Some r -> skip n (lp ++ k) = Some (r ++ k).
Proof.
  unfold skip. destruct (split_at n lp) as [[a b]|] eqn:E; [|done]. rewrite (split_at_app _ _ k _ _ E).
  destruct b; [done|]. by intros [= <-].
Qed.
Lemma read_counter_app le lp k w r : read_counter le lp = Some (w, r) -> read_counter le (lp ++ k) = Some (w, r ++ k).
Proof.
  unfold read_counter. destruct (read_u32 le lp) as [[lo l1]|] eqn:E1; [|done]. rewrite (read_u32_app _ _ k _ _ E1).
  destruct (read_u32 le l1) as [[hi l2]|] eqn:E2; [|done]. rewrite (read_u32_app _ _ k _ _ E2). by intros [= <- <-].
Qed.
Lemma add_counters_app le todo done blocks lp k ed bl r :
  add_counters W le todo done blocks lp = Ok (ed, bl, r) -> add_counters W le todo done blocks (lp ++ k) = Ok (ed, bl, r ++ k).
Proof.
  revert done blocks lp. induction todo as [|e todo IH]; intros done blocks lp; cbn [add_counters].
  - by intros [= <- <- <-].
  - destruct (is_on_tree e); [apply IH|]. destruct (read_counter le lp) as [[c l']|] eqn:E; [|done].
    rewrite (read_counter_app _ _ k _ _ E). destruct (nthN blocks (e_src e)); [|done]. apply IH.
Qed.

Lemma gcda_step_app le version g cur lp k :
  match gcda_step le version g cur lp with
  | inl (g', cur', lp') => gcda_step le version g cur (lp ++ k) = inl (g', cur', lp' ++ k)
  | inr (Ok g'') => g'' = g
  | inr _ => True
  end.
Proof.
  unfold gcda_step.
  destruct (read_u32 le lp) as [[tag l1]|] eqn:E1; [|done]. rewrite (read_u32_app _ _ k _ _ E1).
  destruct (tag =? 0); [done|].
  destruct (read_u32 le l1) as [[len body]|] eqn:E2; [|done]. rewrite (read_u32_app _ _ k _ _ E2). cbv zeta.
  assert (Hnext : forall g' cur', match (match next_record len body with None => inr Err | Some l' => inl (g', cur', l') end) with
                                  | inl (g'', cur'', lp') => (match next_record len (body ++ k) with None => inr Err | Some l' => inl (g', cur', l') end)
                                                             = inl (g'', cur'', lp' ++ k) :> (gcno * option N * bytes) + outcome gcno
                                  | inr (Ok g'') => g'' = g
                                  | inr _ => True
                                  end).
  { intros g' cur'. unfold next_record. destruct (skip (4 * len) body) as [l'|] eqn:E; [|done]. by rewrite (skip_app _ _ k _ E). }
  destruct (tag =? TAG_FUNCTION).
  { destruct (len =? 0); [done|]. destruct (len =? 1); [done|].
    destruct (read_u32 le body) as [[id b1]|] eqn:E3; [|done]. rewrite (read_u32_app _ _ k _ _ E3).
    destruct (read_u32 le b1) as [[lsum b2]|] eqn:E4; [|done]. rewrite (read_u32_app _ _ k _ _ E4).
    assert (Hc : forall c, (if 47 <=? version then match read_u32 le b2 with None => Err | Some (c, _) => Ok c end else Ok 0) = Ok c ->
                 (if 47 <=? version then match read_u32 le (b2 ++ k) with None => Err | Some (c, _) => Ok c end else Ok 0) = Ok c).
    { intros c. destruct (47 <=? version); [|done]. destruct (read_u32 le b2) as [[c0 r]|] eqn:E5; [|done].
      by rewrite (read_u32_app _ _ k _ _ E5). }
    destruct (if 47 <=? version then match read_u32 le b2 with None => Err | Some (c, _) => Ok c end else Ok 0) as [csum| | |]; try done.
    rewrite (Hc _ eq_refl).
    destruct (find_ident id (g_funs g)) as [fid|]; [|done]. destruct (nthN (g_funs g) fid); [|done].
    destruct (_ || _); [done|]. apply Hnext. }
  destruct (tag =? TAG_COUNTER_ARCS).
  { destruct cur as [fid|]; [|done]. destruct (nthN (g_funs g) fid) as [f|]; [|done]. destruct (negb _); [done|].
    destruct (add_counters W le (f_edges f) [] (f_blocks f) body) as [[[ed bl] r]| | |] eqn:E; try done.
    rewrite (add_counters_app _ _ _ _ _ k _ _ _ E). apply Hnext. }
  destruct (tag =? TAG_OBJECT_SUMMARY).
  { destruct (read_u32 le body) as [[rc b1]|] eqn:E3; [|done]. rewrite (read_u32_app _ _ k _ _ E3).
    destruct (skip 4 b1) as [b2|] eqn:E4; [|done]. rewrite (skip_app _ _ k _ E4).
    assert (Hr : forall r, (if len =? 9 then match read_u32 le b2 with None => Err | Some (r, _) => Ok r end else Ok rc) = Ok r ->
                 (if len =? 9 then match read_u32 le (b2 ++ k) with None => Err | Some (r, _) => Ok r end else Ok rc) = Ok r).
    { intros r. destruct (len =? 9); [|done]. destruct (read_u32 le b2) as [[r0 ?]|] eqn:E5; [|done]. by rewrite (read_u32_app _ _ k _ _ E5). }
    destruct (if len =? 9 then match read_u32 le b2 with None => Err | Some (r, _) => Ok r end else Ok rc) as [r| | |]; try done.
    rewrite (Hr _ eq_refl). apply Hnext. }
  destruct (tag =? TAG_PROGRAM_SUMMARY).
  { assert (Hp : forall g1, (if 0 <? len then match skip 4 body with None => Err | Some b1 => match skip 4 b1 with None => Err | Some b2 =>
                               match read_u32 le b2 with None => Err | Some (r, _) => Ok (mkGcno (g_version g) (g_checksum g) (g_funs g) (wrap32 (g_runs g + r)) (g_programs g)) end end end
                             else Ok g) = Ok g1 ->
                 (if 0 <? len then match skip 4 (body ++ k) with None => Err | Some b1 => match skip 4 b1 with None => Err | Some b2 =>
                               match read_u32 le b2 with None => Err | Some (r, _) => Ok (mkGcno (g_version g) (g_checksum g) (g_funs g) (wrap32 (g_runs g + r)) (g_programs g)) end end end
                             else Ok g) = Ok g1).
    { intros g1. destruct (0 <? len); [|done]. destruct (skip 4 body) as [b1|] eqn:E3; [|done]. rewrite (skip_app _ _ k _ E3).
      destruct (skip 4 b1) as [b2|] eqn:E4; [|done]. rewrite (skip_app _ _ k _ E4).
      destruct (read_u32 le b2) as [[r ?]|] eqn:E5; [|done]. by rewrite (read_u32_app _ _ k _ _ E5). }
    destruct (if 0 <? len then _ else Ok g) as [g1| | |] eqn:Eg; try done.
    rewrite (Hp _ eq_refl). apply Hnext. }
  apply Hnext.
Qed.

(* the states the record loop of the run on l passes through, at record boundaries *)
Inductive boundary (le : bool) (version : N) : gcno -> option N -> bytes -> gcno -> Prop :=
  | boundary_here g cur l : boundary le version g cur l g
  | boundary_step g cur l g' cur' l' gp :
      gcda_step le version g cur l = inl (g', cur', l') -> boundary le version g' cur' l' gp -> boundary le version g cur l gp.

Lemma read_gcda_loop_prefix le version fuel g cur lp k gp :
  read_gcda_loop W le version fuel g cur lp = Ok gp -> boundary le version g cur (lp ++ k) gp.
Proof.
  revert g cur lp. induction fuel as [|fuel IH]; intros g cur lp; [done|].
  rewrite read_gcda_loop_step. pose proof (gcda_step_app le version g cur lp k) as Hs.
  destruct (gcda_step le version g cur lp) as [[[g' cur'] lp']|o].
  - intros H. eapply boundary_step; [exact Hs|]. by apply IH.
  - destruct o; try done. intros [= <-]. subst. constructor.
Qed.

(* the header of d as read_gcda reads it, and what follows *)
Definition gcda_body (d : bytes) : option (bool * N * bytes) :=
  match guess_endianness 97 100 99 103 d with
  | Some (le, l0) =>
      match read_version le l0 with
      | Ok (v, l1) => match read_u32 le l1 with Some (_, l2) => Some (le, v, l2) | None => None end
      | _ => None
      end
  | None => None
  end.

Theorem gcda_prefix_safe g p k gp :
  read_gcda W g p = Ok gp ->
  exists le version l2, gcda_body (p ++ k) = Some (le, version, l2) /\ boundary le version g None l2 gp.
Proof.
  unfold read_gcda, gcda_body.
  destruct p as [|b0 [|b1 [|b2 [|b3 l0]]]]; try done. cbn [guess_endianness app].
  destruct (_ && _).
  - destruct l0 as [|c0 [|c1 [|c2 [|c3 l1]]]]; try done. cbn [read_version app].
    destruct (_ && _); cbn [obind]; [|destruct (_ && _); cbn [obind]; [|done]].
    all: destruct (negb _); [done|]; destruct (read_u32 true l1) as [[c l2]|] eqn:E; [|done];
      rewrite (read_u32_app _ _ k _ _ E); destruct (negb _); [done|]; intros H; eexists _, _, _; split; [done|];
      by eapply read_gcda_loop_prefix.
  - destruct (_ && _); [|done].
    destruct l0 as [|c0 [|c1 [|c2 [|c3 l1]]]]; try done. cbn [read_version app].
    destruct (_ && _); cbn [obind]; [|destruct (_ && _); cbn [obind]; [|done]].
    all: destruct (negb _); [done|]; destruct (read_u32 false l1) as [[c l2]|] eqn:E; [|done];
      rewrite (read_u32_app _ _ k _ _ E); destruct (negb _); [done|]; intros H; eexists _, _, _; split; [done|];
      by eapply read_gcda_loop_prefix.
Qed.
End arith.
