(* C15, laws that follow from the structure of read_gcda: a gcda whose version, checksum or function checksums
   do not match is an error wherever it occurs in the list. *)
From Grcov Require Import Model.GcnoCount Proofs.GcnoBase Proofs.GcnoReadSafe Proofs.GcnoShape.
From Coq Require Import ZifyBool ZifyN ZifyNat.

(* the header of a gcda as read_gcda reads it: (version, checksum) *)
Definition gcda_header (d : bytes) : option (N * N) :=
  match guess_endianness 97 100 99 103 d with
  | Some (le, l0) =>
      match read_version le l0 with
      | Ok (v, l1) => match read_u32 le l1 with Some (c, _) => Some (v, c) | None => None end
      | _ => None
      end
  | None => None
  end.
(* the first record, when it is a FUNCTION record of length >= 2: (identifier, line checksum, cfg checksum) *)
Definition gcda_first_function (d : bytes) : option (N * N * N) :=
  match guess_endianness 97 100 99 103 d with
  | Some (le, l0) =>
      match read_version le l0 with
      | Ok (v, l1) =>
          match read_u32 le l1 with
          | Some (_, l2) =>
              match read_u32 le l2 with
              | Some (tag, l3) =>
                  match read_u32 le l3 with
                  | Some (len, body) =>
                      if (tag =? TAG_FUNCTION) && (2 <=? len) then
                        match read_u32 le body with
                        | Some (id, b1) =>
                            match read_u32 le b1 with
                            | Some (lsum, b2) =>
                                if 47 <=? v then match read_u32 le b2 with Some (csum, _) => Some (id, lsum, csum) | None => None end
                                else Some (id, lsum, 0)
                            | None => None
                            end
                        | None => None
                        end
                      else None
                  | None => None
                  end
              | None => None
              end
          | None => None
          end
      | _ => None
      end
  | None => None
  end.

Lemma ofold_app {A B} (f : B -> A -> outcome B) l1 l2 b :
  ofold f (l1 ++ l2) b = let* b' := ofold f l1 b in ofold f l2 b'.
Proof.
  revert b. induction l1 as [|x l1 IH]; intros b; cbn [ofold app]; [done|].
  destruct (f b x); cbn; [apply IH|done|done|done].
Qed.

Lemma find_ident_aux_shape id fs fs' i found :
  map f_ident fs = map f_ident fs' -> find_ident_aux id fs i found = find_ident_aux id fs' i found.
Proof.
  revert fs' i found. induction fs as [|f fs IH]; intros [|f' fs'] i found; cbn [map find_ident_aux]; try done.
  intros [= -> H]. by apply IH.
Qed.
Lemma gshape_idents g g' : gshape g' = gshape g -> map f_ident (g_funs g') = map f_ident (g_funs g).
Proof.
  unfold gshape. intros [= _ _ H]. revert H. generalize (g_funs g') (g_funs g).
  induction l as [|f l IH]; intros [|f0 l0]; cbn [map]; try done. intros [= Hf Hl]. f_equal; [|by apply IH].
  unfold fshape in Hf. congruence.
Qed.
Lemma gshape_nth g g' i f' :
  gshape g' = gshape g -> nthN (g_funs g') i = Some f' -> exists f, nthN (g_funs g) i = Some f /\ fshape f' = fshape f.
Proof.
  unfold gshape. intros H. assert (Hm : map fshape (g_funs g') = map fshape (g_funs g)) by congruence. clear H.
  rewrite !nthN_lookup. intros Hl.
  assert (He : (fshape <$> g_funs g') !! N.to_nat i = (fshape <$> g_funs g) !! N.to_nat i) by (change (fshape <$> g_funs g') with (map fshape (g_funs g')); by rewrite Hm).
  rewrite !list_lookup_fmap, Hl in He. cbn in He.
  destruct (g_funs g !! N.to_nat i) as [f|]; cbn in He; [|done]. assert (fshape f' = fshape f) by congruence. by exists f.
Qed.

Section arith.
Context (W : N -> N) (Wsub : N -> N -> N).

Lemma read_gcda_unfold g d :
  read_gcda W g d =
  match guess_endianness 97 100 99 103 d with
  | None => Err
  | Some (le, l0) =>
      match read_version le l0 with
      | Ok (v, l1) =>
          if negb (v =? g_version g) then Err else
          match read_u32 le l1 with
          | None => Err
          | Some (c, l2) => if negb (c =? g_checksum g) then Err
                            else read_gcda_loop W le v (S (length d)) g None l2
          end
      | _ => Err
      end
  end.
Proof.
  unfold read_gcda. destruct (guess_endianness _ _ _ _ d) as [[le l0]|]; [|done].
  pose proof (read_version_good le l0) as Hv. destruct (read_version le l0) as [[v l1]| | |]; cbn in Hv |- *; done.
Qed.

Lemma header_mismatch_err g d :
  (forall v c, gcda_header d = Some (v, c) -> v <> g_version g \/ c <> g_checksum g) -> read_gcda W g d = Err.
Proof.
  rewrite read_gcda_unfold. unfold gcda_header. intros H.
  destruct (guess_endianness _ _ _ _ d) as [[le l0]|]; [|done].
  destruct (read_version le l0) as [[v l1]| | |]; try done.
  destruct (N.eqb_spec v (g_version g)) as [->|]; [|done]. cbn [negb].
  destruct (read_u32 le l1) as [[c l2]|]; [|done].
  destruct (N.eqb_spec c (g_checksum g)) as [->|]; [|done].
  destruct (H _ _ eq_refl); congruence.
Qed.

Lemma function_mismatch_err g d id lsum csum fid f :
  gcda_first_function d = Some (id, lsum, csum) ->
  find_ident id (g_funs g) = Some fid -> nthN (g_funs g) fid = Some f ->
  lsum <> f_line_sum f \/ csum <> f_cfg_sum f ->
  read_gcda W g d = Err.
Proof.
  rewrite read_gcda_unfold. unfold gcda_first_function. intros H Hfid Hf Hne.
  destruct (guess_endianness _ _ _ _ d) as [[le l0]|]; [|done].
  destruct (read_version le l0) as [[v l1]| | |]; try done.
  destruct (negb _); [done|].
  destruct (read_u32 le l1) as [[c l2]|]; [|done].
  destruct (negb _); [done|]. cbn [read_gcda_loop].
  destruct (read_u32 le l2) as [[tag l3]|]; [|done].
  destruct (read_u32 le l3) as [[len body]|]; [|by destruct (tag =? 0)].
  destruct (N.eqb_spec tag TAG_FUNCTION) as [->|]; [|done].
  destruct (N.leb_spec 2 len) as [Hlen|]; [|done]. cbn [andb] in H.
  replace (TAG_FUNCTION =? 0) with false by done. cbv zeta.
  replace (TAG_FUNCTION =? TAG_FUNCTION) with true by done.
  destruct (N.eqb_spec len 0); [lia|]. destruct (N.eqb_spec len 1); [lia|].
  destruct (read_u32 le body) as [[id' b1]|]; [|done].
  destruct (read_u32 le b1) as [[lsum' b2]|]; [|done].
  assert (Hc : (if 47 <=? v then match read_u32 le b2 with Some (c0, _) => Ok c0 | None => Err end else Ok 0) = Ok csum
               /\ id' = id /\ lsum' = lsum).
  { destruct (47 <=? v); [destruct (read_u32 le b2) as [[? ?]|]; [|done]|]; injection H as <- <- <-; done. }
  destruct Hc as (-> & -> & ->). cbn [obind]. rewrite Hfid, Hf.
  destruct (N.eqb_spec lsum (f_line_sum f)), (N.eqb_spec csum (f_cfg_sum f)); cbn [negb orb]; try done.
  destruct Hne; congruence.
Qed.

(* an error that depends on the shape only is an error wherever the gcda occurs in the list *)
Lemma err_anywhere g ds1 d ds2 :
  wf_gcno g -> (forall g', gshape g' = gshape g -> read_gcda W g' d = Err) ->
  ofold (read_gcda W) (ds1 ++ d :: ds2) g = Err.
Proof.
  intros Hwf Herr. rewrite ofold_app.
  pose proof (read_gcdas_shape W g ds1) as Hs.
  assert (Hg : good wf_gcno (ofold (read_gcda W) ds1 g)).
  { apply good_ofold; [done|]. intros g' d0 ? _. by apply read_gcda_good. }
  destruct (ofold (read_gcda W) ds1 g) as [g1| | |]; cbn in Hg |- *; try done.
  rewrite Herr; [done|]. by apply Hs.
Qed.

Theorem mismatch_is_error_header gcno_buf g ds1 d ds2 br :
  read_gcno gcno_buf = Ok g ->
  (forall v c, gcda_header d = Some (v, c) -> v <> g_version g \/ c <> g_checksum g) ->
  compute_map_gen W Wsub gcno_buf (ds1 ++ d :: ds2) br = Err.
Proof.
  intros Hg Hm. unfold compute_map_gen. rewrite Hg. cbn.
  pose proof (read_gcno_good gcno_buf) as Hwf. rewrite Hg in Hwf. cbn in Hwf.
  rewrite err_anywhere; [done|done|].
  intros g' Hs. apply header_mismatch_err. intros v c Hh. unfold gshape in Hs. injection Hs as -> -> _. by apply Hm.
Qed.

Theorem mismatch_is_error_function gcno_buf g ds1 d ds2 br id lsum csum fid f :
  read_gcno gcno_buf = Ok g ->
  gcda_first_function d = Some (id, lsum, csum) ->
  find_ident id (g_funs g) = Some fid -> nthN (g_funs g) fid = Some f ->
  lsum <> f_line_sum f \/ csum <> f_cfg_sum f ->
  compute_map_gen W Wsub gcno_buf (ds1 ++ d :: ds2) br = Err.
Proof.
  intros Hg Hfn Hfid Hf Hne. unfold compute_map_gen. rewrite Hg. cbn.
  pose proof (read_gcno_good gcno_buf) as Hwf. rewrite Hg in Hwf. cbn in Hwf.
  rewrite err_anywhere; [done|done|].
  intros g' Hs.
  assert (Hfid' : find_ident id (g_funs g') = Some fid).
  { unfold find_ident. rewrite (find_ident_aux_shape id _ (g_funs g)); [done|]. by apply gshape_idents. }
  destruct (nthN (g_funs g') fid) as [f'|] eqn:Hf'.
  - destruct (gshape_nth _ _ _ _ Hs Hf') as (f0 & Hf0 & Hsh). rewrite Hf in Hf0. injection Hf0 as <-.
    eapply function_mismatch_err; [exact Hfn|exact Hfid'|exact Hf'|].
    unfold fshape in Hsh. assert (f_line_sum f' = f_line_sum f /\ f_cfg_sum f' = f_cfg_sum f) as [-> ->] by (split; congruence). done.
  - exfalso. apply nthN_None_ge in Hf'. apply nthN_Some_lt in Hf.
    pose proof (gshape_idents _ _ Hs) as Hi. apply (f_equal length) in Hi. rewrite !map_length in Hi. unfold lenN in *. lia.
Qed.
End arith.
