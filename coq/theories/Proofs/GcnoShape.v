(* Shapes: what of the decoded structures does NOT depend on run data.  Reading a gcda and counting change
   counters only.  [post P o] = partial correctness (P on an Ok result). *)
From Grcov Require Import Model.GcnoCount Proofs.GcnoBase.
From Coq Require Import ZifyBool ZifyN ZifyNat.

Definition post {A} (P : A -> Prop) (o : outcome A) : Prop := forall a, o = Ok a -> P a.
Lemma post_bind {A B} (Q : A -> Prop) (P : B -> Prop) o (f : A -> outcome B) :
  post Q o -> (forall a, Q a -> post P (f a)) -> post P (obind o f).
Proof. intros HQ Hf b. destruct o; cbn; try done. intros H. eapply Hf; [|exact H]. by apply HQ. Qed.
Lemma post_Ok {A} (P : A -> Prop) a : P a -> post P (Ok a).
Proof. by intros H ? [= <-]. Qed.
Lemma post_fail {A} (P : A -> Prop) (o : outcome A) : (forall a, o <> Ok a) -> post P o.
Proof. intros H a E. by destruct (H a). Qed.
Lemma post_Err {A} (P : A -> Prop) : post P Err. Proof. by intros ?. Qed.
Lemma post_Panic {A} (P : A -> Prop) : post P Panic. Proof. by intros ?. Qed.
Lemma post_OutOfFuel {A} (P : A -> Prop) : post P OutOfFuel. Proof. by intros ?. Qed.
Lemma post_mono {A} (P Q : A -> Prop) o : post P o -> (forall a, P a -> Q a) -> post Q o.
Proof. intros H HPQ a E. apply HPQ. by apply H. Qed.
Lemma post_ofold {A B} (I : B -> Prop) (f : B -> A -> outcome B) l b :
  I b -> (forall b x, I b -> x ∈ l -> post I (f b x)) -> post I (ofold f l b).
Proof.
  revert b. induction l as [|x l IH]; intros b Hb Hf; cbn [ofold]; [by apply post_Ok|].
  eapply post_bind; [apply Hf; [done|left]|]. intros b' Hb'. apply IH; [done|].
  intros b0 y ? ?. apply Hf; [done|by right].
Qed.
Global Hint Resolve post_Err post_Panic post_OutOfFuel : core.

Definition bshape (b : gblock) := (b_no b, b_src b, b_dst b, b_lines b, b_line_max b).
Definition eshape (e : gedge) := (e_src e, e_dst e, e_flags e).
Definition fshape (f : gfun) :=
  (f_ident f, f_start_line f, f_end_line f, f_line_sum f, f_cfg_sum f, f_file f, f_name f,
   map bshape (f_blocks f), map eshape (f_edges f), f_real f).
Definition gshape (g : gcno) := (g_version g, g_checksum g, map fshape (g_funs g)).

Lemma map_alterN_id {A B} (h : A -> B) (f : A -> A) i l : (forall x, h (f x) = h x) -> map h (alterN f i l) = map h l.
Proof.
  intros Hf. revert i. induction l as [|x l IH]; intros i; cbn [alterN map]; [done|].
  destruct (i =? 0); cbn [map]; [by rewrite Hf|by rewrite IH].
Qed.
Lemma is_on_tree_eshape e e' : eshape e = eshape e' -> is_on_tree e = is_on_tree e'.
Proof. unfold eshape, is_on_tree. by intros [= _ _ ->]. Qed.
Lemma is_fake_eshape e e' : eshape e = eshape e' -> is_fake e = is_fake e'.
Proof. unfold eshape, is_fake. by intros [= _ _ ->]. Qed.

Section arith.
Context (W : N -> N) (Wsub : N -> N -> N).

(* ---- read_gcda changes counters only ---- *)
Lemma add_counters_shape le todo done blocks l :
  post (fun '(ed, bl, _) => map eshape ed = map eshape (rev done ++ todo) /\ map bshape bl = map bshape blocks)
       (add_counters W le todo done blocks l).
Proof.
  revert done blocks l. induction todo as [|e todo IH]; intros done blocks l; cbn [add_counters].
  - apply post_Ok. by rewrite app_nil_r.
  - destruct (is_on_tree e).
    + eapply post_mono; [apply IH|]. intros [[ed bl] ?] [H1 H2]. split; [|done]. rewrite H1. cbn [rev]. by rewrite <- app_assoc.
    + destruct (read_counter le l) as [[c l']|]; [|done]. destruct (nthN blocks (e_src e)); [|done].
      eapply post_mono; [apply IH|]. intros [[ed bl] ?] [H1 H2]. split.
      * rewrite H1. cbn [rev]. rewrite <- app_assoc, !map_app. done.
      * rewrite H2. by apply map_alterN_id.
Qed.

Lemma fshape_set_graph f bl ed :
  map bshape bl = map bshape (f_blocks f) -> map eshape ed = map eshape (f_edges f) ->
  fshape (set_graph f bl ed (f_real f)) = fshape f.
Proof. intros H1 H2. unfold fshape, set_graph; cbn. by rewrite H1, H2. Qed.

Lemma gshape_alter_fun g fid (h : gfun -> gfun) :
  (forall f, nthN (g_funs g) fid = Some f -> fshape (h f) = fshape f) ->
  gshape (set_funs g (alterN h fid (g_funs g))) = gshape g.
Proof.
  intros Hh. unfold gshape, set_funs; cbn. f_equal.
  revert fid Hh. generalize (g_funs g). induction l as [|x l IH]; intros fid Hh; cbn [alterN map]; [done|].
  destruct (N.eqb_spec fid 0) as [->|Hne]; cbn [map].
  - rewrite Hh; done.
  - f_equal. apply IH. intros f Hf. apply Hh. cbn [nthN]. destruct (N.eqb_spec fid 0); [done|exact Hf].
Qed.

Lemma read_gcda_loop_shape le version fuel g cur l :
  post (fun g' => gshape g' = gshape g) (read_gcda_loop W le version fuel g cur l).
Proof.
  revert g cur l. induction fuel as [|fuel IH]; intros g cur l; [done|].
  cbn [read_gcda_loop]. destruct (read_u32 le l) as [[tag l1]|]; [|by apply post_Ok].
  destruct (tag =? 0); [by apply post_Ok|].
  destruct (read_u32 le l1) as [[len body]|]; [|done].
  assert (Hcont : forall g' cur', gshape g' = gshape g ->
            post (fun g'' => gshape g'' = gshape g)
                 (match next_record len body with
                  | None => Err
                  | Some l' => read_gcda_loop W le version fuel g' cur' l'
                  end)).
  { intros g' cur' Hg'. destruct (next_record len body); [|done]. rewrite <- Hg'. apply IH. }
  cbv zeta.
  destruct (tag =? TAG_FUNCTION).
  { destruct (len =? 0); [apply IH|]. destruct (len =? 1); [done|].
    destruct (read_u32 le body) as [[id b1]|]; [|done].
    destruct (read_u32 le b1) as [[lsum b2]|]; [|done].
    eapply (post_bind (fun _ => True)); [done|]. intros csum _.
    destruct (find_ident id (g_funs g)); [|done]. destruct (nthN (g_funs g) n); [|done].
    destruct (_ || _); [done|]. by apply Hcont. }
  destruct (tag =? TAG_COUNTER_ARCS).
  { destruct cur as [fid|]; [|apply IH]. destruct (nthN (g_funs g) fid) as [f|] eqn:Hf; [|done].
    destruct (negb _); [done|].
    eapply post_bind; [apply add_counters_shape|]. intros [[ed bl] l'] [H1 H2]. cbn [rev app] in H1.
    apply Hcont. apply gshape_alter_fun. intros f0 Hf0. rewrite Hf in Hf0. injection Hf0 as <-.
    by apply fshape_set_graph. }
  destruct (tag =? TAG_OBJECT_SUMMARY).
  { destruct (read_u32 le body) as [[rc b1]|]; [|done]. destruct (skip 4 b1) as [b2|]; [|done].
    eapply (post_bind (fun _ => True)); [done|]. intros r _. by apply Hcont. }
  destruct (tag =? TAG_PROGRAM_SUMMARY).
  { eapply (post_bind (fun g1 => gshape g1 = gshape g)).
    { destruct (0 <? len); [|by apply post_Ok]. destruct (skip 4 body) as [b1|]; [|done].
      destruct (skip 4 b1) as [b2|]; [|done]. destruct (read_u32 le b2) as [[? ?]|]; [|done]. by apply post_Ok. }
    intros g1 Hg1. by apply Hcont. }
  by apply Hcont.
Qed.

Lemma read_gcda_shape g buf : post (fun g' => gshape g' = gshape g) (read_gcda W g buf).
Proof.
  unfold read_gcda. destruct (guess_endianness _ _ _ _ buf) as [[le l0]|]; [|done].
  eapply (post_bind (fun _ => True)); [done|]. intros [version l1] _.
  destruct (negb _); [done|]. destruct (read_u32 le l1) as [[checksum l2]|]; [|done].
  destruct (negb _); [done|]. apply read_gcda_loop_shape.
Qed.
Lemma read_gcdas_shape g ds : post (fun g' => gshape g' = gshape g) (ofold (read_gcda W) ds g).
Proof.
  apply (post_ofold (fun g' => gshape g' = gshape g)); [done|]. intros g' d Hg' _. rewrite <- Hg'. apply read_gcda_shape.
Qed.
End arith.
