(* C08 flow_unique: if the ON_TREE arcs of a function (with the virtual sink->source arc) can be peeled off leaf by
   leaf - i.e. they form a forest - then two arc-count assignments that both satisfy flow conservation at every block
   and agree on the arcs that are not ON_TREE (the measured ones) agree on every arc: the counts that count_on_tree
   derives are the only possible ones whenever they are conserving. *)
From Grcov Require Import Model.GcnoCount Model.GcnoFlow Proofs.GcnoBase Proofs.GcnoShape.
From Coq Require Import ZifyBool ZifyN ZifyNat.

(* difference of two assignments on the same shape *)
Definition dterm (p : gedge * gedge) (v : N) : Z :=
  ((Z.of_N (e_counter p.1) - Z.of_N (e_counter p.2)) * coef (e_src p.1) (e_dst p.1) v)%Z.
Definition netd (l : list (gedge * gedge)) (v : N) : Z := fold_right (fun p acc => (dterm p v + acc)%Z) 0%Z l.

Lemma netd_zip ed1 ed2 v : map eshape ed1 = map eshape ed2 -> netd (zip ed1 ed2) v = (net ed1 v - net ed2 v)%Z.
Proof.
  revert ed2. induction ed1 as [|a ed1 IH]; intros [|b ed2]; cbn [map]; try done.
  intros H. assert (Hs : eshape a = eshape b) by congruence. assert (Hm : map eshape ed1 = map eshape ed2) by congruence. clear H.
  cbn [zip zip_with netd net fold_right]. fold (netd (zip ed1 ed2) v). fold (net ed1 v). fold (net ed2 v).
  rewrite (IH _ Hm). unfold dterm; cbn. unfold eshape in Hs. assert (e_src a = e_src b /\ e_dst a = e_dst b) as [-> ->] by (split; congruence). lia.
Qed.

Lemma netd_single l i p v :
  l !! i = Some p -> (forall k q, k <> i -> l !! k = Some q -> dterm q v = 0%Z) -> netd l v = dterm p v.
Proof.
  revert i. induction l as [|x l IH]; intros i Hi Hz; [done|]. cbn [netd fold_right]. fold (netd l v).
  destruct i as [|i]; cbn in Hi.
  - injection Hi as ->. assert (netd l v = 0%Z) as ->; [|lia].
    clear IH. assert (Hall : forall k q, l !! k = Some q -> dterm q v = 0%Z) by (intros k q Hk; by apply (Hz (S k) q)).
    clear Hz. induction l as [|y l IHl]; [done|]. cbn [netd fold_right]. fold (netd l v).
    rewrite (Hall 0%nat y eq_refl), IHl; [done|]. intros k q Hk. by apply (Hall (S k)).
  - rewrite (Hz 0%nat x); [|done|done]. rewrite (IH i); [lia|done|]. intros k q Hk Hq. by apply (Hz (S k)); [lia|].
Qed.

Lemma coef_untouched e v : touches e v = false -> coef (e_src e) (e_dst e) v = 0%Z.
Proof. unfold touches, coef. intros [H1 H2]%orb_false_iff. by rewrite H1, H2. Qed.
Lemma coef_leaf e v : touches e v = true -> (e_src e =? e_dst e) = false ->
  coef (e_src e) (e_dst e) v = 1%Z \/ coef (e_src e) (e_dst e) v = (-1)%Z.
Proof.
  unfold touches, coef. intros H Hne. destruct (N.eqb_spec (e_src e) v) as [Hs|Hs], (N.eqb_spec (e_dst e) v) as [Hd|Hd]; cbn in H; try done.
  - rewrite Hs, Hd, N.eqb_refl in Hne. done.
  - by right.
  - by left.
Qed.

Definition dzero (p : gedge * gedge) : Prop := e_counter p.1 = e_counter p.2.

Lemma peel_all_zero l ord :
  Forall (fun p => eshape p.1 = eshape p.2) l ->
  peel_steps_ok (l.*1) ord = true ->
  (forall v, netd l v = 0%Z) ->
  (forall k p, l !! k = Some p -> is_on_tree p.1 = false -> dzero p) ->
  (forall k p, l !! k = Some p -> is_on_tree p.1 = true -> k ∈ ord.*1 \/ dzero p) ->
  forall k p, l !! k = Some p -> dzero p.
Proof.
  intros Hsh. revert ord. induction ord as [|[i v] rest IH]; intros Hok Hnet Hoff Htree k p Hk.
  - destruct (is_on_tree p.1) eqn:Ht; [|by eapply Hoff].
    destruct (Htree k p Hk Ht) as [Hin|?]; [by apply elem_of_nil in Hin|done].
  - cbn [peel_steps_ok] in Hok. rewrite list_lookup_fmap in Hok.
    destruct (l !! i) as [pi|] eqn:Hi; cbn in Hok; [|done].
    apply andb_true_iff in Hok as [Hok Hrest]. apply andb_true_iff in Hok as [Hok Hothers].
    apply andb_true_iff in Hok as [Hok Htouch]. apply andb_true_iff in Hok as [Hti Hloop]. apply negb_true_iff in Hloop.
    (* conservation at v determines arc i *)
    assert (Hzi : dzero pi).
    { specialize (Hnet v). rewrite (netd_single l i pi v Hi) in Hnet.
      - unfold dterm in Hnet. destruct (coef_leaf _ _ Htouch Hloop) as [Hc|Hc]; rewrite Hc in Hnet; unfold dzero; lia.
      - intros j q Hne Hq. unfold dterm. destruct (is_on_tree q.1) eqn:Ht.
        + destruct (Htree j q Hq Ht) as [Hin|Hz].
          * cbn in Hin. apply elem_of_cons in Hin as [->|Hin]; [done|].
            apply elem_of_list_fmap in Hin as [[j' v'] [-> Hin]]. cbn in Hq, Hne.
            rewrite forallb_forall in Hothers. specialize (Hothers (j', v') (proj1 (elem_of_list_In _ _) Hin)). cbn in Hothers.
            rewrite list_lookup_fmap, Hq in Hothers. cbn in Hothers. apply negb_true_iff in Hothers.
            rewrite (coef_untouched _ _ Hothers). lia.
          * unfold dzero in Hz. rewrite Hz. lia.
        + specialize (Hoff j q Hq Ht). unfold dzero in Hoff. rewrite Hoff. lia. }
    apply (IH Hrest Hnet Hoff) with (k := k); [|done].
    intros j q Hq Ht. destruct (Htree j q Hq Ht) as [Hin|?]; [|by right].
    cbn in Hin. apply elem_of_cons in Hin as [->|Hin]; [|by left]. right. rewrite Hi in Hq. by injection Hq as <-.
Qed.

Lemma zip_shape ed1 ed2 : map eshape ed1 = map eshape ed2 -> Forall (fun p => eshape p.1 = eshape p.2) (zip ed1 ed2).
Proof.
  revert ed2. induction ed1 as [|a ed1 IH]; intros [|b ed2] H; cbn; try constructor.
  - unfold eshape in *. cbn in *. injection H. intros. congruence.
  - apply IH. cbn [map] in H. injection H. intros ? _. done.
Qed.

Theorem flow_unique ed1 ed2 ord :
  map eshape ed1 = map eshape ed2 ->
  peel_ok ed1 ord = true ->
  (forall v, net ed1 v = 0%Z) -> (forall v, net ed2 v = 0%Z) ->
  (forall k e1 e2, ed1 !! k = Some e1 -> ed2 !! k = Some e2 -> is_on_tree e1 = false -> e_counter e1 = e_counter e2) ->
  map e_counter ed1 = map e_counter ed2.
Proof.
  intros Hs Hok Hn1 Hn2 Hoff. unfold peel_ok in Hok. apply andb_true_iff in Hok as [Hsteps Hcover].
  assert (Hlen : length ed1 = length ed2) by (apply (f_equal length) in Hs; by rewrite !map_length in Hs).
  set (l := zip ed1 ed2).
  assert (Hfst : l.*1 = ed1) by (unfold l; apply fst_zip; lia).
  assert (Hall : forall k p, l !! k = Some p -> dzero p).
  { apply (peel_all_zero l ord).
    - unfold l. by apply zip_shape.
    - by rewrite Hfst.
    - intros v. unfold l. rewrite netd_zip by done. rewrite Hn1, Hn2. done.
    - intros k [a b] Hk Ht. unfold l in Hk. apply lookup_zip_with_Some in Hk as (x & y & [= <- <-] & Hx & Hy). by eapply Hoff.
    - intros k [a b] Hk Ht. left. unfold l in Hk. apply lookup_zip_with_Some in Hk as (x & y & [= <- <-] & Hx & Hy).
      rewrite forallb_forall in Hcover. specialize (Hcover k).
      assert (Hin : In k (seq 0 (length ed1))) by (apply in_seq; apply lookup_lt_Some in Hx; lia).
      specialize (Hcover Hin). rewrite Hx in Hcover. cbn in Ht. rewrite Ht in Hcover. cbn in Hcover.
      apply existsb_exists in Hcover as [[j v] [Hj Heq]]. apply Nat.eqb_eq in Heq. subst j.
      apply elem_of_list_fmap. exists (k, v). split; [done|]. by apply elem_of_list_In. }
  apply list_eq. intros k. rewrite !list_lookup_fmap.
  destruct (ed1 !! k) as [a|] eqn:Ha, (ed2 !! k) as [b|] eqn:Hb; cbn.
  - f_equal. apply (Hall k (a, b)). unfold l. apply lookup_zip_with_Some. by exists a, b.
  - apply lookup_lt_Some in Ha. apply lookup_ge_None in Hb. lia.
  - apply lookup_lt_Some in Hb. apply lookup_ge_None in Ha. lia.
  - done.
Qed.

(* conservation at the blocks below nb is conservation everywhere when every arc end is below nb *)
Lemma conserving_all nb edges :
  Forall (fun e => e_src e < N.of_nat nb /\ e_dst e < N.of_nat nb) edges -> conserving nb edges = true -> forall v, net edges v = 0%Z.
Proof.
  intros Hwf Hc v. unfold conserving in Hc. rewrite forallb_forall in Hc.
  destruct (N.ltb_spec v (N.of_nat nb)) as [Hlt|Hge].
  - apply Z.eqb_eq, Hc.
    assert (H : forall n s, s <= v < s + N.of_nat n -> In v (count_from n s)).
    { clear. induction n as [|n IH]; intros s Hs; cbn [count_from]; [lia|].
      destruct (N.eq_dec v s) as [->|]; [by left|]. right. apply IH. lia. }
    apply H. lia.
  - clear Hc. induction Hwf as [|e l [H1 H2] _ IH]; [done|]. cbn [net fold_right]. fold (net l v). rewrite IH.
    unfold coef. destruct (N.eqb_spec (e_dst e) v), (N.eqb_spec (e_src e) v); lia.
Qed.
