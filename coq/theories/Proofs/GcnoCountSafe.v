(* The counting half (stop, add_line_count, circuits, finalize) never panics on well-formed graphs; with
   GcnoReadSafe this gives: compute never panics, for all byte strings.  (C14.)  Fuel exhaustion of the
   counting half is allowed by [okp]; see GcnoFuel.v for what is proved about fuel. *)
From Grcov Require Import Model.GcnoCount Proofs.GcnoBase Proofs.GcnoReadSafe.
From Coq Require Import ZifyBool ZifyN ZifyNat.

Section arith.
Context (W : N -> N) (Wsub : N -> N -> N).

Section graph.
Context (nb ne : N) (blocks : list gblock).
Hypothesis Hnb : lenN blocks = nb.
Hypothesis Hblocks : Forall (wf_block nb ne) blocks.

Definition E_ok (edges : list gedge) : Prop := Forall (wf_edge nb) edges /\ lenN edges = ne.

Lemma E_ok_alter edges i f :
  E_ok edges -> (forall e, e_src (f e) = e_src e /\ e_dst (f e) = e_dst e) -> E_ok (alterN f i edges).
Proof.
  intros [H1 H2] Hf. split; [|by rewrite lenN_alterN].
  apply Forall_alterN; [done|]. intros e [? ?]. destruct (Hf e) as [Hs Hd]. unfold wf_edge. rewrite Hs, Hd. done.
Qed.
Lemma E_ok_lookup edges id : E_ok edges -> id < ne -> exists e, nthN edges id = Some e /\ wf_edge nb e.
Proof.
  intros [H1 H2] Hid. destruct (nthN_lt edges id) as [e He]; [lia|]. exists e. split; [done|].
  rewrite Forall_forall in H1. apply H1. by eapply nthN_elem.
Qed.
Lemma block_lookup b : b < nb -> exists blk, nthN blocks b = Some blk /\ wf_block nb ne blk.
Proof.
  intros Hb. destruct (nthN_lt blocks b) as [blk Hblk]; [lia|]. exists blk. split; [done|].
  rewrite Forall_forall in Hblocks. apply Hblocks. by eapply nthN_elem.
Qed.

(* ---- propagate ---- *)
Lemma sum_side_okp rec get pred ids acc edges visited :
  (forall tgt id ed vis, tgt < nb -> id < ne -> E_ok ed -> okp (fun '(_, ed', _) => E_ok ed') (rec tgt id ed vis)) ->
  (forall e, wf_edge nb e -> get e < nb) ->
  Forall (fun id => id < ne) ids -> E_ok edges ->
  okp (fun '(_, ed', _) => E_ok ed') (sum_side W rec get pred ids acc edges visited).
Proof.
  intros Hrec Hget. revert acc edges visited. induction ids as [|id ids IH]; intros acc edges visited Hids He; cbn [sum_side]; [done|].
  apply Forall_cons in Hids as [Hid Hids].
  destruct (match pred with Some p => p =? id | None => false end); [by apply IH|].
  destruct (E_ok_lookup edges id He Hid) as (e & -> & Hwe).
  destruct (is_on_tree e); [|by apply IH].
  eapply okp_bind; [apply Hrec; [by apply Hget|done|done]|].
  intros [[c ed'] vis'] He'. by apply IH.
Qed.
Lemma propagate_okp fuel edges b pred visited :
  b < nb -> (forall id, pred = Some id -> id < ne) -> E_ok edges ->
  okp (fun '(_, ed', _) => E_ok ed') (propagate W fuel blocks edges b pred visited).
Proof.
  revert edges b pred visited. induction fuel as [|fuel IH]; intros edges b pred visited Hb Hp He; [done|].
  cbn [propagate]. destruct (memN b visited); [done|].
  destruct (block_lookup b Hb) as (blk & -> & (Hsrc & Hdst & _)).
  assert (Hrec : forall tgt id ed vis, tgt < nb -> id < ne -> E_ok ed ->
             okp (fun '(_, ed', _) => E_ok ed') (propagate W fuel blocks ed tgt (Some id) vis)).
  { intros. apply IH; [done| |done]. by intros ? [= <-]. }
  cbv zeta. eapply okp_bind; [apply sum_side_okp; [exact Hrec|by intros ? [? ?]|done|done]|].
  intros [[pos ed1] vis1] He1. eapply okp_bind; [apply sum_side_okp; [exact Hrec|by intros ? [? ?]|done|done]|].
  intros [[neg ed2] vis2] He2. destruct pred as [id|]; [|done].
  destruct (E_ok_lookup ed2 id He2 (Hp id eq_refl)) as (e & -> & _). cbn.
  apply E_ok_alter; [done|]. by intros.
Qed.

(* ---- circuits ---- *)
Lemma get_cycle_count_okp edges path :
  E_ok edges -> Forall (fun id => id < ne) path -> okp (fun '(_, ed') => E_ok ed') (get_cycle_count Wsub edges path).
Proof.
  intros He Hp. unfold get_cycle_count. eapply (okp_bind (fun _ => True)).
  { apply okp_ofold; [done|]. intros c e _ Hin. rewrite Forall_forall in Hp.
    destruct (E_ok_lookup edges e He (Hp e Hin)) as (ed & -> & _). done. }
  intros count _. eapply okp_bind.
  { apply (okp_ofold E_ok); [done|]. intros ed0 e He0 Hin. rewrite Forall_forall in Hp.
    destruct (E_ok_lookup ed0 e He0 (Hp e Hin)) as (ed & -> & _). cbn. apply E_ok_alter; [done|]. by intros. }
  intros ed' He'. done.
Qed.

Lemma positionN_bound x l k i : positionN x l k = Some i -> k <= i < k + lenN l.
Proof.
  revert k. induction l as [|y l IH]; intros k; cbn [positionN]; [done|]. rewrite lenN_cons.
  destruct (y =? x); [intros [= <-]; lia|]. intros H%IH. lia.
Qed.
Lemma removeN_length {A} i (l : list A) : length (removeN i l) = if i <? lenN l then (length l - 1)%nat else length l.
Proof.
  revert i. induction l as [|x l IH]; intros i; cbn [removeN].
  - destruct (i <? lenN []); done.
  - rewrite lenN_cons. destruct (N.eqb_spec i 0) as [->|Hne].
    + destruct (N.ltb_spec 0 (lenN l + 1)); [cbn; lia|lia].
    + cbn [length]. rewrite IH. destruct (N.ltb_spec (N.pred i) (lenN l)), (N.ltb_spec i (lenN l + 1)); try lia.
      unfold lenN in *. destruct l; cbn in *; lia.
Qed.
Lemma unblock_okp fuel b blocked lists :
  length blocked = length lists ->
  okp (fun '(bl, ls) => length bl = length ls) (unblock fuel b blocked lists).
Proof.
  revert b blocked lists. induction fuel as [|fuel IH]; intros b blocked lists Hlen; [done|].
  cbn [unblock]. destruct (positionN b blocked 0) as [i|] eqn:Ep; [|done].
  apply positionN_bound in Ep. destruct (nthN_lt lists i) as [lst ->]; [unfold lenN in *; lia|].
  apply (okp_ofold (fun '(bl, ls) => length bl = length ls)).
  - rewrite !removeN_length. unfold lenN. rewrite Hlen. done.
  - intros [bl ls] x Hl _. by apply IH.
Qed.

Definition cst_ok (st : cstate) : Prop :=
  let '(edges, path, blocked, lists) := st in
  E_ok edges /\ Forall (fun id => id < ne) path /\ length blocked = length lists.

Lemma look_for_circuit_okp fuel bs start v st :
  Forall (fun b => b < nb) bs -> v < nb -> cst_ok st ->
  okp (fun '(_, _, st') => cst_ok st') (look_for_circuit W Wsub fuel blocks bs start v st).
Proof.
  intros Hbs. revert v st. induction fuel as [|fuel IH]; intros v st Hv Hst; [done|].
  cbn [look_for_circuit]. destruct st as [[[edges path] blocked] lists]. destruct Hst as (He & Hp & Hl).
  destruct (block_lookup v Hv) as (blk & -> & (_ & Hdst & _)). cbv zeta.
  eapply (okp_bind (fun '(_, _, st') => cst_ok st')).
  { apply (okp_ofold (fun '(_, _, st') => cst_ok st')).
    - cbn. split; [done|]. split; [done|]. rewrite !app_length. cbn. lia.
    - intros [[found count] [[[ed pa] bl] ls]] e (He1 & Hp1 & Hl1) Hin.
      rewrite Forall_forall in Hdst.
      destruct (E_ok_lookup ed e He1 (Hdst e Hin)) as (edge & -> & [_ Hw]).
      destruct (_ && _) eqn:Hc; [|done]. apply andb_true_iff in Hc as [_ Hmem].
      destruct (e_dst edge =? start).
      + eapply okp_bind; [apply get_cycle_count_okp; [done|constructor; [by apply Hdst|done]]|].
        intros [c ed'] He'. cbn. done.
      + destruct (negb _); [|done].
        eapply okp_bind; [apply IH; [done|]|].
        * cbn. split; [done|]. split; [|done]. constructor; [by apply Hdst|done].
        * intros [[f c] [[[ed' pa'] bl'] ls']] (? & Hpa' & ?). cbn. split; [done|]. split; [|done].
          destruct pa'; [done|]. by apply Forall_cons in Hpa' as [_ ?]. }
  intros [[found count] [[[ed pa] bl] ls]] (He1 & Hp1 & Hl1).
  destruct found.
  - eapply okp_bind; [by apply unblock_okp|]. intros [bl' ls'] Hl'. cbn. done.
  - eapply (okp_bind (fun ls' => length bl = length ls')).
    { apply okp_ofold; [done|]. intros ls0 e Hl0 Hin. rewrite Forall_forall in Hdst.
      destruct (E_ok_lookup ed e He1 (Hdst e Hin)) as (edge & -> & _).
      destruct (_ || _); [|done]. destruct (positionN _ bl 0) as [i|] eqn:Ep; [|done].
      apply positionN_bound in Ep. destruct (nthN_lt ls0 i) as [lst ->]; [unfold lenN in *; lia|]. cbn.
      destruct (memN v lst); [done|]. rewrite alterN_alter, alter_length. done. }
    intros ls' Hl'. cbn. done.
Qed.

Lemma get_cycles_count_okp fuel edges bs :
  Forall (fun b => b < nb) bs -> E_ok edges ->
  okp (fun '(_, ed') => E_ok ed') (get_cycles_count W Wsub fuel blocks edges bs).
Proof.
  intros Hbs He. unfold get_cycles_count. apply (okp_ofold (fun '(_, ed') => E_ok ed')); [done|].
  intros [count ed] b He0 Hin. rewrite Forall_forall in Hbs.
  eapply okp_bind; [apply look_for_circuit_okp; [by apply Forall_forall|by apply Hbs|]|].
  - cbn. split; [done|]. split; [constructor|done].
  - intros [[f c] [[[ed' ?] ?] ?]] (? & _). cbn. done.
Qed.

Lemma get_line_count_okp fuel edges bs :
  Forall (fun b => b < nb) bs -> E_ok edges ->
  okp (fun '(_, ed') => E_ok ed') (get_line_count W Wsub fuel blocks edges bs).
Proof.
  intros Hbs He. unfold get_line_count. eapply (okp_bind (fun '(_, ed') => E_ok ed')).
  { apply (okp_ofold (fun '(_, ed') => E_ok ed')); [done|].
    intros [count ed] b He0 Hin. rewrite Forall_forall in Hbs.
    destruct (block_lookup b (Hbs b Hin)) as (blk & -> & (Hsrc & Hdst & _)).
    eapply (okp_bind (fun _ => True)).
    { destruct (b_no blk =? 0); (apply okp_ofold; [done|]); intros acc e _ Hin'.
      - rewrite Forall_forall in Hdst. destruct (E_ok_lookup ed e He0 (Hdst e Hin')) as (edge & -> & _). done.
      - rewrite Forall_forall in Hsrc. destruct (E_ok_lookup ed e He0 (Hsrc e Hin')) as (edge & -> & _). done. }
    intros count' _. eapply okp_bind.
    { apply (okp_ofold E_ok); [done|]. intros ed0 e He1 Hin'. rewrite Forall_forall in Hdst.
      destruct (E_ok_lookup ed0 e He1 (Hdst e Hin')) as (edge & -> & _). cbn. apply E_ok_alter; [done|]. by intros. }
    intros ed' He'. done. }
  intros [count ed1] He1. eapply okp_bind; [by apply get_cycles_count_okp|].
  intros [c ed2] He2. done.
Qed.
End graph.

(* ---- count_on_tree / stop ---- *)
Lemma add_tree_counts_okp nb ne edges blocks :
  Forall (wf_edge nb) edges -> lenN blocks = nb -> Forall (wf_block nb ne) blocks ->
  okp (fun bl => lenN bl = nb /\ Forall (wf_block nb ne) bl) (add_tree_counts W edges blocks).
Proof.
  intros He Hl Hb. unfold add_tree_counts. apply (okp_ofold (fun bl => lenN bl = nb /\ Forall (wf_block nb ne) bl)); [done|].
  intros bl e [Hl' Hb'] Hin. destruct (is_on_tree e); [|done].
  rewrite Forall_forall in He. destruct (He e Hin) as [Hs _].
  destruct (nthN_lt bl (e_src e)) as [b ->]; [lia|]. cbn. split; [by rewrite lenN_alterN|].
  apply Forall_alterN; [done|]. intros b0 (? & ? & ?). repeat split; cbn; done.
Qed.

Lemma count_on_tree_okp version f : wf_fun f -> okp wf_fun (count_on_tree W version f).
Proof.
  intros Hf. unfold count_on_tree. destruct (N.ltb_spec (lenN (f_blocks f)) 2); [done|].
  eapply okp_bind.
  { apply good_okp. apply push_arc_good; [done| |lia]. destruct (version <? 48); lia. }
  intros [blocks edges] ([Hb He] & Hlb & _).
  eapply (okp_bind (fun '(ed', _) => E_ok (lenN blocks) (lenN edges) ed')).
  { apply (okp_ofold (fun '(ed', _) => E_ok (lenN blocks) (lenN edges) ed')); [by split|].
    intros [ed vis] b He0 Hin. apply count_from_bound in Hin.
    eapply okp_bind; [apply (propagate_okp (lenN blocks) (lenN edges) blocks eq_refl Hb); [unfold lenN; lia|done|done]|].
    intros [[? ed'] ?] ?. done. }
  intros [ed' ?] [He1 He2]. eapply okp_bind.
  { apply (add_tree_counts_okp (lenN blocks) (lenN edges)); [by apply Forall_rev|done|done]. }
  intros bl' [Hl' Hb']. cbn. unfold wf_fun, wf_graph, set_graph; cbn. rewrite Hl', He2. done.
Qed.

Lemma stop_okp g : wf_gcno g -> okp wf_gcno (stop W g).
Proof.
  intros Hg. unfold stop. eapply okp_bind.
  { apply (okp_ofold (Forall wf_fun)); [constructor|]. intros acc f Hacc Hin.
    unfold wf_gcno in Hg. rewrite Forall_forall in Hg.
    eapply okp_bind; [apply count_on_tree_okp; by apply Hg|]. intros f' Hf'. cbn. by constructor. }
  intros fs Hfs. cbn. unfold wf_gcno. cbn. by apply Forall_rev.
Qed.

(* ---- add_line_count / finalize ---- *)
Lemma lines_to_block_bound nb blocks line bs :
  Forall (fun b => b_no b < nb) blocks -> lines_to_block blocks !! line = Some bs -> Forall (fun b => b < nb) bs.
Proof.
  unfold lines_to_block. intros Hb.
  assert (Hgen : forall (m : gmap N (list N)),
    (forall l v, m !! l = Some v -> Forall (fun b => b < nb) v) ->
    forall l v, foldl (fun m b => foldl (fun m line => <[line := default [] (m !! line) ++ [b_no b]]> m) m (b_lines b)) m blocks !! l = Some v ->
    Forall (fun b => b < nb) v).
  { induction Hb as [|b blocks Hb0 Hb IH]; intros m Hm; cbn [foldl]; [exact Hm|].
    apply IH. clear IH. generalize (b_lines b). intros ls. revert m Hm.
    induction ls as [|x ls IHl]; intros m Hm; cbn [foldl]; [exact Hm|].
    apply IHl. intros l v. destruct (decide (l = x)) as [->|Hne].
    - rewrite lookup_insert. intros [= <-]. apply Forall_app; split; [|by repeat constructor].
      destruct (m !! x) eqn:E; cbn; [by eapply Hm|constructor].
    - rewrite lookup_insert_ne by done. apply Hm. }
  apply Hgen. intros l v. by rewrite lookup_empty.
Qed.

Lemma add_line_count_okp f : wf_fun f -> okp (fun _ => True) (add_line_count W Wsub f).
Proof.
  intros [Hb He]. unfold add_line_count. destruct (match f_edges f with [] => false | e :: _ => 0 <? e_counter e end); [|done].
  eapply (okp_bind (fun '(ed, _) => E_ok (lenN (f_blocks f)) (lenN (f_edges f)) ed)); [|by intros [? ?] _].
  apply (okp_ofold (fun '(ed, _) => E_ok (lenN (f_blocks f)) (lenN (f_edges f)) ed)); [by split|].
  intros [ed acc] [line bs] He0 Hin. apply elem_of_map_to_list in Hin.
  apply (lines_to_block_bound (lenN (f_blocks f))) in Hin.
  2:{ eapply Forall_impl; [exact Hb|]. by intros b (_ & _ & ?). }
  destruct bs as [|b [|b2 bs]].
  - eapply okp_bind; [by apply (get_line_count_okp (lenN (f_blocks f)) (lenN (f_edges f)) (f_blocks f) eq_refl Hb)|].
    by intros [? ?] ?.
  - apply Forall_cons in Hin as [Hlt _]. destruct (nthN_lt _ _ Hlt) as [blk ->]. done.
  - eapply okp_bind; [by apply (get_line_count_okp (lenN (f_blocks f)) (lenN (f_edges f)) (f_blocks f) eq_refl Hb)|].
    by intros [? ?] ?.
Qed.

Lemma fin_branches_okp f executed m : wf_fun f -> okp (fun _ => True) (fin_branches f executed m).
Proof.
  intros [Hb He]. unfold fin_branches. apply okp_ofold; [done|]. intros m0 blk _ Hin.
  rewrite Forall_forall in Hb. destruct (Hb blk Hin) as (Hsrc & Hdst & _).
  assert (HE : E_ok (lenN (f_blocks f)) (lenN (f_edges f)) (f_edges f)) by (by split).
  eapply (okp_bind (fun _ => True)).
  { unfold branch_line. destruct (b_lines blk); [|done]. apply okp_ofold; [done|]. intros lm e _ Hin'.
    rewrite Forall_forall in Hsrc. destruct (E_ok_lookup _ _ (f_blocks f) eq_refl _ e HE (Hsrc e Hin')) as (ed & -> & [Hs _]).
    destruct (nthN_lt _ _ Hs) as [s ->]. done. }
  intros line _. destruct (line =? 0); [done|].
  eapply (okp_bind (fun _ => True)).
  { unfold branch_taken. eapply (okp_bind (fun _ => True)); [|done]. apply okp_ofold; [done|]. intros acc e _ Hin'.
    rewrite Forall_forall in Hdst. destruct (E_ok_lookup _ _ (f_blocks f) eq_refl _ e HE (Hdst e Hin')) as (ed & -> & _). done. }
  intros taken _. destruct (_ <=? _)%nat; done.
Qed.

Lemma finalize_okp br g : wf_gcno g -> okp (fun _ => True) (finalize W Wsub br g).
Proof.
  intros Hg. unfold finalize. apply okp_ofold; [done|]. intros res f _ Hin.
  unfold wf_gcno in Hg. rewrite Forall_forall in Hg. specialize (Hg f Hin).
  unfold fin_fun. eapply okp_bind; [by apply add_line_count_okp|]. intros [executed flines] _.
  eapply (okp_bind (fun _ => True)); [|done]. destruct br; [by apply fin_branches_okp|done].
Qed.

(* C14: Gcno::compute never panics, for every gcno byte string, every list of gcda byte strings *)
Theorem compute_map_gen_never_panics gcno_buf gcdas br : compute_map_gen W Wsub gcno_buf gcdas br <> Panic.
Proof.
  apply (okp_not_panic (fun _ => True)). unfold compute_map_gen.
  pose proof (read_all_good W gcno_buf gcdas) as H.
  destruct (read_gcno gcno_buf) as [g| | |]; cbn in H |- *; try done.
  destruct (ofold (read_gcda W) gcdas g) as [g1| | |]; cbn in H |- *; try done.
  eapply okp_bind; [by apply stop_okp|]. intros g2 Hg2. by apply finalize_okp.
Qed.
End arith.

Theorem compute_map_never_panics gcno_buf gcdas br : compute_map gcno_buf gcdas br <> Panic.
Proof. apply compute_map_gen_never_panics. Qed.
Theorem compute_never_panics gcno_buf gcdas br : compute gcno_buf gcdas br <> Panic.
Proof.
  unfold compute, compute_gen. pose proof (compute_map_never_panics gcno_buf gcdas br) as H. unfold compute_map in H.
  destruct (compute_map_gen wrap64 sub64 gcno_buf gcdas br); cbn; congruence.
Qed.
