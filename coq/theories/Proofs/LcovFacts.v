(* C04: the lcov parser model is robust on all inputs and, on well-formed files
   outside the known-finding class, returns exactly what the file says. *)
From Grcov Require Import Model.Lcov Model.LcovSpec Proofs.MergeFacts.
From Grcov Require Import Proofs.LcovStep Proofs.LcovRecs Proofs.LcovSem.

(* A: robustness, for ALL byte strings *)
Theorem parse_lcov_no_panic : forall bs b, parse_lcov bs b <> Panic.
Proof. exact parse_lcov_no_panic_pf. Qed.
Theorem parse_lcov_fuel : forall bs b, parse_lcov bs b <> OutOfFuel.
Proof. exact parse_lcov_fuel_pf. Qed.
Theorem parse_lcov_no_branch : forall bs res,
  parse_lcov bs false = Ok res -> Forall (fun r => c_branches r.2 = ∅) res.
Proof. exact parse_lcov_no_branch_pf. Qed.

(* B: add_branch is slot-wise OR, padded with false (order-free form) *)
Theorem add_branch_alg : forall m line no taken,
  add_branch m line no taken =
  <[line := or_vec (default [] (m !! line)) (replicate (N.to_nat no) false ++ [taken])]> m.
Proof. exact add_branch_alg_pf. Qed.

(* C: soundness on well-formed files outside the known-finding class *)
Lemma run_section b s rest res :
  wf_section s = true -> KnownClass_fnda_first s = false ->
  exists c,
    run b (render_section s ++ rest) (mkP None ∅ ∅ ∅ res) =
    run b rest (mkP None ∅ ∅ ∅ (res ++ [(s_name s, c)])) /\
    sec_spec b (s_recs s).*1 c.
Proof.
  intros Hwf Hk. unfold wf_section in Hwf.
  apply andb_true_iff in Hwf as [Hwf Hnd]. apply andb_true_iff in Hwf as [Hwf Hrecs].
  apply andb_true_iff in Hwf as [Hpre Hname]. apply bool_decide_eq_true in Hnd.
  unfold KnownClass_fnda_first in Hk. apply negb_false_iff in Hk.
  set (st0 := mkP (Some (s_name s)) ∅ ∅ ∅ res).
  set (st' := foldl (apply_rec b) st0 (s_recs s).*1).
  exists (mkCov (p_lines st') (p_branches st') (p_funcs st')). split.
  - unfold render_section. rewrite <- !app_assoc.
    rewrite run_fillers by assumption.
    rewrite run_SF by assumption. cbn [p_lines p_branches p_funcs p_results]. fold st0.
    rewrite (run_recs b (s_recs s) []); [|assumption|assumption|intros nm Hin; inversion Hin].
    fold st'.
    rewrite (run_end_of_record b _ _ st' (s_name s)).
    + subst st'. rewrite foldl_apply_results. reflexivity.
    + subst st'. rewrite foldl_apply_file. reflexivity.
  - apply sec_spec_of_state; try assumption; try reflexivity.
    apply Forall_fmap. apply forallb_Forall in Hrecs. exact Hrecs.
Qed.

Lemma run_sections b secs : forall rest res,
  forallb wf_section secs = true -> existsb KnownClass_fnda_first secs = false ->
  exists res',
    run b (concat (map render_section secs) ++ rest) (mkP None ∅ ∅ ∅ res) =
    run b rest (mkP None ∅ ∅ ∅ (res ++ res')) /\
    Forall2 (fun s r => r.1 = s_name s /\ sec_spec b (s_recs s).*1 r.2) secs res'.
Proof.
  induction secs as [|s secs IH]; intros rest res Hwf Hk.
  - exists []. rewrite app_nil_r. split; [reflexivity|constructor].
  - cbn [forallb] in Hwf. apply andb_true_iff in Hwf as [Hs Hwf].
    cbn [existsb] in Hk. apply orb_false_iff in Hk as [Hks Hk].
    cbn [map concat]. rewrite <- app_assoc.
    destruct (run_section b s (concat (map render_section secs) ++ rest) res Hs Hks) as (c & Hrun & Hspec).
    destruct (IH rest (res ++ [(s_name s, c)]) Hwf Hk) as (res' & Hrun' & Hall).
    exists ((s_name s, c) :: res'). split.
    + rewrite Hrun, Hrun', <- app_assoc. reflexivity.
    + constructor; [split; [reflexivity|exact Hspec]|exact Hall].
Qed.

Theorem parse_lcov_sound : forall b f,
  wf_file f = true ->
  existsb KnownClass_fnda_first (l_sections f) = false ->
  exists res, parse_lcov (render_file f) b = Ok res /\
              Forall2 (fun s r => r.1 = s_name s /\ sec_spec b (s_recs s).*1 r.2) (l_sections f) res.
Proof.
  intros b f Hwf Hk. unfold wf_file in Hwf. apply andb_true_iff in Hwf as [Hsecs Htr].
  destruct (run_sections b (l_sections f) (concat (map render_rec (l_trailer f))) [] Hsecs Hk)
    as (res & Hrun & Hall).
  exists res. split; [|exact Hall].
  rewrite parse_lcov_run. unfold render_file. change p_init with (mkP None ∅ ∅ ∅ []).
  rewrite Hrun. rewrite <- (app_nil_r (concat (map render_rec (l_trailer f)))).
  rewrite run_fillers by assumption. reflexivity.
Qed.

(* D: the meaning is order-free and determines the record *)
Theorem sec_spec_unique : forall b rs c c', sec_spec b rs c -> sec_spec b rs c' -> c = c'.
Proof. exact sec_spec_unique_pf. Qed.
Theorem sec_spec_perm : forall b rs rs' c,
  rs ≡ₚ rs' -> NoDup (fn_names rs) -> sec_spec b rs c -> sec_spec b rs' c.
Proof. exact sec_spec_perm_pf. Qed.

Print Assumptions parse_lcov_no_panic.
Print Assumptions parse_lcov_fuel.
Print Assumptions parse_lcov_no_branch.
Print Assumptions add_branch_alg.
Print Assumptions parse_lcov_sound.
Print Assumptions sec_spec_unique.
Print Assumptions sec_spec_perm.
