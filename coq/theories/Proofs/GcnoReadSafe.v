(* The reading half of the gcno model never panics and never runs out of fuel, and produces well-formed graphs:
   every edge id stored in a block is a valid edge index, every block number stored in an edge is a valid block
   index, every b_no is a valid block index.  (C14, reader half.) *)
From Grcov Require Import Model.GcnoCount Proofs.GcnoBase.
From Coq Require Import ZifyBool ZifyN ZifyNat.
Ltac Zify.zify_post_hook ::= Z.div_mod_to_equations.

Definition wf_block (nb ne : N) (b : gblock) : Prop :=
  Forall (fun id => id < ne) (b_src b) /\ Forall (fun id => id < ne) (b_dst b) /\ b_no b < nb.
Definition wf_edge (nb : N) (e : gedge) : Prop := e_src e < nb /\ e_dst e < nb.
Definition wf_graph (blocks : list gblock) (edges : list gedge) : Prop :=
  Forall (wf_block (lenN blocks) (lenN edges)) blocks /\ Forall (wf_edge (lenN blocks)) edges.
Definition wf_fun (f : gfun) : Prop := wf_graph (f_blocks f) (f_edges f).
Definition wf_gcno (g : gcno) : Prop := Forall wf_fun (g_funs g).

Lemma wf_block_mono nb ne nb' ne' b : wf_block nb ne b -> nb <= nb' -> ne <= ne' -> wf_block nb' ne' b.
Proof.
  intros (H1 & H2 & H3) ? ?. repeat split; [| |lia];
    (eapply Forall_impl; [eassumption|]; cbn; intros; lia).
Qed.
Lemma wf_edge_mono nb nb' e : wf_edge nb e -> nb <= nb' -> wf_edge nb' e.
Proof. intros [? ?] ?. split; lia. Qed.

Lemma read_u32_Some le l w l' : read_u32 le l = Some (w, l') -> length l = (4 + length l')%nat.
Proof. destruct l as [|? [|? [|? [|? ?]]]]; cbn; try done. by intros [= _ <-]. Qed.
Lemma read_counter_Some le l w l' : read_counter le l = Some (w, l') -> length l = (8 + length l')%nat.
Proof.
  unfold read_counter. destruct (read_u32 le l) as [[? l1]|] eqn:E1; [|done].
  destruct (read_u32 le l1) as [[? l2]|] eqn:E2; [|done]. intros [= _ <-].
  apply read_u32_Some in E1, E2. lia.
Qed.
Lemma skip_Some n l l' : skip n l = Some l' -> (length l' <= length l)%nat /\ (length l' + N.to_nat n = length l)%nat.
Proof.
  unfold skip. destruct (split_at n l) as [[a b]|] eqn:E; [|done].
  apply split_at_Some in E as (-> & Ha & _). destruct b; [done|]. intros [= <-].
  rewrite app_length. unfold lenN in Ha. lia.
Qed.
Lemma read_string_good le l :
  good (fun '(s, l') => (length l' + 4 <= length l)%nat) (read_string le l).
Proof.
  unfold read_string. destruct (read_u32 le l) as [[len l1]|] eqn:E; [|exact I].
  apply read_u32_Some in E. destruct (len =? 0); [cbn; lia|].
  destruct (split_at (4 * len) l1) as [[a b]|] eqn:E2; [|exact I].
  apply split_at_Some in E2 as (-> & _ & _). destruct (strip_zeros a); [|exact I].
  cbn. rewrite app_length in E. lia.
Qed.

(* ---- binary search and insertion ---- *)
Lemma bs_loop_good key l dst fuel size base :
  (forall x, x ∈ l -> is_Some (key x)) ->
  1 <= size -> base + size <= lenN l -> size <= N.of_nat fuel ->
  good (fun i => i <= lenN l) (bs_loop fuel key l dst size base).
Proof.
  intros Hkey. revert size base. induction fuel as [|fuel IH]; intros size base H1 H2 H3; [lia|].
  cbn [bs_loop]. destruct (N.ltb_spec 1 size) as [Hgt|Hle].
  - destruct (nthN_lt l (base + size / 2)) as [x Hx]; [lia|]. rewrite Hx.
    destruct (Hkey x (nthN_elem _ _ _ Hx)) as [d ->].
    apply IH; [lia| |lia]. destruct (dst <? d); lia.
  - destruct (nthN_lt l base) as [x Hx]; [lia|]. rewrite Hx.
    destruct (Hkey x (nthN_elem _ _ _ Hx)) as [d ->]. cbn.
    destruct (d =? dst); [lia|]. destruct (d <? dst); lia.
Qed.
Lemma bsearch_pos_good key l dst :
  (forall x, x ∈ l -> is_Some (key x)) -> good (fun i => i <= lenN l) (bsearch_pos key l dst).
Proof.
  intros Hkey. unfold bsearch_pos. destruct l as [|y l']; [cbn; lia|].
  apply bs_loop_good; [done| | |]; unfold lenN; cbn [length]; lia.
Qed.
Lemma insert_at_good {A} (P : A -> Prop) i x (l : list A) :
  i <= lenN l -> P x -> Forall P l -> good (fun l' => Forall P l' /\ lenN l' = lenN l + 1) (insert_at i x l).
Proof.
  intros Hi Hx Hl. unfold insert_at. destruct (split_at_le i l Hi) as (a & b & E). rewrite E.
  apply split_at_Some in E as (-> & _ & _). cbn. apply Forall_app in Hl as [? ?].
  split; [apply Forall_app; split; [done|by constructor]|]. rewrite !lenN_app, lenN_cons. lia.
Qed.

Lemma push_arc_good blocks edges src dst flags :
  wf_graph blocks edges -> src < lenN blocks -> dst < lenN blocks ->
  good (fun '(b', e') => wf_graph b' e' /\ lenN b' = lenN blocks /\ e' = edges ++ [mkEdge src dst flags 0 0])
       (push_arc blocks edges src dst flags).
Proof.
  intros [Hb He] Hs Hd. unfold push_arc.
  destruct (nthN_lt blocks src Hs) as [bs Hbs]. rewrite Hbs.
  pose proof (nthN_elem _ _ _ Hbs) as Hin. rewrite Forall_forall in Hb. pose proof (Hb _ Hin) as (Hsrc & Hdst & Hno).
  set (edges' := edges ++ [mkEdge src dst flags 0 0]).
  assert (Hlen : lenN edges' = lenN edges + 1) by (unfold edges'; rewrite lenN_app; unfold lenN; cbn; lia).
  eapply good_bind.
  { apply (bsearch_pos_good (edge_dst edges') (b_dst bs) dst). intros x Hx. unfold edge_dst.
    rewrite Forall_forall in Hdst. destruct (nthN_lt edges' x) as [e ->]; [specialize (Hdst x Hx); lia|]. by eexists. }
  intros i Hi. eapply good_bind.
  { apply (insert_at_good (fun id => id < lenN edges') i (lenN edges) (b_dst bs) Hi); [lia|].
    eapply Forall_impl; [exact Hdst|]. cbn; intros; lia. }
  intros dl [Hdl _].
  set (blocks1 := alterN _ src blocks).
  assert (Hl1 : lenN blocks1 = lenN blocks) by (unfold blocks1; apply lenN_alterN).
  destruct (nthN_lt blocks1 dst) as [bd Hbd]; [lia|]. rewrite Hbd. cbn.
  assert (Hb0 : Forall (wf_block (lenN blocks) (lenN edges')) blocks).
  { apply Forall_forall. intros b Hbin. eapply wf_block_mono; [by apply Hb| |]; lia. }
  split; [|split; [by rewrite lenN_alterN|done]].
  split.
  - rewrite lenN_alterN, Hl1. apply Forall_alterN.
    + unfold blocks1. apply Forall_alterN; [done|]. intros b (B1 & B2 & B3). repeat split; cbn; done.
    + intros b (B1 & B2 & B3). repeat split; cbn; [|done|done].
      apply Forall_app; split; [done|]. constructor; [lia|constructor].
  - rewrite lenN_alterN, Hl1. unfold edges'. apply Forall_app; split; [done|].
    constructor; [|constructor]. split; cbn; done.
Qed.

(* ---- read_gcno ---- *)
Lemma count_from_bound n s x : x ∈ count_from n s -> s <= x < s + N.of_nat n.
Proof.
  revert s. induction n as [|n IH]; intros s; cbn [count_from]; [by intros ?%elem_of_nil|].
  rewrite elem_of_cons. intros [->|H]; [lia|]. apply IH in H. lia.
Qed.
Lemma count_from_length n s : length (count_from n s) = n.
Proof. revert s. induction n as [|n IH]; intros s; cbn; [done|]. by rewrite IH. Qed.
Lemma wf_graph_add_blocks blocks edges n :
  wf_graph blocks edges -> wf_graph (blocks ++ new_blocks n) edges.
Proof.
  intros [Hb He]. unfold new_blocks.
  assert (Hl : lenN (blocks ++ map new_block (count_from (N.to_nat n) 0)) = lenN blocks + n).
  { rewrite lenN_app. unfold lenN. rewrite map_length, count_from_length. lia. }
  split; rewrite Hl.
  - apply Forall_app; split.
    + eapply Forall_impl; [exact Hb|]. intros b ?. eapply wf_block_mono; [eassumption| |]; lia.
    + apply Forall_forall. intros b [x [-> Hx]]%elem_of_list_fmap. apply count_from_bound in Hx.
      repeat split; cbn; [constructor|constructor|lia].
  - eapply Forall_impl; [exact He|]. intros e ?. eapply wf_edge_mono; [eassumption|lia].
Qed.

Section reader.
Context (le : bool) (version blen : N).

Lemma read_blocks_good f len total l :
  wf_fun f ->
  good (fun '(f', t', l') => wf_fun f' /\ (length l' <= length l)%nat) (read_blocks le version blen f len total l).
Proof.
  intros Hf. unfold read_blocks. destruct (version <? 80).
  - destruct (len =? 0); [cbn; auto|].
    destruct (skip (4 * len) l) as [l'|] eqn:E; [|exact I]. apply skip_Some in E as [? _].
    cbn. split; [|done]. by apply wf_graph_add_blocks.
  - destruct (read_u32 le l) as [[n l']|] eqn:E; [|exact I]. apply read_u32_Some in E.
    destruct (blen / 4 <? total + n); [exact I|]. cbn. split; [|lia]. by apply wf_graph_add_blocks.
Qed.

Lemma read_arcs_good n src blocks edges real l :
  wf_graph blocks edges -> src < lenN blocks ->
  good (fun '(b', e', r', l') => wf_graph b' e' /\ (length l' <= length l)%nat)
       (read_arcs le n src blocks edges real l).
Proof.
  revert blocks edges real l. induction n as [|n IH]; intros blocks edges real l Hwf Hs; cbn [read_arcs]; [cbn; auto|].
  destruct (read_u32 le l) as [[dst l1]|] eqn:E1; [|exact I]. apply read_u32_Some in E1.
  destruct (read_u32 le l1) as [[flags l2]|] eqn:E2; [|exact I]. apply read_u32_Some in E2.
  destruct (N.leb_spec (lenN blocks) dst); [exact I|].
  eapply good_bind; [by apply push_arc_good|]. intros [b' e'] (Hwf' & Hl' & _).
  eapply good_mono; [apply IH; [done|lia]|]. intros [[[? ?] ?] l'] [? ?]. split; [done|lia].
Qed.

Lemma read_edges_good f len l :
  wf_fun f -> good (fun '(f', l') => wf_fun f' /\ (length l' <= length l)%nat) (read_edges le f len l).
Proof.
  intros Hf. unfold read_edges. destruct (len =? 0); [exact I|].
  destruct (read_u32 le l) as [[block_no l1]|] eqn:E; [|exact I]. apply read_u32_Some in E.
  destruct (le_length _ l1); [|exact I]. cbn [negb].
  destruct (N.ltb_spec block_no (lenN (f_blocks f))); [|exact I].
  eapply good_bind; [by apply read_arcs_good|]. intros [[[bl ed] re] l2] [? ?]. cbn. split; [done|lia].
Qed.

Lemma read_lines_loop_good fuel f acc lmax mt l :
  (length l < fuel)%nat ->
  good (fun '(ls, lm, l') => (length l' <= length l)%nat) (read_lines_loop le version fuel f acc lmax mt l).
Proof.
  revert acc lmax mt l. induction fuel as [|fuel IH]; intros acc lmax mt l Hf; [lia|].
  cbn [read_lines_loop]. destruct (read_u32 le l) as [[line l1]|] eqn:E; [|exact I]. apply read_u32_Some in E.
  destruct (line =? 0); cbn [negb].
  - eapply good_bind; [apply read_string_good|]. intros [fname l2] Hl2.
    destruct fname; [cbn; lia|]. eapply good_mono; [apply IH; lia|]. intros [[? ?] ?] ?. lia.
  - destruct (_ || _); (eapply good_mono; [apply IH; lia|]; intros [[? ?] ?] ?; lia).
Qed.

Lemma wf_graph_set_lines blocks edges i g :
  wf_graph blocks edges ->
  (forall b, b_no (g b) = b_no b /\ b_src (g b) = b_src b /\ b_dst (g b) = b_dst b) ->
  wf_graph (alterN g i blocks) edges.
Proof.
  intros [Hb He] Hg. split; rewrite lenN_alterN; [|done].
  apply Forall_alterN; [done|]. intros b (B1 & B2 & B3). unfold wf_block. destruct (Hg b) as (-> & -> & ->). done.
Qed.

Lemma read_lines_good fuel f l :
  (length l <= fuel)%nat -> wf_fun f ->
  good (fun '(f', l') => wf_fun f' /\ (length l' <= length l)%nat) (read_lines le version fuel f l).
Proof.
  intros Hfu Hf. unfold read_lines. destruct (read_u32 le l) as [[block_no l1]|] eqn:E; [|exact I].
  apply read_u32_Some in E.
  destruct (if block_no <? lenN (f_blocks f) then nthN (f_blocks f) block_no else None) as [b|]; [|exact I].
  eapply good_bind; [apply read_lines_loop_good; lia|]. intros [[ls lm] l2] Hl2. cbn.
  split; [|lia]. apply wf_graph_set_lines; [done|]. intros b0; cbn; done.
Qed.

Lemma read_function_good l :
  good (fun '(f, l') => wf_fun f /\ (length l' < length l)%nat) (read_function le version l).
Proof.
  assert (Hnew : forall a b c d e f g, wf_fun (mkFun a b c d e f g [] [] 0)) by (intros; split; constructor).
  unfold read_function.
  destruct (read_u32 le l) as [[ident l1]|] eqn:E1; [|exact I]. apply read_u32_Some in E1.
  destruct (read_u32 le l1) as [[lsum l2]|] eqn:E2; [|exact I]. apply read_u32_Some in E2.
  eapply (good_bind (fun '(_, l3) => (length l3 <= length l2)%nat)).
  { destruct (47 <=? version); [|cbn; lia]. destruct (read_u32 le l2) as [[? ?]|] eqn:E3; [|exact I].
    apply read_u32_Some in E3. cbn. lia. }
  intros [csum l3] H3. eapply good_bind; [apply read_string_good|]. intros [nm l4] H4.
  destruct (version <? 80).
  - eapply good_bind; [apply read_string_good|]. intros [file l5] H5.
    destruct (read_u32 le l5) as [[start l6]|] eqn:E6; [|exact I]. apply read_u32_Some in E6. cbn. split; [apply Hnew|lia].
  - destruct (read_u32 le l4) as [[? l5]|] eqn:E5; [|exact I]. apply read_u32_Some in E5.
    eapply good_bind; [apply read_string_good|]. intros [file l6] H6.
    destruct (read_u32 le l6) as [[start l7]|] eqn:E7; [|exact I]. apply read_u32_Some in E7.
    destruct (read_u32 le l7) as [[? l8]|] eqn:E8; [|exact I]. apply read_u32_Some in E8.
    destruct (read_u32 le l8) as [[endl l9]|] eqn:E9; [|exact I]. apply read_u32_Some in E9.
    destruct (90 <=? version).
    + destruct (read_u32 le l9) as [[? l10]|] eqn:E10; [|exact I]. apply read_u32_Some in E10. cbn. split; [apply Hnew|lia].
    + cbn. split; [apply Hnew|lia].
Qed.

Lemma read_functions_good fuel funs total l :
  (length l < fuel)%nat -> Forall wf_fun funs ->
  good (Forall wf_fun) (read_functions le version blen fuel funs total l).
Proof.
  revert funs total l. induction fuel as [|fuel IH]; intros funs total l Hfu Hwf; [lia|].
  cbn [read_functions]. destruct (read_u32 le l) as [[tag l1]|] eqn:E1; [|done]. apply read_u32_Some in E1.
  destruct (tag =? 0); [done|].
  destruct (read_u32 le l1) as [[len l2]|] eqn:E2; [|exact I]. apply read_u32_Some in E2.
  destruct (tag =? TAG_FUNCTION).
  { eapply good_bind; [apply read_function_good|]. intros [f l3] [? ?]. apply IH; [lia|by constructor]. }
  destruct (tag =? TAG_BLOCKS).
  { destruct funs as [|f fs]; [apply IH; [lia|done]|]. apply Forall_cons in Hwf as [? ?].
    eapply good_bind; [by apply read_blocks_good|]. intros [[f' t'] l3] [? ?]. apply IH; [lia|by constructor]. }
  destruct (tag =? TAG_ARCS).
  { destruct funs as [|f fs]; [apply IH; [lia|done]|]. apply Forall_cons in Hwf as [? ?].
    eapply good_bind; [by apply read_edges_good|]. intros [f' l3] [? ?]. apply IH; [lia|by constructor]. }
  destruct (tag =? TAG_LINES).
  { destruct funs as [|f fs]; [apply IH; [lia|done]|]. apply Forall_cons in Hwf as [? ?].
    eapply good_bind; [apply read_lines_good; [lia|done]|]. intros [f' l3] [? ?]. apply IH; [lia|by constructor]. }
  apply IH; [lia|done].
Qed.
End reader.

Lemma guess_endianness_Some a b c d buf le l : guess_endianness a b c d buf = Some (le, l) -> length buf = (4 + length l)%nat.
Proof.
  unfold guess_endianness. destruct buf as [|? [|? [|? [|? ?]]]]; try done.
  destruct (_ && _); [by intros [= _ <-]|]. destruct (_ && _); [by intros [= _ <-]|done].
Qed.
Lemma read_version_good le l : good (fun '(v, l') => length l = (4 + length l')%nat) (read_version le l).
Proof.
  unfold read_version. destruct l as [|? [|? [|? [|? ?]]]]; try exact I.
  destruct (_ && _); [cbn; lia|]. destruct (_ && _); [cbn; lia|exact I].
Qed.

Theorem read_gcno_good buf : good wf_gcno (read_gcno buf).
Proof.
  unfold read_gcno. destruct (guess_endianness _ _ _ _ buf) as [[le l0]|] eqn:E0; [|exact I].
  apply guess_endianness_Some in E0.
  eapply good_bind; [apply read_version_good|]. intros [version l1] H1.
  destruct (read_u32 le l1) as [[checksum l2]|] eqn:E2; [|exact I]. apply read_u32_Some in E2.
  eapply (good_bind (fun l3 => (length l3 <= length l2)%nat)).
  { destruct (90 <=? version); [|cbn; lia]. eapply good_bind; [apply read_string_good|]. intros [? ?] ?. cbn. lia. }
  intros l3 H3. eapply (good_bind (fun l4 => (length l4 <= length l3)%nat)).
  { destruct (80 <=? version); [|cbn; lia]. destruct (skip 4 l3) eqn:E; [|exact I]. apply skip_Some in E as [? _]. done. }
  intros l4 H4. eapply good_bind; [apply read_functions_good; [lia|constructor]|].
  intros funs Hf. cbn. unfold wf_gcno. cbn. by apply Forall_rev.
Qed.

(* ---- read_gcda ---- *)
Section arith.
Context (W : N -> N).
Lemma add_counters_good le todo done blocks l nb ne :
  Forall (wf_edge nb) todo -> Forall (wf_edge nb) done -> lenN blocks = nb -> Forall (wf_block nb ne) blocks ->
  good (fun '(ed, bl, l') => Forall (wf_edge nb) ed /\ lenN ed = lenN todo + lenN done /\ lenN bl = nb /\
                             Forall (wf_block nb ne) bl /\ (length l' <= length l)%nat)
       (add_counters W le todo done blocks l).
Proof.
  revert done blocks l. induction todo as [|e todo IH]; intros done blocks l Ht Hd Hl Hb; cbn [add_counters].
  - cbn. repeat split; [by apply Forall_rev| |done|done|lia]. unfold lenN. rewrite rev_length. cbn. lia.
  - apply Forall_cons in Ht as [[Hes Hed] Ht]. destruct (is_on_tree e).
    + eapply good_mono; [apply IH; [done|constructor; [by split|done]|done|done]|].
      intros [[ed bl] l'] (? & Hlen & ? & ? & ?). repeat split; try done. rewrite Hlen, !lenN_cons. lia.
    + destruct (read_counter le l) as [[c l']|] eqn:E; [|exact I]. apply read_counter_Some in E.
      destruct (nthN_lt blocks (e_src e)) as [b Hb']; [lia|]. rewrite Hb'.
      eapply good_mono; [apply IH; [done|constructor; [by split|done]|by rewrite lenN_alterN|]|].
      * apply Forall_alterN; [done|]. intros b0 (? & ? & ?). repeat split; cbn; done.
      * intros [[ed bl] l2] (? & Hlen & ? & ? & ?). repeat split; try done; [|lia]. rewrite Hlen, !lenN_cons. lia.
Qed.

Lemma find_ident_aux_bound id fs i found k :
  find_ident_aux id fs i found = Some k -> found = Some k \/ (i <= k < i + lenN fs).
Proof.
  revert i found. induction fs as [|f fs IH]; intros i found; cbn [find_ident_aux]; [by left|].
  intros H. apply IH in H as [H|H]; rewrite lenN_cons.
  - destruct (f_ident f =? id); [injection H as <-; right; lia|by left].
  - right. lia.
Qed.
Lemma find_ident_bound id fs k : find_ident id fs = Some k -> k < lenN fs.
Proof. intros H. apply find_ident_aux_bound in H as [H|H]; [done|lia]. Qed.

Definition cur_ok (g : gcno) (cur : option N) : Prop := match cur with Some fid => fid < lenN (g_funs g) | None => True end.

Lemma read_gcda_loop_good le version fuel g cur l :
  (length l < fuel)%nat -> wf_gcno g -> cur_ok g cur ->
  good wf_gcno (read_gcda_loop W le version fuel g cur l).
Proof.
  revert g cur l. induction fuel as [|fuel IH]; intros g cur l Hfu Hwf Hcur; [lia|].
  cbn [read_gcda_loop]. destruct (read_u32 le l) as [[tag l1]|] eqn:E1; [|done]. apply read_u32_Some in E1.
  destruct (tag =? 0); [done|].
  destruct (read_u32 le l1) as [[len body]|] eqn:E2; [|exact I]. apply read_u32_Some in E2.
  assert (Hcont : forall g' cur', wf_gcno g' -> cur_ok g' cur' ->
            good wf_gcno (match next_record len body with
                          | None => Err
                          | Some l' => read_gcda_loop W le version fuel g' cur' l'
                          end)).
  { intros g' cur' ? ?. unfold next_record. destruct (skip (4 * len) body) as [l'|] eqn:E; [|exact I].
    apply skip_Some in E as [? _]. apply IH; [lia|done|done]. }
  cbv zeta.
  destruct (tag =? TAG_FUNCTION).
  { destruct (len =? 0); [apply IH; [lia|done|done]|]. destruct (len =? 1); [exact I|].
    destruct (read_u32 le body) as [[id b1]|]; [|exact I].
    destruct (read_u32 le b1) as [[lsum b2]|]; [|exact I].
    eapply (good_bind (fun _ => True)).
    { destruct (47 <=? version); [|done]. destruct (read_u32 le b2) as [[? ?]|]; done. }
    intros csum _. destruct (find_ident id (g_funs g)) as [fid|] eqn:Ef; [|exact I].
    apply find_ident_bound in Ef. destruct (nthN_lt _ _ Ef) as [f ->].
    destruct (_ || _); [exact I|]. by apply Hcont. }
  destruct (tag =? TAG_COUNTER_ARCS).
  { destruct cur as [fid|]; [|apply IH; [lia|done|done]]. cbn in Hcur.
    destruct (nthN_lt _ _ Hcur) as [f Hf]. rewrite Hf.
    destruct (negb _); [exact I|].
    pose proof (nthN_elem _ _ _ Hf) as Hin. unfold wf_gcno in Hwf. rewrite Forall_forall in Hwf.
    destruct (Hwf f Hin) as [Hfb Hfe].
    eapply good_bind; [apply (add_counters_good le (f_edges f) [] (f_blocks f) body (lenN (f_blocks f)) (lenN (f_edges f))); [exact Hfe|constructor|reflexivity|exact Hfb]|].
    intros [[ed bl] l'] (He & Hlen & Hbl & Hb & _).
    assert (Hne : lenN ed = lenN (f_edges f)) by (rewrite Hlen; unfold lenN; cbn; lia).
    apply Hcont.
    - unfold wf_gcno. cbn. apply Forall_alterN; [by apply Forall_forall|]. intros f0 _.
      unfold wf_fun, set_graph; cbn. split; rewrite Hbl, ?Hne; done.
    - cbn. by rewrite lenN_alterN. }
  destruct (tag =? TAG_OBJECT_SUMMARY).
  { destruct (read_u32 le body) as [[rc b1]|]; [|exact I]. destruct (skip 4 b1) as [b2|]; [|exact I].
    eapply (good_bind (fun _ => True)).
    { destruct (len =? 9); [|done]. destruct (read_u32 le b2) as [[? ?]|]; done. }
    intros r _. by apply Hcont. }
  destruct (tag =? TAG_PROGRAM_SUMMARY).
  { eapply (good_bind (fun g1 => wf_gcno g1 /\ g_funs g1 = g_funs g)).
    { destruct (0 <? len); [|done]. destruct (skip 4 body) as [b1|]; [|exact I].
      destruct (skip 4 b1) as [b2|]; [|exact I]. destruct (read_u32 le b2) as [[? ?]|]; [|exact I]. done. }
    intros g1 [Hg1 Heq]. apply Hcont; [done|]. destruct cur; cbn in *; [by rewrite Heq|done]. }
  by apply Hcont.
Qed.

Theorem read_gcda_good g buf : wf_gcno g -> good wf_gcno (read_gcda W g buf).
Proof.
  intros Hwf. unfold read_gcda. destruct (guess_endianness _ _ _ _ buf) as [[le l0]|] eqn:E0; [|exact I].
  apply guess_endianness_Some in E0.
  eapply good_bind; [apply read_version_good|]. intros [version l1] H1.
  destruct (negb _); [exact I|].
  destruct (read_u32 le l1) as [[checksum l2]|] eqn:E2; [|exact I]. apply read_u32_Some in E2.
  destruct (negb _); [exact I|]. apply read_gcda_loop_good; [lia|done|done].
Qed.

(* reading a gcno and any number of gcda: never a panic, never out of fuel, result well-formed *)
Theorem read_all_good gcno_buf gcdas :
  good wf_gcno (let* g := read_gcno gcno_buf in ofold (read_gcda W) gcdas g).
Proof.
  eapply good_bind; [apply read_gcno_good|]. intros g Hg.
  apply good_ofold; [done|]. intros g' d ? _. by apply read_gcda_good.
Qed.
End arith.
