(* Fuel: propagate_counts with fuel = (number of blocks) + 2 never runs out (each nested call visits a new block),
   hence `stop` (count_on_tree for every function) is total on well-formed graphs.  (C14 gcno_fuel, counting half
   up to the circuit enumeration, whose depth is not bounded by a theorem.) *)
From Grcov Require Import Model.GcnoCount Proofs.GcnoBase Proofs.GcnoReadSafe Proofs.GcnoCountSafe.
From Coq Require Import ZifyBool ZifyN ZifyNat.

Definition okf {A} (P : A -> Prop) (o : outcome A) : Prop :=
  match o with Ok a => P a | OutOfFuel => False | _ => True end.
Lemma okf_bind {A B} (Q : A -> Prop) (P : B -> Prop) o (f : A -> outcome B) :
  okf Q o -> (forall a, Q a -> okf P (f a)) -> okf P (obind o f).
Proof. destruct o; cbn; auto. Qed.
Lemma okf_mono {A} (P Q : A -> Prop) o : okf P o -> (forall a, P a -> Q a) -> okf Q o.
Proof. destruct o; cbn; auto. Qed.
Lemma okf_ofold {A B} (I : B -> Prop) (f : B -> A -> outcome B) l b :
  I b -> (forall b x, I b -> x ∈ l -> okf I (f b x)) -> okf I (ofold f l b).
Proof.
  revert b. induction l as [|x l IH]; intros b Hb Hf; cbn [ofold]; [done|].
  eapply okf_bind; [apply Hf; [done|left]|]. intros b' Hb'. apply IH; [done|].
  intros b0 y ? ?. apply Hf; [done|by right].
Qed.

(* number of block indices below nb that are not yet visited *)
Definition unvisited (nb : nat) (v : list N) : nat :=
  length (List.filter (fun i => negb (memN i v)) (count_from nb 0)).
Definition vsub (v v' : list N) : Prop := forall x, memN x v = true -> memN x v' = true.

Lemma filter_len_le {A} (p q : A -> bool) l :
  (forall x, p x = true -> q x = true) -> (length (List.filter p l) <= length (List.filter q l))%nat.
Proof.
  intros H. induction l as [|x l IH]; cbn; [lia|].
  destruct (p x) eqn:Ep; [rewrite (H _ Ep); cbn; lia|]. destruct (q x); cbn; lia.
Qed.
Lemma filter_len_lt {A} (p q : A -> bool) l b :
  (forall x, p x = true -> q x = true) -> In b l -> p b = false -> q b = true ->
  (length (List.filter p l) < length (List.filter q l))%nat.
Proof.
  intros H. induction l as [|x l IH]; cbn; [done|]. intros [->|Hin] Hp Hq.
  - rewrite Hp, Hq. cbn. pose proof (filter_len_le p q l H). lia.
  - specialize (IH Hin Hp Hq). destruct (p x) eqn:Ep; [rewrite (H _ Ep); cbn; lia|]. destruct (q x); cbn; lia.
Qed.
Lemma count_from_In n s x : s <= x < s + N.of_nat n -> In x (count_from n s).
Proof.
  revert s. induction n as [|n IH]; intros s H; cbn [count_from]; [lia|].
  destruct (N.eq_dec x s) as [->|]; [by left|]. right. apply IH. lia.
Qed.
Lemma unvisited_mono nb v v' : vsub v v' -> (unvisited nb v' <= unvisited nb v)%nat.
Proof.
  intros H. apply filter_len_le. intros x Hx. apply negb_true_iff in Hx. apply negb_true_iff.
  destruct (memN x v) eqn:E; [|done]. by rewrite (H _ E) in Hx.
Qed.
Lemma unvisited_visit nb v b : b < N.of_nat nb -> memN b v = false -> (unvisited nb (b :: v) < unvisited nb v)%nat.
Proof.
  intros Hb Hv. apply (filter_len_lt _ _ _ b).
  - intros x Hx. apply negb_true_iff in Hx. apply negb_true_iff. cbn [memN] in Hx. by apply orb_false_iff in Hx as [_ ?].
  - apply count_from_In. lia.
  - cbn [memN]. by rewrite N.eqb_refl.
  - by rewrite Hv.
Qed.
Lemma unvisited_le nb v : (unvisited nb v <= nb)%nat.
Proof.
  unfold unvisited. rewrite <- (count_from_length nb 0) at 2. generalize (count_from nb 0).
  induction l as [|x l IH]; cbn; [lia|]. destruct (negb _); cbn; lia.
Qed.
Lemma vsub_refl v : vsub v v. Proof. by intros ?. Qed.
Lemma vsub_trans a b c : vsub a b -> vsub b c -> vsub a c. Proof. intros H1 H2 x Hx. by apply H2, H1. Qed.
Lemma vsub_cons b v : vsub v (b :: v). Proof. intros x Hx. cbn [memN]. by rewrite Hx, orb_true_r. Qed.

Section arith.
Context (W : N -> N).

Lemma sum_side_fuel nb fuel rec get pred ids acc edges visited :
  (forall tgt id ed vis, (unvisited nb vis < fuel)%nat -> okf (fun '(_, _, vis') => vsub vis vis') (rec tgt id ed vis)) ->
  (unvisited nb visited < fuel)%nat ->
  okf (fun '(_, _, vis') => vsub visited vis') (sum_side W rec get pred ids acc edges visited).
Proof.
  intros Hrec. revert acc edges visited. induction ids as [|id ids IH]; intros acc edges visited Hu; cbn [sum_side]; [apply vsub_refl|].
  destruct (match pred with Some p => p =? id | None => false end); [by apply IH|].
  destruct (nthN edges id) as [e|]; [|done]. destruct (is_on_tree e); [|by apply IH].
  eapply okf_bind; [by apply Hrec|]. intros [[c ed'] vis'] Hs.
  eapply okf_mono; [apply IH; pose proof (unvisited_mono nb _ _ Hs); lia|].
  intros [[? ?] vis2] Hs2. by eapply vsub_trans.
Qed.

Lemma propagate_fuel blocks fuel edges b pred visited :
  (unvisited (length blocks) visited < fuel)%nat ->
  okf (fun '(_, _, vis') => vsub visited vis') (propagate W fuel blocks edges b pred visited).
Proof.
  revert edges b pred visited. induction fuel as [|fuel IH]; intros edges b pred visited Hu; [lia|].
  cbn [propagate]. destruct (memN b visited) eqn:Hm; [apply vsub_refl|].
  destruct (nthN blocks b) as [blk|] eqn:Hb; [|done]. apply nthN_Some_lt in Hb. unfold lenN in Hb.
  pose proof (unvisited_visit (length blocks) visited b Hb Hm) as Hlt. cbv zeta.
  assert (Hrec : forall tgt id ed vis, (unvisited (length blocks) vis < fuel)%nat ->
             okf (fun '(_, _, vis') => vsub vis vis') (propagate W fuel blocks ed tgt (Some id) vis)).
  { intros. by apply IH. }
  eapply okf_bind; [apply (sum_side_fuel (length blocks) fuel); [exact Hrec|lia]|].
  intros [[pos ed1] vis1] Hs1. eapply okf_bind.
  { apply (sum_side_fuel (length blocks) fuel); [exact Hrec|]. pose proof (unvisited_mono (length blocks) _ _ Hs1). lia. }
  intros [[neg ed2] vis2] Hs2.
  assert (Hs : vsub visited vis2) by (eapply vsub_trans; [apply vsub_cons|]; by eapply vsub_trans).
  destruct pred as [id|]; [|done]. destruct (nthN ed2 id); done.
Qed.

Lemma count_on_tree_fuel version f : okf (fun _ => True) (count_on_tree W version f).
Proof.
  unfold count_on_tree. destruct (_ <? 2); [done|].
  pose proof (push_arc_good (f_blocks f) (f_edges f)) as _.
  destruct (push_arc _ _ _ 0 ARC_ON_TREE) as [[blocks edges]| | |] eqn:Ep; cbn [obind]; try done.
  2:{ (* push_arc has no fuel: bs_loop fuel is proved sufficient in GcnoReadSafe; here only the class matters *)
      exfalso. unfold push_arc in Ep. destruct (nthN (f_blocks f) _) as [bs|]; [|done].
      pose proof (bsearch_pos_good (edge_dst (f_edges f ++ [mkEdge (if version <? 48 then lenN (f_blocks f) - 1 else 1) 0 ARC_ON_TREE 0 0])) (b_dst bs) 0) as Hg.
      destruct (bsearch_pos _ (b_dst bs) 0) as [i| | |] eqn:Eb; cbn [obind] in Ep; try done.
      - unfold insert_at in Ep. destruct (split_at i (b_dst bs)) as [[? ?]|]; cbn [obind] in Ep; [|done]. by destruct (nthN _ 0).
      - (* OutOfFuel from bs_loop would need an edge id out of range; exclude by case analysis on the loop *)
        unfold bsearch_pos in Eb. destruct (b_dst bs) as [|y l]; [done|].
        assert (Hnf : forall fuel key l0 dst size base, 1 <= size -> size <= N.of_nat fuel -> bs_loop fuel key l0 dst size base <> OutOfFuel).
        { clear. induction fuel as [|fuel IH]; intros key l0 dst size base H1 H2; [lia|]. cbn [bs_loop].
          destruct (N.ltb_spec 1 size).
          - destruct (nthN l0 _); [|done]. destruct (key n); [|done]. apply IH.
            + assert (size / 2 < size) by (apply N.div_lt; lia). assert (size / 2 <= size / 1) by (apply N.div_le_compat_l; lia). rewrite N.div_1_r in *. lia.
            + assert (1 <= size / 2) by (apply N.div_le_lower_bound; lia). lia.
          - destruct (nthN l0 base); [|done]. by destruct (key n). }
        eapply Hnf; [| |exact Eb]; unfold lenN; cbn [length]; lia. }
  eapply (okf_bind (fun _ => True)).
  { apply (okf_ofold (fun _ => True)); [done|]. intros [ed vis] b _ _.
    eapply okf_bind; [apply propagate_fuel; pose proof (unvisited_le (length blocks) vis); lia|].
    intros [[? ?] ?] _. done. }
  intros [ed' ?] _. eapply (okf_bind (fun _ => True)); [|done].
  unfold add_tree_counts. apply (okf_ofold (fun _ => True)); [done|]. intros bl e _ _.
  destruct (is_on_tree e); [|done]. by destruct (nthN bl (e_src e)).
Qed.

Theorem stop_never_out_of_fuel g : stop W g <> OutOfFuel.
Proof.
  assert (H : okf (fun _ => True) (stop W g)).
  { unfold stop. eapply (okf_bind (fun _ => True)); [|done].
    apply (okf_ofold (fun _ => True)); [done|]. intros acc f _ _.
    eapply (okf_bind (fun _ => True)); [apply count_on_tree_fuel|done]. }
  by destruct (stop W g).
Qed.
End arith.

(* ---- the whole computation, when no source line is carried by several blocks ---- *)
From Grcov Require Import Proofs.GcnoShape Proofs.GcnoPerm.

Definition lshape (b : gblock) := (b_no b, b_lines b).
Lemma lines_to_block_lshape bl bl' : map lshape bl = map lshape bl' -> lines_to_block bl = lines_to_block bl'.
Proof.
  unfold lines_to_block. generalize (∅ : gmap N (list N)). revert bl'.
  induction bl as [|b bl IH]; intros [|b' bl'] m; cbn [map foldl]; try done.
  intros [= H1 H2 H3]. rewrite H1, H2. by apply IH.
Qed.
Lemma lshape_of_bshape bl bl' : map bshape bl = map bshape bl' -> map lshape bl = map lshape bl'.
Proof.
  revert bl'. induction bl as [|b bl IH]; intros [|b' bl']; cbn [map]; try done.
  intros [= H1 H2]. f_equal; [|by apply IH]. unfold bshape in H1. unfold lshape. congruence.
Qed.

Definition single_block_lines (f : gfun) : Prop :=
  forall line bs, lines_to_block (f_blocks f) !! line = Some bs -> length bs = 1%nat.

Section arith2.
Context (W : N -> N) (Wsub : N -> N -> N).

Lemma push_arc_lshape blocks edges src dst flags :
  post (fun '(b', _) => map lshape b' = map lshape blocks) (push_arc blocks edges src dst flags).
Proof.
  unfold push_arc. destruct (nthN blocks src); [|done].
  eapply (post_bind (fun _ => True)); [done|]. intros i _.
  eapply (post_bind (fun _ => True)); [done|]. intros dl _.
  destruct (nthN _ dst); [|done]. apply post_Ok. rewrite !map_alterN_id; done.
Qed.
Lemma count_on_tree_lshape version f :
  post (fun f' => map lshape (f_blocks f') = map lshape (f_blocks f)) (count_on_tree W version f).
Proof.
  unfold count_on_tree. destruct (_ <? 2); [by apply post_Ok|].
  eapply post_bind; [apply push_arc_lshape|]. intros [blocks edges] Hb.
  eapply (post_bind (fun _ => True)); [done|]. intros [ed' ?] _.
  eapply (post_bind (fun bl => map lshape bl = map lshape blocks)).
  { unfold add_tree_counts. apply (post_ofold (fun bl => map lshape bl = map lshape blocks)); [done|].
    intros bl e Hbl _. destruct (is_on_tree e); [|by apply post_Ok]. destruct (nthN bl (e_src e)); [|done].
    apply post_Ok. rewrite map_alterN_id; done. }
  intros bl' Hbl'. apply post_Ok. cbn. by rewrite Hbl'.
Qed.
Lemma stop_single g :
  Forall single_block_lines (g_funs g) -> post (fun g' => Forall single_block_lines (g_funs g')) (stop W g).
Proof.
  intros Hs. unfold stop. eapply (post_bind (Forall single_block_lines)).
  { apply (post_ofold (Forall single_block_lines)); [constructor|]. intros acc f Hacc Hin.
    eapply post_bind; [apply count_on_tree_lshape|]. intros f' Hf'. apply post_Ok. constructor; [|done].
    rewrite Forall_forall in Hs. intros line bs. rewrite (lines_to_block_lshape _ _ Hf'). by apply Hs. }
  intros fs Hfs. apply post_Ok. unfold set_funs; cbn [g_funs]. by apply Forall_rev.
Qed.
Lemma read_gcdas_single g ds :
  Forall single_block_lines (g_funs g) ->
  post (fun g' => Forall single_block_lines (g_funs g')) (ofold (read_gcda W) ds g).
Proof.
  intros Hs g' Hg'. pose proof (read_gcdas_shape W g ds _ Hg') as Hsh.
  pose proof (gshape_funs _ _ Hsh) as Hf. clear Hsh Hg'.
  induction Hf as [|f' f l' l Hff _ IH]; [constructor|]. apply Forall_cons in Hs as [Hs0 Hs]. constructor; [|by apply IH].
  intros line bs. unfold fshape in Hff. assert (Hb : map bshape (f_blocks f') = map bshape (f_blocks f)) by congruence.
  rewrite (lines_to_block_lshape _ _ (lshape_of_bshape _ _ Hb)). apply Hs0.
Qed.

Lemma add_line_count_fuel f : single_block_lines f -> okf (fun _ => True) (add_line_count W Wsub f).
Proof.
  intros Hs. unfold add_line_count. destruct (match f_edges f with [] => false | e :: _ => 0 <? e_counter e end); [|done].
  eapply (okf_bind (fun _ => True)); [|done]. apply (okf_ofold (fun _ => True)); [done|].
  intros [ed acc] [line bs] _ Hin. apply elem_of_map_to_list in Hin. apply Hs in Hin.
  destruct bs as [|b [|b2 bs]]; cbn in Hin; try lia. by destruct (nthN (f_blocks f) b).
Qed.
Lemma finalize_fuel br g : Forall single_block_lines (g_funs g) -> finalize W Wsub br g <> OutOfFuel.
Proof.
  intros Hs. assert (H : okf (fun _ => True) (finalize W Wsub br g)).
  { unfold finalize. apply (okf_ofold (fun _ => True)); [done|]. intros res f _ Hin.
    rewrite Forall_forall in Hs. unfold fin_fun.
    eapply (okf_bind (fun _ => True)); [by apply add_line_count_fuel, Hs|]. intros [ex fl] _.
    eapply (okf_bind (fun _ => True)); [|done]. destruct br; [|done].
    unfold fin_branches. apply (okf_ofold (fun _ => True)); [done|]. intros m blk _ _.
    eapply (okf_bind (fun _ => True)).
    { unfold branch_line. destruct (b_lines blk); [|done]. apply (okf_ofold (fun _ => True)); [done|]. intros lm e _ _.
      destruct (nthN (f_edges f) e); [|done]. by destruct (nthN (f_blocks f) _). }
    intros line _. destruct (line =? 0); [done|]. eapply (okf_bind (fun _ => True)).
    { unfold branch_taken. eapply (okf_bind (fun _ => True)); [|done]. apply (okf_ofold (fun _ => True)); [done|]. intros a no _ _.
      by destruct (nthN (f_edges f) no). }
    intros t _. by destruct (_ <=? _)%nat. }
  by destruct (finalize W Wsub br g).
Qed.

(* C14 gcno_fuel (partial): with the fuel the model uses - |buffer|+1 for the record loops, |blocks|+2 for
   propagate_counts, |blocked|+1 for unblock - the computation never runs out of fuel, provided no source line of
   the gcno is carried by more than one block (then the circuit enumeration, whose recursion depth is not bounded
   by a theorem, is never entered).  The reading half and `stop` need no such hypothesis. *)
Theorem compute_fuel_partial gcno_buf gcdas br :
  (forall g, read_gcno gcno_buf = Ok g -> Forall single_block_lines (g_funs g)) ->
  compute_map_gen W Wsub gcno_buf gcdas br <> OutOfFuel.
Proof.
  intros Hs. unfold compute_map_gen.
  pose proof (read_all_good W gcno_buf gcdas) as Hg.
  destruct (read_gcno gcno_buf) as [g| | |] eqn:Eg; cbn [obind] in Hg |- *; try done.
  specialize (Hs g eq_refl). pose proof (read_gcdas_single g gcdas Hs) as H1.
  destruct (ofold (read_gcda W) gcdas g) as [g1| | |]; cbn [obind] in Hg |- *; try done.
  specialize (H1 _ eq_refl). pose proof (stop_single g1 H1) as H2. pose proof (stop_never_out_of_fuel W g1) as H3.
  destruct (stop W g1) as [g2| | |]; cbn [obind]; try done.
  by apply finalize_fuel, H2.
Qed.
End arith2.
