(* Towards k_copies_scale for the release (u64 wrapping) arithmetic: when nothing overflows the wrapping model and
   the exact-arithmetic model compute the same thing.  `stop`: by flow recovery both compute THE flow.  `finalize`:
   when no line is carried by several blocks only the per-file line sums use arithmetic. *)
From Grcov Require Import Model.GcnoCount Model.GcnoFlow Proofs.GcnoBase Proofs.GcnoReadSafe Proofs.GcnoCountSafe Proofs.GcnoShape
  Proofs.GcnoFuel Proofs.GcnoRecover Proofs.GcnoScale.
From Coq Require Import ZifyBool ZifyN ZifyNat.

Lemma Wid_small x : x < two64 -> Wid x = x. Proof. done. Qed.

(* arcs with the same shape, cycles and counters are the same arcs *)
Lemma edges_determined ed1 ed2 (c : N -> N) :
  map eshape ed1 = map eshape ed2 -> map e_cycles ed1 = map e_cycles ed2 ->
  (forall id e, nthN ed1 id = Some e -> e_counter e = c id) ->
  (forall id e, nthN ed2 id = Some e -> e_counter e = c id) -> ed1 = ed2.
Proof.
  revert ed2 c. induction ed1 as [|e1 ed1 IH]; intros [|e2 ed2] c Hs Hc H1 H2; cbn [map] in Hs, Hc; try done.
  assert (He : eshape e1 = eshape e2) by congruence. assert (Hm : map eshape ed1 = map eshape ed2) by congruence.
  assert (Hce : e_cycles e1 = e_cycles e2) by congruence. assert (Hcm : map e_cycles ed1 = map e_cycles ed2) by congruence.
  f_equal.
  - pose proof (H1 0 e1 eq_refl) as A. pose proof (H2 0 e2 eq_refl) as B. unfold eshape in He.
    destruct e1, e2; cbn in *. congruence.
  - apply (IH ed2 (fun i => c (i + 1)) Hm Hcm).
    + intros id e Hl. apply (H1 (id + 1)). cbn [nthN]. destruct (N.eqb_spec (id + 1) 0); [lia|]. by replace (N.pred (id + 1)) with id by lia.
    + intros id e Hl. apply (H2 (id + 1)). cbn [nthN]. destruct (N.eqb_spec (id + 1) 0); [lia|]. by replace (N.pred (id + 1)) with id by lia.
Qed.
Lemma blocks_determined bl1 bl2 :
  map bshape bl1 = map bshape bl2 -> map b_counter bl1 = map b_counter bl2 -> bl1 = bl2.
Proof.
  revert bl2. induction bl1 as [|b1 bl1 IH]; intros [|b2 bl2] Hs Hc; cbn [map] in Hs, Hc; try done.
  assert (Hb : bshape b1 = bshape b2) by congruence. assert (Hcc : b_counter b1 = b_counter b2) by congruence.
  f_equal; [|apply IH; congruence]. unfold bshape in Hb. destruct b1, b2; cbn in *. congruence.
Qed.

Section any_w.
Context (W : N -> N).
Lemma count_on_tree_bshape version f :
  post (fun f' => forall blocks edges, 2 <= lenN (f_blocks f) -> tree_graph version f = Ok (blocks, edges) ->
                  map bshape (f_blocks f') = map bshape blocks) (count_on_tree W version f).
Proof.
  unfold count_on_tree, tree_graph. destruct (N.ltb_spec (lenN (f_blocks f)) 2); [apply post_Ok; intros; lia|].
  destruct (push_arc _ _ _ 0 ARC_ON_TREE) as [[blocks edges]| | |]; cbn [obind]; try done.
  eapply (post_bind (fun _ => True)); [done|]. intros [ed' ?] _.
  eapply (post_bind (fun bl => map bshape bl = map bshape blocks)).
  { unfold add_tree_counts. apply (post_ofold (fun bl => map bshape bl = map bshape blocks)); [done|].
    intros bl e Hbl _. destruct (is_on_tree e); [|by apply post_Ok]. destruct (nthN bl (e_src e)); [|done].
    apply post_Ok. rewrite map_alterN_id; done. }
  intros bl' Hbl'. apply post_Ok. intros b0 e0 _ [= <- <-]. done.
Qed.
Lemma count_on_tree_fields version f :
  post (fun f' => f' = set_graph f (f_blocks f') (f_edges f') (f_real f)) (count_on_tree W version f).
Proof.
  unfold count_on_tree. destruct (_ <? 2); [apply post_Ok; by destruct f|].
  destruct (push_arc _ _ _ 0 ARC_ON_TREE) as [[blocks edges]| | |]; cbn [obind]; try done.
  eapply (post_bind (fun _ => True)); [done|]. intros [ed' ?] _.
  eapply (post_bind (fun _ => True)); [done|]. intros bl' _. by apply post_Ok.
Qed.
End any_w.

(* the hypotheses of flow recovery for one function, for SOME conserving extension c of its measured counts *)
Definition flow_ok (version : N) (f : gfun) : Prop :=
  lenN (f_blocks f) < 2 \/
  exists blocks edges parl rankl rootl (c : N -> N),
    tree_graph version f = Ok (blocks, edges) /\ rooted_b blocks edges parl rankl rootl = true /\
    (forall id e, nthN edges id = Some e -> is_on_tree e = false -> e_counter e = c id) /\
    (forall b blk, nthN blocks b = Some blk -> sumc c (b_src blk) = sumc c (b_dst blk)) /\
    (forall b blk, nthN blocks b = Some blk -> sumc c (b_src blk) < two64) /\
    blocks_consistent blocks edges = true /\
    (forall f', count_on_tree Wid version f = Ok f' -> forall b, osum any_arc (f_edges f') b < two64).

Lemma count_on_tree_W_indep version f f1 f2 :
  flow_ok version f -> count_on_tree wrap64 version f = Ok f1 -> count_on_tree Wid version f = Ok f2 -> f1 = f2.
Proof.
  intros [Hlt|(blocks & edges & parl & rankl & rootl & c & Hg & Hrb & Hm & Hcons & Hbound & Hbc & Hfit)] H1 H2.
  { unfold count_on_tree in H1, H2. assert (E : (lenN (f_blocks f) <? 2) = true) by (apply N.ltb_lt; lia). rewrite E in H1, H2. congruence. }
  destruct (N.ltb_spec (lenN (f_blocks f)) 2) as [Hlt|Hge].
  { unfold count_on_tree in H1, H2. assert (E : (lenN (f_blocks f) <? 2) = true) by (apply N.ltb_lt; lia). rewrite E in H1, H2. congruence. }
  pose proof (flow_recovery wrap64 version f f1 blocks edges parl rankl rootl c wrap64_small Hge Hg Hrb Hm Hcons Hbound H1) as [Hs1 Hc1].
  pose proof (flow_recovery Wid version f f2 blocks edges parl rankl rootl c Wid_small Hge Hg Hrb Hm Hcons Hbound H2) as [Hs2 Hc2].
  pose proof (flow_recovery_cycles wrap64 version f f1 blocks edges parl rankl rootl c wrap64_small Hge Hg Hrb Hm Hcons Hbound H1) as Hy1.
  pose proof (flow_recovery_cycles Wid version f f2 blocks edges parl rankl rootl c Wid_small Hge Hg Hrb Hm Hcons Hbound H2) as Hy2.
  assert (He : f_edges f1 = f_edges f2) by (apply (edges_determined _ _ c); [congruence|congruence|exact Hc1|exact Hc2]).
  assert (Hfit1 : forall b, osum any_arc (f_edges f1) b < two64) by (rewrite He; by apply Hfit).
  pose proof (flow_recovery_blocks wrap64 version f f1 blocks edges parl rankl rootl c wrap64_small Hge Hg Hrb Hm Hcons Hbound Hbc H1 Hfit1) as Hb1.
  pose proof (flow_recovery_blocks Wid version f f2 blocks edges parl rankl rootl c Wid_small Hge Hg Hrb Hm Hcons Hbound Hbc H2 (Hfit _ H2)) as Hb2.
  pose proof (count_on_tree_bshape wrap64 version f _ H1 blocks edges Hge Hg) as Hsh1.
  pose proof (count_on_tree_bshape Wid version f _ H2 blocks edges Hge Hg) as Hsh2.
  assert (Hbl : f_blocks f1 = f_blocks f2).
  { apply blocks_determined; [congruence|]. apply list_eq. intros i. rewrite !list_lookup_fmap.
    assert (Hlen : length (f_blocks f1) = length (f_blocks f2)) by (apply (f_equal length) in Hsh1, Hsh2; rewrite !map_length in *; lia).
    destruct (f_blocks f1 !! i) as [b1|] eqn:E1, (f_blocks f2 !! i) as [b2|] eqn:E2; cbn.
    - f_equal. rewrite (Hb1 (N.of_nat i) b1), (Hb2 (N.of_nat i) b2), He; [done| |]; rewrite nthN_lookup, Nat2N.id; done.
    - apply lookup_lt_Some in E1. apply lookup_ge_None in E2. lia.
    - apply lookup_lt_Some in E2. apply lookup_ge_None in E1. lia.
    - done. }
  rewrite (count_on_tree_fields wrap64 version f _ H1), (count_on_tree_fields Wid version f _ H2), He, Hbl. done.
Qed.

(* ---- count_on_tree has no error exit: with no panic and no fuel exhaustion it is total ---- *)
Definition oke {A} (P : A -> Prop) (o : outcome A) : Prop := match o with Ok a => P a | Err => False | _ => True end.
Lemma oke_bind {A B} (Q : A -> Prop) (P : B -> Prop) o (f : A -> outcome B) :
  oke Q o -> (forall a, Q a -> oke P (f a)) -> oke P (obind o f).
Proof. destruct o; cbn; auto. Qed.
Lemma oke_ofold {A B} (I : B -> Prop) (f : B -> A -> outcome B) l b :
  I b -> (forall b x, I b -> oke I (f b x)) -> oke I (ofold f l b).
Proof. revert b. induction l as [|x l IH]; intros b Hb Hf; cbn [ofold]; [done|]. eapply oke_bind; [by apply Hf|]. intros. by apply IH. Qed.
Lemma oke_T {A} (o : outcome A) : o <> Err -> oke (fun _ => True) o.
Proof. by destruct o. Qed.

Lemma bs_loop_noerr fuel key l dst size base : bs_loop fuel key l dst size base <> Err.
Proof.
  revert size base. induction fuel as [|fuel IH]; intros size base; cbn [bs_loop]; [done|].
  destruct (1 <? size).
  - destruct (nthN l _); [|done]. destruct (key n); [|done]. apply IH.
  - destruct (nthN l base); [|done]. by destruct (key n).
Qed.
Lemma push_arc_noerr blocks edges src dst flags : oke (fun _ => True) (push_arc blocks edges src dst flags).
Proof.
  unfold push_arc. destruct (nthN blocks src) as [bs|]; [|done].
  eapply (oke_bind (fun _ => True)).
  { apply oke_T. unfold bsearch_pos. destruct (b_dst bs); [done|apply bs_loop_noerr]. }
  intros i _. eapply (oke_bind (fun _ => True)).
  { unfold insert_at. by destruct (split_at i (b_dst bs)) as [[? ?]|]. }
  intros dl _. by destruct (nthN _ dst).
Qed.
Section any_w2.
Context (W : N -> N).
Lemma sum_side_noerr rec get pred ids acc edges visited :
  (forall tgt id ed vis, oke (fun _ => True) (rec tgt id ed vis)) ->
  oke (fun _ => True) (sum_side W rec get pred ids acc edges visited).
Proof.
  intros Hrec. revert acc edges visited. induction ids as [|id ids IH]; intros acc edges visited; cbn [sum_side]; [done|].
  destruct (match pred with Some p => p =? id | None => false end); [apply IH|].
  destruct (nthN edges id) as [e|]; [|done]. destruct (is_on_tree e); [|apply IH].
  eapply (oke_bind (fun _ => True)); [apply Hrec|]. intros [[? ?] ?] _. apply IH.
Qed.
Lemma propagate_noerr fuel blocks edges b pred visited : oke (fun _ => True) (propagate W fuel blocks edges b pred visited).
Proof.
  revert edges b pred visited. induction fuel as [|fuel IH]; intros edges b pred visited; [done|].
  cbn [propagate]. destruct (memN b visited); [done|]. destruct (nthN blocks b) as [blk|]; [|done]. cbv zeta.
  eapply (oke_bind (fun _ => True)); [apply sum_side_noerr; intros; apply IH|]. intros [[? ed1] vis1] _.
  eapply (oke_bind (fun _ => True)); [apply sum_side_noerr; intros; apply IH|]. intros [[? ed2] vis2] _.
  destruct pred as [id|]; [|done]. by destruct (nthN ed2 id).
Qed.
Lemma count_on_tree_noerr version f : oke (fun _ => True) (count_on_tree W version f).
Proof.
  unfold count_on_tree. destruct (_ <? 2); [done|].
  eapply (oke_bind (fun _ => True)); [apply push_arc_noerr|]. intros [blocks edges] _.
  eapply (oke_bind (fun _ => True)).
  { apply (oke_ofold (fun _ => True)); [done|]. intros [ed vis] b _.
    eapply (oke_bind (fun _ => True)); [apply propagate_noerr|]. by intros [[? ?] ?] _. }
  intros [ed' ?] _. eapply (oke_bind (fun _ => True)); [|done].
  unfold add_tree_counts. apply (oke_ofold (fun _ => True)); [done|]. intros bl e _.
  destruct (is_on_tree e); [|done]. by destruct (nthN bl (e_src e)).
Qed.
Lemma count_on_tree_total version f : wf_fun f -> exists f', count_on_tree W version f = Ok f'.
Proof.
  intros Hwf. pose proof (count_on_tree_okp W N.sub version f Hwf) as H1. pose proof (count_on_tree_fuel W version f) as H2.
  pose proof (count_on_tree_noerr version f) as H3. destruct (count_on_tree W version f); cbn in *; try done. eauto.
Qed.
End any_w2.

Lemma stop_fold_W_indep version funs : forall acc r,
  Forall (flow_ok version) funs -> Forall wf_fun funs ->
  ofold (fun acc f => let* f' := count_on_tree wrap64 version f in Ok (f' :: acc)) funs acc = Ok r ->
  ofold (fun acc f => let* f' := count_on_tree Wid version f in Ok (f' :: acc)) funs acc = Ok r.
Proof.
  induction funs as [|f funs IH]; intros acc r Hf Hw; cbn [ofold]; [done|].
  apply Forall_cons in Hf as [Hf0 Hf]. apply Forall_cons in Hw as [Hw0 Hw].
  destruct (count_on_tree wrap64 version f) as [f1| | |] eqn:E1; cbn [obind]; try done.
  destruct (count_on_tree_total Wid version f Hw0) as [f2 E2]. rewrite E2. cbn [obind].
  rewrite (count_on_tree_W_indep version f f1 f2 Hf0 E1 E2). by apply IH.
Qed.
Theorem stop_W_indep g gw :
  Forall (flow_ok (g_version g)) (g_funs g) -> wf_gcno g -> stop wrap64 g = Ok gw -> stop Wid g = Ok gw.
Proof.
  intros Hf Hw. unfold stop.
  destruct (ofold _ (g_funs g) []) as [fs| | |] eqn:E; cbn [obind]; try done.
  rewrite (stop_fold_W_indep _ _ _ _ Hf Hw E). done.
Qed.

(* ---- finalize: with single-block lines only the per-file line sums use arithmetic ---- *)
Lemma ofold_ext_in {A B} (f f' : B -> A -> outcome B) l b :
  (forall b x, x ∈ l -> f b x = f' b x) -> ofold f l b = ofold f' l b.
Proof.
  revert b. induction l as [|x l IH]; intros b Hf; cbn [ofold]; [done|]. rewrite (Hf b x) by left.
  destruct (f' b x); cbn; [|done|done|done]. apply IH. intros. apply Hf. by right.
Qed.
Lemma add_line_count_single_indep W1 S1 W2 S2 f :
  single_block_lines f -> add_line_count W1 S1 f = add_line_count W2 S2 f.
Proof.
  intros Hs. unfold add_line_count. destruct (match f_edges f with [] => false | e :: _ => 0 <? e_counter e end); [|done].
  f_equal. apply ofold_ext_in. intros [ed acc] [line bs] Hin. apply elem_of_map_to_list in Hin. apply Hs in Hin.
  destruct bs as [|b [|b2 bs]]; cbn in Hin; try lia. done.
Qed.

Definition lines_bounded (r : gmap name cov) : Prop :=
  forall file c line n, r !! file = Some c -> c_lines c !! line = Some n -> n < two64.
Definition rle (r r1 : gmap name cov) : Prop :=
  forall file c line n, r !! file = Some c -> c_lines c !! line = Some n ->
    exists c1 n1, r1 !! file = Some c1 /\ c_lines c1 !! line = Some n1 /\ n <= n1.
Lemma rle_refl r : rle r r. Proof. intros file c line n H1 H2. exists c, n. repeat split; [done|done|lia]. Qed.
Lemma rle_trans a b c : rle a b -> rle b c -> rle a c.
Proof.
  intros H1 H2 file x line n Hx Hn. destruct (H1 _ _ _ _ Hx Hn) as (x1 & n1 & Hx1 & Hn1 & ?).
  destruct (H2 _ _ _ _ Hx1 Hn1) as (x2 & n2 & ? & ? & ?). exists x2, n2. repeat split; [done|done|lia].
Qed.
Lemma bounded_rle r r1 : rle r r1 -> lines_bounded r1 -> lines_bounded r.
Proof. intros H Hb file c line n Hc Hn. destruct (H _ _ _ _ Hc Hn) as (c1 & n1 & H1 & H2 & ?). specialize (Hb _ _ _ _ H1 H2). lia. Qed.

Lemma fin_fun_mono br res f res1 : fin_fun Wid N.sub br res f = Ok res1 -> rle res res1.
Proof.
  unfold fin_fun. destruct (add_line_count Wid N.sub f) as [[ex fl]| | |]; cbn [obind]; try done.
  destruct (if br then _ else _) as [b1| | |]; cbn [obind]; try done. intros [= <-] file c line n Hc Hn.
  destruct (decide (file = f_file f)) as [->|Hne]; [|exists c, n; rewrite lookup_insert_ne by done; repeat split; [done|done|lia]].
  rewrite lookup_insert, Hc. cbn [default].
  destruct ex, (fl !! line) as [y|] eqn:Ey; eexists _, _; (split; [done|]); cbn;
    rewrite lookup_union_with, ?lookup_fmap, Hn, ?Ey; cbn; (split; [done|unfold Wid; lia]).
Qed.
Lemma finalize_fold_mono br funs : forall res re, ofold (fin_fun Wid N.sub br) funs res = Ok re -> rle res re.
Proof.
  induction funs as [|f funs IH]; intros res re; cbn [ofold]; [intros [= <-]; apply rle_refl|].
  destruct (fin_fun Wid N.sub br res f) as [res1| | |] eqn:E; cbn [obind]; try done. intros H.
  eapply rle_trans; [by eapply fin_fun_mono|by apply IH].
Qed.

Lemma fin_fun_bridge br res f res1 :
  single_block_lines f -> fin_fun Wid N.sub br res f = Ok res1 -> lines_bounded res1 ->
  fin_fun wrap64 sub64 br res f = Ok res1.
Proof.
  intros Hs. unfold fin_fun. rewrite (add_line_count_single_indep wrap64 sub64 Wid N.sub f Hs).
  destruct (add_line_count Wid N.sub f) as [[ex fl]| | |]; cbn [obind]; try done.
  destruct (if br then _ else _) as [b1| | |]; cbn [obind]; try done. intros [= <-] Hb. do 2 f_equal.
  destruct ex; [|done]. f_equal. apply map_eq. intros line. rewrite !lookup_union_with.
  destruct (c_lines (default empty_cov (res !! f_file f)) !! line) as [x|] eqn:Ex, (fl !! line) as [y|] eqn:Ey; cbn; try done.
  f_equal. apply wrap64_small. eapply (Hb (f_file f) _ line (Wid (x + y))); [by rewrite lookup_insert|]. cbn.
  by rewrite lookup_union_with, Ex, Ey.
Qed.
Theorem finalize_bridge br g re :
  Forall single_block_lines (g_funs g) -> finalize Wid N.sub br g = Ok re -> lines_bounded re ->
  finalize wrap64 sub64 br g = Ok re.
Proof.
  unfold finalize. generalize (∅ : gmap name cov). induction (g_funs g) as [|f funs IH]; intros res Hs; cbn [ofold]; [done|].
  apply Forall_cons in Hs as [Hs0 Hs].
  destruct (fin_fun Wid N.sub br res f) as [res1| | |] eqn:E; cbn [obind]; try done. intros H Hb.
  rewrite (fin_fun_bridge br res f res1 Hs0 E); [cbn [obind]; by apply IH|].
  eapply bounded_rle; [by eapply finalize_fold_mono|done].
Qed.

(* ---- reading: counters only grow, so if the exact final state fits in 64 bits no addition wrapped ---- *)
Definition cle (e e' : gedge) : Prop := e_counter e <= e_counter e'.
Definition ble (b b' : gblock) : Prop := b_counter b <= b_counter b'.
Definition fle (f f' : gfun) : Prop := Forall2 cle (f_edges f) (f_edges f') /\ Forall2 ble (f_blocks f) (f_blocks f').
Definition gle (g g' : gcno) : Prop := Forall2 fle (g_funs g) (g_funs g').
Definition cb_fun (f : gfun) : Prop :=
  Forall (fun e => e_counter e < two64) (f_edges f) /\ Forall (fun b => b_counter b < two64) (f_blocks f).
Definition cbounded (g : gcno) : Prop := Forall cb_fun (g_funs g).

Lemma Forall2_refl' {A} (R : A -> A -> Prop) l : (forall x, R x x) -> Forall2 R l l.
Proof. intros H. induction l; constructor; auto. Qed.
Lemma Forall2_trans' {A} (R : A -> A -> Prop) l1 l2 l3 :
  (forall x y z, R x y -> R y z -> R x z) -> Forall2 R l1 l2 -> Forall2 R l2 l3 -> Forall2 R l1 l3.
Proof. intros HR H. revert l3. induction H; intros l3 H3; inversion H3; subst; constructor; eauto. Qed.
Lemma cle_refl e : cle e e. Proof. unfold cle. lia. Qed.
Lemma ble_refl b : ble b b. Proof. unfold ble. lia. Qed.
Lemma cle_trans x y z : cle x y -> cle y z -> cle x z. Proof. unfold cle. lia. Qed.
Lemma ble_trans x y z : ble x y -> ble y z -> ble x z. Proof. unfold ble. lia. Qed.
Lemma fle_refl f : fle f f. Proof. split; apply Forall2_refl'; [apply cle_refl|apply ble_refl]. Qed.
Lemma fle_trans x y z : fle x y -> fle y z -> fle x z.
Proof. intros [A B] [C D]. split; eapply Forall2_trans'; eauto using cle_trans, ble_trans. Qed.
Lemma gle_refl g : gle g g. Proof. apply Forall2_refl'. apply fle_refl. Qed.
Lemma gle_trans x y z : gle x y -> gle y z -> gle x z.
Proof. apply Forall2_trans'. apply fle_trans. Qed.
Lemma Forall_bounded_le {A} (m : A -> N) l l' :
  Forall2 (fun x y => m x <= m y) l l' -> Forall (fun y => m y < two64) l' -> Forall (fun x => m x < two64) l.
Proof. induction 1; intros H'; [constructor|]. apply Forall_cons in H' as [? ?]. constructor; [lia|auto]. Qed.
Lemma cbounded_gle g g' : gle g g' -> cbounded g' -> cbounded g.
Proof.
  unfold gle, cbounded. induction 1 as [|f f' l l' [He Hb] _ IH]; intros H'; [constructor|].
  apply Forall_cons in H' as [[? ?] ?]. constructor; [|auto]. split; [by eapply (Forall_bounded_le e_counter)|by eapply (Forall_bounded_le b_counter)].
Qed.
Lemma alterN_ble (c : N) i blocks : Forall2 ble blocks (alterN (add_block_counter Wid c) i blocks).
Proof.
  revert i. induction blocks as [|b bl IH]; intros i; cbn [alterN]; [constructor|].
  destruct (i =? 0); constructor; try apply IH; try apply ble_refl; [|apply Forall2_refl', ble_refl].
  unfold ble, add_block_counter, Wid; cbn. lia.
Qed.

Lemma add_counters_mono le todo done blocks l :
  post (fun '(ed, bl, _) => Forall2 cle (rev done ++ todo) ed /\ Forall2 ble blocks bl) (add_counters Wid le todo done blocks l).
Proof.
  revert done blocks l. induction todo as [|e todo IH]; intros done blocks l; cbn [add_counters].
  - apply post_Ok. rewrite app_nil_r. split; [apply Forall2_refl', cle_refl|apply Forall2_refl', ble_refl].
  - destruct (is_on_tree e).
    + eapply post_mono; [apply IH|]. intros [[ed bl] ?] [H1 H2]. cbn [rev] in H1. rewrite <- app_assoc in H1. done.
    + destruct (read_counter le l) as [[c l']|]; [|done]. destruct (nthN blocks (e_src e)); [|done].
      eapply post_mono; [apply IH|]. intros [[ed bl] ?] [H1 H2]. cbn [rev] in H1. rewrite <- app_assoc in H1. cbn [app] in H1. split.
      * eapply Forall2_trans'; [apply cle_trans| |exact H1]. apply Forall2_app; [apply Forall2_refl', cle_refl|].
        constructor; [unfold cle, Wid; cbn; lia|apply Forall2_refl', cle_refl].
      * eapply Forall2_trans'; [apply ble_trans|apply alterN_ble|exact H2].
Qed.

Lemma alterN_ext_at {A} (f g : A -> A) i l : (forall x, nthN l i = Some x -> f x = g x) -> alterN f i l = alterN g i l.
Proof.
  revert i. induction l as [|x l IH]; intros i H; cbn [alterN]; [done|]. destruct (N.eqb_spec i 0) as [->|].
  - by rewrite (H x eq_refl).
  - f_equal. apply IH. intros y Hy. apply H. cbn [nthN]. destruct (N.eqb_spec i 0); [done|exact Hy].
Qed.

Lemma add_counters_bridge le todo : forall dn blocks l ed bl l',
  add_counters Wid le todo dn blocks l = Ok (ed, bl, l') ->
  Forall (fun e => e_counter e < two64) ed -> Forall (fun b => b_counter b < two64) bl ->
  add_counters wrap64 le todo dn blocks l = Ok (ed, bl, l').
Proof.
  induction todo as [|e todo IH]; intros dn blocks l ed bl l'; cbn [add_counters]; [done|].
  destruct (is_on_tree e); [apply IH|].
  destruct (read_counter le l) as [[c l1]|]; [|done]. destruct (nthN blocks (e_src e)) as [b|] eqn:Hb; [|done].
  intros H Hed Hbl. pose proof (add_counters_mono le todo _ _ _ _ H) as [M1 M2].
  assert (Hec : e_counter e + c < two64).
  { cbn [rev] in M1. rewrite <- app_assoc in M1. cbn [app] in M1.
    apply Forall2_app_inv_l in M1 as (k1 & k2 & _ & M1 & ->). apply Forall2_cons_inv_l in M1 as (y & k3 & Hy & _ & ->).
    apply Forall_app in Hed as [_ Hed]. apply Forall_cons in Hed as [Hy' _]. unfold cle, Wid in Hy. cbn in Hy. lia. }
  assert (Hbc : b_counter b + c < two64).
  { assert (Hx : exists b', nthN (alterN (add_block_counter Wid c) (e_src e) blocks) (e_src e) = Some b' /\ b_counter b' = b_counter b + c).
    { rewrite nthN_alterN, N.eqb_refl, Hb. cbn. eexists. split; [done|]. unfold add_block_counter, Wid. cbn. done. }
    destruct Hx as (b' & Hb' & Hc'). rewrite nthN_lookup in Hb'.
    destruct (Forall2_lookup_l _ _ _ _ _ M2 Hb') as (b2 & Hb2 & Hle). rewrite Forall_forall in Hbl.
    pose proof (Hbl b2 (elem_of_list_lookup_2 _ _ _ Hb2)). unfold ble in Hle. lia. }
  rewrite (wrap64_small _ Hec).
  rewrite (alterN_ext_at (add_block_counter wrap64 c) (add_block_counter Wid c)).
  - by apply IH.
  - intros x Hx. rewrite Hb in Hx. injection Hx as <-. unfold add_block_counter. by rewrite (wrap64_small _ Hbc).
Qed.

Lemma Forall2_alterN_r {A} (R : A -> A -> Prop) (h : A -> A) i l x :
  (forall y, R y y) -> nthN l i = Some x -> R x (h x) -> Forall2 R l (alterN h i l).
Proof.
  intros Hr. revert i. induction l as [|y l IH]; intros i Hl Hx; cbn [alterN nthN] in *; [constructor|].
  destruct (i =? 0); [injection Hl as ->; constructor; [done|by apply Forall2_refl']|]. constructor; [done|by apply IH].
Qed.

Lemma read_gcda_loop_mono le version fuel g cur l :
  post (fun g' => gle g g') (read_gcda_loop Wid le version fuel g cur l).
Proof.
  revert g cur l. induction fuel as [|fuel IH]; intros g cur l; [done|].
  cbn [read_gcda_loop]. destruct (read_u32 le l) as [[tag l1]|]; [|apply post_Ok, gle_refl].
  destruct (tag =? 0); [apply post_Ok, gle_refl|]. destruct (read_u32 le l1) as [[len body]|]; [|done].
  assert (Hcont : forall g1 cur1, gle g g1 ->
            post (fun g' => gle g g') (match next_record len body with None => Err | Some l' => read_gcda_loop Wid le version fuel g1 cur1 l' end)).
  { intros g1 cur1 Hg1. destruct (next_record len body); [|done]. eapply post_mono; [apply IH|]. intros g' ?. by eapply gle_trans. }
  cbv zeta. destruct (tag =? TAG_FUNCTION).
  { destruct (len =? 0); [apply IH|]. destruct (len =? 1); [done|].
    destruct (read_u32 le body) as [[id b1]|]; [|done]. destruct (read_u32 le b1) as [[lsum b2]|]; [|done].
    eapply (post_bind (fun _ => True)); [done|]. intros csum _.
    destruct (find_ident id (g_funs g)) as [fid|]; [|done]. destruct (nthN (g_funs g) fid); [|done].
    destruct (_ || _); [done|]. apply Hcont, gle_refl. }
  destruct (tag =? TAG_COUNTER_ARCS).
  { destruct cur as [fid|]; [|apply IH]. destruct (nthN (g_funs g) fid) as [f|] eqn:Hf; [|done]. destruct (negb _); [done|].
    eapply post_bind; [apply add_counters_mono|]. intros [[ed bl] l'] [H1 H2]. cbn [rev app] in H1.
    apply Hcont. unfold gle; cbn. eapply Forall2_alterN_r; [apply fle_refl|exact Hf|]. by split. }
  destruct (tag =? TAG_OBJECT_SUMMARY).
  { destruct (read_u32 le body) as [[rc b1]|]; [|done]. destruct (skip 4 b1) as [b2|]; [|done].
    eapply (post_bind (fun _ => True)); [done|]. intros r _. apply Hcont. apply Forall2_refl', fle_refl. }
  destruct (tag =? TAG_PROGRAM_SUMMARY).
  { eapply (post_bind (fun g1 => g_funs g1 = g_funs g)).
    { destruct (0 <? len); [|by apply post_Ok]. destruct (skip 4 body) as [b1|]; [|done].
      destruct (skip 4 b1) as [b2|]; [|done]. destruct (read_u32 le b2) as [[? ?]|]; [|done]. by apply post_Ok. }
    intros g1 Hg1. apply Hcont. unfold gle; cbn. rewrite Hg1. apply Forall2_refl', fle_refl. }
  apply Hcont, gle_refl.
Qed.

Lemma read_gcda_loop_bridge le version fuel : forall g cur l g',
  read_gcda_loop Wid le version fuel g cur l = Ok g' -> cbounded g' ->
  read_gcda_loop wrap64 le version fuel g cur l = Ok g'.
Proof.
  induction fuel as [|fuel IH]; intros g cur l g'; [done|].
  cbn [read_gcda_loop]. destruct (read_u32 le l) as [[tag l1]|]; [|done].
  destruct (tag =? 0); [done|]. destruct (read_u32 le l1) as [[len body]|]; [|done]. cbv zeta.
  destruct (tag =? TAG_FUNCTION).
  { destruct (len =? 0); [apply IH|]. destruct (len =? 1); [done|].
    destruct (read_u32 le body) as [[id b1]|]; [|done]. destruct (read_u32 le b1) as [[lsum b2]|]; [|done].
    destruct (if 47 <=? version then _ else _) as [csum| | |]; cbn [obind]; [|intros; discriminate..].
    destruct (find_ident id (g_funs g)) as [fid|]; [|done]. destruct (nthN (g_funs g) fid); [|done].
    destruct (_ || _); [done|]. destruct (next_record len body); [apply IH|done]. }
  destruct (tag =? TAG_COUNTER_ARCS).
  { destruct cur as [fid|]; [|apply IH]. destruct (nthN (g_funs g) fid) as [f|] eqn:Hf; [|done]. destruct (negb _); [done|].
    destruct (add_counters Wid le (f_edges f) [] (f_blocks f) body) as [[[ed bl] l']| | |] eqn:Ea; cbn [obind]; [|intros; discriminate..].
    destruct (next_record len body) as [l2|]; [|done]. intros H Hb.
    pose proof (read_gcda_loop_mono le version fuel _ _ _ _ H) as Hm. pose proof (cbounded_gle _ _ Hm Hb) as Hb1.
    assert (Hcf : cb_fun (set_graph f bl ed (f_real f))).
    { unfold cbounded in Hb1. cbn in Hb1. rewrite Forall_forall in Hb1. apply Hb1.
      apply (nthN_elem _ fid). rewrite nthN_alterN, N.eqb_refl, Hf. done. }
    destruct Hcf as [Hce Hcb]. cbn in Hce, Hcb.
    rewrite (add_counters_bridge le _ _ _ _ _ _ _ Ea Hce Hcb). cbn [obind]. by apply IH. }
  destruct (tag =? TAG_OBJECT_SUMMARY).
  { destruct (read_u32 le body) as [[rc b1]|]; [|done]. destruct (skip 4 b1) as [b2|]; [|done].
    destruct (if len =? 9 then _ else _) as [r| | |]; cbn [obind]; [|intros; discriminate..]. destruct (next_record len body); [apply IH|done]. }
  destruct (tag =? TAG_PROGRAM_SUMMARY).
  { destruct (if 0 <? len then _ else _) as [g1| | |]; cbn [obind]; [|intros; discriminate..]. destruct (next_record len body); [apply IH|done]. }
  destruct (next_record len body); [apply IH|done].
Qed.

Lemma read_gcda_mono g d : post (fun g' => gle g g') (read_gcda Wid g d).
Proof.
  unfold read_gcda. destruct (guess_endianness _ _ _ _ d) as [[le l0]|]; [|done].
  eapply (post_bind (fun _ => True)); [done|]. intros [version l1] _.
  destruct (negb _); [done|]. destruct (read_u32 le l1) as [[checksum l2]|]; [|done].
  destruct (negb _); [done|]. apply read_gcda_loop_mono.
Qed.
Lemma read_gcda_bridge g d g' : read_gcda Wid g d = Ok g' -> cbounded g' -> read_gcda wrap64 g d = Ok g'.
Proof.
  unfold read_gcda. destruct (guess_endianness _ _ _ _ d) as [[le l0]|]; [|done].
  destruct (read_version le l0) as [[version l1]| | |]; cbn [obind]; [|intros; discriminate..].
  destruct (negb _); [done|]. destruct (read_u32 le l1) as [[checksum l2]|]; [|done].
  destruct (negb _); [done|]. apply read_gcda_loop_bridge.
Qed.
Lemma read_gcdas_mono ds : forall g, post (fun g' => gle g g') (ofold (read_gcda Wid) ds g).
Proof.
  induction ds as [|d ds IH]; intros g; cbn [ofold]; [apply post_Ok, gle_refl|].
  eapply post_bind; [apply read_gcda_mono|]. intros g1 H1. eapply post_mono; [apply IH|]. intros g' ?. by eapply gle_trans.
Qed.
Theorem read_gcdas_bridge ds : forall g g',
  ofold (read_gcda Wid) ds g = Ok g' -> cbounded g' -> ofold (read_gcda wrap64) ds g = Ok g'.
Proof.
  induction ds as [|d ds IH]; intros g g'; cbn [ofold]; [done|].
  destruct (read_gcda Wid g d) as [g1| | |] eqn:E; cbn [obind]; try done. intros H Hb.
  rewrite (read_gcda_bridge g d g1 E); [cbn [obind]; by apply IH|].
  eapply cbounded_gle; [by apply (read_gcdas_mono ds g1)|done].
Qed.

(* ---- the whole computation ---- *)
Lemma stop_fold_W_indep' version funs : forall acc r,
  Forall (flow_ok version) funs -> Forall wf_fun funs ->
  ofold (fun acc f => let* f' := count_on_tree Wid version f in Ok (f' :: acc)) funs acc = Ok r ->
  ofold (fun acc f => let* f' := count_on_tree wrap64 version f in Ok (f' :: acc)) funs acc = Ok r.
Proof.
  induction funs as [|f funs IH]; intros acc r Hf Hw; cbn [ofold]; [done|].
  apply Forall_cons in Hf as [Hf0 Hf]. apply Forall_cons in Hw as [Hw0 Hw].
  destruct (count_on_tree Wid version f) as [f2| | |] eqn:E2; cbn [obind]; try done.
  destruct (count_on_tree_total wrap64 version f Hw0) as [f1 E1]. rewrite E1. cbn [obind].
  rewrite (count_on_tree_W_indep version f f1 f2 Hf0 E1 E2). by apply IH.
Qed.
Lemma stop_W_indep' g ge :
  Forall (flow_ok (g_version g)) (g_funs g) -> wf_gcno g -> stop Wid g = Ok ge -> stop wrap64 g = Ok ge.
Proof.
  intros Hf Hw. unfold stop.
  destruct (ofold _ (g_funs g) []) as [fs| | |] eqn:E; cbn [obind]; try done.
  rewrite (stop_fold_W_indep' _ _ _ _ Hf Hw E). done.
Qed.

(* "nothing overflows" on an input, stated on the exact-arithmetic evaluation of the same model:
   - the counters read from the gcda list fit in 64 bits,
   - every function has a rooted-forest witness and a conserving extension of its measured counts whose block
     throughputs fit in 64 bits (flow_ok: then count_on_tree computes that flow, no sum wraps),
   - no source line is carried by several blocks (the circuit enumeration is not entered),
   - the reported line counts fit in 64 bits. *)
Definition no_overflow (gcno_buf : bytes) (ds : list bytes) (br : bool) : Prop :=
  forall g0 g1 g2 re,
    read_gcno gcno_buf = Ok g0 -> ofold (read_gcda Wid) ds g0 = Ok g1 -> stop Wid g1 = Ok g2 -> finalize Wid N.sub br g2 = Ok re ->
    cbounded g1 /\ Forall (flow_ok (g_version g1)) (g_funs g1) /\ Forall single_block_lines (g_funs g2) /\ lines_bounded re.

Theorem compute_bridge gcno_buf ds br re :
  compute_map_gen Wid N.sub gcno_buf ds br = Ok re -> no_overflow gcno_buf ds br -> compute_map gcno_buf ds br = Ok re.
Proof.
  unfold compute_map, compute_map_gen. intros H Hno.
  pose proof (read_all_good Wid gcno_buf ds) as Hwf.
  destruct (read_gcno gcno_buf) as [g0| | |] eqn:E0; cbn [obind] in *; try done.
  destruct (ofold (read_gcda Wid) ds g0) as [g1| | |] eqn:E1; cbn [obind] in *; try done.
  destruct (stop Wid g1) as [g2| | |] eqn:E2; cbn [obind] in *; try done.
  destruct (Hno g0 g1 g2 re E0 E1 E2 H) as (Hb & Hf & Hs & Hl).
  rewrite (read_gcdas_bridge ds g0 g1 E1 Hb). cbn [obind].
  rewrite (stop_W_indep' g1 g2 Hf Hwf E2). cbn [obind]. by apply finalize_bridge.
Qed.

Theorem k_copies_scale_wrap gcno_buf d (k : nat) br r1 :
  (1 <= k)%nat ->
  compute_map_gen Wid N.sub gcno_buf [d] br = Ok r1 ->
  no_overflow gcno_buf [d] br -> no_overflow gcno_buf (repeat d k) br ->
  exists rk, compute_map gcno_buf [d] br = Ok r1 /\ compute_map gcno_buf (repeat d k) br = Ok rk /\ scaled (N.of_nat k) r1 rk.
Proof.
  intros Hk H1 Hn1 Hnk. pose proof (k_copies_scale gcno_buf d k br Hk) as Hs. rewrite H1 in Hs.
  destruct (compute_map_gen Wid N.sub gcno_buf (repeat d k) br) as [rk| | |] eqn:Ek; cbn in Hs; try done.
  exists rk. split; [by apply compute_bridge|]. split; [by apply compute_bridge|done].
Qed.

(* ---- the executable check of no_overflow is sound ---- *)
Lemma osum_le_total edges b : osum any_arc edges b <= total_count edges.
Proof. unfold osum, total_count, any_arc. induction edges as [|e l IH]; cbn [fold_right]; [lia|]. cbv beta.
  set (A := foldr _ 0 l) in *. set (B := foldr (fun e0 acc => e_counter e0 + acc) 0 l) in *. clearbody A B.
  destruct (e_src e =? b); cbn [andb]; cbv iota; lia. Qed.

Lemma flow_ok_b_sound version f : flow_ok_b version f = true -> flow_ok version f.
Proof.
  unfold flow_ok_b, flow_ok. destruct (N.ltb_spec (lenN (f_blocks f)) 2) as [Hlt|Hge]; [by left|]. intros H. right.
  destruct (push_arc _ _ _ 0 ARC_ON_TREE) as [[blocks edges]| | |] eqn:Eg; try done.
  destruct (count_on_tree exact_add version f) as [f'| | |] eqn:Ec; try done.
  destruct (find_rooted blocks edges) as [[p r] t].
  apply andb_true_iff in H as [H Htot]. apply andb_true_iff in H as [H Hbc]. apply andb_true_iff in H as [H Hcons].
  apply andb_true_iff in H as [Hrb Hagree]. apply N.ltb_lt in Htot. rewrite forallb_forall in Hcons.
  exists blocks, edges, p, r, t, (cnt_of (f_edges f')). split; [exact Eg|]. split; [done|]. split; [|split; [|split; [|split; [done|]]]].
  - intros id e He Ht. pose proof (forallb_count_from _ _ _ Hagree id) as Hid.
    cbn beta in Hid. rewrite He, Ht in Hid. cbn in Hid. apply N.eqb_eq, Hid. apply nthN_Some_lt in He. unfold lenN in He. lia.
  - intros b blk Hl. specialize (Hcons blk (proj1 (elem_of_list_In _ _) (nthN_elem _ _ _ Hl))).
    apply andb_true_iff in Hcons as [H1 _]. by apply N.eqb_eq.
  - intros b blk Hl. specialize (Hcons blk (proj1 (elem_of_list_In _ _) (nthN_elem _ _ _ Hl))).
    apply andb_true_iff in Hcons as [_ H1]. by apply N.ltb_lt.
  - intros f'' Hc b. change Wid with exact_add in Hc. rewrite Ec in Hc. injection Hc as <-.
    pose proof (osum_le_total (f_edges f') b). lia.
Qed.

Lemma forallb_Forall {A} (p : A -> bool) (P : A -> Prop) l :
  (forall x, p x = true -> P x) -> forallb p l = true -> Forall P l.
Proof. intros Hp H. rewrite forallb_forall in H. apply Forall_forall. intros x Hx. apply Hp, H. by apply elem_of_list_In. Qed.

Theorem no_overflow_b_sound gcno_buf ds br : no_overflow_b gcno_buf ds br = true -> no_overflow gcno_buf ds br.
Proof.
  intros H g0 g1 g2 re H0 H1 H2 H3. unfold no_overflow_b in H. change exact_add with Wid in H. rewrite H0, H1, H2, H3 in H.
  apply andb_true_iff in H as [H Hlb]. apply andb_true_iff in H as [H Hsb]. apply andb_true_iff in H as [Hcb Hfl].
  split; [|split; [|split]].
  - unfold cbounded_b in Hcb. eapply forallb_Forall; [|exact Hcb]. intros f Hf. apply andb_true_iff in Hf as [He Hb]. split.
    + eapply forallb_Forall; [|exact He]. intros e. apply N.ltb_lt.
    + eapply forallb_Forall; [|exact Hb]. intros b. apply N.ltb_lt.
  - eapply forallb_Forall; [|exact Hfl]. intros f. apply flow_ok_b_sound.
  - eapply forallb_Forall; [|exact Hsb]. intros f Hf line bs Hl. unfold single_block_lines_b in Hf. rewrite forallb_forall in Hf.
    apply elem_of_map_to_list, elem_of_list_In in Hl. specialize (Hf _ Hl). by apply Nat.eqb_eq in Hf.
  - intros file c line n Hc Hn. unfold lines_bounded_b in Hlb. rewrite forallb_forall in Hlb.
    apply elem_of_map_to_list, elem_of_list_In in Hc. specialize (Hlb _ Hc). cbn in Hlb. rewrite forallb_forall in Hlb.
    apply elem_of_map_to_list, elem_of_list_In in Hn. specialize (Hlb _ Hn). by apply N.ltb_lt in Hlb.
Qed.
