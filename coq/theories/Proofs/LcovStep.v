(* Basic facts on the lcov parser model: take_while, step, fuel, robustness, add_branch. *)
From Grcov Require Import Model.Lcov Model.LcovSpec Proofs.MergeFacts.
From Coq Require Import ZifyBool ZifyN ZifyNat.
Ltac Zify.zify_post_hook ::= Z.div_mod_to_equations.

(** * take_while and friends *)
Lemma take_while_length p l : (length (take_while p l).2 <= length l)%nat.
Proof.
  induction l as [|c r IH]; simpl; [lia|].
  destruct (p c); [|simpl; lia].
  destruct (take_while p r) as [t r'] eqn:E. simpl in *. lia.
Qed.
Lemma skip_line_length l : (length (skip_line l) <= length l)%nat.
Proof. apply take_while_length. Qed.
Lemma brda_taken_length l : (length (brda_taken l).2 <= length l)%nat.
Proof.
  induction l as [|c r IH]; simpl; [lia|].
  destruct (not_eol c); [|simpl; lia].
  destruct (negb (c =? cMinus) && negb (c =? c0)); simpl; lia.
Qed.

Lemma take_while_app p xs c r :
  forallb p xs = true -> p c = false -> take_while p (xs ++ c :: r) = (xs, r).
Proof.
  intros Hxs Hc. induction xs as [|x xs IH]; simpl.
  - rewrite Hc. reflexivity.
  - simpl in Hxs. apply andb_true_iff in Hxs as [Hx Hxs]. rewrite Hx, IH by assumption. reflexivity.
Qed.
Lemma skip_line_app xs r : forallb not_lf xs = true -> skip_line (xs ++ 10 :: r) = r.
Proof. intros H. unfold skip_line. rewrite take_while_app; [reflexivity|assumption|reflexivity]. Qed.

(** * step never lengthens the input and never panics *)
Ltac step_case :=
  match goal with
  | |- context [take_while ?p ?l] =>
      let H := fresh "Hlen" in
      pose proof (take_while_length p l) as H;
      destruct (take_while p l) as [? ?]; cbn [fst snd] in H
  | |- context [brda_taken ?l] =>
      let H := fresh "Hlen" in
      pose proof (brda_taken_length l) as H;
      destruct (brda_taken l) as [? ?]; cbn [fst snd] in H
  | |- context [if ?c then _ else _] => destruct c
  | |- context [match ?x with [] => _ | _ :: _ => _ end] => destruct x
  | |- context [match ?x with Some _ => _ | None => _ end] => destruct x
  end.

Lemma step_shape b c l st :
  match step b c l st with
  | Ok (l', st') =>
      (length l' <= length l)%nat /\
      (b = false -> p_branches st = ∅ -> Forall (fun r => c_branches r.2 = ∅) (p_results st) ->
       p_branches st' = ∅ /\ Forall (fun r => c_branches r.2 = ∅) (p_results st'))
  | Err => True
  | Panic => False
  | OutOfFuel => False
  end.
Proof.
  unfold step.
  pose proof (skip_line_length l) as Hsk.
  destruct (c =? ce).
  { destruct (p_file st); [|exact I]. split; [assumption|]. cbn. intros _ Hb Hr. split; [reflexivity|].
    apply Forall_app. split; [assumption|]. constructor; [assumption|constructor]. }
  destruct (c =? cLF). { split; [lia|]. auto. }
  destruct (negb _). { split; [assumption|auto]. }
  pose proof (take_while_length is_upper l) as Hlen0.
  destruct (take_while is_upper l) as [us l0]; cbn [fst snd] in Hlen0.
  destruct (key_fold c us) as [key|]; [|exact I].
  pose proof (skip_line_length l0) as Hsk0.
  repeat (step_case; cbv beta iota zeta); cbn [length] in *; try exact I;
    (split; [try match goal with |- (length (skip_line ?x) <= _)%nat => pose proof (skip_line_length x) end; lia|]); cbn; auto.
  all: intros; discriminate.
Qed.

Lemma step_length b c l st l' st' :
  step b c l st = Ok (l', st') -> (length l' <= length l)%nat.
Proof. intros H. pose proof (step_shape b c l st) as Hs. rewrite H in Hs. tauto. Qed.
Lemma step_no_panic b c l st : step b c l st <> Panic.
Proof. intros H. pose proof (step_shape b c l st) as Hs. rewrite H in Hs. tauto. Qed.
Lemma step_no_oof b c l st : step b c l st <> OutOfFuel.
Proof. intros H. pose proof (step_shape b c l st) as Hs. rewrite H in Hs. tauto. Qed.

(** * the loop *)
Lemma parse_loop_no_panic f b l st : parse_loop f b l st <> Panic.
Proof.
  revert l st; induction f as [|f IH]; intros [|c l] st; simpl; try discriminate.
  destruct (step b c l st) as [[l' st']| | |] eqn:E; try discriminate.
  - apply IH.
  - exfalso. eapply step_no_panic, E.
Qed.
Lemma parse_loop_fuel f b l st : (length l <= f)%nat -> parse_loop f b l st <> OutOfFuel.
Proof.
  revert l st; induction f as [|f IH]; intros [|c l] st Hf; simpl in *; try discriminate; try lia.
  destruct (step b c l st) as [[l' st']| | |] eqn:E; try discriminate.
  - apply IH. apply step_length in E. lia.
  - exfalso. eapply step_no_oof, E.
Qed.
Lemma parse_loop_mono2 f f' b l st :
  (length l <= f)%nat -> (length l <= f')%nat -> parse_loop f b l st = parse_loop f' b l st.
Proof.
  revert f' l st. induction f as [|f IH]; intros [|f'] [|c l] st Hf Hf'; simpl in *; try reflexivity; try lia.
  destruct (step b c l st) as [[l' st']| | |] eqn:E; try reflexivity.
  apply step_length in E. apply IH; lia.
Qed.
Lemma parse_loop_mono f b l st :
  (length l <= f)%nat -> parse_loop f b l st = parse_loop (length l) b l st.
Proof. intros. apply parse_loop_mono2; lia. Qed.

Definition run (b : bool) (l : bytes) (st : pstate) : outcome (list (name * cov)) :=
  parse_loop (length l) b l st.
Lemma run_nil b st : run b [] st = Ok (p_results st).
Proof. reflexivity. Qed.
Lemma run_cons b c l st :
  run b (c :: l) st =
  match step b c l st with
  | Ok (l', st') => run b l' st'
  | Err => Err | Panic => Panic | OutOfFuel => OutOfFuel
  end.
Proof.
  unfold run. simpl.
  destruct (step b c l st) as [[l' st']| | |] eqn:E; try reflexivity.
  apply parse_loop_mono. eapply step_length, E.
Qed.
Lemma run_step b c l st l' st' :
  step b c l st = Ok (l', st') -> run b (c :: l) st = run b l' st'.
Proof. intros H. rewrite run_cons, H. reflexivity. Qed.
Lemma parse_lcov_run bs b : parse_lcov bs b = run b bs p_init.
Proof. reflexivity. Qed.

Lemma parse_loop_no_branch f l st res :
  p_branches st = ∅ -> Forall (fun r => c_branches r.2 = ∅) (p_results st) ->
  parse_loop f false l st = Ok res -> Forall (fun r => c_branches r.2 = ∅) res.
Proof.
  revert l st; induction f as [|f IH]; intros [|c l] st Hb Hr; simpl; try discriminate.
  - intros [= <-]. assumption.
  - intros [= <-]. assumption.
  - pose proof (step_shape false c l st) as Hs.
    destruct (step false c l st) as [[l' st']| | |] eqn:E; try discriminate.
    destruct Hs as [_ Hs]. destruct (Hs eq_refl Hb Hr) as [Hb' Hr'].
    apply IH; assumption.
Qed.

(** * A: robustness *)
Lemma parse_lcov_no_panic_pf : forall bs b, parse_lcov bs b <> Panic.
Proof. intros. apply parse_loop_no_panic. Qed.
Lemma parse_lcov_fuel_pf : forall bs b, parse_lcov bs b <> OutOfFuel.
Proof. intros. apply parse_loop_fuel. lia. Qed.
Lemma parse_lcov_no_branch_pf : forall bs res,
  parse_lcov bs false = Ok res -> Forall (fun r => c_branches r.2 = ∅) res.
Proof. intros bs res. apply parse_loop_no_branch; [reflexivity|constructor]. Qed.

(** * B: add_branch is slot-wise OR *)
Lemma or_vec_pad v k t :
  or_vec v (replicate (length v + k) false ++ [t]) = v ++ replicate k false ++ [t].
Proof.
  induction v as [|x v IH]; simpl; [reflexivity|].
  rewrite orb_false_r, IH. reflexivity.
Qed.
Lemma or_vec_alter v (no : nat) t :
  (no < length v)%nat -> or_vec v (replicate no false ++ [t]) = alter (fun b => b || t) no v.
Proof.
  revert no; induction v as [|x v IH]; intros no Hlt; simpl in *; [lia|].
  destruct no as [|no]; simpl.
  - rewrite or_vec_nil_r. reflexivity.
  - rewrite orb_false_r, IH by lia. reflexivity.
Qed.

Lemma add_branch_alg_pf : forall m line no taken,
  add_branch m line no taken =
  <[line := or_vec (default [] (m !! line)) (replicate (N.to_nat no) false ++ [taken])]> m.
Proof.
  intros m line no taken. unfold add_branch.
  destruct (m !! line) as [v|] eqn:E; cbn [from_option id]; [|reflexivity].
  destruct (Nat.eqb (N.to_nat no) (length v)) eqn:E1.
  - apply Nat.eqb_eq in E1. rewrite E1.
    pose proof (or_vec_pad v 0 taken) as H. rewrite Nat.add_0_r in H. rewrite H. reflexivity.
  - destruct (Nat.ltb (length v) (N.to_nat no)) eqn:E2.
    + apply Nat.ltb_lt in E2.
      replace (N.to_nat no) with (length v + (N.to_nat no - length v))%nat at 2 by lia.
      rewrite or_vec_pad. reflexivity.
    + apply Nat.ltb_ge in E2. apply Nat.eqb_neq in E1.
      rewrite or_vec_alter by lia. reflexivity.
Qed.
