(* Lemmas about Model/Reports.v (C03). *)
From Grcov Require Import Model.Reports Proofs.StatsFacts.
From Coq Require Import ZifyBool ZifyN ZifyNat.

(* ---------- keys ---------- *)
Lemma last_line_ge {A} (m : gmap N A) k v : m !! k = Some v -> k <= last_line m.
Proof.
  intros H. apply elem_of_map_to_list in H. unfold last_line.
  induction (map_to_list m) as [|[k' v'] l IH]; [inversion H|].
  cbn [foldr fst]. apply elem_of_cons in H as [[= <- <-]|H]; [lia|]. specialize (IH H). lia.
Qed.

Lemma sorted_kv_perm {A} (m : gmap N A) : sorted_kv m ≡ₚ map_to_list m.
Proof. apply merge_sort_Permutation. Qed.
Lemma list_to_map_sorted_kv {A} (m : gmap N A) : list_to_map (sorted_kv m) = m.
Proof. symmetry. apply list_to_map_flip. symmetry. apply sorted_kv_perm. Qed.
Lemma elem_of_sorted_kv {A} (m : gmap N A) k v : (k, v) ∈ sorted_kv m <-> m !! k = Some v.
Proof. rewrite sorted_kv_perm. apply elem_of_map_to_list. Qed.
Lemma sorted_kv_keys {A} (m : gmap N A) k : k ∈ (sorted_kv m).*1 <-> is_Some (m !! k).
Proof.
  rewrite elem_of_list_fmap. split.
  - intros ([k' v] & -> & H). apply elem_of_sorted_kv in H. eauto.
  - intros [v H]. exists (k, v). split; [reflexivity|]. apply elem_of_sorted_kv. exact H.
Qed.

(* ---------- line arrays ---------- *)
Lemma decode_line_array_lookup {A} (g : option N -> A) (h : A -> option N) (m : gmap N N) :
  forall (n s : nat) k,
    decode_from h (N.of_nat (S s)) (map (fun i => g (m !! N.of_nat (S i))) (seq s n)) !! k =
    if (N.of_nat (S s) <=? k) && (k <? N.of_nat (S s + n)) then h (g (m !! k)) else None.
Proof.
  induction n as [|n IH]; intros s k.
  - cbn [seq map decode_from]. rewrite lookup_empty. destruct (_ && _) eqn:E; [lia|reflexivity].
  - cbn [seq map decode_from]. replace (N.of_nat (S s) + 1) with (N.of_nat (S (S s))) by lia.
    destruct (decide (k = N.of_nat (S s))) as [->|Hk].
    + replace ((N.of_nat (S s) <=? N.of_nat (S s)) && (N.of_nat (S s) <? N.of_nat (S s + S n))) with true by lia.
      destruct (h (g (m !! N.of_nat (S s)))) as [c|] eqn:E.
      * rewrite lookup_insert. reflexivity.
      * rewrite IH. replace (N.of_nat (S (S s)) <=? N.of_nat (S s)) with false by lia. reflexivity.
    + assert (decode_from h (N.of_nat (S (S s))) (map (fun i => g (m !! N.of_nat (S i))) (seq (S s) n)) !! k =
              if (N.of_nat (S s) <=? k) && (k <? N.of_nat (S s + S n)) then h (g (m !! k)) else None) as E.
      { rewrite IH. destruct ((N.of_nat (S (S s)) <=? k) && (k <? N.of_nat (S (S s) + n))) eqn:E1;
          destruct ((N.of_nat (S s) <=? k) && (k <? N.of_nat (S s + S n))) eqn:E2; try reflexivity; lia. }
      destruct (h (g (m !! N.of_nat (S s)))); [rewrite lookup_insert_ne by congruence|]; exact E.
Qed.

Lemma line_array_n_eq {A} (g : option N -> A) (m : gmap N N) (n : N) : line_array g m n = line_array_n g m n.
Proof.
  unfold line_array, line_array_n. change 1 with (N.of_nat (S 0)). generalize 0%nat as s.
  induction (N.to_nat n) as [|k IH]; intros s; [reflexivity|].
  cbn [seq map line_array_from]. f_equal. rewrite IH. f_equal. lia.
Qed.

(* reading back an array that covers all the lines recovers the line map *)
Lemma decode_line_array {A} (g : option N -> A) (h : A -> option N) (m : gmap N N) (n : N) :
  (forall k c, m !! k = Some c -> 1 <= k /\ k <= n) ->
  (forall k, h (g (m !! k)) = m !! k) ->
  decode_array h (line_array g m n) = m.
Proof.
  intros Hk Hh. apply map_eq. intros k. unfold decode_array, line_array.
  change 1 with (N.of_nat 1). rewrite decode_line_array_lookup.
  destruct ((N.of_nat 1 <=? k) && (k <? N.of_nat (1 + N.to_nat n))) eqn:E.
  - apply Hh.
  - destruct (m !! k) as [c|] eqn:Em; [|reflexivity]. apply Hk in Em. lia.
Qed.

(* ---------- coveralls: coverage array ---------- *)
Lemma coveralls_lines_ok (c : cov) :
  (forall k v, c_lines c !! k = Some v -> 1 <= k) -> last_line (c_lines c) < U32_MAX ->
  decode_cv_lines (encode_coveralls_file true [] c) = c_lines c.
Proof.
  intros Hk Hl. unfold decode_cv_lines, encode_coveralls_file. cbn [cv_coverage].
  apply decode_line_array; [|reflexivity].
  intros k v H. split; [eauto|]. apply last_line_ge in H.
  unfold cv_end, wrap32, two32, U32_MAX in *. rewrite N.mod_small by lia. lia.
Qed.

(* ---------- covdir / html: the i64 cast ---------- *)
Lemma to_i64_small c : c < 9223372036854775808 -> to_i64 c = Z.of_N c.
Proof. intros. unfold to_i64. replace (c <? 9223372036854775808) with true by lia. reflexivity. Qed.
Lemma cd_read_cell (m : gmap N N) :
  (forall k c, m !! k = Some c -> c < 9223372036854775808) -> forall k, cd_read (cd_cell (m !! k)) = m !! k.
Proof.
  intros Hc k. destruct (m !! k) as [c|] eqn:E; [|reflexivity]. cbn [cd_cell].
  rewrite to_i64_small by eauto. unfold cd_read. replace (Z.of_N c =? -1)%Z with false by lia. rewrite N2Z.id. reflexivity.
Qed.
Lemma html_read_cell (m : gmap N N) :
  (forall k c, m !! k = Some c -> c < 9223372036854775808) -> forall k, html_read (cd_cell (m !! k)) = m !! k.
Proof.
  intros Hc k. destruct (m !! k) as [c|] eqn:E; [|reflexivity]. cbn [cd_cell].
  rewrite to_i64_small by eauto. unfold html_read. replace (Z.of_N c <? 0)%Z with false by lia. rewrite N2Z.id. reflexivity.
Qed.

Lemma covdir_lines_ok (m : gmap N N) :
  (forall k c, m !! k = Some c -> 1 <= k /\ c < 9223372036854775808) ->
  decode_cd_lines (cd_coverage m) = m.
Proof.
  intros H. unfold decode_cd_lines, cd_coverage. apply decode_line_array.
  - intros k c Hm. split; [apply (H k c Hm)|]. eapply last_line_ge, Hm.
  - apply cd_read_cell. intros k c Hm. apply (H k c Hm).
Qed.
Lemma html_lines_ok (c : cov) (src : N) :
  (forall k v, c_lines c !! k = Some v -> 1 <= k /\ k <= src /\ v < 9223372036854775808) ->
  decode_html_lines (html_rows c src) = c_lines c.
Proof.
  intros H. unfold decode_html_lines, html_rows. apply decode_line_array.
  - intros k v Hm. destruct (H k v Hm) as (? & ? & ?). auto.
  - apply html_read_cell. intros k v Hm. apply (H k v Hm).
Qed.
(* without the source-length hypothesis: every row that exists is right, rows beyond the source do not exist *)
Lemma html_rows_lookup (c : cov) (src : N) k :
  (forall k v, c_lines c !! k = Some v -> v < 9223372036854775808) ->
  decode_html_lines (html_rows c src) !! k = if (1 <=? k) && (k <=? src) then c_lines c !! k else None.
Proof.
  intros H. unfold decode_html_lines, html_rows, decode_array, line_array.
  change 1 with (N.of_nat 1) at 1. rewrite decode_line_array_lookup. rewrite html_read_cell by exact H.
  destruct ((N.of_nat 1 <=? k) && (k <? N.of_nat (1 + N.to_nat src))) eqn:E1; destruct ((1 <=? k) && (k <=? src)) eqn:E2; try reflexivity; lia.
Qed.

(* the unguarded statements are false: the witnesses of finding F9 *)
Lemma covdir_lines_refuted :
  exists m : gmap N N, (forall k c, m !! k = Some c -> 1 <= k /\ c <= U64_MAX) /\ decode_cd_lines (cd_coverage m) <> m.
Proof.
  exists {[1 := U64_MAX]}. split.
  - intros k c H. apply lookup_singleton_Some in H as [<- <-]. unfold U64_MAX. lia.
  - intros E. apply (f_equal (fun m => m !! 1)) in E. vm_compute in E. discriminate.
Qed.
Lemma html_lines_refuted :
  exists (c : cov) (src : N), (forall k v, c_lines c !! k = Some v -> 1 <= k /\ k <= src /\ v <= U64_MAX) /\
                              decode_html_lines (html_rows c src) <> c_lines c.
Proof.
  exists (mkCov {[1 := 9223372036854775808]} ∅ ∅), 1. split.
  - intros k c H. cbn [c_lines] in H. apply lookup_singleton_Some in H as [<- <-]. unfold U64_MAX. lia.
  - intros E. apply (f_equal (fun m => m !! 1)) in E. vm_compute in E. discriminate.
Qed.

(* size of what is read back = number of slots that are not "not instrumented" (used by C13: total vs. listed detail) *)
Lemma decode_from_lookup_lt {A} (h : A -> option N) (l : list A) : forall i k, k < i -> decode_from h i l !! k = None.
Proof.
  induction l as [|a l IH]; intros i k Hk; cbn [decode_from]; [apply lookup_empty|].
  destruct (h a); [rewrite lookup_insert_ne by lia|]; apply IH; lia.
Qed.
Lemma decode_from_size {A} (h : A -> option N) (l : list A) :
  forall i, N.of_nat (size (decode_from h i l)) = nlen (filter (fun a => is_Some (h a)) l).
Proof.
  induction l as [|a l IH]; intros i; cbn [decode_from]; [reflexivity|].
  rewrite filter_cons. destruct (h a) as [c|] eqn:E.
  - rewrite map_size_insert_None by (apply decode_from_lookup_lt; lia).
    destruct (decide (is_Some (Some c))) as [_|n]; [|exfalso; apply n; eauto].
    unfold nlen in *. cbn [length]. rewrite Nat2N.inj_succ, IH. lia.
  - destruct (decide (is_Some (@None N))) as [[? [=]]|_]. apply IH.
Qed.

(* ---------- covdir: the tree loses and invents no file ---------- *)
Lemma cd_insert_files fname ls : forall comps t, cd_all_files (cd_insert comps fname ls t) ≡ₚ ls :: cd_all_files t.
Proof.
  induction comps as [|c rest IH]; intros [nm fs ds].
  - cbn [cd_insert cd_all_files]. rewrite map_app. cbn [map snd].
    rewrite <- app_assoc. cbn [app]. symmetry. apply Permutation_middle.
  - cbn [cd_insert cd_all_files]. rewrite (Permutation_middle (map snd fs) _ ls). apply Permutation_app_head.
    induction ds as [|d ds IHds].
    + cbn [map concat]. rewrite IH. cbn [cd_all_files map concat app]. reflexivity.
    + destruct (bool_decide (cdt_name d = c)).
      * cbn [map concat]. rewrite IH. reflexivity.
      * cbn [map concat]. rewrite IHds. cbn [app]. symmetry. apply Permutation_middle.
Qed.
Lemma cd_build_files (rs : list rfile) : cd_all_files (cd_build rs) ≡ₚ map (fun r => c_lines (r_cov r)) rs.
Proof.
  unfold cd_build. induction rs as [|r rs IH] using rev_ind; [reflexivity|].
  rewrite foldl_snoc, map_app. cbn [map]. rewrite cd_insert_files, IH. apply Permutation_cons_append.
Qed.

(* ---------- markdown ---------- *)
Definition zero_lines (ls : list (N * N)) : N := nlen (filter (fun p : N * N => p.2 = 0) ls).
Lemma md_foldl_missed ls : forall st, (foldl md_step st ls).1.1.1 = st.1.1.1 + zero_lines ls.
Proof.
  unfold zero_lines. induction ls as [|e ls IH]; intros [[[tm ms] s] en]; cbn [foldl fst]; [cbn; lia|].
  rewrite IH. rewrite filter_cons. unfold md_step at 1.
  destruct (e.2 =? 0) eqn:E.
  - destruct (decide (e.2 = 0)); [|lia]. unfold nlen. cbn [fst length]. lia.
  - destruct (decide (e.2 = 0)); [lia|]. destruct (negb (s =? 0)); cbn [fst]; lia.
Qed.
Lemma format_lines_missed ls : (format_lines ls).1 = zero_lines ls.
Proof.
  unfold format_lines. pose proof (md_foldl_missed ls (0, [], 0, 0)) as H.
  destruct (foldl md_step (0, [], 0, 0) ls) as [[[tm ms] s] en]. cbn [fst] in *. lia.
Qed.
Lemma zero_plus_covered ls : zero_lines ls + covered_lines ls = nlen ls.
Proof.
  unfold zero_lines, covered_lines, nlen. induction ls as [|e ls IH]; [reflexivity|].
  rewrite !filter_cons. destruct (decide (e.2 = 0)), (decide (0 <? e.2 = true)); cbn [length]; lia.
Qed.
Lemma md_row_counts p rel c :
  let r := encode_md_row p rel c in
  md_file r = rel /\ md_total r = N.of_nat (size (c_lines c)) /\
  md_covered r = covered_lines (map_to_list (c_lines c)) /\ md_covered r <= md_total r.
Proof.
  cbn zeta. unfold encode_md_row.
  pose proof (format_lines_missed (sorted_kv (c_lines c))) as Hm.
  destruct (format_lines (sorted_kv (c_lines c))) as [missed ranges]. cbn [fst] in Hm. cbn [md_file md_total md_covered].
  pose proof (zero_plus_covered (map_to_list (c_lines c))) as Hz.
  assert (zero_lines (sorted_kv (c_lines c)) = zero_lines (map_to_list (c_lines c))) as E.
  { unfold zero_lines, nlen. rewrite (sorted_kv_perm (c_lines c)). reflexivity. }
  split_and!; try reflexivity; lia.
Qed.

(* ---------- cobertura ---------- *)
Lemma cobertura_lines_ok c : decode_cob_lines (cob_lines c) = c_lines c.
Proof.
  unfold decode_cob_lines, cob_lines. rewrite map_map.
  rewrite (map_ext _ id); [rewrite map_id; apply list_to_map_sorted_kv|]. intros [k h]. reflexivity.
Qed.
Lemma cob_branches_lookup_aux (br : gmap N (list bool)) (S : list (N * N)) k :
  (list_to_map (omap (fun l : N * N * option (list bool) => (fun v => (l.1.1, v)) <$> l.2)
                     (map (fun '(k, h) => (k, h, br !! k)) S)) : gmap N (list bool)) !! k =
  if decide (k ∈ S.*1) then br !! k else None.
Proof.
  induction S as [|[k' h] S IH]; [cbn; rewrite lookup_empty; destruct (decide _) as [H|]; [inversion H|reflexivity]|].
  cbn [map omap list_omap fmap list_fmap fst snd]. destruct (br !! k') as [v|] eqn:E; cbn [fmap option_fmap option_map].
  - rewrite list_to_map_cons. destruct (decide (k = k')) as [->|Hne].
    + rewrite lookup_insert.
      destruct (decide (k' ∈ k' :: S.*1)) as [_|n]; [symmetry; exact E|exfalso; apply n; left].
    + rewrite lookup_insert_ne by congruence.
      rewrite IH. destruct (decide (k ∈ S.*1)) as [i|n], (decide (k ∈ k' :: S.*1)) as [i'|n']; try reflexivity.
      * exfalso. apply n'. right. exact i.
      * exfalso. apply elem_of_cons in i' as [?|?]; [congruence|contradiction].
  - rewrite IH. destruct (decide (k ∈ S.*1)) as [i|n], (decide (k ∈ k' :: S.*1)) as [i'|n']; try reflexivity.
    + exfalso. apply n'. right. exact i.
    + apply elem_of_cons in i' as [->|?]; [symmetry; exact E|contradiction].
Qed.
Lemma cobertura_branches_lookup c k :
  decode_cob_branches (cob_lines c) !! k = if decide (is_Some (c_lines c !! k)) then c_branches c !! k else None.
Proof.
  unfold decode_cob_branches, cob_lines. rewrite cob_branches_lookup_aux.
  destruct (decide (k ∈ (sorted_kv (c_lines c)).*1)) as [i|n], (decide (is_Some (c_lines c !! k))) as [i'|n']; try reflexivity.
  - exfalso. apply n', sorted_kv_keys, i.
  - exfalso. apply n, sorted_kv_keys, i'.
Qed.
Lemma cobertura_branches_ok c :
  (forall k v, c_branches c !! k = Some v -> is_Some (c_lines c !! k)) ->
  decode_cob_branches (cob_lines c) = c_branches c.
Proof.
  intros H. apply map_eq. intros k. rewrite cobertura_branches_lookup.
  destruct (decide _) as [_|n]; [reflexivity|]. destruct (c_branches c !! k) eqn:E; [|reflexivity].
  exfalso. apply n. eauto.
Qed.
Lemma cobertura_branches_refuted :
  exists c : cov, decode_cob_branches (cob_lines c) <> c_branches c.
Proof.
  exists (mkCov ∅ {[4 := [true; false]]} ∅). intros E.
  apply (f_equal (fun m => m !! 4)) in E. vm_compute in E. discriminate.
Qed.

(* ---------- statements of Props/C13.v that need both files ---------- *)
Lemma covdir_total_matches_array_partial_lem : forall m : gmap N N,
  (forall k c, m !! k = Some c -> 1 <= k /\ c < 9223372036854775808) ->
  cd_total (cd_file_stats m) = nlen (filter (fun z => is_Some (cd_read z)) (cd_coverage m)).
Proof.
  intros m H. rewrite <- (decode_from_size cd_read (cd_coverage m) 1).
  change (decode_from cd_read 1 (cd_coverage m)) with (decode_cd_lines (cd_coverage m)).
  rewrite covdir_lines_ok by exact H. apply cd_file_stats_facts.
Qed.

Lemma covdir_total_matches_array_refuted_lem :
  exists m : gmap N N, (forall k c, m !! k = Some c -> 1 <= k /\ c <= U64_MAX) /\
    cd_total (cd_file_stats m) <> nlen (filter (fun z => is_Some (cd_read z)) (cd_coverage m)).
Proof.
  exists {[1 := U64_MAX]}. split.
  - intros k c H. apply lookup_singleton_Some in H as [<- <-]. unfold U64_MAX. lia.
  - vm_compute. discriminate.
Qed.

Lemma covdir_dir_total_lem : forall t : cdtree,
  cd_total (cd_set_stats t) = sumN (map (fun m => cd_total (cd_file_stats m)) (cd_all_files t)) /\
  cd_covered (cd_set_stats t) = sumN (map (fun m => cd_covered (cd_file_stats m)) (cd_all_files t)) /\
  cd_missed (cd_set_stats t) = sumN (map (fun m => cd_missed (cd_file_stats m)) (cd_all_files t)).
Proof.
  intros t. split_and!; apply (cd_set_stats_all _); reflexivity.
Qed.

Lemma covered_le_total_lem : forall t : cdtree, cd_covered (cd_set_stats t) <= cd_total (cd_set_stats t).
Proof. intros t. pose proof (cd_set_stats_ok t) as H. unfold cd_ok in H. lia. Qed.

Lemma covdir_root_total_lem : forall rs : list rfile,
  cd_total (cd_set_stats (cd_build rs)) = sumN (map (fun r => N.of_nat (size (c_lines (r_cov r)))) rs).
Proof.
  intros rs. destruct (covdir_dir_total_lem (cd_build rs)) as [-> _].
  assert (forall l k : list (gmap N N), l ≡ₚ k -> sumN (map (fun m => cd_total (cd_file_stats m)) l) = sumN (map (fun m => cd_total (cd_file_stats m)) k)) as P.
  { induction 1; cbn [map sumN foldr]; unfold sumN in *; lia. }
  rewrite (P _ _ (cd_build_files rs)), map_map. reflexivity.
Qed.

Lemma cobertura_sums_lem : forall rs : list (name * cov),
  let g := (encode_cobertura rs).2 in
  let ps := map snd (encode_cobertura rs).1 in
  lines_valid g = sumN (map lines_valid ps) /\ lines_covered g = sumN (map lines_covered ps) /\
  branches_valid g = sumN (map branches_valid ps) /\ branches_covered g = sumN (map branches_covered ps) /\
  lines_covered g <= lines_valid g /\ branches_covered g <= branches_valid g.
Proof.
  intros rs. cbn zeta. unfold encode_cobertura. cbn [fst snd].
  set (ps := map snd _).
  assert (Forall (fun s => lines_covered s <= lines_valid s /\ branches_covered s <= branches_valid s) ps) as Hps.
  { subst ps. rewrite map_map. apply Forall_map, Forall_forall. intros r _. cbn [snd]. apply cob_from_lines_le. }
  rewrite !(cob_foldl_proj _ (fun a b => eq_refl)). cbn [cob0 lines_valid lines_covered branches_valid branches_covered].
  split_and!; try lia.
  - apply N.add_le_mono_l, sumN_le_pointwise. eapply Forall_impl; [exact Hps|]. intros s [? ?]. assumption.
  - apply N.add_le_mono_l, sumN_le_pointwise. eapply Forall_impl; [exact Hps|]. intros s [? ?]. assumption.
Qed.

Lemma html_global_sums_lem : forall fs : list (name * hstats),
  h_tl (html_global fs) = sumN (map (fun f => h_tl f.2) fs) /\ h_cl (html_global fs) = sumN (map (fun f => h_cl f.2) fs) /\
  h_tf (html_global fs) = sumN (map (fun f => h_tf f.2) fs) /\ h_cf (html_global fs) = sumN (map (fun f => h_cf f.2) fs) /\
  h_tb (html_global fs) = sumN (map (fun f => h_tb f.2) fs) /\ h_cb (html_global fs) = sumN (map (fun f => h_cb f.2) fs).
Proof.
  intros fs. unfold html_global. rewrite !(hs_foldl_proj _ (fun a b => eq_refl)), !map_map. cbn [hs0 h_tl h_cl h_tf h_cf h_tb h_cb].
  split_and!; apply N.add_0_l.
Qed.

Lemma badge_same_totals_lem : forall (x y p : N),
  (exists q, html_percent x y = RNum q /\ html_shown x y p = RNum (round_to p q) /\ badge_percent x y = Some (Qfloor q)).
Proof. intros x y p. unfold html_shown, badge_percent. destruct (html_percent x y) eqn:E; [eauto|]. unfold html_percent in E. destruct (y =? 0); discriminate. Qed.

Lemma markdown_rate_always_finite x y p : is_finite (markdown_percent x y p) = true.
Proof. unfold markdown_percent. destruct (y =? 0)%N; reflexivity. Qed.

Lemma activedata_rate_total_zero_finite_refuted_lem : exists c u, is_finite (ade_percent c u) = false.
Proof. exists 0, 0. reflexivity. Qed.

(* ---------- coveralls: branch quadruples ---------- *)
Lemma set_slot_snoc pre b : set_slot (length pre) b pre = pre ++ [b].
Proof. induction pre as [|x pre IH]; [reflexivity|]. cbn [length set_slot app]. rewrite IH. reflexivity. Qed.

Lemma qstep_vec l : forall (v pre : list bool) acc,
  default [] (acc !! l) = pre -> N.of_nat (length pre + length v) <= 4294967296 ->
  foldl qstep acc (imap (fun (n : nat) (b : bool) => (l, 0, wrap32 (N.of_nat (length pre + n)), if b then 1 else 0)) v) =
  match v with [] => acc | _ => <[l := pre ++ v]> acc end.
Proof.
  induction v as [|b v IH]; intros pre acc Hd Hlen; [reflexivity|].
  rewrite imap_cons. cbn [foldl]. unfold qstep at 2.
  assert (N.to_nat (wrap32 (N.of_nat (length pre + 0))) = length pre) as ->.
  { unfold wrap32, two32. cbn [length] in Hlen. rewrite N.mod_small by lia. lia. }
  assert (negb ((if b then 1 else 0) =? 0) = b) as -> by (destruct b; reflexivity).
  rewrite Hd, set_slot_snoc.
  rewrite (imap_ext _ (fun (n : nat) (b0 : bool) => (l, 0, wrap32 (N.of_nat (length (pre ++ [b]) + n)), if b0 then 1 else 0))).
  2: { intros n x _. unfold compose. rewrite app_length. cbn [length]. replace (length pre + 1 + n)%nat with (length pre + S n)%nat by lia. reflexivity. }
  rewrite IH.
  - destruct v; [reflexivity|]. rewrite insert_insert, <- app_assoc. reflexivity.
  - rewrite lookup_insert. reflexivity.
  - rewrite app_length. cbn [length] in *. lia.
Qed.

Lemma qstep_all : forall (bl : list (N * list bool)) acc,
  NoDup bl.*1 -> (forall l, l ∈ bl.*1 -> acc !! l = None) ->
  Forall (fun p => p.2 <> [] /\ N.of_nat (length p.2) <= 4294967296) bl ->
  foldl qstep acc (cv_quads bl) = foldl (fun m p => <[p.1 := p.2]> m) acc bl.
Proof.
  unfold cv_quads. induction bl as [|[l v] bl IH]; intros acc Hnd Hfresh Hall; [reflexivity|].
  cbn [map concat foldl fst snd]. rewrite foldl_app.
  inversion Hnd as [|? ? Hnotin Hnd']; subst. inversion Hall as [|? ? [Hne Hlen] Hall']; subst. cbn [fst snd] in *.
  pose proof (qstep_vec l v [] acc) as Hv. cbn [length app Nat.add] in Hv. rewrite Hv.
  - destruct v as [|b v]; [contradiction|]. apply IH; [exact Hnd'| |exact Hall'].
    intros l' Hl'. rewrite lookup_insert_ne; [apply Hfresh; right; exact Hl'|]. intros ->. contradiction.
  - rewrite Hfresh by left. reflexivity.
  - exact Hlen.
Qed.

Lemma foldl_insert_lookup {A} : forall (bl : list (N * A)) (acc : gmap N A) k,
  NoDup bl.*1 ->
  foldl (fun m p => <[p.1 := p.2]> m) acc bl !! k =
  match (list_to_map bl : gmap N A) !! k with Some v => Some v | None => acc !! k end.
Proof.
  induction bl as [|[l v] bl IH]; intros acc k Hnd; [cbn; rewrite lookup_empty; reflexivity|].
  inversion Hnd as [|? ? Hnotin Hnd']; subst. cbn [foldl fst snd]. rewrite IH by exact Hnd'.
  rewrite list_to_map_cons. destruct (decide (k = l)) as [->|Hne].
  - rewrite !lookup_insert. rewrite (not_elem_of_list_to_map_1 _ _ Hnotin). reflexivity.
  - rewrite !lookup_insert_ne by congruence. reflexivity.
Qed.

Lemma coveralls_branches_ok (with_fn : bool) rel (c : cov) :
  (forall k v, c_branches c !! k = Some v -> v <> [] /\ N.of_nat (length v) <= 4294967296) ->
  decode_cv_branches (encode_coveralls_file with_fn rel c) = c_branches c.
Proof.
  intros H. unfold decode_cv_branches, encode_coveralls_file, decode_quads. cbn [cv_branches].
  assert (NoDup (sorted_kv (c_branches c)).*1) as Hnd.
  { rewrite sorted_kv_perm. apply NoDup_fst_map_to_list. }
  rewrite qstep_all.
  - apply map_eq. intros k. rewrite foldl_insert_lookup by exact Hnd.
    rewrite list_to_map_sorted_kv, lookup_empty. destruct (c_branches c !! k); reflexivity.
  - exact Hnd.
  - intros. apply lookup_empty.
  - apply Forall_forall. intros [k v] Hin. apply elem_of_sorted_kv in Hin. cbn [snd]. eauto.
Qed.
Lemma coveralls_funcs_ok rel (c : cov) :
  decode_cv_funcs (encode_coveralls_file true rel c) = Some (c_funcs c) /\
  decode_cv_funcs (encode_coveralls_file false rel c) = None.
Proof.
  unfold decode_cv_funcs, encode_coveralls_file. cbn [cv_functions fmap option_fmap option_map]. split; [|reflexivity].
  f_equal. rewrite map_map. rewrite (map_ext _ id); [rewrite map_id; apply list_to_map_to_list|].
  intros [nm [s e]]. reflexivity.
Qed.

(* ---------- ActiveData-ETL ---------- *)
Lemma elem_of_map_fst {A B} (l : list (A * B)) x : x ∈ map fst l <-> exists y, (x, y) ∈ l.
Proof.
  change (map fst l) with (fst <$> l). rewrite elem_of_list_fmap. split.
  - intros ([a b] & -> & H). eauto.
  - intros (y & H). exists (x, y). auto.
Qed.
Lemma NoDup_map_fst_filter {A B} (P : A * B -> Prop) `{forall x, Decision (P x)} (l : list (A * B)) :
  NoDup (map fst l) -> NoDup (map fst (filter P l)).
Proof.
  induction l as [|x l IH]; intros Hnd; [constructor|].
  cbn [map] in Hnd. apply NoDup_cons in Hnd as [Hx Hnd]. rewrite filter_cons.
  destruct (decide (P x)); [|auto]. cbn [map]. apply NoDup_cons. split; [|auto].
  intros Hin. apply Hx. apply elem_of_map_fst in Hin as (y & Hy). apply elem_of_list_filter in Hy as [_ Hy].
  apply elem_of_map_fst. eauto.
Qed.
Lemma sorted_kv_NoDup {A} (m : gmap N A) : NoDup (map fst (sorted_kv m)).
Proof. change (NoDup (sorted_kv m).*1). rewrite sorted_kv_perm. apply NoDup_fst_map_to_list. Qed.

Lemma elem_of_ade_covered c l : l ∈ ade_covered c <-> exists n, c_lines c !! l = Some n /\ 0 < n.
Proof.
  unfold ade_covered. rewrite elem_of_map_fst. split.
  - intros (v & H). apply elem_of_list_filter in H as [Hp H]. apply elem_of_sorted_kv in H. cbn [snd] in Hp. exists v. split; [exact H|lia].
  - intros (n & H & Hn). exists n. apply elem_of_list_filter. split; [cbn [snd]; lia|apply elem_of_sorted_kv, H].
Qed.
Lemma elem_of_ade_uncovered c l : l ∈ ade_uncovered c <-> c_lines c !! l = Some 0.
Proof.
  unfold ade_uncovered. rewrite elem_of_map_fst. split.
  - intros (v & H). apply elem_of_list_filter in H as [Hp H]. apply elem_of_sorted_kv in H. cbn [snd] in Hp.
    replace v with 0 in H by lia. exact H.
  - intros H. exists 0. apply elem_of_list_filter. split; [reflexivity|apply elem_of_sorted_kv, H].
Qed.
Lemma ade_file_lines_lem rel c :
  let F := encode_ade_file rel c in
  af_name F = rel /\
  (forall l, l ∈ ap_covered (af_file F) <-> exists n, c_lines c !! l = Some n /\ 0 < n) /\
  (forall l, l ∈ ap_uncovered (af_file F) <-> c_lines c !! l = Some 0) /\
  NoDup (ap_covered (af_file F)) /\ NoDup (ap_uncovered (af_file F)).
Proof.
  cbn zeta. unfold encode_ade_file. cbn [af_name af_file ade_part_of ap_covered ap_uncovered].
  split_and!; [reflexivity|apply elem_of_ade_covered|apply elem_of_ade_uncovered| |];
    apply NoDup_map_fst_filter, sorted_kv_NoDup.
Qed.

(* where a function ends *)
Lemma filter_head_min (P : N -> Prop) `{forall x, Decision (P x)} (l : list N) x r :
  StronglySorted N.le l -> filter P l = x :: r -> x ∈ l /\ P x /\ forall y, y ∈ l -> P y -> x <= y.
Proof.
  induction 1 as [|a l Hs IH Hall]; intros Hf; [discriminate|].
  rewrite filter_cons in Hf. destruct (decide (P a)) as [Ha|Ha].
  - injection Hf as <- _. split; [left|]. split; [exact Ha|].
    intros y Hy _. apply elem_of_cons in Hy as [->|Hy]; [lia|]. rewrite Forall_forall in Hall. apply Hall, Hy.
  - destruct (IH Hf) as (Hin & Hp & Hmin). split; [right; exact Hin|]. split; [exact Hp|].
    intros y Hy Py. apply elem_of_cons in Hy as [->|Hy]; [contradiction|]. apply Hmin; assumption.
Qed.
Lemma ade_starts_sorted c : StronglySorted N.le (ade_starts c).
Proof. unfold ade_starts. apply (StronglySorted_merge_sort _). Qed.
Lemma elem_of_ade_starts c y : y ∈ ade_starts c <-> exists nm f, c_funcs c !! nm = Some f /\ f_start f = y.
Proof.
  unfold ade_starts. rewrite merge_sort_Permutation.
  change (map (fun p : name * func => f_start p.2) (map_to_list (c_funcs c))) with ((fun p : name * func => f_start p.2) <$> map_to_list (c_funcs c)).
  rewrite elem_of_list_fmap. split.
  - intros ([nm f] & -> & H). apply elem_of_map_to_list in H. eauto.
  - intros (nm & f & H & <-). exists (nm, f). split; [reflexivity|]. apply elem_of_map_to_list, H.
Qed.
Lemma ade_func_end_lem c f :
  let fe := ade_fend c f in
  (forall nm' f', c_funcs c !! nm' = Some f' -> f_start f < f_start f' -> fe <= f_start f') /\
  ((fe = ade_end c /\ forall nm' f', c_funcs c !! nm' = Some f' -> f_start f' <= f_start f) \/
   (exists nm' f', c_funcs c !! nm' = Some f' /\ f_start f' = fe /\ f_start f < fe)).
Proof.
  cbn zeta. unfold ade_fend, ade_func_end.
  destruct (filter (fun x => f_start f < x) (ade_starts c)) as [|x r] eqn:E.
  - split.
    + intros nm' f' H Hlt. exfalso.
      assert (f_start f' ∈ filter (fun x => f_start f < x) (ade_starts c)) as Hin.
      { apply elem_of_list_filter. split; [exact Hlt|]. apply elem_of_ade_starts. eauto. }
      rewrite E in Hin. inversion Hin.
    + left. split; [reflexivity|]. intros nm' f' H. destruct (decide (f_start f < f_start f')) as [Hlt|]; [|lia]. exfalso.
      assert (f_start f' ∈ filter (fun x => f_start f < x) (ade_starts c)) as Hin.
      { apply elem_of_list_filter. split; [exact Hlt|]. apply elem_of_ade_starts. eauto. }
      rewrite E in Hin. inversion Hin.
  - destruct (filter_head_min _ _ _ _ (ade_starts_sorted c) E) as (Hin & Hp & Hmin). split.
    + intros nm' f' H Hlt. apply Hmin; [|exact Hlt]. apply elem_of_ade_starts. eauto.
    + right. apply elem_of_ade_starts in Hin as (nm' & f' & H & Hs). eauto.
Qed.

Lemma ade_method_range_lem c f l :
  (l ∈ ap_covered (ade_method c f) <-> (exists n, c_lines c !! l = Some n /\ 0 < n) /\ f_start f <= l /\ l < ade_fend c f) /\
  (l ∈ ap_uncovered (ade_method c f) <-> c_lines c !! l = Some 0 /\ f_start f <= l /\ l < ade_fend c f).
Proof.
  unfold ade_method. cbn [ade_part_of ap_covered ap_uncovered].
  rewrite !elem_of_list_filter, elem_of_ade_covered, elem_of_ade_uncovered. unfold in_range.
  split; split; intros [H1 H2]; (split; [tauto || auto|]); try lia; tauto.
Qed.

Lemma elem_of_ade_methods c nm m :
  (nm, m) ∈ ade_methods c <-> exists f, c_funcs c !! nm = Some f /\ m = ade_method c f.
Proof.
  unfold ade_methods.
  change (map (fun p : name * func => (p.1, ade_method c p.2)) (map_to_list (c_funcs c)))
    with ((fun p : name * func => (p.1, ade_method c p.2)) <$> map_to_list (c_funcs c)).
  rewrite elem_of_list_fmap. split.
  - intros ([nm' f] & [= -> ->] & H). apply elem_of_map_to_list in H. eauto.
  - intros (f & H & ->). exists (nm, f). split; [reflexivity|]. apply elem_of_map_to_list, H.
Qed.
Lemma ade_functions_lem rel c :
  let F := encode_ade_file rel c in
  map fst (af_methods F) = map fst (map_to_list (c_funcs c)) /\ NoDup (map fst (af_methods F)) /\
  (forall nm m, (nm, m) ∈ af_methods F <-> exists f, c_funcs c !! nm = Some f /\ m = ade_method c f).
Proof.
  cbn zeta. unfold encode_ade_file. cbn [af_methods].
  assert (map fst (ade_methods c) = map fst (map_to_list (c_funcs c))) as E.
  { unfold ade_methods. rewrite map_map. apply map_ext. intros [nm f]. reflexivity. }
  split_and!; [exact E|rewrite E; apply (NoDup_fst_map_to_list (c_funcs c))|apply elem_of_ade_methods].
Qed.

(* every line of the file is an orphan or in some method's list; an orphan is in no method's list *)
Lemma ade_orphan_spec (ms : list (name * ade_part)) (sel : ade_part -> list N) (ls : list N) l :
  (l ∈ ade_orphan ms sel ls <-> l ∈ ls /\ forall m, m ∈ ms -> l ∉ sel m.2) /\
  (l ∈ ls -> l ∈ ade_orphan ms sel ls \/ exists m, m ∈ ms /\ l ∈ sel m.2).
Proof.
  unfold ade_orphan. split.
  - rewrite elem_of_list_filter, Forall_forall. tauto.
  - intros Hl. destruct (decide (Forall (fun m : name * ade_part => l ∉ sel m.2) ms)) as [Ha|Hn].
    + left. apply elem_of_list_filter. auto.
    + right. apply not_Forall_Exists in Hn; [|apply _]. apply Exists_exists in Hn as (m & Hm & Hin).
      exists m. split; [exact Hm|]. destruct (decide (l ∈ sel m.2)); [assumption|contradiction].
Qed.
Lemma ade_cover_lem rel c l :
  let F := encode_ade_file rel c in
  (l ∈ ap_covered (af_file F) -> l ∈ ap_covered (af_orphan F) \/ exists m, m ∈ af_methods F /\ l ∈ ap_covered m.2) /\
  (l ∈ ap_uncovered (af_file F) -> l ∈ ap_uncovered (af_orphan F) \/ exists m, m ∈ af_methods F /\ l ∈ ap_uncovered m.2) /\
  (l ∈ ap_covered (af_orphan F) <-> l ∈ ap_covered (af_file F) /\ forall m, m ∈ af_methods F -> l ∉ ap_covered m.2) /\
  (l ∈ ap_uncovered (af_orphan F) <-> l ∈ ap_uncovered (af_file F) /\ forall m, m ∈ af_methods F -> l ∉ ap_uncovered m.2) /\
  (forall m, m ∈ af_methods F -> (l ∈ ap_covered m.2 -> l ∈ ap_covered (af_file F)) /\ (l ∈ ap_uncovered m.2 -> l ∈ ap_uncovered (af_file F))).
Proof.
  cbn zeta. unfold encode_ade_file. cbn [af_file af_orphan af_methods ade_part_of ap_covered ap_uncovered].
  split_and!; try apply ade_orphan_spec.
  intros [nm m] Hm. apply elem_of_ade_methods in Hm as (f & _ & ->). cbn [snd]. unfold ade_method. cbn [ade_part_of ap_covered ap_uncovered].
  rewrite !elem_of_list_filter. tauto.
Qed.

(* totals (C13): every total_covered / total_uncovered is the length of its list; the file's two totals add up to the lines *)
Lemma filter_pos_zero_length (ls : list (N * N)) :
  Nat.add (length (filter (fun p : N * N => 0 <? p.2 = true) ls)) (length (filter (fun p : N * N => p.2 =? 0 = true) ls)) = length ls.
Proof.
  induction ls as [|e ls IH]; [reflexivity|]. rewrite !filter_cons.
  destruct (decide (0 <? e.2 = true)), (decide (e.2 =? 0 = true)); cbn [length]; lia.
Qed.
Lemma ade_totals_lem rel c :
  let F := encode_ade_file rel c in
  ap_total_covered (af_file F) = nlen (ap_covered (af_file F)) /\ ap_total_uncovered (af_file F) = nlen (ap_uncovered (af_file F)) /\
  ap_total_covered (af_orphan F) = nlen (ap_covered (af_orphan F)) /\ ap_total_uncovered (af_orphan F) = nlen (ap_uncovered (af_orphan F)) /\
  (forall m, m ∈ af_methods F -> ap_total_covered m.2 = nlen (ap_covered m.2) /\ ap_total_uncovered m.2 = nlen (ap_uncovered m.2)) /\
  ap_total_covered (af_file F) = covered_lines (map_to_list (c_lines c)) /\
  ap_total_covered (af_file F) + ap_total_uncovered (af_file F) = N.of_nat (size (c_lines c)).
Proof.
  cbn zeta. unfold encode_ade_file. cbn [af_file af_orphan af_methods ade_part_of ap_covered ap_uncovered ap_total_covered ap_total_uncovered].
  split_and!; try reflexivity.
  - intros [nm m] Hm. apply elem_of_ade_methods in Hm as (f & _ & ->). split; reflexivity.
  - unfold ade_covered, covered_lines, nlen. rewrite map_length. rewrite (sorted_kv_perm (c_lines c)). reflexivity.
  - unfold ade_covered, ade_uncovered, nlen. rewrite !map_length.
    pose proof (filter_pos_zero_length (sorted_kv (c_lines c))) as H.
    assert (length (sorted_kv (c_lines c)) = size (c_lines c)) as E by (rewrite (sorted_kv_perm (c_lines c)); reflexivity).
    lia.
Qed.
