(* List/N helper facts for the gcno model: N-indexed access = stdpp lookup/alter, split_at = take/drop,
   and the [good]/[okp] outcome predicates used to state "no panic" / "no panic, no fuel exhaustion". *)
From Grcov Require Import Model.GcnoCount.
From Coq Require Import ZifyBool ZifyN ZifyNat.

Lemma nthN_lookup {A} (l : list A) i : nthN l i = l !! N.to_nat i.
Proof.
  revert i. induction l as [|x l IH]; intros i; cbn [nthN]; [done|].
  destruct (N.eqb_spec i 0) as [->|Hne]; [done|].
  rewrite IH. replace (N.to_nat i) with (S (N.to_nat (N.pred i))) by lia. done.
Qed.
Lemma alterN_alter {A} (f : A -> A) i (l : list A) : alterN f i l = alter f (N.to_nat i) l.
Proof.
  revert i. induction l as [|x l IH]; intros i; cbn [alterN]; [done|].
  destruct (N.eqb_spec i 0) as [->|Hne]; [done|].
  rewrite IH. replace (N.to_nat i) with (S (N.to_nat (N.pred i))) by lia. done.
Qed.
Lemma lenN_alterN {A} (f : A -> A) i (l : list A) : lenN (alterN f i l) = lenN l.
Proof. unfold lenN. by rewrite alterN_alter, alter_length. Qed.
Lemma nthN_is_Some {A} (l : list A) i : is_Some (nthN l i) <-> i < lenN l.
Proof. rewrite nthN_lookup, lookup_lt_is_Some. unfold lenN. lia. Qed.
Lemma nthN_Some_lt {A} (l : list A) i x : nthN l i = Some x -> i < lenN l.
Proof. intros H. apply nthN_is_Some. eauto. Qed.
Lemma nthN_lt {A} (l : list A) i : i < lenN l -> exists x, nthN l i = Some x.
Proof. intros H. apply nthN_is_Some in H. destruct H; eauto. Qed.
Lemma nthN_None_ge {A} (l : list A) i : nthN l i = None -> lenN l <= i.
Proof. rewrite nthN_lookup, lookup_ge_None. unfold lenN. lia. Qed.
Lemma nthN_elem {A} (l : list A) i x : nthN l i = Some x -> x ∈ l.
Proof. rewrite nthN_lookup. apply elem_of_list_lookup_2. Qed.
Lemma lenN_app {A} (l k : list A) : lenN (l ++ k) = lenN l + lenN k.
Proof. unfold lenN. rewrite app_length. lia. Qed.
Lemma lenN_cons {A} (x : A) l : lenN (x :: l) = lenN l + 1.
Proof. unfold lenN. cbn [length]. lia. Qed.
Lemma Forall_alterN {A} (P : A -> Prop) f i (l : list A) :
  Forall P l -> (forall x, P x -> P (f x)) -> Forall P (alterN f i l).
Proof. intros Hl Hf. rewrite alterN_alter. apply Forall_alter; [done|]. intros x _. by apply Hf. Qed.
Lemma nthN_alterN {A} (f : A -> A) i j (l : list A) :
  nthN (alterN f i l) j = if i =? j then f <$> nthN l j else nthN l j.
Proof.
  rewrite !nthN_lookup, alterN_alter.
  destruct (N.eqb_spec i j) as [->|Hne].
  - by rewrite list_lookup_alter.
  - rewrite list_lookup_alter_ne; [done|lia].
Qed.

Lemma split_at_spec {A} n (l : list A) :
  split_at n l = if n <=? lenN l then Some (take (N.to_nat n) l, drop (N.to_nat n) l) else None.
Proof.
  revert n. induction l as [|x l IH]; intros n.
  - cbn [split_at]. unfold lenN. cbn [length]. destruct (N.eqb_spec n 0) as [->|Hne]; [done|].
    destruct (N.leb_spec n (N.of_nat 0)); [lia|done].
  - cbn [split_at]. destruct (N.eqb_spec n 0) as [->|Hne].
    + destruct (N.leb_spec 0 (lenN (x :: l))); [done|lia].
    + rewrite IH, lenN_cons.
      replace (N.to_nat n) with (S (N.to_nat (N.pred n))) by lia.
      destruct (N.leb_spec (N.pred n) (lenN l)), (N.leb_spec n (lenN l + 1)); try lia; done.
Qed.
Lemma split_at_Some {A} n (l a b : list A) :
  split_at n l = Some (a, b) -> l = a ++ b /\ lenN a = n /\ n <= lenN l.
Proof.
  rewrite split_at_spec. destruct (N.leb_spec n (lenN l)) as [Hle|]; [|done].
  intros [= <- <-]. rewrite take_drop. split; [done|]. split; [|done].
  unfold lenN in *. rewrite take_length. lia.
Qed.
Lemma split_at_le {A} n (l : list A) : n <= lenN l -> exists a b, split_at n l = Some (a, b).
Proof. intros H. rewrite split_at_spec. destruct (N.leb_spec n (lenN l)); [eauto|lia]. Qed.
Lemma le_length_spec {A} n (l : list A) : le_length n l = (n <=? lenN l).
Proof.
  revert n. induction l as [|x l IH]; intros n; cbn [le_length].
  - unfold lenN; cbn [length]. destruct (N.eqb_spec n 0), (N.leb_spec n (N.of_nat 0)); try lia; done.
  - rewrite lenN_cons. destruct (N.eqb_spec n 0) as [->|].
    + destruct (N.leb_spec 0 (lenN l + 1)); [done|lia].
    + rewrite IH. destruct (N.leb_spec (N.pred n) (lenN l)), (N.leb_spec n (lenN l + 1)); try lia; done.
Qed.
Lemma memN_elem x l : memN x l = true <-> x ∈ l.
Proof.
  induction l as [|y l IH]; cbn [memN].
  - split; [done|]. by intros ?%elem_of_nil.
  - rewrite orb_true_iff, IH, elem_of_cons. destruct (N.eqb_spec x y); intuition congruence.
Qed.

(* [good P o]: o is Ok with P, or Err - neither a panic nor fuel exhaustion.
   [okp P o]: no panic (fuel exhaustion allowed), P on Ok. *)
Definition good {A} (P : A -> Prop) (o : outcome A) : Prop :=
  match o with Ok a => P a | Err => True | Panic => False | OutOfFuel => False end.
Definition okp {A} (P : A -> Prop) (o : outcome A) : Prop :=
  match o with Ok a => P a | Err => True | Panic => False | OutOfFuel => True end.
Lemma good_bind {A B} (Q : A -> Prop) (P : B -> Prop) o (f : A -> outcome B) :
  good Q o -> (forall a, Q a -> good P (f a)) -> good P (obind o f).
Proof. destruct o; cbn; auto. Qed.
Lemma okp_bind {A B} (Q : A -> Prop) (P : B -> Prop) o (f : A -> outcome B) :
  okp Q o -> (forall a, Q a -> okp P (f a)) -> okp P (obind o f).
Proof. destruct o; cbn; auto. Qed.
Lemma good_mono {A} (P Q : A -> Prop) o : good P o -> (forall a, P a -> Q a) -> good Q o.
Proof. destruct o; cbn; auto. Qed.
Lemma okp_mono {A} (P Q : A -> Prop) o : okp P o -> (forall a, P a -> Q a) -> okp Q o.
Proof. destruct o; cbn; auto. Qed.
Lemma good_okp {A} (P : A -> Prop) o : good P o -> okp P o.
Proof. destruct o; cbn; auto. Qed.
Lemma good_not_panic {A} (P : A -> Prop) o : good P o -> o <> Panic /\ o <> OutOfFuel.
Proof. destruct o; cbn; intros; split; congruence || done. Qed.
Lemma okp_not_panic {A} (P : A -> Prop) o : okp P o -> o <> Panic.
Proof. destruct o; cbn; intros; congruence || done. Qed.
Lemma good_ofold {A B} (I : B -> Prop) (f : B -> A -> outcome B) l b :
  I b -> (forall b x, I b -> x ∈ l -> good I (f b x)) -> good I (ofold f l b).
Proof.
  revert b. induction l as [|x l IH]; intros b Hb Hf; cbn [ofold]; [done|].
  eapply good_bind; [apply Hf; [done|left]|]. intros b' Hb'. apply IH; [done|].
  intros b0 y ? ?. apply Hf; [done|by right].
Qed.
Lemma okp_ofold {A B} (I : B -> Prop) (f : B -> A -> outcome B) l b :
  I b -> (forall b x, I b -> x ∈ l -> okp I (f b x)) -> okp I (ofold f l b).
Proof.
  revert b. induction l as [|x l IH]; intros b Hb Hf; cbn [ofold]; [done|].
  eapply okp_bind; [apply Hf; [done|left]|]. intros b' Hb'. apply IH; [done|].
  intros b0 y ? ?. apply Hf; [done|by right].
Qed.
