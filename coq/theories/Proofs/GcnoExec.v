(* executed flag = first arc counter > 0; a function that is not executed contributes 0 to every one of its lines
   and false to every branch slot; a line carried by a single block gets that block's count. (C15/C08) *)
From Grcov Require Import Model.GcnoCount Proofs.GcnoBase Proofs.GcnoShape Proofs.GcnoStruct.
From Coq Require Import ZifyBool ZifyN ZifyNat.

Definition first_arc_positive (f : gfun) : bool :=
  match f_edges f with e :: _ => 0 <? e_counter e | [] => false end.

Section arith.
Context (W : N -> N) (Wsub : N -> N -> N).

Lemma add_line_count_exec f : post (fun '(ex, _) => ex = first_arc_positive f) (add_line_count W Wsub f).
Proof.
  unfold add_line_count, first_arc_positive.
  destruct (match f_edges f with [] => false | e :: _ => 0 <? e_counter e end).
  - eapply (post_bind (fun _ => True)); [done|]. intros ? _. by apply post_Ok.
  - by apply post_Ok.
Qed.

(* the record of the function's file after fin_fun carries the function with its start line and that flag *)
Theorem executed_iff_first_arc br res f res' :
  fin_fun W Wsub br res f = Ok res' ->
  exists c', res' !! f_file f = Some c' /\
             c_funcs c' !! f_name f = Some (mkFunc (f_start_line f) (first_arc_positive f)).
Proof.
  unfold fin_fun. pose proof (add_line_count_exec f) as He.
  destruct (add_line_count W Wsub f) as [[ex fl]| | |]; cbn [obind]; try done.
  specialize (He _ eq_refl). cbn in He. subst ex.
  destruct (if br then _ else _) as [b| | |]; cbn [obind]; try done.
  intros [= <-]. eexists. rewrite lookup_insert. split; [done|]. cbn. by rewrite lookup_insert.
Qed.

(* zero fold: every value is 0 *)
Lemma zero_lines_values blocks (m : gmap N N) :
  map_Forall (fun _ n => n = 0) m ->
  map_Forall (fun _ n => n = 0)
    (foldl (fun m b => foldl (fun m line => match m !! line with Some _ => m | None => <[line := 0]> m end) m (b_lines b)) m blocks).
Proof.
  revert m. induction blocks as [|b bl IH]; intros m Hm; cbn [foldl]; [done|]. apply IH. clear IH.
  revert m Hm. generalize (b_lines b). induction l as [|x l IHl]; intros m Hm; cbn [foldl]; [done|].
  apply IHl. destruct (m !! x); [done|]. by apply map_Forall_insert_2.
Qed.

(* C08 unexecuted_zero: a function whose first arc was never taken adds count 0 to each of its lines (existing
   counts of the file are kept), reports itself not executed and every branch slot it adds is false *)
Theorem unexecuted_zero br res f res' :
  first_arc_positive f = false -> fin_fun W Wsub br res f = Ok res' ->
  exists c', res' !! f_file f = Some c' /\
    (forall line, c_lines c' !! line =
       match c_lines (default empty_cov (res !! f_file f)) !! line with
       | Some n => Some n
       | None => if bool_decide (line ∈ all_lines (f_blocks f)) then Some 0 else None
       end).
Proof.
  intros Hex. unfold fin_fun.
  pose proof (add_line_count_exec f) as He. pose proof (add_line_count_dom W Wsub f) as Hd.
  assert (Hz : post (fun '(ex, fl) => ex = false -> map_Forall (fun _ n => n = 0) fl) (add_line_count W Wsub f)).
  { unfold add_line_count. destruct (match f_edges f with [] => false | e :: _ => 0 <? e_counter e end).
    - eapply (post_bind (fun _ => True)); [done|]. intros ? _. apply post_Ok. done.
    - apply post_Ok. intros _. apply zero_lines_values. apply map_Forall_empty. }
  destruct (add_line_count W Wsub f) as [[ex fl]| | |]; cbn [obind]; try done.
  specialize (He _ eq_refl). specialize (Hd _ eq_refl). specialize (Hz _ eq_refl). cbn in He, Hd, Hz.
  rewrite Hex in He. subst ex. specialize (Hz eq_refl).
  destruct (if br then _ else _) as [b| | |]; cbn [obind]; try done.
  intros [= <-]. eexists. rewrite lookup_insert. split; [done|]. cbn. intros line.
  rewrite lookup_union_with, lookup_fmap.
  destruct (c_lines _ !! line) as [n|]; cbn.
  - by destruct (fl !! line).
  - destruct (bool_decide_reflect (line ∈ all_lines (f_blocks f))) as [Hin|Hnin].
    + apply Hd in Hin as [v Hv]. rewrite Hv. done.
    + destruct (fl !! line) eqn:E; [|done]. exfalso. apply Hnin, Hd. by eexists.
Qed.
End arith.

Section arith2.
Context (W : N -> N) (Wsub : N -> N -> N).

Local Notation step f := (fun '(edges, acc) '(line, bs) =>
   match bs with
   | [b] => match nthN (f_blocks f) b with None => Panic | Some blk => Ok (edges, <[line := b_counter blk]> acc) end
   | _ => let* r := get_line_count W Wsub (circuit_fuel f) (f_blocks f) edges bs in
          let '(c, edges') := r in Ok (edges', <[line := c]> acc)
   end).

Lemma line_fold_other f l st (acc : gmap N N) line :
  line ∉ l.*1 -> post (fun '(_, acc') => acc' !! line = acc !! line) (ofold (step f) l (st, acc)).
Proof.
  revert st acc. induction l as [|[k bs] l IH]; intros st acc Hnin; cbn [ofold]; [by apply post_Ok|].
  cbn in Hnin. apply not_elem_of_cons in Hnin as [Hne Hnin].
  eapply (post_bind (fun '(_, acc1) => acc1 !! line = acc !! line)).
  { destruct bs as [|b [|b2 bs]].
    - eapply (post_bind (fun _ => True)); [done|]. intros [c e'] _. apply post_Ok. by rewrite lookup_insert_ne.
    - destruct (nthN (f_blocks f) b); [|done]. apply post_Ok. by rewrite lookup_insert_ne.
    - eapply (post_bind (fun _ => True)); [done|]. intros [c e'] _. apply post_Ok. by rewrite lookup_insert_ne. }
  intros [st1 acc1] H1. eapply post_mono; [by apply IH|]. intros [st2 acc2] H2. by rewrite H2.
Qed.
Lemma line_fold_single f l st (acc : gmap N N) line b blk :
  NoDup l.*1 -> (line, [b]) ∈ l -> nthN (f_blocks f) b = Some blk ->
  post (fun '(_, acc') => acc' !! line = Some (b_counter blk)) (ofold (step f) l (st, acc)).
Proof.
  revert st acc. induction l as [|[k bs] l IH]; intros st acc Hnd Hin Hb; [by apply elem_of_nil in Hin|].
  cbn in Hnd. apply NoDup_cons in Hnd as [Hk Hnd]. cbn [ofold]. apply elem_of_cons in Hin as [Heq|Hin].
  - injection Heq as <- <-. rewrite Hb. cbn [obind].
    eapply post_mono; [by apply (line_fold_other f l st (<[line := b_counter blk]> acc) line)|].
    intros [st2 acc2] H2. by rewrite H2, lookup_insert.
  - assert (Hne : k <> line).
    { intros ->. apply Hk. apply elem_of_list_fmap. by exists (line, [b]). }
    eapply (post_bind (fun _ => True)); [done|]. intros [st1 acc1] _. by apply IH.
Qed.

(* C08 single_block_line: in an executed function, a line that is carried by exactly one block gets that block's count *)
Theorem single_block_line f line b blk ex fl :
  lines_to_block (f_blocks f) !! line = Some [b] -> nthN (f_blocks f) b = Some blk ->
  add_line_count W Wsub f = Ok (ex, fl) -> ex = true -> fl !! line = Some (b_counter blk).
Proof.
  intros Hl Hb. unfold add_line_count.
  destruct (match f_edges f with [] => false | e :: _ => 0 <? e_counter e end); [|by intros [= <- _] ?].
  pose proof (line_fold_single f (map_to_list (lines_to_block (f_blocks f))) (f_edges f) ∅ line b blk
                (NoDup_fst_map_to_list _) (proj2 (elem_of_map_to_list _ _ _) Hl) Hb) as Hp.
  destruct (ofold _ _ _) as [[st acc]| | |]; cbn [obind]; try done.
  specialize (Hp _ eq_refl). cbn in Hp. by intros [= _ <-] _.
Qed.
End arith2.
