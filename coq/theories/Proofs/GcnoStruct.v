(* C15 structure_from_gcno: the set of instrumented lines, the functions (names, start lines) and the shapes of the
   branch vectors reported for a gcno are the same with any list of gcda as with none. *)
From Grcov Require Import Model.GcnoCount Proofs.GcnoBase Proofs.GcnoReadSafe Proofs.GcnoShape Proofs.GcnoPerm Proofs.GcnoRel.
From Coq Require Import ZifyBool ZifyN ZifyNat.

Definition ptrue (_ _ : N) : Prop := True.
Local Notation frelT := (frel ptrue).
Local Notation brelT := (brel ptrue).
Local Notation erelT := (erel ptrue).

Lemma frelT_of_shape f f' : fshape f = fshape f' -> frelT f f'.
Proof.
  intros H. unfold fshape in H.
  assert (Hb : map bshape (f_blocks f) = map bshape (f_blocks f')) by congruence.
  assert (He : map eshape (f_edges f) = map eshape (f_edges f')) by congruence.
  unfold frel. repeat split; try congruence.
  - eapply Forall2_impl; [apply (map_eq_Forall2 _ _ _ Hb)|]. by intros ? ? ?.
  - eapply Forall2_impl; [apply (map_eq_Forall2 _ _ _ He)|]. by intros ? ? ?.
Qed.

(* all lines of all blocks *)
Definition all_lines (blocks : list gblock) : list N := concat (map b_lines blocks).
Lemma all_lines_rel bl bl' : Forall2 brelT bl bl' -> all_lines bl = all_lines bl'.
Proof. unfold all_lines. induction 1 as [|b b' l l' H _ IH]; cbn; [done|]. by rewrite (brel_lines _ _ _ H), IH. Qed.

Lemma lines_to_block_dom blocks k : is_Some (lines_to_block blocks !! k) <-> k ∈ all_lines blocks.
Proof.
  unfold lines_to_block, all_lines.
  assert (Hgen : forall (m : gmap N (list N)),
     is_Some (foldl (fun m b => foldl (fun m line => <[line := default [] (m !! line) ++ [b_no b]]> m) m (b_lines b)) m blocks !! k)
     <-> is_Some (m !! k) \/ k ∈ concat (map b_lines blocks)).
  { induction blocks as [|b bl IH]; intros m; cbn [foldl map concat].
    - rewrite elem_of_nil. tauto.
    - rewrite IH, elem_of_app. clear IH.
      assert (Hin : forall (m : gmap N (list N)) ls,
                is_Some (foldl (fun m line => <[line := default [] (m !! line) ++ [b_no b]]> m) m ls !! k) <-> is_Some (m !! k) \/ k ∈ ls).
      { intros m0 ls. revert m0. induction ls as [|x ls IHl]; intros m0; cbn [foldl]; [rewrite elem_of_nil; tauto|].
        rewrite IHl, elem_of_cons. destruct (decide (k = x)) as [->|Hne].
        - rewrite lookup_insert. split; [intros _; right; by left|intros _; left; by eexists].
        - rewrite lookup_insert_ne by done. intuition congruence. }
      rewrite Hin. tauto. }
  rewrite Hgen, lookup_empty. split; [intros [[? ?]|?]; done|by right].
Qed.
Lemma zero_lines_dom blocks k :
  is_Some (foldl (fun m b => foldl (fun m line => match m !! line with Some _ => m | None => <[line := 0]> m end) m (b_lines b))
                 (∅ : gmap N N) blocks !! k) <-> k ∈ all_lines blocks.
Proof.
  unfold all_lines.
  assert (Hgen : forall (m : gmap N N),
     is_Some (foldl (fun m b => foldl (fun m line => match m !! line with Some _ => m | None => <[line := 0]> m end) m (b_lines b)) m blocks !! k)
     <-> is_Some (m !! k) \/ k ∈ concat (map b_lines blocks)).
  { induction blocks as [|b bl IH]; intros m; cbn [foldl map concat].
    - rewrite elem_of_nil. tauto.
    - rewrite IH, elem_of_app. clear IH.
      assert (Hin : forall (m : gmap N N) ls,
                is_Some (foldl (fun m line => match m !! line with Some _ => m | None => <[line := 0]> m end) m ls !! k) <-> is_Some (m !! k) \/ k ∈ ls).
      { intros m0 ls. revert m0. induction ls as [|x ls IHl]; intros m0; cbn [foldl]; [rewrite elem_of_nil; tauto|].
        rewrite IHl, elem_of_cons. destruct (m0 !! x) eqn:E.
        - destruct (decide (k = x)) as [->|Hne]; [|intuition congruence]. split; [tauto|]. intros _. left. by eexists.
        - destruct (decide (k = x)) as [->|Hne].
          + rewrite lookup_insert. split; [intros _; right; by left|intros _; left; by eexists].
          + rewrite lookup_insert_ne by done. intuition congruence. }
      rewrite Hin. tauto. }
  rewrite Hgen, lookup_empty. split; [intros [[? ?]|?]; done|by right].
Qed.

Section arith.
Context (W : N -> N) (Wsub : N -> N -> N).

(* the function's line map has exactly the lines of its blocks, whatever the counters *)
Lemma add_line_count_dom f :
  post (fun '(_, fl) => forall k, is_Some (fl !! k) <-> k ∈ all_lines (f_blocks f)) (add_line_count W Wsub f).
Proof.
  unfold add_line_count. destruct (match f_edges f with [] => false | e :: _ => 0 <? e_counter e end).
  - eapply (post_bind (fun '(_, acc) => forall k, is_Some (acc !! k) <-> is_Some (lines_to_block (f_blocks f) !! k))).
    2:{ intros [ed acc] Hacc. apply post_Ok. intros k. cbn. rewrite Hacc. apply lines_to_block_dom. }
    assert (Hgen : forall l st (acc : gmap N N),
       post (fun '(_, acc') => forall k, is_Some (acc' !! k) <-> k ∈ l.*1 \/ is_Some (acc !! k))
            (ofold (fun '(edges, acc) '(line, bs) =>
                      match bs with
                      | [b] => match nthN (f_blocks f) b with None => Panic | Some blk => Ok (edges, <[line := b_counter blk]> acc) end
                      | _ => let* r := get_line_count W Wsub (circuit_fuel f) (f_blocks f) edges bs in
                             let '(c, edges') := r in Ok (edges', <[line := c]> acc)
                      end) l (st, acc))).
    { induction l as [|[line bs] l IH]; intros st acc; cbn [ofold].
      - apply post_Ok. intros k. cbn. rewrite elem_of_nil. tauto.
      - eapply (post_bind (fun '(_, acc1) => forall k, is_Some (acc1 !! k) <-> k = line \/ is_Some (acc !! k))).
        { destruct bs as [|b [|b2 bs]].
          - eapply (post_bind (fun _ => True)); [done|]. intros [c e'] _. apply post_Ok. intros k.
            destruct (decide (k = line)) as [->|]; [rewrite lookup_insert; split; [by left|by eexists]|].
            rewrite lookup_insert_ne by done. tauto.
          - destruct (nthN (f_blocks f) b); [|done]. apply post_Ok. intros k.
            destruct (decide (k = line)) as [->|]; [rewrite lookup_insert; split; [by left|by eexists]|].
            rewrite lookup_insert_ne by done. tauto.
          - eapply (post_bind (fun _ => True)); [done|]. intros [c e'] _. apply post_Ok. intros k.
            destruct (decide (k = line)) as [->|]; [rewrite lookup_insert; split; [by left|by eexists]|].
            rewrite lookup_insert_ne by done. tauto. }
        intros [st1 acc1] H1. eapply post_mono; [apply IH|]. intros [st2 acc2] H2 k. rewrite H2, H1. cbn. rewrite elem_of_cons. tauto. }
    eapply post_mono; [apply Hgen|]. intros [st acc] Hacc k. rewrite Hacc, lookup_empty.
    split.
    + intros [Hin|[? ?]]; [|done]. apply elem_of_list_fmap in Hin as [[k' v] [-> Hin]]. apply elem_of_map_to_list in Hin. by eexists.
    + intros [v Hv]. left. apply elem_of_list_fmap. exists (k, v). split; [done|]. by apply elem_of_map_to_list.
  - apply post_Ok. intros k. apply zero_lines_dom.
Qed.

(* structure of a coverage record: instrumented lines, functions with start lines, branch slot counts *)
Definition srel (c c' : cov) : Prop :=
  (forall k, is_Some (c_lines c !! k) <-> is_Some (c_lines c' !! k)) /\
  f_start <$> c_funcs c = f_start <$> c_funcs c' /\
  length <$> c_branches c = length <$> c_branches c'.
Definition ressrel (r r' : gmap name cov) : Prop := forall k, option_Forall2 srel (r !! k) (r' !! k).

Lemma branch_taken_len f f' ex ex' blk blk' :
  frelT f f' -> brelT blk blk' ->
  orel (fun t t' => length t = length t') (branch_taken f ex blk) (branch_taken f' ex' blk').
Proof.
  intros (_ & _ & _ & _ & _ & _ & _ & _ & Hb & He) Hbb. unfold branch_taken.
  rewrite <- (brel_dst _ _ _ Hbb). eapply (orel_bind (fun t t' => length t = length t')).
  { apply orel_ofold; [done|]. intros acc acc' no Hacc _.
    destruct (nthN_rel_cases _ _ _ no He) as [(ed & ed' & -> & -> & Hee)|[-> ->]]; [|done]. cbn.
    destruct Hee as (Hs & _). rewrite (is_fake_eshape _ _ Hs). destruct (is_fake ed'); cbn; lia. }
  intros t t' Ht. cbn. by rewrite !rev_length.
Qed.
Lemma fin_branches_struct f f' ex ex' m m' :
  frelT f f' -> length <$> m = length <$> m' ->
  orel (fun b b' => length <$> b = length <$> b') (fin_branches f ex m) (fin_branches f' ex' m').
Proof.
  intros Hff Hm. unfold fin_branches.
  apply (orel_ofold2 brelT (fun b b' : gmap N (list bool) => length <$> b = length <$> b'));
    [by destruct Hff as (_ & _ & _ & _ & _ & _ & _ & _ & Hb & _)|done|].
  intros m0 m0' blk blk' Hm0 Hbb. rewrite (branch_line_rel ptrue _ _ _ _ Hff Hbb).
  destruct (branch_line f' blk') as [line| | |]; cbn; try done.
  destruct (line =? 0); [done|].
  eapply orel_bind; [by apply branch_taken_len|]. intros t t' Ht. rewrite Ht.
  destruct (length t' <=? 1)%nat; [done|]. cbn. rewrite !fmap_insert, !app_length, Ht. f_equal; [|done].
  f_equal. assert (H : (length <$> m0) !! line = (length <$> m0') !! line) by (by rewrite Hm0).
  rewrite !lookup_fmap in H. destruct (m0 !! line), (m0' !! line); cbn in *; congruence.
Qed.

Lemma fin_fun_struct br res res' f f' r1 r1' :
  ressrel res res' -> frelT f f' ->
  fin_fun W Wsub br res f = Ok r1 -> fin_fun W Wsub br res' f' = Ok r1' -> ressrel r1 r1'.
Proof.
  intros Hres Hff. unfold fin_fun.
  pose proof (add_line_count_dom f) as Hd. pose proof (add_line_count_dom f') as Hd'.
  destruct (add_line_count W Wsub f) as [[ex fl]| | |]; cbn [obind]; try done.
  destruct (add_line_count W Wsub f') as [[ex' fl']| | |]; cbn [obind]; try done.
  specialize (Hd _ eq_refl). specialize (Hd' _ eq_refl). cbn in Hd, Hd'.
  pose proof Hff as (_ & Hst & _ & _ & _ & Hfile & Hname & _ & Hbl & _). rewrite <- Hfile, <- Hname, <- Hst.
  rewrite <- (all_lines_rel _ _ Hbl) in Hd'.
  assert (Hc : srel (default empty_cov (res !! f_file f)) (default empty_cov (res' !! f_file f))).
  { destruct (Hres (f_file f)) as [c c' Hcc|]; cbn; [done|]. split; [done|]. split; done. }
  destruct Hc as (Hl & Hfu & Hbr).
  pose proof (fin_branches_struct f f' ex ex' _ _ Hff Hbr) as Hfb.
  assert (Hbb : orel (fun b b' : gmap N (list bool) => length <$> b = length <$> b')
                  (if br then fin_branches f ex (c_branches (default empty_cov (res !! f_file f))) else Ok (c_branches (default empty_cov (res !! f_file f))))
                  (if br then fin_branches f' ex' (c_branches (default empty_cov (res' !! f_file f))) else Ok (c_branches (default empty_cov (res' !! f_file f))))).
  { destruct br; done. }
  destruct (if br then fin_branches f ex _ else _) as [b1| | |], (if br then fin_branches f' ex' _ else _) as [b1'| | |]; cbn in Hbb |- *; try done.
  intros [= <-] [= <-] k. destruct (decide (k = f_file f)) as [->|]; [|rewrite !lookup_insert_ne by done; apply Hres].
  rewrite !lookup_insert. constructor. split; [|split]; cbn.
  - intros line.
    assert (Hu : forall (a b : gmap N N) (g : N -> N -> option N), (forall x y, is_Some (g x y)) ->
              is_Some (union_with g a b !! line) <-> is_Some (a !! line) \/ is_Some (b !! line)).
    { intros a b g Hg. rewrite lookup_union_with. destruct (a !! line) as [x|], (b !! line) as [y|]; cbn.
      - split; [intros _; left; by eexists|intros _; apply Hg].
      - split; [intros _; left; by eexists|intros _; by eexists].
      - split; [intros _; right; by eexists|intros _; by eexists].
      - split; [intros [? ?]; done|intros [[? ?]|[? ?]]; done]. }
    destruct ex, ex'; rewrite !Hu by (intros; by eexists); rewrite ?lookup_fmap, ?fmap_is_Some, Hl, Hd, Hd'; tauto.
  - by rewrite !fmap_insert, Hfu.
  - done.
Qed.

Lemma finalize_struct br fs fs' res res' r1 r1' :
  Forall2 frelT fs fs' -> ressrel res res' ->
  ofold (fin_fun W Wsub br) fs res = Ok r1 -> ofold (fin_fun W Wsub br) fs' res' = Ok r1' -> ressrel r1 r1'.
Proof.
  intros Hf. revert res res'. induction Hf as [|f f' l l' Hff _ IH]; intros res res' Hres; cbn [ofold].
  - by intros [= <-] [= <-].
  - destruct (fin_fun W Wsub br res f) as [m| | |] eqn:E1; cbn [obind]; try done.
    destruct (fin_fun W Wsub br res' f') as [m'| | |] eqn:E2; cbn [obind]; try done.
    apply IH. by eapply fin_fun_struct.
Qed.

Hypothesis HW1 : forall x y, W (W x + y) = W (x + y).

Theorem structure_from_gcno gcno_buf ds br r r0 :
  compute_map_gen W Wsub gcno_buf ds br = Ok r ->
  compute_map_gen W Wsub gcno_buf [] br = Ok r0 ->
  ressrel r r0.
Proof.
  unfold compute_map_gen. destruct (read_gcno gcno_buf) as [g0| | |]; cbn [obind ofold]; try done.
  pose proof (read_gcdas_shape W g0 ds) as Hs.
  destruct (ofold (read_gcda W) ds g0) as [g1| | |]; cbn [obind]; try done. specialize (Hs _ eq_refl).
  assert (Hf : Forall2 frelT (g_funs g1) (g_funs g0)).
  { eapply Forall2_impl; [apply (gshape_funs _ _ Hs)|]. apply frelT_of_shape. }
  assert (Hv : g_version g1 = g_version g0) by (unfold gshape in Hs; congruence).
  pose proof (stop_rel W ptrue I (fun _ _ _ _ _ _ => I) (fun _ _ _ _ _ _ => I) g1 g0 Hv Hf) as Hst.
  destruct (stop W g1) as [g2| | |], (stop W g0) as [g2'| | |]; cbn in Hst; cbn [obind]; try done.
  unfold finalize. intros H1 H2. eapply finalize_struct; [exact Hst| |exact H1|exact H2].
  intros k. rewrite !lookup_empty. constructor.
Qed.
End arith.
