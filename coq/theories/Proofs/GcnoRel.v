(* Two runs of the counting half on graphs of equal shape whose counters are related by a relation phi that is
   compatible with the arithmetic of the algorithm (+, |a-b|, min, -): same outcome class, related results.
   The control flow of propagate_counts and of the circuit search reads the shape only.
   Instances: phi = True (shape determinism, C15 structure_from_gcno), phi a a' := a' = k*a (C15 k_copies_scale). *)
From Grcov Require Import Model.GcnoCount Proofs.GcnoBase Proofs.GcnoShape.
From Coq Require Import ZifyBool ZifyN ZifyNat.

Definition orel {A B} (R : A -> B -> Prop) (o : outcome A) (o' : outcome B) : Prop :=
  match o, o' with
  | Ok a, Ok b => R a b
  | Err, Err => True
  | Panic, Panic => True
  | OutOfFuel, OutOfFuel => True
  | _, _ => False
  end.
Lemma orel_bind {A A' B B'} (Q : A -> A' -> Prop) (P : B -> B' -> Prop) o o' (f : A -> outcome B) (f' : A' -> outcome B') :
  orel Q o o' -> (forall a a', Q a a' -> orel P (f a) (f' a')) -> orel P (obind o f) (obind o' f').
Proof. destruct o, o'; cbn; try done. auto. Qed.
Lemma orel_mono {A B} (P Q : A -> B -> Prop) o o' : orel P o o' -> (forall a b, P a b -> Q a b) -> orel Q o o'.
Proof. destruct o, o'; cbn; auto. Qed.
Lemma orel_ofold2 {A A' B B'} (RA : A -> A' -> Prop) (I : B -> B' -> Prop)
    (f : B -> A -> outcome B) (f' : B' -> A' -> outcome B') l l' b b' :
  Forall2 RA l l' -> I b b' ->
  (forall b b' x x', I b b' -> RA x x' -> orel I (f b x) (f' b' x')) ->
  orel I (ofold f l b) (ofold f' l' b').
Proof.
  intros Hl. revert b b'. induction Hl as [|x x' l l' Hx Hl IH]; intros b b' Hb Hf; cbn [ofold]; [done|].
  eapply orel_bind; [by apply Hf|]. intros c c' Hc. by apply IH.
Qed.
Lemma orel_ofold {A B B'} (I : B -> B' -> Prop) (f : B -> A -> outcome B) (f' : B' -> A -> outcome B') l b b' :
  I b b' -> (forall b b' x, I b b' -> x ∈ l -> orel I (f b x) (f' b' x)) -> orel I (ofold f l b) (ofold f' l b').
Proof.
  revert b b'. induction l as [|x l IH]; intros b b' Hb Hf; cbn [ofold]; [done|].
  eapply orel_bind; [apply Hf; [done|left]|]. intros c c' Hc. apply IH; [done|].
  intros ? ? y ? ?. apply Hf; [done|by right].
Qed.

Lemma nthN_rel {A B} (R : A -> B -> Prop) l l' i :
  Forall2 R l l' -> option_Forall2 R (nthN l i) (nthN l' i).
Proof. intros H. rewrite !nthN_lookup. by apply Forall2_lookup. Qed.
Lemma nthN_rel_cases {A B} (R : A -> B -> Prop) l l' i :
  Forall2 R l l' ->
  (exists x y, nthN l i = Some x /\ nthN l' i = Some y /\ R x y) \/ (nthN l i = None /\ nthN l' i = None).
Proof. intros H. destruct (nthN_rel R l l' i H); [left; eauto|by right]. Qed.
Lemma alterN_rel {A B} (R : A -> B -> Prop) f f' i l l' :
  Forall2 R l l' -> (forall x y, R x y -> R (f x) (f' y)) -> Forall2 R (alterN f i l) (alterN f' i l').
Proof. intros H Hf. rewrite !alterN_alter. apply Forall2_alter; [done|]. intros x y _ _. apply Hf. Qed.
Lemma lenN_rel {A B} (R : A -> B -> Prop) l l' : Forall2 R l l' -> lenN l = lenN l'.
Proof. intros H. unfold lenN. by rewrite (Forall2_length _ _ _ H). Qed.

Lemma Forall2_rev' {A B} (R : A -> B -> Prop) l l' : Forall2 R l l' -> Forall2 R (rev l) (rev l').
Proof. induction 1; cbn [rev]; [constructor|]. apply Forall2_app; [done|]. by repeat constructor. Qed.
Lemma bs_loop_ext fuel key key' l dst size base :
  (forall x, key x = key' x) -> bs_loop fuel key l dst size base = bs_loop fuel key' l dst size base.
Proof.
  intros Hk. revert size base. induction fuel as [|fuel IH]; intros size base; cbn [bs_loop]; [done|].
  destruct (1 <? size).
  - destruct (nthN l (base + size / 2)); [|done]. rewrite <- Hk. destruct (key n); [|done]. apply IH.
  - destruct (nthN l base); [|done]. by rewrite <- Hk.
Qed.
Lemma bsearch_pos_ext key key' l dst : (forall x, key x = key' x) -> bsearch_pos key l dst = bsearch_pos key' l dst.
Proof. intros Hk. unfold bsearch_pos. destruct l; [done|]. by apply bs_loop_ext. Qed.

Section rel.
Context (W : N -> N) (Wsub : N -> N -> N) (phi : N -> N -> Prop).
Hypothesis phi0 : phi 0 0.
Hypothesis phi_add : forall a a' b b', phi a a' -> phi b b' -> phi (W (a + b)) (W (a' + b')).
Hypothesis phi_abs : forall a a' b b', phi a a' -> phi b b' ->
  phi (if b <=? a then a - b else b - a) (if b' <=? a' then a' - b' else b' - a').
Hypothesis phi_min : forall a a' b b', phi a a' -> phi b b' -> phi (N.min a b) (N.min a' b').
Hypothesis phi_sub : forall a a' b b', phi a a' -> phi b b' -> phi (Wsub a b) (Wsub a' b').

Definition erel (e e' : gedge) : Prop :=
  eshape e = eshape e' /\ phi (e_counter e) (e_counter e') /\ phi (e_cycles e) (e_cycles e').
Definition brel (b b' : gblock) : Prop := bshape b = bshape b' /\ phi (b_counter b) (b_counter b').
Definition frel (f f' : gfun) : Prop :=
  f_ident f = f_ident f' /\ f_start_line f = f_start_line f' /\ f_end_line f = f_end_line f' /\
  f_line_sum f = f_line_sum f' /\ f_cfg_sum f = f_cfg_sum f' /\ f_file f = f_file f' /\ f_name f = f_name f' /\
  f_real f = f_real f' /\ Forall2 brel (f_blocks f) (f_blocks f') /\ Forall2 erel (f_edges f) (f_edges f').

Lemma erel_src e e' : erel e e' -> e_src e = e_src e'.
Proof. intros [H _]. unfold eshape in H. congruence. Qed.
Lemma erel_dst e e' : erel e e' -> e_dst e = e_dst e'.
Proof. intros [H _]. unfold eshape in H. congruence. Qed.
Lemma erel_tree e e' : erel e e' -> is_on_tree e = is_on_tree e'.
Proof. intros [H _]. by apply is_on_tree_eshape. Qed.
Lemma brel_src b b' : brel b b' -> b_src b = b_src b'.
Proof. intros [H _]. unfold bshape in H. congruence. Qed.
Lemma brel_dst b b' : brel b b' -> b_dst b = b_dst b'.
Proof. intros [H _]. unfold bshape in H. congruence. Qed.
Lemma brel_no b b' : brel b b' -> b_no b = b_no b'.
Proof. intros [H _]. unfold bshape in H. congruence. Qed.
Lemma brel_lines b b' : brel b b' -> b_lines b = b_lines b'.
Proof. intros [H _]. unfold bshape in H. congruence. Qed.
Lemma brel_line_max b b' : brel b b' -> b_line_max b = b_line_max b'.
Proof. intros [H _]. unfold bshape in H. congruence. Qed.

(* ---- propagate ---- *)
Definition pres (x y : N * list gedge * list N) : Prop := phi x.1.1 y.1.1 /\ Forall2 erel x.1.2 y.1.2 /\ x.2 = y.2.

Lemma sum_side_rel rec rec' get pred ids acc acc' edges edges' visited :
  (forall tgt id ed ed' vis, Forall2 erel ed ed' -> orel pres (rec tgt id ed vis) (rec' tgt id ed' vis)) ->
  (forall e e', erel e e' -> get e = get e') ->
  phi acc acc' -> Forall2 erel edges edges' ->
  orel pres (sum_side W rec get pred ids acc edges visited) (sum_side W rec' get pred ids acc' edges' visited).
Proof.
  intros Hrec Hget. revert acc acc' edges edges' visited.
  induction ids as [|id ids IH]; intros acc acc' edges edges' visited Hacc He; cbn [sum_side]; [by repeat split|].
  destruct (match pred with Some p => p =? id | None => false end); [by apply IH|].
  destruct (nthN_rel_cases _ _ _ id He) as [(e & e' & -> & -> & Hee)|[-> ->]]; [|done].
  rewrite <- (erel_tree _ _ Hee). destruct (is_on_tree e).
  - rewrite <- (Hget _ _ Hee). eapply orel_bind; [by apply Hrec|].
    intros [[c ed1] vis1] [[c' ed1'] vis1'] (Hc & He1 & Hv). cbn in Hc, He1, Hv. subst vis1'.
    apply IH; [by apply phi_add|done].
  - apply IH; [|done]. apply phi_add; [done|]. by destruct Hee as (_ & ? & _).
Qed.

Lemma propagate_rel fuel blocks blocks' edges edges' b pred visited :
  Forall2 brel blocks blocks' -> Forall2 erel edges edges' ->
  orel pres (propagate W fuel blocks edges b pred visited) (propagate W fuel blocks' edges' b pred visited).
Proof.
  intros Hb. revert edges edges' b pred visited. induction fuel as [|fuel IH]; intros edges edges' b pred visited He; [done|].
  cbn [propagate]. destruct (memN b visited); [by repeat split|].
  destruct (nthN_rel_cases _ _ _ b Hb) as [(blk & blk' & -> & -> & Hbb)|[-> ->]]; [|done]. cbv zeta.
  rewrite <- (brel_src _ _ Hbb), <- (brel_dst _ _ Hbb).
  eapply orel_bind.
  { apply sum_side_rel; [|apply erel_src|done|done]. intros. by apply IH. }
  intros [[pos ed1] vis1] [[pos' ed1'] vis1'] (Hp & He1 & Hv). cbn in Hp, He1, Hv. subst vis1'.
  eapply orel_bind.
  { apply sum_side_rel; [|apply erel_dst|done|done]. intros. by apply IH. }
  intros [[neg ed2] vis2] [[neg' ed2'] vis2'] (Hn & He2 & Hv). cbn in Hn, He2, Hv. subst vis2'.
  assert (Hex : phi (if neg <=? pos then pos - neg else neg - pos) (if neg' <=? pos' then pos' - neg' else neg' - pos'))
    by (by apply phi_abs).
  destruct pred as [id|]; [|by repeat split].
  destruct (nthN_rel_cases _ _ _ id He2) as [(e & e' & -> & -> & Hee)|[-> ->]]; [|done]. cbn.
  split; [exact Hex|]. split; [|done]. cbn. apply alterN_rel; [done|].
  intros x y (Hs & _ & Hcy). split; [exact Hs|]. split; [exact Hex|exact Hcy].
Qed.

(* ---- push_arc / count_on_tree / stop ---- *)
Definition gres (x y : list gblock * list gedge) : Prop := Forall2 brel x.1 y.1 /\ Forall2 erel x.2 y.2.

Lemma edge_dst_rel edges edges' x : Forall2 erel edges edges' -> edge_dst edges x = edge_dst edges' x.
Proof.
  intros He. unfold edge_dst. destruct (nthN_rel_cases _ _ _ x He) as [(e & e' & -> & -> & Hee)|[-> ->]]; [|done].
  cbn. by rewrite (erel_dst _ _ Hee).
Qed.
Lemma push_arc_rel blocks blocks' edges edges' src dst flags :
  Forall2 brel blocks blocks' -> Forall2 erel edges edges' ->
  orel gres (push_arc blocks edges src dst flags) (push_arc blocks' edges' src dst flags).
Proof.
  intros Hb He. unfold push_arc. rewrite <- (lenN_rel _ _ _ He).
  destruct (nthN_rel_cases _ _ _ src Hb) as [(bs & bs' & -> & -> & Hbb)|[-> ->]]; [|done].
  assert (He' : Forall2 erel (edges ++ [mkEdge src dst flags 0 0]) (edges' ++ [mkEdge src dst flags 0 0])).
  { apply Forall2_app; [done|]. constructor; [|constructor]. repeat split; cbn; done. }
  rewrite <- (brel_dst _ _ Hbb).
  rewrite (bsearch_pos_ext _ (edge_dst (edges' ++ [mkEdge src dst flags 0 0])) _ _ (fun x => edge_dst_rel _ _ x He')).
  destruct (bsearch_pos _ (b_dst bs) dst) as [i| | |]; cbn; try done.
  destruct (insert_at i (lenN edges) (b_dst bs)) as [dl| | |]; cbn; try done.
  set (h1 := fun b : gblock => mkBlock (b_no b) (b_src b) dl (b_lines b) (b_line_max b) (b_counter b)).
  assert (Hb1 : Forall2 brel (alterN h1 src blocks) (alterN h1 src blocks')).
  { apply alterN_rel; [done|]. intros x y [Hs Hc]. split; [|done]. unfold bshape in *; cbn. congruence. }
  destruct (nthN_rel_cases _ _ _ dst Hb1) as [(bd & bd' & -> & -> & _)|[-> ->]]; [|done]. cbn.
  split; [|done]. cbn. apply alterN_rel; [done|]. intros x y [Hs Hc]. split; [|done]. unfold bshape in *; cbn. congruence.
Qed.

Lemma add_tree_counts_rel edges edges' blocks blocks' :
  Forall2 erel edges edges' -> Forall2 brel blocks blocks' ->
  orel (Forall2 brel) (add_tree_counts W edges blocks) (add_tree_counts W edges' blocks').
Proof.
  intros He Hb. unfold add_tree_counts. apply (orel_ofold2 erel (Forall2 brel)); [done|done|].
  intros bl bl' e e' Hbl Hee. rewrite <- (erel_tree _ _ Hee). destruct (is_on_tree e); [|done].
  rewrite <- (erel_src _ _ Hee). destruct (nthN_rel_cases _ _ _ (e_src e) Hbl) as [(x & y & -> & -> & _)|[-> ->]]; [|done]. cbn.
  apply alterN_rel; [done|]. intros b b' [Hs Hc]. split; [done|]. cbn. apply phi_add; [done|]. by destruct Hee as (_ & ? & _).
Qed.

Lemma count_on_tree_rel version f f' : frel f f' -> orel frel (count_on_tree W version f) (count_on_tree W version f').
Proof.
  intros (H1 & H2 & H3 & H4 & H5 & H6 & H7 & H8 & Hb & He). unfold count_on_tree.
  rewrite <- (lenN_rel _ _ _ Hb). destruct (_ <? 2); [by repeat split|].
  eapply orel_bind; [by apply push_arc_rel|]. intros [bl ed] [bl' ed'] [Hbl Hed]. cbn in Hbl, Hed.
  rewrite <- (Forall2_length _ _ _ Hbl).
  eapply (orel_bind (fun x y => Forall2 erel x.1 y.1 /\ x.2 = y.2)).
  { apply orel_ofold; [done|]. intros [e1 v1] [e1' v1'] b [He1 Hv] _. cbn in He1, Hv. subst v1'.
    eapply orel_bind; [by apply propagate_rel|]. intros [[c e2] v2] [[c' e2'] v2'] (_ & ? & ?). cbn in *. done. }
  intros [e1 v1] [e1' v1'] [He1 _]. cbn in He1.
  eapply orel_bind.
  { apply add_tree_counts_rel; [|done]. by apply Forall2_rev'. }
  intros bl2 bl2' Hbl2. cbn. repeat split; cbn; done.
Qed.

Lemma stop_rel g g' :
  g_version g = g_version g' -> Forall2 frel (g_funs g) (g_funs g') ->
  orel (fun x y => Forall2 frel (g_funs x) (g_funs y)) (stop W g) (stop W g').
Proof.
  intros Hv Hf. unfold stop. rewrite <- Hv. eapply (orel_bind (Forall2 frel)).
  { apply (orel_ofold2 frel (Forall2 frel)); [done|constructor|]. intros acc acc' f f' Hacc Hff.
    eapply orel_bind; [by apply count_on_tree_rel|]. intros x y ?. cbn. by constructor. }
  intros fs fs' Hfs. cbn. by apply Forall2_rev'.
Qed.
(* ---- circuits ---- *)
Definition cres (x y : N * list gedge) : Prop := phi x.1 y.1 /\ Forall2 erel x.2 y.2.

Lemma get_cycle_count_rel edges edges' e path :
  Forall2 erel edges edges' ->
  orel cres (get_cycle_count Wsub edges (e :: path)) (get_cycle_count Wsub edges' (e :: path)).
Proof.
  intros He. unfold get_cycle_count.
  eapply (orel_bind (fun c c' => exists x x', c = Some x /\ c' = Some x' /\ phi x x')).
  { cbn [ofold]. destruct (nthN_rel_cases _ _ _ e He) as [(ed & ed' & -> & -> & Hee)|[-> ->]]; [|done]. cbn [obind].
    apply orel_ofold; [destruct Hee as (_ & _ & ?); eauto|].
    intros c c' e0 (x & x' & -> & -> & Hx) _.
    destruct (nthN_rel_cases _ _ _ e0 He) as [(ed0 & ed0' & -> & -> & Hee0)|[-> ->]]; [|done]. cbn.
    eexists _, _. split; [done|]. split; [done|]. apply phi_min; [done|]. by destruct Hee0 as (_ & _ & ?). }
  intros c c' (x & x' & -> & -> & Hx). cbn [default].
  eapply (orel_bind (Forall2 erel)).
  { apply orel_ofold; [done|]. intros ed1 ed1' e0 He1 _.
    destruct (nthN_rel_cases _ _ _ e0 He1) as [(ed0 & ed0' & -> & -> & Hee0)|[-> ->]]; [|done]. cbn.
    apply alterN_rel; [done|]. intros a b (Hs & Hc & Hcy). split; [exact Hs|]. split; [exact Hc|]. cbn. by apply phi_sub. }
  intros ed1 ed1' He1. cbn. by split.
Qed.

Definition crel (st st' : cstate) : Prop :=
  Forall2 erel st.1.1.1 st'.1.1.1 /\ st.1.1.2 = st'.1.1.2 /\ st.1.2 = st'.1.2 /\ st.2 = st'.2.
Definition lres (x y : bool * N * cstate) : Prop := x.1.1 = y.1.1 /\ phi x.1.2 y.1.2 /\ crel x.2 y.2.

Lemma look_for_circuit_rel fuel blocks blocks' bs start v st st' :
  Forall2 brel blocks blocks' -> crel st st' ->
  orel lres (look_for_circuit W Wsub fuel blocks bs start v st) (look_for_circuit W Wsub fuel blocks' bs start v st').
Proof.
  intros Hb. revert v st st'. induction fuel as [|fuel IH]; intros v st st' Hst; [done|].
  cbn [look_for_circuit]. destruct st as [[[edges path] blocked] lists], st' as [[[edges' path'] blocked'] lists'].
  destruct Hst as (He & Hp & Hbl & Hl). cbn in He, Hp, Hbl, Hl. subst path' blocked' lists'.
  destruct (nthN_rel_cases _ _ _ v Hb) as [(blk & blk' & -> & -> & Hbb)|[-> ->]]; [|done]. cbv zeta.
  rewrite <- (brel_dst _ _ Hbb).
  eapply (orel_bind lres).
  { apply orel_ofold; [by repeat split|].
    intros [[found count] [[[ed pa] bl] ls]] [[found' count'] [[[ed' pa'] bl'] ls']] e (Hf & Hc & He1 & Hp1 & Hbl1 & Hl1) _.
    cbn in Hf, Hc, He1, Hp1, Hbl1, Hl1. subst found' pa' bl' ls'.
    destruct (nthN_rel_cases _ _ _ e He1) as [(edge & edge' & -> & -> & Hee)|[-> ->]]; [|done].
    rewrite <- (erel_dst _ _ Hee). destruct (_ && _); [|by repeat split].
    destruct (e_dst edge =? start).
    - eapply orel_bind; [by apply get_cycle_count_rel|]. intros [c e2] [c' e2'] [Hc2 He2]. cbn in Hc2, He2. cbn.
      split; [done|]. split; [by apply phi_add|]. by repeat split.
    - destruct (negb _); [|by repeat split].
      eapply orel_bind; [apply IH; by repeat split|].
      intros [[f c] [[[e2 p2] b2] l2]] [[f' c'] [[[e2' p2'] b2'] l2']] (Hf2 & Hc2 & He2 & Hp2 & Hb2 & Hl2).
      cbn in Hf2, Hc2, He2, Hp2, Hb2, Hl2. subst f' p2' b2' l2'. cbn.
      split; [done|]. split; [by apply phi_add|]. by repeat split. }
  intros [[found count] [[[ed pa] bl] ls]] [[found' count'] [[[ed' pa'] bl'] ls']] (Hf & Hc & He1 & Hp1 & Hbl1 & Hl1).
  cbn in Hf, Hc, He1, Hp1, Hbl1, Hl1. subst found' pa' bl' ls'.
  destruct found.
  - destruct (unblock _ v bl ls) as [[bl2 ls2]| | |]; cbn; first [done | by repeat split].
  - eapply (orel_bind eq).
    { apply orel_ofold; [done|]. intros l0 l0' e -> _.
      destruct (nthN_rel_cases _ _ _ e He1) as [(edge & edge' & -> & -> & Hee)|[-> ->]]; [|done].
      rewrite <- (erel_dst _ _ Hee). destruct (_ || _); [|done]. destruct (positionN _ bl 0); [|done].
      destruct (nthN l0' n); done. }
    intros l2 ? <-. cbn. by repeat split.
Qed.

Lemma get_cycles_count_rel fuel blocks blocks' edges edges' bs :
  Forall2 brel blocks blocks' -> Forall2 erel edges edges' ->
  orel cres (get_cycles_count W Wsub fuel blocks edges bs) (get_cycles_count W Wsub fuel blocks' edges' bs).
Proof.
  intros Hb He. unfold get_cycles_count. apply orel_ofold; [by split|].
  intros [count ed] [count' ed'] b [Hc He1] _. cbn in Hc, He1.
  eapply orel_bind; [apply look_for_circuit_rel; [done|by repeat split]|].
  intros [[f c] [[[e2 p2] b2] l2]] [[f' c'] [[[e2' p2'] b2'] l2']] (_ & Hc2 & He2 & _). cbn in Hc2, He2. cbn.
  split; [by apply phi_add|done].
Qed.

Lemma get_line_count_rel fuel blocks blocks' edges edges' bs :
  Forall2 brel blocks blocks' -> Forall2 erel edges edges' ->
  orel cres (get_line_count W Wsub fuel blocks edges bs) (get_line_count W Wsub fuel blocks' edges' bs).
Proof.
  intros Hb He. unfold get_line_count. eapply (orel_bind cres).
  { apply orel_ofold; [by split|]. intros [count ed] [count' ed'] b [Hc He1] _. cbn in Hc, He1.
    destruct (nthN_rel_cases _ _ _ b Hb) as [(blk & blk' & -> & -> & Hbb)|[-> ->]]; [|done].
    rewrite <- (brel_no _ _ Hbb), <- (brel_dst _ _ Hbb), <- (brel_src _ _ Hbb).
    eapply (orel_bind phi).
    { destruct (b_no blk =? 0); (apply orel_ofold; [done|]); intros acc acc' e Hacc _;
        (destruct (nthN_rel_cases _ _ _ e He1) as [(edge & edge' & -> & -> & Hee)|[-> ->]]; [|done]); cbn.
      - apply phi_add; [done|]. by destruct Hee as (_ & ? & _).
      - rewrite <- (erel_src _ _ Hee). destruct (memN _ bs); [done|]. apply phi_add; [done|]. by destruct Hee as (_ & ? & _). }
    intros c2 c2' Hc2. eapply (orel_bind (Forall2 erel)).
    { apply orel_ofold; [done|]. intros e2 e2' e He2 _.
      destruct (nthN_rel_cases _ _ _ e He2) as [(edge & edge' & -> & -> & Hee)|[-> ->]]; [|done]. cbn.
      apply alterN_rel; [done|]. intros a b0 (Hs & Hcc & Hcy). split; [exact Hs|]. split; [exact Hcc|exact Hcc]. }
    intros e2 e2' He2. cbn. by split. }
  intros [count ed1] [count' ed1'] [Hc He1]. cbn in Hc, He1.
  eapply orel_bind; [by apply get_cycles_count_rel|].
  intros [c ed2] [c' ed2'] [Hc2 He2]. cbn in Hc2, He2. cbn. split; [by apply phi_add|done].
Qed.

(* ---- add_line_count / finalize: additionally, phi preserves "> 0" ---- *)
Hypothesis phi_pos : forall a a', phi a a' -> (0 <? a) = (0 <? a').

Definition mrel (m m' : gmap N N) : Prop := forall k, option_Forall2 phi (m !! k) (m' !! k).
Lemma mrel_insert m m' k x x' : mrel m m' -> phi x x' -> mrel (<[k := x]> m) (<[k := x']> m').
Proof.
  intros Hm Hx j. destruct (decide (j = k)) as [->|]; [rewrite !lookup_insert; by constructor|].
  rewrite !lookup_insert_ne by done. apply Hm.
Qed.

Lemma lines_to_block_rel blocks blocks' : Forall2 brel blocks blocks' -> lines_to_block blocks = lines_to_block blocks'.
Proof.
  unfold lines_to_block. generalize (∅ : gmap N (list N)). intros m Hb. revert m.
  induction Hb as [|b b' bl bl' Hbb Hb IH]; intros m; cbn [foldl]; [done|].
  rewrite <- (brel_lines _ _ Hbb), <- (brel_no _ _ Hbb). apply IH.
Qed.
Lemma zero_lines_rel blocks blocks' m m' :
  Forall2 brel blocks blocks' -> mrel m m' ->
  mrel (foldl (fun m b => foldl (fun m line => match m !! line with Some _ => m | None => <[line := 0]> m end) m (b_lines b)) m blocks)
       (foldl (fun m b => foldl (fun m line => match m !! line with Some _ => m | None => <[line := 0]> m end) m (b_lines b)) m' blocks').
Proof.
  intros Hb. revert m m'. induction Hb as [|b b' bl bl' Hbb Hb IH]; intros m m' Hm; cbn [foldl]; [done|].
  apply IH. rewrite <- (brel_lines _ _ Hbb). clear IH. revert m m' Hm. generalize (b_lines b).
  induction l as [|x l IHl]; intros m m' Hm; cbn [foldl]; [done|]. apply IHl.
  pose proof (Hm x) as Hx. destruct Hx; [done|]. by apply mrel_insert.
Qed.

Lemma add_line_count_rel f f' :
  frel f f' ->
  orel (fun x y => x.1 = y.1 /\ mrel x.2 y.2) (add_line_count W Wsub f) (add_line_count W Wsub f').
Proof.
  intros (H1 & H2 & H3 & H4 & H5 & H6 & H7 & H8 & Hb & He). unfold add_line_count.
  assert (Hex : match f_edges f with [] => false | e :: _ => 0 <? e_counter e end =
                match f_edges f' with [] => false | e :: _ => 0 <? e_counter e end).
  { destruct He as [|e e' ? ? (_ & Hc & _) _]; [done|]. by apply phi_pos. }
  rewrite <- Hex. destruct (match f_edges f with [] => false | e :: _ => 0 <? e_counter e end).
  - rewrite <- (lines_to_block_rel _ _ Hb).
    assert (Hfu : circuit_fuel f = circuit_fuel f') by (unfold circuit_fuel; by rewrite (Forall2_length _ _ _ Hb)).
    rewrite <- Hfu.
    eapply (orel_bind (fun x y => Forall2 erel x.1 y.1 /\ mrel x.2 y.2)).
    { apply orel_ofold; [split; [done|]; intros k; cbn; rewrite !lookup_empty; constructor|].
      intros [ed acc] [ed' acc'] [line bs] [He1 Hacc] _. cbn in He1, Hacc.
      destruct bs as [|b [|b2 bs]].
      - eapply orel_bind; [by apply get_line_count_rel|]. intros [c e2] [c' e2'] [Hc He2]. cbn in *. split; [done|]. by apply mrel_insert.
      - destruct (nthN_rel_cases _ _ _ b Hb) as [(blk & blk' & -> & -> & Hbb)|[-> ->]]; [|done]. cbn.
        split; [done|]. apply mrel_insert; [done|]. by destruct Hbb.
      - eapply orel_bind; [by apply get_line_count_rel|]. intros [c e2] [c' e2'] [Hc He2]. cbn in *. split; [done|]. by apply mrel_insert. }
    intros [ed acc] [ed' acc'] [_ Hacc]. cbn in Hacc. cbn. by split.
  - cbn. split; [done|]. apply zero_lines_rel; [done|]. intros k. rewrite !lookup_empty. constructor.
Qed.

Lemma ofold_ext2 {A A' B} (R : A -> A' -> Prop) (f : B -> A -> outcome B) (f' : B -> A' -> outcome B) l l' b :
  Forall2 R l l' -> (forall b x x', R x x' -> f b x = f' b x') -> ofold f l b = ofold f' l' b.
Proof.
  intros Hl Hf. revert b. induction Hl as [|x x' l l' Hx Hl IH]; intros b; cbn [ofold]; [done|].
  rewrite (Hf b x x' Hx). destruct (f' b x'); cbn; [apply IH|done|done|done].
Qed.
Lemma ofold_ext {A B} (f f' : B -> A -> outcome B) l b :
  (forall b x, f b x = f' b x) -> ofold f l b = ofold f' l b.
Proof. intros Hf. apply (ofold_ext2 eq); [by apply Forall_Forall2_diag, Forall_true|]. intros ? ? ? <-. apply Hf. Qed.

Lemma branch_line_rel f f' blk blk' : frel f f' -> brel blk blk' -> branch_line f blk = branch_line f' blk'.
Proof.
  intros (_ & _ & _ & _ & _ & _ & _ & _ & Hb & He) Hbb. unfold branch_line.
  rewrite <- (brel_lines _ _ Hbb), <- (brel_line_max _ _ Hbb), <- (brel_src _ _ Hbb).
  destruct (b_lines blk); [|done]. apply ofold_ext. intros lm e.
  destruct (nthN_rel_cases _ _ _ e He) as [(ed & ed' & -> & -> & Hee)|[-> ->]]; [|done].
  rewrite <- (erel_src _ _ Hee).
  destruct (nthN_rel_cases _ _ _ (e_src ed) Hb) as [(s & s' & -> & -> & Hss)|[-> ->]]; [|done].
  by rewrite (brel_line_max _ _ Hss).
Qed.
Lemma branch_taken_rel f f' ex blk blk' : frel f f' -> brel blk blk' -> branch_taken f ex blk = branch_taken f' ex blk'.
Proof.
  intros (_ & _ & _ & _ & _ & _ & _ & _ & Hb & He) Hbb. unfold branch_taken.
  rewrite <- (brel_dst _ _ Hbb). f_equal. apply ofold_ext. intros acc no.
  destruct (nthN_rel_cases _ _ _ no He) as [(ed & ed' & -> & -> & Hee)|[-> ->]]; [|done].
  destruct Hee as (Hs & Hc & _). rewrite (is_fake_eshape _ _ Hs), (phi_pos _ _ Hc). done.
Qed.
Lemma fin_branches_rel f f' ex m : frel f f' -> fin_branches f ex m = fin_branches f' ex m.
Proof.
  intros Hff. unfold fin_branches.
  apply (ofold_ext2 brel); [by destruct Hff as (_ & _ & _ & _ & _ & _ & _ & _ & Hb & _)|].
  intros m0 blk blk' Hbb. rewrite (branch_line_rel _ _ _ _ Hff Hbb).
  destruct (branch_line f' blk') as [line| | |]; cbn; try done.
  destruct (line =? 0); [done|]. by rewrite (branch_taken_rel _ _ ex _ _ Hff Hbb).
Qed.

Definition covrel (c c' : cov) : Prop := mrel (c_lines c) (c_lines c') /\ c_funcs c = c_funcs c' /\ c_branches c = c_branches c'.
Definition resrel (r r' : gmap name cov) : Prop := forall k, option_Forall2 covrel (r !! k) (r' !! k).

Lemma fin_fun_rel br res res' f f' :
  resrel res res' -> frel f f' -> orel resrel (fin_fun W Wsub br res f) (fin_fun W Wsub br res' f').
Proof.
  intros Hres Hff. unfold fin_fun.
  eapply orel_bind; [by apply add_line_count_rel|]. intros [ex fl] [ex' fl'] [Hex Hfl]. cbn in Hex, Hfl. subst ex'.
  pose proof Hff as (_ & Hst & _ & _ & _ & Hfile & Hname & _). rewrite <- Hfile, <- Hname, <- Hst.
  assert (Hc : covrel (default empty_cov (res !! f_file f)) (default empty_cov (res' !! f_file f))).
  { destruct (Hres (f_file f)) as [c c' Hcc|]; cbn; [done|]. split; [|done]. intros k. cbn. rewrite !lookup_empty. constructor. }
  destruct Hc as (Hl & Hfu & Hbr). rewrite <- Hfu, <- Hbr.
  assert (Hb : (if br then fin_branches f ex (c_branches (default empty_cov (res !! f_file f)))
                else Ok (c_branches (default empty_cov (res !! f_file f)))) =
               (if br then fin_branches f' ex (c_branches (default empty_cov (res !! f_file f)))
                else Ok (c_branches (default empty_cov (res !! f_file f))))).
  { destruct br; [by apply fin_branches_rel|done]. }
  rewrite <- Hb. destruct (if br then _ else _) as [branches| | |]; cbn; try done.
  intros k. destruct (decide (k = f_file f)) as [->|]; [|rewrite !lookup_insert_ne by done; apply Hres].
  rewrite !lookup_insert. constructor. split; [|done]. cbn. intros line.
  destruct ex; rewrite !lookup_union_with, ?lookup_fmap.
  - destruct (Hl line) as [x x' Hx|], (Hfl line) as [y y' Hy|]; cbn; constructor; try done. by apply phi_add.
  - destruct (Hl line) as [x x' Hx|], (Hfl line) as [y y' Hy|]; cbn; constructor; done.
Qed.

Lemma finalize_rel br g g' :
  Forall2 frel (g_funs g) (g_funs g') -> orel resrel (finalize W Wsub br g) (finalize W Wsub br g').
Proof.
  intros Hf. unfold finalize. apply (orel_ofold2 frel resrel); [done| |].
  - intros k. rewrite !lookup_empty. constructor.
  - intros. by apply fin_fun_rel.
Qed.
End rel.
