(* Algebra of merge_results: lemmas for C01 (and reused by C02, C06, C12). *)
From Grcov Require Import Model.Merge.
From Coq Require Import ZifyBool ZifyN ZifyNat.

(** * Scalars *)
Lemma sat_add64_comm a b : sat_add64 a b = sat_add64 b a.
Proof. unfold sat_add64. lia. Qed.
Lemma sat_add64_assoc a b c : sat_add64 (sat_add64 a b) c = sat_add64 a (sat_add64 b c).
Proof. unfold sat_add64, U64_MAX. lia. Qed.
Lemma sat_add64_le_max a b : sat_add64 a b <= U64_MAX.
Proof. unfold sat_add64. lia. Qed.
Lemma sat_add64_mono_l a b : a <= U64_MAX -> a <= sat_add64 a b.
Proof. unfold sat_add64. lia. Qed.
Lemma sat_add64_mono_r a b : b <= U64_MAX -> b <= sat_add64 a b.
Proof. unfold sat_add64. lia. Qed.
Lemma sat_add64_unfold_min a b c :
  N.min (N.min (a + b) U64_MAX + c) U64_MAX = N.min (a + b + c) U64_MAX.
Proof. unfold U64_MAX. lia. Qed.

(** * Branch vectors *)
Lemma or_vec_nil_r v : or_vec v [] = v.
Proof. destruct v; reflexivity. Qed.
Lemma or_vec_nil_l t : or_vec [] t = t.
Proof. reflexivity. Qed.
Lemma or_vec_length v t : length (or_vec v t) = Nat.max (length v) (length t).
Proof.
  revert t; induction v as [|x v IH]; intros [|y t]; simpl; try lia.
  rewrite IH. lia.
Qed.
Lemma or_vec_comm v t : or_vec v t = or_vec t v.
Proof.
  revert t; induction v as [|x v IH]; intros [|y t]; simpl; try reflexivity.
  rewrite IH, orb_comm. reflexivity.
Qed.
Lemma or_vec_assoc u v t : or_vec (or_vec u v) t = or_vec u (or_vec v t).
Proof.
  revert v t; induction u as [|x u IH]; intros [|y v] [|z t]; simpl; try reflexivity.
  rewrite IH, orb_assoc. reflexivity.
Qed.
Definition opt_or (a b : option bool) : option bool :=
  match a, b with
  | Some x, Some y => Some (x || y)
  | Some x, None => Some x
  | None, b => b
  end.
Lemma or_vec_lookup v t (i : nat) : or_vec v t !! i = opt_or (v !! i) (t !! i).
Proof.
  revert t i; induction v as [|x v IH]; intros t i.
  - simpl. reflexivity.
  - destruct t as [|y t].
    + simpl. destruct ((x :: v) !! i); reflexivity.
    + destruct i as [|i]; simpl; [reflexivity|apply IH].
Qed.
Lemma or_vec_taken v t (i : nat) :
  or_vec v t !! i = Some true <-> v !! i = Some true \/ t !! i = Some true.
Proof.
  rewrite or_vec_lookup. destruct (v !! i) as [[]|], (t !! i) as [[]|]; simpl; intuition congruence.
Qed.
Lemma or_vec_nonempty_l v t : v <> [] -> or_vec v t <> [].
Proof. destruct v, t; simpl; congruence. Qed.

(** * Function entries *)
Lemma merge_func_assoc f g h : merge_func (merge_func f g) h = merge_func f (merge_func g h).
Proof. unfold merge_func; simpl. rewrite orb_assoc. reflexivity. Qed.

(** * Generic facts on [union_with] of a total combination *)
Section union_total.
  Context {K A : Type} `{Countable K} (f : A -> A -> A).
  Definition ow (x y : option A) : option A := union_with (fun a b => Some (f a b)) x y.
  Definition uw (m1 m2 : gmap K A) : gmap K A := union_with (fun a b => Some (f a b)) m1 m2.

  Lemma lookup_uw (m1 m2 : gmap K A) (k : K) : uw m1 m2 !! k = ow (m1 !! k) (m2 !! k).
  Proof. apply lookup_union_with. Qed.
  Lemma ow_assoc x y z : (forall a b c, f (f a b) c = f a (f b c)) -> ow (ow x y) z = ow x (ow y z).
  Proof. intros Hf. destruct x, y, z; simpl; try reflexivity. unfold ow; simpl. rewrite Hf. reflexivity. Qed.
  Lemma ow_comm x y : (forall a b, f a b = f b a) -> ow x y = ow y x.
  Proof. intros Hf. destruct x, y; simpl; try reflexivity. unfold ow; simpl. rewrite Hf. reflexivity. Qed.
  Lemma ow_none_l x : ow None x = x.
  Proof. destruct x; reflexivity. Qed.
  Lemma ow_none_r x : ow x None = x.
  Proof. destruct x; reflexivity. Qed.
  Lemma uw_assoc (m1 m2 m3 : gmap K A) : (forall a b c, f (f a b) c = f a (f b c)) -> uw (uw m1 m2) m3 = uw m1 (uw m2 m3).
  Proof. intros Hf. apply map_eq; intros k. rewrite !lookup_uw. apply ow_assoc, Hf. Qed.
  Lemma uw_comm (m1 m2 : gmap K A) : (forall a b, f a b = f b a) -> uw m1 m2 = uw m2 m1.
  Proof. intros Hf. apply map_eq; intros k. rewrite !lookup_uw. apply ow_comm, Hf. Qed.
  Lemma uw_empty_l (m : gmap K A) : uw ∅ m = m.
  Proof. apply map_eq; intros k. rewrite lookup_uw, lookup_empty. apply ow_none_l. Qed.
  Lemma uw_empty_r (m : gmap K A) : uw m ∅ = m.
  Proof. apply map_eq; intros k. rewrite lookup_uw, lookup_empty. apply ow_none_r. Qed.

  (* the entry-API loop computes the same map *)
  Lemma entry_upd_lookup (m : gmap K A) (k : K) y (k' : K) :
    entry_upd f m k y !! k' = if decide (k = k') then ow (m !! k) (Some y) else m !! k'.
  Proof.
    unfold entry_upd. destruct (m !! k) as [x|] eqn:E; destruct (decide (k = k')) as [->|Hne];
      rewrite ?lookup_insert, ?lookup_insert_ne by assumption; reflexivity.
  Qed.
  Lemma entry_loop_lookup (l : list (K * A)) (m : gmap K A) (k : K) :
    NoDup l.*1 ->
    foldr (fun '(k, y) m => entry_upd f m k y) m l !! k = ow (m !! k) (list_to_map (M:=gmap K A) l !! k).
  Proof.
    induction l as [|[k' y] l IH]; intros Hnd.
    - simpl. rewrite lookup_empty, ow_none_r. reflexivity.
    - inversion Hnd as [|? ? Hnotin Hnd']; subst. simpl.
      rewrite entry_upd_lookup. destruct (decide (k' = k)) as [->|Hne].
      + rewrite lookup_insert. rewrite IH by assumption.
        assert (list_to_map (M:=gmap K A) l !! k = None) as -> by (apply not_elem_of_list_to_map_1; assumption).
        rewrite ow_none_r. reflexivity.
      + rewrite lookup_insert_ne by assumption. apply IH; assumption.
  Qed.
  Lemma entry_loop_uw (m1 m2 : gmap K A) :
    foldr (fun '(k, y) m => entry_upd f m k y) m1 (map_to_list m2) = uw m1 m2.
  Proof.
    apply map_eq; intros k. rewrite entry_loop_lookup by apply NoDup_fst_map_to_list.
    rewrite list_to_map_to_list, lookup_uw. reflexivity.
  Qed.
End union_total.

(** * merge: loop form = algebraic form *)
Lemma merge_loop_eq a b : merge_loop a b = merge a b.
Proof.
  unfold merge_loop, merge. f_equal; apply entry_loop_uw.
Qed.

Lemma cov_eq a b : c_lines a = c_lines b -> c_branches a = c_branches b -> c_funcs a = c_funcs b -> a = b.
Proof. destruct a, b; simpl; intros -> -> ->; reflexivity. Qed.

Lemma merge_assoc a b c : merge (merge a b) c = merge a (merge b c).
Proof.
  apply cov_eq; simpl.
  - apply (uw_assoc sat_add64), sat_add64_assoc.
  - apply (uw_assoc or_vec), or_vec_assoc.
  - apply (uw_assoc merge_func), merge_func_assoc.
Qed.
Lemma merge_empty_l a : merge empty_cov a = a.
Proof. apply cov_eq; simpl; apply uw_empty_l. Qed.
Lemma merge_empty_r a : merge a empty_cov = a.
Proof. apply cov_eq; simpl; apply uw_empty_r. Qed.

(** * The observable aggregate and its own (commutative) combination *)
Definition omerge (a b : ocov) : ocov :=
  mkOcov (uw sat_add64 (o_lines a) (o_lines b))
         (uw or_vec (o_branches a) (o_branches b))
         (uw orb (o_exec a) (o_exec b)).
Definition oempty : ocov := mkOcov ∅ ∅ ∅.

Lemma ocov_eq a b : o_lines a = o_lines b -> o_branches a = o_branches b -> o_exec a = o_exec b -> a = b.
Proof. destruct a, b; simpl; intros -> -> ->; reflexivity. Qed.

Lemma obs_merge a b : obs (merge a b) = omerge (obs a) (obs b).
Proof.
  apply ocov_eq; simpl; try reflexivity.
  apply map_eq; intros k. rewrite lookup_fmap. unfold uw. rewrite !lookup_union_with, !lookup_fmap.
  destruct (c_funcs a !! k), (c_funcs b !! k); reflexivity.
Qed.
Lemma obs_empty : obs empty_cov = oempty.
Proof. apply ocov_eq; simpl; try reflexivity. apply fmap_empty. Qed.

Lemma omerge_comm a b : omerge a b = omerge b a.
Proof.
  apply ocov_eq; simpl.
  - apply uw_comm, sat_add64_comm.
  - apply uw_comm, or_vec_comm.
  - apply uw_comm, orb_comm.
Qed.
Lemma omerge_assoc a b c : omerge (omerge a b) c = omerge a (omerge b c).
Proof.
  apply ocov_eq; simpl.
  - apply uw_assoc, sat_add64_assoc.
  - apply uw_assoc, or_vec_assoc.
  - apply uw_assoc. intros; symmetry; apply orb_assoc.
Qed.
Lemma omerge_empty_l a : omerge oempty a = a.
Proof. apply ocov_eq; simpl; apply uw_empty_l. Qed.
Lemma omerge_empty_r a : omerge a oempty = a.
Proof. apply ocov_eq; simpl; apply uw_empty_r. Qed.

Lemma merge_comm_obs a b : obs (merge a b) = obs (merge b a).
Proof. rewrite !obs_merge. apply omerge_comm. Qed.

(** * Folds of a commutative monoid are order- and grouping-independent *)
Section cmonoid.
  Context {A : Type} (op : A -> A -> A) (e : A).
  Context (op_comm : forall a b, op a b = op b a).
  Context (op_assoc : forall a b c, op (op a b) c = op a (op b c)).
  Context (op_e_l : forall a, op e a = a).

  Lemma foldl_op_acc a l : foldl op a l = op a (foldl op e l).
  Proof.
    revert a; induction l as [|x l IH]; intros a; simpl.
    - rewrite (op_comm a e), op_e_l. reflexivity.
    - rewrite IH, (IH (op e x)), op_e_l, op_assoc. reflexivity.
  Qed.
  Lemma foldl_op_perm l l' : l ≡ₚ l' -> foldl op e l = foldl op e l'.
  Proof.
    induction 1 as [|x l l' _ IH|x y l|l1 l2 l3 _ IH1 _ IH2]; simpl.
    - reflexivity.
    - rewrite foldl_op_acc, IH, <- foldl_op_acc. reflexivity.
    - rewrite !op_e_l. rewrite (op_comm y x). reflexivity.
    - congruence.
  Qed.
  Lemma foldl_op_app l1 l2 : foldl op e (l1 ++ l2) = op (foldl op e l1) (foldl op e l2).
  Proof. rewrite foldl_app, foldl_op_acc. reflexivity. Qed.
End cmonoid.

Definition oagg (os : list ocov) : ocov := foldl omerge oempty os.

Lemma obs_foldl_merge a rs : obs (foldl merge a rs) = foldl omerge (obs a) (map obs rs).
Proof.
  revert a; induction rs as [|r rs IH]; intros a; simpl; [reflexivity|].
  rewrite IH, obs_merge. reflexivity.
Qed.
Lemma obs_agg rs : obs (agg rs) = oagg (map obs rs).
Proof. unfold agg, oagg. rewrite obs_foldl_merge, obs_empty. reflexivity. Qed.

Lemma agg_perm_obs rs rs' : rs ≡ₚ rs' -> obs (agg rs) = obs (agg rs').
Proof.
  intros Hp. rewrite !obs_agg. apply (foldl_op_perm omerge oempty omerge_comm omerge_assoc omerge_empty_l).
  apply Permutation_map, Hp.
Qed.

Lemma obs_eval_tree t : obs (eval_tree t) = oagg (map obs (leaves t)).
Proof.
  induction t as [a|l IHl r IHr]; simpl.
  - unfold oagg; simpl. rewrite omerge_empty_l. reflexivity.
  - rewrite obs_merge, IHl, IHr, map_app. unfold oagg.
    rewrite (foldl_op_app omerge oempty omerge_comm omerge_assoc omerge_empty_l). reflexivity.
Qed.
Lemma agg_tree_obs t rs : leaves t ≡ₚ rs -> obs (eval_tree t) = obs (agg rs).
Proof.
  intros Hp. rewrite obs_eval_tree, obs_agg.
  apply (foldl_op_perm omerge oempty omerge_comm omerge_assoc omerge_empty_l), Permutation_map, Hp.
Qed.

(* grouping with full equality (start lines included): the left-biased start is associative *)
Lemma foldl_merge_acc a l : foldl merge a l = merge a (agg l).
Proof.
  revert a; induction l as [|x l IH]; intros a; simpl.
  - unfold agg; simpl. rewrite merge_empty_r. reflexivity.
  - rewrite IH. unfold agg; simpl. rewrite merge_empty_l, (IH x), merge_assoc. reflexivity.
Qed.
Lemma agg_app l1 l2 : agg (l1 ++ l2) = merge (agg l1) (agg l2).
Proof. unfold agg at 1. rewrite foldl_app, foldl_merge_acc. reflexivity. Qed.
Lemma eval_tree_agg t : eval_tree t = agg (leaves t).
Proof.
  induction t as [a|l IHl r IHr]; simpl.
  - unfold agg; simpl. rewrite merge_empty_l. reflexivity.
  - rewrite IHl, IHr, agg_app. reflexivity.
Qed.

(** * Pointwise reading of an aggregate: each key is a fold of the option combination *)
Section pointwise.
  Context {K A : Type} `{Countable K} (f : A -> A -> A).
  Lemma foldl_uw_lookup (m : gmap K A) (ms : list (gmap K A)) k :
    foldl (uw f) m ms !! k = foldl (ow f) (m !! k) (map (fun m' => m' !! k) ms).
  Proof.
    revert m; induction ms as [|m' ms IH]; intros m; simpl; [reflexivity|].
    rewrite IH, lookup_uw. reflexivity.
  Qed.
End pointwise.

Lemma agg_lines_fold rs n :
  c_lines (agg rs) !! n = foldl (ow sat_add64) None (map (fun r => c_lines r !! n) rs).
Proof.
  unfold agg. change None with (c_lines empty_cov !! n).
  generalize empty_cov as a. induction rs as [|r rs IH]; intros a; simpl; [reflexivity|].
  rewrite IH. simpl. rewrite lookup_union_with. reflexivity.
Qed.
Lemma agg_branches_fold rs n :
  c_branches (agg rs) !! n = foldl (ow or_vec) None (map (fun r => c_branches r !! n) rs).
Proof.
  unfold agg. change None with (c_branches empty_cov !! n).
  generalize empty_cov as a. induction rs as [|r rs IH]; intros a; simpl; [reflexivity|].
  rewrite IH. simpl. rewrite lookup_union_with. reflexivity.
Qed.
Lemma agg_funcs_fold rs n :
  c_funcs (agg rs) !! n = foldl (ow merge_func) None (map (fun r => c_funcs r !! n) rs).
Proof.
  unfold agg. change None with (c_funcs empty_cov !! n).
  generalize empty_cov as a. induction rs as [|r rs IH]; intros a; simpl; [reflexivity|].
  rewrite IH. simpl. rewrite lookup_union_with. reflexivity.
Qed.

(** ** Lines: clamped sum over unbounded naturals *)
Lemma foldl_osat_some x l :
  foldl (ow sat_add64) (Some (N.min x U64_MAX)) l = Some (N.min (x + default 0 (osum l)) U64_MAX).
Proof.
  revert x; induction l as [|[y|] l IH]; intros x; simpl.
  - f_equal. lia.
  - change (ow sat_add64 (Some (N.min x U64_MAX)) (Some y)) with (Some (sat_add64 (N.min x U64_MAX) y)).
    replace (sat_add64 (N.min x U64_MAX) y) with (N.min (x + y) U64_MAX) by (unfold sat_add64, U64_MAX; lia).
    rewrite IH. f_equal. lia.
  - apply IH.
Qed.
Lemma foldl_osat_none l :
  Forall (fun o => forall x, o = Some x -> x <= U64_MAX) l ->
  foldl (ow sat_add64) None l = (fun s => N.min s U64_MAX) <$> osum l.
Proof.
  induction 1 as [|[y|] l Hy _ IH]; simpl; [reflexivity| |exact IH].
  replace y with (N.min y U64_MAX) at 1 by (specialize (Hy y eq_refl); lia).
  rewrite foldl_osat_some. reflexivity.
Qed.
Definition lines_bounded (r : cov) : Prop := forall n x, c_lines r !! n = Some x -> x <= U64_MAX.
Lemma agg_lines_sum rs n :
  Forall lines_bounded rs ->
  c_lines (agg rs) !! n = (fun s => N.min s U64_MAX) <$> osum (map (fun r => c_lines r !! n) rs).
Proof.
  intros Hb. rewrite agg_lines_fold. apply foldl_osat_none.
  apply Forall_map. eapply Forall_impl; [exact Hb|]. intros r Hr x Hx. eapply Hr, Hx.
Qed.
Lemma osum_is_some l : is_Some (osum l) <-> Exists is_Some l.
Proof.
  induction l as [|[y|] l IH]; simpl.
  - split; [intros [? ?]; discriminate | inversion 1].
  - split; [intros _; left; eauto | eauto].
  - rewrite IH. split; [intros; right; assumption | inversion 1 as [? ? [? ?]|]; [discriminate|assumption]].
Qed.

(** ** Branches *)
Lemma foldl_orvec_acc (o : option (list bool)) l (i : nat) :
  (foldl (ow or_vec) o l ≫= (.!! i)) = Some true <->
  (o ≫= (.!! i)) = Some true \/ Exists (fun o' => (o' ≫= (.!! i)) = Some true) l.
Proof.
  revert o; induction l as [|o' l IH]; intros o; simpl.
  - rewrite Exists_nil. tauto.
  - rewrite IH, Exists_cons.
    assert ((ow or_vec o o' ≫= (.!! i)) = Some true <-> (o ≫= (.!! i)) = Some true \/ (o' ≫= (.!! i)) = Some true) as ->; [|tauto].
    destruct o as [v|], o' as [t|]; simpl; try tauto.
    + apply or_vec_taken.
    + split; [tauto|intros [?|?]; [assumption|discriminate]].
    + split; [tauto|intros [?|?]; [discriminate|assumption]].
Qed.
Lemma agg_branch_taken rs n (i : nat) :
  (c_branches (agg rs) !! n ≫= (.!! i)) = Some true <->
  exists r, r ∈ rs /\ (c_branches r !! n ≫= (.!! i)) = Some true.
Proof.
  rewrite agg_branches_fold, foldl_orvec_acc. simpl.
  rewrite Exists_exists. split.
  - intros [?|(o & Hin & Ho)]; [discriminate|].
    apply elem_of_list_fmap in Hin as (r & -> & Hr). eauto.
  - intros (r & Hr & Ht). right. exists (c_branches r !! n). split; [|assumption].
    apply elem_of_list_fmap. eauto.
Qed.
Definition olen (o : option (list bool)) : nat := from_option length 0%nat o.
Lemma foldl_orvec_len o l :
  olen (foldl (ow or_vec) o l) = foldr Nat.max (olen o) (map olen l).
Proof.
  revert o; induction l as [|o' l IH]; intros o; simpl; [reflexivity|].
  rewrite IH.
  assert (olen (ow or_vec o o') = Nat.max (olen o) (olen o')) as ->.
  { destruct o, o'; simpl; rewrite ?or_vec_length; lia. }
  generalize (olen o) (olen o'). clear. intros a b. induction (map olen l); simpl; lia.
Qed.
Lemma agg_branch_len rs n :
  olen (c_branches (agg rs) !! n) = foldr Nat.max 0%nat (map (fun r => olen (c_branches r !! n)) rs).
Proof. rewrite agg_branches_fold, foldl_orvec_len, map_map. reflexivity. Qed.
Lemma foldl_ow_is_some {A} (f : A -> A -> A) o l :
  is_Some (foldl (ow f) o l) <-> is_Some o \/ Exists is_Some l.
Proof.
  revert o; induction l as [|o' l IH]; intros o; simpl.
  - rewrite Exists_nil. tauto.
  - rewrite IH, Exists_cons.
    assert (is_Some (ow f o o') <-> is_Some o \/ is_Some o') as ->; [|tauto].
    destruct o, o'; simpl; split; eauto; intros [[? ?]|[? ?]]; discriminate.
Qed.
Lemma agg_branch_dom rs n :
  is_Some (c_branches (agg rs) !! n) <-> exists r, r ∈ rs /\ is_Some (c_branches r !! n).
Proof.
  rewrite agg_branches_fold, foldl_ow_is_some, Exists_exists. split.
  - intros [[? ?]|(o & Hin & Ho)]; [discriminate|].
    apply elem_of_list_fmap in Hin as (r & -> & Hr). eauto.
  - intros (r & Hr & Ht). right. exists (c_branches r !! n). split; [|assumption].
    apply elem_of_list_fmap. eauto.
Qed.
Lemma agg_lines_dom rs n :
  is_Some (c_lines (agg rs) !! n) <-> exists r, r ∈ rs /\ is_Some (c_lines r !! n).
Proof.
  rewrite agg_lines_fold, foldl_ow_is_some, Exists_exists. split.
  - intros [[? ?]|(o & Hin & Ho)]; [discriminate|].
    apply elem_of_list_fmap in Hin as (r & -> & Hr). eauto.
  - intros (r & Hr & Ht). right. exists (c_lines r !! n). split; [|assumption].
    apply elem_of_list_fmap. eauto.
Qed.

(** ** Functions *)
Lemma agg_fun_dom rs f :
  is_Some (c_funcs (agg rs) !! f) <-> exists r, r ∈ rs /\ is_Some (c_funcs r !! f).
Proof.
  rewrite agg_funcs_fold, foldl_ow_is_some, Exists_exists. split.
  - intros [[? ?]|(o & Hin & Ho)]; [discriminate|].
    apply elem_of_list_fmap in Hin as (r & -> & Hr). eauto.
  - intros (r & Hr & Ht). right. exists (c_funcs r !! f). split; [|assumption].
    apply elem_of_list_fmap. eauto.
Qed.
Lemma foldl_mf_exec o l :
  (f_exec <$> foldl (ow merge_func) o l) = Some true <->
  (f_exec <$> o) = Some true \/ Exists (fun o' => (f_exec <$> o') = Some true) l.
Proof.
  revert o; induction l as [|o' l IH]; intros o; simpl.
  - rewrite Exists_nil. tauto.
  - rewrite IH, Exists_cons.
    assert ((f_exec <$> ow merge_func o o') = Some true <-> (f_exec <$> o) = Some true \/ (f_exec <$> o') = Some true) as ->; [|tauto].
    destruct o as [[s1 []]|], o' as [[s2 []]|]; simpl; intuition congruence.
Qed.
Lemma agg_fun_exec rs f :
  (f_exec <$> c_funcs (agg rs) !! f) = Some true <->
  exists r, r ∈ rs /\ (f_exec <$> c_funcs r !! f) = Some true.
Proof.
  rewrite agg_funcs_fold, foldl_mf_exec, Exists_exists. simpl. split.
  - intros [?|(o & Hin & Ho)]; [discriminate|].
    apply elem_of_list_fmap in Hin as (r & -> & Hr). eauto.
  - intros (r & Hr & Ht). right. exists (c_funcs r !! f). split; [|assumption].
    apply elem_of_list_fmap. eauto.
Qed.
Lemma foldl_mf_start o l g :
  foldl (ow merge_func) o l = Some g ->
  (exists h, o = Some h /\ f_start h = f_start g) \/
  (o = None /\ exists h, Some h ∈ l /\ f_start h = f_start g).
Proof.
  revert o; induction l as [|o' l IH]; intros o; simpl.
  - intros ->. left. eauto.
  - intros Hg. apply IH in Hg as [(h & Hh & Hs)|(Hn & h & Hin & Hs)].
    + destruct o as [a|], o' as [b|]; simpl in Hh; inversion Hh; subst; simpl in *.
      * left. eauto.
      * left. eauto.
      * right. split; [reflexivity|]. exists h. split; [left|assumption].
    + destruct o, o'; simpl in Hn; try discriminate.
      right. split; [reflexivity|]. exists h. split; [right; assumption|assumption].
Qed.
Lemma agg_fun_start_in rs f g :
  c_funcs (agg rs) !! f = Some g ->
  exists r h, r ∈ rs /\ c_funcs r !! f = Some h /\ f_start h = f_start g.
Proof.
  rewrite agg_funcs_fold. intros Hg. apply foldl_mf_start in Hg as [(h & Hh & _)|(_ & h & Hin & Hs)]; [discriminate|].
  apply elem_of_list_fmap in Hin as (r & Hr & Hin). exists r, h. auto.
Qed.
Lemma agg_fun_start_common rs f g s :
  c_funcs (agg rs) !! f = Some g ->
  (forall r h, r ∈ rs -> c_funcs r !! f = Some h -> f_start h = s) ->
  f_start g = s.
Proof.
  intros Hg Hall. apply agg_fun_start_in in Hg as (r & h & Hr & Hh & <-). eapply Hall; eassumption.
Qed.

(** * Monotonicity of one combination step *)
Lemma merge_mono_lines_l a b n c :
  c_lines a !! n = Some c -> c <= U64_MAX ->
  exists c', c_lines (merge a b) !! n = Some c' /\ c <= c'.
Proof.
  intros Hc Hb. simpl. rewrite lookup_union_with, Hc. destruct (c_lines b !! n) as [d|]; simpl.
  - eexists; split; [reflexivity|]. apply sat_add64_mono_l, Hb.
  - eexists; split; [reflexivity|]. lia.
Qed.
Lemma merge_mono_lines_r a b n c :
  c_lines b !! n = Some c -> c <= U64_MAX ->
  exists c', c_lines (merge a b) !! n = Some c' /\ c <= c'.
Proof.
  intros Hc Hb. simpl. rewrite lookup_union_with, Hc. destruct (c_lines a !! n) as [d|]; simpl.
  - eexists; split; [reflexivity|]. apply sat_add64_mono_r, Hb.
  - eexists; split; [reflexivity|]. lia.
Qed.
Lemma merge_mono_branch_l a b n v :
  c_branches a !! n = Some v ->
  exists v', c_branches (merge a b) !! n = Some v' /\ (length v <= length v')%nat /\
             forall i : nat, v !! i = Some true -> v' !! i = Some true.
Proof.
  intros Hv. simpl. rewrite lookup_union_with, Hv. destruct (c_branches b !! n) as [t|]; simpl.
  - eexists; split; [reflexivity|]. split; [rewrite or_vec_length; lia|].
    intros i Hi. apply or_vec_taken. auto.
  - eexists; split; [reflexivity|]. auto.
Qed.
Lemma merge_mono_branch_r a b n v :
  c_branches b !! n = Some v ->
  exists v', c_branches (merge a b) !! n = Some v' /\ (length v <= length v')%nat /\
             forall i : nat, v !! i = Some true -> v' !! i = Some true.
Proof.
  intros Hv. simpl. rewrite lookup_union_with, Hv. destruct (c_branches a !! n) as [t|]; simpl.
  - eexists; split; [reflexivity|]. split; [rewrite or_vec_length; lia|].
    intros i Hi. apply or_vec_taken. auto.
  - eexists; split; [reflexivity|]. auto.
Qed.
Lemma merge_mono_fun_l a b f g :
  c_funcs a !! f = Some g ->
  exists g', c_funcs (merge a b) !! f = Some g' /\ f_start g' = f_start g /\ (f_exec g = true -> f_exec g' = true).
Proof.
  intros Hg. simpl. rewrite lookup_union_with, Hg. destruct (c_funcs b !! f) as [h|]; simpl.
  - eexists; split; [reflexivity|]. simpl. split; [reflexivity|]. intros ->. reflexivity.
  - eexists; split; [reflexivity|]. auto.
Qed.
Lemma merge_mono_fun_r a b f g :
  c_funcs b !! f = Some g ->
  exists g', c_funcs (merge a b) !! f = Some g' /\ (f_exec g = true -> f_exec g' = true).
Proof.
  intros Hg. simpl. rewrite lookup_union_with, Hg. destruct (c_funcs a !! f) as [h|]; simpl.
  - eexists; split; [reflexivity|]. simpl. intros ->. apply orb_true_r.
  - eexists; split; [reflexivity|]. auto.
Qed.

(** * File level: add_results *)
Lemma add_result_lookup_ne m r p : r.1 <> p -> add_result m r !! p = m !! p.
Proof.
  intros Hne. unfold add_result. destruct (m !! r.1); rewrite lookup_insert_ne by assumption; reflexivity.
Qed.
Lemma add_result_lookup_eq m r : add_result m r !! r.1 = Some (from_option (fun a => merge a r.2) r.2 (m !! r.1)).
Proof. unfold add_result. destruct (m !! r.1); rewrite lookup_insert; reflexivity. Qed.
Lemma add_results_absent m rs p : p ∉ rs.*1 -> add_results m rs !! p = m !! p.
Proof.
  revert m; induction rs as [|r rs IH]; intros m Hnotin; simpl; [reflexivity|].
  simpl in Hnotin. apply not_elem_of_cons in Hnotin as [Hne Hnotin].
  unfold add_results in *. rewrite IH by assumption. apply add_result_lookup_ne. congruence.
Qed.

(* observable file map and its combination step *)
Definition oadd_result (m : gmap name ocov) (r : name * ocov) : gmap name ocov :=
  match m !! r.1 with
  | Some a => <[r.1 := omerge a r.2]> m
  | None => <[r.1 := r.2]> m
  end.
Lemma obs_add_result m r : obs_map (add_result m r) = oadd_result (obs_map m) (r.1, obs r.2).
Proof.
  unfold obs_map, add_result, oadd_result; simpl. rewrite lookup_fmap.
  destruct (m !! r.1); simpl; rewrite fmap_insert, ?obs_merge; reflexivity.
Qed.
Lemma oadd_result_lookup m r p :
  oadd_result m r !! p = if decide (r.1 = p) then Some (from_option (fun a => omerge a r.2) r.2 (m !! r.1)) else m !! p.
Proof.
  unfold oadd_result. destruct (decide (r.1 = p)) as [<-|Hne]; destruct (m !! r.1);
    rewrite ?lookup_insert, ?lookup_insert_ne by assumption; reflexivity.
Qed.
Lemma oadd_result_comm m r1 r2 : oadd_result (oadd_result m r1) r2 = oadd_result (oadd_result m r2) r1.
Proof.
  apply map_eq; intros p. rewrite !oadd_result_lookup.
  destruct (decide (r2.1 = p)) as [E2|N2], (decide (r1.1 = p)) as [E1|N1];
    rewrite ?decide_True, ?decide_False by congruence; try reflexivity.
  rewrite E1, E2. destruct (m !! p); simpl; f_equal.
  - rewrite !omerge_assoc. f_equal. apply omerge_comm.
  - apply omerge_comm.
Qed.
Lemma foldl_comm_perm {A B} (f : B -> A -> B) :
  (forall b x y, f (f b x) y = f (f b y) x) ->
  forall l l', l ≡ₚ l' -> forall b, foldl f b l = foldl f b l'.
Proof.
  intros Hf l l'. induction 1 as [|x l l' _ IH|x y l|l1 l2 l3 _ IH1 _ IH2]; intros b; simpl.
  - reflexivity.
  - apply IH.
  - rewrite Hf. reflexivity.
  - rewrite IH1. apply IH2.
Qed.
Lemma obs_add_results m rs :
  obs_map (add_results m rs) = foldl oadd_result (obs_map m) (map (fun r => (r.1, obs r.2)) rs).
Proof.
  revert m; induction rs as [|r rs IH]; intros m; simpl; [reflexivity|].
  unfold add_results in *. rewrite IH, obs_add_result. reflexivity.
Qed.
Lemma add_results_perm_obs m rs rs' :
  rs ≡ₚ rs' -> obs_map (add_results m rs) = obs_map (add_results m rs').
Proof.
  intros Hp. rewrite !obs_add_results. apply (foldl_comm_perm oadd_result oadd_result_comm).
  apply Permutation_map, Hp.
Qed.
(* per-file reading: the record of a file is the aggregate of the records given for it *)
Lemma add_results_lookup m rs p :
  add_results m rs !! p =
  foldl (fun o c => Some (from_option (fun a => merge a c) c o)) (m !! p)
        (map snd (filter (fun r => r.1 = p) rs)).
Proof.
  revert m; induction rs as [|r rs IH]; intros m; simpl; [reflexivity|].
  unfold add_results in *. rewrite IH. rewrite filter_cons.
  destruct (decide (r.1 = p)) as [<-|Hne]; simpl.
  - rewrite add_result_lookup_eq. reflexivity.
  - rewrite add_result_lookup_ne by assumption. reflexivity.
Qed.
Lemma add_results_empty_lookup rs p :
  add_results ∅ rs !! p =
  match map snd (filter (fun r => r.1 = p) rs) with
  | [] => None
  | cs => Some (agg cs)
  end.
Proof.
  rewrite add_results_lookup, lookup_empty.
  destruct (map snd (filter (fun r => r.1 = p) rs)) as [|c cs]; [reflexivity|].
  simpl. unfold agg; simpl. rewrite merge_empty_l.
  generalize c. induction cs as [|d cs IH]; intros a; simpl; [reflexivity|]. apply IH.
Qed.
