(* C08 flow_recovery: on a graph whose ON_TREE arcs form a rooted forest (witness: parent arc / parent block, rank,
   root of every block) propagate_counts, started at every block in index order, writes on every ON_TREE arc the
   value of any assignment c that agrees with the measured arcs and is conserving at every block. *)
From Grcov Require Import Model.GcnoCount Model.GcnoFlow Proofs.GcnoBase Proofs.GcnoShape.
From Coq Require Import ZifyBool ZifyN ZifyNat.

Lemma sumc_app c l k : sumc c (l ++ k) = sumc c l + sumc c k.
Proof. induction l as [|x l IH]; cbn; [done|]. rewrite IH. lia. Qed.
Lemma sumc_ex_le c ex l : sumc_ex c ex l <= sumc c l.
Proof. induction l as [|x l IH]; cbn; [lia|]. destruct (match ex with Some p => p =? x | None => false end); lia. Qed.
Lemma sumc_ex_none c l : sumc_ex c None l = sumc c l.
Proof. induction l as [|x l IH]; cbn; [done|]. by rewrite IH. Qed.
Lemma sumc_ex_count0 c a l : countN a l = O -> sumc_ex c (Some a) l = sumc c l.
Proof.
  induction l as [|x l IH]; cbn; [done|]. rewrite (N.eqb_sym a x). destruct (x =? a); [done|]. intros H. by rewrite IH.
Qed.
Lemma sumc_ex_count1 c a l : countN a l = 1%nat -> sumc_ex c (Some a) l + c a = sumc c l.
Proof.
  induction l as [|x l IH]; cbn; [done|]. rewrite (N.eqb_sym a x). destruct (N.eqb_spec x a) as [->|].
  - intros [= H]. rewrite (sumc_ex_count0 _ _ _ H). lia.
  - intros H. specialize (IH H). lia.
Qed.

Section forest.
Context (blocks : list gblock) (edges0 : list gedge).
Context (par : N -> option (N * N)) (rank : N -> nat) (rootof : N -> N).
Local Notation parc := (parc par).
Local Notation tree0 := (tree0 edges0).
Local Notation inc := (inc edges0).
Local Notation child_arc := (child_arc edges0 par).

Record rooted : Prop := {
  r_child : forall b blk id w, nthN blocks b = Some blk -> (id, w) ∈ inc blk -> child_arc b id = true -> par w = Some (id, b);
  r_nodup : forall b blk, nthN blocks b = Some blk -> NoDup (List.filter (child_arc b) (map fst (inc blk)));
  r_par : forall b a u, par b = Some (a, u) ->
            tree0 a = true /\ (rank u < rank b)%nat /\ rootof b = rootof u /\ rootof b < b /\
            (exists blk, nthN blocks b = Some blk /\ countN a (b_src blk ++ b_dst blk) = 1%nat) /\
            (exists ublk, nthN blocks u = Some ublk /\ (a, b) ∈ inc ublk);
  r_root : forall b, par b = None -> rootof b = b;
  r_inj : forall x y a, parc x = Some a -> parc y = Some a -> x = y;
}.

Inductive desc : N -> N -> Prop :=
  | desc_refl b : desc b b
  | desc_step x a u b : par x = Some (a, u) -> desc u b -> desc x b.

Context (Hr : rooted).

Lemma desc_rank x b : desc x b -> (rank b <= rank x)%nat.
Proof. induction 1 as [|x a u b Hp _ IH]; [lia|]. destruct (r_par Hr _ _ _ Hp) as (_ & ? & _). lia. Qed.
Lemma desc_trans x y z : desc x y -> desc y z -> desc x z.
Proof. induction 1; [done|]. intros. eapply desc_step; eauto. Qed.
Lemma desc_rootof x b : desc x b -> rootof x = rootof b.
Proof. induction 1 as [|x a u b Hp _ IH]; [done|]. destruct (r_par Hr _ _ _ Hp) as (_ & _ & -> & _). done. Qed.
Lemma desc_inv x b : desc x b -> x = b \/ exists a u, par x = Some (a, u) /\ desc u b.
Proof. destruct 1; [by left|right; eauto]. Qed.
(* descendants of two different children of one block are disjoint *)
Lemma desc_siblings x w1 w2 a1 a2 b :
  par w1 = Some (a1, b) -> par w2 = Some (a2, b) -> w1 <> w2 -> desc x w1 -> desc x w2 -> False.
Proof.
  intros H1 H2 Hne Hd1. revert w2 a2 H2 Hne. induction Hd1 as [w1|x a u w1 Hp Hd IH]; intros w2 a2 H2 Hne Hd2.
  - apply desc_inv in Hd2 as [?|(a & u & Hp & Hd)]; [done|]. rewrite H1 in Hp. injection Hp as <- <-.
    apply desc_rank in Hd. destruct (r_par Hr _ _ _ H2) as (_ & ? & _). lia.
  - apply desc_inv in Hd2 as [->|(a' & u' & Hp' & Hd')].
    + rewrite H2 in Hp. injection Hp as <- <-. apply desc_rank in Hd. destruct (r_par Hr _ _ _ H1) as (_ & ? & _). lia.
    + rewrite Hp in Hp'. injection Hp' as <- <-. by eapply IH.
Qed.
Lemma desc_child_not_parent w a b : par w = Some (a, b) -> ~ desc b w.
Proof. intros Hp Hd. apply desc_rank in Hd. destruct (r_par Hr _ _ _ Hp) as (_ & ? & _). lia. Qed.
(* root characterisation *)
Lemma desc_of_root x : forall n, (rank x <= n)%nat -> desc x (rootof x).
Proof.
  intros n. revert x. induction n as [|n IH]; intros x Hn.
  - destruct (par x) as [[a u]|] eqn:Hp; [destruct (r_par Hr _ _ _ Hp) as (_ & ? & _); lia|]. rewrite (r_root Hr _ Hp). constructor.
  - destruct (par x) as [[a u]|] eqn:Hp; [|rewrite (r_root Hr _ Hp); constructor].
    destruct (r_par Hr _ _ _ Hp) as (_ & Hlt & -> & _). eapply desc_step; [exact Hp|]. apply IH. lia.
Qed.
Lemma desc_via_child x b : desc x b -> x = b \/ exists a w, par w = Some (a, b) /\ desc x w.
Proof.
  induction 1 as [|x a u b Hp Hd IH]; [by left|]. right. destruct IH as [->|(a' & w & Hw & Hd')].
  - exists a, x. split; [done|constructor].
  - exists a', w. split; [done|]. eapply desc_step; eauto.
Qed.
End forest.

Lemma countN_app a l k : countN a (l ++ k) = (countN a l + countN a k)%nat.
Proof. induction l as [|x l IH]; cbn; [done|]. rewrite IH. lia. Qed.

Section recover.
Context (W : N -> N).
Hypothesis HWsmall : forall x, x < two64 -> W x = x.
Context (blocks : list gblock) (edges0 : list gedge) (c : N -> N).
Context (par : N -> option (N * N)) (rank : N -> nat) (rootof : N -> N).
Context (Hr : rooted blocks edges0 par rank rootof).
Hypothesis Hcons : forall b blk, nthN blocks b = Some blk -> sumc c (b_src blk) = sumc c (b_dst blk).
Hypothesis Hbound : forall b blk, nthN blocks b = Some blk -> sumc c (b_src blk) < two64.

Local Notation desc := (desc par).
Local Notation parc := (parc par).
Local Notation child_arc := (child_arc edges0 par).

Definition Sinv (ed : list gedge) : Prop :=
  (map eshape ed = map eshape edges0 /\ map e_cycles ed = map e_cycles edges0) /\
  (forall id e, nthN ed id = Some e -> is_on_tree e = false -> e_counter e = c id).
Definition Assigned (ed : list gedge) (x : N) : Prop :=
  forall a u e, par x = Some (a, u) -> nthN ed a = Some e -> e_counter e = c a.

Lemma Sinv_lookup ed id e : Sinv ed -> nthN ed id = Some e ->
  is_on_tree e = tree0 edges0 id /\ e_src e = nbr_s edges0 id /\ e_dst e = nbr_d edges0 id.
Proof.
  intros [[Hs _] _] He. unfold tree0, nbr_s, nbr_d.
  assert (H : (eshape <$> ed) !! N.to_nat id = (eshape <$> edges0) !! N.to_nat id).
  { change (eshape <$> ed) with (map eshape ed). by rewrite Hs. }
  rewrite !list_lookup_fmap in H. rewrite nthN_lookup in He. rewrite He in H. cbn in H.
  rewrite nthN_lookup. destruct (edges0 !! N.to_nat id) as [e0|]; cbn in H; [|done].
  assert (Hq : eshape e = eshape e0) by congruence. unfold eshape in Hq.
  repeat split; [by apply is_on_tree_eshape|congruence|congruence].
Qed.

Definition Ppost (w : N) (ed : list gedge) (vis : list N) (r : N * list gedge * list N) : Prop :=
  let '(x, ed', vis') := r in
  Sinv ed' /\
  (forall y, memN y vis' = true <-> memN y vis = true \/ desc y w) /\
  (forall y, desc y w -> Assigned ed' y) /\
  (forall j, (forall y, desc y w -> parc y <> Some j) -> nthN ed' j = nthN ed j) /\
  (forall a u, par w = Some (a, u) -> x = c a).

(* one of the two loops of propagate at block b, over a list of arc ids *)
Lemma sum_side_spec fuel b get nbr :
  (forall ed id e, Sinv ed -> nthN ed id = Some e -> get e = nbr id) ->
  (forall ed w vis, Sinv ed -> memN w vis = false -> (forall y, desc y w -> memN y vis = false) ->
     post (Ppost w ed vis) (propagate W fuel blocks ed w (parc w) vis)) ->
  forall ids acc ed vis,
  Sinv ed -> acc + sumc_ex c (parc b) ids < two64 ->
  (forall id, id ∈ ids -> child_arc b id = true -> par (nbr id) = Some (id, b) /\ (forall y, desc y (nbr id) -> memN y vis = false)) ->
  NoDup (List.filter (child_arc b) ids) ->
  post (fun '(acc', ed', vis') =>
          acc' = acc + sumc_ex c (parc b) ids /\ Sinv ed' /\
          (forall y, memN y vis' = true <-> memN y vis = true \/ exists id, id ∈ ids /\ child_arc b id = true /\ desc y (nbr id)) /\
          (forall id y, id ∈ ids -> child_arc b id = true -> desc y (nbr id) -> Assigned ed' y) /\
          (forall j, (forall id y, id ∈ ids -> child_arc b id = true -> desc y (nbr id) -> parc y <> Some j) -> nthN ed' j = nthN ed j))
       (sum_side W (fun tgt id ed vis => propagate W fuel blocks ed tgt (Some id) vis) get (parc b) ids acc ed vis).
Proof.
  intros Hget IHp. induction ids as [|id ids IH]; intros acc ed vis Hs Hb Hch Hnd; cbn [sum_side].
  { apply post_Ok. cbn. split; [lia|]. split; [done|]. split; [|split; [|done]].
    - intros y. split; [by left|]. intros [?|(id & Hin & _)]; [done|]. by apply elem_of_nil in Hin.
    - intros id y Hin. by apply elem_of_nil in Hin. }
  cbn [sumc_ex] in Hb.
  destruct (match parc b with Some p => p =? id | None => false end) eqn:Hpred.
  { (* the predecessor arc: skipped *)
    assert (Hnc : child_arc b id = false) by (unfold GcnoFlow.child_arc; rewrite Hpred; apply andb_false_r).
    eapply post_mono; [apply IH; [done|lia| |]|].
    - intros id' Hin. apply Hch. by right.
    - cbn [List.filter] in Hnd. by rewrite Hnc in Hnd.
    - intros [[acc' ed'] vis'] (Ha & Hs' & Hv & Has & Hfr). cbn [sumc_ex]. rewrite Hpred.
      split; [lia|]. split; [done|]. split; [|split].
      + intros y. rewrite Hv. split; (intros [?|(i & Hin & Hc & Hd)]; [by left|right; exists i]).
        * split; [by right|done].
        * apply elem_of_cons in Hin as [->|Hin]; [congruence|done].
      + intros i y Hin Hc. apply elem_of_cons in Hin as [->|Hin]; [congruence|]. by apply Has.
      + intros j Hj. apply Hfr. intros i y Hin. apply Hj. by right. }
  destruct (nthN ed id) as [e|] eqn:He; [|done].
  destruct (Sinv_lookup _ _ _ Hs He) as (Htree & _ & _).
  assert (Hcarc : child_arc b id = is_on_tree e).
  { unfold GcnoFlow.child_arc. rewrite Hpred, <- Htree. apply andb_true_r. }
  destruct (is_on_tree e) eqn:Hot.
  - (* a child: recursive call *)
    destruct (Hch id ltac:(by left) Hcarc) as [Hpw Hunv].
    rewrite (Hget _ _ _ Hs He).
    assert (Hpc : parc (nbr id) = Some id) by (unfold GcnoFlow.parc; by rewrite Hpw).
    eapply post_bind.
    { rewrite <- Hpc. apply IHp; [done| |done]. apply Hunv. constructor. }
    intros [[r ed1] vis1] (Hs1 & Hv1 & Has1 & Hfr1 & Hr1). rewrite (Hr1 _ _ Hpw).
    rewrite HWsmall by lia.
    cbn [List.filter] in Hnd. rewrite Hcarc in Hnd. apply NoDup_cons in Hnd as [Hnin Hnd].
    eapply post_mono; [apply IH; [done|lia| |done]|].
    + intros id' Hin Hc'. destruct (Hch id' ltac:(by right) Hc') as [Hpw' Hunv']. split; [done|].
      intros y Hy. destruct (memN y vis1) eqn:Hm; [|done]. apply Hv1 in Hm as [Hm|Hm]; [by rewrite (Hunv' y Hy) in Hm|].
      exfalso. eapply (desc_siblings blocks edges0 par rank rootof Hr y (nbr id) (nbr id')); [exact Hpw|exact Hpw'| |done|done].
      intros Heq. rewrite Heq, Hpw' in Hpw. injection Hpw as ->. apply Hnin.
      apply elem_of_list_In, filter_In. split; [by apply elem_of_list_In|done].
    + intros [[acc' ed'] vis'] (Ha & Hs' & Hv & Has & Hfr). cbn [sumc_ex]. rewrite Hpred.
      split; [lia|]. split; [done|]. split; [|split].
      * intros y. rewrite Hv, Hv1. split.
        -- intros [[?|?]|(i & Hin & Hc & Hd)]; [by left|right; exists id; split; [left|done]|right; exists i; split; [by right|done]].
        -- intros [?|(i & Hin & Hc & Hd)]; [by left; left|]. apply elem_of_cons in Hin as [->|Hin]; [left; by right|right; eauto].
      * intros i y Hin Hc Hd. apply elem_of_cons in Hin as [->|Hin]; [|by eapply Has].
        intros a u e' Hpy He'. rewrite Hfr in He'; [by eapply Has1|].
        intros i' y' Hin' Hc' Hd' Heq. destruct (Hch i' ltac:(by right) Hc') as [Hpw' _].
        assert (y' = y) as -> by (eapply (r_inj _ _ _ _ _ Hr); [exact Heq|unfold GcnoFlow.parc; by rewrite Hpy]).
        eapply (desc_siblings blocks edges0 par rank rootof Hr y (nbr id) (nbr i')); [exact Hpw|exact Hpw'| |done|done].
        intros Heq'. rewrite Heq', Hpw' in Hpw. injection Hpw as ->. apply Hnin.
        apply elem_of_list_In, filter_In. split; [by apply elem_of_list_In|done].
      * intros j Hj. rewrite Hfr, Hfr1; [done| |].
        -- intros y Hy. apply (Hj id y); [left|done|done].
        -- intros i y Hin. apply Hj. by right.
  - (* a measured arc *)
    destruct Hs as [Hs1 Hs2]. rewrite (Hs2 _ _ He Hot). rewrite HWsmall by lia.
    cbn [List.filter] in Hnd. rewrite Hcarc in Hnd.
    eapply post_mono; [apply IH; [by split|lia| |done]|].
    + intros id' Hin. apply Hch. by right.
    + intros [[acc' ed'] vis'] (Ha & Hs' & Hv & Has & Hfr). cbn [sumc_ex]. rewrite Hpred.
      split; [lia|]. split; [done|]. split; [|split].
      * intros y. rewrite Hv. split; (intros [?|(i & Hin & Hc & Hd)]; [by left|right; exists i]).
        -- split; [by right|done].
        -- apply elem_of_cons in Hin as [->|Hin]; [congruence|done].
      * intros i y Hin Hc. apply elem_of_cons in Hin as [->|Hin]; [congruence|]. by apply Has.
      * intros j Hj. apply Hfr. intros i y Hin. apply Hj. by right.
Qed.

Lemma propagate_spec fuel : forall ed b vis,
  Sinv ed -> memN b vis = false -> (forall y, desc y b -> memN y vis = false) ->
  post (Ppost b ed vis) (propagate W fuel blocks ed b (parc b) vis).
Proof.
  induction fuel as [|fuel IH]; intros ed b vis Hs Hb Hunv; [done|].
  cbn [propagate]. rewrite Hb. destruct (nthN blocks b) as [blk|] eqn:Hblk; [|done]. cbv zeta.
  pose proof (r_nodup _ _ _ _ _ Hr b blk Hblk) as Hnd. unfold inc in Hnd. rewrite map_app, !map_map in Hnd. cbn [fst] in Hnd.
  rewrite !map_id, List.filter_app in Hnd. apply NoDup_app in Hnd as (Hnd1 & Hnd12 & Hnd2).
  assert (Hchild : forall id w, (id, w) ∈ inc edges0 blk -> child_arc b id = true ->
            par w = Some (id, b) /\ forall y, desc y w -> memN y (b :: vis) = false).
  { intros id w Hin Hc. pose proof (r_child _ _ _ _ _ Hr b blk id w Hblk Hin Hc) as Hpw. split; [done|].
    intros y Hy. cbn [memN]. apply orb_false_iff. split.
    - apply N.eqb_neq. intros ->. by eapply (desc_child_not_parent blocks edges0 par rank rootof Hr).
    - apply Hunv. eapply desc_trans; [exact Hy|]. eapply desc_step; [exact Hpw|constructor]. }
  pose proof (Hbound b blk Hblk) as Hbd. pose proof (Hcons b blk Hblk) as Hcs.
  eapply post_bind.
  { apply (sum_side_spec fuel b e_src (nbr_s edges0)); [by intros ed0 id e H1 H2; apply (Sinv_lookup _ _ _ H1 H2)|exact IH|done| | |exact Hnd1].
    - pose proof (sumc_ex_le c (parc b) (b_src blk)). lia.
    - intros id Hin. apply Hchild. unfold inc. apply elem_of_app. left. apply elem_of_list_fmap. by exists id. }
  intros [[pos ed1] vis1] (Hpos & Hs1 & Hv1 & Has1 & Hfr1).
  eapply post_bind.
  { apply (sum_side_spec fuel b e_dst (nbr_d edges0)); [by intros ed0 id e H1 H2; apply (Sinv_lookup _ _ _ H1 H2)|exact IH|done| | |exact Hnd2].
    - pose proof (sumc_ex_le c (parc b) (b_dst blk)). lia.
    - intros id Hin Hc. assert (Hinc : (id, nbr_d edges0 id) ∈ inc edges0 blk).
      { unfold inc. apply elem_of_app. right. apply elem_of_list_fmap. by exists id. }
      destruct (Hchild _ _ Hinc Hc) as [Hpw Hu]. split; [done|].
      intros y Hy. destruct (memN y vis1) eqn:Hm; [|done]. apply Hv1 in Hm as [Hm|(i & Hi & Hci & Hdi)]; [by rewrite (Hu y Hy) in Hm|].
      exfalso. assert (Hinc' : (i, nbr_s edges0 i) ∈ inc edges0 blk).
      { unfold inc. apply elem_of_app. left. apply elem_of_list_fmap. by exists i. }
      destruct (Hchild _ _ Hinc' Hci) as [Hpi _].
      eapply (desc_siblings blocks edges0 par rank rootof Hr y (nbr_s edges0 i) (nbr_d edges0 id)); [exact Hpi|exact Hpw| |done|done].
      intros Heq. rewrite Heq, Hpw in Hpi. injection Hpi as ->. apply (Hnd12 i).
      + apply elem_of_list_In, filter_In. split; [by apply elem_of_list_In|done].
      + apply elem_of_list_In, filter_In. split; [by apply elem_of_list_In|done]. }
  intros [[neg ed2] vis2] (Hneg & Hs2 & Hv2 & Has2 & Hfr2). rewrite N.add_0_l in Hpos, Hneg.
  (* visited set and assignments of the two loops together *)
  assert (Hvis : forall y, memN y vis2 = true <-> memN y vis = true \/ desc y b).
  { intros y. rewrite Hv2, Hv1. cbn [memN]. rewrite orb_true_iff, N.eqb_eq. split.
    - intros [[[->|?]|(i & Hi & Hc & Hd)]|(i & Hi & Hc & Hd)]; [right; constructor|by left| |].
      + right. assert (Hinc : (i, nbr_s edges0 i) ∈ inc edges0 blk) by (unfold inc; apply elem_of_app; left; apply elem_of_list_fmap; by exists i).
        destruct (Hchild _ _ Hinc Hc) as [Hp _]. eapply desc_trans; [exact Hd|]. eapply desc_step; [exact Hp|constructor].
      + right. assert (Hinc : (i, nbr_d edges0 i) ∈ inc edges0 blk) by (unfold inc; apply elem_of_app; right; apply elem_of_list_fmap; by exists i).
        destruct (Hchild _ _ Hinc Hc) as [Hp _]. eapply desc_trans; [exact Hd|]. eapply desc_step; [exact Hp|constructor].
    - intros [?|Hd]; [left; left; by right|]. apply (desc_via_child par) in Hd as [->|(a & w & Hw & Hd)]; [left; left; by left|].
      destruct (r_par _ _ _ _ _ Hr _ _ _ Hw) as (Ht & Hrk & _ & _ & _ & (ublk & Hu & Hin)).
      rewrite Hblk in Hu. injection Hu as <-.
      assert (Hc : child_arc b a = true).
      { unfold GcnoFlow.child_arc. rewrite Ht. cbn. destruct (parc b) as [p|] eqn:Hp; [|done].
        destruct (N.eqb_spec p a) as [->|]; [|done]. exfalso.
        assert (w = b) as -> by (eapply (r_inj _ _ _ _ _ Hr); [unfold GcnoFlow.parc; by rewrite Hw|exact Hp]). lia. }
      unfold inc in Hin. apply elem_of_app in Hin as [Hin|Hin]; apply elem_of_list_fmap in Hin as (i & [= -> Hw'] & Hi).
      + left. right. exists i. rewrite <- Hw'. done.
      + right. exists i. rewrite <- Hw'. done. }
  assert (Has : forall y, desc y b -> y <> b -> Assigned ed2 y).
  { intros y Hd Hne. apply (desc_via_child par) in Hd as [->|(a & w & Hw & Hd)]; [done|].
    destruct (r_par _ _ _ _ _ Hr _ _ _ Hw) as (Ht & Hrk & _ & _ & _ & (ublk & Hu & Hin)).
    rewrite Hblk in Hu. injection Hu as <-.
    assert (Hc : child_arc b a = true).
    { unfold GcnoFlow.child_arc. rewrite Ht. cbn. destruct (parc b) as [p|] eqn:Hp; [|done].
      destruct (N.eqb_spec p a) as [->|]; [|done]. exfalso.
      assert (w = b) as -> by (eapply (r_inj _ _ _ _ _ Hr); [unfold GcnoFlow.parc; by rewrite Hw|exact Hp]). lia. }
    unfold inc in Hin. apply elem_of_app in Hin as [Hin|Hin]; apply elem_of_list_fmap in Hin as (i & [= -> Hw'] & Hi).
    - intros a' u' e' Hpy He'. rewrite Hfr2 in He'; [eapply (Has1 i y); [done|done|by rewrite <- Hw'|exact Hpy|exact He']|].
      intros i' y' Hi' Hc' Hd' Heq.
      assert (y' = y) as -> by (eapply (r_inj _ _ _ _ _ Hr); [exact Heq|unfold GcnoFlow.parc; by rewrite Hpy]).
      assert (Hinc' : (i', nbr_d edges0 i') ∈ inc edges0 blk) by (unfold inc; apply elem_of_app; right; apply elem_of_list_fmap; by exists i').
      destruct (Hchild _ _ Hinc' Hc') as [Hp' _].
      eapply (desc_siblings blocks edges0 par rank rootof Hr y w (nbr_d edges0 i')); [exact Hw|exact Hp'| |done|done].
      intros Heq'. rewrite Heq', Hp' in Hw. injection Hw as ->. apply (Hnd12 i).
      + apply elem_of_list_In, filter_In. split; [by apply elem_of_list_In|done].
      + apply elem_of_list_In, filter_In. split; [by apply elem_of_list_In|done].
    - eapply (Has2 i y); [done|done|by rewrite <- Hw']. }
  assert (Hfr : forall j, (forall y, desc y b -> parc y <> Some j) -> nthN ed2 j = nthN ed j).
  { intros j Hj. rewrite Hfr2, Hfr1; [done| |].
    - intros i y Hi Hc Hd. apply Hj.
      assert (Hinc : (i, nbr_s edges0 i) ∈ inc edges0 blk) by (unfold inc; apply elem_of_app; left; apply elem_of_list_fmap; by exists i).
      destruct (Hchild _ _ Hinc Hc) as [Hp _]. eapply desc_trans; [exact Hd|]. eapply desc_step; [exact Hp|constructor].
    - intros i y Hi Hc Hd. apply Hj.
      assert (Hinc : (i, nbr_d edges0 i) ∈ inc edges0 blk) by (unfold inc; apply elem_of_app; right; apply elem_of_list_fmap; by exists i).
      destruct (Hchild _ _ Hinc Hc) as [Hp _]. eapply desc_trans; [exact Hd|]. eapply desc_step; [exact Hp|constructor]. }
  destruct (par b) as [[a u]|] eqn:Hpb.
  - (* b has a parent arc a: its value is forced by conservation at b *)
    assert (Hpc : parc b = Some a) by (unfold GcnoFlow.parc; by rewrite Hpb). rewrite Hpc in *.
    destruct (nthN ed2 a) as [ea|] eqn:Hea; [|done]. apply post_Ok. cbn.
    destruct (r_par _ _ _ _ _ Hr _ _ _ Hpb) as (Ht & _ & _ & _ & (blk' & Hb' & Hcnt) & _).
    rewrite Hblk in Hb'. injection Hb' as <-. rewrite countN_app in Hcnt.
    assert (Hex : (if neg <=? pos then pos - neg else neg - pos) = c a).
    { destruct (countN a (b_src blk)) as [|[|n]] eqn:E1, (countN a (b_dst blk)) as [|[|m]] eqn:E2; try (cbn in Hcnt; lia).
      - rewrite (sumc_ex_count0 _ _ _ E1) in Hpos. pose proof (sumc_ex_count1 c _ _ E2). destruct (N.leb_spec neg pos); lia.
      - rewrite (sumc_ex_count0 _ _ _ E2) in Hneg. pose proof (sumc_ex_count1 c _ _ E1). destruct (N.leb_spec neg pos); lia. }
    rewrite Hex.
    assert (Hta : is_on_tree ea = true) by (destruct (Sinv_lookup _ _ _ Hs2 Hea) as (-> & _); done).
    split; [|split; [exact Hvis|split; [|split]]].
    + destruct Hs2 as [[H1 H1c] H2]. split; [split; by rewrite map_alterN_id|].
      intros id e. rewrite nthN_alterN. destruct (N.eqb_spec a id) as [<-|]; [|apply H2].
      rewrite Hea. cbn. intros [= <-]. unfold is_on_tree in *. cbn. by rewrite Hta.
    + intros y Hd. destruct (N.eq_dec y b) as [->|Hne].
      * intros a' u' e' Hp' He'. rewrite Hpb in Hp'. injection Hp' as <- <-.
        rewrite nthN_alterN, N.eqb_refl, Hea in He'. cbn in He'. by injection He' as <-.
      * intros a' u' e' Hp' He'. rewrite nthN_alterN in He'. destruct (N.eqb_spec a a') as [<-|].
        -- exfalso. apply Hne. eapply (r_inj _ _ _ _ _ Hr); [unfold GcnoFlow.parc; by rewrite Hp'|exact Hpc].
        -- by eapply (Has y Hd Hne).
    + intros j Hj. rewrite nthN_alterN. destruct (N.eqb_spec a j) as [<-|]; [|by apply Hfr].
      exfalso. apply (Hj b); [constructor|done].
    + intros a' u' H. assert (a' = a) as -> by congruence. done.
  - assert (Hpc : parc b = None) by (unfold GcnoFlow.parc; by rewrite Hpb). rewrite Hpc. apply post_Ok. cbn.
    split; [done|]. split; [exact Hvis|]. split; [|split; [exact Hfr|intros ? ? ?; congruence]].
    intros y Hd. destruct (N.eq_dec y b) as [->|Hne]; [|by apply Has]. intros a' u' e'. by rewrite Hpb.
Qed.

(* ---- the loop `for block_no in 0..blocks.len() { propagate_counts(block_no, None) }` ---- *)
Hypothesis Hcover : forall id, tree0 edges0 id = true -> exists x, parc x = Some id /\ rootof x < lenN blocks.

Definition Linv (b : N) (st : list gedge * list N) : Prop :=
  Sinv st.1 /\ (forall y, memN y st.2 = true <-> rootof y < b) /\ (forall y, memN y st.2 = true -> Assigned st.1 y).

Lemma desc_iff_root y b : par b = None -> (desc y b <-> rootof y = b).
Proof.
  intros Hp. split.
  - intros Hd. rewrite (desc_rootof blocks edges0 par rank rootof Hr _ _ Hd). by apply (r_root _ _ _ _ _ Hr).
  - intros <-. by apply (desc_of_root blocks edges0 par rank rootof Hr y (rank y)).
Qed.

Lemma loop_spec fuel n : forall s st,
  Linv s st ->
  post (Linv (s + N.of_nat n))
       (ofold (fun '(edges, visited) b =>
                 let* r := propagate W fuel blocks edges b None visited in
                 let '(_, edges', visited') := r in Ok (edges', visited')) (count_from n s) st).
Proof.
  induction n as [|n IH]; intros s [ed vis] Hinv; cbn [count_from ofold].
  { apply post_Ok. by rewrite N.add_0_r. }
  destruct Hinv as (Hs & Hv & Ha). cbn in Hs, Hv, Ha.
  eapply post_bind; [|intros st' Hst'; eapply post_mono; [apply (IH (s + 1) st' Hst')|]; intros st'' H; by replace (s + N.of_nat (S n)) with (s + 1 + N.of_nat n) by lia].
  destruct (memN s vis) eqn:Hm.
  - (* already visited: propagate returns at once *)
    destruct fuel as [|fuel]; [done|]. cbn [propagate]. rewrite Hm. cbn [obind]. apply post_Ok.
    split; [done|]. split; [|done]. cbn. intros y. rewrite Hv. split; [lia|]. intros Hy.
    destruct (N.eq_dec (rootof y) s) as [Heq|]; [|lia]. exfalso.
    apply Hv in Hm. pose proof (desc_of_root blocks edges0 par rank rootof Hr y (rank y) (le_n _)) as Hd. rewrite Heq in Hd.
    pose proof (desc_rootof blocks edges0 par rank rootof Hr _ _ Hd). lia.
  - assert (Hps : par s = None).
    { destruct (par s) as [[a u]|] eqn:Hp; [|done]. destruct (r_par _ _ _ _ _ Hr _ _ _ Hp) as (_ & _ & _ & Hlt & _).
      apply Hv in Hlt. congruence. }
    assert (Hpc : parc s = None) by (unfold GcnoFlow.parc; by rewrite Hps).
    eapply post_bind.
    { rewrite <- Hpc. apply (propagate_spec fuel ed s vis Hs Hm). intros y Hd. apply (desc_iff_root _ _ Hps) in Hd.
      destruct (memN y vis) eqn:Hy; [|done]. apply Hv in Hy. lia. }
    intros [[r ed'] vis'] (Hs' & Hv' & Has' & Hfr' & _). apply post_Ok. split; [done|]. split; cbn.
    + intros y. rewrite Hv', Hv, (desc_iff_root _ _ Hps). lia.
    + intros y Hy. apply Hv' in Hy as [Hy|Hd]; [|by apply Has'].
      intros a u e Hp He. rewrite Hfr' in He; [by eapply Ha|].
      intros x Hx Heq. assert (x = y) as -> by (eapply (r_inj _ _ _ _ _ Hr); [exact Heq|unfold GcnoFlow.parc; by rewrite Hp]).
      apply (desc_iff_root _ _ Hps) in Hx. apply Hv in Hy. lia.
Qed.

(* every arc carries the value of c after the loop *)
Theorem loop_recovers fuel ed0 :
  Sinv ed0 ->
  post (fun '(ed', _) => (map eshape ed' = map eshape edges0 /\ map e_cycles ed' = map e_cycles edges0) /\
                          forall id e, nthN ed' id = Some e -> e_counter e = c id)
       (ofold (fun '(edges, visited) b =>
                 let* r := propagate W fuel blocks edges b None visited in
                 let '(_, edges', visited') := r in Ok (edges', visited')) (count_from (length blocks) 0) (ed0, [])).
Proof.
  intros Hs. eapply post_mono; [apply (loop_spec fuel (length blocks) 0 (ed0, []))|].
  - split; [done|]. split; cbn; [|done]. intros y. split; [done|lia].
  - intros [ed' vis'] (Hs' & Hv & Ha). cbn in Hs', Hv, Ha. split; [apply Hs'|]. intros id e He.
    destruct (is_on_tree e) eqn:Ht; [|by apply Hs'].
    destruct (Sinv_lookup _ _ _ Hs' He) as (Htr & _). rewrite Ht in Htr.
    destruct (Hcover id (eq_sym Htr)) as (x & Hx & Hlt). unfold GcnoFlow.parc in Hx.
    destruct (par x) as [[a u]|] eqn:Hp; cbn in Hx; [|done]. injection Hx as ->.
    eapply (Ha x); [apply Hv; unfold lenN in Hlt; lia|exact Hp|exact He].
Qed.
End recover.

(* the graph count_on_tree works on: the function's blocks and arcs with the virtual sink -> source ON_TREE arc *)
Definition tree_graph (version : N) (f : gfun) : outcome (list gblock * list gedge) :=
  push_arc (f_blocks f) (f_edges f) (if version <? 48 then lenN (f_blocks f) - 1 else 1) 0 ARC_ON_TREE.

Theorem count_on_tree_recovers (W : N -> N) version f f' blocks edges c par rank rootof :
  (forall x, x < two64 -> W x = x) ->
  2 <= lenN (f_blocks f) ->
  tree_graph version f = Ok (blocks, edges) ->
  rooted blocks edges par rank rootof ->
  (forall id, tree0 edges id = true -> exists x, parc par x = Some id /\ rootof x < lenN blocks) ->
  (forall id e, nthN edges id = Some e -> is_on_tree e = false -> e_counter e = c id) ->
  (forall b blk, nthN blocks b = Some blk -> sumc c (b_src blk) = sumc c (b_dst blk)) ->
  (forall b blk, nthN blocks b = Some blk -> sumc c (b_src blk) < two64) ->
  count_on_tree W version f = Ok f' ->
  (map eshape (f_edges f') = map eshape edges /\ map e_cycles (f_edges f') = map e_cycles edges) /\
  forall id e, nthN (f_edges f') id = Some e -> e_counter e = c id.
Proof.
  intros HW Hlen Hg Hr Hcov Hm Hcons Hbound. unfold count_on_tree, tree_graph in *.
  destruct (N.ltb_spec (lenN (f_blocks f)) 2); [lia|]. rewrite Hg. cbn [obind].
  pose proof (loop_recovers W HW blocks edges c par rank rootof Hr Hcons Hbound Hcov (S (S (length blocks))) edges) as Hl.
  destruct (ofold _ (count_from (length blocks) 0) (edges, [])) as [[ed' vis']| | |]; cbn [obind]; try done.
  specialize (Hl (conj (conj eq_refl eq_refl) Hm) _ eq_refl). cbn in Hl.
  destruct (add_tree_counts W (rev ed') blocks) as [bl'| | |]; cbn [obind]; try done.
  intros [= <-]. cbn. exact Hl.
Qed.

(* ---- the executable check of the witness is sound ---- *)
Lemma forallb_count_from (f : N -> bool) n s : forallb f (count_from n s) = true -> forall b, s <= b < s + N.of_nat n -> f b = true.
Proof.
  revert s. induction n as [|n IH]; intros s H b Hb; [lia|]. cbn [count_from forallb] in H. apply andb_true_iff in H as [H1 H2].
  destruct (N.eq_dec b s) as [->|]; [done|]. apply (IH (s + 1) H2). lia.
Qed.
Lemma existsb_count_from (f : N -> bool) n s : existsb f (count_from n s) = true -> exists b, s <= b < s + N.of_nat n /\ f b = true.
Proof.
  revert s. induction n as [|n IH]; intros s H; [done|]. cbn [count_from existsb] in H. apply orb_true_iff in H as [H|H].
  - exists s. split; [lia|done].
  - destruct (IH _ H) as (b & Hb & Hf). exists b. split; [lia|done].
Qed.
Lemma nodupb_NoDup l : nodupb l = true -> NoDup l.
Proof.
  induction l as [|x l IH]; cbn [nodupb]; [constructor|]. intros [H1 H2]%andb_true_iff. constructor; [|by apply IH].
  intros Hin. apply memN_elem in Hin. by rewrite Hin in H1.
Qed.
Lemma pair_mem_elem p l : pair_mem p l = true -> p ∈ l.
Proof.
  unfold pair_mem. intros H. apply existsb_exists in H as (q & Hin & Hq). apply andb_true_iff in Hq as [H1 H2].
  apply N.eqb_eq in H1, H2. destruct p, q; cbn in *; subst. by apply elem_of_list_In.
Qed.

Theorem rooted_b_sound blocks edges parl rankl rootl :
  rooted_b blocks edges parl rankl rootl = true ->
  rooted blocks edges (par_of parl) (rank_of rankl) (root_of rootl) /\
  (forall id, tree0 edges id = true -> exists x, parc (par_of parl) x = Some id /\ root_of rootl x < lenN blocks).
Proof.
  unfold rooted_b, rooted_all. intros H.
  apply andb_true_iff in H as [H Hall]. apply andb_true_iff in H as [Hlp Hlr]. apply Nat.eqb_eq in Hlp, Hlr.
  apply andb_true_iff in Hall as [Hall Hcov]. apply andb_true_iff in Hall as [Hblk Hinj].
  set (par := par_of parl) in *. set (rank := rank_of rankl) in *. set (rootof := root_of rootl) in *.
  assert (Hb : forall b blk, nthN blocks b = Some blk -> rooted_block_ok blocks edges par rank rootof b blk = true).
  { intros b blk Hl. pose proof (forallb_count_from _ _ _ Hblk b) as Hf. cbn beta in Hf. rewrite Hl in Hf. apply Hf.
    apply nthN_Some_lt in Hl. unfold lenN in Hl. lia. }
  assert (Hparlt : forall b p, par b = Some p -> b < lenN blocks).
  { intros b p Hp. unfold par, par_of in Hp. destruct (nthN parl b) eqn:E; [|done]. apply nthN_Some_lt in E. unfold lenN in *. lia. }
  assert (Hrpar : forall b a u, par b = Some (a, u) ->
            tree0 edges a = true /\ (rank u < rank b)%nat /\ rootof b = rootof u /\ rootof b < b /\
            (exists blk, nthN blocks b = Some blk /\ countN a (b_src blk ++ b_dst blk) = 1%nat) /\
            (exists ublk, nthN blocks u = Some ublk /\ (a, b) ∈ inc edges ublk)).
  { intros b a u Hp. destruct (nthN_lt blocks b (Hparlt _ _ Hp)) as [blk Hl]. specialize (Hb _ _ Hl).
    unfold rooted_block_ok in Hb. rewrite Hp in Hb. apply andb_true_iff in Hb as [_ Hb].
    repeat (apply andb_true_iff in Hb as [Hb ?]).
    destruct (nthN blocks u) as [ublk|]; [|done].
    repeat split; [done|by apply Nat.ltb_lt|by apply N.eqb_eq|by apply N.ltb_lt|exists blk; split; [done|by apply Nat.eqb_eq]|].
    exists ublk. split; [done|]. by apply pair_mem_elem. }
  split; [constructor|].
  - intros b blk id w Hl Hin Hc. specialize (Hb _ _ Hl). unfold rooted_block_ok in Hb.
    apply andb_true_iff in Hb as [Hb _]. apply andb_true_iff in Hb as [Hb _].
    rewrite forallb_forall in Hb. specialize (Hb (id, w) (proj1 (elem_of_list_In _ _) Hin)). cbn in Hb. rewrite Hc in Hb. cbn in Hb.
    destruct (par w) as [[i p]|]; [|done]. apply andb_true_iff in Hb as [H1 H2]. apply N.eqb_eq in H1, H2. by subst.
  - intros b blk Hl. specialize (Hb _ _ Hl). unfold rooted_block_ok in Hb.
    apply andb_true_iff in Hb as [Hb _]. apply andb_true_iff in Hb as [_ Hb]. by apply nodupb_NoDup.
  - exact Hrpar.
  - intros b Hp. destruct (N.ltb_spec b (lenN blocks)) as [Hlt|Hge].
    + destruct (nthN_lt blocks b Hlt) as [blk Hl]. specialize (Hb _ _ Hl). unfold rooted_block_ok in Hb. rewrite Hp in Hb.
      apply andb_true_iff in Hb as [_ Hb]. by apply N.eqb_eq.
    + unfold rootof, root_of. destruct (nthN rootl b) eqn:E; [|done]. apply nthN_Some_lt in E. unfold lenN in *. lia.
  - intros x y a Hx Hy. unfold parc in Hx, Hy.
    destruct (par x) as [px|] eqn:Ex; [|done]. destruct (par y) as [py|] eqn:Ey; [|done].
    pose proof (Hparlt _ _ Ex) as Hxl. pose proof (Hparlt _ _ Ey) as Hyl. unfold lenN in Hxl, Hyl.
    pose proof (forallb_count_from _ _ _ Hinj x ltac:(lia)) as H1. cbn beta in H1.
    pose proof (forallb_count_from _ _ _ H1 y ltac:(lia)) as H2. cbn beta in H2.
    unfold parc in H2. rewrite Ex, Ey in H2. cbn in H2, Hx, Hy. injection Hx as Hx. injection Hy as Hy. rewrite Hx, Hy, N.eqb_refl in H2.
    cbn in H2. by apply N.eqb_eq.
  - intros id Ht. assert (Hid : id < lenN edges).
    { unfold tree0 in Ht. destruct (nthN edges id) eqn:E; [|done]. by apply nthN_Some_lt in E. }
    pose proof (forallb_count_from _ _ _ Hcov id ltac:(unfold lenN in Hid; lia)) as H1. cbn beta in H1. rewrite Ht in H1. cbn in H1.
    apply existsb_count_from in H1 as (x & Hx & Hp). destruct (parc par x) as [i|] eqn:Ei; [|done]. apply N.eqb_eq in Hp. subst i.
    exists x. split; [done|]. unfold parc in Ei. destruct (par x) as [[a u]|] eqn:Ep; [|done].
    destruct (Hrpar _ _ _ Ep) as (_ & _ & _ & Hlt & _). unfold lenN. lia.
Qed.

(* flow recovery with the executable witness check *)
Theorem flow_recovery (W : N -> N) version f f' blocks edges parl rankl rootl (c : N -> N) :
  (forall x, x < two64 -> W x = x) ->
  2 <= lenN (f_blocks f) ->
  tree_graph version f = Ok (blocks, edges) ->
  rooted_b blocks edges parl rankl rootl = true ->
  (forall id e, nthN edges id = Some e -> is_on_tree e = false -> e_counter e = c id) ->
  (forall b blk, nthN blocks b = Some blk -> sumc c (b_src blk) = sumc c (b_dst blk)) ->
  (forall b blk, nthN blocks b = Some blk -> sumc c (b_src blk) < two64) ->
  count_on_tree W version f = Ok f' ->
  map eshape (f_edges f') = map eshape edges /\ forall id e, nthN (f_edges f') id = Some e -> e_counter e = c id.
Proof.
  intros HW Hlen Hg Hrb Hm Hcons Hbound Hc. destruct (rooted_b_sound _ _ _ _ _ Hrb) as [Hr Hcov].
  destruct (count_on_tree_recovers W version f f' blocks edges c _ _ _ HW Hlen Hg Hr Hcov Hm Hcons Hbound Hc) as [[H1 _] H2]. by split.
Qed.
Theorem flow_recovery_cycles (W : N -> N) version f f' blocks edges parl rankl rootl (c : N -> N) :
  (forall x, x < two64 -> W x = x) ->
  2 <= lenN (f_blocks f) ->
  tree_graph version f = Ok (blocks, edges) ->
  rooted_b blocks edges parl rankl rootl = true ->
  (forall id e, nthN edges id = Some e -> is_on_tree e = false -> e_counter e = c id) ->
  (forall b blk, nthN blocks b = Some blk -> sumc c (b_src blk) = sumc c (b_dst blk)) ->
  (forall b blk, nthN blocks b = Some blk -> sumc c (b_src blk) < two64) ->
  count_on_tree W version f = Ok f' ->
  map e_cycles (f_edges f') = map e_cycles edges.
Proof.
  intros HW Hlen Hg Hrb Hm Hcons Hbound Hc. destruct (rooted_b_sound _ _ _ _ _ Hrb) as [Hr Hcov].
  by destruct (count_on_tree_recovers W version f f' blocks edges c _ _ _ HW Hlen Hg Hr Hcov Hm Hcons Hbound Hc) as [[_ H1] _].
Qed.
Lemma wrap64_small x : x < two64 -> wrap64 x = x.
Proof. intros H. unfold wrap64. by apply N.mod_small. Qed.

(* ---- block counters: after count_on_tree, counter b = measured out-flow + the ON_TREE out-arc counts ---- *)
Lemma osum_app p l k b : osum p (l ++ k) b = osum p l b + osum p k b.
Proof. unfold osum. induction l as [|e l IH]; cbn [app fold_right]; [done|]. rewrite IH. lia. Qed.
Lemma osum_rev p l b : osum p (rev l) b = osum p l b.
Proof. induction l as [|e l IH]; [done|]. cbn [rev]. rewrite osum_app, IH. unfold osum. cbn. lia. Qed.
Lemma osum_split l b : osum any_arc l b = osum measured l b + osum is_on_tree l b.
Proof. unfold osum, any_arc, measured. induction l as [|e l IH]; cbn [fold_right]; [done|]. rewrite IH. destruct (is_on_tree e), (e_src e =? b); cbn; lia. Qed.

Lemma add_tree_counts_spec (W : N -> N) (HW : forall x, x < two64 -> W x = x) l : forall blocks,
  (forall b blk, nthN blocks b = Some blk -> b_counter blk + osum is_on_tree l b < two64) ->
  post (fun blocks' => forall b blk', nthN blocks' b = Some blk' ->
          exists blk, nthN blocks b = Some blk /\ b_counter blk' = b_counter blk + osum is_on_tree l b)
       (add_tree_counts W l blocks).
Proof.
  unfold add_tree_counts. induction l as [|e l IH]; intros blocks Hb; cbn [ofold].
  { apply post_Ok. intros b blk' H. exists blk'. split; [done|]. unfold osum. cbn. lia. }
  destruct (is_on_tree e) eqn:Ht.
  - destruct (nthN blocks (e_src e)) as [bs|] eqn:Hs; [|done]. cbn [obind].
    eapply post_mono; [apply IH|].
    + intros b blk. rewrite nthN_alterN. destruct (N.eqb_spec (e_src e) b) as [<-|Hne].
      * rewrite Hs. cbn. intros [= <-]. cbn. specialize (Hb _ _ Hs). unfold osum in Hb. cbn [fold_right] in Hb.
        rewrite Ht, N.eqb_refl in Hb. cbn in Hb. fold (osum is_on_tree l (e_src e)) in Hb. rewrite HW by lia. lia.
      * intros H. specialize (Hb _ _ H). unfold osum in Hb. cbn [fold_right] in Hb. fold (osum is_on_tree l b) in Hb. lia.
    + intros blocks' H b blk' Hl. destruct (H b blk' Hl) as (blk1 & H1 & Hc). rewrite nthN_alterN in H1.
      unfold osum at 1. cbn [fold_right]. fold (osum is_on_tree l b). rewrite Ht. cbn [andb].
      destruct (N.eqb_spec (e_src e) b) as [<-|Hne].
      * rewrite Hs in H1. cbn in H1. injection H1 as <-. exists bs. split; [done|]. cbn in Hc.
        specialize (Hb _ _ Hs). unfold osum in Hb. cbn [fold_right] in Hb. rewrite Ht, N.eqb_refl in Hb. cbn in Hb.
        fold (osum is_on_tree l (e_src e)) in Hb. rewrite HW in Hc by lia. lia.
      * exists blk1. split; [done|]. lia.
  - cbn [obind]. eapply post_mono; [apply IH|].
    + intros b blk H. specialize (Hb _ _ H). unfold osum in Hb. cbn [fold_right] in Hb. rewrite Ht in Hb. cbn in Hb. fold (osum is_on_tree l b) in Hb. lia.
    + intros blocks' H b blk' Hl. destruct (H b blk' Hl) as (blk1 & H1 & Hc). exists blk1. split; [done|].
      unfold osum at 1. cbn [fold_right]. rewrite Ht. cbn. fold (osum is_on_tree l b). lia.
Qed.

(* measured arcs keep their counters (same shape, same value on every arc that is not ON_TREE) *)
Lemma osum_measured_eq ed1 ed2 (c : N -> N) b :
  map eshape ed1 = map eshape ed2 ->
  (forall id e, nthN ed1 id = Some e -> is_on_tree e = false -> e_counter e = c id) ->
  (forall id e, nthN ed2 id = Some e -> is_on_tree e = false -> e_counter e = c id) ->
  osum measured ed1 b = osum measured ed2 b.
Proof.
  revert ed2 c. induction ed1 as [|e1 ed1 IH]; intros [|e2 ed2] c Hs H1 H2; cbn [map] in Hs; try done.
  assert (He : eshape e1 = eshape e2) by congruence. assert (Hm : map eshape ed1 = map eshape ed2) by congruence.
  unfold osum. cbn [fold_right]. fold (osum measured ed1 b). fold (osum measured ed2 b).
  rewrite (IH ed2 (fun i => c (i + 1)) Hm).
  - unfold measured. rewrite (is_on_tree_eshape _ _ He). unfold eshape in He. assert (e_src e1 = e_src e2) as -> by congruence.
    destruct (is_on_tree e2) eqn:Ht; [done|]. cbn. rewrite (H1 0 e1 eq_refl), (H2 0 e2 eq_refl); [done|done|].
    by rewrite (is_on_tree_eshape e1 e2) by (unfold eshape; congruence).
  - intros id e Hl. apply (H1 (id + 1)). cbn [nthN]. destruct (N.eqb_spec (id + 1) 0); [lia|]. by replace (N.pred (id + 1)) with id by lia.
  - intros id e Hl. apply (H2 (id + 1)). cbn [nthN]. destruct (N.eqb_spec (id + 1) 0); [lia|]. by replace (N.pred (id + 1)) with id by lia.
Qed.

Theorem flow_recovery_blocks (W : N -> N) version f f' blocks edges parl rankl rootl (c : N -> N) :
  (forall x, x < two64 -> W x = x) ->
  2 <= lenN (f_blocks f) ->
  tree_graph version f = Ok (blocks, edges) ->
  rooted_b blocks edges parl rankl rootl = true ->
  (forall id e, nthN edges id = Some e -> is_on_tree e = false -> e_counter e = c id) ->
  (forall b blk, nthN blocks b = Some blk -> sumc c (b_src blk) = sumc c (b_dst blk)) ->
  (forall b blk, nthN blocks b = Some blk -> sumc c (b_src blk) < two64) ->
  blocks_consistent blocks edges = true ->
  count_on_tree W version f = Ok f' ->
  (forall b, osum any_arc (f_edges f') b < two64) ->
  forall b blk', nthN (f_blocks f') b = Some blk' -> b_counter blk' = osum any_arc (f_edges f') b.
Proof.
  intros HW Hlen Hg Hrb Hm Hcons Hbound Hbc Hc Hfit.
  pose proof (flow_recovery W version f f' blocks edges parl rankl rootl c HW Hlen Hg Hrb Hm Hcons Hbound Hc) as [Hsh Hcnt].
  unfold count_on_tree in Hc. unfold tree_graph in Hg.
  destruct (N.ltb_spec (lenN (f_blocks f)) 2); [lia|]. rewrite Hg in Hc. cbn [obind] in Hc.
  destruct (ofold _ (count_from (length blocks) 0) (edges, [])) as [[ed' vis']| | |]; cbn [obind] in Hc; try done.
  assert (Hcons0 : forall b blk, nthN blocks b = Some blk -> b_counter blk = osum measured ed' b).
  { intros b blk Hl. unfold blocks_consistent in Hbc. pose proof (forallb_count_from _ _ _ Hbc b) as Hf. cbn beta in Hf. rewrite Hl in Hf.
    assert (Hlt : 0 <= b < 0 + N.of_nat (length blocks)) by (apply nthN_Some_lt in Hl; unfold lenN in Hl; lia).
    apply Hf, N.eqb_eq in Hlt. rewrite Hlt. symmetry.
    destruct (add_tree_counts W (rev ed') blocks) as [bl'| | |] eqn:Ea; cbn [obind] in Hc; try done. injection Hc as <-. cbn in Hsh, Hcnt.
    apply (osum_measured_eq ed' edges c b Hsh); [intros; by apply Hcnt|done]. }
  pose proof (add_tree_counts_spec W HW (rev ed') blocks) as Hat.
  destruct (add_tree_counts W (rev ed') blocks) as [bl'| | |] eqn:Ea; cbn [obind] in Hc; try done. injection Hc as <-. unfold set_graph in *. cbn [f_edges f_blocks] in *.
  intros b blk' Hl. destruct (Hat) with (a := bl') (b := b) (blk' := blk') as (blk & Hb & Hv); [|done|done|].
  - intros b0 blk0 Hl0. rewrite osum_rev, (Hcons0 _ _ Hl0). pose proof (Hfit b0) as Hf. rewrite osum_split in Hf. lia.
  - rewrite Hv, osum_rev, (Hcons0 _ _ Hb), osum_split. done.
Qed.
