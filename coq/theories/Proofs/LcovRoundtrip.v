(* C05: what output_lcov writes, parse_lcov reads back unchanged. *)
From Grcov Require Import Model.Lcov Model.LcovSpec Model.LcovOut Proofs.MergeFacts Proofs.LcovFacts.
From Grcov Require Import Proofs.LcovStep Proofs.LcovRecs Proofs.LcovSem.
From Coq Require Import ZifyBool ZifyN ZifyNat.
Import Coq.Strings.String.StringSyntax.
Ltac Zify.zify_post_hook ::= Z.div_mod_to_equations.

(* hypotheses of the property: no line terminator in paths and function names; numbers in range;
   branch vectors non-empty (an invariant of everything grcov's parsers produce) *)
Definition cov_ok (c : cov) : Prop :=
  (forall n x, c_lines c !! n = Some x -> n < two32 /\ x < two64) /\
  (forall n v, c_branches c !! n = Some v -> n < two32 /\ v <> [] /\ N.of_nat (length v) <= two32) /\
  (forall f g, c_funcs c !! f = Some g -> name_ok f = true /\ f_start g < two32).
Definition results_ok (rs : list (name * cov)) : Prop := Forall (fun r => name_ok r.1 = true /\ cov_ok r.2) rs.

(** * print_dec *)
Lemma print_dec_aux_spec f : forall n acc, n < 2 ^ N.of_nat (S f) ->
  exists ds, print_dec_aux (S f) n acc = ds ++ acc /\ ds <> [] /\
             forallb is_digit ds = true /\ dec_val ds = n.
Proof.
  assert (Hsmall : forall n acc, (n <? 10) = true ->
            exists ds, (48 + n mod 10) :: acc = ds ++ acc /\ ds <> [] /\
                       forallb is_digit ds = true /\ dec_val ds = n).
  { intros n acc Hn. exists [48 + n mod 10]. split; [reflexivity|]. split; [discriminate|]. split.
    - cbn [forallb]. unfold is_digit. lia.
    - unfold dec_val. cbn [fold_left]. lia. }
  induction f as [|f IH]; intros n acc Hn.
  - cbn [print_dec_aux]. change (2 ^ N.of_nat 1) with 2 in Hn.
    assert ((n <? 10) = true) as E by lia. rewrite E. apply Hsmall, E.
  - remember (S f) as f' eqn:Ef. cbn [print_dec_aux]. destruct (n <? 10) eqn:E; [apply Hsmall, E|].
    rewrite Nat2N.inj_succ, N.pow_succ_r' in Hn.
    destruct (IH (n / 10) ((48 + n mod 10) :: acc)) as (ds & Hds & Hne & Hdig & Hval).
    { subst f'. set (p := 2 ^ N.of_nat (S f)) in *. lia. }
    exists (ds ++ [48 + n mod 10]). rewrite Hds, <- app_assoc. split; [reflexivity|].
    split; [intros H; apply app_eq_nil in H as [_ H]; discriminate|]. split.
    + rewrite forallb_app, Hdig. cbn [forallb]. unfold is_digit. lia.
    + unfold dec_val in *. rewrite fold_left_app, Hval. cbn [fold_left]. lia.
Qed.
Lemma print_dec_spec n :
  print_dec n <> [] /\ forallb is_digit (print_dec n) = true /\ dec_val (print_dec n) = n.
Proof.
  unfold print_dec.
  destruct (print_dec_aux_spec (N.to_nat (N.log2 n)) n []) as (ds & Hds & Hne & Hdig & Hval).
  - rewrite Nat2N.inj_succ, N2Nat.id. destruct (N.eq_dec n 0) as [->|Hn]; [reflexivity|].
    apply N.log2_spec. lia.
  - rewrite Hds, app_nil_r. auto.
Qed.
Lemma dec_val_print_dec : forall n, dec_val (print_dec n) = n.
Proof. intros n. apply print_dec_spec. Qed.
Lemma print_dec_digits : forall n, digits (print_dec n) = true.
Proof.
  intros n. destruct (print_dec_spec n) as (Hne & Hdig & _). unfold digits.
  rewrite Hdig, bool_decide_false by assumption. reflexivity.
Qed.
Lemma print_dec_no_lf n : no_lf (print_dec n) = true.
Proof.
  destruct (print_dec_spec n) as (_ & Hdig & _).
  eapply forallb_impl; [apply is_digit_not_lf|exact Hdig].
Qed.

(** * the file that output_lcov writes, as records *)
Definition fn_recs (fs : list (name * func)) : list rec :=
  map (fun p => RFN (print_dec (f_start p.2)) p.1) fs ++
  map (fun p => RFNDA (if f_exec p.2 then [49] else [48]) p.1) fs ++
  match fs with
  | [] => []
  | _ => [RSkip (bs "FNF") (print_dec (N.of_nat (length fs)));
          RSkip (bs "FNH") (print_dec (N.of_nat (length (filter (fun p => f_exec p.2 = true) fs))))]
  end.
Definition br_blk (p : N * list bool) : list rec :=
  imap (fun (n : nat) (b : bool) =>
          RBRDA (print_dec p.1) [48] (print_dec (N.of_nat n)) (if b then Some [49] else None)) p.2.
Definition br_recs (bl : list (N * list bool)) : list rec :=
  concat (map br_blk bl) ++
  [RSkip (bs "BRF") (print_dec (N.of_nat (length (concat (map snd bl)))));
   RSkip (bs "BRH") (print_dec (count_true (concat (map snd bl))))].
Definition da_recs (ls : list (N * N)) : list rec :=
  map (fun p => RDA (print_dec p.1) (print_dec p.2)) ls ++
  [ROther (bs "LF:" ++ print_dec (N.of_nat (length ls)));
   ROther (bs "LH:" ++ print_dec (N.of_nat (length (filter (fun p => 0 <? p.2 = true) ls))))].
Definition recs_of (c : cov) : list rec :=
  fn_recs (map_to_list (c_funcs c)) ++ br_recs (map_to_list (c_branches c)) ++ da_recs (map_to_list (c_lines c)).
Definition lf_only (l : list rec) : list (rec * bool) := map (fun x => (x, false)) l.
Definition sec_of (r : name * cov) : section := mkSection [] r.1 false (lf_only (recs_of r.2)) false.
Definition file_of (rs : list (name * cov)) : lfile := mkLfile (map sec_of rs) [].

Lemma lf_only_fst l : (lf_only l).*1 = l.
Proof. induction l as [|x l IH]; [reflexivity|]. cbn. f_equal. exact IH. Qed.

(** ** rendering *)
Definition rr (l : list rec) : bytes := concat (map render_rec (lf_only l)).
Lemma rr_app l1 l2 : rr (l1 ++ l2) = rr l1 ++ rr l2.
Proof. unfold rr, lf_only. rewrite !map_app, concat_app. reflexivity. Qed.
Lemma rr_cons x l : rr (x :: l) = render_rec (x, false) ++ rr l.
Proof. reflexivity. Qed.
Lemma rr_nil : rr [] = [].
Proof. reflexivity. Qed.
Lemma rr_map {A} (g : A -> rec) l : rr (map g l) = concat (map (fun x => render_rec (g x, false)) l).
Proof. unfold rr, lf_only. rewrite !map_map. reflexivity. Qed.
Lemma rr_concat L : rr (concat L) = concat (map rr L).
Proof. induction L as [|l L IH]; [reflexivity|]. cbn [concat map]. rewrite rr_app, IH. reflexivity. Qed.
Lemma rr_imap {A} (g : nat -> A -> rec) v :
  rr (imap g v) = concat (imap (fun i x => render_rec (g i x, false)) v).
Proof.
  revert g; induction v as [|x v IH]; intros g; [reflexivity|].
  rewrite !imap_cons, rr_cons. cbn [concat]. f_equal. apply IH.
Qed.

Ltac norm_render :=
  unfold render_rec, ln, eol; cbn [fst snd default from_option id]; rewrite <- ?app_assoc; reflexivity.

Lemma rr_fn_recs fs : rr (fn_recs fs) = out_funcs fs.
Proof.
  unfold fn_recs, out_funcs. rewrite !rr_app, !rr_map. f_equal; [|f_equal].
  - f_equal. apply map_ext. intros [nm f]. norm_render.
  - f_equal. apply map_ext. intros [nm f]. norm_render.
  - destruct fs as [|p fs]; [reflexivity|]. rewrite !rr_cons, rr_nil, app_nil_r. f_equal; norm_render.
Qed.
Lemma rr_br_recs bl : rr (br_recs bl) = out_branches bl.
Proof.
  unfold br_recs, out_branches. rewrite rr_app, rr_concat, map_map. f_equal.
  - f_equal. apply map_ext. intros [l v]. unfold br_blk, out_branch_line. cbn [fst snd].
    rewrite rr_imap. f_equal. apply imap_ext. intros i b _.
    change (bs ",0,") with [44; 48; 44]. destruct b; norm_render.
  - rewrite !rr_cons, rr_nil, app_nil_r. f_equal; norm_render.
Qed.
Lemma rr_da_recs ls : rr (da_recs ls) = out_lines ls.
Proof.
  unfold da_recs, out_lines. rewrite rr_app, rr_map. f_equal.
  - f_equal. apply map_ext. intros [l c]. norm_render.
  - rewrite !rr_cons, rr_nil, app_nil_r. f_equal; norm_render.
Qed.
Lemma render_sec_of r : render_section (sec_of r) = out_section r.
Proof.
  unfold render_section, sec_of, out_section. cbn [s_pre s_name s_name_crlf s_recs s_end_crlf map concat app].
  fold (rr (recs_of r.2)). unfold recs_of. rewrite !rr_app, rr_fn_recs, rr_br_recs, rr_da_recs.
  unfold ln, eol. rewrite <- !app_assoc. reflexivity.
Qed.
Lemma render_file_of rs : bs "TN:" ++ [10] ++ render_file (file_of rs) = output_lcov rs.
Proof.
  unfold render_file, file_of, output_lcov. cbn [l_sections l_trailer map concat].
  rewrite app_nil_r, map_map. do 3 f_equal. apply map_ext. intros r. apply render_sec_of.
Qed.

(** ** well-formedness *)
Lemma Forall_forallb {A} (f : A -> bool) l : Forall (fun x => f x = true) l -> forallb f l = true.
Proof. induction 1 as [|x l Hx _ IH]; [reflexivity|]. cbn. rewrite Hx, IH. reflexivity. Qed.

Lemma elem_of_concat {A} (x : A) (L : list (list A)) : x ∈ concat L -> exists l, x ∈ l /\ l ∈ L.
Proof.
  induction L as [|l L IH]; cbn [concat]; [inversion 1|].
  intros H. apply elem_of_app in H as [H|H].
  - exists l. split; [exact H|left].
  - destruct (IH H) as (l' & H1 & H2). exists l'. split; [exact H1|right; exact H2].
Qed.

Definition skip_key_ok (key : bytes) : bool :=
  forallb is_upper key && (Nat.leb (length key) 4) && from_option starts_sdfb false (head key)
  && negb (bool_decide (key_val key ∈ [K_SF; K_DA; K_FN; K_FNDA; K_BRDA])).
Lemma wf_skip key n : skip_key_ok key = true -> wf_rec (RSkip key (print_dec n)) = true.
Proof. intros H. cbn [wf_rec]. fold (skip_key_ok key). rewrite H, print_dec_no_lf. reflexivity. Qed.
Lemma wf_other_L (k : bytes) n :
  no_lf k = true -> match k with [] => false | c :: _ => negb (starts_sdfb c) && negb (c =? ce) end = true ->
  wf_rec (ROther (k ++ print_dec n)) = true.
Proof.
  intros H1 H2. cbn [wf_rec]. unfold no_lf in *. rewrite forallb_app, H1. fold (no_lf (print_dec n)).
  rewrite print_dec_no_lf. destruct k; [discriminate|]. exact H2.
Qed.

Definition fs_ok (fs : list (name * func)) : Prop :=
  Forall (fun p => name_ok p.1 = true /\ f_start p.2 < two32) fs.
Definition bl_ok (bl : list (N * list bool)) : Prop :=
  Forall (fun p => p.1 < two32 /\ p.2 <> [] /\ N.of_nat (length p.2) <= two32) bl.
Definition ls_ok (ls : list (N * N)) : Prop :=
  Forall (fun p => p.1 < two32 /\ p.2 < two64) ls.

Lemma wf_fn_recs fs : fs_ok fs -> Forall (fun r => wf_rec r = true) (fn_recs fs).
Proof.
  intros Hok. unfold fn_recs. rewrite !Forall_app. split; [|split].
  - apply Forall_map. eapply Forall_impl; [exact Hok|]. intros [nm f] [Hnm Hs]. cbn [fst snd wf_rec] in *.
    rewrite print_dec_digits, dec_val_print_dec, Hnm. lia.
  - apply Forall_map. eapply Forall_impl; [exact Hok|]. intros [nm f] [Hnm Hs]. cbn [fst snd wf_rec] in *.
    rewrite Hnm. destruct (f_exec f); reflexivity.
  - destruct fs; [constructor|]. repeat constructor; apply wf_skip; reflexivity.
Qed.
Lemma wf_br_recs bl : bl_ok bl -> Forall (fun r => wf_rec r = true) (br_recs bl).
Proof.
  intros Hok. unfold br_recs. rewrite Forall_app. split.
  - apply Forall_forall. intros r Hr. apply elem_of_concat in Hr as (blk & Hr & Hblk).
    apply elem_of_list_fmap in Hblk as ([l v] & -> & Hp).
    unfold bl_ok in Hok. rewrite Forall_forall in Hok. destruct (Hok _ Hp) as (Hl & _ & Hlen). cbn [fst snd] in *.
    unfold br_blk in Hr. cbn [fst snd] in Hr. apply elem_of_lookup_imap in Hr as (i & b & -> & Hi).
    apply lookup_lt_Some in Hi. cbn [wf_rec].
    rewrite !print_dec_digits, !dec_val_print_dec.
    assert ((l <? two32) = true) as -> by lia.
    assert ((N.of_nat i <? two32) = true) as -> by lia.
    destruct b; reflexivity.
  - repeat constructor; apply wf_skip; reflexivity.
Qed.
Lemma wf_da_recs ls : ls_ok ls -> Forall (fun r => wf_rec r = true) (da_recs ls).
Proof.
  intros Hok. unfold da_recs. rewrite Forall_app. split.
  - apply Forall_map. eapply Forall_impl; [exact Hok|]. intros [l c] [Hl Hc]. cbn [fst snd wf_rec] in *.
    rewrite !print_dec_digits, !dec_val_print_dec. lia.
  - repeat constructor; apply wf_other_L; reflexivity.
Qed.

(* shape of the three groups of records *)
Definition fn_tail (fs : list (name * func)) : list rec :=
  match fs with
  | [] => []
  | _ => [RSkip (bs "FNF") (print_dec (N.of_nat (length fs)));
          RSkip (bs "FNH") (print_dec (N.of_nat (length (filter (fun p => f_exec p.2 = true) fs))))]
  end.
Definition mkFN (p : name * func) : rec := RFN (print_dec (f_start p.2)) p.1.
Definition mkFNDA (p : name * func) : rec := RFNDA (if f_exec p.2 then [49] else [48]) p.1.
Definition mkDA (p : N * N) : rec := RDA (print_dec p.1) (print_dec p.2).
Lemma fn_recs_eq fs : fn_recs fs = map mkFN fs ++ map mkFNDA fs ++ fn_tail fs.
Proof. reflexivity. Qed.

Lemma Forall_fn_tail (P : rec -> Prop) fs : (forall k t, P (RSkip k t)) -> Forall P (fn_tail fs).
Proof. intros H. destruct fs; repeat constructor; apply H. Qed.
Lemma Forall_mkFN (P : rec -> Prop) fs : (forall s nm, P (RFN s nm)) -> Forall P (map mkFN fs).
Proof. intros H. apply Forall_map, Forall_forall. intros p _. apply H. Qed.
Lemma Forall_mkFNDA (P : rec -> Prop) fs : (forall s nm, P (RFNDA s nm)) -> Forall P (map mkFNDA fs).
Proof. intros H. apply Forall_map, Forall_forall. intros p _. apply H. Qed.
Lemma Forall_br_recs (P : rec -> Prop) bl :
  (forall l b n t, P (RBRDA l b n t)) -> (forall k t, P (RSkip k t)) -> Forall P (br_recs bl).
Proof.
  intros H1 H2. unfold br_recs. rewrite Forall_app. split; [|repeat constructor; apply H2].
  apply Forall_forall. intros r Hr. apply elem_of_concat in Hr as (blk & Hr & Hblk).
  apply elem_of_list_fmap in Hblk as (p & -> & Hp).
  unfold br_blk in Hr. apply elem_of_lookup_imap in Hr as (i & b & -> & Hi). apply H1.
Qed.
Lemma Forall_da_recs (P : rec -> Prop) ls :
  (forall l c, P (RDA l c)) -> (forall t, P (ROther t)) -> Forall P (da_recs ls).
Proof.
  intros H1 H2. unfold da_recs. rewrite Forall_app. split; [|repeat constructor; apply H2].
  apply Forall_map, Forall_forall. intros p _. apply H1.
Qed.

(* records that are neither FN nor FNDA *)
Definition plain (r : rec) : Prop := match r with RFN _ _ | RFNDA _ _ => False | _ => True end.
Lemma plain_fn_names l : Forall plain l -> fn_names l = [].
Proof.
  induction 1 as [|r l Hr _ IH]; [reflexivity|]. unfold fn_names in *. cbn [omap list_omap].
  destruct r; cbn in Hr; try contradiction; exact IH.
Qed.
Lemma plain_fnda seen l : Forall plain l -> fnda_after_fn seen l = true.
Proof.
  induction 1 as [|r l Hr _ IH]; [reflexivity|]. destruct r; cbn in Hr; try contradiction; exact IH.
Qed.
Lemma plain_br_recs bl : Forall plain (br_recs bl).
Proof. apply Forall_br_recs; intros; exact I. Qed.
Lemma plain_da_recs ls : Forall plain (da_recs ls).
Proof. apply Forall_da_recs; intros; exact I. Qed.
Lemma plain_fn_tail fs : Forall plain (fn_tail fs).
Proof. apply Forall_fn_tail; intros; exact I. Qed.

Lemma fn_names_app l1 l2 : fn_names (l1 ++ l2) = fn_names l1 ++ fn_names l2.
Proof. apply omap_app. Qed.
Lemma fn_names_mkFN fs : fn_names (map mkFN fs) = fs.*1.
Proof. induction fs as [|p fs IH]; [reflexivity|]. cbn. f_equal. exact IH. Qed.
Lemma fn_names_mkFNDA fs : fn_names (map mkFNDA fs) = [].
Proof. induction fs as [|p fs IH]; [reflexivity|]. exact IH. Qed.
Lemma fnda_mkFN seen fs : fnda_after_fn seen (map mkFN fs) = true.
Proof. revert seen; induction fs as [|p fs IH]; intros seen; [reflexivity|]. apply IH. Qed.
Lemma fnda_mkFNDA seen fs : (forall p, p ∈ fs -> p.1 ∈ seen) -> fnda_after_fn seen (map mkFNDA fs) = true.
Proof.
  induction fs as [|p fs IH]; intros H; [reflexivity|]. cbn [map mkFNDA fnda_after_fn].
  rewrite bool_decide_true by (apply H; left). apply IH. intros q Hq. apply H. right. exact Hq.
Qed.

Lemma fn_names_recs_of c : fn_names (recs_of c) = (map_to_list (c_funcs c)).*1.
Proof.
  unfold recs_of. rewrite fn_recs_eq, !fn_names_app, fn_names_mkFN, fn_names_mkFNDA.
  rewrite (plain_fn_names _ (plain_fn_tail _)), (plain_fn_names _ (plain_br_recs _)),
    (plain_fn_names _ (plain_da_recs _)). rewrite !app_nil_r. reflexivity.
Qed.
Lemma fnda_recs_of c : fnda_after_fn [] (recs_of c) = true.
Proof.
  unfold recs_of. rewrite fn_recs_eq, <- !app_assoc.
  rewrite fnda_after_fn_app, fnda_mkFN, fn_names_mkFN. cbn [andb].
  rewrite fnda_after_fn_app, fnda_mkFNDA.
  - cbn [andb]. apply plain_fnda. rewrite !Forall_app.
    split; [apply plain_fn_tail|split; [apply plain_br_recs|apply plain_da_recs]].
  - intros p Hp. apply elem_of_app. left. apply elem_of_reverse. apply elem_of_list_fmap. eauto.
Qed.

Lemma cov_ok_lists c : cov_ok c ->
  fs_ok (map_to_list (c_funcs c)) /\ bl_ok (map_to_list (c_branches c)) /\ ls_ok (map_to_list (c_lines c)).
Proof.
  intros (Hl & Hb & Hf). split; [|split]; apply Forall_forall; intros [k v] Hin;
    apply elem_of_map_to_list in Hin; cbn [fst snd]; eauto.
Qed.
Lemma wf_recs_of c : cov_ok c -> Forall (fun r => wf_rec r = true) (recs_of c).
Proof.
  intros Hok. apply cov_ok_lists in Hok as (Hf & Hb & Hl). unfold recs_of. rewrite !Forall_app.
  split; [apply wf_fn_recs, Hf|split; [apply wf_br_recs, Hb|apply wf_da_recs, Hl]].
Qed.
Lemma wf_sec_of r : name_ok r.1 = true -> cov_ok r.2 -> wf_section (sec_of r) = true.
Proof.
  destruct r as [nm c]. cbn [fst snd]. intros Hnm Hok. unfold wf_section, sec_of.
  cbn [s_pre s_name s_recs forallb andb fst snd].
  rewrite Hnm. cbn [andb]. rewrite lf_only_fst. apply andb_true_iff. split.
  - apply Forall_forallb. unfold lf_only. apply Forall_map. cbn [fst]. apply wf_recs_of, Hok.
  - apply bool_decide_eq_true. rewrite fn_names_recs_of. apply NoDup_fst_map_to_list.
Qed.
Lemma known_sec_of r : KnownClass_fnda_first (sec_of r) = false.
Proof.
  unfold KnownClass_fnda_first, sec_of. cbn [s_recs]. rewrite lf_only_fst, fnda_recs_of. reflexivity.
Qed.
Lemma wf_file_of rs : results_ok rs -> wf_file (file_of rs) = true.
Proof.
  intros Hok. unfold wf_file, file_of. cbn [l_sections l_trailer forallb]. rewrite andb_true_r.
  apply Forall_forallb, Forall_map. eapply Forall_impl; [exact Hok|].
  intros r [Hnm Hc]. apply wf_sec_of; assumption.
Qed.
Lemma known_file_of rs : existsb KnownClass_fnda_first (l_sections (file_of rs)) = false.
Proof.
  unfold file_of. cbn [l_sections]. induction rs as [|r rs IH]; [reflexivity|].
  cbn [map existsb]. rewrite known_sec_of, IH. reflexivity.
Qed.

(** * the records of c say c *)
Section msum.
  Context {V : Type} (f : V -> V -> V).
  Context (f_comm : forall a b, f a b = f b a) (f_assoc : forall a b c, f (f a b) c = f a (f b c)).
  Context (F : rec -> option V).
  Definition msum (l : list rec) : option V := foldl (ow f) None (map F l).
  Lemma msum_app l1 l2 : msum (l1 ++ l2) = ow f (msum l1) (msum l2).
  Proof.
    unfold msum. rewrite map_app.
    apply (foldl_op_app (ow f) None).
    - intros a b. apply ow_comm, f_comm.
    - intros a b c. apply ow_assoc, f_assoc.
    - intros a. apply ow_none_l.
  Qed.
  Lemma msum_none l : Forall (fun r => F r = None) l -> msum l = None.
  Proof.
    unfold msum. induction 1 as [|r l Hr _ IH]; [reflexivity|]. cbn [map foldl]. rewrite Hr. exact IH.
  Qed.
  Lemma msum_blocks (blk : N * V -> list rec) (ls : list (N * V)) (n : N) :
    NoDup ls.*1 ->
    (forall p, p ∈ ls -> msum (blk p) = if p.1 =? n then Some p.2 else None) ->
    msum (concat (map blk ls)) = (list_to_map ls : gmap N V) !! n.
  Proof.
    induction ls as [|[k v] ls IH]; intros Hnd Hblk; [reflexivity|].
    cbn [map concat]. rewrite msum_app. cbn [fmap list_fmap fst] in Hnd. apply NoDup_cons in Hnd as [Hnotin Hnd].
    rewrite (Hblk (k, v)) by left. rewrite IH; [|assumption|intros p Hp; apply Hblk; right; exact Hp].
    cbn [fst snd list_to_map foldr]. destruct (k =? n) eqn:E.
    - assert (k = n) as -> by lia. rewrite lookup_insert.
      rewrite (not_elem_of_list_to_map_1 _ _ Hnotin). reflexivity.
    - rewrite lookup_insert_ne by lia. apply ow_none_l.
  Qed.
End msum.

(** ** lines *)
Lemma spec_line_msum rs n :
  Forall (fun r => wf_rec r = true) rs -> spec_line rs n = msum sat_add64 (da_count n) rs.
Proof.
  intros Hwf. unfold spec_line, msum. rewrite foldl_osat_none; [reflexivity|].
  apply Forall_map. eapply Forall_impl; [exact Hwf|]. clear. intros r Hwf x Hx. cbn beta in *.
  destruct r; cbn [da_count wf_rec] in *; try discriminate.
  - apply andb_true_iff in Hwf as [_ Hc]. destruct (dec_val l =? n); [|discriminate].
    injection Hx as <-. unfold two64, U64_MAX in *. lia.
  - destruct (dec_val l =? n); [|discriminate]. injection Hx as <-. unfold U64_MAX. lia.
Qed.
Lemma concat_singletons {A B} (g : A -> B) l : concat (map (fun p => [g p]) l) = map g l.
Proof. induction l as [|p l IH]; [reflexivity|]. cbn [map concat app]. f_equal. exact IH. Qed.

Lemma lines_recs_of c n : cov_ok c -> spec_line (recs_of c) n = c_lines c !! n.
Proof.
  intros Hok. rewrite spec_line_msum by (apply wf_recs_of, Hok). unfold recs_of.
  rewrite !msum_app by (apply sat_add64_comm || apply sat_add64_assoc).
  rewrite (msum_none _ (da_count n) (fn_recs _)).
  2:{ rewrite fn_recs_eq, !Forall_app. split; [|split];
        [apply Forall_mkFN|apply Forall_mkFNDA|apply Forall_fn_tail]; reflexivity. }
  rewrite (msum_none _ (da_count n) (br_recs _)) by (apply Forall_br_recs; reflexivity).
  rewrite !ow_none_l. unfold da_recs. rewrite msum_app by (apply sat_add64_comm || apply sat_add64_assoc).
  rewrite (msum_none _ (da_count n) [_; _]) by (repeat constructor). rewrite ow_none_r.
  fold mkDA. rewrite <- (concat_singletons mkDA).
  rewrite (msum_blocks sat_add64 sat_add64_comm sat_add64_assoc (da_count n) _ _ n).
  - rewrite list_to_map_to_list. reflexivity.
  - apply NoDup_fst_map_to_list.
  - intros [l x] _. unfold msum, mkDA. cbn [map foldl da_count fst snd]. rewrite !dec_val_print_dec.
    destruct (l =? n); reflexivity.
Qed.

(** ** branches *)
Lemma spec_branch_msum rs n : spec_branch rs n = msum or_vec (br_vec n) rs.
Proof. symmetry. apply branches_spec. Qed.

Lemma fold_unit_vecs v : forall pre,
  foldl (ow or_vec) (Some pre) (imap (fun (i : nat) (b : bool) => Some (replicate (length pre + i) false ++ [b])) v)
  = Some (pre ++ v).
Proof.
  induction v as [|x v IH]; intros pre; [rewrite app_nil_r; reflexivity|].
  rewrite imap_cons. cbn [foldl]. unfold ow at 2. cbn [union_with option_union_with].
  rewrite or_vec_pad. cbn [replicate app].
  rewrite (imap_ext _ (fun (i : nat) (b : bool) => Some (replicate (length (pre ++ [x]) + i) false ++ [b]))).
  - rewrite IH, <- app_assoc. reflexivity.
  - intros i b _. unfold compose. rewrite app_length. cbn [length]. do 3 f_equal. lia.
Qed.
Lemma msum_br_blk n l v :
  v <> [] -> msum or_vec (br_vec n) (br_blk (l, v)) = if l =? n then Some v else None.
Proof.
  intros Hv. unfold br_blk. cbn [fst snd].
  assert (Hvec : forall (i : nat) (b : bool),
            br_vec n (RBRDA (print_dec l) [48] (print_dec (N.of_nat i)) (if b then Some [49] else None)) =
            if l =? n then Some (replicate i false ++ [b]) else None).
  { intros i b. unfold br_vec. cbn [brn br_tk]. rewrite !dec_val_print_dec.
    destruct (l =? n); [|reflexivity]. cbn [fmap option_fmap option_map]. rewrite Nat2N.id.
    destruct b; reflexivity. }
  destruct (l =? n) eqn:E.
  - unfold msum. change (map (br_vec n) ?x) with (br_vec n <$> x). rewrite fmap_imap.
    rewrite (imap_ext _ (fun (i : nat) (b : bool) => Some (replicate i false ++ [b])))
      by (intros i b _; unfold compose; apply Hvec).
    destruct v as [|x v]; [congruence|]. rewrite imap_cons. cbn [foldl]. rewrite ow_none_l.
    cbn [replicate app].
    rewrite (imap_ext _ (fun (i : nat) (b : bool) => Some (replicate (length [x] + i) false ++ [b])))
      by (intros i b _; reflexivity).
    apply fold_unit_vecs.
  - apply msum_none. apply Forall_forall. intros r Hr.
    apply elem_of_lookup_imap in Hr as (i & b & -> & _). apply Hvec.
Qed.
Lemma branches_recs_of c n : cov_ok c -> spec_branch (recs_of c) n = c_branches c !! n.
Proof.
  intros Hok. rewrite spec_branch_msum. unfold recs_of.
  rewrite !msum_app by (apply or_vec_comm || apply or_vec_assoc).
  rewrite (msum_none _ (br_vec n) (fn_recs _)).
  2:{ rewrite fn_recs_eq, !Forall_app. split; [|split];
        [apply Forall_mkFN|apply Forall_mkFNDA|apply Forall_fn_tail]; reflexivity. }
  rewrite (msum_none _ (br_vec n) (da_recs _)) by (apply Forall_da_recs; reflexivity).
  rewrite ow_none_l, ow_none_r. unfold br_recs. rewrite msum_app by (apply or_vec_comm || apply or_vec_assoc).
  rewrite (msum_none _ (br_vec n) [_; _]) by (repeat constructor). rewrite ow_none_r.
  rewrite (msum_blocks or_vec or_vec_comm or_vec_assoc (br_vec n) _ _ n).
  - rewrite list_to_map_to_list. reflexivity.
  - apply NoDup_fst_map_to_list.
  - intros [l v] Hp. cbn [fst snd]. apply msum_br_blk.
    apply elem_of_map_to_list in Hp. destruct Hok as (_ & Hb & _). apply (Hb l v Hp).
Qed.

(** ** functions *)
Lemma omap_none {A B} (g : A -> option B) l : Forall (fun r => g r = None) l -> omap g l = [].
Proof. induction 1 as [|r l Hr _ IH]; [reflexivity|]. cbn [omap list_omap]. rewrite Hr. exact IH. Qed.
Lemma existsb_none {A} (g : A -> bool) l : Forall (fun r => g r = false) l -> existsb g l = false.
Proof. induction 1 as [|r l Hr _ IH]; [reflexivity|]. cbn [existsb]. rewrite Hr. exact IH. Qed.

Lemma start_mkFN fs f :
  NoDup fs.*1 ->
  omap (fn_start f) (map mkFN fs) =
  match (list_to_map fs : gmap name func) !! f with Some g => [f_start g] | None => [] end.
Proof.
  induction fs as [|[nm g] fs IH]; intros Hnd; [reflexivity|].
  cbn [fmap list_fmap fst] in Hnd. apply NoDup_cons in Hnd as [Hnotin Hnd].
  cbn [map mkFN omap list_omap fn_start fst snd list_to_map foldr]. rewrite dec_val_print_dec.
  destruct (decide (nm = f)) as [->|Hne].
  - rewrite bool_decide_true by reflexivity. rewrite lookup_insert.
    change (omap (fn_start f) (map mkFN fs)) with (omap (fn_start f) (map mkFN fs)).
    rewrite (IH Hnd). rewrite (not_elem_of_list_to_map_1 _ _ Hnotin). reflexivity.
  - rewrite bool_decide_false by assumption. rewrite lookup_insert_ne by assumption. apply IH, Hnd.
Qed.
Lemma hit_mkFNDA fs f :
  NoDup fs.*1 ->
  existsb (fnda_hit f) (map mkFNDA fs) =
  match (list_to_map fs : gmap name func) !! f with Some g => f_exec g | None => false end.
Proof.
  induction fs as [|[nm g] fs IH]; intros Hnd; [reflexivity|].
  cbn [fmap list_fmap fst] in Hnd. apply NoDup_cons in Hnd as [Hnotin Hnd].
  cbn [map mkFNDA existsb fnda_hit fst snd list_to_map foldr].
  destruct (decide (nm = f)) as [->|Hne].
  - rewrite bool_decide_true by reflexivity. rewrite lookup_insert.
    rewrite (IH Hnd). rewrite (not_elem_of_list_to_map_1 _ _ Hnotin).
    destruct (f_exec g); reflexivity.
  - rewrite bool_decide_false by assumption. rewrite lookup_insert_ne by assumption. apply IH, Hnd.
Qed.
Lemma funcs_recs_of c f : spec_func (recs_of c) f = c_funcs c !! f.
Proof.
  rewrite spec_func_eq. unfold recs_of. rewrite fn_recs_eq.
  rewrite !omap_app, !existsb_app.
  rewrite (omap_none (fn_start f) (map mkFNDA _)) by (apply Forall_mkFNDA; reflexivity).
  rewrite (omap_none (fn_start f) (fn_tail _)) by (apply Forall_fn_tail; reflexivity).
  rewrite (omap_none (fn_start f) (br_recs _)) by (apply Forall_br_recs; reflexivity).
  rewrite (omap_none (fn_start f) (da_recs _)) by (apply Forall_da_recs; reflexivity).
  rewrite (existsb_none (fnda_hit f) (map mkFN _)) by (apply Forall_mkFN; reflexivity).
  rewrite (existsb_none (fnda_hit f) (fn_tail _)) by (apply Forall_fn_tail; reflexivity).
  rewrite (existsb_none (fnda_hit f) (br_recs _)) by (apply Forall_br_recs; reflexivity).
  rewrite (existsb_none (fnda_hit f) (da_recs _)) by (apply Forall_da_recs; reflexivity).
  rewrite !app_nil_r, !orb_false_r. cbn [orb].
  rewrite start_mkFN, hit_mkFNDA by apply NoDup_fst_map_to_list.
  rewrite list_to_map_to_list. destruct (c_funcs c !! f) as [[s e]|]; reflexivity.
Qed.

Lemma sec_spec_recs_of c : cov_ok c -> sec_spec true (recs_of c) c.
Proof.
  intros Hok. split; [|split].
  - intros n. symmetry. apply lines_recs_of, Hok.
  - intros n. symmetry. apply branches_recs_of, Hok.
  - intros f. symmetry. apply funcs_recs_of.
Qed.
Definition strip (c : cov) : cov := mkCov (c_lines c) ∅ (c_funcs c).
Lemma sec_spec_recs_of_nobranch c : cov_ok c -> sec_spec false (recs_of c) (strip c).
Proof.
  intros Hok. split; [|split]; cbn [strip c_lines c_branches c_funcs].
  - intros n. symmetry. apply lines_recs_of, Hok.
  - intros n. apply lookup_empty.
  - intros f. symmetry. apply funcs_recs_of.
Qed.

(** * the round trip *)
Lemma parse_output b rs :
  results_ok rs ->
  exists res, parse_lcov (output_lcov rs) b = Ok res /\
              Forall2 (fun s r => r.1 = s_name s /\ sec_spec b (s_recs s).*1 r.2) (map sec_of rs) res.
Proof.
  intros Hok.
  destruct (parse_lcov_sound b (file_of rs) (wf_file_of rs Hok) (known_file_of rs)) as (res & Hres & Hall).
  exists res. split; [|exact Hall].
  rewrite <- render_file_of. rewrite parse_lcov_run in *.
  change (bs "TN:" ++ [10] ++ render_file (file_of rs))
    with (render_rec (ROther (bs "TN:"), false) ++ render_file (file_of rs)).
  rewrite run_ROther by reflexivity. exact Hres.
Qed.

Lemma results_determined b (T : cov -> cov) rs res :
  Forall (fun r => sec_spec b (recs_of r.2) (T r.2)) rs ->
  Forall2 (fun s r => r.1 = s_name s /\ sec_spec b (s_recs s).*1 r.2) (map sec_of rs) res ->
  res = map (fun r => (r.1, T r.2)) rs.
Proof.
  intros Hspec. revert res. induction Hspec as [|r rs Hr _ IH]; intros res H; cbn [map] in *.
  - inversion H. reflexivity.
  - inversion H as [|s y ss res' [Hn Hs] Hrest]; subst. f_equal; [|apply IH, Hrest].
    destruct y as [nm c]. cbn [fst snd sec_of s_name s_recs] in *. rewrite lf_only_fst in Hs.
    f_equal; [exact Hn|]. eapply sec_spec_unique; eassumption.
Qed.

Theorem lcov_roundtrip : forall rs, results_ok rs -> parse_lcov (output_lcov rs) true = Ok rs.
Proof.
  intros rs Hok. destruct (parse_output true rs Hok) as (res & Hres & Hall). rewrite Hres. f_equal.
  rewrite (results_determined true (fun c => c) rs res); [| |exact Hall].
  - clear. induction rs as [|[nm c] rs IH]; [reflexivity|]. cbn [map fst snd]. f_equal. exact IH.
  - eapply Forall_impl; [exact Hok|]. intros r [_ Hc]. apply sec_spec_recs_of, Hc.
Qed.
Theorem lcov_roundtrip_nobranch : forall rs, results_ok rs ->
  parse_lcov (output_lcov rs) false = Ok (map (fun r => (r.1, mkCov (c_lines r.2) ∅ (c_funcs r.2))) rs).
Proof.
  intros rs Hok. destruct (parse_output false rs Hok) as (res & Hres & Hall). rewrite Hres. f_equal.
  apply (results_determined false strip rs res); [|exact Hall].
  eapply Forall_impl; [exact Hok|]. intros r [_ Hc]. apply sec_spec_recs_of_nobranch, Hc.
Qed.
Theorem lcov_fixed_point : forall rs rs', results_ok rs ->
  parse_lcov (output_lcov rs) true = Ok rs' -> output_lcov rs' = output_lcov rs.
Proof. intros rs rs' Hok H. rewrite lcov_roundtrip in H by assumption. congruence. Qed.
Theorem lcov_iter : forall k rs, results_ok rs ->
  Nat.iter k (fun o => match o with Ok r => parse_lcov (output_lcov r) true | e => e end) (Ok rs) = Ok rs.
Proof.
  intros k rs Hok. induction k as [|k IH]; [reflexivity|].
  cbn [Nat.iter nat_rect]. unfold Nat.iter in IH. rewrite IH. apply lcov_roundtrip, Hok.
Qed.

Print Assumptions dec_val_print_dec.
Print Assumptions print_dec_digits.
Print Assumptions lcov_roundtrip.
Print Assumptions lcov_roundtrip_nobranch.
Print Assumptions lcov_fixed_point.
Print Assumptions lcov_iter.
