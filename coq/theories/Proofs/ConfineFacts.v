From Grcov Require Import Model.Confine.
From Coq Require Import ZifyBool ZifyN ZifyNat.
Import Coq.Strings.String.StringSyntax.

Lemma walk_safe st ss : forallb is_name ss = true -> exists more, walk st ss = more ++ st.
Proof.
  revert st. induction ss as [|s ss IH]; intros st H; [exists []; reflexivity|].
  cbn [forallb] in H. apply andb_true_iff in H as [H1 H2]. destruct s; [| discriminate |]; cbn [walk].
  - apply IH, H2.
  - destruct (IH (n :: st) H2) as [more E]. exists (more ++ [n]). rewrite E, <- app_assoc. reflexivity.
Qed.
Lemma safe_confined root p : safe p = true -> resolves_under root p.
Proof.
  unfold safe, resolves_under, resolve. intros [Ha Hs]%andb_true_iff. apply negb_true_iff in Ha. rewrite Ha.
  destruct (walk_safe (rev root) _ Hs) as [more E]. exists (rev more). rewrite E, rev_app_distr, rev_involutive. reflexivity.
Qed.
Lemma forallb_removelast {A} (f : A -> bool) l : forallb f l = true -> forallb f (removelast l) = true.
Proof.
  induction l as [|x l IH]; [reflexivity|]. cbn [forallb]. intros [H1 H2]%andb_true_iff.
  destruct l as [|y l]; [reflexivity|]. change (removelast (x :: y :: l)) with (x :: removelast (y :: l)).
  cbn [forallb]. rewrite H1, (IH H2). reflexivity.
Qed.
Lemma with_file_name_safe p f : safe p = true -> safe (with_file_name p f) = true.
Proof.
  unfold safe, with_file_name. cbn [p_abs p_segs]. intros [Ha Hs]%andb_true_iff. rewrite Ha. cbn [andb].
  rewrite forallb_app, (forallb_removelast _ _ Hs). reflexivity.
Qed.
Lemma extract_confined tmp p f : safe p = true -> resolves_under tmp (extract_dest p f).
Proof. intros H. apply safe_confined, with_file_name_safe, H. Qed.
Lemma html_confined out rel f : safe rel = true -> resolves_under out (html_dest rel f).
Proof. intros H. apply safe_confined, with_file_name_safe, H. Qed.
Lemma resolves_underb_spec root p : resolves_underb root p = true <-> resolves_under root p.
Proof.
  unfold resolves_underb, resolves_under. rewrite bool_decide_eq_true. split.
  - intros H. exists (drop (length root) (resolve root p)).
    rewrite <- (take_drop (length root) (resolve root p)) at 1. rewrite H. reflexivity.
  - intros [rest ->]. rewrite take_app. reflexivity.
Qed.
Lemma fixed_outputs_confined out : Forall (fun p => resolves_under out p) fixed_outputs.
Proof.
  apply Forall_forall. intros p Hp. apply safe_confined. revert p Hp. apply Forall_forall.
  unfold fixed_outputs. repeat (constructor; [vm_compute; reflexivity|]). constructor.
Qed.
Lemma worker_confined tmp i f : resolves_under tmp (worker_dir i) /\ resolves_under tmp (gcov_out i f).
Proof. split; apply safe_confined; reflexivity. Qed.
