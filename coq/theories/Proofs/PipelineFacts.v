(* Facts about the pipeline transition system of Model/Pipeline.v (DESIGN.md Appendix A, E3):
   termination measure, conservation of items, exactly-once merging, exit status, absence of
   stuck states without the main thread's receiver handle (and a stuck run with it). *)
From Grcov Require Import Model.Pipeline Proofs.MergeFacts.
From Coq Require Import ZifyBool ZifyN ZifyNat.

Definition batch (c : cfg) (i : N) : list (name * cov) := default [] (parse c i).
Definition accepted (c : cfg) (i : N) : bool :=
  match fault c i, parse c i with FNone, Some _ => true | _, _ => false end.
Definition no_deaths (c : cfg) (items : list N) : Prop :=
  forall i, i ∈ items -> fault c i = FNone \/ fault c i = FReject.

(** * Generalities *)

(* case analysis of one step: the state is split into its fields, the label and every
   scrutinee of [step] are destructed, impossible branches are discarded *)
Ltac proj_cbn :=
  cbn [s_p s_q s_w s_acc s_poisoned s_m s_merged s_rejected s_lost exited set_w set_m] in *.
Ltac step_cases H :=
  unfold step, set_w, set_m in H; proj_cbn;
  repeat (match type of H with
          | context [match ?x with _ => _ end] => (is_var x; destruct x) || destruct x eqn:?
          end; cbv beta iota in H; try discriminate H);
  match type of H with Some _ = Some _ => inversion H; subst; clear H end; proj_cbn.

Definition wsum (f : wst -> nat) (ws : list wst) : nat := foldr (fun w a => (f w + a)%nat) 0%nat ws.
Lemma wsum_insert f ws w x y :
  ws !! w = Some x -> (wsum f (<[w := y]> ws) + f x = wsum f ws + f y)%nat.
Proof.
  unfold wsum. revert w; induction ws as [|a ws IH]; intros [|w] H; try discriminate; simpl in *.
  - inversion H; subst. lia.
  - specialize (IH _ H). lia.
Qed.

(** * T1: the measure decreases *)
Theorem step_decreases : forall c s l s',
  length (s_w s) = n_workers c -> step c s l = Some s' ->
  (measure c s' < measure c s)%nat /\ length (s_w s') = n_workers c.
Proof.
  intros c [p q ws acc po m mg rj lo] l s' Hlen H.
  step_cases H; unfold measure; proj_cbn;
    rewrite ?app_length, ?insert_length; cbn [length p_rank m_rank];
    (split; [|assumption]);
    try match goal with
        | Hw : ?ws !! ?w = Some ?x |- context [<[?w := ?y]> ?ws] =>
            pose proof (wsum_insert w_rank ws w x y Hw) as Hs; unfold wsum in Hs; cbn [w_rank] in Hs
        end;
    try match goal with
        | Hw : ?ws !! ?w = Some _ |- _ => pose proof (lookup_lt_Some _ _ _ Hw)
        end;
    lia.
Qed.

Lemma run_length c s ls s' :
  length (s_w s) = n_workers c -> run c s ls = Some s' -> (length ls <= measure c s)%nat.
Proof.
  revert s; induction ls as [|l ls IH]; intros s Hl H; simpl in *; [lia|].
  destruct (step c s l) as [s1|] eqn:E; [|discriminate].
  destruct (step_decreases _ _ _ _ Hl E) as [Hm Hl1]. specialize (IH _ Hl1 H). lia.
Qed.
Theorem terminates : forall c items ls s,
  run c (init c items) ls = Some s -> (length ls <= measure c (init c items))%nat.
Proof. intros c items ls s. apply run_length. simpl. apply replicate_length. Qed.

(* invariants: a predicate that holds initially and is preserved by every step holds after a run *)
Lemma run_inv (P : st -> Prop) c s ls s' :
  (forall s l s', P s -> step c s l = Some s' -> P s') -> P s -> run c s ls = Some s' -> P s'.
Proof.
  intros Hstep. revert s; induction ls as [|l ls IH]; intros s HP H; simpl in *.
  - congruence.
  - destruct (step c s l) as [s1|] eqn:E; [|discriminate]. eauto.
Qed.

(** * T2: conservation *)
Definition hf (w : wst) : option N := match w with WHolding i | WParsed i => Some i | _ => None end.
Definition prem (p : pst) : list N := match p with PRun r => r | _ => [] end.
Definition tracked (s : st) : list N :=
  prem (s_p s) ++ omap id (s_q s) ++ omap hf (s_w s) ++ s_merged s ++ s_rejected s ++ s_lost s.

Lemma omap_middle {A B} (f : A -> option B) l1 x l2 :
  omap f (l1 ++ x :: l2) ≡ₚ option_list (f x) ++ omap f l1 ++ omap f l2.
Proof. rewrite omap_app. simpl. destruct (f x); simpl; solve_Permutation. Qed.
Lemma omap_insert_perm ws w x :
  ws !! w = Some x ->
  exists rest, omap hf ws ≡ₚ option_list (hf x) ++ rest /\
               forall y, omap hf (<[w := y]> ws) ≡ₚ option_list (hf y) ++ rest.
Proof.
  intros H. exists (omap hf (take w ws) ++ omap hf (drop (S w) ws)). split.
  - rewrite <- (take_drop_middle _ _ _ H) at 1. apply omap_middle.
  - intros y. rewrite insert_take_drop by (eapply lookup_lt_Some; eassumption). apply omap_middle.
Qed.

(* the producer's remaining items are dropped when it dies: [d] is that remainder *)
Definition cons_inv (items : list N) (s : st) : Prop :=
  exists d, items ≡ₚ tracked s ++ d /\ (s_p s <> PDead -> d = []).

Ltac use_lookup :=
  match goal with
  | Hw : ?ws !! ?w = Some ?x |- _ =>
      let rest := fresh "rest" in let Hr1 := fresh "Hr1" in let Hr2 := fresh "Hr2" in
      destruct (omap_insert_perm ws w x Hw) as (rest & Hr1 & Hr2)
  end.

Lemma cons_inv_step c items s l s' : cons_inv items s -> step c s l = Some s' -> cons_inv items s'.
Proof.
  intros (d & Hp & Hd) H. unfold cons_inv, tracked in *. destruct s as [p q ws acc po m mg rj lo]. proj_cbn.
  step_cases H; try use_lookup;
  first
  [ exists d; split;
    [ rewrite Hp; try rewrite Hr1; try rewrite Hr2; rewrite ?omap_app; simpl; solve_Permutation
    | first [ exact Hd | intros; apply Hd; congruence | intros; congruence ] ]
  | specialize (Hd ltac:(discriminate)); subst d; cbn [prem] in Hp;
    match type of Hp with _ ≡ₚ ((?a :: ?r) ++ _) ++ _ => exists (a :: r) end;
    split; [ rewrite Hp; simpl; solve_Permutation | intros; congruence ] ].
Qed.

Lemma omap_hf_replicate_idle n : omap hf (replicate n WIdle) = [].
Proof. induction n; simpl; auto. Qed.
Lemma cons_inv_init c items : cons_inv items (init c items).
Proof.
  exists []. split; [|reflexivity]. unfold tracked, init; proj_cbn.
  rewrite omap_hf_replicate_idle. simpl. rewrite !app_nil_r. reflexivity.
Qed.

(* stronger form: the tracked items together with the remainder [d] dropped by a dead producer
   are the input, and nothing is dropped while the producer has not died *)
Theorem conservation_strong : forall c items ls s,
  run c (init c items) ls = Some s ->
  exists d, items ≡ₚ tracked s ++ d /\ (s_p s <> PDead -> d = []).
Proof.
  intros c items ls s H.
  exact (run_inv (cons_inv items) c _ _ _ (fun s l s' => cons_inv_step c items s l s') (cons_inv_init c items) H).
Qed.

Theorem conservation : forall c items ls s,
  run c (init c items) ls = Some s ->
  items ≡ₚ (match s_p s with PRun r => r | _ => [] end)
           ++ omap id (s_q s)
           ++ omap (fun w => match w with WHolding i | WParsed i => Some i | _ => None end) (s_w s)
           ++ s_merged s ++ s_rejected s ++ s_lost s
  \/ s_p s = PDead.
Proof.
  intros c items ls s H. destruct (conservation_strong _ _ _ _ H) as (d & Hp & Hd).
  unfold tracked, prem in Hp. fold hf.
  destruct (s_p s) eqn:E; [left|left|right; reflexivity];
    (rewrite (Hd ltac:(discriminate)), app_nil_r in Hp; exact Hp).
Qed.

(* the result map is the aggregation of the merged batches, in merge order *)
Definition acc_inv (c : cfg) (s : st) : Prop :=
  s_acc s = add_results ∅ (concat (map (batch c) (s_merged s))).
Lemma acc_inv_step c s l s' : acc_inv c s -> step c s l = Some s' -> acc_inv c s'.
Proof.
  unfold acc_inv. intros Ha H. destruct s as [p q ws acc po m mg rj lo]. proj_cbn.
  step_cases H; try reflexivity.
  rewrite map_app, concat_app. unfold add_results in *. rewrite foldl_app.
  simpl. rewrite app_nil_r.
  match goal with Hb : parse _ ?i = Some ?l |- _ =>
    replace (batch c i) with l by (unfold batch; rewrite Hb; reflexivity) end.
  reflexivity.
Qed.
Theorem acc_is_aggregate : forall c items ls s,
  run c (init c items) ls = Some s ->
  s_acc s = add_results ∅ (concat (map (batch c) (s_merged s))).
Proof.
  intros c items ls s H.
  apply (run_inv (acc_inv c) c _ _ _ (acc_inv_step c)) in H; [exact H|reflexivity].
Qed.

(** * Stop-marker accounting and phase invariants *)
Definition exi (w : wst) : nat := match w with WExited => 1%nat | _ => 0%nat end.
Definition nexited (ws : list wst) : nat := wsum exi ws.
Fixpoint nnone (q : list (option N)) : nat :=
  match q with [] => 0%nat | None :: q => S (nnone q) | Some _ :: q => nnone q end.
Lemma nnone_app q1 q2 : nnone (q1 ++ q2) = (nnone q1 + nnone q2)%nat.
Proof. induction q1 as [|[x|] q1 IH]; simpl; lia. Qed.
Lemma nnone_replicate j : nnone (replicate j None) = j.
Proof. induction j; simpl; lia. Qed.
Lemma nnone_map_Some xs : nnone (map Some xs) = 0%nat.
Proof. induction xs; simpl; lia. Qed.

(* stop markers are behind the items *)
Definition qsorted (q : list (option N)) : Prop := exists xs j, q = map Some xs ++ replicate j None.
Lemma qsorted_tail x q : qsorted (x :: q) -> qsorted q.
Proof.
  intros (xs & j & E). destruct xs as [|y xs]; simpl in E.
  - destruct j as [|j]; simpl in E; [discriminate|]. inversion E; subst. exists [], j. reflexivity.
  - inversion E; subst. exists xs, j. reflexivity.
Qed.
Lemma qsorted_stop_head q : qsorted (None :: q) -> omap id q = [].
Proof.
  intros (xs & j & E). destruct xs as [|y xs]; simpl in E; [|discriminate].
  destruct j as [|j]; simpl in E; [discriminate|]. inversion E; subst.
  clear E. induction j; simpl; auto.
Qed.
Lemma qsorted_snoc_stop q : qsorted q -> qsorted (q ++ [None]).
Proof.
  intros (xs & j & ->). exists xs, (S j). rewrite replicate_S_end, app_assoc. reflexivity.
Qed.
Lemma qsorted_snoc_item q x : qsorted q -> nnone q = 0%nat -> qsorted (q ++ [Some x]).
Proof.
  intros (xs & j & ->) Hn. rewrite nnone_app, nnone_map_Some, nnone_replicate in Hn. simpl in Hn. subst j.
  exists (xs ++ [x]), 0%nat. simpl. rewrite !app_nil_r, map_app. reflexivity.
Qed.

Definition phase_ok (c : cfg) (p : pst) (q : list (option N)) (ws : list wst) (m : mst) : Prop :=
  match m with
  | MWaitProd => nnone q = 0%nat /\ nexited ws = 0%nat
  | MSendStop k => p = PDone /\ (k <= n_workers c)%nat /\ (nnone q + nexited ws = k)%nat
  | MJoinW j => p = PDone /\ (j <= n_workers c)%nat /\ (nnone q + nexited ws = n_workers c)%nat /\
                forall i, (i < j)%nat -> ws !! i = Some WExited
  | MExit 0 => p = PDone /\ (nnone q + nexited ws = n_workers c)%nat /\
               forall i, (i < n_workers c)%nat -> ws !! i = Some WExited
  | MExit _ => True
  end.
Record invA (c : cfg) (s : st) : Prop := mkInvA {
  ia_len : length (s_w s) = n_workers c;
  ia_phase : phase_ok c (s_p s) (s_q s) (s_w s) (s_m s);
  ia_sorted : qsorted (s_q s);
  ia_drained : (0 < nexited (s_w s))%nat -> omap id (s_q s) = []
}.

Lemma nexited_replicate_idle n : nexited (replicate n WIdle) = 0%nat.
Proof. induction n; simpl; auto. Qed.
Lemma invA_init c items : invA c (init c items).
Proof.
  split; simpl.
  - apply replicate_length.
  - split; [reflexivity|apply nexited_replicate_idle].
  - exists [], 0%nat. reflexivity.
  - rewrite nexited_replicate_idle. lia.
Qed.

Lemma invA_step c s l s' : invA c s -> step c s l = Some s' -> invA c s'.
Proof.
  intros [Hlen Hph Hso Hdr] H. destruct s as [p q ws acc po m mg rj lo]. proj_cbn.
  destruct m as [|k|j|code]; [| | |discriminate H]; cbn [phase_ok] in Hph;
  step_cases H.
  all: try match goal with
        | Hw : ?ws !! ?w = Some ?x |- context [<[?w := ?y]> ?ws] =>
            pose proof (wsum_insert exi ws w x y Hw) as Hs; fold (nexited ws) in Hs;
            fold (nexited (<[w := y]> ws)) in Hs; cbn [exi] in Hs
        end.
  all: try match goal with
        | Hw : ?ws !! ?w = Some _ |- _ => pose proof (lookup_lt_Some _ _ _ Hw)
        end.
  all: try (destruct Hph as [Hp' _]; discriminate Hp').
  all: split; proj_cbn.
  (* length *)
  all: try (rewrite ?insert_length; exact Hlen).
  (* sortedness *)
  all: try first [ exact Hso | eapply qsorted_tail; exact Hso | apply qsorted_snoc_stop; exact Hso
                 | apply qsorted_snoc_item; [exact Hso | tauto] ].
  (* phase and accounting *)
  all: try (cbn [phase_ok nnone] in *; rewrite ?nnone_app; cbn [nnone];
            repeat match goal with |- _ /\ _ => split end; first [tauto | lia | idtac]).
  (* workers already joined stay exited *)
  all: try match goal with
        | Hph : _ /\ _ /\ _ /\ (forall i, _) |- _ => destruct Hph as (Hp1 & Hj & Hcnt & Hall)
        end.
  all: try (intros i' Hi';
            first [ apply Hall; lia
                  | destruct (decide (i' = j)) as [->|Hne]; [assumption | apply Hall; lia]
                  | match goal with
                    | |- <[?w := _]> _ !! _ = _ =>
                        destruct (decide (i' = w)) as [->|Hne];
                        [ specialize (Hall _ Hi'); congruence
                        | rewrite list_lookup_insert_ne by auto; apply Hall; lia ]
                    end ]).
  (* once a worker has taken a stop marker the queue holds no item *)
  all: try (intros Hpos;
            first [ apply Hdr; lia
                  | exfalso; lia
                  | specialize (Hdr ltac:(lia)); simpl in Hdr; discriminate Hdr
                  | apply qsorted_stop_head; exact Hso
                  | rewrite omap_app; simpl; rewrite app_nil_r; apply Hdr; lia ]).
Qed.

(* what workers hold after parsing, and what the merged / rejected lists contain *)
Definition wparsed_ok (c : cfg) (w : wst) : Prop :=
  match w with
  | WParsed i => (fault c i = FNone \/ fault c i = FDieLocked) /\ is_Some (parse c i)
  | _ => True
  end.
Record invB (c : cfg) (s : st) : Prop := mkInvB {
  ib_parsed : Forall (wparsed_ok c) (s_w s);
  ib_merged : Forall (fun i => accepted c i = true) (s_merged s);
  ib_rejected : Forall (fun i => accepted c i = false) (s_rejected s)
}.
Lemma invB_init c items : invB c (init c items).
Proof.
  split; simpl; auto. apply Forall_replicate. exact I.
Qed.
Lemma invB_step c s l s' : invB c s -> step c s l = Some s' -> invB c s'.
Proof.
  intros [Hpa Hme Hre] H. destruct s as [p q ws acc po m mg rj lo]. proj_cbn.
  step_cases H; split; proj_cbn; try assumption.
  all: try (apply Forall_insert; [assumption|]; cbn [wparsed_ok]; eauto).
  all: try (apply Forall_app; split; [assumption|]; apply Forall_singleton; unfold accepted;
            repeat match goal with Hx : _ = _ |- _ => rewrite Hx end; reflexivity).
Qed.

(* without a worker-killing fault among the inputs nothing is lost and the lock is never poisoned *)
Lemma held_in_items items s w x it :
  cons_inv items s -> s_w s !! w = Some x -> hf x = Some it -> it ∈ items.
Proof.
  intros (d & Hp & _) Hw Hx. rewrite Hp. unfold tracked.
  rewrite !elem_of_app. left. right. right. left.
  apply elem_of_list_omap. exists x. split; [|assumption]. eapply elem_of_list_lookup_2; eassumption.
Qed.
Definition invE (s : st) : Prop := s_lost s = [] /\ s_poisoned s = false.
Lemma invE_step c items s l s' :
  no_deaths c items -> cons_inv items s -> invE s -> step c s l = Some s' -> invE s'.
Proof.
  intros Hnd Hc [Hl Hpo] H.
  assert (Hheld : forall w x it, s_w s !! w = Some x -> hf x = Some it ->
                                 fault c it = FNone \/ fault c it = FReject).
  { intros w x it Hw Hx. apply Hnd. eapply held_in_items; eassumption. }
  clear Hc Hnd. unfold invE in *. destruct s as [p q ws acc po m mg rj lo]. proj_cbn. subst lo po.
  step_cases H; try (split; reflexivity).
  all: exfalso.
  all: match goal with Hw : _ !! _ = Some _ |- _ => destruct (Hheld _ _ _ Hw eq_refl) as [Hf|Hf] end.
  all: try congruence.
  all: rewrite Hf in *; discriminate.
Qed.

(** * The invariant of reachable states *)
Record Inv (c : cfg) (items : list N) (s : st) : Prop := mkInv {
  inv_cons : cons_inv items s;
  inv_acc : acc_inv c s;
  inv_A : invA c s;
  inv_B : invB c s;
  inv_E : no_deaths c items -> invE s
}.
Lemma Inv_init c items : Inv c items (init c items).
Proof.
  split; [apply cons_inv_init|reflexivity|apply invA_init|apply invB_init|].
  intros _. split; reflexivity.
Qed.
Lemma Inv_step c items s l s' : Inv c items s -> step c s l = Some s' -> Inv c items s'.
Proof.
  intros [Hc Ha HA HB HE] H. split.
  - eapply cons_inv_step; eassumption.
  - eapply acc_inv_step; eassumption.
  - eapply invA_step; eassumption.
  - eapply invB_step; eassumption.
  - intros Hnd. eapply invE_step; eauto.
Qed.
Lemma reachable_Inv c items ls s : run c (init c items) ls = Some s -> Inv c items s.
Proof.
  intros H. exact (run_inv (Inv c items) c _ _ _ (Inv_step c items) (Inv_init c items) H).
Qed.

(** * T4: a death never goes with exit status 0 *)
Lemma exit0_facts c s :
  invA c s -> s_m s = MExit 0 ->
  s_p s = PDone /\ (nnone (s_q s) + nexited (s_w s) = n_workers c)%nat /\
  forall i, (i < length (s_w s))%nat -> s_w s !! i = Some WExited.
Proof.
  intros [Hlen Hph _ _] Hm. rewrite Hm in Hph. cbn [phase_ok] in Hph. rewrite Hlen. exact Hph.
Qed.
Theorem death_gives_nonzero : forall c items ls s code,
  run c (init c items) ls = Some s -> s_m s = MExit code ->
  (s_p s = PDead \/ WDead ∈ s_w s) -> code <> 0.
Proof.
  intros c items ls s code H Hm Hd ->.
  destruct (exit0_facts c s (inv_A _ _ _ (reachable_Inv _ _ _ _ H)) Hm) as (Hp & _ & Hall).
  destruct Hd as [Hd|Hd]; [congruence|].
  apply elem_of_list_lookup_1 in Hd as [i Hi].
  specialize (Hall i (lookup_lt_Some _ _ _ Hi)). congruence.
Qed.

(** * The pinned code (main keeps a receiver) can get stuck *)
Definition cfg_stuck : cfg := mkCfg 1 2 true (fun _ => Some []) (fun i => if (i =? 0)%N then FDieParse else FNone).
Definition stuck_schedule : list label := [LSend; LSend; LRecv 0; LSend; LDieParse 0; LProdDone; LJoinedProd].
Theorem stuck_refuted_keep_rx : exists ls s, run cfg_stuck (init cfg_stuck [0; 1; 2]%N) ls = Some s /\ stuck cfg_stuck s = true.
Proof. exists stuck_schedule. eexists. split; [vm_compute; reflexivity|vm_compute; reflexivity]. Qed.
(* ... while without the handle the same schedule is not stuck: main's send fails, status 101 *)
Definition cfg_unstuck : cfg := mkCfg 1 2 false (parse cfg_stuck) (fault cfg_stuck).
Theorem not_stuck_without_rx :
  exists s, run cfg_unstuck (init cfg_unstuck [0; 1; 2]%N) stuck_schedule = Some s /\
            stuck cfg_unstuck s = false /\
            exists s', step cfg_unstuck s LStopFail = Some s' /\ s_m s' = MExit 101.
Proof. eexists. split; [vm_compute; reflexivity|]. split; [vm_compute; reflexivity|]. eexists. split; [vm_compute; reflexivity|vm_compute; reflexivity]. Qed.

(** * T3: exactly once *)
Lemma all_exited ws :
  (forall i, (i < length ws)%nat -> ws !! i = Some WExited) ->
  nexited ws = length ws /\ omap hf ws = [].
Proof.
  induction ws as [|a ws IH]; intros H; [split; reflexivity|].
  pose proof (H 0%nat ltac:(simpl; lia)) as H0. simpl in H0. inversion H0; subst a.
  destruct IH as [IH1 IH2].
  { intros i Hi. apply (H (S i)). simpl; lia. }
  split; simpl; [|exact IH2]. unfold nexited, wsum in *. simpl. rewrite IH1. reflexivity.
Qed.
Lemma filter_all {A} (P : A -> Prop) `{forall x, Decision (P x)} l : Forall P l -> filter P l = l.
Proof. induction 1; [reflexivity|]. rewrite filter_cons_True by assumption. congruence. Qed.
Lemma filter_none {A} (P : A -> Prop) `{forall x, Decision (P x)} l : Forall (fun x => ~ P x) l -> filter P l = [].
Proof. induction 1; [reflexivity|]. rewrite filter_cons_False by assumption. assumption. Qed.
Lemma concat_map_perm {A B} (f : A -> list B) l l' : l ≡ₚ l' -> concat (map f l) ≡ₚ concat (map f l').
Proof.
  induction 1; simpl.
  - reflexivity.
  - apply Permutation_app_head. assumption.
  - solve_Permutation.
  - etransitivity; eassumption.
Qed.

(* at exit status 0 (with at least one worker) everything has been consumed *)
Lemma exit0_all_consumed c items s :
  (1 <= n_workers c)%nat -> no_deaths c items -> Inv c items s -> s_m s = MExit 0 ->
  items ≡ₚ s_merged s ++ s_rejected s.
Proof.
  intros Hn Hnd [Hc _ HA _ HE] Hm.
  destruct (exit0_facts c s HA Hm) as (Hp & Hcnt & Hall).
  destruct (all_exited _ Hall) as [Hex Hheld].
  destruct HA as [Hlen _ _ Hdr]. destruct (HE Hnd) as [Hlost _].
  destruct Hc as (d & Hperm & Hd). rewrite (Hd ltac:(congruence)) in Hperm.
  unfold tracked in Hperm. rewrite Hp, Hheld, Hlost, Hdr in Hperm by lia.
  simpl in Hperm. rewrite !app_nil_r in Hperm. exact Hperm.
Qed.

Theorem exactly_once : forall c items ls s,
  (1 <= n_workers c)%nat ->            (* needed: see [exactly_once_needs_a_worker] below *)
  no_deaths c items ->
  run c (init c items) ls = Some s -> s_m s = MExit 0 ->
  s_merged s ≡ₚ filter (fun i => accepted c i = true) items /\
  obs_map (s_acc s) = obs_map (add_results ∅ (concat (map (batch c) (filter (fun i => accepted c i = true) items)))).
Proof.
  intros c items ls s Hn Hnd H Hm. pose proof (reachable_Inv _ _ _ _ H) as HI.
  assert (Hmerged : s_merged s ≡ₚ filter (fun i => accepted c i = true) items).
  { rewrite (exit0_all_consumed c items s Hn Hnd HI Hm), filter_app.
    destruct (inv_B _ _ _ HI) as [_ Hme Hre].
    rewrite (filter_all _ _ Hme), filter_none, app_nil_r; [reflexivity|].
    eapply Forall_impl; [exact Hre|]. simpl. intros i Hi. rewrite Hi. discriminate. }
  split; [exact Hmerged|].
  rewrite (inv_acc _ _ _ HI). apply add_results_perm_obs, concat_map_perm, Hmerged.
Qed.

(* With no worker at all the model lets the producer fill the queue and main finish with status 0
   while the items are still queued: the hypothesis [1 <= n_workers c] cannot be dropped. *)
Definition cfg_noworker : cfg := mkCfg 0 5 false (fun _ => Some [([], empty_cov)]) (fun _ => FNone).
Theorem exactly_once_needs_a_worker :
  ~ (forall c items ls s,
       no_deaths c items ->
       run c (init c items) ls = Some s -> s_m s = MExit 0 ->
       s_merged s ≡ₚ filter (fun i => accepted c i = true) items /\
       obs_map (s_acc s) = obs_map (add_results ∅ (concat (map (batch c) (filter (fun i => accepted c i = true) items))))).
Proof.
  intros Hall.
  destruct (Hall cfg_noworker [0]%N [LSend; LProdDone; LJoinedProd; LStopsDone; LFinish] _
              ltac:(intros i _; left; reflexivity) eq_refl eq_refl) as [Hp _].
  apply Permutation_length in Hp. vm_compute in Hp. discriminate Hp.
Qed.

(* corollary: independent of N, cap, interleaving and of the order of the inputs *)
Theorem order_independent : forall c1 c2 items1 items2 ls1 ls2 s1 s2,
  (1 <= n_workers c1)%nat -> (1 <= n_workers c2)%nat ->
  parse c1 = parse c2 -> fault c1 = fault c2 -> items1 ≡ₚ items2 ->
  no_deaths c1 items1 ->
  run c1 (init c1 items1) ls1 = Some s1 -> s_m s1 = MExit 0 ->
  run c2 (init c2 items2) ls2 = Some s2 -> s_m s2 = MExit 0 ->
  obs_map (s_acc s1) = obs_map (s_acc s2).
Proof.
  intros c1 c2 items1 items2 ls1 ls2 s1 s2 Hn1 Hn2 Hpa Hfa Hperm Hnd H1 Hm1 H2 Hm2.
  assert (Hnd2 : no_deaths c2 items2).
  { intros i Hi. rewrite <- Hfa. apply Hnd. rewrite Hperm. exact Hi. }
  destruct (exactly_once _ _ _ _ Hn1 Hnd H1 Hm1) as [_ E1].
  destruct (exactly_once _ _ _ _ Hn2 Hnd2 H2 Hm2) as [_ E2].
  rewrite E1, E2. apply add_results_perm_obs.
  assert (Hb : forall i, batch c1 i = batch c2 i) by (intros i; unfold batch; rewrite Hpa; reflexivity).
  assert (Hacc : forall i, accepted c1 i = accepted c2 i) by (intros i; unfold accepted; rewrite Hpa, Hfa; reflexivity).
  rewrite (map_ext _ _ Hb).
  rewrite (list_filter_iff (fun i => accepted c1 i = true) (fun i => accepted c2 i = true))
    by (intros i; rewrite Hacc; reflexivity).
  apply concat_map_perm. rewrite Hperm. reflexivity.
Qed.

(** * T5: no stuck state once main does not keep a receiver *)
Ltac fire l :=
  exists l; eexists; unfold step, set_w, set_m; proj_cbn;
  repeat match goal with Hx : ?a = _ |- context [?a] => rewrite Hx end;
  cbv beta iota; reflexivity.

(* a worker that is neither exited nor dead can move, provided an idle one finds the queue non-empty *)
Lemma worker_can_step c s w x :
  invB c s -> exited s = false -> s_w s !! w = Some x -> w_live x = true ->
  (x = WIdle -> s_q s <> []) ->
  exists l s', step c s l = Some s'.
Proof.
  intros [Hpa _ _] Hex Hw Hlive Hq. pose proof (Forall_lookup_1 _ _ _ _ Hpa Hw) as Hok.
  destruct s as [p q ws acc po m mg rj lo]. proj_cbn.
  destruct x as [|it|it| |]; try discriminate Hlive.
  - destruct q as [|[it|] q]; [destruct (Hq eq_refl eq_refl)| |].
    + fire (LRecv w).
    + fire (LRecvStop w).
  - destruct (fault c it) eqn:Hf; destruct (parse c it) eqn:Hp;
      first [fire (LRejected w) | fire (LDieParse w) | fire (LParsed w)].
  - cbn [wparsed_ok] in Hok. destruct Hok as [Hf [b Hp]].
    destruct po; [fire (LDieLocked w)|].
    destruct Hf as [Hf|Hf]; [fire (LMerged w) | fire (LDieLocked w)].
Qed.

Lemma nexited_le_length ws : (nexited ws <= length ws)%nat.
Proof. induction ws as [|[] ws IH]; unfold nexited, wsum in *; simpl; lia. Qed.
Lemma nexited_lt_length ws w x : ws !! w = Some x -> exi x = 0%nat -> (nexited ws < length ws)%nat.
Proof.
  intros Hw Hx. pose proof (wsum_insert exi ws w x WExited Hw) as Hs.
  pose proof (nexited_le_length (<[w := WExited]> ws)) as Hle. rewrite insert_length in Hle.
  unfold nexited in *. rewrite Hx in Hs. simpl in Hs. lia.
Qed.
Lemma nnone_pos_nonempty q : (0 < nnone q)%nat -> q <> [].
Proof. intros H ->. simpl in H. lia. Qed.
Lemma length_pos_nonempty {A} (q : list A) : (0 < length q)%nat -> q <> [].
Proof. intros H ->. simpl in H. lia. Qed.

(* a full queue with a live receiver: some worker can move *)
Lemma live_worker_can_step c s :
  keep_rx c = false -> invB c s -> exited s = false -> rx_alive c s = true -> s_q s <> [] ->
  exists l s', step c s l = Some s'.
Proof.
  intros Hk HB Hex Hrx Hq. unfold rx_alive in Hrx. rewrite Hk in Hrx. simpl in Hrx.
  apply existsb_exists in Hrx as (x & Hin & Hlive).
  apply elem_of_list_In, elem_of_list_lookup_1 in Hin as [w Hw].
  eapply worker_can_step; eauto.
Qed.

Theorem no_stuck_state : forall c items ls s,
  keep_rx c = false -> (1 <= n_workers c)%nat -> (1 <= cap c)%nat ->
  run c (init c items) ls = Some s -> exited s = false ->
  exists l s', step c s l = Some s'.
Proof.
  intros c items ls s Hk Hn Hcap H Hex. pose proof (reachable_Inv _ _ _ _ H) as [_ _ HA HB _].
  destruct (rx_alive c s) eqn:Hrx.
  - (* some worker is live *)
    destruct HA as [Hlen Hph _ _].
    destruct s as [p q ws acc po m mg rj lo]; proj_cbn.
    destruct m as [|k|j|code]; [| | |discriminate Hex]; cbn [phase_ok] in Hph.
    + destruct p as [[|it r]| |].
      * fire LProdDone.
      * destruct (Nat.ltb (length q) (cap c)) eqn:Hlt; [fire LSend|].
        apply (live_worker_can_step c _ Hk HB Hex Hrx). proj_cbn. apply length_pos_nonempty. lia.
      * fire LJoinedProd.
      * fire LProdPanicked.
    + destruct Hph as (Hp & Hkn & Hcnt).
      destruct (Nat.eqb k (n_workers c)) eqn:Hkeq; [fire LStopsDone|].
      destruct (Nat.ltb (length q) (cap c)) eqn:Hlt.
      * assert (Hk' : Nat.ltb k (n_workers c) = true) by lia. fire LSentStop.
      * apply (live_worker_can_step c _ Hk HB Hex Hrx). proj_cbn. apply length_pos_nonempty. lia.
    + destruct Hph as (Hp & Hjn & Hcnt & Hall).
      destruct (Nat.eqb j (n_workers c)) eqn:Hjeq; [fire LFinish|].
      destruct (lookup_lt_is_Some_2 ws j ltac:(lia)) as [x Hx].
      destruct x as [|it|it| |] eqn:Ex.
      * eapply (worker_can_step c _ j WIdle HB Hex Hx eq_refl). intros _. proj_cbn.
        apply nnone_pos_nonempty. pose proof (nexited_lt_length ws j WIdle Hx eq_refl). lia.
      * eapply (worker_can_step c _ j _ HB Hex Hx eq_refl). discriminate.
      * eapply (worker_can_step c _ j _ HB Hex Hx eq_refl). discriminate.
      * fire LJoined.
      * fire LJoinDead.
  - (* every receiver is gone *)
    destruct HA as [Hlen Hph _ _].
    destruct s as [p q ws acc po m mg rj lo]; proj_cbn.
    destruct m as [|k|j|code]; [| | |discriminate Hex]; cbn [phase_ok] in Hph.
    + destruct p as [[|it r]| |].
      * fire LProdDone.
      * fire LSendFail.
      * fire LJoinedProd.
      * fire LProdPanicked.
    + destruct Hph as (Hp & Hkn & Hcnt).
      destruct (Nat.eqb k (n_workers c)) eqn:Hkeq; [fire LStopsDone|].
      assert (Hk' : Nat.ltb k (n_workers c) = true) by lia. fire LStopFail.
    + destruct Hph as (Hp & Hjn & Hcnt & Hall).
      destruct (Nat.eqb j (n_workers c)) eqn:Hjeq; [fire LFinish|].
      destruct (lookup_lt_is_Some_2 ws j ltac:(lia)) as [x Hx].
      unfold rx_alive in Hrx. rewrite Hk in Hrx. simpl in Hrx. proj_cbn.
      assert (Hdead : w_live x = false).
      { destruct (w_live x) eqn:Hl; [|reflexivity]. rewrite <- Hrx. symmetry. apply existsb_exists.
        exists x. split; [|exact Hl]. apply elem_of_list_In. eapply elem_of_list_lookup_2; eassumption. }
      destruct x; try discriminate Hdead; [fire LJoined | fire LJoinDead].
Qed.

(* the same degenerate configuration refutes [order_independent] without the worker hypotheses *)
Definition cfg_oneworker : cfg := mkCfg 1 5 false (parse cfg_noworker) (fault cfg_noworker).
Theorem order_independent_needs_a_worker :
  ~ (forall c1 c2 items1 items2 ls1 ls2 s1 s2,
       parse c1 = parse c2 -> fault c1 = fault c2 -> items1 ≡ₚ items2 ->
       no_deaths c1 items1 ->
       run c1 (init c1 items1) ls1 = Some s1 -> s_m s1 = MExit 0 ->
       run c2 (init c2 items2) ls2 = Some s2 -> s_m s2 = MExit 0 ->
       obs_map (s_acc s1) = obs_map (s_acc s2)).
Proof.
  intros Hall.
  assert (R1 : exists s1, run cfg_noworker (init cfg_noworker [0]%N)
                            [LSend; LProdDone; LJoinedProd; LStopsDone; LFinish] = Some s1 /\
                          s_m s1 = MExit 0 /\ obs_map (s_acc s1) !! ([] : name) = None).
  { eexists. split; [vm_compute; reflexivity|]. split; vm_compute; reflexivity. }
  assert (R2 : exists s2, run cfg_oneworker (init cfg_oneworker [0]%N)
                            [LSend; LRecv 0; LParsed 0; LMerged 0; LProdDone; LJoinedProd; LSentStop;
                             LStopsDone; LRecvStop 0; LJoined; LFinish] = Some s2 /\
                          s_m s2 = MExit 0 /\ obs_map (s_acc s2) !! ([] : name) <> None).
  { eexists. split; [vm_compute; reflexivity|]. split; [vm_compute; reflexivity|]. vm_compute. discriminate. }
  destruct R1 as (s1 & H1 & Hm1 & Hl1). destruct R2 as (s2 & H2 & Hm2 & Hl2).
  apply Hl2. rewrite <- Hl1. f_equal. symmetry.
  eapply (Hall cfg_noworker cfg_oneworker [0]%N [0]%N); try eassumption; try reflexivity.
  intros i _; left; reflexivity.
Qed.

Print Assumptions step_decreases.
Print Assumptions terminates.
Print Assumptions conservation.
Print Assumptions conservation_strong.
Print Assumptions acc_is_aggregate.
Print Assumptions exactly_once.
Print Assumptions exactly_once_needs_a_worker.
Print Assumptions order_independent.
Print Assumptions order_independent_needs_a_worker.
Print Assumptions death_gives_nonzero.
Print Assumptions no_stuck_state.
Print Assumptions stuck_refuted_keep_rx.
Print Assumptions not_stuck_without_rx.
