(* Facts about the gcov text / JSON models (C09). *)
From Grcov Require Import Model.GcovText Model.GcovJson Model.GcovSpec.
From Coq Require Import ZifyBool ZifyN ZifyNat.
Import Coq.Strings.String.StringSyntax.

(* ------------------------------------------------------------------ numbers *)
Definition dval (r : N) (ds : bytes) : N := fold_left (fun r x => r * 10 + (x - 48)) ds r.
Lemma dec_val_dval ds : dec_val ds = dval 0 ds.
Proof. reflexivity. Qed.
Lemma dval_ge ds r : r <= dval r ds.
Proof.
  unfold dval. revert r; induction ds as [|c ds IH]; intros r; cbn [fold_left]; [lia|].
  specialize (IH (r * 10 + (c - 48))). lia.
Qed.
Lemma dval_app a b r : dval r (a ++ b) = dval (dval r a) b.
Proof. unfold dval. apply fold_left_app. Qed.

Definition pd_step (max : N) (acc : option N) (c : N) : option N :=
  match acc with
  | None => None
  | Some r => if g_is_digit c
              then (let v := r * 10 + (c - gZero) in if v <=? max then Some v else None)
              else None
  end.
Lemma parse_digits_fold max ds : parse_digits max ds = fold_left (pd_step max) ds (Some 0).
Proof. reflexivity. Qed.
Lemma pd_none max ds : fold_left (pd_step max) ds None = None.
Proof. induction ds; simpl; auto. Qed.
Lemma pd_spec max ds r :
  r <= max ->
  fold_left (pd_step max) ds (Some r) =
  if forallb g_is_digit ds && (dval r ds <=? max) then Some (dval r ds) else None.
Proof.
  revert r; induction ds as [|c ds IH]; intros r Hr.
  - simpl. destruct (N.leb_spec r max); [reflexivity|lia].
  - cbn [fold_left forallb pd_step]. destruct (g_is_digit c) eqn:Ed; cbn [andb].
    + cbv zeta. unfold gZero. destruct (N.leb_spec (r * 10 + (c - 48)) max) as [Hle|Hgt].
      * rewrite IH by exact Hle. reflexivity.
      * rewrite pd_none. pose proof (dval_ge ds (r * 10 + (c - 48))) as Hge.
        change (dval r (c :: ds)) with (dval (r * 10 + (c - 48)) ds).
        destruct (N.leb_spec (dval (r * 10 + (c - 48)) ds) max); [lia|]. rewrite andb_false_r. reflexivity.
    + apply pd_none.
Qed.
Lemma parse_digits_spec max ds :
  parse_digits max ds = if forallb g_is_digit ds && (dec_val ds <=? max) then Some (dec_val ds) else None.
Proof. rewrite parse_digits_fold, pd_spec by lia. reflexivity. Qed.

Lemma gdigits_inv d : gdigits d = true -> d <> [] /\ forallb g_is_digit d = true.
Proof.
  unfold gdigits. intros H. apply andb_true_iff in H as [H1 H2]. split; [|exact H2].
  apply negb_true_iff in H1. apply bool_decide_eq_false in H1. exact H1.
Qed.
Lemma digit_not c x : g_is_digit c = true -> (x < 48 \/ 57 < x) -> (c =? x) = false.
Proof. unfold g_is_digit. intros H Hx. lia. Qed.

(* parse of a non-empty digit string: its value if it fits, else an error *)
Lemma parse_uint_digits max d :
  gdigits d = true ->
  parse_uint max d = if dec_val d <=? max then Some (dec_val d) else None.
Proof.
  intros H. apply gdigits_inv in H as [Hne Hd]. unfold parse_uint.
  destruct d as [|c d]; [congruence|].
  assert (c =? gPlus = false) as ->.
  { simpl in Hd. apply andb_true_iff in Hd as [Hc _]. apply digit_not; [exact Hc|]. unfold gPlus. lia. }
  rewrite parse_digits_spec, Hd. reflexivity.
Qed.

(* ------------------------------------------------------------------ splitting *)
Lemma split_once_app sep a b :
  forallb (fun c => negb (c =? sep)) a = true ->
  split_once sep (a ++ sep :: b) = (a, Some b).
Proof.
  induction a as [|c a IH]; intros H; simpl.
  - rewrite N.eqb_refl. reflexivity.
  - simpl in H. apply andb_true_iff in H as [Hc Ha]. apply negb_true_iff in Hc. rewrite Hc, IH by exact Ha. reflexivity.
Qed.
Lemma split_once_none sep a :
  forallb (fun c => negb (c =? sep)) a = true -> split_once sep a = (a, None).
Proof.
  induction a as [|c a IH]; intros H; simpl; [reflexivity|].
  simpl in H. apply andb_true_iff in H as [Hc Ha]. apply negb_true_iff in Hc. rewrite Hc, IH by exact Ha. reflexivity.
Qed.
Lemma digits_no sep d : (sep < 48 \/ 57 < sep) -> forallb g_is_digit d = true -> forallb (fun c => negb (c =? sep)) d = true.
Proof.
  intros Hs H. apply forallb_forall. intros c Hc. rewrite forallb_forall in H. specialize (H c Hc).
  apply negb_true_iff. apply digit_not; assumption.
Qed.

(* ------------------------------------------------------------------ lines *)
Lemma lines_of_line t rest :
  forallb not_lf t = true -> lines_of (t ++ 10 :: rest) = (t ++ [10]) :: lines_of rest.
Proof.
  induction t as [|c t IH]; intros H.
  - reflexivity.
  - simpl in H. apply andb_true_iff in H as [Hc Ht]. unfold not_lf in Hc. apply negb_true_iff in Hc.
    cbn [app lines_of]. unfold gLF. rewrite Hc. rewrite IH by exact Ht. reflexivity.
Qed.
Lemma lines_of_last t : t <> [] -> forallb not_lf t = true -> lines_of t = [t].
Proof.
  induction t as [|c t IH]; intros Hne H; [congruence|].
  simpl in H. apply andb_true_iff in H as [Hc Ht]. unfold not_lf in Hc. apply negb_true_iff in Hc.
  cbn [lines_of]. unfold gLF. rewrite Hc. destruct t as [|d t]; [reflexivity|].
  rewrite IH by (congruence || exact Ht). reflexivity.
Qed.

Lemma remove_newline_app_nl t e :
  forallb is_nl e = true -> remove_newline (t ++ e) = remove_newline t.
Proof.
  intros He. assert (remove_newline e = []) as Hre.
  { induction e as [|c e IH]; [reflexivity|]. simpl in He. apply andb_true_iff in He as [Hc He].
    simpl. rewrite IH by exact He. rewrite Hc. reflexivity. }
  induction t as [|c t IH]; simpl; [exact Hre|]. rewrite IH. reflexivity.
Qed.
Lemma remove_newline_id t :
  match last t with Some c => negb (is_nl c) | None => true end = true -> remove_newline t = t.
Proof.
  induction t as [|c t IH]; intros H; [reflexivity|].
  destruct t as [|d t].
  - simpl in *. apply negb_true_iff in H. rewrite H. reflexivity.
  - rewrite last_cons_cons in H. specialize (IH H). cbn [remove_newline] in *. rewrite IH. reflexivity.
Qed.
Lemma text_ok_inv t : text_ok t = true ->
  forallb not_lf t = true /\ match last t with Some c => negb (is_nl c) | None => true end = true.
Proof. unfold text_ok. intros H. apply andb_true_iff in H. exact H. Qed.
Lemma remove_newline_eol t b : 
  match last t with Some c => negb (is_nl c) | None => true end = true -> remove_newline (t ++ geol b) = t.
Proof.
  intros H. rewrite remove_newline_app_nl by (destruct b; reflexivity). apply remove_newline_id. exact H.
Qed.

(* ------------------------------------------------------------------ one record = one state update *)
Definition set_lines (st : gstate) m := mkG (g_file st) m (g_branches st) (g_funcs st) (g_results st).
Definition set_branches (st : gstate) m := mkG (g_file st) (g_lines st) m (g_funcs st) (g_results st).
Definition set_funcs (st : gstate) m := mkG (g_file st) (g_lines st) (g_branches st) m (g_results st).
Definition apply_grec (r : grec) (st : gstate) : gstate :=
  match r with
  | GFunction s c nm => set_funcs st (<[nm := mkFunc (dec_val s) (count_nonzero c)]> (g_funcs st))
  | GLcount l neg c => set_lines st (<[dec_val l := if neg then 0 else dec_val c]> (g_lines st))
  | GBranch l k => set_branches st (<[dec_val l := default [] (g_branches st !! dec_val l) ++ [is_taken k]]> (g_branches st))
  | GOther _ _ => st
  end.

Lemma canon_dec_zero c : canon_dec c = true -> bool_decide (c = [48]) = (dec_val c =? 0).
Proof.
  unfold canon_dec. intros H. apply andb_true_iff in H as [Hd H]. apply gdigits_inv in Hd as [Hne Hd].
  apply orb_true_iff in H as [H|H].
  - apply bool_decide_eq_true in H. subst c. reflexivity.
  - apply negb_true_iff in H. apply bool_decide_eq_false in H.
    destruct c as [|d c]; [congruence|]. simpl in H.
    assert (d <> 48) by congruence.
    simpl in Hd. apply andb_true_iff in Hd as [Hdd _]. unfold g_is_digit in Hdd.
    rewrite bool_decide_eq_false_2 by congruence.
    rewrite dec_val_dval. change (dval 0 (d :: c)) with (dval (0 * 10 + (d - 48)) c).
    pose proof (dval_ge c (0 * 10 + (d - 48))). lia.
Qed.

Lemma no_colon_digits d : forallb g_is_digit d = true -> forallb (fun c => negb (c =? gComma)) d = true.
Proof. apply digits_no. unfold gComma. lia. Qed.

(* the bytes of a signed canonical count: digits or '-' *)
Lemma canon_dec_digits c : canon_dec c = true -> forallb g_is_digit c = true.
Proof. unfold canon_dec. intros H. apply andb_true_iff in H as [H _]. apply gdigits_inv in H as [_ H]. exact H. Qed.
Lemma canon_signed_chars c : canon_signed c = true -> forallb (fun x => g_is_digit x || (x =? 45)) c = true.
Proof.
  unfold canon_signed. intros H. apply orb_true_iff in H as [H|H].
  - apply canon_dec_digits in H. apply forallb_forall. intros x Hx. rewrite forallb_forall in H. rewrite (H x Hx). reflexivity.
  - destruct c as [|x d]; [discriminate|]. apply andb_true_iff in H as [H _]. apply andb_true_iff in H as [Hx Hd].
    apply canon_dec_digits in Hd. cbn [forallb]. rewrite Hx, orb_true_r. cbn [andb].
    apply forallb_forall. intros y Hy. rewrite forallb_forall in Hd. rewrite (Hd y Hy). reflexivity.
Qed.
Lemma canon_signed_no sep c : (sep < 45 \/ 57 < sep) -> canon_signed c = true -> forallb (fun x => negb (x =? sep)) c = true.
Proof.
  intros Hs H. apply canon_signed_chars in H. apply forallb_forall. intros x Hx. rewrite forallb_forall in H. specialize (H x Hx).
  unfold g_is_digit in H. lia.
Qed.
Lemma canon_signed_zero c : canon_signed c = true -> bool_decide (c = [48]) = negb (count_nonzero c).
Proof.
  unfold canon_signed. intros H. apply orb_true_iff in H as [H|H].
  - rewrite (canon_dec_zero c H). destruct c as [|x d]; [reflexivity|]. cbn [count_nonzero].
    apply canon_dec_digits in H. cbn [forallb] in H. apply andb_true_iff in H as [Hx _].
    rewrite (digit_not x 45 Hx) by lia. rewrite negb_involutive. reflexivity.
  - destruct c as [|x d]; [discriminate|]. apply andb_true_iff in H as [H Hnz]. apply andb_true_iff in H as [Hx Hd].
    apply N.eqb_eq in Hx. subst x. cbn [count_nonzero]. rewrite N.eqb_refl.
    rewrite <- (canon_dec_zero d Hd). apply negb_true_iff, bool_decide_eq_false in Hnz.
    rewrite (bool_decide_eq_false_2 (d = [48]) Hnz). cbn [negb].
    apply bool_decide_eq_false. intros E. injection E as E _. discriminate.
Qed.

Lemma gstep_function s c nm st :
  gdigits s = true -> dec_val s <? two32 = true -> canon_signed c = true ->
  gstep (render_grec (GFunction s c nm)) st = Ok (apply_grec (GFunction s c nm) st).
Proof.
  intros Hs Hr Hc. unfold render_grec.
  change (bs "function:") with (k_function ++ [gColon]). rewrite <- app_assoc. cbn [app].
  unfold gstep. rewrite split_once_app by reflexivity.
  change (bool_decide (k_function = k_file)) with false. change (bool_decide (k_function = k_function)) with true. cbv iota.
  pose proof Hs as Hs'. apply gdigits_inv in Hs' as [_ Hsd].
  change ([44] ++ c ++ [44] ++ nm) with (gComma :: (c ++ gComma :: nm)).
  rewrite split_once_app by (apply no_colon_digits; exact Hsd).
  unfold parse_u32. rewrite parse_uint_digits by exact Hs.
  assert (dec_val s <=? U32_MAX = true) as -> by (unfold two32, U32_MAX in *; lia).
  rewrite split_once_app by (apply canon_signed_no; [unfold gComma; lia|exact Hc]).
  unfold gZero. rewrite (canon_signed_zero c Hc), negb_involutive. reflexivity.
Qed.

Lemma gstep_lcount l neg c st :
  gdigits l = true -> dec_val l <? two32 = true -> gdigits c = true -> (neg || (dec_val c <? two64)) = true ->
  gstep (render_grec (GLcount l neg c)) st = Ok (apply_grec (GLcount l neg c) st).
Proof.
  intros Hl Hr Hc Hv. unfold render_grec.
  change (bs "lcount:") with (k_lcount ++ [gColon]). rewrite <- app_assoc. cbn [app].
  unfold gstep. rewrite split_once_app by reflexivity.
  change (bool_decide (k_lcount = k_file)) with false. change (bool_decide (k_lcount = k_function)) with false.
  change (bool_decide (k_lcount = k_lcount)) with true. cbv iota.
  pose proof Hl as Hl'. apply gdigits_inv in Hl' as [_ Hld].
  change ([44] ++ (if neg then [45] else []) ++ c) with (gComma :: ((if neg then [45] else []) ++ c)).
  rewrite split_once_app by (apply no_colon_digits; exact Hld).
  unfold parse_u32. rewrite parse_uint_digits by exact Hl.
  assert (dec_val l <=? U32_MAX = true) as -> by (unfold two32, U32_MAX in *; lia).
  destruct neg.
  - cbn [app]. rewrite bool_decide_eq_false_2 by (unfold gZero; congruence).
    unfold gMinus. rewrite N.eqb_refl. cbn [orb]. reflexivity.
  - cbn [app orb] in *. destruct (decide (c = [gZero])) as [->|Hne].
    + rewrite bool_decide_eq_true_2 by reflexivity. reflexivity.
    + rewrite bool_decide_eq_false_2 by exact Hne.
      pose proof Hc as Hc'. apply gdigits_inv in Hc' as [Hcne Hcd].
      destruct c as [|d c]; [congruence|].
      assert (d =? gMinus = false) as ->.
      { simpl in Hcd. apply andb_true_iff in Hcd as [Hd _]. apply digit_not; [exact Hd|]. unfold gMinus. lia. }
      cbn [orb]. unfold parse_u64. rewrite parse_uint_digits by exact Hc.
      assert (dec_val (d :: c) <=? U64_MAX = true) as -> by (unfold two64, U64_MAX in *; lia).
      reflexivity.
Qed.

Lemma gstep_branch l k st :
  gdigits l = true -> dec_val l <? two32 = true ->
  gstep (render_grec (GBranch l k)) st = Ok (apply_grec (GBranch l k) st).
Proof.
  intros Hl Hr. unfold render_grec.
  change (bs "branch:") with (k_branch ++ [gColon]). rewrite <- app_assoc. cbn [app].
  unfold gstep. rewrite split_once_app by reflexivity.
  change (bool_decide (k_branch = k_file)) with false. change (bool_decide (k_branch = k_function)) with false.
  change (bool_decide (k_branch = k_lcount)) with false. change (bool_decide (k_branch = k_branch)) with true. cbv iota.
  pose proof Hl as Hl'. apply gdigits_inv in Hl' as [_ Hld].
  change ([44] ++ kind_text k) with (gComma :: kind_text k).
  rewrite split_once_app by (apply no_colon_digits; exact Hld).
  unfold parse_u32. rewrite parse_uint_digits by exact Hl.
  assert (dec_val l <=? U32_MAX = true) as -> by (unfold two32, U32_MAX in *; lia).
  assert (bool_decide (kind_text k = v_taken) = is_taken k) as -> by (destruct k; reflexivity).
  unfold apply_grec, set_branches. destruct (g_branches st !! dec_val l); reflexivity.
Qed.

Lemma gstep_other key text st :
  key_ok key = true ->
  gstep (render_grec (GOther key text)) st = Ok st.
Proof.
  unfold key_ok. intros H. apply andb_true_iff in H as [Hk Hn].
  apply negb_true_iff in Hn. apply bool_decide_eq_false in Hn.
  unfold render_grec. change ([58] ++ text) with (gColon :: text).
  unfold gstep. rewrite split_once_app.
  2:{ apply forallb_forall. intros c Hc. rewrite forallb_forall in Hk. specialize (Hk c Hc).
      apply andb_true_iff in Hk as [_ Hk]. exact Hk. }
  rewrite !bool_decide_eq_false_2; [reflexivity|..]; intros ->; apply Hn; set_solver.
Qed.

Lemma gstep_render r st : wf_grec r = true -> gstep (render_grec r) st = Ok (apply_grec r st).
Proof.
  destruct r as [s c nm|l neg c|l k|key text]; cbn [wf_grec]; intros H.
  - apply andb_true_iff in H as [H _]. apply andb_true_iff in H as [H Hc]. apply andb_true_iff in H as [Hs Hr].
    apply gstep_function; assumption.
  - apply andb_true_iff in H as [H Hv]. apply andb_true_iff in H as [H Hc]. apply andb_true_iff in H as [Hl Hr].
    apply gstep_lcount; assumption.
  - apply andb_true_iff in H as [Hl Hr]. apply gstep_branch; assumption.
  - apply andb_true_iff in H as [Hk _]. apply gstep_other; assumption.
Qed.

(* ------------------------------------------------------------------ rendered lines survive line splitting *)
Definition last_ok (t : bytes) : bool := match last t with Some c => negb (is_nl c) | None => true end.
Lemma last_ok_app a b : last_ok b = true -> (b = [] -> last_ok a = true) -> last_ok (a ++ b) = true.
Proof.
  unfold last_ok. rewrite last_app. destruct (last b) eqn:E; [auto|].
  intros _ H. apply H. destruct b; [reflexivity|]. rewrite last_cons in E. destruct (last b); discriminate.
Qed.
Lemma last_ok_snoc a c : is_nl c = false -> last_ok (a ++ [c]) = true.
Proof. intros H. unfold last_ok. rewrite last_snoc, H. reflexivity. Qed.
Lemma last_ok_forall t : forallb (fun c => negb (is_nl c)) t = true -> last_ok t = true.
Proof.
  intros H. unfold last_ok. destruct (last t) as [c|] eqn:E; [|reflexivity].
  apply last_Some in E as [t' ->]. rewrite forallb_app in H. apply andb_true_iff in H as [_ H].
  simpl in H. rewrite andb_true_r in H. exact H.
Qed.
Lemma digits_not_nl d : forallb g_is_digit d = true -> forallb (fun c => negb (is_nl c)) d = true.
Proof.
  intros H. apply forallb_forall. intros c Hc. rewrite forallb_forall in H. specialize (H c Hc).
  unfold g_is_digit, is_nl, gLF, gCR in *. lia.
Qed.
Lemma digits_not_lf d : forallb g_is_digit d = true -> forallb not_lf d = true.
Proof.
  intros H. apply forallb_forall. intros c Hc. rewrite forallb_forall in H. specialize (H c Hc).
  unfold g_is_digit, not_lf in *. lia.
Qed.

Lemma render_text_ok r : wf_grec r = true -> text_ok (render_grec r) = true.
Proof.
  unfold text_ok. fold (last_ok (render_grec r)).
  destruct r as [s c nm|l neg c|l k|key text]; cbn [wf_grec render_grec]; intros H.
  - apply andb_true_iff in H as [H Hn]. apply andb_true_iff in H as [H Hc]. apply andb_true_iff in H as [Hs _].
    apply gdigits_inv in Hs as [_ Hs]. apply (canon_signed_no 10) in Hc; [|lia]. apply text_ok_inv in Hn as [Hn1 Hn2].
    apply andb_true_iff. split.
    + change (forallb not_lf c = true) in Hc. rewrite !forallb_app, (digits_not_lf s Hs), Hn1, Hc. reflexivity.
    + rewrite !app_assoc. apply last_ok_app; [exact Hn2|]. intros _. apply last_ok_snoc. reflexivity.
  - apply andb_true_iff in H as [H _]. apply andb_true_iff in H as [H Hc]. apply andb_true_iff in H as [Hl _].
    apply gdigits_inv in Hl as [_ Hl]. apply gdigits_inv in Hc as [Hcne Hc].
    apply andb_true_iff. split.
    + rewrite !forallb_app, (digits_not_lf l Hl), (digits_not_lf c Hc). destruct neg; reflexivity.
    + rewrite !app_assoc. apply last_ok_app; [|congruence]. apply last_ok_forall, digits_not_nl, Hc.
  - apply andb_true_iff in H as [Hl _]. apply gdigits_inv in Hl as [_ Hl].
    apply andb_true_iff. split.
    + rewrite !forallb_app, (digits_not_lf l Hl). destruct k; reflexivity.
    + rewrite !app_assoc. apply last_ok_app; [destruct k; reflexivity|destruct k; discriminate].
  - apply andb_true_iff in H as [Hk Ht]. unfold key_ok in Hk. apply andb_true_iff in Hk as [Hk _].
    apply text_ok_inv in Ht as [Ht1 Ht2]. apply andb_true_iff. split.
    + rewrite !forallb_app, Ht1. cbn [forallb]. rewrite andb_true_r.
      assert (forallb not_lf key = true) as ->; [|reflexivity].
      apply forallb_forall. intros c Hc. rewrite forallb_forall in Hk. specialize (Hk c Hc).
      apply andb_true_iff in Hk as [Hk _]. exact Hk.
    + rewrite app_assoc. apply last_ok_app; [exact Ht2|]. intros _. apply last_ok_snoc. reflexivity.
Qed.

(* the chunk read_until delivers for a rendered line, and what remove_newline leaves of it *)
Lemma geol_split t b rest : t ++ geol b ++ rest = (t ++ (if b then [13] else [])) ++ 10 :: rest.
Proof. destruct b; cbn [geol]; [rewrite <- app_assoc; reflexivity|]. rewrite app_nil_r. reflexivity. Qed.
Lemma lines_of_text t b rest :
  forallb not_lf t = true -> lines_of (t ++ geol b ++ rest) = (t ++ geol b) :: lines_of rest.
Proof.
  intros H. rewrite geol_split, lines_of_line.
  - destruct b; cbn [geol]; [rewrite <- app_assoc; reflexivity|]. rewrite app_nil_r. reflexivity.
  - rewrite forallb_app, H. destruct b; reflexivity.
Qed.

(* the loop over the rendered records of a section *)
Definition apply_recs (rs : list grec) (st : gstate) : gstate := fold_left (fun st r => apply_grec r st) rs st.
Lemma lines_of_recs recs rest :
  forallb (fun r => wf_grec r.1) recs = true ->
  lines_of (concat (map render_gline recs) ++ rest) = map render_gline recs ++ lines_of rest.
Proof.
  induction recs as [|r recs IH]; intros H; [reflexivity|].
  cbn [forallb] in H. apply andb_true_iff in H as [Hr H].
  cbn [map concat]. rewrite <- app_assoc. unfold render_gline at 1. rewrite <- app_assoc.
  apply render_text_ok, text_ok_inv in Hr as [Hr _].
  rewrite lines_of_text by exact Hr. rewrite IH by exact H. reflexivity.
Qed.
Lemma gloop_app a b st :
  gloop (a ++ b) st = match gloop a st with Ok st' => gloop b st' | Err => Err | Panic => Panic | OutOfFuel => OutOfFuel end.
Proof.
  revert st; induction a as [|l a IH]; intros st; [reflexivity|].
  cbn [app gloop]. destruct (gstep (remove_newline l) st); try reflexivity. apply IH.
Qed.
Lemma gloop_recs recs st :
  forallb (fun r => wf_grec r.1) recs = true ->
  gloop (map render_gline recs) st = Ok (apply_recs recs.*1 st).
Proof.
  revert st; induction recs as [|r recs IH]; intros st H; [reflexivity|].
  cbn [forallb] in H. apply andb_true_iff in H as [Hr H].
  cbn [map gloop]. unfold render_gline at 1.
  pose proof (render_text_ok _ Hr) as Hok. apply text_ok_inv in Hok as [_ Hok].
  rewrite remove_newline_eol by exact Hok. rewrite gstep_render by exact Hr.
  rewrite IH by exact H. reflexivity.
Qed.

(* ------------------------------------------------------------------ what the accumulated maps contain *)
Lemma apply_recs_snoc rs r st : apply_recs (rs ++ [r]) st = apply_grec r (apply_recs rs st).
Proof. unfold apply_recs. rewrite fold_left_app. reflexivity. Qed.
Lemma apply_recs_file rs st : g_file (apply_recs rs st) = g_file st /\ g_results (apply_recs rs st) = g_results st.
Proof.
  induction rs as [|r rs IH] using rev_ind; [auto|]. rewrite apply_recs_snoc. destruct IH as [IH1 IH2].
  destruct r; cbn [apply_grec set_lines set_branches set_funcs g_file g_results]; auto.
Qed.

Lemma apply_recs_lines rs st n :
  g_lines (apply_recs rs st) !! n = match spec_gline rs n with Some c => Some c | None => g_lines st !! n end.
Proof.
  unfold spec_gline. induction rs as [|r rs IH] using rev_ind; [reflexivity|].
  rewrite apply_recs_snoc, omap_app, last_app.
  destruct r as [s c nm|l neg c|l k|key text]; cbn [apply_grec set_lines set_branches set_funcs g_lines omap list_omap lcount_at last]; try exact IH.
  destruct (N.eqb_spec (dec_val l) n) as [->|Hne]; cbn [omap list_omap last].
  - rewrite lookup_insert. reflexivity.
  - rewrite lookup_insert_ne by exact Hne. exact IH.
Qed.
Lemma apply_recs_funcs rs st f :
  g_funcs (apply_recs rs st) !! f = match spec_gfunc rs f with Some c => Some c | None => g_funcs st !! f end.
Proof.
  unfold spec_gfunc. induction rs as [|r rs IH] using rev_ind; [reflexivity|].
  rewrite apply_recs_snoc, omap_app, last_app.
  destruct r as [s c nm|l neg c|l k|key text]; cbn [apply_grec set_lines set_branches set_funcs g_funcs omap list_omap function_at last]; try exact IH.
  destruct (decide (nm = f)) as [->|Hne].
  - rewrite bool_decide_eq_true_2 by reflexivity. cbn [omap list_omap last]. rewrite lookup_insert. reflexivity.
  - rewrite bool_decide_eq_false_2 by exact Hne. cbn [omap list_omap last]. rewrite lookup_insert_ne by exact Hne. exact IH.
Qed.
Lemma apply_recs_branches rs st n :
  g_branches (apply_recs rs st) !! n =
  match omap (branch_at n) rs with
  | [] => g_branches st !! n
  | v => Some (default [] (g_branches st !! n) ++ v)
  end.
Proof.
  induction rs as [|r rs IH] using rev_ind; [reflexivity|].
  rewrite apply_recs_snoc, omap_app.
  destruct r as [s c nm|l neg c|l k|key text]; cbn [apply_grec set_lines set_branches set_funcs g_branches omap list_omap branch_at];
    rewrite ?app_nil_r; try exact IH.
  destruct (N.eqb_spec (dec_val l) n) as [->|Hne]; cbn [omap list_omap].
  - rewrite lookup_insert, IH. destruct (omap (branch_at n) rs) as [|b v]; cbn [app default].
    + reflexivity.
    + unfold id. rewrite <- app_assoc. reflexivity.
  - rewrite lookup_insert_ne by exact Hne. rewrite app_nil_r. exact IH.
Qed.

Definition fresh (f : option name) (res : list (name * cov)) : gstate := mkG f ∅ ∅ ∅ res.
Definition st_cov (st : gstate) : cov := mkCov (g_lines st) (g_branches st) (g_funcs st).
Definition sec_cov (rs : list grec) : cov := st_cov (apply_recs rs (fresh None [])).

Lemma sec_cov_spec rs : gsec_spec rs (sec_cov rs).
Proof.
  unfold gsec_spec, sec_cov, st_cov. cbn [c_lines c_branches c_funcs]. split; [|split].
  - intros n. rewrite apply_recs_lines. cbn [fresh g_lines]. rewrite lookup_empty. destruct (spec_gline rs n); reflexivity.
  - intros n. rewrite apply_recs_branches. cbn [fresh g_branches]. rewrite lookup_empty. unfold spec_gbranch.
    destruct (omap (branch_at n) rs); reflexivity.
  - intros f. rewrite apply_recs_funcs. cbn [fresh g_funcs]. rewrite lookup_empty. destruct (spec_gfunc rs f); reflexivity.
Qed.

(* the maps do not depend on the file name / results carried along *)
Lemma apply_recs_frame rs f res l b fn :
  apply_recs rs (mkG f l b fn res) =
  let x := apply_recs rs (mkG None l b fn []) in mkG f (g_lines x) (g_branches x) (g_funcs x) res.
Proof.
  revert l b fn; induction rs as [|r rs IH]; intros l b fn; [reflexivity|].
  unfold apply_recs in *. cbn [fold_left]. 
  destruct r; cbn [apply_grec set_lines set_branches set_funcs g_file g_lines g_branches g_funcs g_results]; apply IH.
Qed.

(* a section lists a line iff the line map is not empty *)
Lemma apply_recs_no_lcount rs st : existsb is_lcount rs = false -> g_lines (apply_recs rs st) = g_lines st.
Proof.
  revert st; induction rs as [|r rs IH]; intros st H; [reflexivity|].
  cbn [existsb] in H. apply orb_false_iff in H as [Hr H].
  unfold apply_recs in *. cbn [fold_left]. rewrite IH by exact H. destruct r; try reflexivity. discriminate.
Qed.
Lemma lines_empty_true m : lines_empty m = true <-> m = ∅.
Proof. unfold lines_empty. rewrite bool_decide_eq_true. apply map_to_list_empty_iff. Qed.
Lemma sec_lines_empty rs : lines_empty (g_lines (apply_recs rs (fresh None []))) = negb (existsb is_lcount rs).
Proof.
  destruct (existsb is_lcount rs) eqn:E; cbn [negb].
  - apply not_true_is_false. rewrite lines_empty_true. intros Hm.
    apply existsb_exists in E as (r & Hin & Hr). destruct r as [|l neg c| |]; try discriminate.
    pose proof (apply_recs_lines rs (fresh None []) (dec_val l)) as HL. rewrite Hm, lookup_empty in HL.
    cbn [fresh g_lines] in HL. rewrite lookup_empty in HL.
    unfold spec_gline in HL.
    assert (exists v, v ∈ omap (lcount_at (dec_val l)) rs) as [v Hv].
    { eexists. apply elem_of_list_omap. exists (GLcount l neg c). split; [apply elem_of_list_In; exact Hin|].
      cbn [lcount_at]. rewrite N.eqb_refl. reflexivity. }
    destruct (omap (lcount_at (dec_val l)) rs) as [|x xs] eqn:Eo; [inversion Hv|].
    rewrite last_cons in HL. destruct (last xs); discriminate.
  - apply lines_empty_true. rewrite apply_recs_no_lcount by exact E. reflexivity.
Qed.

(* ------------------------------------------------------------------ sections and the whole report *)
Definition flush (st : gstate) : list (name * cov) :=
  match g_file st with
  | Some f => if lines_empty (g_lines st) then [] else [(f, st_cov st)]
  | None => []
  end.
Lemma gstep_file nm st :
  gstep (bs "file:" ++ nm) st = Ok (fresh (Some nm) (g_results st ++ flush st)).
Proof.
  change (bs "file:") with (k_file ++ [gColon]). rewrite <- app_assoc. cbn [app].
  unfold gstep. rewrite split_once_app by reflexivity.
  change (bool_decide (k_file = k_file)) with true. cbv iota. unfold fresh, flush, st_cov.
  destruct (g_file st); [destruct (lines_empty (g_lines st))|]; rewrite ?app_nil_r; reflexivity.
Qed.

Definition sec_lines (s : gsection) : list bytes :=
  (bs "file:" ++ gs_name s ++ geol (gs_crlf s)) :: map render_gline (gs_recs s).
Definition sec_state (s : gsection) (st : gstate) : gstate :=
  apply_recs (gs_recs s).*1 (fresh (Some (gs_name s)) (g_results st ++ flush st)).

Lemma wf_gsection_inv s : wf_gsection s = true ->
  text_ok (gs_name s) = true /\ forallb (fun r => wf_grec r.1) (gs_recs s) = true.
Proof. unfold wf_gsection. intros H. apply andb_true_iff in H. exact H. Qed.

Lemma lines_of_section s rest :
  wf_gsection s = true -> lines_of (render_gsection s ++ rest) = sec_lines s ++ lines_of rest.
Proof.
  intros H. apply wf_gsection_inv in H as [Hn Hr]. apply text_ok_inv in Hn as [Hn _].
  unfold render_gsection, sec_lines.
  replace ((bs "file:" ++ gs_name s ++ geol (gs_crlf s) ++ concat (map render_gline (gs_recs s))) ++ rest)
    with ((bs "file:" ++ gs_name s) ++ geol (gs_crlf s) ++ (concat (map render_gline (gs_recs s)) ++ rest))
    by (rewrite <- !app_assoc; reflexivity).
  rewrite lines_of_text by (rewrite forallb_app, Hn; reflexivity).
  rewrite lines_of_recs by exact Hr. rewrite <- app_assoc. reflexivity.
Qed.
Lemma lines_of_sections secs :
  forallb wf_gsection secs = true -> lines_of (concat (map render_gsection secs)) = concat (map sec_lines secs).
Proof.
  induction secs as [|s secs IH]; intros H; [reflexivity|].
  cbn [forallb] in H. apply andb_true_iff in H as [Hs H]. cbn [map concat].
  rewrite lines_of_section by exact Hs. rewrite IH by exact H. reflexivity.
Qed.

Lemma gloop_section s st :
  wf_gsection s = true -> gloop (sec_lines s) st = Ok (sec_state s st).
Proof.
  intros H. apply wf_gsection_inv in H as [Hn Hr]. apply text_ok_inv in Hn as [_ Hn].
  unfold sec_lines. cbn [gloop]. rewrite app_assoc.
  rewrite remove_newline_eol.
  2:{ change (last_ok (bs "file:" ++ gs_name s) = true). apply last_ok_app; [exact Hn|reflexivity]. }
  rewrite gstep_file. rewrite gloop_recs by exact Hr. reflexivity.
Qed.
Lemma gloop_sections secs st :
  forallb wf_gsection secs = true ->
  gloop (concat (map sec_lines secs)) st = Ok (fold_left (fun st s => sec_state s st) secs st).
Proof.
  revert st; induction secs as [|s secs IH]; intros st H; [reflexivity|].
  cbn [forallb] in H. apply andb_true_iff in H as [Hs H]. cbn [map concat fold_left].
  rewrite gloop_app, gloop_section by exact Hs. apply IH. exact H.
Qed.

Definition sec_result (s : gsection) : option (name * cov) :=
  if has_lcount s then Some (gs_name s, sec_cov (gs_recs s).*1) else None.

Lemma has_lcount_fmap s : has_lcount s = existsb is_lcount (gs_recs s).*1.
Proof. unfold has_lcount. induction (gs_recs s) as [|r rs IH]; [reflexivity|]. cbn [existsb fmap list_fmap]. rewrite IH. reflexivity. Qed.

(* results pushed so far plus what the pending section will contribute *)
Definition pending (st : gstate) : list (name * cov) := g_results st ++ flush st.
Lemma pending_sec_state s st :
  pending (sec_state s st) = pending st ++ option_list (sec_result s).
Proof.
  unfold sec_state. fold (pending st).
  pose proof (apply_recs_frame (gs_recs s).*1 (Some (gs_name s)) (pending st) ∅ ∅ ∅) as HF. cbv zeta in HF.
  change (mkG (Some (gs_name s)) ∅ ∅ ∅ (pending st)) with (fresh (Some (gs_name s)) (pending st)) in HF.
  change (mkG None ∅ ∅ ∅ []) with (fresh None []) in HF.
  rewrite HF. unfold pending at 1, flush. cbn [g_results g_file g_lines].
  rewrite sec_lines_empty, <- has_lcount_fmap. unfold sec_result.
  destruct (has_lcount s); cbn [negb option_list]; reflexivity.
Qed.
Lemma pending_sections secs st :
  pending (fold_left (fun st s => sec_state s st) secs st) = pending st ++ omap sec_result secs.
Proof.
  revert st; induction secs as [|s secs IH]; intros st; cbn [fold_left omap list_omap]; [rewrite app_nil_r; reflexivity|].
  rewrite IH, pending_sec_state, <- app_assoc. f_equal. destruct (sec_result s); reflexivity.
Qed.
Lemma gfinish_pending st : (g_file st = None -> g_lines st = ∅) -> gfinish st = Ok (pending st).
Proof.
  intros H. unfold gfinish, pending, flush. destruct (lines_empty (g_lines st)) eqn:E.
  - destruct (g_file st); rewrite app_nil_r; reflexivity.
  - destruct (g_file st); [reflexivity|]. rewrite H in E by reflexivity. discriminate.
Qed.
Lemma sections_file secs st :
  (g_file st = None -> g_lines st = ∅) ->
  let st' := fold_left (fun st s => sec_state s st) secs st in g_file st' = None -> g_lines st' = ∅.
Proof.
  revert st; induction secs as [|s secs IH]; intros st H; cbn [fold_left]; [exact H|].
  apply IH. unfold sec_state. destruct (apply_recs_file (gs_recs s).*1 (fresh (Some (gs_name s)) (g_results st ++ flush st))) as [-> _].
  discriminate.
Qed.

Lemma pre_other_id pre st :
  forallb (fun r : grec * bool => wf_grec r.1 && is_other r.1) pre = true -> apply_recs pre.*1 st = st.
Proof.
  induction pre as [|r pre IH]; intros H; [reflexivity|].
  cbn [forallb] in H. apply andb_true_iff in H as [Hr H]. apply andb_true_iff in Hr as [_ Hr].
  cbn [fmap list_fmap]. unfold apply_recs in *. cbn [fold_left]. destruct r as [[] b]; try discriminate. apply IH. exact H.
Qed.

Theorem parse_gcov_render f :
  wf_greport f = true ->
  parse_gcov (render_greport f) = Ok (omap sec_result (gr_sections f)).
Proof.
  unfold wf_greport. intros H. apply andb_true_iff in H as [Hp Hs].
  unfold parse_gcov, render_greport, parse_gcov_lines.
  rewrite lines_of_recs.
  2:{ apply forallb_forall. intros r Hr. rewrite forallb_forall in Hp. specialize (Hp r Hr). apply andb_true_iff in Hp as [Hp _]. exact Hp. }
  rewrite lines_of_sections by exact Hs.
  rewrite gloop_app, gloop_recs.
  2:{ apply forallb_forall. intros r Hr. rewrite forallb_forall in Hp. specialize (Hp r Hr). apply andb_true_iff in Hp as [Hp _]. exact Hp. }
  rewrite pre_other_id by exact Hp.
  rewrite gloop_sections by exact Hs.
  rewrite gfinish_pending by (apply sections_file; reflexivity).
  rewrite pending_sections. reflexivity.
Qed.

Lemma Forall2_filter_omap {A B} (p : A -> bool) (g : A -> B) (P : A -> B -> Prop) l :
  (forall a, P a (g a)) ->
  Forall2 P (filter (fun a => p a = true) l) (omap (fun a => if p a then Some (g a) else None) l).
Proof.
  intros HP. induction l as [|a l IH]; [constructor|].
  rewrite filter_cons. cbn [omap list_omap]. destruct (p a) eqn:E.
  - rewrite decide_True by reflexivity. constructor; [apply HP|exact IH].
  - rewrite decide_False by discriminate. exact IH.
Qed.

Theorem gcov_text_sound f :
  wf_greport f = true ->
  exists rs, parse_gcov (render_greport f) = Ok rs /\ greport_spec f rs.
Proof.
  intros H. eexists. split; [apply parse_gcov_render; exact H|].
  unfold greport_spec, sec_result.
  apply (Forall2_filter_omap has_lcount (fun s => (gs_name s, sec_cov (gs_recs s).*1))).
  intros s. cbn [fst snd]. split; [reflexivity|apply sec_cov_spec].
Qed.

(* ------------------------------------------------------------------ panics, fuel *)
Lemma gstep_ok_or_err l st : (exists st', gstep l st = Ok st') \/ gstep l st = Err.
Proof. unfold gstep. repeat case_match; eauto. Qed.
Lemma gloop_ok_or_err ls st : (exists st', gloop ls st = Ok st') \/ gloop ls st = Err.
Proof.
  revert st; induction ls as [|l ls IH]; intros st; cbn [gloop]; [eauto|].
  destruct (gstep_ok_or_err (remove_newline l) st) as [[st' ->]| ->]; [apply IH|auto].
Qed.
Theorem parse_gcov_no_fuel b : parse_gcov b <> OutOfFuel.
Proof.
  unfold parse_gcov, parse_gcov_lines. destruct (gloop_ok_or_err (lines_of b) g_init) as [[st' ->]| ->]; [|discriminate].
  unfold gfinish. repeat case_match; discriminate.
Qed.

(* parse_gcov has no panic site left: every `unwrap`/index of the loop is guarded by try_next!/try_parse!, and the
   final `cur_file` is matched *)
Theorem parse_gcov_no_panic b : parse_gcov b <> Panic.
Proof.
  unfold parse_gcov, parse_gcov_lines. destruct (gloop_ok_or_err (lines_of b) g_init) as [[st' ->]| ->]; [|discriminate].
  unfold gfinish. repeat case_match; discriminate.
Qed.
Theorem parse_gcov_lines_no_panic ls : parse_gcov_lines ls <> Panic.
Proof.
  unfold parse_gcov_lines. destruct (gloop_ok_or_err ls g_init) as [[st' ->]| ->]; [|discriminate].
  unfold gfinish. repeat case_match; discriminate.
Qed.
(* lcount records without any `file:` line: an error (was a panic before fix 31d3a3d) *)
Lemma gfinish_no_file st : g_file st = None -> g_lines st <> ∅ -> gfinish st = Err.
Proof.
  intros Hf Hl. unfold gfinish. destruct (lines_empty (g_lines st)) eqn:E.
  - apply lines_empty_true in E. contradiction.
  - rewrite Hf. reflexivity.
Qed.

(* ------------------------------------------------------------------ numbers that do not fit; negative counts *)
Lemma gstep_lcount_overflow l c st :
  gdigits l = true -> gdigits c = true -> two64 <= dec_val c ->
  gstep (bs "lcount:" ++ l ++ [44] ++ c) st = Err.
Proof.
  intros Hl Hc Hv.
  change (bs "lcount:") with (k_lcount ++ [gColon]). rewrite <- app_assoc. cbn [app].
  unfold gstep. rewrite split_once_app by reflexivity.
  change (bool_decide (k_lcount = k_file)) with false. change (bool_decide (k_lcount = k_function)) with false.
  change (bool_decide (k_lcount = k_lcount)) with true. cbv iota.
  pose proof Hl as Hl'. apply gdigits_inv in Hl' as [_ Hld].
  rewrite split_once_app by (apply no_colon_digits; exact Hld).
  unfold parse_u32. rewrite parse_uint_digits by exact Hl.
  destruct (dec_val l <=? U32_MAX); [|reflexivity].
  assert (c <> [gZero]) as Hne by (intros ->; vm_compute in Hv; congruence).
  rewrite bool_decide_eq_false_2 by exact Hne.
  pose proof Hc as Hc'. apply gdigits_inv in Hc' as [Hcne Hcd].
  destruct c as [|d c]; [congruence|].
  assert (d =? gMinus = false) as ->.
  { simpl in Hcd. apply andb_true_iff in Hcd as [Hd _]. apply digit_not; [exact Hd|]. unfold gMinus. lia. }
  cbn [orb]. unfold parse_u64. rewrite parse_uint_digits by exact Hc.
  assert (dec_val (d :: c) <=? U64_MAX = false) as -> by (unfold two64, U64_MAX in *; lia).
  reflexivity.
Qed.

Lemma gstep_line_overflow key rest l st :
  key ∈ [k_function; k_lcount; k_branch] -> gdigits l = true -> two32 <= dec_val l ->
  gstep (key ++ [gColon] ++ l ++ [gComma] ++ rest) st = Err.
Proof.
  intros Hk Hl Hv. cbn [app].
  assert (forallb (fun c => negb (c =? gColon)) key = true) as Hkc.
  { apply elem_of_list_In in Hk. cbn [In] in Hk. destruct Hk as [<-|[<-|[<-|[]]]]; reflexivity. }
  unfold gstep. rewrite split_once_app by exact Hkc.
  pose proof Hl as Hl'. apply gdigits_inv in Hl' as [_ Hld].
  rewrite split_once_app by (apply no_colon_digits; exact Hld).
  unfold parse_u32. rewrite parse_uint_digits by exact Hl.
  assert (dec_val l <=? U32_MAX = false) as -> by (unfold two32, U32_MAX in *; lia).
  apply elem_of_list_In in Hk. cbn [In] in Hk. destruct Hk as [<-|[<-|[<-|[]]]]; reflexivity.
Qed.

Lemma gstep_lcount_negative l rest st :
  gdigits l = true -> dec_val l <? two32 = true ->
  gstep (bs "lcount:" ++ l ++ [44; 45] ++ rest) st = Ok (set_lines st (<[dec_val l := 0]> (g_lines st))).
Proof.
  intros Hl Hr.
  change (bs "lcount:") with (k_lcount ++ [gColon]). rewrite <- app_assoc. cbn [app].
  unfold gstep. rewrite split_once_app by reflexivity.
  change (bool_decide (k_lcount = k_file)) with false. change (bool_decide (k_lcount = k_function)) with false.
  change (bool_decide (k_lcount = k_lcount)) with true. cbv iota.
  pose proof Hl as Hl'. apply gdigits_inv in Hl' as [_ Hld].
  rewrite split_once_app by (apply no_colon_digits; exact Hld).
  unfold parse_u32. rewrite parse_uint_digits by exact Hl.
  assert (dec_val l <=? U32_MAX = true) as -> by (unfold two32, U32_MAX in *; lia).
  rewrite bool_decide_eq_false_2 by (unfold gZero; congruence).
  unfold gMinus. rewrite N.eqb_refl. cbn [orb]. reflexivity.
Qed.

(* a line that every state rejects makes the whole report an error *)
Lemma lines_of_nonempty l : l <> [] -> lines_of l <> [].
Proof. destruct l as [|c l]; [congruence|]. intros _. cbn [lines_of]. destruct (c =? gLF); [discriminate|]. destruct (lines_of l); discriminate. Qed.
Lemma lines_of_app_lf pre x : lines_of ((pre ++ [10]) ++ x) = lines_of (pre ++ [10]) ++ lines_of x.
Proof.
  induction pre as [|c pre IH]; [reflexivity|].
  cbn [app lines_of]. destruct (c =? gLF).
  - rewrite IH. reflexivity.
  - rewrite IH. pose proof (lines_of_nonempty (pre ++ [10])) as Hne.
    destruct (lines_of (pre ++ [10])); [exfalso; apply Hne; [destruct pre; discriminate|reflexivity]|]. reflexivity.
Qed.
Lemma lines_of_app_complete pre x :
  (pre = [] \/ last pre = Some 10) -> lines_of (pre ++ x) = lines_of pre ++ lines_of x.
Proof.
  intros [->|H]; [reflexivity|]. apply last_Some in H as [p ->]. apply lines_of_app_lf.
Qed.
Lemma gloop_err_line a l b st :
  (forall st, gstep (remove_newline l) st = Err) -> gloop (a ++ l :: b) st = Err.
Proof.
  intros H. rewrite gloop_app. destruct (gloop_ok_or_err a st) as [[st' ->]| ->]; [|reflexivity].
  cbn [gloop]. rewrite H. reflexivity.
Qed.
Theorem parse_gcov_overflow_rejected pre post l c :
  (pre = [] \/ last pre = Some 10) -> gdigits l = true -> gdigits c = true -> two64 <= dec_val c ->
  parse_gcov (pre ++ (bs "lcount:" ++ l ++ [44] ++ c) ++ [10] ++ post) = Err.
Proof.
  intros Hpre Hl Hc Hv. unfold parse_gcov, parse_gcov_lines.
  rewrite lines_of_app_complete by exact Hpre.
  pose proof Hl as Hl'. apply gdigits_inv in Hl' as [_ Hld].
  pose proof Hc as Hc'. apply gdigits_inv in Hc' as [Hcne Hcd].
  change ([10] ++ post) with (geol false ++ post).
  rewrite lines_of_text.
  2:{ rewrite !forallb_app, (digits_not_lf l Hld), (digits_not_lf c Hcd). reflexivity. }
  rewrite gloop_err_line; [reflexivity|].
  intros st. rewrite remove_newline_eol.
  - apply gstep_lcount_overflow; assumption.
  - change (last_ok (bs "lcount:" ++ l ++ [44] ++ c) = true). rewrite !app_assoc.
    apply last_ok_app; [|congruence]. apply last_ok_forall, digits_not_nl, Hcd.
Qed.

(* sections without lines are omitted, every other one is reported once, in order *)
Corollary gcov_text_sections f rs :
  wf_greport f = true -> parse_gcov (render_greport f) = Ok rs ->
  rs.*1 = gs_name <$> filter (fun s => has_lcount s = true) (gr_sections f).
Proof.
  intros H E. destruct (gcov_text_sound f H) as (rs' & E' & Hs). rewrite E in E'. injection E' as <-.
  unfold greport_spec in Hs. clear E H. induction Hs as [|s r ss rs0 [Hn _] _ IH]; [reflexivity|].
  cbn [fmap list_fmap]. rewrite Hn. f_equal. exact IH.
Qed.
