(* Facts about the JaCoCo descent (Model/Jacoco.v) and its SPEC (Model/JacocoSpec.v). *)
From Grcov Require Export Model.JacocoSpec.
From Coq Require Import ZifyBool ZifyN ZifyNat.
Import Coq.Strings.String.StringSyntax.

(* ------------------------------------------------------------------------------------------------------ *)
(* jres                                                                                                    *)
Lemma np_bind {A B} (o : jres A) (f : A -> jres B) :
  o <> JPanic -> (forall a, o = JOk a -> f a <> JPanic) -> jbind o f <> JPanic.
Proof. destruct o; simpl; intros; try discriminate; eauto; congruence. Qed.
Lemma np_jtry {A} (o : option A) : jtry o <> JPanic.
Proof. destruct o; discriminate. Qed.
Lemma nf_bind {A B} (o : jres A) (f : A -> jres B) :
  o <> JFuel -> (forall a, o = JOk a -> f a <> JFuel) -> jbind o f <> JFuel.
Proof. destruct o; simpl; intros; try discriminate; eauto; congruence. Qed.
Lemma nf_jtry {A} (o : option A) : jtry o <> JFuel.
Proof. destruct o; discriminate. Qed.
Lemma jbind_ok {A B} (o : jres A) (f : A -> jres B) b : jbind o f = JOk b -> exists a, o = JOk a /\ f a = JOk b.
Proof. destruct o; simpl; try discriminate; eauto. Qed.
Lemma jtry_ok {A} (o : option A) a : jtry o = JOk a -> o = Some a.
Proof. destruct o; simpl; congruence. Qed.

(* the rest returned by a loop is a proper suffix of what it was given *)
Definition advances (evs rest : list xev) : Prop := exists pre, evs = pre ++ rest /\ pre <> [].
Lemma advances_here a rest : advances (a :: rest) rest.
Proof. exists [a]. split; [reflexivity | discriminate]. Qed.
Lemma advances_cons a evs rest : advances evs rest -> advances (a :: evs) rest.
Proof. intros (pre & -> & _). exists (a :: pre). split; [reflexivity | discriminate]. Qed.
Lemma advances_trans a b c : advances a b -> advances b c -> advances a c.
Proof.
  intros (p & -> & Hp) (q & -> & Hq). exists (p ++ q). split; [by rewrite app_assoc |].
  destruct p; [congruence | discriminate].
Qed.
Lemma advances_len evs rest : advances evs rest -> (length rest < length evs)%nat.
Proof. intros (pre & -> & Hp). rewrite app_length. destruct pre; [congruence | simpl; lia]. Qed.
Lemma advances_Forall (P : xev -> Prop) evs rest : Forall P evs -> advances evs rest -> Forall P rest.
Proof. intros H (pre & -> & _). by apply Forall_app in H as [_ H]. Qed.

(* ------------------------------------------------------------------------------------------------------ *)
(* attributes                                                                                              *)
Lemma get_attr_none k l : k ∉ omap akey l -> get_attr k l = None.
Proof.
  induction l as [|[k' raw un|] l IH]; simpl; intros H; try reflexivity.
  case_bool_decide as E.
  - subst. exfalso. apply H. left.
  - apply IH. intros Hin. apply H. by right.
Qed.
Lemma get_attr_in k raw v l : attrs_ok l -> In (AOk k raw (Some v)) l -> get_attr k l = Some v.
Proof.
  intros [Hb Hn]. induction l as [|[k' raw' un'|] l IH]; simpl in *; intros Hin; try tauto.
  - apply NoDup_cons in Hn as [Hk Hn]. apply Forall_cons in Hb as [_ Hb].
    destruct Hin as [E | Hin].
    + injection E as -> -> ->. by rewrite bool_decide_true.
    + case_bool_decide as E.
      * subst. exfalso. apply Hk. apply elem_of_list_omap. exists (AOk k raw (Some v)). split; [by apply elem_of_list_In | reflexivity].
      * by apply IH.
  - apply Forall_cons in Hb as [Hb _]. congruence.
Qed.
Lemma has_attr_get l k v : attrs_ok l -> has_attr l k v -> get_attr k l = Some v.
Proof. intros H [raw Hin]. eapply get_attr_in; eauto. Qed.

(* attribute-order independence of get_xml_attribute on a well-formed start tag *)
Lemma attrs_ok_perm l l' : attrs_ok l -> Permutation l l' -> attrs_ok l'.
Proof.
  intros [Hb Hn] Hp. split.
  - by rewrite <- Hp.
  - by rewrite <- Hp.
Qed.
Lemma get_attr_perm k l l' : attrs_ok l -> Permutation l l' -> get_attr k l = get_attr k l'.
Proof.
  intros Hok Hp. induction Hp as [| a l l' Hp IH | a b l | l l' l'' Hp1 IH1 Hp2 IH2].
  - reflexivity.
  - destruct a as [k' raw un|]; simpl; [| reflexivity].
    case_bool_decide; [reflexivity |]. apply IH.
    destruct Hok as [Hb Hn]. simpl in Hn. apply NoDup_cons in Hn as [_ Hn]. apply Forall_cons in Hb as [_ Hb]. by split.
  - destruct Hok as [Hb Hn]. apply Forall_cons in Hb as [Hb1 Hb]. apply Forall_cons in Hb as [Ha1 _].
    destruct a as [ka ra ua|], b as [kb rb ub|]; try congruence. simpl in *.
    apply NoDup_cons in Hn as [Hk _].
    repeat case_bool_decide; try reflexivity. subst. exfalso. apply Hk. left.
  - rewrite IH1 by assumption. apply IH2. eapply attrs_ok_perm; eauto.
Qed.

(* ------------------------------------------------------------------------------------------------------ *)
(* the <line> attribute loop                                                                               *)
Lemma line_key_inj k k' i mx mx' : line_key k = Some (i, mx) -> line_key k' = Some (i, mx') -> k = k'.
Proof.
  unfold line_key. intros Ha Hb. repeat case_bool_decide; try discriminate; subst; try reflexivity;
    injection Ha as <- <-; discriminate.
Qed.
Definition upd_slot (acc : list (option N)) (a : xattr) : list (option N) :=
  match a with
  | AOk k raw _ => match line_key k with
                   | Some (i, mx) => match parse_uint mx raw with Some v => <[i := Some v]> acc | None => acc end
                   | None => acc
                   end
  | ABad => acc
  end.
Definition line_good (a : xattr) : Prop :=
  match a with
  | AOk k raw _ => forall i mx, line_key k = Some (i, mx) -> is_Some (parse_uint mx raw)
  | ABad => False
  end.
Lemma line_attrs_fold l : forall acc, Forall line_good l -> line_attrs l acc = Some (foldl upd_slot acc l).
Proof.
  induction l as [|[k raw un|] l IH]; intros acc H; simpl; try reflexivity.
  - apply Forall_cons in H as [Hg H]. simpl in Hg.
    destruct (line_key k) as [[i mx]|] eqn:E; [| by apply IH].
    destruct (Hg i mx eq_refl) as [v Hv]. rewrite Hv. by apply IH.
  - apply Forall_cons in H as [[] _].
Qed.
Lemma foldl_upd_other l (i : nat) : forall acc,
  (forall k raw un mx, In (AOk k raw un) l -> line_key k <> Some (i, mx)) ->
  foldl upd_slot acc l !! i = acc !! i.
Proof.
  induction l as [|a l IH]; intros acc H; simpl; [reflexivity |].
  rewrite IH by (intros; eapply H; right; eauto).
  destruct a as [k raw un|]; simpl; [| reflexivity].
  destruct (line_key k) as [[j mx]|] eqn:E; [| reflexivity].
  destruct (parse_uint mx raw); [| reflexivity].
  apply list_lookup_insert_ne. intros ->. eapply (H k raw un mx); [by left | exact E].
Qed.
Lemma foldl_upd_in l k raw un (i : nat) mx v : forall acc,
  NoDup (omap akey l) -> In (AOk k raw un) l -> line_key k = Some (i, mx) -> parse_uint mx raw = Some v ->
  (i < length acc)%nat -> foldl upd_slot acc l !! i = Some (Some v).
Proof.
  induction l as [|a l IH]; intros acc Hn Hin Hk Hv Hlen; simpl in *; [tauto |].
  destruct Hin as [-> | Hin].
  - simpl in Hn. apply NoDup_cons in Hn as [Hnk Hn].
    rewrite foldl_upd_other.
    + simpl. rewrite Hk, Hv. by apply list_lookup_insert.
    + intros k' raw' un' mx' Hin' Hk'. assert (k' = k) as -> by (eapply line_key_inj; eauto).
      apply Hnk. apply elem_of_list_omap. exists (AOk k raw' un'). split; [by apply elem_of_list_In | reflexivity].
  - apply IH; try assumption.
    + destruct a; simpl in Hn; [by apply NoDup_cons in Hn as [_ Hn] | assumption].
    + destruct a as [k' raw' un'|]; simpl; [| assumption].
      destruct (line_key k') as [[j mx']|]; [| assumption]. destruct (parse_uint mx' raw'); [| assumption].
      by rewrite insert_length.
Qed.
Lemma foldl_upd_length l : forall acc, length (foldl upd_slot acc l) = length acc.
Proof.
  induction l as [|a l IH]; intros acc; simpl; [reflexivity |]. rewrite IH.
  destruct a as [k raw un|]; simpl; [| reflexivity].
  destruct (line_key k) as [[j mx]|]; [| reflexivity]. destruct (parse_uint mx raw); [| reflexivity]. by rewrite insert_length.
Qed.

(* ------------------------------------------------------------------------------------------------------ *)
(* (i) no Panic, no OutOfFuel, progress                                                                    *)
Inductive jbad := BPanic | BFuel.
Definition is_bad {A} (k : jbad) (o : jres A) : Prop :=
  match k, o with BPanic, JPanic => True | BFuel, JFuel => True | _, _ => False end.
Lemma bad_bind {A B} k (o : jres A) (f : A -> jres B) :
  ~ is_bad k o -> (forall a, o = JOk a -> ~ is_bad k (f a)) -> ~ is_bad k (jbind o f).
Proof. destruct o; simpl; intros H1 H2; eauto; destruct k; simpl in *; tauto. Qed.
Lemma bad_jtry {A} k (o : option A) : ~ is_bad k (jtry o).
Proof. destruct o, k; simpl; tauto. Qed.
Lemma bad_ok {A} k (a : A) : ~ is_bad k (JOk a).
Proof. destruct k; simpl; tauto. Qed.
Lemma bad_err {A} k : ~ is_bad k (@JErr A).
Proof. destruct k; simpl; tauto. Qed.
Global Hint Resolve bad_ok bad_err bad_jtry : jbad.

Lemma branch_vec_ok cb mb : cb + mb <= ISIZE_MAX -> branch_vec cb mb = JOk (repeat true (N.to_nat cb) ++ repeat false (N.to_nat mb)).
Proof.
  unfold branch_vec, ISIZE_MAX. intros H.
  destruct (_ <? cb) eqn:E1; [exfalso; lia |]. destruct (_ <? mb) eqn:E2; [exfalso; lia |].
  destruct (_ <? cb + mb) eqn:E3; [exfalso; lia |]. reflexivity.
Qed.
Lemma branch_vec_bad k cb mb : (k = BPanic -> cb + mb <= ISIZE_MAX) -> ~ is_bad k (branch_vec cb mb).
Proof.
  intros H. destruct k.
  - rewrite branch_vec_ok by auto. apply bad_ok.
  - unfold branch_vec. repeat case_match; simpl; tauto.
Qed.
Lemma parse_line_bad k attrs st :
  (k = BPanic -> ev_small (EStart n_line attrs) = true) -> ~ is_bad k (parse_line attrs st).
Proof.
  unfold ev_small, parse_line. rewrite bool_decide_true by reflexivity. destruct st as [ls brs].
  destruct (line_attrs attrs _) as [[|ci [|cb [|mb [|nr [|? ?]]]]]|]; auto with jbad.
  destruct ci as [ci|], cb as [cb|], mb as [mb|], nr as [nr|]; simpl; auto with jbad.
  intros H. destruct (_ || _); auto with jbad.
  apply bad_bind; auto with jbad. apply branch_vec_bad. intros ->. specialize (H eq_refl). lia.
Qed.

Lemma sourcefile_loop_bad k evs : forall st,
  (k = BPanic -> Forall (fun e => ev_small e = true) evs) -> ~ is_bad k (sourcefile_loop evs st).
Proof.
  induction evs as [|e evs IH]; intros st H; simpl; auto with jbad.
  assert (H' : k = BPanic -> Forall (fun e => ev_small e = true) evs) by (intros Hk; specialize (H Hk); by apply Forall_cons in H as [_ H]).
  destruct e; auto with jbad.
  - case_bool_decide as E; [| by apply IH]. subst. apply bad_bind; [| intros; by apply IH].
    apply parse_line_bad. intros Hk. specialize (H Hk). by apply Forall_cons in H as [H _].
  - case_bool_decide; auto with jbad.
Qed.
Lemma sourcefile_loop_adv evs : forall st x rest, sourcefile_loop evs st = JOk (x, rest) -> advances evs rest.
Proof.
  induction evs as [|e evs IH]; intros st x rest; simpl; [discriminate |].
  destruct e; intros H; try discriminate; try (apply advances_cons; eapply IH; eassumption).
  - case_bool_decide; [| apply advances_cons; eapply IH; eassumption].
    apply jbind_ok in H as (st' & _ & H). apply advances_cons; eapply IH; eassumption.
  - case_bool_decide; [| apply advances_cons; eapply IH; eassumption].
    injection H as <- <-. apply advances_here.
Qed.

Lemma method_loop_bad k evs : forall b, ~ is_bad k (method_loop evs b).
Proof.
  induction evs as [|e evs IH]; intros b; simpl; auto with jbad.
  destruct e; auto with jbad.
  - case_bool_decide; [| apply IH]. apply bad_bind; auto with jbad. intros t _.
    case_bool_decide; [| apply IH]. apply bad_bind; auto with jbad. intros c _.
    apply bad_bind; auto with jbad.
  - case_bool_decide; auto with jbad.
Qed.
Lemma method_loop_adv evs : forall b x rest, method_loop evs b = JOk (x, rest) -> advances evs rest.
Proof.
  induction evs as [|e evs IH]; intros b x rest; simpl; [discriminate |].
  destruct e; intros H; try discriminate; try (apply advances_cons; eapply IH; eassumption).
  - case_bool_decide; [| apply advances_cons; eapply IH; eassumption].
    apply jbind_ok in H as (t & _ & H). case_bool_decide; [| apply advances_cons; eapply IH; eassumption].
    apply jbind_ok in H as (c & _ & H). apply jbind_ok in H as (v & _ & H). apply advances_cons; eapply IH; eassumption.
  - case_bool_decide; [| apply advances_cons; eapply IH; eassumption].
    injection H as <- <-. apply advances_here.
Qed.

Lemma class_loop_bad k fuel : forall evs cls fs, (length evs <= fuel)%nat -> ~ is_bad k (class_loop fuel cls evs fs).
Proof.
  induction fuel as [|fuel IH]; intros [|e evs] cls fs Hl; simpl in *; auto with jbad; try lia.
  assert (Hl' : (length evs <= fuel)%nat) by lia.
  destruct e; auto with jbad.
  - case_bool_decide; [| by apply IH]. apply bad_bind; auto with jbad. intros nm _.
    apply bad_bind; auto with jbad. intros l _. apply bad_bind; auto with jbad. intros start _.
    apply bad_bind; [apply method_loop_bad |]. intros [ex rest'] Hm. apply IH.
    apply method_loop_adv, advances_len in Hm. lia.
  - case_bool_decide; auto with jbad.
Qed.
Lemma class_loop_adv fuel : forall evs cls fs x rest, class_loop fuel cls evs fs = JOk (x, rest) -> advances evs rest.
Proof.
  induction fuel as [|fuel IH]; intros [|e evs] cls fs x rest; simpl; try discriminate.
  destruct e; intros H; try discriminate; try (apply advances_cons; eapply IH; eassumption).
  - case_bool_decide; [| apply advances_cons; eapply IH; eassumption].
    apply jbind_ok in H as (nm & _ & H). apply jbind_ok in H as (l & _ & H). apply jbind_ok in H as (start & _ & H).
    apply jbind_ok in H as ([ex rest'] & Hm & H). apply advances_cons. eapply advances_trans; [eapply method_loop_adv; eassumption | eapply IH; eassumption].
  - case_bool_decide; [| apply advances_cons; eapply IH; eassumption].
    injection H as <- <-. apply advances_here.
Qed.

Notation small evs := (Forall (fun e => ev_small e = true) evs).
Lemma package_loop_bad k fuel : forall evs pkg m,
  (length evs <= fuel)%nat -> (k = BPanic -> small evs) -> ~ is_bad k (package_loop fuel pkg evs m).
Proof.
  induction fuel as [|fuel IH]; intros [|e evs] pkg m Hl Hs; simpl in *; auto with jbad; try lia.
  assert (Hl' : (length evs <= fuel)%nat) by lia.
  assert (Hs' : k = BPanic -> small evs) by (intros Hk; specialize (Hs Hk); by apply Forall_cons in Hs as [_ Hs]).
  destruct e; auto with jbad.
  - case_bool_decide.
    + apply bad_bind; auto with jbad. intros fq _. apply bad_bind; [by apply class_loop_bad |].
      intros [fs rest'] Hc. apply class_loop_adv in Hc. apply IH.
      * apply advances_len in Hc. lia.
      * intros Hk. eapply advances_Forall; [apply Hs'; exact Hk | exact Hc].
    + case_bool_decide; [| by apply IH]. apply bad_bind; auto with jbad. intros file _.
      apply bad_bind; [by apply sourcefile_loop_bad |]. intros [st rest'] Hc. apply sourcefile_loop_adv in Hc. apply IH.
      * apply advances_len in Hc. lia.
      * intros Hk. eapply advances_Forall; [apply Hs'; exact Hk | exact Hc].
  - case_bool_decide; auto with jbad.
Qed.
Lemma package_loop_adv fuel : forall evs pkg m x rest, package_loop fuel pkg evs m = JOk (x, rest) -> advances evs rest.
Proof.
  induction fuel as [|fuel IH]; intros [|e evs] pkg m x rest; simpl; try discriminate.
  destruct e; intros H; try discriminate; try (apply advances_cons; eapply IH; eassumption).
  - case_bool_decide; [| case_bool_decide; [| apply advances_cons; eapply IH; eassumption]].
    + apply jbind_ok in H as (fq & _ & H). apply jbind_ok in H as ([fs rest'] & Hc & H).
      apply advances_cons. eapply advances_trans; [eapply class_loop_adv; eassumption | eapply IH; eassumption].
    + apply jbind_ok in H as (file & _ & H). apply jbind_ok in H as ([st rest'] & Hc & H).
      apply advances_cons. eapply advances_trans; [eapply sourcefile_loop_adv; eassumption | eapply IH; eassumption].
  - case_bool_decide; [| apply advances_cons; eapply IH; eassumption].
    injection H as <- <-. apply advances_here.
Qed.
Lemma report_loop_bad k fuel : forall evs acc,
  (length evs <= fuel)%nat -> (k = BPanic -> small evs) -> ~ is_bad k (report_loop fuel evs acc).
Proof.
  induction fuel as [|fuel IH]; intros [|e evs] acc Hl Hs; simpl in *; auto with jbad; try lia.
  assert (Hl' : (length evs <= fuel)%nat) by lia.
  assert (Hs' : k = BPanic -> small evs) by (intros Hk; specialize (Hs Hk); by apply Forall_cons in Hs as [_ Hs]).
  destruct e; auto with jbad.
  case_bool_decide; [| by apply IH]. apply bad_bind; auto with jbad. intros pkg _.
  apply bad_bind; [by apply package_loop_bad |]. intros [rs rest'] Hc. apply package_loop_adv in Hc. apply IH.
  - apply advances_len in Hc. lia.
  - intros Hk. eapply advances_Forall; [apply Hs'; exact Hk | exact Hc].
Qed.

Theorem jacoco_fuel evs : parse_jacoco evs <> JFuel.
Proof.
  intros H. apply (report_loop_bad BFuel (length evs) evs []); [lia | discriminate |].
  unfold parse_jacoco in H. by rewrite H.
Qed.
Theorem jacoco_no_panic evs : small evs -> parse_jacoco evs <> JPanic.
Proof.
  intros Hs H. apply (report_loop_bad BPanic (length evs) evs []); [lia | auto |].
  unfold parse_jacoco in H. by rewrite H.
Qed.

(* ------------------------------------------------------------------------------------------------------ *)
(* (ii) per-element lemmas on serialised children                                                          *)
Ltac bd_true := try rewrite bool_decide_true by reflexivity.

Lemma method_noise pre : forall rest b, Forall noise_method pre -> method_loop (pre ++ rest) b = method_loop rest b.
Proof.
  induction pre as [|e pre IH]; intros rest b H; simpl; [reflexivity |].
  apply Forall_cons in H as [He H]. destruct e; simpl in He; try tauto; try by apply IH.
  - case_bool_decide as E; [| by apply IH]. destruct (He E) as (t & Hok & Ht & Hne).
    rewrite (has_attr_get _ _ _ Hok Ht). simpl. rewrite bool_decide_false by assumption. by apply IH.
  - rewrite bool_decide_false by assumption. by apply IH.
Qed.

(* parse_method: the start tag gives name and line, the body gives the executed flag and is consumed exactly *)
Lemma parse_method m evs :
  ser_method m evs ->
  exists attrs body, evs = EStart n_method attrs :: body
    /\ get_attr k_name attrs = Some (m_name m)
    /\ (exists l, get_attr k_line attrs = Some l /\ parse_uint U32_MAX l = Some (m_line m))
    /\ forall rest b, method_loop (body ++ rest) b = JOk (0 <? m_covered m, rest).
Proof.
  intros (attrs & pre & cattrs & post & -> & Hok & Hn & (l & Hl & Hpl) & Hpre & Hpost & Hcok & Hty & (c & Hc & Hpc)).
  exists attrs, (pre ++ EStart n_counter cattrs :: post ++ [EEnd n_method]). split; [reflexivity |].
  split; [by apply has_attr_get |]. split; [exists l; split; [by apply has_attr_get | assumption] |].
  intros rest b. rewrite <- app_assoc. rewrite method_noise by assumption. simpl.
  bd_true. rewrite (has_attr_get _ _ _ Hcok Hty). simpl. bd_true.
  rewrite (has_attr_get _ _ _ Hcok Hc). simpl. rewrite Hpc. simpl.
  rewrite <- app_assoc. rewrite method_noise by assumption. simpl. bd_true. reflexivity.
Qed.

Definition ins_method (cls : bytes) (fs : gmap name func) (m : jmethod) : gmap name func :=
  <[cls ++ HASH :: m_name m := den_method m]> fs.
Lemma parse_class cls ms body :
  ser_list ser_method noise_class ms body ->
  forall fuel rest fs, (length (body ++ EEnd n_class :: rest) <= fuel)%nat ->
    class_loop fuel cls (body ++ EEnd n_class :: rest) fs = JOk (foldl (ins_method cls) fs ms, rest).
Proof.
  induction 1 as [| e xs evs He Hs IH | m xs ev evs Hm Hs IH]; intros fuel rest fs Hl.
  - simpl in *. destruct fuel; [lia |]. simpl. by bd_true.
  - simpl in Hl. destruct fuel; [lia |]. simpl.
    destruct e; simpl in He; try tauto; try (apply IH; lia).
    + rewrite bool_decide_false by assumption. apply IH; lia.
    + rewrite bool_decide_false by assumption. apply IH; lia.
  - apply parse_method in Hm as (attrs & mbody & -> & Hn & (l & Hl1 & Hl2) & Hbody).
    rewrite <- app_assoc. simpl. rewrite <- app_assoc in Hl. simpl in Hl.
    destruct fuel; [lia |]. simpl. bd_true. rewrite Hn. simpl. rewrite Hl1. simpl. rewrite Hl2. simpl.
    rewrite Hbody. simpl. apply IH. rewrite app_length in Hl. lia.
Qed.

Lemma attrs_key_unique l k r u r' u' :
  NoDup (omap akey l) -> In (AOk k r u) l -> In (AOk k r' u') l -> r = r' /\ u = u'.
Proof.
  induction l as [|a l IH]; simpl; intros Hn H1 H2; [tauto |].
  assert (Hnot : forall r0 u0, In (AOk k r0 u0) l -> a = AOk k r u \/ a = AOk k r' u' -> False).
  { intros r0 u0 Hin [-> | ->]; simpl in Hn; apply NoDup_cons in Hn as [Hk _]; apply Hk;
      apply elem_of_list_omap; exists (AOk k r0 u0); (split; [by apply elem_of_list_In | reflexivity]). }
  destruct H1 as [E1 | H1], H2 as [E2 | H2].
  - rewrite E1 in E2. by injection E2.
  - exfalso. eapply Hnot; eauto.
  - exfalso. eapply Hnot; eauto.
  - apply IH; try assumption. destruct a; simpl in Hn; [by apply NoDup_cons in Hn as [_ Hn] | assumption].
Qed.

Lemma parse_line_ser l evs st :
  wf_line l -> ser_line l evs -> exists attrs, evs = [EStart n_line attrs] /\ parse_line attrs st = JOk (den_line st l).
Proof.
  intros Hwf (attrs & -> & [Hb Hn] & (rnr & unr & Inr & Pnr) & (rci & uci & Ici & Pci) & (rmb & umb & Imb & Pmb) & (rcb & ucb & Icb & Pcb)).
  exists attrs. split; [reflexivity |].
  assert (Hgood : Forall line_good attrs).
  { apply Forall_forall. intros [k raw un|] Hin; simpl.
    - apply elem_of_list_In in Hin. intros i mx Hk. unfold line_key in Hk.
      repeat case_bool_decide; try discriminate; subst; injection Hk as <- <-.
      + destruct (attrs_key_unique _ _ _ _ _ _ Hn Hin Ici) as [-> _]. eauto.
      + destruct (attrs_key_unique _ _ _ _ _ _ Hn Hin Icb) as [-> _]. eauto.
      + destruct (attrs_key_unique _ _ _ _ _ _ Hn Hin Imb) as [-> _]. eauto.
      + destruct (attrs_key_unique _ _ _ _ _ _ Hn Hin Inr) as [-> _]. eauto.
    - eapply Forall_forall in Hb; eauto. }
  unfold parse_line. destruct st as [ls brs]. rewrite line_attrs_fold by assumption.
  pose proof (foldl_upd_length attrs [None; None; None; None]) as Hlen.
  pose proof (foldl_upd_in attrs k_ci rci uci 0 U64_MAX (l_ci l) [None; None; None; None] Hn Ici eq_refl Pci ltac:(simpl; lia)) as H0.
  pose proof (foldl_upd_in attrs k_cb rcb ucb 1 U64_MAX (l_cb l) [None; None; None; None] Hn Icb eq_refl Pcb ltac:(simpl; lia)) as H1.
  pose proof (foldl_upd_in attrs k_mb rmb umb 2 U64_MAX (l_mb l) [None; None; None; None] Hn Imb eq_refl Pmb ltac:(simpl; lia)) as H2.
  pose proof (foldl_upd_in attrs k_nr rnr unr 3 U32_MAX (l_nr l) [None; None; None; None] Hn Inr eq_refl Pnr ltac:(simpl; lia)) as H3.
  destruct (foldl upd_slot _ attrs) as [|a0 [|a1 [|a2 [|a3 [|? ?]]]]]; simpl in Hlen; try lia.
  simpl in H0, H1, H2, H3. injection H0 as ->. injection H1 as ->. injection H2 as ->. injection H3 as ->.
  simpl. unfold den_line, is_branch_line. destruct (_ || _); [| reflexivity].
  rewrite branch_vec_ok by exact Hwf. reflexivity.
Qed.

Lemma parse_sourcefile ls body :
  ser_list ser_line noise_sf ls body -> Forall wf_line ls ->
  forall rest st, sourcefile_loop (body ++ EEnd n_sourcefile :: rest) st = JOk (foldl den_line st ls, rest).
Proof.
  induction 1 as [| e xs evs He Hs IH | l xs ev evs Hm Hs IH]; intros Hwf rest st.
  - simpl. by bd_true.
  - simpl. destruct e; simpl in He; try tauto; try (by apply IH).
    + rewrite bool_decide_false by assumption. by apply IH.
    + rewrite bool_decide_false by assumption. by apply IH.
  - apply Forall_cons in Hwf as [Hw Hwf].
    destruct (parse_line_ser l ev st Hw Hm) as (attrs & -> & Hp). simpl. bd_true. rewrite Hp. simpl. by apply IH.
Qed.

(* ------------------------------------------------------------------------------------------------------ *)
(* (iii) packages, the report, soundness                                                                   *)
Definition ren (pkg : bytes) (m : gmap name cov) : list (name * cov) :=
  map (fun '(f, c) => (join_name pkg f, c)) (map_to_list m).

Lemma class_file attrs c :
  attrs_ok attrs ->
  match c_sourcefilename c with Some f => has_attr attrs k_sourcefilename f | None => no_attr attrs k_sourcefilename end ->
  match get_attr k_sourcefilename attrs with Some f => f | None => before_dollar (last_seg (c_name c) []) ++ s_java end = file_of c.
Proof.
  intros Hok H. unfold file_of, simple_name. destruct (c_sourcefilename c) as [f|].
  - by rewrite (has_attr_get _ _ _ Hok H).
  - by rewrite get_attr_none.
Qed.

Lemma parse_package pkg cs body :
  ser_list ser_child noise_pkg cs body -> Forall wf_child cs ->
  forall fuel rest m, (length (body ++ EEnd n_package :: rest) <= fuel)%nat ->
    package_loop fuel pkg (body ++ EEnd n_package :: rest) m = JOk (ren pkg (foldl den_child m cs), rest).
Proof.
  induction 1 as [| e xs evs He Hs IH | ch xs ev evs Hc Hs IH]; intros Hwf fuel rest m Hl.
  - simpl in *. destruct fuel; [lia |]. simpl. by bd_true.
  - simpl in Hl. destruct fuel; [lia |]. simpl.
    destruct e; simpl in He; try tauto; try (apply IH; [assumption | lia]).
    + destruct He as [H1 H2]. rewrite !bool_decide_false by assumption. apply IH; [assumption | lia].
    + rewrite bool_decide_false by assumption. apply IH; [assumption | lia].
  - apply Forall_cons in Hwf as [Hw Hwf]. destruct ch as [c | s]; simpl in Hc.
    + destruct Hc as (attrs & cbody & -> & Hok & Hname & Hsfn & Hlist).
      rewrite <- app_assoc. simpl. rewrite <- !app_assoc. simpl.
      rewrite <- app_assoc in Hl. simpl in Hl. rewrite <- !app_assoc in Hl. simpl in Hl.
      destruct fuel; [lia |]. simpl. bd_true. rewrite (has_attr_get _ _ _ Hok Hname). simpl.
      rewrite (class_file attrs c Hok Hsfn).
      rewrite (parse_class _ _ _ Hlist) by (simpl in Hl; lia). simpl.
      apply IH; [assumption |]. rewrite app_length in Hl. simpl in Hl. lia.
    + destruct Hc as (attrs & sbody & -> & Hok & Hname & Hlist). destruct Hw as [Hw _].
      rewrite <- app_assoc. simpl. rewrite <- !app_assoc. simpl.
      rewrite <- app_assoc in Hl. simpl in Hl. rewrite <- !app_assoc in Hl. simpl in Hl.
      destruct fuel; [lia |]. simpl. bd_true. rewrite (has_attr_get _ _ _ Hok Hname). simpl.
      rewrite (parse_sourcefile _ _ Hlist Hw). simpl.
      apply IH; [assumption |]. rewrite app_length in Hl. simpl in Hl. lia.
Qed.

Definition wf_children (p : jpackage) : Prop := Forall wf_child (p_children p).
Lemma parse_report r body :
  ser_list ser_package noise_report r body -> Forall wf_children r ->
  forall fuel tail acc, (tail = [] \/ exists t, tail = Eof :: t) -> (length (body ++ tail) <= fuel)%nat ->
    report_loop fuel (body ++ tail) acc = JOk (acc ++ flat_map (fun p => ren (p_name p) (den_pkg_map p)) r).
Proof.
  induction 1 as [| e xs evs He Hs IH | p xs ev evs Hc Hs IH]; intros Hwf fuel tail acc Ht Hl.
  - simpl. rewrite app_nil_r. destruct Ht as [-> | [t ->]]; [by destruct fuel |].
    simpl in Hl. destruct fuel; [lia | reflexivity].
  - simpl in Hl. destruct fuel; [lia |]. simpl.
    destruct e; simpl in He; try tauto; try (apply IH; [assumption | assumption | lia]).
    rewrite bool_decide_false by assumption. apply IH; [assumption | assumption | lia].
  - apply Forall_cons in Hwf as [Hw Hwf].
    destruct Hc as (attrs & pbody & -> & Hok & Hname & Hlist).
    rewrite <- app_assoc. simpl. rewrite <- !app_assoc. simpl.
    rewrite <- app_assoc in Hl. simpl in Hl. rewrite <- !app_assoc in Hl. simpl in Hl.
    destruct fuel; [lia |]. simpl. bd_true. rewrite (has_attr_get _ _ _ Hok Hname). simpl.
    rewrite (parse_package _ _ _ Hlist Hw) by (simpl in Hl; lia). simpl.
    rewrite IH; [| assumption | assumption | rewrite app_length in Hl; simpl in Hl; lia].
    unfold den_pkg_map. by rewrite <- app_assoc.
Qed.

(* record names: package/file, and just file for the default package *)
Lemma trim_slashes_id s : no_lead_slash s -> trim_slashes s = s.
Proof.
  unfold no_lead_slash. destruct s as [|c s]; simpl; [reflexivity |]. intros H.
  destruct (c =? SLASH) eqn:E; [| reflexivity]. exfalso. apply H. f_equal. lia.
Qed.
Lemma join_name_spec pkg f :
  no_lead_slash pkg -> (pkg = [] -> no_lead_slash f) -> join_name pkg f = rec_name pkg f.
Proof.
  unfold join_name, rec_name. intros Hp Hf. case_bool_decide as E.
  - subst. simpl. by apply trim_slashes_id, Hf.
  - apply trim_slashes_id. destruct pkg; [congruence | exact Hp].
Qed.
Lemma den_child_dom cs : forall m f, is_Some (foldl den_child m cs !! f) -> is_Some (m !! f) \/ f ∈ map child_file cs.
Proof.
  induction cs as [|ch cs IH]; intros m f H; simpl in *; [by left |].
  apply IH in H as [H | H]; [| right; by right].
  destruct (decide (f = child_file ch)) as [-> | Hne]; [right; left |]. left.
  destruct ch as [c | s]; simpl in *; unfold add_class, add_sourcefile in H;
    case_match; rewrite lookup_insert_ne in H by congruence; assumption.
Qed.
Lemma ren_den_pkg p : wf_package p -> ren (p_name p) (den_pkg_map p) = den_pkg p.
Proof.
  intros (_ & _ & _ & Hp & Hf). unfold ren, den_pkg. apply map_ext_in. intros [f c] Hin. f_equal.
  apply join_name_spec; [exact Hp |]. intros E.
  apply elem_of_list_In, elem_of_map_to_list in Hin.
  destruct (den_child_dom (p_children p) ∅ f) as [H | H].
  - exists c. exact Hin.
  - rewrite lookup_empty in H. by destruct H.
  - apply elem_of_list_fmap in H as (ch & -> & Hch). specialize (Hf E). eapply Forall_forall in Hf; eauto.
Qed.

Lemma ren_denote r : wf_report r -> flat_map (fun p => ren (p_name p) (den_pkg_map p)) r = denote r.
Proof.
  unfold denote. induction 1 as [| p r Hp Hr IH]; simpl; [reflexivity |].
  rewrite IH. by rewrite ren_den_pkg by assumption.
Qed.

Theorem jacoco_sound r evs : wf_report r -> serialises r evs -> parse_jacoco evs = JOk (denote r).
Proof.
  intros Hwf (body & tail & -> & Hs & Ht). unfold parse_jacoco.
  rewrite (parse_report r body Hs) with (tail := tail) (acc := []); try assumption; try lia.
  - simpl. by rewrite ren_denote.
  - eapply Forall_impl; [exact Hwf |]. intros p Hp. apply Hp.
Qed.

(* ------------------------------------------------------------------------------------------------------ *)
(* witnesses: the unrestricted no-panic / termination statements are false of the faithful model           *)
Definition panic_witness : list xev :=
  [EStart (bs "report") [at_ k_name (bs "r")]; EStart n_package [at_ k_name (bs "p")]; EStart n_sourcefile [at_ k_name (bs "A.java")];
   EStart n_line [at_ k_nr (bs "1"); at_ (bs "mi") (bs "0"); at_ k_ci (bs "1"); at_ k_mb (bs "0"); at_ k_cb (bs "9223372036854775808")];
   EEnd n_line; EEnd n_sourcefile; EEnd n_package; EEnd (bs "report"); Eof].
Definition hang_witness : list xev :=
  [EStart (bs "report") [at_ k_name (bs "r")]; EStart n_package [at_ k_name (bs "p")]; EStart n_sourcefile [at_ k_name (bs "A.java")]; Eof].
Lemma jacoco_no_panic_refuted : exists evs, parse_jacoco evs = JPanic.
Proof. exists panic_witness. vm_compute. reflexivity. Qed.
(* the old hang witness (a report that ends inside <sourcefile>): an error since fix 0b9ca48 *)
Lemma hang_witness_err : parse_jacoco hang_witness = JErr.
Proof. vm_compute. reflexivity. Qed.
(* Termination for ALL event lists: the descent makes at most one loop iteration per event (fuel = number of
   events is never exhausted) and ends in a result, an error or - known finding - the capacity-overflow panic;
   the result type has no other inhabitant since no loop arm is left that neither consumes nor returns. *)
Theorem jacoco_terminates evs : (exists rs, parse_jacoco evs = JOk rs) \/ parse_jacoco evs = JErr \/ parse_jacoco evs = JPanic.
Proof. pose proof (jacoco_fuel evs) as H. destruct (parse_jacoco evs); eauto. congruence. Qed.
(* a stream that ends (Eof, or nothing left to read) while an element is open is an error at every level *)
Lemma eof_inside_is_err :
  (forall st t, sourcefile_loop (Eof :: t) st = JErr /\ sourcefile_loop [] st = JErr) /\
  (forall b t, method_loop (Eof :: t) b = JErr /\ method_loop [] b = JErr) /\
  (forall fuel cls fs t, class_loop (S fuel) cls (Eof :: t) fs = JErr /\ class_loop fuel cls [] fs = JErr) /\
  (forall fuel pkg m t, package_loop (S fuel) pkg (Eof :: t) m = JErr /\ package_loop fuel pkg [] m = JErr).
Proof. repeat split; try reflexivity; by destruct fuel. Qed.
(* the size of the vector a <line> asks for is the number written in the input, not bounded by the input's length *)
Lemma branch_vec_alloc cb mb v : branch_vec cb mb = JOk v -> N.of_nat (length v) = alloc_request cb mb.
Proof.
  unfold branch_vec, alloc_request. repeat case_match; try discriminate. intros [= <-].
  rewrite app_length, !repeat_length. lia.
Qed.

(* ------------------------------------------------------------------------------------------------------ *)
(* the hypotheses of jacoco_sound are satisfiable: a report with a nested class without sourcefilename, an
   escaped method name, shuffled and extra attributes, counters at three levels, text and comment events       *)
Definition ex_report : jreport :=
  [mkP (bs "org/example")
     [JC (mkC (bs "org/example/Outer$Inner") None [mkM (bs "<init>") 3 1]);
      JS (mkSF (bs "Outer.java") [mkL 3 0 2 0 0; mkL 4 1 1 1 2])]].
Definition ex_method_evs : list xev :=
  [EStart n_method [at_ k_line (bs "3"); AOk k_name (bs "&lt;init&gt;") (Some (bs "<init>")); at_ (bs "desc") (bs "()V")];
   EStart n_counter [at_ (bs "missed") (bs "0"); at_ k_type (bs "LINE"); at_ k_covered (bs "0")]; EEnd n_counter;
   EStart n_counter [at_ k_covered (bs "1"); at_ k_type v_METHOD]; EEnd n_counter;
   EEnd n_method].
Definition ex_class_evs : list xev :=
  EStart n_class [at_ k_name (bs "org/example/Outer$Inner")] :: Text :: ex_method_evs
  ++ [EStart n_counter [at_ k_type v_METHOD; at_ k_covered (bs "0")]; EEnd n_counter; EEnd n_class].
Definition ex_line1 : list xev := [EStart n_line [at_ k_cb (bs "0"); at_ k_nr (bs "3"); at_ (bs "mi") (bs "0"); at_ k_ci (bs "2"); at_ k_mb (bs "0")]].
Definition ex_line2 : list xev := [EStart n_line [at_ k_nr (bs "4"); at_ (bs "mi") (bs "1"); at_ k_ci (bs "1"); at_ k_mb (bs "1"); at_ k_cb (bs "+2")]].
Definition ex_sf_evs : list xev :=
  EStart n_sourcefile [at_ k_name (bs "Outer.java")] :: ex_line1 ++ EEnd n_line :: ex_line2 ++ [EEnd n_line; Other; EEnd n_sourcefile].
Definition ex_pkg_evs : list xev :=
  EStart n_package [at_ (bs "x") (bs "1"); at_ k_name (bs "org/example")] :: ex_class_evs ++ Text :: ex_sf_evs ++ [EEnd n_package].
Definition ex_events : list xev :=
  Other :: EStart (bs "report") [at_ k_name (bs "r")] :: Text :: ex_pkg_evs ++ [EEnd (bs "report"); Eof].

Global Instance xattr_eq_dec : EqDecision xattr.
Proof. solve_decision. Defined.
Global Instance attrs_ok_dec l : Decision (attrs_ok l).
Proof. unfold attrs_ok. apply _. Defined.
Ltac decide_it := apply (bool_decide_unpack _); vm_compute; exact I.
Ltac ha := eexists; simpl; eauto 12.
Ltac hn := eexists; split; [ha | reflexivity].
Ltac hr := do 2 eexists; split; [simpl; eauto 12 | reflexivity].

Lemma ex_wf : wf_report ex_report.
Proof. decide_it. Qed.
Lemma ex_ser_method : ser_method (mkM (bs "<init>") 3 1) ex_method_evs.
Proof.
  eexists _, [_; _], _, [_]. split; [reflexivity |].
  split; [decide_it |]. split; [ha |]. split; [hn |].
  split. { repeat constructor; simpl; try discriminate. intros _. eexists. split; [decide_it |]. split; [ha | discriminate]. }
  split. { repeat constructor; simpl; discriminate. }
  split; [decide_it |]. split; [ha | hn].
Qed.
Lemma ex_serialises : serialises ex_report ex_events.
Proof.
  exists (Other :: EStart (bs "report") [at_ k_name (bs "r")] :: Text :: ex_pkg_evs ++ [EEnd (bs "report")]), [Eof].
  split; [reflexivity |]. split; [| right; eauto].
  apply sl_noise; [exact I |]. apply sl_noise; [simpl; discriminate |]. apply sl_noise; [exact I |].
  apply (sl_item _ _ _ _ ex_pkg_evs [EEnd (bs "report")]); [| apply sl_noise; [exact I | constructor]].
  eexists _, (ex_class_evs ++ Text :: ex_sf_evs). split; [reflexivity |].
  split; [decide_it |]. split; [ha |].
  apply (sl_item _ _ _ _ ex_class_evs (Text :: ex_sf_evs)).
  - eexists _, (Text :: ex_method_evs ++ [EStart n_counter [at_ k_type v_METHOD; at_ k_covered (bs "0")]; EEnd n_counter]).
    split; [reflexivity |]. split; [decide_it |]. split; [ha |]. split; [simpl; decide_it |].
    apply sl_noise; [exact I |].
    apply (sl_item _ _ _ _ ex_method_evs [_; _]); [exact ex_ser_method |].
    apply sl_noise; [simpl; discriminate |]. apply sl_noise; [simpl; discriminate |]. constructor.
  - apply sl_noise; [exact I |].
    apply (sl_item _ _ _ _ ex_sf_evs []); [| constructor].
    eexists _, (ex_line1 ++ EEnd n_line :: ex_line2 ++ [EEnd n_line; Other]). split; [reflexivity |].
    split; [decide_it |]. split; [ha |].
    apply (sl_item _ _ _ _ ex_line1 (EEnd n_line :: ex_line2 ++ [EEnd n_line; Other])).
    { eexists. split; [reflexivity |]. split; [decide_it |]. repeat split; hr. }
    apply sl_noise; [simpl; discriminate |].
    apply (sl_item _ _ _ _ ex_line2 [EEnd n_line; Other]).
    { eexists. split; [reflexivity |]. split; [decide_it |]. repeat split; hr. }
    apply sl_noise; [simpl; discriminate |]. apply sl_noise; [exact I |]. constructor.
Qed.
(* and what jacoco_sound then says about it *)
Lemma ex_result :
  map (fun '(n, c) => (n, cov_to_l c)) (denote ex_report) =
  [(bs "org/example/Outer.java", ([(3, 1)], [(4, [true; true; false])], [(bs "Outer$Inner#<init>", (3, true))]))].
Proof. vm_compute. reflexivity. Qed.

(* ------------------------------------------------------------------------------------------------------ *)
(* what `denote` says, clause by clause (the fold over the children read as the property reads a report)   *)
Lemma foldl_den_line_other ls : forall st n, n ∉ map l_nr ls ->
  (foldl den_line st ls).1 !! n = st.1 !! n /\ (foldl den_line st ls).2 !! n = st.2 !! n.
Proof.
  induction ls as [|a ls IH]; intros st n Hn; simpl; [done |].
  apply not_elem_of_cons in Hn as [Hne Hn]. destruct (IH (den_line st a) n Hn) as [-> ->].
  unfold den_line. destruct (is_branch_line a); simpl; rewrite ?lookup_insert_ne by congruence; done.
Qed.
Definition line_clause (st : lb) (l : jline) : Prop :=
  if is_branch_line l then st.2 !! l_nr l = Some (branch_vector l) /\ st.1 !! l_nr l = None
  else st.1 !! l_nr l = Some (line_count l) /\ st.2 !! l_nr l = None.
Lemma foldl_den_line_in ls : forall st l, NoDup (map l_nr ls) -> In l ls ->
  st.1 !! l_nr l = None -> st.2 !! l_nr l = None -> line_clause (foldl den_line st ls) l.
Proof.
  induction ls as [|a ls IH]; intros st l Hnd Hin H1 H2; simpl in *; [tauto |].
  apply NoDup_cons in Hnd as [Hnotin Hnd]. destruct Hin as [-> | Hin].
  - unfold line_clause. destruct (foldl_den_line_other ls (den_line st l) (l_nr l) Hnotin) as [-> ->].
    unfold den_line. destruct (is_branch_line l); simpl; rewrite lookup_insert; done.
  - assert (l_nr a <> l_nr l).
    { intros E. apply Hnotin. rewrite E. apply elem_of_list_In, in_map, Hin. }
    apply IH; auto; unfold den_line; destruct (is_branch_line a); simpl; rewrite ?lookup_insert_ne by congruence; done.
Qed.
(* a <line> with branch counters gives cb taken then mb not-taken entries and NO line count; any other
   <line> gives the count [ci > 0] and no branch entry *)
Lemma den_sf_clause s l : wf_sourcefile s -> In l (sf_lines s) -> line_clause (den_sf s) l.
Proof. intros [_ Hnd] Hin. apply foldl_den_line_in; auto; apply lookup_empty. Qed.
(* and nothing else is in the record *)
Lemma den_sf_only s n : n ∉ map l_nr (sf_lines s) -> (den_sf s).1 !! n = None /\ (den_sf s).2 !! n = None.
Proof. intros H. unfold den_sf. destruct (foldl_den_line_other (sf_lines s) (∅, ∅) n H) as [-> ->]. simpl. by rewrite !lookup_empty. Qed.

(* lines and branches of a <sourcefile> land on the record named after it, whatever stands around it *)
Lemma foldl_den_child_lines cs : forall m f L B,
  (exists cv, m !! f = Some cv /\ c_lines cv = L /\ c_branches cv = B) -> f ∉ sf_names cs ->
  exists cv, foldl den_child m cs !! f = Some cv /\ c_lines cv = L /\ c_branches cv = B.
Proof.
  induction cs as [|ch cs IH]; intros m f L B H Hn; simpl; [exact H |].
  destruct H as (cv & Hm & HL & HB). destruct ch as [c | s]; simpl in *; unfold add_class, add_sourcefile; unfold name, bytes in *.
  - apply IH; [| exact Hn]. unfold add_class. destruct (decide (file_of c = f)) as [-> | Hne].
    + eexists. rewrite Hm, lookup_insert. split; [reflexivity |]. by simpl.
    + exists cv. case_match; rewrite lookup_insert_ne by assumption; eauto.
  - apply not_elem_of_cons in Hn as [Hne Hn]. apply IH; [| exact Hn].
    exists cv. unfold add_sourcefile. case_match; rewrite lookup_insert_ne by congruence; eauto.
Qed.
Lemma den_pkg_lines p s : wf_package p -> In (JS s) (p_children p) ->
  exists cv, den_pkg_map p !! sf_name s = Some cv /\ c_lines cv = (den_sf s).1 /\ c_branches cv = (den_sf s).2.
Proof.
  intros (_ & Hnd & _) Hin. unfold den_pkg_map. apply in_split in Hin as (pre & post & E). rewrite E in *.
  rewrite foldl_app. simpl. unfold sf_names in Hnd. rewrite omap_app in Hnd. simpl in Hnd.
  apply NoDup_app in Hnd as (_ & _ & Hnd). apply NoDup_cons in Hnd as [Hnotin _].
  apply foldl_den_child_lines; [| exact Hnotin].
  unfold add_sourcefile. case_match; eexists; rewrite lookup_insert; (split; [reflexivity |]); by simpl.
Qed.

(* every <method> of every <class> is a function Class#method on the record of the class's source file *)
Lemma den_class_other c ms : forall (fs : gmap name func) fn, fn ∉ map (full_name c) ms ->
  foldl (fun fs m => <[full_name c m := den_method m]> fs) fs ms !! fn = fs !! fn.
Proof.
  induction ms as [|a ms IH]; intros fs fn Hn; simpl; [done |].
  apply not_elem_of_cons in Hn as [Hne Hn]. rewrite IH by exact Hn. by rewrite lookup_insert_ne.
Qed.
Lemma den_class_in c ms : forall (fs : gmap name func) m, NoDup (map (full_name c) ms) -> In m ms ->
  foldl (fun fs m => <[full_name c m := den_method m]> fs) fs ms !! full_name c m = Some (den_method m).
Proof.
  induction ms as [|a ms IH]; intros fs m Hnd Hin; simpl in *; [tauto |].
  apply NoDup_cons in Hnd as [Hnotin Hnd]. destruct Hin as [-> | Hin]; [| by apply IH].
  rewrite den_class_other by exact Hnotin. by rewrite lookup_insert.
Qed.
Lemma foldl_den_child_func cs : forall m f fn v,
  (exists cv, m !! f = Some cv /\ c_funcs cv !! fn = Some v) -> (f, fn) ∉ fn_keys cs ->
  exists cv, foldl den_child m cs !! f = Some cv /\ c_funcs cv !! fn = Some v.
Proof.
  induction cs as [|ch cs IH]; intros m f fn v H Hn; simpl; [exact H |].
  destruct H as (cv & Hm & Hf). destruct ch as [c | s]; simpl in *; unfold add_class, add_sourcefile; unfold name, bytes in *.
  - apply not_elem_of_app in Hn as [Hc Hn]. apply IH; [| exact Hn].
    unfold add_class. destruct (decide (file_of c = f)) as [E | Hne].
    + subst f. eexists. rewrite Hm, lookup_insert. split; [reflexivity |]. simpl.
      rewrite lookup_union_r; [exact Hf |]. unfold den_class. rewrite den_class_other; [apply lookup_empty |].
      intros Hin. apply Hc. apply elem_of_list_fmap in Hin as (m0 & -> & Hm0). apply elem_of_list_fmap. eauto.
    + exists cv. case_match; rewrite lookup_insert_ne by assumption; eauto.
  - apply IH; [| exact Hn]. unfold add_sourcefile. destruct (decide (sf_name s = f)) as [-> | Hne].
    + eexists. rewrite Hm, lookup_insert. split; [reflexivity |]. by simpl.
    + exists cv. case_match; rewrite lookup_insert_ne by assumption; eauto.
Qed.
Lemma den_pkg_funcs p c m : wf_package p -> In (JC c) (p_children p) -> In m (c_methods c) ->
  exists cv, den_pkg_map p !! file_of c = Some cv /\ c_funcs cv !! full_name c m = Some (den_method m).
Proof.
  intros (_ & _ & Hnd & _) Hin Hm. unfold den_pkg_map. apply in_split in Hin as (pre & post & E). rewrite E in *.
  rewrite foldl_app. simpl. unfold fn_keys in Hnd. rewrite flat_map_app in Hnd. simpl in Hnd.
  apply NoDup_app in Hnd as (_ & _ & Hnd). apply NoDup_app in Hnd as (Hc & Hdisj & _).
  assert (Hcn : NoDup (map (full_name c) (c_methods c))).
  { apply (NoDup_fmap_1 (fun fn => (file_of c, fn))). by rewrite <- list_fmap_compose. }
  apply foldl_den_child_func.
  - unfold add_class. case_match; eexists; rewrite lookup_insert; (split; [reflexivity |]); simpl.
    + rewrite lookup_union_l'; [by apply den_class_in |]. eexists. by apply den_class_in.
    + by apply den_class_in.
  - apply Hdisj. apply elem_of_list_fmap. exists m. split; [reflexivity | by apply elem_of_list_In].
Qed.
(* a record exists only for the files named by a <sourcefile> or attributed to a <class> *)
Lemma den_pkg_dom p f : is_Some (den_pkg_map p !! f) -> f ∈ map child_file (p_children p).
Proof.
  intros H. destruct (den_child_dom (p_children p) ∅ f H) as [H' | H']; [| exact H'].
  rewrite lookup_empty in H'. by destruct H'.
Qed.
(* nested classes keep their $-qualified name; the file falls back to Top.java *)
Lemma last_seg_acc s : forall acc, SLASH ∉ s -> last_seg s acc = acc ++ s.
Proof.
  induction s as [|c s IH]; intros acc H; simpl; [by rewrite app_nil_r |].
  apply not_elem_of_cons in H as [Hc H]. destruct (c =? SLASH) eqn:E; [exfalso; apply Hc; lia |].
  rewrite IH by exact H. by rewrite <- app_assoc.
Qed.
Lemma last_seg_spec d s : SLASH ∉ s -> forall acc, last_seg (d ++ SLASH :: s) acc = s.
Proof.
  intros H. induction d as [|c d IH]; intros acc; simpl.
  - by rewrite last_seg_acc.
  - destruct (c =? SLASH); apply IH.
Qed.
Lemma before_dollar_spec t r : DOLLAR ∉ t -> before_dollar (t ++ DOLLAR :: r) = t.
Proof.
  induction t as [|c t IH]; intros H; simpl; [reflexivity |].
  apply not_elem_of_cons in H as [Hc H]. destruct (c =? DOLLAR) eqn:E; [exfalso; apply Hc; lia |]. by rewrite IH.
Qed.
