(* Facts about the rewrite_paths model (Model/Rewrite.v): selection, partitions, pass-through,
   prefix removal, source-relative paths, duplicates and the repaired function. *)
From Grcov Require Import Model.Rewrite Proofs.PathsFacts Proofs.MergeFacts.
From Coq Require Import ZifyBool ZifyN ZifyNat.

Section Facts.
Variable fs : fsys.

(* ---- the decision function ---- *)
Lemma selected_iff o a r c :
  selected fs o a r c = true <->
  o_ignore o (render r) = false /\
  (o_keep o = None \/ exists g, o_keep o = Some g /\ g (render r) = true) /\
  (o_ine o = true -> exists_ fs a = true) /\
  filter_ok (o_filter o) c = true.
Proof.
  unfold selected. rewrite !andb_true_iff, negb_true_iff, orb_true_iff, negb_true_iff.
  split.
  - intros [[[H1 H2] H3] H4]. repeat split; auto.
    + destruct (o_keep o) as [g|]; [right; eauto | left; reflexivity].
    + intros Hi. destruct H3 as [H3|H3]; [congruence | assumption].
  - intros [H1 [H2 [H3 H4]]]. repeat split; auto.
    + destruct H2 as [-> | [g [-> Hg]]]; auto.
    + destruct (o_ine o); [right; auto | left; reflexivity].
Qed.
Lemma rewrite_one_spec o k c t :
  rewrite_one fs o k c = Some t <->
  exists a r, rewritten fs o k = Some (a, r) /\ selected fs o a r c = true /\ t = (a, replace_bs (render r), c).
Proof.
  unfold rewrite_one, selected. destruct (rewritten fs o k) as [[a r]|].
  2:{ split; [discriminate | intros (a & r & H & _); discriminate]. }
  destruct (o_ignore o (render r)) eqn:E1; cbn [negb andb].
  { split; [discriminate | intros (a' & r' & [= <- <-] & H & _)]. rewrite E1 in H. discriminate. }
  destruct (o_keep o) as [g|] eqn:E2.
  - destruct (g (render r)) eqn:E3; cbn [negb andb].
    2:{ split; [discriminate | intros (a' & r' & [= <- <-] & H & _)]. rewrite E1, E3 in H. discriminate. }
    destruct (o_ine o && negb (exists_ fs a)) eqn:E4.
    { split; [discriminate | intros (a' & r' & [= <- <-] & H & _)]. rewrite E1, E3 in H. cbn in H.
      destruct (o_ine o), (exists_ fs a); cbn in *; discriminate. }
    destruct (filter_ok (o_filter o) c) eqn:E5.
    + split.
      * intros [= <-]. exists a, r. rewrite E1, E3. repeat split. destruct (o_ine o), (exists_ fs a); cbn in *; congruence.
      * intros (a' & r' & [= <- <-] & _ & ->). reflexivity.
    + split; [discriminate | intros (a' & r' & [= <- <-] & H & _)]. rewrite andb_false_r in H. discriminate.
  - destruct (o_ine o && negb (exists_ fs a)) eqn:E4.
    { split; [discriminate | intros (a' & r' & [= <- <-] & H & _)]. rewrite E1 in H. cbn in H.
      destruct (o_ine o), (exists_ fs a); cbn in *; discriminate. }
    destruct (filter_ok (o_filter o) c) eqn:E5.
    + split.
      * intros [= <-]. exists a, r. rewrite E1. repeat split. destruct (o_ine o), (exists_ fs a); cbn in *; congruence.
      * intros (a' & r' & [= <- <-] & _ & ->). reflexivity.
    + split; [discriminate | intros (a' & r' & [= <- <-] & H & _)]. rewrite andb_false_r in H. discriminate.
Qed.
Lemma rewrite_one_selected o k c :
  rewrite_one fs o k c =
  match rewritten fs o k with
  | Some (a, r) => if selected fs o a r c then Some (a, replace_bs (render r), c) else None
  | None => None
  end.
Proof.
  destruct (rewrite_one fs o k c) as [t|] eqn:E.
  - apply rewrite_one_spec in E as (a & r & -> & -> & ->). reflexivity.
  - destruct (rewritten fs o k) as [[a r]|] eqn:E1; [|reflexivity].
    destruct (selected fs o a r c) eqn:E2; [|reflexivity].
    assert (rewrite_one fs o k c = Some (a, replace_bs (render r), c)) as H; [|congruence].
    apply rewrite_one_spec. exists a, r. auto.
Qed.

Lemma present_iff o kvs t :
  t ∈ rewrite_list fs o kvs <->
  exists k c a r, (k, c) ∈ kvs /\ rewritten fs o k = Some (a, r) /\
    o_ignore o (render r) = false /\
    (o_keep o = None \/ exists g, o_keep o = Some g /\ g (render r) = true) /\
    (o_ine o = true -> exists_ fs a = true) /\
    filter_ok (o_filter o) c = true /\
    t = (a, replace_bs (render r), c).
Proof.
  unfold rewrite_list. rewrite elem_of_list_omap. split.
  - intros [[k c] [Hin H]]. apply rewrite_one_spec in H as (a & r & Hr & Hs & ->).
    apply selected_iff in Hs as (H1 & H2 & H3 & H4). exists k, c, a, r. auto 10.
  - intros (k & c & a & r & Hin & Hr & H1 & H2 & H3 & H4 & ->). exists (k, c). split; [assumption|].
    apply rewrite_one_spec. exists a, r. repeat split; auto. apply selected_iff. auto.
Qed.

(* the coverage record of a reported file is the one stored under its key *)
Lemma data_passthrough o kvs a r c : (a, r, c) ∈ rewrite_list fs o kvs -> exists k, (k, c) ∈ kvs.
Proof. intros H. apply present_iff in H as (k & c' & a' & r' & Hin & _ & _ & _ & _ & _ & [= -> -> ->]). eauto. Qed.

(* ---- partitions ---- *)
Lemma partition_gen o1 o2 o0 kvs :
  (forall k, rewritten fs o1 k = rewritten fs o0 k) -> (forall k, rewritten fs o2 k = rewritten fs o0 k) ->
  (forall a r c, (selected fs o1 a r c, selected fs o2 a r c) =
                 if selected fs o0 a r c then (if selected fs o1 a r c then (true, false) else (false, true)) else (false, false)) ->
  rewrite_list fs o1 kvs ++ rewrite_list fs o2 kvs ≡ₚ rewrite_list fs o0 kvs.
Proof.
  intros R1 R2 S. unfold rewrite_list. induction kvs as [|[k c] kvs IH]; [reflexivity|].
  cbn -[rewrite_one]. rewrite !rewrite_one_selected, R1, R2.
  destruct (rewritten fs o0 k) as [[a r]|]; [|exact IH].
  specialize (S a r c). destruct (selected fs o0 a r c).
  - destruct (selected fs o1 a r c); injection S as S1; rewrite S1.
    + cbn. constructor. exact IH.
    + rewrite <- Permutation_middle. constructor. exact IH.
  - injection S as -> ->. exact IH.
Qed.

Lemma partition_ignore_keep o g kvs :
  o_ignore o = no_glob -> o_keep o = None ->
  rewrite_list fs (with_ignore o g) kvs ++ rewrite_list fs (with_keep o (Some g)) kvs ≡ₚ rewrite_list fs o kvs.
Proof.
  intros Hi Hk. apply partition_gen; try reflexivity.
  intros a r c. unfold selected, with_ignore, with_keep. cbn. rewrite Hi, Hk. unfold no_glob. cbn.
  destruct (g (render r)), (negb (o_ine o) || exists_ fs a), (filter_ok (o_filter o) c); reflexivity.
Qed.
Lemma partition_filter o kvs :
  o_filter o = None ->
  rewrite_list fs (with_filter o (Some true)) kvs ++ rewrite_list fs (with_filter o (Some false)) kvs ≡ₚ rewrite_list fs o kvs.
Proof.
  intros Hf. apply partition_gen; try reflexivity.
  intros a r c. unfold selected, with_filter. cbn. rewrite Hf. cbn.
  destruct (negb (o_ignore o (render r))), (match o_keep o with Some g => g (render r) | None => true end),
    (negb (o_ine o) || exists_ fs a), (is_covered c); reflexivity.
Qed.
(* the same at the level of the whole call: the three calls panic together *)
Lemma rewrite_paths_ok o m rs : rewrite_paths fs o m = Ok rs -> rs = rewrite_list fs o (map_to_list m).
Proof. unfold rewrite_paths. repeat match goal with |- context [if ?b then _ else _] => destruct b end; congruence. Qed.
Lemma rewrite_paths_same_outcome o o' m :
  o_mapping o' = o_mapping o -> o_source o' = o_source o ->
  forall rs, rewrite_paths fs o m = Ok rs -> rewrite_paths fs o' m = Ok (rewrite_list fs o' (map_to_list m)).
Proof.
  intros Hm Hs rs. unfold rewrite_paths. rewrite Hm, Hs.
  repeat match goal with |- context [if ?b then _ else _] => destruct b end; congruence.
Qed.

(* ---- prefix removal ---- *)
Lemma prefix_removed d p q : strip_pfx p d = Some q -> remove_prefix (Some d) p = q /\ clist p = clist d ++ clist q.
Proof. intros H. split; [unfold remove_prefix; rewrite H; reflexivity | apply strip_pfx_spec; assumption]. Qed.
Lemma prefix_not_under d p : starts_with p d = false -> remove_prefix (Some d) p = p.
Proof. intros H. unfold remove_prefix. apply strip_pfx_none in H. rewrite H. reflexivity. Qed.
Lemma prefix_join d q :
  p_abs q = false -> is_empty d = false -> drop_cur (p_segs q) = p_segs q -> remove_prefix (Some d) (pjoin d q) = q.
Proof.
  intros Hq Hd Hc. unfold remove_prefix, strip_pfx, starts_with, pjoin. rewrite Hq, Hd, Hc.
  assert (clist (mkPath (p_abs d) (p_segs d ++ p_segs q)) = clist d ++ map Some (p_segs q)) as ->.
  { unfold clist. cbn [p_abs p_segs]. rewrite map_app, app_assoc. reflexivity. }
  rewrite prefix_b_app, drop_app, clist_of_clist_segs. destruct q; cbn in *; congruence.
Qed.

(* ---- a file under the source directory is reported relative to it ---- *)
Lemma under_source_relative sd rel a r l :
  sd = mkPath true (map Name l) ->
  get_abs_path fs (Some sd) rel = Some (a, r) ->
  starts_with (abs_candidate fs (Some sd) rel) sd = true ->
  p_abs r = false /\ a = mkPath true (p_segs sd ++ p_segs r) /\
  normalize_path (mkPath false (drop (length l) (p_segs (abs_candidate fs (Some sd) rel)))) = Some r.
Proof.
  intros -> Hg Hs. unfold get_abs_path in Hg. set (a1 := abs_candidate fs _ rel) in *.
  unfold fixup_rel_path in Hg. unfold strip_pfx in Hg. rewrite Hs in Hg.
  unfold starts_with in Hs. apply prefix_b_spec in Hs as [t Ht].
  rewrite Ht, drop_app in Hg.
  destruct a1 as [[] s1]; unfold clist in Ht; cbn [p_abs p_segs app] in Ht; [|destruct s1; discriminate].
  injection Ht as Ht.
  assert (exists u, t = map Some u /\ s1 = map Name l ++ u) as (u & -> & ->).
  { clear -Ht. revert s1 Ht. induction l as [|n l IH]; intros s1 Ht; cbn in Ht.
    - exists s1. auto.
    - destruct s1 as [|x s1]; [discriminate|]. injection Ht as -> Ht. destruct (IH _ Ht) as (u & -> & ->). eauto. }
  rewrite clist_of_clist_segs in Hg.
  unfold normalize_path in Hg. cbn [p_abs p_segs] in Hg. rewrite norm_go_app_names, app_nil_r in Hg.
  destruct (norm_go [] u) as [st|] eqn:E.
  2:{ destruct (norm_go (rev l) u); discriminate. }
  pose proof (norm_go_app_stack [] u st (rev l) E) as E'. cbn [app] in E'. rewrite E' in Hg.
  injection Hg as <- <-. cbn [p_abs p_segs]. repeat split.
  - rewrite rev_app_distr, rev_involutive, map_app. reflexivity.
  - rewrite drop_app_alt by (rewrite map_length; reflexivity). unfold normalize_path. cbn [p_segs p_abs]. rewrite E. reflexivity.
Qed.

(* ---- reported paths are in normal form ---- *)
Lemma get_abs_path_normal sd rel a r :
  wf_path (abs_candidate fs sd rel) = true -> wf_path (fixup_rel_path sd (abs_candidate fs sd rel) rel) = true ->
  get_abs_path fs sd rel = Some (a, r) -> normal a = true /\ normal r = true.
Proof.
  unfold get_abs_path. intros Wa Wr.
  destruct (normalize_path (abs_candidate fs sd rel)) as [a'|] eqn:Ea; [|discriminate].
  destruct (normalize_path (fixup_rel_path sd (abs_candidate fs sd rel) rel)) as [r'|] eqn:Er; [|discriminate].
  intros [= <- <-]. split; [apply (normalize_normal _ _ Wa Ea) | apply (normalize_normal _ _ Wr Er)].
Qed.
Lemma get_abs_path_shape sd rel a r :
  get_abs_path fs sd rel = Some (a, r) -> (exists la, p_segs a = map Name la) /\ (exists lr, p_segs r = map Name lr).
Proof.
  unfold get_abs_path.
  destruct (normalize_path (abs_candidate fs sd rel)) as [a'|] eqn:Ea; [|discriminate].
  destruct (normalize_path (fixup_rel_path sd (abs_candidate fs sd rel) rel)) as [r'|] eqn:Er; [|discriminate].
  intros [= <- <-]. apply normalize_shape in Ea as [la ->]. apply normalize_shape in Er as [lr ->]. cbn. eauto.
Qed.
(* a key whose ".." cannot be resolved lexically is dropped *)
Lemma escape_dropped_key o k :
  (exists n : nat, let s := p_segs (fixup_rel_path (o_source o)
        (abs_candidate fs (o_source o) (remove_prefix (o_prefix o) (apply_mapping (o_mapping o) (replace_bs k))))
        (remove_prefix (o_prefix o) (apply_mapping (o_mapping o) (replace_bs k)))) in
      (count_name (take n s) < count_up (take n s))%nat) ->
  forall c, rewrite_one fs o k c = None.
Proof.
  intros H c. rewrite rewrite_one_selected. unfold rewritten, get_abs_path.
  apply normalize_none in H. cbv zeta in H. rewrite H.
  destruct (normalize_path (abs_candidate _ _ _)); reflexivity.
Qed.

(* ---- duplicates ---- *)
Definition rel_of (t : path * bytes * cov) : bytes := t.1.2.
Lemma one_record_if_distinct o kvs :
  NoDup kvs.*1 ->
  (forall k1 k2 a1 r1 a2 r2, k1 ∈ kvs.*1 -> k2 ∈ kvs.*1 -> k1 <> k2 ->
     rewritten fs o k1 = Some (a1, r1) -> rewritten fs o k2 = Some (a2, r2) ->
     replace_bs (render r1) <> replace_bs (render r2)) ->
  NoDup (map rel_of (rewrite_list fs o kvs)).
Proof.
  unfold rewrite_list. induction kvs as [|[k c] kvs IH]; intros Hnd Hd; [constructor|].
  cbn in Hnd. apply NoDup_cons in Hnd as [Hk Hnd]. cbn -[rewrite_one].
  assert (NoDup (map rel_of (omap (fun '(k, c) => rewrite_one fs o k c) kvs))) as IH'.
  { apply IH; [assumption|]. intros k1 k2 a1 r1 a2 r2 H1 H2. apply Hd; cbn; apply elem_of_cons; auto. }
  destruct (rewrite_one fs o k c) as [t|] eqn:E; [|exact IH'].
  cbn. apply NoDup_cons. split; [|exact IH'].
  intros Hin. apply elem_of_list_fmap in Hin as [t' [Heq Hin]].
  apply elem_of_list_omap in Hin as [[k' c'] [Hin' E']].
  apply rewrite_one_spec in E as (a & r & Hr & _ & ->). apply rewrite_one_spec in E' as (a' & r' & Hr' & _ & ->).
  unfold rel_of in Heq. cbn in Heq.
  assert (k' ∈ kvs.*1) as Hk' by (apply elem_of_list_fmap; exists (k', c'); auto).
  apply (Hd k k' a r a' r'); cbn; try (apply elem_of_cons; auto); auto.
  intros ->. contradiction.
Qed.

(* ---- merge_same_paths ---- *)
(* the retained records that have the same path as r (PathBuf equality), in input order *)
Definition covs_key (k : bytes) (rs : list (path * bytes * cov)) : list cov :=
  map (fun t => t.2) (List.filter (fun t => bytes_eqb (ckey (rel_of t)) k) rs).
Definition covs_with (r : bytes) (rs : list (path * bytes * cov)) : list cov := covs_key (ckey r) rs.
Definition fold_group (cs : list cov) : option cov :=
  match cs with [] => None | c :: cs => Some (foldl merge c cs) end.
Lemma fold_group_snoc cs c : fold_group (cs ++ [c]) = Some (match fold_group cs with Some x => merge x c | None => c end).
Proof. destruct cs as [|c0 cs]; cbn; [reflexivity|]. rewrite foldl_app. reflexivity. Qed.
Lemma merge_by_rel_lookup rs k : (fun v => v.2) <$> (merge_by_rel rs !! k) = fold_group (covs_key k rs).
Proof.
  unfold merge_by_rel. induction rs as [|[[a r'] c] rs IH] using rev_ind; [reflexivity|].
  rewrite foldl_app. cbn [foldl]. unfold covs_key. rewrite List.filter_app, map_app. fold (covs_key k rs).
  set (m := foldl merge_step ∅ rs) in *. unfold merge_step at 1. cbn [List.filter rel_of fst snd].
  destruct (bytes_eqb (ckey r') k) eqn:E.
  - apply bytes_eqb_eq in E. rewrite E. cbn [map]. rewrite fold_group_snoc, <- IH.
    destruct (m !! k) as [[[a0 r0] c0]|]; rewrite lookup_insert; reflexivity.
  - apply bytes_eqb_neq in E. cbn [map]. rewrite app_nil_r, <- IH.
    destruct (m !! ckey r') as [[[a0 r0] c0]|]; rewrite lookup_insert_ne by assumption; reflexivity.
Qed.
(* every entry sits under the key of its own path, and its two paths are those of a retained record *)
Lemma merge_by_rel_entry rs k a r c :
  merge_by_rel rs !! k = Some (a, r, c) -> ckey r = k /\ exists c', (a, r, c') ∈ rs.
Proof.
  unfold merge_by_rel. revert k a r c. induction rs as [|[[a1 r1] c1] rs IH] using rev_ind; intros k a r c.
  - cbn [foldl]. rewrite lookup_empty. discriminate.
  - rewrite foldl_app. cbn [foldl]. set (m := foldl merge_step ∅ rs) in *. unfold merge_step.
    destruct (m !! ckey r1) as [[[a0 r0] c0]|] eqn:E.
    + destruct (decide (k = ckey r1)) as [->|Hne].
      * rewrite lookup_insert. intros [= <- <- <-]. destruct (IH _ _ _ _ E) as [H1 [c' H2]].
        split; [assumption|]. exists c'. apply elem_of_app. auto.
      * rewrite lookup_insert_ne by congruence. intros H. destruct (IH _ _ _ _ H) as [H1 [c' H2]].
        split; [assumption|]. exists c'. apply elem_of_app. auto.
    + destruct (decide (k = ckey r1)) as [->|Hne].
      * rewrite lookup_insert. intros [= <- <- <-]. split; [reflexivity|]. exists c1. apply elem_of_app. right. apply elem_of_list_singleton. reflexivity.
      * rewrite lookup_insert_ne by congruence. intros H. destruct (IH _ _ _ _ H) as [H1 [c' H2]].
        split; [assumption|]. exists c'. apply elem_of_app. auto.
Qed.
Lemma fold_group_agg cs c : fold_group cs = Some c -> cs <> [] /\ c = agg cs.
Proof.
  destruct cs as [|c0 cs]; [discriminate|]. cbn. intros [= <-]. split; [discriminate|].
  unfold agg. cbn [foldl]. rewrite merge_empty_l. reflexivity.
Qed.
Lemma merged_elem rs f a r c :
  (a, r, c) ∈ merge_same_paths rs f <-> merge_by_rel rs !! ckey r = Some (a, r, c) /\ filter_ok f c = true.
Proof.
  unfold merge_same_paths. rewrite elem_of_list_In, filter_In, in_map_iff. split.
  - intros [[[k v] [Hv Hin]] Hf]. cbn in Hv. subst v. apply elem_of_list_In, elem_of_map_to_list in Hin.
    destruct (merge_by_rel_entry _ _ _ _ _ Hin) as [<- _]. auto.
  - intros [Hl Hf]. split; [|assumption]. exists (ckey r, (a, r, c)). split; [reflexivity|].
    apply elem_of_list_In, elem_of_map_to_list. assumption.
Qed.
(* one record per path: no two reported paths are equal, not even as component sequences *)
Lemma merged_nodup_key rs f : NoDup (map (fun t => ckey (rel_of t)) (merge_same_paths rs f)).
Proof.
  unfold merge_same_paths. set (m := merge_by_rel rs).
  assert (forall k v, (k, v) ∈ map_to_list m -> ckey (rel_of v) = k) as Hk.
  { intros k [[a r] c] H. apply elem_of_map_to_list in H. apply (merge_by_rel_entry _ _ _ _ _ H). }
  pose proof (NoDup_fst_map_to_list m) as Hnd.
  induction (map_to_list m) as [|[k v] l IH]; [constructor|].
  cbn in Hnd. apply NoDup_cons in Hnd as [Hr Hnd]. cbn [map List.filter snd].
  assert (forall k' v', (k', v') ∈ l -> ckey (rel_of v') = k') as Hk' by (intros k' v' H; apply Hk; apply elem_of_cons; auto).
  destruct v as [[a r] c]. destruct (filter_ok f c); [|apply IH; assumption].
  cbn [map]. apply NoDup_cons. split; [|apply IH; assumption].
  intros Hin. apply Hr. apply elem_of_list_fmap in Hin as [v' [Heq Hin]].
  apply elem_of_list_In, filter_In in Hin as [Hin _]. apply in_map_iff in Hin as [[k' v''] [Hs Hin]]. cbn in Hs. subst v''.
  apply elem_of_list_In in Hin. pose proof (Hk' _ _ Hin) as Hkk.
  assert (k = ckey r) as -> by (symmetry; apply (Hk k (a, r, c)); apply elem_of_cons; auto).
  apply elem_of_list_fmap. exists (k', v'). split; [cbn; rewrite <- Hkk, <- Heq; reflexivity | assumption].
Qed.
Lemma merged_nodup rs f : NoDup (map rel_of (merge_same_paths rs f)).
Proof.
  pose proof (merged_nodup_key rs f) as H. rewrite <- (map_map rel_of ckey) in H.
  apply (NoDup_fmap_1 ckey). exact H.
Qed.
Lemma one_record o kvs : NoDup (map rel_of (report_list fs o kvs)) /\ NoDup (map (fun t => ckey (rel_of t)) (report_list fs o kvs)).
Proof. split; [apply merged_nodup | apply merged_nodup_key]. Qed.
(* the record reported for a path is the C01 aggregate of every retained record with that path, the
   covered / uncovered decision is taken on the aggregate, and its two paths are those of one of them *)
Lemma same_file_merged o kvs a r c :
  (a, r, c) ∈ report_list fs o kvs ->
  covs_with r (rewrite_list fs (with_filter o None) kvs) <> [] /\
  c = agg (covs_with r (rewrite_list fs (with_filter o None) kvs)) /\
  filter_ok (o_filter o) c = true /\
  exists c', (a, r, c') ∈ rewrite_list fs (with_filter o None) kvs.
Proof.
  unfold report_list. intros Hin. apply merged_elem in Hin as [Hl Hf].
  pose proof (merge_by_rel_lookup (rewrite_list fs (with_filter o None) kvs) (ckey r)) as H. rewrite Hl in H. cbn in H.
  symmetry in H. apply fold_group_agg in H as [H1 H2].
  destruct (merge_by_rel_entry _ _ _ _ _ Hl) as [_ Hc]. unfold covs_with. auto.
Qed.
(* conversely every retained path is reported (under some spelling with the same components) when its aggregate passes the filter *)
Lemma report_complete o kvs r :
  covs_with r (rewrite_list fs (with_filter o None) kvs) <> [] ->
  filter_ok (o_filter o) (agg (covs_with r (rewrite_list fs (with_filter o None) kvs))) = true ->
  exists a r', ckey r' = ckey r /\ (a, r', agg (covs_with r (rewrite_list fs (with_filter o None) kvs))) ∈ report_list fs o kvs.
Proof.
  intros Hne Hf. pose proof (merge_by_rel_lookup (rewrite_list fs (with_filter o None) kvs) (ckey r)) as H.
  unfold covs_with in *. revert Hne Hf. destruct (covs_key (ckey r) _) as [|c0 cs] eqn:E; [congruence|]. intros _ Hf.
  destruct (merge_by_rel (rewrite_list fs (with_filter o None) kvs) !! ckey r) as [[[a r'] c]|] eqn:El; [|discriminate].
  cbn in H. injection H as H.
  assert (c = agg (c0 :: cs)) as Hc by (unfold agg; cbn [foldl]; rewrite merge_empty_l; exact H).
  destruct (merge_by_rel_entry _ _ _ _ _ El) as [Hk _].
  exists a, r'. split; [assumption|]. unfold report_list. apply merged_elem. rewrite Hk, <- Hc. split; [exact El | rewrite Hc; exact Hf].
Qed.
(* nothing is lost or invented: the reported paths are exactly the retained paths whose aggregate passes *)
Lemma report_paths_ok o m rs : report_paths fs o m = Ok rs -> rs = report_list fs o (map_to_list m).
Proof.
  unfold report_paths, report_list. destruct (rewrite_paths fs (with_filter o None) m) as [l| | |] eqn:E; try discriminate.
  intros [= <-]. apply rewrite_paths_ok in E. subst l. reflexivity.
Qed.
(* --filter covered / uncovered still partition the report, now on merged records *)
Lemma report_partition_filter o kvs :
  o_filter o = None ->
  report_list fs (with_filter o (Some true)) kvs ++ report_list fs (with_filter o (Some false)) kvs ≡ₚ report_list fs o kvs.
Proof.
  intros Hf. unfold report_list, merge_same_paths. cbn [with_filter o_filter o_mapping o_source o_prefix o_ine o_ignore o_keep].
  rewrite Hf. change (with_filter (with_filter o (Some true)) None) with (with_filter o None).
  change (with_filter (with_filter o (Some false)) None) with (with_filter o None).
  induction (map snd (map_to_list (merge_by_rel (rewrite_list fs (with_filter o None) kvs)))) as [|[[a r] c] l IH]; [reflexivity|].
  cbn [List.filter filter_ok]. destruct (is_covered c); cbn [negb app].
  - constructor. exact IH.
  - rewrite <- Permutation_middle. constructor. exact IH.
Qed.
End Facts.
