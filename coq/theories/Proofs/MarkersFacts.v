From Grcov Require Import Model.Markers.
From Coq Require Import ZifyBool ZifyN ZifyNat.

(* the region flag after each line, as a recurrence *)
Fixpoint region_flags (start stop : flags -> bool) (ig : bool) (ls : list flags) : list bool :=
  match ls with
  | [] => []
  | f :: ls => let ig' := start f || (ig && negb (stop f)) in ig' :: region_flags start stop ig' ls
  end.

Lemma region_flags_length start stop ig ls : length (region_flags start stop ig ls) = length ls.
Proof. revert ig; induction ls as [|f ls IH]; intros ig; simpl; [reflexivity|]. rewrite IH. reflexivity. Qed.

(* recurrence = declarative region, generalised over the flag on entry *)
Lemma region_flags_spec start stop ig ls (i : nat) :
  region_flags start stop ig ls !! i = Some true <->
  (i < length ls)%nat /\
  (in_region start stop ls i \/
   (ig = true /\ forall k : nat, (k <= i)%nat -> (stop <$> ls !! k) <> Some true)).
Proof.
  revert ig i; induction ls as [|f ls IH]; intros ig i.
  - simpl. split; [discriminate|]. intros [H _]. simpl in H. lia.
  - destruct i as [|i].
    + simpl. split.
      * intros H. injection H as H. split; [lia|].
        destruct (start f) eqn:Es.
        -- left. exists 0%nat. split; [lia|]. split; [simpl; rewrite Es; reflexivity|]. intros k Hk. lia.
        -- right. simpl in H. apply andb_true_iff in H as [-> Hst]. split; [reflexivity|].
           intros k Hk. assert (k = 0)%nat as -> by lia. simpl. destruct (stop f); [discriminate|congruence].
      * intros [_ [(s & Hs & Hst & _)|[-> Hns]]].
        -- assert (s = 0)%nat as -> by lia. simpl in Hst. injection Hst as ->. reflexivity.
        -- specialize (Hns 0%nat ltac:(lia)). simpl in Hns. f_equal.
           destruct (stop f); [congruence|]. apply orb_true_r.
    + simpl. rewrite IH. clear IH. split.
      * intros [Hlen [(s & Hs & Hst & Hno)|[Hig Hno]]].
        -- split; [lia|]. left. exists (S s). split; [lia|]. split; [exact Hst|].
           intros k Hk. destruct k as [|k]; [lia|]. simpl. apply Hno. lia.
        -- split; [lia|]. apply orb_true_iff in Hig as [Es|Hig].
           ++ left. exists 0%nat. split; [lia|]. split; [simpl; rewrite Es; reflexivity|].
              intros k Hk. destruct k as [|k]; [lia|]. simpl. apply Hno. lia.
           ++ apply andb_true_iff in Hig as [-> Hst]. right. split; [reflexivity|].
              intros k Hk. destruct k as [|k]; simpl.
              ** destruct (stop f); [discriminate|congruence].
              ** apply Hno. lia.
      * intros [Hlen [(s & Hs & Hst & Hno)|[-> Hno]]].
        -- split; [lia|]. destruct s as [|s].
           ++ right. simpl in Hst. injection Hst as ->. split; [reflexivity|].
              intros k Hk. apply (Hno (S k)). lia.
           ++ left. exists s. split; [lia|]. split; [exact Hst|].
              intros k Hk. apply (Hno (S k)). lia.
        -- split; [lia|]. right. split.
           ++ specialize (Hno 0%nat ltac:(lia)). simpl in Hno. destruct (stop f); [congruence|]. apply orb_true_r.
           ++ intros k Hk. apply (Hno (S k)). lia.
Qed.

Lemma region_flags_in_region start stop ls (i : nat) :
  (i < length ls)%nat ->
  (region_flags start stop false ls !! i = Some true <-> in_region start stop ls i).
Proof.
  intros Hi. rewrite region_flags_spec. split.
  - intros [_ [H|[H _]]]; [exact H|discriminate].
  - intros H. split; [exact Hi|left; exact H].
Qed.

(* which numbers the filter list names, per dimension *)
Definition names_line (f : ftype) (n : N) : bool :=
  match f with FLine k | FBoth k => k =? n | FBranch _ => false end.
Definition names_branch (f : ftype) (n : N) : bool :=
  match f with FBranch k | FBoth k => k =? n | FLine _ => false end.

Lemma apply_filters_lines fs c n :
  c_lines (apply_filters fs c) !! n = if existsb (fun f => names_line f n) fs then None else c_lines c !! n.
Proof.
  unfold apply_filters. revert c; induction fs as [|f fs IH]; intros c; simpl; [reflexivity|].
  rewrite IH. destruct (existsb _ fs); [rewrite orb_true_r; reflexivity|]. rewrite orb_false_r.
  destruct f as [k|k|k]; simpl; try reflexivity;
    (destruct (N.eqb_spec k n) as [->|Hne]; [apply lookup_delete|apply lookup_delete_ne; exact Hne]).
Qed.
Lemma apply_filters_branches fs c n :
  c_branches (apply_filters fs c) !! n = if existsb (fun f => names_branch f n) fs then None else c_branches c !! n.
Proof.
  unfold apply_filters. revert c; induction fs as [|f fs IH]; intros c; simpl; [reflexivity|].
  rewrite IH. destruct (existsb _ fs); [rewrite orb_true_r; reflexivity|]. rewrite orb_false_r.
  destruct f as [k|k|k]; simpl; try reflexivity;
    (destruct (N.eqb_spec k n) as [->|Hne]; [apply lookup_delete|apply lookup_delete_ne; exact Hne]).
Qed.
Lemma apply_filters_funcs fs c : c_funcs (apply_filters fs c) = c_funcs c.
Proof.
  unfold apply_filters. revert c; induction fs as [|f fs IH]; intros c; simpl; [reflexivity|].
  rewrite IH. destruct f; reflexivity.
Qed.

(* create_loop names line number [base + i] iff the flag recurrence or the single marker says so *)
Lemma create_loop_lines igb ig base ls n :
  existsb (fun f => names_line f n) (create_loop igb ig base ls) = true <->
  exists i : nat, n = base + N.of_nat i /\
    ((m_line <$> ls !! i) = Some true \/ region_flags m_start m_stop ig ls !! i = Some true).
Proof.
  revert igb ig base; induction ls as [|f ls IH]; intros igb ig base.
  - simpl. split; [discriminate|]. intros (i & _ & [H|H]); simpl in H; discriminate.
  - cbn [create_loop region_flags]. rewrite existsb_app, orb_true_iff, IH. clear IH.
    set (ig' := if negb (if ig && m_stop f then false else ig) && m_start f then true
                else if ig && m_stop f then false else ig).
    assert (ig' = m_start f || (ig && negb (m_stop f))) as Hig.
    { unfold ig'. destruct ig, (m_stop f), (m_start f); reflexivity. }
    rewrite <- Hig. clearbody ig'. clear Hig.
    set (igb' := if negb (if igb && m_brstop f then false else igb) && m_brstart f then true
                 else if igb && m_brstop f then false else igb). clearbody igb'.
    split.
    + intros [H|(i & -> & H)].
      * exists 0%nat. assert (n = base) as ->.
        { destruct (ig' || m_line f), (igb' || m_brline f); simpl in H; try discriminate; lia. }
        split; [lia|]. simpl.
        destruct (ig' || m_line f) eqn:E.
        -- apply orb_true_iff in E as [-> | ->]; [right|left]; reflexivity.
        -- destruct (igb' || m_brline f); simpl in H; discriminate.
      * exists (S i). split; [lia|]. simpl. exact H.
    + intros (i & -> & H). destruct i as [|i].
      * left. simpl in H. assert (ig' || m_line f = true) as ->.
        { destruct H as [H|H]; injection H as ->; [apply orb_true_r|reflexivity]. }
        destruct (igb' || m_brline f); simpl; rewrite orb_false_r; lia.
      * right. exists i. split; [lia|]. simpl in H. exact H.
Qed.
Lemma create_loop_branches igb ig base ls n :
  existsb (fun f => names_branch f n) (create_loop igb ig base ls) = true <->
  exists i : nat, n = base + N.of_nat i /\
    ((m_brline <$> ls !! i) = Some true \/ region_flags m_brstart m_brstop igb ls !! i = Some true).
Proof.
  revert igb ig base; induction ls as [|f ls IH]; intros igb ig base.
  - simpl. split; [discriminate|]. intros (i & _ & [H|H]); simpl in H; discriminate.
  - cbn [create_loop region_flags]. rewrite existsb_app, orb_true_iff, IH. clear IH.
    set (igb' := if negb (if igb && m_brstop f then false else igb) && m_brstart f then true
                 else if igb && m_brstop f then false else igb).
    assert (igb' = m_brstart f || (igb && negb (m_brstop f))) as Hig.
    { unfold igb'. destruct igb, (m_brstop f), (m_brstart f); reflexivity. }
    rewrite <- Hig. clearbody igb'. clear Hig.
    set (ig' := if negb (if ig && m_stop f then false else ig) && m_start f then true
                else if ig && m_stop f then false else ig). clearbody ig'.
    split.
    + intros [H|(i & -> & H)].
      * exists 0%nat. assert (n = base) as ->.
        { destruct (ig' || m_line f), (igb' || m_brline f); simpl in H; try discriminate; lia. }
        split; [lia|]. simpl.
        destruct (igb' || m_brline f) eqn:E.
        -- apply orb_true_iff in E as [-> | ->]; [right|left]; reflexivity.
        -- destruct (ig' || m_line f); simpl in H; discriminate.
      * exists (S i). split; [lia|]. simpl. exact H.
    + intros (i & -> & H). destruct i as [|i].
      * left. simpl in H. assert (igb' || m_brline f = true) as ->.
        { destruct H as [H|H]; injection H as ->; [apply orb_true_r|reflexivity]. }
        destruct (ig' || m_line f); simpl; rewrite orb_false_r; lia.
      * right. exists i. split; [lia|]. simpl in H. exact H.
Qed.

(* the property, per dimension: source line i+1 loses its data iff it is excluded *)
Theorem create_spec_lines ls c (n : N) :
  c_lines (apply_filters (create true true ls) c) !! n =
  c_lines c !! n \/ c_lines (apply_filters (create true true ls) c) !! n = None.
Proof.
  rewrite apply_filters_lines. destruct (existsb _ _); [right|left]; reflexivity.
Qed.

Lemma removed_lines_iff ls (i : nat) :
  (i < length ls)%nat ->
  (existsb (fun f => names_line f (N.of_nat i + 1)) (create true true ls) = true <->
   excluded m_line m_start m_stop ls i).
Proof.
  intros Hi. unfold create; simpl. rewrite create_loop_lines. unfold excluded. split.
  - intros (j & Hj & H). assert (j = i) as -> by lia. rewrite region_flags_in_region in H by exact Hi. exact H.
  - intros H. exists i. split; [lia|]. rewrite region_flags_in_region by exact Hi. exact H.
Qed.
Lemma removed_branches_iff ls (i : nat) :
  (i < length ls)%nat ->
  (existsb (fun f => names_branch f (N.of_nat i + 1)) (create true true ls) = true <->
   excluded m_brline m_brstart m_brstop ls i).
Proof.
  intros Hi. unfold create; simpl. rewrite create_loop_branches. unfold excluded. split.
  - intros (j & Hj & H). assert (j = i) as -> by lia. rewrite region_flags_in_region in H by exact Hi. exact H.
  - intros H. exists i. split; [lia|]. rewrite region_flags_in_region by exact Hi. exact H.
Qed.

Theorem markers_lines ls c (i : nat) :
  (i < length ls)%nat ->
  (excluded m_line m_start m_stop ls i ->
     c_lines (apply_filters (create true true ls) c) !! (N.of_nat i + 1) = None) /\
  (~ excluded m_line m_start m_stop ls i ->
     c_lines (apply_filters (create true true ls) c) !! (N.of_nat i + 1) = c_lines c !! (N.of_nat i + 1)).
Proof.
  intros Hi. rewrite apply_filters_lines. pose proof (removed_lines_iff ls i Hi) as H.
  destruct (existsb _ _); split; intros He; try reflexivity.
  - exfalso. apply He, H. reflexivity.
  - apply H in He. discriminate.
Qed.
Theorem markers_branches ls c (i : nat) :
  (i < length ls)%nat ->
  (excluded m_brline m_brstart m_brstop ls i ->
     c_branches (apply_filters (create true true ls) c) !! (N.of_nat i + 1) = None) /\
  (~ excluded m_brline m_brstart m_brstop ls i ->
     c_branches (apply_filters (create true true ls) c) !! (N.of_nat i + 1) = c_branches c !! (N.of_nat i + 1)).
Proof.
  intros Hi. rewrite apply_filters_branches. pose proof (removed_branches_iff ls i Hi) as H.
  destruct (existsb _ _); split; intros He; try reflexivity.
  - exfalso. apply He, H. reflexivity.
  - apply H in He. discriminate.
Qed.
(* line number 0 and numbers beyond the file are never touched *)
Theorem markers_outside ls c n :
  (n = 0 \/ N.of_nat (length ls) < n) ->
  c_lines (apply_filters (create true true ls) c) !! n = c_lines c !! n /\
  c_branches (apply_filters (create true true ls) c) !! n = c_branches c !! n.
Proof.
  intros Hn. rewrite apply_filters_lines, apply_filters_branches. unfold create; simpl.
  destruct (existsb (fun f => names_line f n) _) eqn:E1.
  - apply create_loop_lines in E1 as (i & -> & [H|H]).
    + destruct (ls !! i) eqn:E; [|discriminate]. apply lookup_lt_Some in E. lia.
    + apply region_flags_spec in H as [H _]. lia.
  - destruct (existsb (fun f => names_branch f n) _) eqn:E2; [|auto].
    apply create_loop_branches in E2 as (i & -> & [H|H]).
    + destruct (ls !! i) eqn:E; [|discriminate]. apply lookup_lt_Some in E. lia.
    + apply region_flags_spec in H as [H _]. lia.
Qed.
Theorem markers_funcs en rd ls c : c_funcs (apply_filters (create en rd ls) c) = c_funcs c.
Proof. apply apply_filters_funcs. Qed.
Theorem markers_off rd ls c : apply_filters (create false rd ls) c = c.
Proof. reflexivity. Qed.
Theorem markers_unreadable en ls c : apply_filters (create en false ls) c = c.
Proof. unfold create. rewrite andb_false_r. reflexivity. Qed.
