(* Facts about Model/Escape.v: decode-after-escape, absence of raw delimiters, end-of-hole scanners,
   and the skeleton of a document with holes. *)
From Grcov Require Import Model.Escape.
From Coq Require Import ZifyBool ZifyN ZifyNat.
Import Coq.Strings.String.StringSyntax.

Local Ltac neqb :=
  repeat match goal with
         | H : ?b <> ?k |- context [?b =? ?k] => rewrite (proj2 (N.eqb_neq b k) H)
         end.

Local Ltac case_eqb b :=
  match goal with |- context [b =? ?k] => destruct (N.eqb_spec b k) as [->|?] end.

(* ---------- generic: references ---------- *)
Section RefFacts.
  Variable named : bytes -> option bytes.
  Variable forbidden : N -> bool.
  Variable ent : N -> option bytes.
  Hypothesis Hent : forall b n, ent b = Some n -> named n = Some [b] /\ ~ In 59 n.
  Hypothesis Hplain : forall b, ent b = None -> b <> 38 /\ forbidden b = false.

  Lemma ref_go_name : forall n acc r, ~ In 59 n ->
    ref_go named forbidden (Some acc) (n ++ 59 :: r) =
    match named (rev acc ++ n) with
    | Some e => option_map (app e) (ref_go named forbidden None r)
    | None => None
    end.
  Proof.
    induction n as [|c n IH]; intros acc r Hn.
    - cbn [app ref_go]. rewrite N.eqb_refl, app_nil_r. reflexivity.
    - cbn [app ref_go]. destruct (N.eqb_spec c 59) as [->|Hc].
      { exfalso. apply Hn. left. reflexivity. }
      rewrite IH by (intro; apply Hn; right; assumption).
      cbn [rev]. rewrite <- app_assoc. reflexivity.
  Qed.

  Lemma ref_go_escape : forall s, ref_go named forbidden None (flat_map (esc_unit ent) s) = Some s.
  Proof.
    induction s as [|b s IH]; [reflexivity|].
    cbn [flat_map]. unfold esc_unit at 1. destruct (ent b) as [n|] eqn:E.
    - destruct (Hent _ _ E) as [Hn H59].
      rewrite <- app_comm_cons, <- app_assoc. cbn [app ref_go]. rewrite N.eqb_refl.
      rewrite ref_go_name by assumption. cbn [rev app]. rewrite Hn, IH. reflexivity.
    - destruct (Hplain _ E) as [H38 Hf]. cbn [app ref_go].
      destruct (N.eqb_spec b 38); [contradiction|]. rewrite Hf, IH. reflexivity.
  Qed.
End RefFacts.

(* ---------- the tables ---------- *)
Lemma xml_ent_ok : forall b n, xml_ent b = Some n -> xml_named n = Some [b] /\ ~ In 59 n.
Proof.
  intros b n. unfold xml_ent.
  repeat (case_eqb b;
          [intros [= <-]; split; [reflexivity|cbn [In]; intuition discriminate]|]).
  discriminate.
Qed.
Lemma xml_ent_plain : forall b, xml_ent b = None -> b <> 38 /\ xml_forbidden b = false.
Proof.
  intros b. unfold xml_ent, xml_forbidden.
  repeat (case_eqb b; [discriminate|]).
  intros _. split; [assumption|lia].
Qed.
Lemma html_ent_ok : forall b n, html_ent b = Some n -> html_named n = Some [b] /\ ~ In 59 n.
Proof.
  intros b n. unfold html_ent.
  repeat (case_eqb b;
          [intros [= <-]; split; [reflexivity|cbn [In]; intuition discriminate]|]).
  discriminate.
Qed.
Lemma html_ent_plain : forall b, html_ent b = None -> b <> 38 /\ html_forbidden b = false.
Proof.
  intros b. unfold html_ent, html_forbidden.
  repeat (case_eqb b; [discriminate|]).
  intros _. split; [assumption|lia].
Qed.

Lemma xml_escape_inverse : forall s, xml_unescape (xml_escape s) = Some s.
Proof. exact (ref_go_escape xml_named xml_forbidden xml_ent xml_ent_ok xml_ent_plain). Qed.
Lemma html_escape_inverse : forall s, html_unescape (html_escape s) = Some s.
Proof. exact (ref_go_escape html_named html_forbidden html_ent html_ent_ok html_ent_plain). Qed.

(* ---------- no raw delimiter ---------- *)
Lemma forallb_flat_map {A B} (p : B -> bool) (f : A -> list B) (l : list A) :
  (forall a, forallb p (f a) = true) -> forallb p (flat_map f l) = true.
Proof.
  intros Hf. induction l as [|a l IH]; [reflexivity|].
  cbn [flat_map]. rewrite forallb_app, Hf, IH. reflexivity.
Qed.

Lemma xml_unit_no_meta b : forallb (fun c => negb (markup_meta c)) (esc_unit xml_ent b) = true.
Proof.
  unfold esc_unit, xml_ent.
  repeat (case_eqb b; [reflexivity|]).
  cbn [forallb]. unfold markup_meta. lia.
Qed.
Lemma html_unit_no_meta b : forallb (fun c => negb (markup_meta c)) (esc_unit html_ent b) = true.
Proof.
  unfold esc_unit, html_ent.
  repeat (case_eqb b; [reflexivity|]).
  cbn [forallb]. unfold markup_meta. lia.
Qed.
Lemma no_meta_in (l : bytes) :
  forallb (fun c => negb (markup_meta c)) l = true ->
  forall c, In c l -> c <> 60 /\ c <> 62 /\ c <> 34 /\ c <> 39.
Proof.
  intros H c Hc. rewrite forallb_forall in H. specialize (H c Hc). unfold markup_meta in H. lia.
Qed.
Lemma xml_no_meta : forall s c, In c (xml_escape s) -> c <> 60 /\ c <> 62 /\ c <> 34 /\ c <> 39.
Proof. intros s. apply no_meta_in, forallb_flat_map, xml_unit_no_meta. Qed.
Lemma html_no_meta : forall s c, In c (html_escape s) -> c <> 60 /\ c <> 62 /\ c <> 34 /\ c <> 39.
Proof. intros s. apply no_meta_in, forallb_flat_map, html_unit_no_meta. Qed.

(* every & starts one of the produced references *)
Lemma amp_ok_skip names p r :
  forallb (fun c => negb (c =? 38)) p = true -> amp_ok names (p ++ r) = amp_ok names r.
Proof.
  induction p as [|c p IH]; [reflexivity|]. cbn [forallb app amp_ok]. intros H.
  destruct (N.eqb_spec c 38); [discriminate|]. apply IH. cbn [negb andb] in H. exact H.
Qed.
Lemma starts_with_app p r : starts_with p (p ++ r) = true.
Proof. induction p as [|c p IH]; [reflexivity|]. cbn [app starts_with]. rewrite N.eqb_refl. exact IH. Qed.
Section AmpFacts.
  Variable ent : N -> option bytes.
  Variable names : list bytes.
  Hypothesis Hnames : forall b n, ent b = Some n -> In n names /\ forallb (fun c => negb (c =? 38)) (n ++ [59]) = true.
  Hypothesis Hplain : forall b, ent b = None -> b <> 38.
  Lemma amp_ok_escape : forall s, amp_ok names (flat_map (esc_unit ent) s) = true.
  Proof.
    induction s as [|b s IH]; [reflexivity|].
    cbn [flat_map]. unfold esc_unit at 1. destruct (ent b) as [n|] eqn:E.
    - destruct (Hnames _ _ E) as [Hin Hno].
      rewrite <- app_comm_cons. cbn [amp_ok]. rewrite N.eqb_refl.
      rewrite amp_ok_skip by exact Hno. rewrite IH, andb_true_r.
      apply existsb_exists. exists n. split; [exact Hin|]. apply starts_with_app.
    - cbn [app amp_ok]. destruct (N.eqb_spec b 38); [exfalso; eapply Hplain; eauto|]. exact IH.
  Qed.
End AmpFacts.
Lemma xml_amp_ok : forall s, amp_ok xml_names (xml_escape s) = true.
Proof.
  apply amp_ok_escape.
  - intros b n. unfold xml_ent.
    repeat (case_eqb b; [intros [= <-]; split; [cbn [In xml_names]; tauto|reflexivity]|]).
    discriminate.
  - intros b H. apply xml_ent_plain in H. tauto.
Qed.
Lemma html_amp_ok : forall s, amp_ok html_names (html_escape s) = true.
Proof.
  apply amp_ok_escape.
  - intros b n. unfold html_ent.
    repeat (case_eqb b; [intros [= <-]; split; [cbn [In html_names]; tauto|reflexivity]|]).
    discriminate.
  - intros b H. apply html_ent_plain in H. tauto.
Qed.

(* ---------- end of hole: first raw delimiter ---------- *)
Lemma scan_to_free d p r :
  forallb (fun c => negb (d c)) p = true ->
  scan_to d (p ++ r) = let '(a, z) := scan_to d r in (p ++ a, z).
Proof.
  induction p as [|c p IH]; intros H.
  - cbn [app]. destruct (scan_to d r). reflexivity.
  - cbn [forallb] in H. apply andb_true_iff in H as [Hc Hp].
    cbn [app scan_to]. destruct (d c); [discriminate|].
    rewrite (IH Hp). destruct (scan_to d r). reflexivity.
Qed.
Lemma scan_to_hit d b r : d b = true -> scan_to d (b :: r) = ([], b :: r).
Proof. intros H. cbn [scan_to]. rewrite H. reflexivity. Qed.
Lemma forallb_weaken {A} (p q : A -> bool) l :
  (forall a, p a = true -> q a = true) -> forallb p l = true -> forallb q l = true.
Proof. intros Hpq. rewrite !forallb_forall. auto. Qed.

Lemma markup_hole_end (esc : bytes -> bytes) (d : N -> bool) (q : N) (s post : bytes) :
  (forall s, forallb (fun c => negb (markup_meta c)) (esc s) = true) ->
  (forall c, d c = true -> markup_meta c = true) -> d q = true ->
  scan_to d (esc s ++ q :: post) = (esc s, q :: post).
Proof.
  intros He Hd Hq. rewrite scan_to_free.
  - rewrite scan_to_hit by exact Hq. rewrite app_nil_r. reflexivity.
  - eapply forallb_weaken; [|apply He]. intros c Hc. cbn beta in *.
    destruct (d c) eqn:E; [|reflexivity]. rewrite (Hd _ E) in Hc. discriminate.
Qed.
Lemma xml_free s : forallb (fun c => negb (markup_meta c)) (xml_escape s) = true.
Proof. apply forallb_flat_map, xml_unit_no_meta. Qed.
Lemma html_free s : forallb (fun c => negb (markup_meta c)) (html_escape s) = true.
Proof. apply forallb_flat_map, html_unit_no_meta. Qed.

(* ---------- JSON ---------- *)
Lemma hex_digit_val_digit d : d < 16 -> hex_digit_val (hex_digit d) = Some d.
Proof.
  intros H. unfold hex_digit, hex_digit_val.
  destruct (N.ltb_spec d 10).
  - replace ((48 <=? 48 + d) && (48 + d <=? 57)) with true by lia. f_equal. lia.
  - replace ((48 <=? 87 + d) && (87 + d <=? 57)) with false by lia.
    replace ((97 <=? 87 + d) && (87 + d <=? 102)) with true by lia. f_equal. lia.
Qed.
Lemma hex_digit_plain d : d < 16 -> hex_digit d <> 92 /\ hex_digit d <> 34 /\ 32 <= hex_digit d.
Proof. intros H. unfold hex_digit. destruct (N.ltb_spec d 10); lia. Qed.
Lemma lt32_div b : b < 32 -> b / 16 < 16 /\ b mod 16 < 16 /\ b / 16 * 16 + b mod 16 = b.
Proof.
  intros H. pose proof (N.div_mod b 16 ltac:(lia)). pose proof (N.mod_lt b 16 ltac:(lia)).
  assert (b / 16 < 2) by (apply N.div_lt_upper_bound; lia). lia.
Qed.

Lemma json_unescape_simple c x r :
  c <> 117 -> json_simple_escape c = Some x ->
  json_unescape (92 :: c :: r) = option_map (cons x) (json_unescape r).
Proof.
  intros Hc Hx. cbn [json_unescape]. change (92 =? 92) with true. cbv iota.
  rewrite (proj2 (N.eqb_neq c 117) Hc), Hx. reflexivity.
Qed.
Lemma json_unescape_u h1 h2 h3 h4 r cp e :
  digits_val hex_digit_val 16 0 [h1; h2; h3; h4] = Some cp -> utf8_encode cp = Some e ->
  json_unescape (92 :: 117 :: h1 :: h2 :: h3 :: h4 :: r) = option_map (app e) (json_unescape r).
Proof.
  intros H1 H2. cbn [json_unescape]. change (92 =? 92) with true. change (117 =? 117) with true. cbv iota.
  rewrite H1, H2. reflexivity.
Qed.
Lemma json_unescape_plain b r :
  b <> 92 -> b <> 34 -> 32 <= b -> json_unescape (b :: r) = option_map (cons b) (json_unescape r).
Proof.
  intros H1 H2 H3. cbn [json_unescape]. rewrite (proj2 (N.eqb_neq b 92) H1).
  replace ((b =? 34) || (b <? 32)) with false by lia. reflexivity.
Qed.

(* case analysis on what the writer does with one byte *)
Inductive json_unit_spec (b : N) : bytes -> Prop :=
  | ju_simple c : c <> 117 -> json_simple_escape c = Some b -> json_unit_spec b [92; c]
  | ju_u h l : b < 32 -> h = hex_digit (b / 16) -> l = hex_digit (b mod 16) -> json_unit_spec b [92; 117; 48; 48; h; l]
  | ju_plain : b <> 92 -> b <> 34 -> 32 <= b -> json_unit_spec b [b].
Lemma json_esc_byte_spec b : json_unit_spec b (json_esc_byte b).
Proof.
  unfold json_esc_byte.
  destruct (N.eqb_spec b 34) as [->|?]; [apply ju_simple; [discriminate|reflexivity]|].
  destruct (N.eqb_spec b 92) as [->|?]; [apply ju_simple; [discriminate|reflexivity]|].
  destruct (N.ltb_spec b 32).
  - repeat (case_eqb b; [apply ju_simple; [discriminate|reflexivity]|]).
    apply ju_u; [assumption|reflexivity|reflexivity].
  - apply ju_plain; assumption.
Qed.

Lemma json_escape_inverse : forall s, json_unescape (json_escape s) = Some s.
Proof.
  induction s as [|b s IH]; [reflexivity|].
  unfold json_escape in *. cbn [flat_map].
  destruct (json_esc_byte_spec b) as [c Hc Hx|h l Hb -> ->|H1 H2 H3]; cbn [app].
  - rewrite (json_unescape_simple c b) by assumption. rewrite IH. reflexivity.
  - destruct (lt32_div b Hb) as (Hh & Hl & Hv).
    rewrite (json_unescape_u _ _ _ _ _ b [b]).
    + rewrite IH. reflexivity.
    + cbn [digits_val]. change (hex_digit_val 48) with (Some 0).
      rewrite (hex_digit_val_digit _ Hh), (hex_digit_val_digit _ Hl). f_equal. lia.
    + unfold utf8_encode. replace (b <? 128) with true by lia. reflexivity.
  - rewrite json_unescape_plain by assumption. rewrite IH. reflexivity.
Qed.

Lemma json_no_control : forall s c, In c (json_escape s) -> 32 <= c.
Proof.
  intros s c. unfold json_escape. rewrite in_flat_map. intros (b & _ & Hc).
  destruct (json_esc_byte_spec b) as [x Hx Hs|h l Hb -> ->|H1 H2 H3]; cbn [In] in Hc.
  - destruct Hc as [<-|[<-|[]]]; [lia|].
    revert Hs. unfold json_simple_escape.
    repeat (case_eqb x; [lia|]). discriminate.
  - destruct (lt32_div b Hb) as (Hh & Hl & _).
    pose proof (hex_digit_plain _ Hh). pose proof (hex_digit_plain _ Hl).
    destruct Hc as [<-|[<-|[<-|[<-|[<-|[<-|[]]]]]]]; lia.
  - destruct Hc as [<-|[]]. assumption.
Qed.

Lemma json_scan_plain b r :
  b <> 34 -> b <> 92 -> json_scan (b :: r) = let '(a, z) := json_scan r in (b :: a, z).
Proof. intros H1 H2. cbn [json_scan]. neqb. reflexivity. Qed.
Lemma json_scan_esc c r : json_scan (92 :: c :: r) = let '(a, z) := json_scan r in (92 :: c :: a, z).
Proof. reflexivity. Qed.
Lemma json_scan_escape : forall s r,
  json_scan (json_escape s ++ r) = let '(a, z) := json_scan r in (json_escape s ++ a, z).
Proof.
  induction s as [|b s IH]; intros r.
  - cbn [json_escape flat_map app]. destruct (json_scan r). reflexivity.
  - unfold json_escape in *. cbn [flat_map]. rewrite <- app_assoc.
    destruct (json_esc_byte_spec b) as [c Hc Hx|h l Hb -> ->|H1 H2 H3]; cbn [app].
    + rewrite json_scan_esc, IH. destruct (json_scan r). reflexivity.
    + destruct (lt32_div b Hb) as (Hh & Hl & _).
      pose proof (hex_digit_plain _ Hh). pose proof (hex_digit_plain _ Hl).
      rewrite json_scan_esc.
      rewrite (json_scan_plain 48) by discriminate. rewrite (json_scan_plain 48) by discriminate.
      rewrite (json_scan_plain (hex_digit (b / 16))) by tauto.
      rewrite (json_scan_plain (hex_digit (b mod 16))) by tauto.
      rewrite IH. destruct (json_scan r). reflexivity.
    + rewrite json_scan_plain by assumption. rewrite IH. destruct (json_scan r). reflexivity.
Qed.
Lemma json_string_end s post : json_scan (json_escape s ++ 34 :: post) = (json_escape s, 34 :: post).
Proof. rewrite json_scan_escape. cbn [json_scan]. change (34 =? 34) with true. cbv iota. rewrite app_nil_r. reflexivity. Qed.

(* ---------- machines ---------- *)
Section MachineFacts.
  Context {St Tok : Type}.
  Variable step : St -> N -> St * list Tok.
  Lemma run_app st a b :
    run step st (a ++ b) =
    let '(s1, t1) := run step st a in let '(s2, t2) := run step s1 b in (s2, t1 ++ t2).
  Proof.
    revert st. induction a as [|c a IH]; intros st.
    - cbn [app run]. destruct (run step st b). reflexivity.
    - cbn [app run]. destruct (step st c) as [s1 t1]. rewrite IH.
      destruct (run step s1 a) as [s2 t2]. destruct (run step s2 b) as [s3 t3].
      rewrite app_assoc. reflexivity.
  Qed.
  Lemma run_silent st b r st1 : step st b = (st1, []) -> run step st (b :: r) = run step st1 r.
  Proof. intros H. cbn [run]. rewrite H. destruct (run step st1 r). reflexivity. Qed.
  Lemma run_neutral_flat_map st (f : N -> bytes) s :
    (forall b, run step st (f b) = (st, [])) -> run step st (flat_map f s) = (st, []).
  Proof.
    intros Hf. induction s as [|b s IH]; [reflexivity|].
    cbn [flat_map]. rewrite run_app, Hf, IH. reflexivity.
  Qed.

  Variable hole : St -> bool.
  Variable esc : bytes -> bytes.
  Hypothesis Hesc : forall st s, hole st = true -> run step st (esc s) = (st, []).
  Lemma render_same_shape : forall ps qs st,
    same_shape ps qs = true -> well_placed step hole st ps = true ->
    run step st (render esc ps) = run step st (render esc qs).
  Proof.
    induction ps as [|p ps IH]; intros [|q qs] st Hs Hw; try discriminate; [reflexivity|].
    cbn [same_shape] in Hs. apply andb_true_iff in Hs as [Hpq Hs].
    unfold render in *. cbn [flat_map].
    destruct p as [a|a|a], q as [b|b|b]; try discriminate; cbn [well_placed same_piece] in *.
    - apply bool_decide_eq_true in Hpq as <-. rewrite !run_app.
      unfold state_after in Hw. destruct (run step st a) as [s1 t1]. cbn [fst] in Hw.
      rewrite (IH qs s1 Hs Hw). reflexivity.
    - apply andb_true_iff in Hw as [Hh Hw]. rewrite !run_app, !Hesc by exact Hh.
      rewrite (IH qs st Hs Hw). reflexivity.
    - apply bool_decide_eq_true in Hpq as <-. rewrite !run_app.
      unfold state_after in Hw. destruct (run step st a) as [s1 t1]. cbn [fst] in Hw.
      rewrite (IH qs s1 Hs Hw). reflexivity.
  Qed.
End MachineFacts.

Lemma mrun_xml st s : m_hole st = true -> run mstep st (xml_escape s) = (st, []).
Proof.
  intros Hst. apply run_neutral_flat_map. intros b. unfold esc_unit, xml_ent.
  repeat (case_eqb b; [destruct st; try discriminate; reflexivity|]).
  destruct st; try discriminate; (erewrite run_silent; [reflexivity|unfold mstep; neqb; reflexivity]).
Qed.
Lemma mrun_html st s : m_hole st = true -> run mstep st (html_escape s) = (st, []).
Proof.
  intros Hst. apply run_neutral_flat_map. intros b. unfold esc_unit, html_ent.
  repeat (case_eqb b; [destruct st; try discriminate; reflexivity|]).
  destruct st; try discriminate; (erewrite run_silent; [reflexivity|unfold mstep; neqb; reflexivity]).
Qed.
Lemma jrun_json st s : j_hole st = true -> run jstep st (json_escape s) = (st, []).
Proof.
  intros Hst. destruct st; try discriminate. apply run_neutral_flat_map. intros b.
  destruct (json_esc_byte_spec b) as [c Hc Hx|h l Hb -> ->|H1 H2 H3].
  - reflexivity.
  - destruct (lt32_div b Hb) as (Hh & Hl & _).
    pose proof (hex_digit_plain _ Hh) as (? & ? & _). pose proof (hex_digit_plain _ Hl) as (? & ? & _).
    rewrite (run_silent jstep JStr 92 _ JStrEsc) by reflexivity.
    rewrite (run_silent jstep JStrEsc 117 _ JStr) by reflexivity.
    rewrite (run_silent jstep JStr 48 _ JStr) by reflexivity.
    rewrite (run_silent jstep JStr 48 _ JStr) by reflexivity.
    rewrite (run_silent jstep JStr (hex_digit (b / 16)) _ JStr) by (unfold jstep; neqb; reflexivity).
    rewrite (run_silent jstep JStr (hex_digit (b mod 16)) _ JStr) by (unfold jstep; neqb; reflexivity).
    reflexivity.
  - erewrite run_silent; [reflexivity|unfold jstep; neqb; reflexivity].
Qed.

Lemma tokens_same_shape {St Tok} (step : St -> N -> St * list Tok) hole esc :
  (forall st s, hole st = true -> run step st (esc s) = (st, [])) ->
  forall ps qs st, same_shape ps qs = true -> well_placed step hole st ps = true ->
    tokens step st (render esc ps) = tokens step st (render esc qs) /\
    state_after step st (render esc ps) = state_after step st (render esc qs).
Proof.
  intros He ps qs st Hs Hw. unfold tokens, state_after.
  rewrite (render_same_shape step hole esc He ps qs st Hs Hw). split; reflexivity.
Qed.

(* ---------- templates ---------- *)
Lemma unescaped_holes_trusted :
  forall h, In h html_holes -> unescaped h = true -> forallb (fun o => negb (untrusted o)) (h_from h) = true.
Proof.
  assert (H : forallb (fun h => negb (unescaped h) || forallb (fun o => negb (untrusted o)) (h_from h)) html_holes = true)
    by (vm_compute; reflexivity).
  rewrite forallb_forall in H. intros h Hin Hu. specialize (H h Hin). rewrite Hu in H. exact H.
Qed.

(* ---------- a start tag with attributes ---------- *)
Lemma run_app' {St Tok} (step : St -> N -> St * list Tok) st a b s1 t1 s2 t2 :
  run step st a = (s1, t1) -> run step s1 b = (s2, t2) -> run step st (a ++ b) = (s2, t1 ++ t2).
Proof. intros H1 H2. rewrite run_app, H1, H2. reflexivity. Qed.
Lemma run_plain_tag k : plain_name k = true -> run mstep MTag k = (MTag, map TRaw k).
Proof.
  unfold plain_name. induction k as [|c k IH]; [reflexivity|]. cbn [forallb]. intros H.
  apply andb_true_iff in H as [Hc Hk]. cbn [run map].
  assert (mstep MTag c = (MTag, [TRaw c])) as ->.
  { unfold mstep. unfold markup_meta in Hc.
    replace (c =? 62) with false by lia. replace (c =? 34) with false by lia. replace (c =? 39) with false by lia.
    reflexivity. }
  rewrite (IH Hk). reflexivity.
Qed.
Lemma run_attr k v : plain_name k = true -> run mstep MTag (xml_attr (k, v)) = (MTag, attr_toks k).
Proof.
  intros Hk. unfold xml_attr, attr_toks. cbn [fst snd].
  change (32 :: k ++ [61; 34] ++ xml_escape v ++ [34]) with ([32] ++ k ++ [61; 34] ++ xml_escape v ++ [34]).
  etransitivity.
  - eapply run_app'; [reflexivity|]. eapply run_app'; [apply run_plain_tag; exact Hk|].
    eapply run_app'; [reflexivity|]. eapply run_app'; [apply (mrun_xml MAttrD v); reflexivity|]. reflexivity.
  - reflexivity.
Qed.
Lemma run_attrs attrs :
  forallb plain_name (map fst attrs) = true ->
  run mstep MTag (flat_map xml_attr attrs) = (MTag, flat_map attr_toks (map fst attrs)).
Proof.
  induction attrs as [|[k v] attrs IH]; [reflexivity|]. cbn [map fst forallb flat_map]. intros H.
  apply andb_true_iff in H as [Hk Hr]. eapply run_app'; [apply run_attr; exact Hk|apply IH; exact Hr].
Qed.
Lemma start_tag_tokens tag attrs :
  plain_name tag = true -> forallb plain_name (map fst attrs) = true ->
  run mstep MText (xml_start_tag tag attrs) =
  (MText, TOpen :: map TRaw tag ++ flat_map attr_toks (map fst attrs) ++ [TClose]).
Proof.
  intros Ht Ha. unfold xml_start_tag.
  change (60 :: tag ++ flat_map xml_attr attrs ++ [62]) with ([60] ++ tag ++ flat_map xml_attr attrs ++ [62]).
  etransitivity.
  - eapply run_app'; [reflexivity|]. eapply run_app'; [apply run_plain_tag; exact Ht|].
    eapply run_app'; [apply run_attrs; exact Ha|]. reflexivity.
  - reflexivity.
Qed.
Lemma start_tag_skeleton tag attrs1 attrs2 :
  plain_name tag = true -> forallb plain_name (map fst attrs1) = true -> map fst attrs1 = map fst attrs2 ->
  run mstep MText (xml_start_tag tag attrs1) = run mstep MText (xml_start_tag tag attrs2).
Proof.
  intros Ht Ha He. rewrite !start_tag_tokens; try assumption; [rewrite He; reflexivity|rewrite <- He; assumption].
Qed.

(* ---------- statements used by Props/C18.v ---------- *)
Lemma xml_hole_end : forall d q s post,
  (forall c, d c = true -> markup_meta c = true) -> d q = true ->
  scan_to d (xml_escape s ++ q :: post) = (xml_escape s, q :: post).
Proof. intros d q s post. apply markup_hole_end. exact xml_free. Qed.
Lemma html_hole_end : forall d q s post,
  (forall c, d c = true -> markup_meta c = true) -> d q = true ->
  scan_to d (html_escape s ++ q :: post) = (html_escape s, q :: post).
Proof. intros d q s post. apply markup_hole_end. exact html_free. Qed.
Lemma xml_attr_exact : forall s post,
  let '(v, rest) := scan_to (fun c => c =? 34) (xml_escape s ++ 34 :: post) in
  xml_unescape v = Some s /\ rest = 34 :: post.
Proof.
  intros s post. rewrite (xml_hole_end (fun c => c =? 34) 34 s post).
  - split; [apply xml_escape_inverse|reflexivity].
  - intros c Hc. apply N.eqb_eq in Hc as ->. reflexivity.
  - reflexivity.
Qed.
Lemma html_text_exact : forall s post,
  let '(v, rest) := scan_to (fun c => c =? 60) (html_escape s ++ 60 :: post) in
  html_unescape v = Some s /\ rest = 60 :: post.
Proof.
  intros s post. rewrite (html_hole_end (fun c => c =? 60) 60 s post).
  - split; [apply html_escape_inverse|reflexivity].
  - intros c Hc. apply N.eqb_eq in Hc as ->. reflexivity.
  - reflexivity.
Qed.
Lemma json_string_exact : forall s post,
  let '(v, rest) := json_scan (json_escape s ++ 34 :: post) in
  json_unescape v = Some s /\ rest = 34 :: post.
Proof. intros s post. rewrite json_string_end. split; [apply json_escape_inverse|reflexivity]. Qed.

Lemma breadcrumb_fixed : forall p d1 d2,
  tokens mstep MText (breadcrumb false p d1) = tokens mstep MText (breadcrumb false p d2).
Proof.
  intros p d1 d2. unfold breadcrumb.
  apply (tokens_same_shape mstep m_hole html_escape mrun_html
           (breadcrumb_pieces false _ d1) (breadcrumb_pieces false _ d2) MText); reflexivity.
Qed.
Lemma breadcrumb_no_prefix : forall d1 d2,
  tokens mstep MText (breadcrumb true None d1) = tokens mstep MText (breadcrumb true None d2).
Proof.
  intros d1 d2. unfold breadcrumb.
  apply (tokens_same_shape mstep m_hole html_escape mrun_html
           (breadcrumb_pieces true _ d1) (breadcrumb_pieces true _ d2) MText); reflexivity.
Qed.
