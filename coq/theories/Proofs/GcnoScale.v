(* C15 k_copies_scale: supplying the same gcda k times yields exactly k times the counts of supplying it once.
   Overflow is excluded by evaluating the model in exact arithmetic (W = id, Wsub = N.sub); every other part of
   the model is the one the correspondence check runs. *)
From Grcov Require Import Model.GcnoCount Proofs.GcnoBase Proofs.GcnoReadSafe Proofs.GcnoShape Proofs.GcnoZero
  Proofs.GcnoAdd Proofs.GcnoPerm Proofs.GcnoRel.
From Coq Require Import ZifyBool ZifyN ZifyNat.

(* ---- arcs are created with cycles = 0 and reading never changes cycles ---- *)
Definition cyc0 (edges : list gedge) : Prop := Forall (fun e => e_cycles e = 0) edges.

Lemma push_arc_cyc0 blocks edges src dst flags :
  cyc0 edges -> post (fun '(_, e') => cyc0 e') (push_arc blocks edges src dst flags).
Proof.
  intros He. unfold push_arc. destruct (nthN blocks src); [|done].
  eapply (post_bind (fun _ => True)); [done|]. intros i _.
  eapply (post_bind (fun _ => True)); [done|]. intros dl _.
  destruct (nthN _ dst); [|done]. apply post_Ok. apply Forall_app; split; [done|]. by repeat constructor.
Qed.
Lemma read_arcs_cyc0 le n src blocks edges real l :
  cyc0 edges -> post (fun '(_, e', _, _) => cyc0 e') (read_arcs le n src blocks edges real l).
Proof.
  revert blocks edges real l. induction n as [|n IH]; intros blocks edges real l Hz; cbn [read_arcs]; [by apply post_Ok|].
  repeat pstep. eapply post_bind; [by apply push_arc_cyc0|]. intros [b' e'] Hz'. by apply IH.
Qed.
Lemma read_functions_cyc0 le version blen fuel funs total l :
  Forall (fun f => cyc0 (f_edges f)) funs ->
  post (Forall (fun f => cyc0 (f_edges f))) (read_functions le version blen fuel funs total l).
Proof.
  revert funs total l. induction fuel as [|fuel IH]; intros funs total l Hz; [done|].
  cbn [read_functions]. destruct (read_u32 le l) as [[tag l1]|]; [|by apply post_Ok].
  destruct (tag =? 0); [by apply post_Ok|]. destruct (read_u32 le l1) as [[len l2]|]; [|done].
  destruct (tag =? TAG_FUNCTION).
  { eapply (post_bind (fun '(f, _) => cyc0 (f_edges f))).
    { unfold read_function. repeat pstep.
      eapply (post_bind (fun _ => True)); [done|]. intros [csum l3] _.
      eapply (post_bind (fun _ => True)); [done|]. intros [nm l4] _.
      destruct (version <? 80).
      - eapply (post_bind (fun _ => True)); [done|]. intros [file l5] _. repeat pstep. constructor.
      - repeat pstep. eapply (post_bind (fun _ => True)); [done|]. intros [file l6] _. repeat pstep; constructor. }
    intros [f l3] ?. apply IH. by constructor. }
  destruct (tag =? TAG_BLOCKS).
  { destruct funs as [|f fs]; [by apply IH|]. apply Forall_cons in Hz as [? ?].
    eapply (post_bind (fun '(f', _, _) => cyc0 (f_edges f'))).
    { unfold read_blocks. repeat pstep; done. }
    intros [[f' t'] l3] ?. apply IH. by constructor. }
  destruct (tag =? TAG_ARCS).
  { destruct funs as [|f fs]; [by apply IH|]. apply Forall_cons in Hz as [? ?].
    eapply (post_bind (fun '(f', _) => cyc0 (f_edges f'))).
    { unfold read_edges. repeat pstep. eapply post_bind; [by apply read_arcs_cyc0|]. intros [[[bl ed] re] l3] ?. by apply post_Ok. }
    intros [f' l3] ?. apply IH. by constructor. }
  destruct (tag =? TAG_LINES).
  { destruct funs as [|f fs]; [by apply IH|]. apply Forall_cons in Hz as [? ?].
    eapply (post_bind (fun '(f', _) => cyc0 (f_edges f'))).
    { unfold read_lines. repeat pstep. eapply (post_bind (fun _ => True)); [done|]. intros [[ls lm] l3] _. by apply post_Ok. }
    intros [f' l3] ?. apply IH. by constructor. }
  by apply IH.
Qed.
Lemma read_gcno_cyc0 buf : post (fun g => Forall (fun f => cyc0 (f_edges f)) (g_funs g)) (read_gcno buf).
Proof.
  unfold read_gcno. destruct (guess_endianness _ _ _ _ buf) as [[le l0]|]; [|done].
  eapply (post_bind (fun _ => True)); [done|]. intros [version l1] _.
  destruct (read_u32 le l1) as [[checksum l2]|]; [|done].
  eapply (post_bind (fun _ => True)); [done|]. intros l3 _.
  eapply (post_bind (fun _ => True)); [done|]. intros l4 _.
  eapply post_bind; [apply read_functions_cyc0; constructor|]. intros funs Hz. apply post_Ok. cbn. by apply Forall_rev.
Qed.

Section arith.
Context (W : N -> N).
Lemma add_counters_cyc0 le todo done blocks l :
  cyc0 todo -> cyc0 done -> post (fun '(ed, _, _) => cyc0 ed) (add_counters W le todo done blocks l).
Proof.
  revert done blocks l. induction todo as [|e todo IH]; intros done blocks l Ht Hd; cbn [add_counters].
  - apply post_Ok. by apply Forall_rev.
  - apply Forall_cons in Ht as [He Ht]. destruct (is_on_tree e); [apply IH; [done|by constructor]|].
    repeat pstep. all: apply IH; first [done | by constructor].
Qed.
Lemma cyc0_alter (fs : list gfun) fid bl ed :
  Forall (fun f => cyc0 (f_edges f)) fs -> cyc0 ed ->
  Forall (fun f => cyc0 (f_edges f)) (alterN (fun f => set_graph f bl ed (f_real f)) fid fs).
Proof.
  intros Hf He. revert fid. induction Hf as [|f fs Hx Hf IH]; intros fid; cbn [alterN]; [constructor|].
  destruct (fid =? 0); constructor; first [done | apply IH].
Qed.
Lemma read_gcda_loop_cyc0 le version fuel g cur l :
  Forall (fun f => cyc0 (f_edges f)) (g_funs g) ->
  post (fun g' => Forall (fun f => cyc0 (f_edges f)) (g_funs g')) (read_gcda_loop W le version fuel g cur l).
Proof.
  revert g cur l. induction fuel as [|fuel IH]; intros g cur l Hg; [done|].
  cbn [read_gcda_loop]. destruct (read_u32 le l) as [[tag l1]|]; [|by apply post_Ok].
  destruct (tag =? 0); [by apply post_Ok|]. destruct (read_u32 le l1) as [[len body]|]; [|done]. cbv zeta.
  destruct (tag =? TAG_FUNCTION).
  { destruct (len =? 0); [by apply IH|]. destruct (len =? 1); [done|].
    destruct (read_u32 le body) as [[id b1]|]; [|done]. destruct (read_u32 le b1) as [[lsum b2]|]; [|done].
    eapply (post_bind (fun _ => True)); [done|]. intros csum _.
    destruct (find_ident id (g_funs g)) as [fid|]; [|done]. destruct (nthN (g_funs g) fid); [|done].
    destruct (_ || _); [done|]. destruct (next_record len body); [|done]. by apply IH. }
  destruct (tag =? TAG_COUNTER_ARCS).
  { destruct cur as [fid|]; [|by apply IH]. destruct (nthN (g_funs g) fid) as [f|] eqn:Hf; [|done]. destruct (negb _); [done|].
    eapply post_bind.
    { apply add_counters_cyc0; [|constructor]. rewrite Forall_forall in Hg. apply Hg. by eapply nthN_elem. }
    intros [[ed bl] l'] He. destruct (next_record len body); [|done]. apply IH. cbn. by apply cyc0_alter. }
  destruct (tag =? TAG_OBJECT_SUMMARY).
  { destruct (read_u32 le body) as [[rc b1]|]; [|done]. destruct (skip 4 b1) as [b2|]; [|done].
    eapply (post_bind (fun _ => True)); [done|]. intros r _. destruct (next_record len body); [|done]. by apply IH. }
  destruct (tag =? TAG_PROGRAM_SUMMARY).
  { eapply (post_bind (fun g1 => g_funs g1 = g_funs g)).
    { destruct (0 <? len); [|by apply post_Ok]. destruct (skip 4 body) as [b1|]; [|done].
      destruct (skip 4 b1) as [b2|]; [|done]. destruct (read_u32 le b2) as [[? ?]|]; [|done]. by apply post_Ok. }
    intros g1 Hg1. destruct (next_record len body); [|done]. apply IH. cbn. by rewrite Hg1. }
  destruct (next_record len body); [|done]. by apply IH.
Qed.
Lemma read_gcda_cyc0 g d :
  Forall (fun f => cyc0 (f_edges f)) (g_funs g) ->
  post (fun g' => Forall (fun f => cyc0 (f_edges f)) (g_funs g')) (read_gcda W g d).
Proof.
  intros Hg. unfold read_gcda. destruct (guess_endianness _ _ _ _ d) as [[le l0]|]; [|done].
  eapply (post_bind (fun _ => True)); [done|]. intros [version l1] _.
  destruct (negb _); [done|]. destruct (read_u32 le l1) as [[checksum l2]|]; [|done].
  destruct (negb _); [done|]. by apply read_gcda_loop_cyc0.
Qed.
End arith.

(* ---- k copies ---- *)
Definition Wid (x : N) : N := x.
Definition phik (k : N) (a a' : N) : Prop := a' = k * a.

Lemma Wid_HW1 x y : Wid (Wid x + y) = Wid (x + y). Proof. done. Qed.
Lemma phik_0 k : phik k 0 0. Proof. unfold phik. lia. Qed.
Lemma phik_add k a a' b b' : phik k a a' -> phik k b b' -> phik k (Wid (a + b)) (Wid (a' + b')).
Proof. unfold phik, Wid. lia. Qed.
Lemma phik_abs k a a' b b' : phik k a a' -> phik k b b' ->
  phik k (if b <=? a then a - b else b - a) (if b' <=? a' then a' - b' else b' - a').
Proof.
  unfold phik. intros -> ->. destruct (N.leb_spec b a), (N.leb_spec (k * b) (k * a)); try nia.
Qed.
Lemma phik_min k a a' b b' : phik k a a' -> phik k b b' -> phik k (N.min a b) (N.min a' b').
Proof. unfold phik. intros -> ->. by rewrite N.mul_min_distr_l. Qed.
Lemma phik_sub k a a' b b' : phik k a a' -> phik k b b' -> phik k (a - b) (a' - b').
Proof. unfold phik. intros -> ->. by rewrite N.mul_sub_distr_l. Qed.
Lemma phik_pos k a a' : 1 <= k -> phik k a a' -> (0 <? a) = (0 <? a').
Proof. unfold phik. intros Hk ->. destruct (N.ltb_spec 0 a), (N.ltb_spec 0 (k * a)); try nia; done. Qed.

Lemma map_shape_Forall2 {A B} (h : A -> B) l k : map h l = map h k -> Forall2 (fun a b => h a = h b) l k.
Proof. apply map_eq_Forall2. Qed.

(* the zero state is 0 times anything of its shape *)
Lemma zero_rel dl z :
  gshape dl = gshape z -> zero_state z -> Forall (fun f => cyc0 (f_edges f)) (g_funs z) ->
  Forall2 (frel (phik 0)) (g_funs dl) (g_funs z).
Proof.
  intros Hs (Zf & _ & _) Hc. pose proof (gshape_funs _ _ Hs) as Hf.
  induction Hf as [|fd fz ld lz Hfs _ IH]; [constructor|].
  apply Forall_cons in Zf as [[Zb Ze] Zf]. apply Forall_cons in Hc as [Hc0 Hc]. constructor; [|by apply IH].
  unfold fshape in Hfs.
  assert (Hb : map bshape (f_blocks fd) = map bshape (f_blocks fz)) by congruence.
  assert (He : map eshape (f_edges fd) = map eshape (f_edges fz)) by congruence.
  unfold frel. repeat split; try congruence.
  - apply map_eq_Forall2 in Hb. clear -Hb Zb. induction Hb as [|b b' l l' H _ IH]; [constructor|].
    apply Forall_cons in Zb as [Hz Zb]. constructor; [|by apply IH]. split; [done|]. unfold phik. lia.
  - apply map_eq_Forall2 in He. clear -He Ze Hc0. induction He as [|e e' l l' H _ IH]; [constructor|].
    apply Forall_cons in Ze as [Hz Ze]. apply Forall_cons in Hc0 as [Hcy Hc0]. constructor; [|by apply IH].
    split; [done|]. unfold phik. split; lia.
Qed.

(* adding dl once more: m times dl becomes (m+1) times dl *)
Lemma gadd_scale m dl y :
  Forall (fun f => cyc0 (f_edges f)) (g_funs dl) ->
  Forall2 (frel (phik m)) (g_funs dl) (g_funs y) ->
  Forall2 (frel (phik (m + 1))) (g_funs dl) (g_funs (gadd Wid y dl)).
Proof.
  intros Hc Hr. cbn. induction Hr as [|fd fy ld ly Hf _ IH]; [constructor|].
  apply Forall_cons in Hc as [Hc0 Hc]. cbn [zip_with]. constructor; [|by apply IH].
  destruct Hf as (H1 & H2 & H3 & H4 & H5 & H6 & H7 & H8 & Hb & He).
  unfold frel, fadd, set_graph; cbn. repeat split; try done.
  - clear -Hb. induction Hb as [|b b' l l' [Hs Hcn] _ IH]; [constructor|]. cbn [zip_with]. constructor; [|done].
    split; [done|]. unfold phik, Wid in *. cbn. lia.
  - clear -He Hc0. induction He as [|e e' l l' (Hs & Hcn & Hcy) _ IH]; [constructor|].
    apply Forall_cons in Hc0 as [Hz Hc0]. cbn [zip_with]. constructor; [|by apply IH].
    split; [done|]. unfold phik, Wid in *. cbn. split; lia.
Qed.

Lemma cnorm_Wid_funs g : Forall (cnorm_fun Wid) (g_funs g).
Proof. apply Forall_forall. intros f _. split; apply Forall_forall; by intros. Qed.

Lemma read_copies z d dl :
  wf_gcno z -> zero_state z -> read_gcda Wid z d = Ok dl ->
  Forall (fun f => cyc0 (f_edges f)) (g_funs dl) ->
  forall (j : nat) m y, gshape y = gshape z -> cnorm Wid y -> Forall2 (frel (phik m)) (g_funs dl) (g_funs y) ->
  exists y', ofold (read_gcda Wid) (repeat d j) y = Ok y' /\ g_version y' = g_version z /\
             Forall2 (frel (phik (m + N.of_nat j))) (g_funs dl) (g_funs y').
Proof.
  intros Hwf Hz Hd Hc. induction j as [|j IH]; intros m y Hs Hn Hr.
  - exists y. cbn [repeat ofold]. split; [done|]. split; [unfold gshape in Hs; congruence|]. by rewrite N.add_0_r.
  - cbn [repeat ofold]. rewrite (read_gcda_normal_form Wid Wid_HW1 y z d Hs Hz Hn), Hd. cbn [omap obind].
    pose proof (read_gcda_shape Wid z d _ Hd) as Hsd.
    assert (Hl : same_len y dl) by (apply same_len_of_shape; congruence).
    destruct (IH (m + 1) (gadd Wid y dl)) as (y' & Hy' & Hv & Hr').
    + by rewrite gshape_gadd.
    + by apply cnorm_gadd.
    + by apply gadd_scale.
    + exists y'. split; [done|]. split; [done|]. replace (m + N.of_nat (S j)) with (m + 1 + N.of_nat j) by lia. done.
Qed.

(* what "k times the counts" means on results: per file, line counts are multiplied by k, function records and
   branch vectors are unchanged *)
Definition scaled (k : N) (r r' : gmap name cov) : Prop := resrel (phik k) r r'.

Theorem k_copies_scale gcno_buf d (k : nat) br :
  (1 <= k)%nat ->
  orel (scaled (N.of_nat k))
       (compute_map_gen Wid N.sub gcno_buf [d] br)
       (compute_map_gen Wid N.sub gcno_buf (repeat d k) br).
Proof.
  intros Hk. unfold compute_map_gen.
  pose proof (read_gcno_good gcno_buf) as Hwf. pose proof (read_gcno_zero_state gcno_buf) as Hz.
  pose proof (read_gcno_cyc0 gcno_buf) as Hc.
  destruct (read_gcno gcno_buf) as [z| | |] eqn:Ez; cbn [obind]; try done.
  cbn in Hwf. specialize (Hz _ eq_refl). specialize (Hc _ eq_refl).
  destruct k as [|k]; [lia|]. cbn [repeat ofold].
  pose proof (read_gcda_good Wid z d Hwf) as Hg.
  destruct (read_gcda Wid z d) as [dl| | |] eqn:Hd; cbn in Hg; cbn [obind]; try done.
  pose proof (read_gcda_shape Wid z d _ Hd) as Hsd.
  pose proof (read_gcda_cyc0 Wid z d Hc _ Hd) as Hcd.
  assert (Hl : same_len z dl) by (apply same_len_of_shape; congruence).
  (* the first copy read into z gives dl itself: use the copies lemma from the state after one read *)
  destruct (read_copies z d dl Hwf Hz Hd Hcd k 1 dl) as (y' & Hy' & Hv & Hr).
  - done.
  - split; [apply cnorm_Wid_funs|]. pose proof (read_gcda_normal_form Wid Wid_HW1 z z d eq_refl Hz (zero_state_cnorm Wid eq_refl z Hz)) as Hnf.
    rewrite Hd in Hnf. cbn in Hnf. injection Hnf as ->. cbn. unfold wrap32, two32. split; lia.
  - (* dl is 1 times dl *)
    clear. induction (g_funs dl) as [|f l IH]; [constructor|]. constructor; [|done].
    unfold frel. repeat split; try done.
    + induction (f_blocks f) as [|b bl IHb]; [constructor|]. constructor; [|done]. split; [done|]. unfold phik. lia.
    + induction (f_edges f) as [|e el IHe]; [constructor|]. constructor; [|done]. split; [done|]. unfold phik. split; lia.
  - rewrite Hy'. cbn [obind]. replace (N.of_nat (S k)) with (1 + N.of_nat k) by lia.
    eapply orel_bind.
    { apply (stop_rel Wid (phik (1 + N.of_nat k)) (phik_0 _) (phik_add _) (phik_abs _)); [|done].
      unfold gshape in Hsd. congruence. }
    intros g2 g2' Hg2.
    apply (finalize_rel Wid N.sub (phik (1 + N.of_nat k)) (phik_0 _) (phik_add _) (phik_min _) (phik_sub _)); [|done].
    intros a a'. apply phik_pos. lia.
Qed.
