(* Decimal printing (Rust Display for unsigned integers) and its value. *)
From Grcov Require Export Base.Prelude.
From Coq Require Strings.String Strings.Ascii.

(* byte string of a Coq string literal *)
Definition bs (s : String.string) : bytes := map Ascii.N_of_ascii (String.list_ascii_of_string s).
Global Arguments bs s%string_scope.

Fixpoint print_dec_aux (fuel : nat) (n : N) (acc : bytes) : bytes :=
  match fuel with
  | O => acc
  | S f => let acc' := (48 + n mod 10) :: acc in
           if n <? 10 then acc' else print_dec_aux f (n / 10) acc'
  end.
Definition print_dec (n : N) : bytes := print_dec_aux (S (N.to_nat (N.log2 n))) n [].

(* value of a digit string, unbounded *)
Definition dec_val (ds : bytes) : N := fold_left (fun r x => r * 10 + (x - 48)) ds 0.
