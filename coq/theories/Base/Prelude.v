(* Shared basics: outcomes, bounded-integer arithmetic written out, byte strings.
   Conventions: DESIGN.md section 2. *)
From stdpp Require Export base option list gmap.
From Coq Require Export NArith ZArith Lia.
From Coq Require Import ZifyBool ZifyN ZifyNat.

Global Open Scope N_scope.
Global Arguments N.add : simpl never.
Global Arguments N.sub : simpl never.
Global Arguments N.mul : simpl never.
Global Arguments N.eqb : simpl never.
Global Arguments N.ltb : simpl never.
Global Arguments N.leb : simpl never.
Global Arguments N.min : simpl never.
Global Arguments N.max : simpl never.
Global Arguments N.div : simpl never.
Global Arguments N.modulo : simpl never.
Global Arguments N.pow : simpl never.

(* What a Rust function can do: return Ok, return Err, panic (release mode),
   or - model artefact only - run out of explicit fuel. *)
Inductive outcome (A : Type) : Type :=
  | Ok (a : A)
  | Err
  | Panic
  | OutOfFuel.
Global Arguments Ok {A} a.
Global Arguments Err {A}.
Global Arguments Panic {A}.
Global Arguments OutOfFuel {A}.

Definition obind {A B} (o : outcome A) (f : A -> outcome B) : outcome B :=
  match o with Ok a => f a | Err => Err | Panic => Panic | OutOfFuel => OutOfFuel end.
Notation "'let*' x := o 'in' k" := (obind o (fun x => k)) (at level 200, x pattern, o at level 100, k at level 200, right associativity).

Definition is_panic {A} (o : outcome A) : bool := match o with Panic => true | _ => false end.

(* 64-bit and 32-bit unsigned arithmetic, written out. *)
Definition U64_MAX : N := 18446744073709551615.
Definition U32_MAX : N := 4294967295.
Definition two64 : N := 18446744073709551616.
Definition two32 : N := 4294967296.
Definition wrap64 (x : N) : N := x mod two64.
Definition wrap32 (x : N) : N := x mod two32.
(* `a.checked_add(b).unwrap_or(u64::MAX)` and `saturating_add` *)
Definition sat_add64 (a b : N) : N := N.min (a + b) U64_MAX.
(* `count as i64` *)
Definition to_i64 (c : N) : Z := if c <? 9223372036854775808 then Z.of_N c else (Z.of_N c - 18446744073709551616)%Z.

(* bytes are N below 256; names are byte lists *)
Definition byte := N.
Definition bytes := list N.
Definition name := list N.
