(* Entry points of the gcno engine evaluated by the correspondence checks (C08, C14, C15). *)
From Grcov Require Export Model.GcnoCount.

(* (tag, results): 0 Ok, 1 Err, 2 Panic, 3 OutOfFuel *)
Definition show_gcno (o : outcome (list (name * cov))) : N * list (name * cov_l) :=
  match o with
  | Ok rs => (0, map (fun '(n, c) => (n, cov_to_l c)) rs)
  | Err => (1, [])
  | Panic => (2, [])
  | OutOfFuel => (3, [])
  end.
Definition run_gcno (gcno_buf : bytes) (gcdas : list bytes) (br : bool) := show_gcno (compute gcno_buf gcdas br).
(* outcome class only *)
Definition class_gcno (gcno_buf : bytes) (gcdas : list bytes) (br : bool) : N := (run_gcno gcno_buf gcdas br).1.

From Grcov Require Export Model.GcnoFlow.
(* hypothesis of C15_k_copies_scale_wrap on a concrete input *)
Definition run_no_overflow (gcno_buf : bytes) (gcdas : list bytes) (br : bool) : bool := no_overflow_b gcno_buf gcdas br.
(* decoded graph after counting, for analysis: per function (name, arcs (src,dst,flags,count), blocks (lines,count)) *)
Definition run_dump (gcno_buf : bytes) (gcdas : list bytes) :=
  match (let* g := read_gcno gcno_buf in let* g1 := ofold (read_gcda wrap64) gcdas g in stop wrap64 g1) with
  | Ok g2 => map (fun f => (f_name f, map (fun e => (e_src e, e_dst e, e_flags e, e_counter e)) (f_edges f),
                            map (fun b => (b_lines b, b_counter b)) (f_blocks f))) (g_funs g2)
  | _ => []
  end.
