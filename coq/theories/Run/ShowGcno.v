(* Entry points of the gcno engine evaluated by the correspondence checks (C08, C14, C15). *)
From Grcov Require Export Model.GcnoCount.

(* (tag, results): 0 Ok, 1 Err, 2 Panic, 3 OutOfFuel *)
Definition show_gcno (o : outcome (list (name * cov))) : N * list (name * cov_l) :=
  match o with
  | Ok rs => (0, map (fun '(n, c) => (n, cov_to_l c)) rs)
  | Err => (1, [])
  | Panic => (2, [])
  | OutOfFuel => (3, [])
  end.
Definition run_gcno (gcno_buf : bytes) (gcdas : list bytes) (br : bool) := show_gcno (compute gcno_buf gcdas br).
(* outcome class only *)
Definition class_gcno (gcno_buf : bytes) (gcdas : list bytes) (br : bool) : N := (run_gcno gcno_buf gcdas br).1.

From Grcov Require Export Model.GcnoFlow.
