(* Entry point of the C03 / C13 correspondence check: the abstract documents of the modelled report formats for one
   result set, printed as nested lists / tuples of N, bool and option. *)
From Grcov Require Export Model.Reports.

Definition file_l : Type := list name * list name * name * cov_l * N.
Definition rfile_of (t : file_l) : rfile := let '(a, rc, r, c, s) := t in mkRfile a rc r (cov_of_l c) s.

(* integers as (negative?, magnitude) *)
Definition show_z (z : Z) : bool * N := ((z <? 0)%Z, Z.abs_N z).
Definition show_oz (o : option Z) : option (bool * N) := show_z <$> o.
Definition show_cd (st : cdstats) : N * N * N := (cd_total st, cd_covered st, cd_missed st).

Fixpoint flat_cd (p : N) (prefix : list name) (o : cdout) : list (list name * N * (N * N * N) * option (bool * N) * list (bool * N)) :=
  match o with
  | CDFile nm st pct cv => [(prefix ++ [nm], 0, show_cd st, show_oz (rate_units p pct), map show_z cv)]
  | CDDir nm st pct ch =>
      (prefix ++ [nm], 1, show_cd st, show_oz (rate_units p pct), []) :: concat (map (flat_cd p (prefix ++ [nm])) ch)
  end.

Definition show_cv (f : cv_file) :=
  (cv_name f, cv_coverage f, concat (map (fun '(l, b, n, t) => [l; b; n; t]) (cv_branches f)), cv_functions f).
Definition show_md (p : N) (d : list md_row * rate) :=
  (map (fun r => (md_file r, md_covered r, md_total r, md_ranges r, show_oz (rate_units p (md_pct r)))) d.1,
   show_oz (rate_units p d.2)).
Definition show_cob (s : cobstats) := (lines_covered s, lines_valid s, branches_covered s, branches_valid s).
Definition show_hs (p : N) (s : hstats) :=
  ((h_cl s, h_tl s, show_oz (rate_units p (html_shown (h_cl s) (h_tl s) p))),
   (h_cf s, h_tf s, show_oz (rate_units p (html_shown (h_cf s) (h_tf s) p))),
   (h_cb s, h_tb s, show_oz (rate_units p (html_shown (h_cb s) (h_tb s) p)))).
Definition show_summ (s : lcov_summ) := (s_LF s, s_LH s, s_BRF s, s_BRH s, s_FN s).

Definition show_ap (a : ade_part) := (ap_covered a, ap_uncovered a, ap_total_covered a, ap_total_uncovered a).
Definition show_ade (f : ade_file) :=
  (af_name f, map (fun m : name * ade_part => (m.1, show_ap m.2)) (af_methods f), show_ap (af_file f), show_ap (af_orphan f)).

(* parent directory of the rel path as html.rs keys it: the components but the last, joined by '/' *)
Fixpoint join_slash (cs : list name) : name :=
  match cs with [] => [] | [c] => c | c :: cs => c ++ 47 :: join_slash cs end.
Definition html_parent (r : rfile) : name := join_slash (removelast (r_relc r)).

Definition run_report (p : N) (fs : list file_l) :=
  let rs := map rfile_of fs in
  let nc := map (fun r => (r_rel r, r_cov r)) rs in
  let hr := html_reported rs in
  let hst := map (fun r => (html_parent r, html_get_stats (r_cov r))) hr in
  let cob := encode_cobertura nc in
  (flat_cd p [] (encode_covdir p rs),
   map show_cv (encode_coveralls true nc),
   show_md p (encode_markdown p nc),
   (map (fun x => (x.1.1, x.1.2, show_cob x.2)) cob.1, show_cob cob.2),
   (map (fun r => (r_rel r, map show_z (html_rows (r_cov r) (r_src r)), show_hs p (html_get_stats (r_cov r)))) hr,
    map (fun d => (d.1, show_hs p d.2)) (map_to_list (html_dirs hst)),
    show_hs p (html_global hst),
    (fun g => (show_oz (badge_percent (h_cl g) (h_tl g)))) (html_global hst)),
   map (fun r => show_summ (lcov_summary (r_cov r))) rs,
   encode_files nc,
   map show_ade (encode_ade nc)).

(* The size / boundary result sets (arrays of 2^16 .. 2^20 slots): the arrays are evaluated with line_array_n, which is
   line_array with a binary line counter (Props/C03.v: C03_line_array_n; line_array converts every index from unary and is
   quadratic to evaluate), and printed summarised: length, and the slots that hold data with their 1-based line. *)
Fixpoint sparse_from {A} (keep : A -> bool) (i : N) (l : list A) : list (N * A) :=
  match l with
  | [] => []
  | a :: l => if keep a then (i, a) :: sparse_from keep (i + 1) l else sparse_from keep (i + 1) l
  end.
Definition sparse {A} (keep : A -> bool) (l : list A) : N * list (N * A) := (N.of_nat (length l), sparse_from keep 1 l).
Definition run_report_sparse (p : N) (fs : list file_l) :=
  let rs := map rfile_of fs in
  (map (fun r => let m := c_lines (r_cov r) in
                 (r_rel r, show_cd (cd_file_stats m),
                  sparse (fun z : bool * N => negb (z.1 && (z.2 =? 1))) (map show_z (line_array_n cd_cell m (last_line m))),
                  sparse (fun o : option N => match o with Some _ => true | None => false end) (line_array_n id m (cv_end m - 1)))) rs,
   show_cd (cd_set_stats (cd_build rs))).
