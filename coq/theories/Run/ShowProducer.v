(* Entry point of the C17 correspondence check: the producer model on a recorded layout, printed as numbers. *)
From Grcov Require Export Model.Producer.

Definition fmt_n (f : fmt) : N :=
  match f with FGcno => 0 | FProfraw => 1 | FProfdata => 2 | FInfo => 3 | FXml => 4 end.
Definition on (o : option N) : list N := match o with Some x => [x] | None => [] end.
Definition show_pp (p : ppath * option N) : N * bytes * list N :=
  match p.1 with PTmp r => (0, r, on p.2) | PPlain f => (1, f, on p.2) end.
(* (kind, format or link number, archive name, stem, first content list, second content list, paths) *)
Definition show_item (i : item) : N * N * bytes * bytes * list N * list N * list (N * bytes * list N) :=
  match i with
  | IContent f an c => (0, fmt_n f, an, [], [c], [], [])
  | IBuffers an s g gs => (1, 0, an, s, [g], gs, [])
  | IPath an s num g d => (2, num, an, s, on g, on d, [])
  | IPaths f ps => (3, fmt_n f, [], [], [], [], map show_pp ps)
  end.
(* entries are given as (name, cid, index into the table of heads) *)
Definition ent (heads : list bytes) (t : bytes * N * N) : entry :=
  let '(n, c, h) := t in mkEntry n c (nth (N.to_nat h) heads []).
Inductive sarg := SZip (n : bytes) (es : list (bytes * N * N)) | SDir (n : bytes) (es : list (bytes * N * N))
                | SFile (full : bytes) (c h : N).
Definition arg_of (heads : list bytes) (a : sarg) : arg :=
  match a with
  | SZip n es => AZip n (map (ent heads) es)
  | SDir n es => ADir n (map (ent heads) es)
  | SFile f c h => AFile f (ent heads (f, c, h))
  end.
(* (0, items, mapping candidates) | (2, [], []) panic | (1,..) | (3,..) *)
Definition run_producer (heads : list bytes) (ll cov : bool) (args : list sarg) :=
  match producer (mkOpts ll cov) (map (arg_of heads) args) with
  | Ok (its, mc) => (0, map show_item its, map on mc)
  | Err => (1, [], [])
  | Panic => (2, [], [])
  | OutOfFuel => (3, [], [])
  end.
(* the sniffers alone, on a head *)
Definition run_sniff (h : bytes) := (is_info h, is_jacoco h, is_gcno_llvm h).
