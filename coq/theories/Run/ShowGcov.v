(* Entry points evaluated by the C09 correspondence check (vm_compute). *)
From Grcov Require Export Model.GcovText Model.GcovJson Model.GcovSpec.

(* outcome of a parser as (tag, results): 0 Ok, 1 Err, 2 Panic, 3 OutOfFuel *)
Definition show_gresults (o : outcome (list (name * cov))) : N * list (name * cov_l) :=
  match o with
  | Ok rs => (0, map (fun '(n, c) => (n, cov_to_l c)) rs)
  | Err => (1, [])
  | Panic => (2, [])
  | OutOfFuel => (3, [])
  end.
Definition run_gcov_text (b : bytes) := show_gresults (parse_gcov b).
(* a report given as records: rendered bytes, wf, what the parser model makes of them, what the spec says *)
Definition run_gcov_spec (f : greport) :=
  (render_greport f, wf_greport f, show_gresults (parse_gcov (render_greport f)),
   map (fun '(n, c) => (n, cov_to_l c)) (greport_denote f)).
Definition run_gcov_json (t : list jfile) := show_gresults (parse_gcov_gz_tree t).
Definition show_counter (n : jnum) : N * N :=
  match counter_of_number n with Ok v => (0, v) | Err => (1, 0) | Panic => (2, 0) | OutOfFuel => (3, 0) end.
