(* C20 entry points evaluated by the correspondence check (vm_compute). *)
From Grcov Require Export Model.Tools Model.Lcov.
Import Coq.Strings.String.StringSyntax.

Definition show_map (m : filemap) : list (name * cov_l) := map (fun '(n, c) => (n, cov_to_l c)) (map_to_list m).
Definition tag_of {A} (o : outcome A) : N := match o with Ok _ => 0 | Err => 1 | Panic => 2 | OutOfFuel => 3 end.

(** LLVM: items = per profile kind the discovered profiles [(name, is_plain)], in the order of discovery.
    Every profile name occurs once per archive here (the driver numbers occurrences), so `found` has one archive per name. *)
Definition mk_fentry (t : name * bool * N * bool) : fentry := let '(p, f, r, a) := t in mkFentry p f r a.
Definition assoc_export (tbl : list (name * option bytes)) (b : name) : option bytes :=
  match list_find (fun e => e.1 = b) tbl with Some (_, (_, Some l)) => Some l | _ => None end.
Definition show_ppath (p : ppath) : name := match p with PPlain n => n | PTmp n _ => n end.
Definition run_llvm (branch merge_ok : bool) (b : bpath) (tbl : list (name * option bytes)) (items : list (list (name * bool))) :=
  let t := mkTools true true (fun _ => merge_ok) (assoc_export tbl) in
  let its := map (fun found => (t, profile_paths (map (fun '(n, pl) => (n, [if pl : bool then APlain else AExtract])) found))) items in
  let '(tr, r) := consume_llvm_items (fun l => parse_lcov l branch) (Some b) ∅ its in
  (tag_of r,
   map (map show_ppath) (merge_calls tr),
   (* exports grouped by the merge that precedes them *)
   (fix grp (tr : list call) (cur : option (list name)) (acc : list name) : list (list name * list name) :=
      match tr with
      | [] => match cur with Some l => [(l, acc)] | None => [] end
      | CMerge l :: tr => match cur with Some l0 => (l0, acc) :: grp tr (Some (map show_ppath l)) [] | None => grp tr (Some (map show_ppath l)) [] end
      | CExport b :: tr => grp tr cur (acc ++ [b])
      end) tr None [],
   match r with Ok m => show_map m | _ => [] end).

(** GCC: workers = list of item lists; item = (stem, gcno file name, run ok, files left [(name, Some parsed | None)]).
    The parse result of a left file travels inside its "content": the content is the index of the file in a table. *)
Definition gcc_item := (name * name * bool * list (name * option (list (name * cov_l))))%type.
Definition latch_n (t : gcov_type) : N := match t with GUnknown => 0 | GSingle => 1 | GMultiple => 2 end.
Definition has_ext_bytes (n : name) : bool :=
  (* Path::extension of a plain file name: a '.' that is not the first byte *)
  match n with [] => false | _ :: tl => bool_decide (46 ∈ tl) end.
Section RunGcc.
  Variable table : list (option (list (name * cov_l))).
  Definition parse_tbl (_ : name) (c : bytes) : outcome (list (name * cov)) :=
    match c with
    | [i] => match table !! N.to_nat i with
             | Some (Some rs) => Ok (map (fun '(n, c) => (n, cov_of_l c)) rs)
             | _ => Err
             end
    | _ => Err
    end.
End RunGcc.
Definition number_items (ws : list (list gcc_item)) : list (option (list (name * cov_l))) * list (list gitem) :=
  foldl (fun '(tbl, out) w =>
           let '(tbl', w') :=
             foldl (fun '(tbl, acc) (it : gcc_item) =>
                      let '(stem, gn, ok, lft) := it in
                      let '(tbl', left') :=
                        foldl (fun '(tbl, l) '(n, r) => (tbl ++ [r], l ++ [(n, [N.of_nat (length tbl)])])) (tbl, []) lft in
                      (tbl', acc ++ [mkGitem stem gn ok left'])) (tbl, []) w in
           (tbl', out ++ [w'])) ([], []) ws.
Definition run_gcc (guess : bool) (ws : list (list gcc_item)) :=
  let '(tbl, workers) := number_items ws in
  let ext := bs ".gcov.json.gz" in
  let rs := map (gcc_worker (parse_tbl tbl) has_ext_bytes ext (fun _ n => n) guess GUnknown []) workers in
  let bad := filter (fun r => negb (tag_of r =? 0)) rs in
  (match bad with r :: _ => tag_of r | [] => 0 end,
   map (fun r => match r with Ok (t, _, _) => latch_n t | _ => 9 end) rs,
   show_map (add_batches ∅ (flat_map (fun r => match r with Ok (_, _, bs) => bs | _ => [] end) rs))).
