(* Entry points for engines `pathfacts` and `rewrite` (C11, C12). *)
From Grcov Require Export Model.Rewrite.

Definition show_seg (s : seg) : N * bytes := match s with Cur => (0, []) | Up => (1, []) | Name n => (2, n) end.
Definition show_path (p : path) : bool * list (N * bytes) := (p_abs p, map show_seg (p_segs p)).
Definition show_opath (o : option path) : list (bool * list (N * bytes)) :=
  match o with Some p => [show_path p] | None => [] end.

(* facts about a, and about the pair (a, b), in the order the driver compares them *)
Definition run_facts (a b : bytes) :=
  let pa := components a in
  let pb := components b in
  (show_path pa, show_path (pjoin pa pb), render (pjoin pa pb),
   (starts_with pa pb, ends_with pa pb, show_opath (strip_pfx pa pb)),
   (show_opath (parent pa), map show_path (ancestors pa)),
   (show_opath (normalize_path pa), match normalize_path pa with Some q => render q | None => [] end),
   (has_no_parent pa, is_empty pa, wf_path pa)).

Definition mk_fs (dirs files : list (list bytes)) (links : list (list bytes * bytes)) (cwd : list bytes) : fsys :=
  mkFs dirs files (map (fun '(l, t) => (l, components t)) links) cwd.

Definition lookup_verdict (vs : list (bytes * (bool * bool))) (which : bool) (b : bytes) : bool :=
  match assoc b vs with Some (i, k) => if which then k else i | None => false end.

(* one variant of one case.  verdicts: what the real globset said about every candidate rel path.
   Result: (tag, records, rel paths the model asked about that have no recorded verdict);
   tag 0 = returned, 2 = panic. *)
Definition run_rewrite (dirs files : list (list bytes)) (links : list (list bytes * bytes)) (cwd : list bytes)
    (mapping : option (list (bytes * bytes))) (sd pd : option bytes)
    (ine keep_nonempty : bool) (filter : option bool)
    (verdicts : list (bytes * (bool * bool))) (kvs : list (bytes * cov_l)) :=
  let fs := mk_fs dirs files links cwd in
  let o := mkOpts mapping (components <$> sd) (components <$> pd) ine
                  (lookup_verdict verdicts false)
                  (if keep_nonempty then Some (lookup_verdict verdicts true) else None) filter in
  let m : gmap bytes cov := list_to_map (map (fun '(k, c) => (k, cov_of_l c)) kvs) in
  let missing := omap (fun '(k, _) => match rewritten fs o k with
                                       | Some (_, r) => match assoc (render r) verdicts with Some _ => None | None => Some (render r) end
                                       | None => None end) (map_to_list m) in
  match rewrite_paths fs o m with
  | Ok rs => (0, map (fun '(a, r, c) => (render a, r, cov_to_l c)) rs, missing)
  | _ => (2, [], missing)
  end.

(* the report pipeline of main.rs: merge_same_paths (rewrite_paths .. None ..) filter *)
Definition run_report (dirs files : list (list bytes)) (links : list (list bytes * bytes)) (cwd : list bytes)
    (mapping : option (list (bytes * bytes))) (sd pd : option bytes)
    (ine keep_nonempty : bool) (filter : option bool)
    (verdicts : list (bytes * (bool * bool))) (kvs : list (bytes * cov_l)) :=
  let fs := mk_fs dirs files links cwd in
  let o := mkOpts mapping (components <$> sd) (components <$> pd) ine
                  (lookup_verdict verdicts false)
                  (if keep_nonempty then Some (lookup_verdict verdicts true) else None) filter in
  let m : gmap bytes cov := list_to_map (map (fun '(k, c) => (k, cov_of_l c)) kvs) in
  match report_paths fs o m with
  | Ok rs => (0, map (fun '(a, r, c) => (render a, r, cov_to_l c)) rs)
  | _ => (2, [])
  end.

(* keys as add_results stores them *)
Definition run_add_keys (dirs files : list (list bytes)) (links : list (list bytes * bytes)) (cwd : list bytes)
    (sd : option bytes) (keys : list bytes) :=
  let fs := mk_fs dirs files links cwd in
  map (add_key fs (components <$> sd)) keys.

(* a whole case: tree given relative to the temp root `rootn`, all variants at once; in the output a
   path that starts with the root's bytes `rb` is printed as (1, rest), any other as (0, bytes) *)
Fixpoint nonempty_prefixes {A} (l : list A) : list (list A) :=
  match l with [] => [] | x :: t => [x] :: map (cons x) (nonempty_prefixes t) end.
Fixpoint strip_bytes (pre b : bytes) : option bytes :=
  match pre, b with
  | [], _ => Some b
  | x :: pre, y :: b => if x =? y then strip_bytes pre b else None
  | _ :: _, [] => None
  end.
Definition compact (rb b : bytes) : N * bytes :=
  match strip_bytes rb b with Some r => (1, r) | None => (0, b) end.
Definition run_case (fn : N) (rb : bytes) (rootn : list bytes) (dirs files : list (list bytes)) (links : list (list bytes * bytes)) (cwd : list bytes)
    (mapping : option (list (bytes * bytes))) (sd pd : option bytes) (kvs : list (bytes * cov_l))
    (vs : list (bool * bool * option bool * list (bytes * (bool * bool)))) :=
  let dirs' := nonempty_prefixes rootn ++ map (app rootn) dirs in
  let files' := map (app rootn) files in
  let links' := map (fun '(l, t) => (rootn ++ l, t)) links in
  map (fun '(ine, kn, filt, verd) =>
         let '(tag, rs, missing) :=
           if fn =? 0 then run_rewrite dirs' files' links' (rootn ++ cwd) mapping sd pd ine kn filt verd kvs
           else let '(tg, rs) := run_report dirs' files' links' (rootn ++ cwd) mapping sd pd ine kn filt verd kvs in (tg, rs, []) in
         (tag, map (fun '(a, r, c) => (compact rb a, compact rb r, c)) rs, missing)) vs.
