(* Entry points of the C10 correspondence check (vm_compute). *)
From Grcov Require Export Model.Jacoco.
Export Coq.Strings.String.StringSyntax.   (* the driver writes printable names as (bs "text") *)

(* tag: 0 Ok, 1 Err, 2 Panic, 3 OutOfFuel *)
Definition show_jres (o : jres (list (name * cov))) : N * list (name * cov_l) :=
  match o with
  | JOk rs => (0, map (fun '(n, c) => (n, cov_to_l c)) rs)
  | JErr => (1, [])
  | JPanic => (2, [])
  | JFuel => (3, [])
  end.
Definition run_jacoco (evs : list xev) := show_jres (parse_jacoco evs).

(* Short spellings used by the driver when it writes the harness' event dump as a Gallina term (elaborating a
   term costs ~25 us per source byte, so frequent names are constants and `A k v` abbreviates raw = unescaped). *)
Definition A (k v : bytes) : xattr := AOk k v (Some v).
Definition S := EStart.
Definition E := EEnd.
Definition d_report := bs "report".
Definition d_group := bs "group".
Definition d_sessioninfo := bs "sessioninfo".
Definition d_mi := bs "mi".
Definition d_missed := bs "missed".
Definition d_desc := bs "desc".
Definition d_id := bs "id".
Definition d_start := bs "start".
Definition d_dump := bs "dump".
Definition d_INSTRUCTION := bs "INSTRUCTION".
Definition d_BRANCH := bs "BRANCH".
Definition d_LINE := bs "LINE".
Definition d_COMPLEXITY := bs "COMPLEXITY".
Definition d_CLASS := bs "CLASS".
Definition d_0 := bs "0".
Definition d_1 := bs "1".
Definition d_2 := bs "2".
Definition d_5 := bs "5".

(* SPEC side by side with the descent: (wf_report, descent on the canonical rendering, denotation) *)
From Grcov Require Export Model.JacocoSpec.
Definition run_jacoco_spec (r : jreport) :=
  (bool_decide (wf_report r), show_jres (parse_jacoco (render_report r)),
   map (fun '(n, c) => (n, cov_to_l c)) (denote r)).
