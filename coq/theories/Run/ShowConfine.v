(* Entry point of the C19 correspondence: does the destination string, joined to the root, stay under the root lexically? *)
From Grcov Require Export Model.Confine.
Definition names_of (root : bytes) : list bytes :=
  omap (fun s => match s with Name n => Some n | _ => None end) (p_segs (parse root)).
(* (safe member name?, destination stays under root?) *)
Definition run_confine (root name dest : bytes) : bool * bool :=
  (safe_entry name, resolves_underb (names_of root) (parse dest)).
