(* Entry points of the C18 correspondence check (vm_compute). *)
From Grcov Require Export Model.Escape.
(* the three escapers on one string; the JSON one with its quotes, as serde_json::to_string prints it *)
Definition run_escape (s : bytes) := (xml_escape s, json_string s, html_escape s).
(* decoders applied to the model's own output (sanity of the round trip on the generated strings) *)
Definition run_roundtrip (s : bytes) :=
  (xml_unescape (xml_escape s), json_unescape (json_escape s), html_unescape (html_escape s)).
(* decoders on arbitrary text (compared with Python's expat / json / html decoders in the check) *)
Definition run_decode (s : bytes) := (xml_unescape s, json_unescape s, html_unescape s).
Definition show_holes := map (fun h => (h_tpl h, h_expr h, h_safe h, map origin_code (h_from h))) html_holes.
Definition run_breadcrumb (safe : bool) (p : option bytes) (parent : bytes) := breadcrumb safe p parent.
(* decoders on the real library output for one string: attribute value, string contents, text *)
Definition run_decode3 (x j h : bytes) := (xml_unescape x, json_unescape j, html_unescape h).
Definition run_start_tag (tag : bytes) (attrs : list (bytes * bytes)) := xml_start_tag tag attrs.
