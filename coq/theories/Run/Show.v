(* Entry points evaluated by the correspondence check (vm_compute), one per engine. *)
From Grcov Require Export Model.Merge.

Fixpoint eval_loop (cs : list cov) (t : bintree N) : cov :=
  match t with
  | Leaf i => nth (N.to_nat i) cs empty_cov
  | Node l r => merge_loop (eval_loop cs l) (eval_loop cs r)
  end.
Definition run_merge (cs : list cov_l) (t : bintree N) : cov_l :=
  cov_to_l (eval_loop (map cov_of_l cs) t).

From Grcov Require Export Model.Lcov Model.LcovOut.
(* outcome of a parser as (tag, results): 0 Ok, 1 Err, 2 Panic, 3 OutOfFuel *)
Definition show_results (o : outcome (list (name * cov))) : N * list (name * cov_l) :=
  match o with
  | Ok rs => (0, map (fun '(n, c) => (n, cov_to_l c)) rs)
  | Err => (1, [])
  | Panic => (2, [])
  | OutOfFuel => (3, [])
  end.
Definition run_lcov (b : bool) (bytes_ : bytes) := show_results (parse_lcov bytes_ b).
Definition results_of_l (rs : list (name * cov_l)) : list (name * cov) := map (fun '(n, c) => (n, cov_of_l c)) rs.
(* k round trips: bytes written at each round and the final parse *)
Fixpoint run_lcov_rt (k : nat) (b : bool) (rs : list (name * cov)) (outs : list bytes) : list bytes * outcome (list (name * cov)) :=
  match k with
  | O => (outs, Ok rs)
  | S k => let o := output_lcov rs in
           match parse_lcov o b with
           | Ok rs' => run_lcov_rt k b rs' (outs ++ [o])
           | e => (outs ++ [o], e)
           end
  end.
Definition run_rt (k : N) (b : bool) (rs : list (name * cov_l)) :=
  let '(outs, o) := run_lcov_rt (N.to_nat k) b (results_of_l rs) [] in (outs, show_results o).

From Grcov Require Export Model.LcovSpec.
(* a file given as records: rendered bytes, what the parser model makes of them, what the spec says *)
Definition run_lcov_spec (b : bool) (f : lfile) :=
  (render_file f, wf_file f, existsb KnownClass_fnda_first (l_sections f),
   show_results (parse_lcov (render_file f) b),
   map (fun s => (s_name s, cov_to_l (denote b (s_recs s).*1))) (l_sections f)).

From Grcov Require Export Model.Markers.
Definition show_ftype (f : ftype) : N * N :=
  match f with FLine n => (0, n) | FBranch n => (1, n) | FBoth n => (2, n) end.
Definition flags_of (t : bool * bool * bool * bool * bool * bool) : flags :=
  let '(a, b, c, d, e, f) := t in mkFlags a b c d e f.
Definition run_markers (en rd : bool) (ls : list (bool * bool * bool * bool * bool * bool)) (c : cov_l) :=
  let fs := create en rd (map flags_of ls) in
  (map show_ftype fs, cov_to_l (apply_filters fs (cov_of_l c))).

From Grcov Require Export Model.Pipeline.
(* trace validation: items 0..n-1 with their parse results (None = rejected by the parser) and faults
   (0 none, 1 reject, 2 die while parsing, 3 die under the lock); returns what the run of the label list gives *)
Definition fault_of (n : N) : fault_kind :=
  match n with 0 => FNone | 1 => FReject | 2 => FDieParse | _ => FDieLocked end.
Definition mk_cfg (nw cap_ : N) (keep : bool) (items : list (option (list (name * cov_l)) * N)) : cfg :=
  mkCfg (N.to_nat nw) (N.to_nat cap_) keep
        (fun i => match items !! N.to_nat i with Some (Some b, _) => Some (results_of_l b) | _ => None end)
        (fun i => match items !! N.to_nat i with Some (_, f) => fault_of f | None => FNone end).
Definition show_mst (m : mst) : N * N :=
  match m with MWaitProd => (0, 0) | MSendStop k => (1, N.of_nat k) | MJoinW j => (2, N.of_nat j) | MExit c => (3, c) end.
Definition show_wst (w : wst) : N :=
  match w with WIdle => 0 | WHolding _ => 1 | WParsed _ => 2 | WExited => 3 | WDead => 4 end.
Definition run_pipeline (nw cap_ : N) (keep : bool) (items : list (option (list (name * cov_l)) * N)) (ls : list label) :=
  let c := mk_cfg nw cap_ keep items in
  match run c (init c (map N.of_nat (seq 0 (length items)))) ls with
  | None => (false, (0, 0), [], [], [], [], [], false)
  | Some s => (true, show_mst (s_m s), map show_wst (s_w s), s_merged s, s_rejected s, s_lost s,
               map (fun '(n, cv) => (n, cov_to_l cv)) (map_to_list (s_acc s)),
               bool_decide (enabled c s = []))
  end.
(* first label of the list that is not enabled (for diagnostics) *)
Fixpoint run_prefix (c : cfg) (s : st) (ls : list label) (k : N) : N :=
  match ls with
  | [] => k
  | l :: ls => match step c s l with Some s' => run_prefix c s' ls (k + 1) | None => k end
  end.
Definition run_pipeline_prefix (nw cap_ : N) (keep : bool) (items : list (option (list (name * cov_l)) * N)) (ls : list label) :=
  let c := mk_cfg nw cap_ keep items in run_prefix c (init c (map N.of_nat (seq 0 (length items)))) ls 0.

(* file level: add_results over the concatenation of the batches (what the consumer loop does, one batch per item) *)
Definition run_addres (batches : list (list (name * cov_l))) : list (name * cov_l) :=
  map (fun '(n, c) => (n, cov_to_l c)) (map_to_list (add_results ∅ (concat (map results_of_l batches)))).
