(* Entry points evaluated by the correspondence check (vm_compute), one per engine. *)
From Grcov Require Import Model.Merge.

Fixpoint eval_loop (cs : list cov) (t : bintree N) : cov :=
  match t with
  | Leaf i => nth (N.to_nat i) cs empty_cov
  | Node l r => merge_loop (eval_loop cs l) (eval_loop cs r)
  end.
Definition run_merge (cs : list cov_l) (t : bintree N) : cov_l :=
  cov_to_l (eval_loop (map cov_of_l cs) t).
