(* Flow conservation on the arcs of a function after count_on_tree, and a witness that the ON_TREE arcs (with the
   virtual sink->source arc) form a forest: an order in which they can be peeled off leaf by leaf.
   Executable definitions only (evaluated by the C08 check on the model state after `stop`). *)
From Grcov Require Export Model.GcnoCount.

(* +1 if the arc enters v, -1 if it leaves v (0 for a self loop) *)
Definition coef (src dst v : N) : Z := ((if N.eqb dst v then 1 else 0) - (if N.eqb src v then 1 else 0))%Z.
(* inflow - outflow at block v *)
Definition net (edges : list gedge) (v : N) : Z :=
  fold_right (fun e acc => (Z.of_N (e_counter e) * coef (e_src e) (e_dst e) v + acc)%Z) 0%Z edges.
Definition conserving (nb : nat) (edges : list gedge) : bool :=
  forallb (fun v => Z.eqb (net edges v) 0) (count_from nb 0).

(* peeling order: list of (arc index, vertex).  Arc i is an ON_TREE arc that is not a self loop, v is one of its
   ends, and no arc peeled LATER touches v; every ON_TREE arc occurs in the order. *)
Definition touches (e : gedge) (v : N) : bool := (e_src e =? v) || (e_dst e =? v).
Fixpoint peel_steps_ok (edges : list gedge) (ord : list (nat * N)) : bool :=
  match ord with
  | [] => true
  | (i, v) :: rest =>
      match (edges !! i) with
      | None => false
      | Some e => is_on_tree e && negb (e_src e =? e_dst e) && touches e v &&
                  forallb (fun '(j, _) => match (edges !! j) with Some e' => negb (touches e' v) | None => false end) rest &&
                  peel_steps_ok edges rest
      end
  end.
Definition peel_ok (edges : list gedge) (ord : list (nat * N)) : bool :=
  peel_steps_ok edges ord &&
  forallb (fun k => match (edges !! k) with
                    | Some e => negb (is_on_tree e) || existsb (fun '(j, _) => Nat.eqb j k) ord
                    | None => true
                    end) (seq 0 (length edges)).

(* greedy search for a peeling order (not trusted: its result is checked by peel_ok) *)
Definition tree_degree (edges : list gedge) (live : list nat) (v : N) : nat :=
  length (List.filter (fun j => match (edges !! j) with Some e => touches e v | None => false end) live).
Fixpoint peel_search (fuel : nat) (edges : list gedge) (live : list nat) (acc : list (nat * N)) : option (list (nat * N)) :=
  match live with
  | [] => Some (rev acc)
  | _ =>
    match fuel with
    | O => None
    | S fuel =>
        let cand := List.find (fun j => match (edges !! j) with
                                        | Some e => negb (e_src e =? e_dst e) &&
                                                    ((Nat.eqb (tree_degree edges live (e_src e)) 1) || (Nat.eqb (tree_degree edges live (e_dst e)) 1))
                                        | None => false
                                        end) live in
        match cand with
        | None => None
        | Some j =>
            match (edges !! j) with
            | None => None
            | Some e =>
                let v := if Nat.eqb (tree_degree edges live (e_src e)) 1 then e_src e else e_dst e in
                peel_search fuel edges (List.filter (fun k => negb (Nat.eqb k j)) live) ((j, v) :: acc)
            end
        end
    end
  end.
Definition find_peel (edges : list gedge) : option (list (nat * N)) :=
  let live := List.filter (fun k => match (edges !! k) with Some e => is_on_tree e | None => false end) (seq 0 (length edges)) in
  peel_search (S (length edges)) edges live [].

(* per function after stop: (number of blocks, number of arcs, conserving?, ON_TREE arcs form a forest?) *)
Definition flow_report (g : gcno) : list (N * N * bool * bool) :=
  map (fun f => (lenN (f_blocks f), lenN (f_edges f), conserving (length (f_blocks f)) (f_edges f),
                 match find_peel (f_edges f) with Some ord => peel_ok (f_edges f) ord | None => false end)) (g_funs g).
Definition run_flow (gcno_buf : bytes) (gcdas : list bytes) : N * list (N * N * bool * bool) :=
  match (let* g := read_gcno gcno_buf in let* g1 := ofold (read_gcda wrap64) gcdas g in stop wrap64 g1) with
  | Ok g2 => (0, flow_report g2)
  | Err => (1, [])
  | Panic => (2, [])
  | OutOfFuel => (3, [])
  end.

(* ---- rooted-forest witness for flow recovery (C08_flow_recovery) ---- *)
Fixpoint sumc (c : N -> N) (l : list N) : N := match l with [] => 0 | x :: r => c x + sumc c r end.
Fixpoint countN (a : N) (l : list N) : nat := match l with [] => O | x :: r => ((if N.eqb x a then 1 else 0) + countN a r)%nat end.
(* sum over the elements different from the (optional) excluded arc *)
Fixpoint sumc_ex (c : N -> N) (ex : option N) (l : list N) : N :=
  match l with
  | [] => 0
  | x :: r => (if match ex with Some p => p =? x | None => false end then 0 else c x) + sumc_ex c ex r
  end.

Section forest_defs.
Context (edges0 : list gedge) (par : N -> option (N * N)).
Definition parc (b : N) : option N := fst <$> par b.
Definition tree0 (id : N) : bool := match nthN edges0 id with Some e => is_on_tree e | None => false end.
Definition nbr_s (id : N) : N := match nthN edges0 id with Some e => e_src e | None => 0 end.
Definition nbr_d (id : N) : N := match nthN edges0 id with Some e => e_dst e | None => 0 end.
(* incidences of a block as the algorithm sees them: (arc id, block at the other end) *)
Definition inc (blk : gblock) : list (N * N) :=
  map (fun id => (id, nbr_s id)) (b_src blk) ++ map (fun id => (id, nbr_d id)) (b_dst blk).
(* the arcs to children: ON_TREE and not the parent arc *)
Definition child_arc (b : N) (id : N) : bool :=
  tree0 id && negb (match parc b with Some p => p =? id | None => false end).

End forest_defs.

(* the witness as lists indexed by block number, and its executable check *)
Definition par_of (parl : list (option (N * N))) (b : N) : option (N * N) :=
  match nthN parl b with Some p => p | None => None end.
Definition rank_of (rankl : list nat) (b : N) : nat := default O (nthN rankl b).
Definition root_of (rootl : list N) (b : N) : N := default b (nthN rootl b).
Fixpoint nodupb (l : list N) : bool := match l with [] => true | x :: r => negb (memN x r) && nodupb r end.
Definition pair_mem (p : N * N) (l : list (N * N)) : bool := existsb (fun q => (q.1 =? p.1) && (q.2 =? p.2)) l.

Section rooted_check.
Context (blocks : list gblock) (edges : list gedge) (par : N -> option (N * N)) (rank : N -> nat) (rootof : N -> N).
Definition rooted_block_ok (b : N) (blk : gblock) : bool :=
  forallb (fun q => negb (child_arc edges par b q.1) ||
                    match par q.2 with Some (i, p) => (i =? q.1) && (p =? b) | None => false end) (inc edges blk)
  && nodupb (List.filter (child_arc edges par b) (map fst (inc edges blk)))
  && match par b with
     | Some (a, u) => tree0 edges a && (rank u <? rank b)%nat && (rootof b =? rootof u) && (rootof b <? b)
                      && Nat.eqb (countN a (b_src blk ++ b_dst blk)) 1
                      && match nthN blocks u with Some ublk => pair_mem (a, b) (inc edges ublk) | None => false end
     | None => rootof b =? b
     end.
Definition rooted_all : bool :=
  let idx := count_from (length blocks) 0 in
  forallb (fun b => match nthN blocks b with Some blk => rooted_block_ok b blk | None => false end) idx
  && forallb (fun x => forallb (fun y => match parc par x, parc par y with
                                         | Some a, Some a' => negb (a =? a') || (x =? y)
                                         | _, _ => true
                                         end) idx) idx
  && forallb (fun id => negb (tree0 edges id) ||
                        existsb (fun b => match parc par b with Some i => i =? id | None => false end) idx)
             (count_from (length edges) 0).
End rooted_check.
Definition rooted_b (blocks : list gblock) (edges : list gedge) (parl : list (option (N * N))) (rankl : list nat) (rootl : list N) : bool :=
  Nat.eqb (length parl) (length blocks) && Nat.eqb (length rootl) (length blocks)
  && rooted_all blocks edges (par_of parl) (rank_of rankl) (root_of rootl).

(* search for the witness: depth-first from every block in index order (not trusted: checked by rooted_b) *)
Definition wit : Type := list (option (N * N)) * list nat * list N * list N.   (* par, rank, root, visited *)
Fixpoint wit_dfs (fuel : nat) (blocks : list gblock) (edges : list gedge) (stack : list (N * option (N * N) * nat * N)) (w : wit) : wit :=
  match fuel with
  | O => w
  | S fuel =>
      match stack with
      | [] => w
      | (b, p, r, root) :: rest =>
          let '(parl, rankl, rootl, vis) := w in
          if memN b vis then wit_dfs fuel blocks edges rest w else
          match nthN blocks b with
          | None => wit_dfs fuel blocks edges rest w
          | Some blk =>
              let pa := match p with Some (a, _) => Some a | None => None end in
              let kids := List.filter (fun q => tree0 edges q.1 && negb (match pa with Some a => a =? q.1 | None => false end)) (inc edges blk) in
              let w' := (alterN (fun _ => p) b parl, alterN (fun _ => r) b rankl, alterN (fun _ => root) b rootl, b :: vis) in
              wit_dfs fuel blocks edges (map (fun q => (q.2, Some (q.1, b), S r, root)) kids ++ rest) w'
          end
      end
  end.
Definition find_rooted (blocks : list gblock) (edges : list gedge) : list (option (N * N)) * list nat * list N :=
  let n := length blocks in
  let idx := count_from n 0 in
  let w0 : wit := (map (fun _ => None) idx, map (fun _ => O) idx, idx, []) in
  let '(p, r, t, _) := wit_dfs (2 * length edges + 2 * n + 4) blocks edges (map (fun b => (b, None, O, b)) idx) w0 in
  (p, r, t).

(* out-flow of block b by arc ends: all arcs / measured arcs only / ON_TREE arcs only, summing the arcs' own counters *)
Definition osum (p : gedge -> bool) (edges : list gedge) (b : N) : N :=
  fold_right (fun e acc => (if p e && (e_src e =? b) then e_counter e else 0) + acc) 0 edges.
Definition any_arc (e : gedge) : bool := true.
Definition measured (e : gedge) : bool := negb (is_on_tree e).
(* the state read_gcda leaves: every block counter is the sum of its measured outgoing arcs (checked per input) *)
Definition blocks_consistent (blocks : list gblock) (edges : list gedge) : bool :=
  forallb (fun b => match nthN blocks b with Some blk => b_counter blk =? osum measured edges b | None => false end)
          (count_from (length blocks) 0).

(* conservation as the algorithm sees it: per block, the counters over its incoming list and over its outgoing list *)
Definition cnt_of (edges : list gedge) (id : N) : N := match nthN edges id with Some e => e_counter e | None => 0 end.
Definition conserving_adj (blocks : list gblock) (edges : list gedge) : bool :=
  forallb (fun blk => (sumc (cnt_of edges) (b_src blk) =? sumc (cnt_of edges) (b_dst blk)) && (sumc (cnt_of edges) (b_src blk) <? two64)) blocks.
(* per function: does the graph count_on_tree works on (before counting) have a rooted-forest witness, and are its
   block counters the sums of their measured outgoing arcs?  (hypotheses of C08_flow_recovery / _blocks) *)
Definition rooted_report (version : N) (f : gfun) : bool :=
  if lenN (f_blocks f) <? 2 then true else
  match push_arc (f_blocks f) (f_edges f) (if version <? 48 then lenN (f_blocks f) - 1 else 1) 0 ARC_ON_TREE with
  | Ok (blocks, edges) => let '(p, r, t) := find_rooted blocks edges in rooted_b blocks edges p r t && blocks_consistent blocks edges
  | _ => false
  end.
(* (blocks, arcs, conserving by arc ends, peel order found, conserving by adjacency lists + sums < 2^64, rooted witness found) *)
Definition run_flow2 (gcno_buf : bytes) (gcdas : list bytes) : N * list (N * N * bool * bool * bool * bool) :=
  match (let* g := read_gcno gcno_buf in ofold (read_gcda wrap64) gcdas g) with
  | Ok g1 =>
      match stop wrap64 g1 with
      | Ok g2 => (0, map (fun '(f1, f2) =>
                            (lenN (f_blocks f2), lenN (f_edges f2), conserving (length (f_blocks f2)) (f_edges f2),
                             match find_peel (f_edges f2) with Some ord => peel_ok (f_edges f2) ord | None => false end,
                             conserving_adj (f_blocks f2) (f_edges f2), rooted_report (g_version g1) f1))
                         (zip (g_funs g1) (g_funs g2)))
      | Err => (1, []) | Panic => (2, []) | OutOfFuel => (3, [])
      end
  | Err => (1, []) | Panic => (2, []) | OutOfFuel => (3, [])
  end.


(* ---- executable "nothing overflows" (hypothesis of C15_k_copies_scale_wrap), evaluated in exact arithmetic ---- *)
Definition exact_add (x : N) : N := x.
Definition total_count (edges : list gedge) : N := fold_right (fun e acc => e_counter e + acc) 0 edges.
Definition flow_ok_b (version : N) (f : gfun) : bool :=
  if lenN (f_blocks f) <? 2 then true else
  match push_arc (f_blocks f) (f_edges f) (if version <? 48 then lenN (f_blocks f) - 1 else 1) 0 ARC_ON_TREE with
  | Ok (blocks, edges) =>
      match count_on_tree exact_add version f with
      | Ok f' =>
          let c := cnt_of (f_edges f') in
          let '(p, r, t) := find_rooted blocks edges in
          rooted_b blocks edges p r t
          && forallb (fun id => match nthN edges id with Some e => is_on_tree e || (e_counter e =? c id) | None => true end)
                     (count_from (length edges) 0)
          && forallb (fun blk => (sumc c (b_src blk) =? sumc c (b_dst blk)) && (sumc c (b_src blk) <? two64)) blocks
          && blocks_consistent blocks edges
          && (total_count (f_edges f') <? two64)
      | _ => false
      end
  | _ => false
  end.
Definition cbounded_b (g : gcno) : bool :=
  forallb (fun f => forallb (fun e => e_counter e <? two64) (f_edges f) && forallb (fun b => b_counter b <? two64) (f_blocks f)) (g_funs g).
Definition single_block_lines_b (f : gfun) : bool :=
  forallb (fun p => Nat.eqb (length p.2) 1) (map_to_list (lines_to_block (f_blocks f))).
Definition lines_bounded_b (r : gmap name cov) : bool :=
  forallb (fun p => forallb (fun q => q.2 <? two64) (map_to_list (c_lines p.2))) (map_to_list r).
Definition no_overflow_b (gcno_buf : bytes) (ds : list bytes) (br : bool) : bool :=
  match read_gcno gcno_buf with
  | Ok g0 =>
      match ofold (read_gcda exact_add) ds g0 with
      | Ok g1 =>
          match stop exact_add g1 with
          | Ok g2 =>
              match finalize exact_add N.sub br g2 with
              | Ok re => cbounded_b g1 && forallb (flow_ok_b (g_version g1)) (g_funs g1)
                         && forallb single_block_lines_b (g_funs g2) && lines_bounded_b re
              | _ => true
              end
          | _ => true
          end
      | _ => true
      end
  | _ => true
  end.
