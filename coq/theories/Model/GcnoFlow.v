(* Flow conservation on the arcs of a function after count_on_tree, and a witness that the ON_TREE arcs (with the
   virtual sink->source arc) form a forest: an order in which they can be peeled off leaf by leaf.
   Executable definitions only (evaluated by the C08 check on the model state after `stop`). *)
From Grcov Require Export Model.GcnoCount.

(* +1 if the arc enters v, -1 if it leaves v (0 for a self loop) *)
Definition coef (src dst v : N) : Z := ((if N.eqb dst v then 1 else 0) - (if N.eqb src v then 1 else 0))%Z.
(* inflow - outflow at block v *)
Definition net (edges : list gedge) (v : N) : Z :=
  fold_right (fun e acc => (Z.of_N (e_counter e) * coef (e_src e) (e_dst e) v + acc)%Z) 0%Z edges.
Definition conserving (nb : nat) (edges : list gedge) : bool :=
  forallb (fun v => Z.eqb (net edges v) 0) (count_from nb 0).

(* peeling order: list of (arc index, vertex).  Arc i is an ON_TREE arc that is not a self loop, v is one of its
   ends, and no arc peeled LATER touches v; every ON_TREE arc occurs in the order. *)
Definition touches (e : gedge) (v : N) : bool := (e_src e =? v) || (e_dst e =? v).
Fixpoint peel_steps_ok (edges : list gedge) (ord : list (nat * N)) : bool :=
  match ord with
  | [] => true
  | (i, v) :: rest =>
      match (edges !! i) with
      | None => false
      | Some e => is_on_tree e && negb (e_src e =? e_dst e) && touches e v &&
                  forallb (fun '(j, _) => match (edges !! j) with Some e' => negb (touches e' v) | None => false end) rest &&
                  peel_steps_ok edges rest
      end
  end.
Definition peel_ok (edges : list gedge) (ord : list (nat * N)) : bool :=
  peel_steps_ok edges ord &&
  forallb (fun k => match (edges !! k) with
                    | Some e => negb (is_on_tree e) || existsb (fun '(j, _) => Nat.eqb j k) ord
                    | None => true
                    end) (seq 0 (length edges)).

(* greedy search for a peeling order (not trusted: its result is checked by peel_ok) *)
Definition tree_degree (edges : list gedge) (live : list nat) (v : N) : nat :=
  length (List.filter (fun j => match (edges !! j) with Some e => touches e v | None => false end) live).
Fixpoint peel_search (fuel : nat) (edges : list gedge) (live : list nat) (acc : list (nat * N)) : option (list (nat * N)) :=
  match live with
  | [] => Some (rev acc)
  | _ =>
    match fuel with
    | O => None
    | S fuel =>
        let cand := List.find (fun j => match (edges !! j) with
                                        | Some e => negb (e_src e =? e_dst e) &&
                                                    ((Nat.eqb (tree_degree edges live (e_src e)) 1) || (Nat.eqb (tree_degree edges live (e_dst e)) 1))
                                        | None => false
                                        end) live in
        match cand with
        | None => None
        | Some j =>
            match (edges !! j) with
            | None => None
            | Some e =>
                let v := if Nat.eqb (tree_degree edges live (e_src e)) 1 then e_src e else e_dst e in
                peel_search fuel edges (List.filter (fun k => negb (Nat.eqb k j)) live) ((j, v) :: acc)
            end
        end
    end
  end.
Definition find_peel (edges : list gedge) : option (list (nat * N)) :=
  let live := List.filter (fun k => match (edges !! k) with Some e => is_on_tree e | None => false end) (seq 0 (length edges)) in
  peel_search (S (length edges)) edges live [].

(* per function after stop: (number of blocks, number of arcs, conserving?, ON_TREE arcs form a forest?) *)
Definition flow_report (g : gcno) : list (N * N * bool * bool) :=
  map (fun f => (lenN (f_blocks f), lenN (f_edges f), conserving (length (f_blocks f)) (f_edges f),
                 match find_peel (f_edges f) with Some ord => peel_ok (f_edges f) ord | None => false end)) (g_funs g).
Definition run_flow (gcno_buf : bytes) (gcdas : list bytes) : N * list (N * N * bool * bool) :=
  match (let* g := read_gcno gcno_buf in let* g1 := ofold (read_gcda wrap64) gcdas g in stop wrap64 g1) with
  | Ok g2 => (0, flow_report g2)
  | Err => (1, [])
  | Panic => (2, [])
  | OutOfFuel => (3, [])
  end.
