(* C18: the three escapers grcov's report writers go through, byte level (UTF-8 bytes as list N),
   an independent decoder for each written from the respective standard, and tokenizer-level
   skeletons of the three contexts (markup text / attribute value, JSON string).

   Escapers (transcribed from the library sources grcov links):
     xml_escape   quick-xml 0.37.4 src/escape.rs `escape` (used by `BytesStart::push_attribute((&str,&str))`
                  and `BytesText::new`, i.e. every name cobertura.rs writes)
     json_escape  serde_json 1.0.140 src/ser.rs `format_escaped_str_contents` + table ESCAPE + `write_char_escape`
                  (every string of the Coveralls, covdir, ActiveData and coverage.json outputs)
     html_escape  tera 1.20.0 src/utils.rs `escape_html` (every `{{ expr }}` of a *.html template whose last filter
                  is not `safe`; renderer/processor.rs:444)
   All three work byte-wise on ASCII metacharacters and copy every other byte (in particular every byte
   >= 0x80 of a multi-byte UTF-8 sequence), which is why a byte-level model is exact.

   Decoders (NOT transcriptions of library code):
     xml_unescape   XML 1.0 (5th ed.) 2.3 AttValue / 2.4 CharData, 4.1 CharRef + EntityRef, 4.6 predefined entities
     json_unescape  RFC 8259 section 7
     html_unescape  HTML Living Standard 13.1.4 character references, restricted to the named references
                    amp lt gt quot apos and numeric references
   They are strict: anything the standard calls an error (raw delimiter, unknown or unterminated reference,
   raw control byte in JSON, lone surrogate) is None.  A successful decode therefore also says that the
   text contains no raw delimiter of its context. *)
From Grcov Require Export Base.Dec.

(* ---------- numbers and UTF-8 ---------- *)
Definition hex_digit_val (c : N) : option N :=
  if (48 <=? c) && (c <=? 57) then Some (c - 48)
  else if (97 <=? c) && (c <=? 102) then Some (c - 87)
  else if (65 <=? c) && (c <=? 70) then Some (c - 55)
  else None.
Definition dec_digit_val (c : N) : option N :=
  if (48 <=? c) && (c <=? 57) then Some (c - 48) else None.
Fixpoint digits_val (dv : N -> option N) (base : N) (acc : N) (ds : bytes) : option N :=
  match ds with
  | [] => Some acc
  | d :: ds => match dv d with Some v => digits_val dv base (acc * base + v) ds | None => None end
  end.
(* at least one digit *)
Definition number_val (dv : N -> option N) (base : N) (ds : bytes) : option N :=
  match ds with [] => None | _ => digits_val dv base 0 ds end.

(* UTF-8 encoding of a Unicode scalar value (RFC 3629); surrogates and values above 10FFFF have none *)
Definition utf8_encode (cp : N) : option bytes :=
  if cp <? 128 then Some [cp]
  else if cp <? 2048 then Some [192 + cp / 64; 128 + cp mod 64]
  else if cp <? 65536 then
    (if (55296 <=? cp) && (cp <=? 57343) then None
     else Some [224 + cp / 4096; 128 + (cp / 64) mod 64; 128 + cp mod 64])
  else if cp <? 1114112 then
    Some [240 + cp / 262144; 128 + (cp / 4096) mod 64; 128 + (cp / 64) mod 64; 128 + cp mod 64]
  else None.

(* ---------- escapers ---------- *)
(* quick-xml `escape`: the closure matches < > & apostrophe and double quote; the match arm table gives the replacement.
   Entity name without the leading & and trailing ; *)
Definition xml_ent (b : N) : option bytes :=
  if b =? 60 then Some [108; 116]                      (* <  lt   *)
  else if b =? 62 then Some [103; 116]                 (* >  gt   *)
  else if b =? 39 then Some [97; 112; 111; 115]        (* '  apos *)
  else if b =? 38 then Some [97; 109; 112]             (* &  amp  *)
  else if b =? 34 then Some [113; 117; 111; 116]       (* dq quot *)
  else None.
(* tera `escape_html` *)
Definition html_ent (b : N) : option bytes :=
  if b =? 38 then Some [97; 109; 112]                  (* &  amp  *)
  else if b =? 60 then Some [108; 116]                 (* <  lt   *)
  else if b =? 62 then Some [103; 116]                 (* >  gt   *)
  else if b =? 34 then Some [113; 117; 111; 116]       (* dq quot *)
  else if b =? 39 then Some [35; 120; 50; 55]          (* '  #x27 *)
  else if b =? 47 then Some [35; 120; 50; 70]          (* /  #x2F *)
  else None.
Definition esc_unit (ent : N -> option bytes) (b : N) : bytes :=
  match ent b with Some n => 38 :: n ++ [59] | None => [b] end.
Definition xml_escape (s : bytes) : bytes := flat_map (esc_unit xml_ent) s.
Definition html_escape (s : bytes) : bytes := flat_map (esc_unit html_ent) s.

(* serde_json: ESCAPE[byte] and write_char_escape; HEX_DIGITS is lower case *)
Definition hex_digit (d : N) : N := if d <? 10 then 48 + d else 87 + d.
Definition json_esc_byte (b : N) : bytes :=
  if b =? 34 then [92; 34]
  else if b =? 92 then [92; 92]
  else if b <? 32 then
    (if b =? 8 then [92; 98] else if b =? 9 then [92; 116] else if b =? 10 then [92; 110]
     else if b =? 12 then [92; 102] else if b =? 13 then [92; 114]
     else [92; 117; 48; 48; hex_digit (b / 16); hex_digit (b mod 16)])
  else [b].
Definition json_escape (s : bytes) : bytes := flat_map json_esc_byte s.
(* serde_json::to_string(&str): begin_string / contents / end_string *)
Definition json_string (s : bytes) : bytes := 34 :: json_escape s ++ [34].

(* ---------- decoders ---------- *)
(* References `&name;`: a scanner with the name collected so far (reversed) as state.
   [named] gives the replacement text of a reference name, [forbidden] the bytes that may not occur raw. *)
Section Ref.
  Variable named : bytes -> option bytes.
  Variable forbidden : N -> bool.
  Fixpoint ref_go (st : option bytes) (s : bytes) : option bytes :=
    match s with
    | [] => match st with None => Some [] | Some _ => None end
    | b :: r =>
        match st with
        | None =>
            if b =? 38 then ref_go (Some []) r
            else if forbidden b then None
            else option_map (cons b) (ref_go None r)
        | Some acc =>
            if b =? 59 then
              match named (rev acc) with
              | Some e => option_map (app e) (ref_go None r)
              | None => None
              end
            else ref_go (Some (b :: acc)) r
        end
    end.
End Ref.

(* XML 1.0 production [2] Char *)
Definition xml_char (cp : N) : bool :=
  (cp =? 9) || (cp =? 10) || (cp =? 13) || ((32 <=? cp) && (cp <=? 55295))
  || ((57344 <=? cp) && (cp <=? 65533)) || ((65536 <=? cp) && (cp <=? 1114111)).
Definition char_ref (ok : N -> bool) (n : bytes) : option bytes :=
  match n with
  | 35 :: 120 :: h => match number_val hex_digit_val 16 h with
                      | Some cp => if ok cp then utf8_encode cp else None
                      | None => None end
  | 35 :: d => match number_val dec_digit_val 10 d with
               | Some cp => if ok cp then utf8_encode cp else None
               | None => None end
  | _ => None
  end.
Definition bytes_eqb (a b : bytes) : bool := bool_decide (a = b).
Definition xml_named (n : bytes) : option bytes :=
  if bytes_eqb n [108; 116] then Some [60]
  else if bytes_eqb n [103; 116] then Some [62]
  else if bytes_eqb n [97; 109; 112] then Some [38]
  else if bytes_eqb n [97; 112; 111; 115] then Some [39]
  else if bytes_eqb n [113; 117; 111; 116] then Some [34]
  else char_ref xml_char n.
(* content of an attribute value (either quote) or character data: no raw < & and neither quote *)
Definition xml_forbidden (b : N) : bool := (b =? 60) || (b =? 34) || (b =? 39).
Definition xml_unescape : bytes -> option bytes := ref_go xml_named xml_forbidden None.

(* HTML: numeric references to 0, surrogates, and > 10FFFF are parse errors (None here) *)
Definition html_char (cp : N) : bool := (0 <? cp) && (cp <=? 1114111).
Definition html_named (n : bytes) : option bytes :=
  if bytes_eqb n [97; 109; 112] then Some [38]
  else if bytes_eqb n [108; 116] then Some [60]
  else if bytes_eqb n [103; 116] then Some [62]
  else if bytes_eqb n [113; 117; 111; 116] then Some [34]
  else if bytes_eqb n [97; 112; 111; 115] then Some [39]
  else char_ref html_char n.
(* text, or an attribute value in either quote: no raw < > or either quote (and & only as a reference) *)
Definition html_forbidden (b : N) : bool := (b =? 60) || (b =? 62) || (b =? 34) || (b =? 39).
Definition html_unescape : bytes -> option bytes := ref_go html_named html_forbidden None.

(* RFC 8259 section 7: string contents *)
Definition json_simple_escape (c : N) : option N :=
  if c =? 34 then Some 34 else if c =? 92 then Some 92 else if c =? 47 then Some 47
  else if c =? 98 then Some 8 else if c =? 102 then Some 12 else if c =? 110 then Some 10
  else if c =? 114 then Some 13 else if c =? 116 then Some 9 else None.
Fixpoint json_unescape (s : bytes) : option bytes :=
  match s with
  | [] => Some []
  | b :: r =>
      if b =? 92 then
        match r with
        | [] => None
        | c :: r1 =>
            if c =? 117 then
              match r1 with
              | h1 :: h2 :: h3 :: h4 :: r2 =>
                  (* a BMP scalar value; surrogate halves (pairs) are not produced by the writer and are None *)
                  match digits_val hex_digit_val 16 0 [h1; h2; h3; h4] with
                  | Some cp => match utf8_encode cp with
                               | Some e => option_map (app e) (json_unescape r2)
                               | None => None end
                  | None => None
                  end
              | _ => None
              end
            else match json_simple_escape c with
                 | Some x => option_map (cons x) (json_unescape r1)
                 | None => None
                 end
        end
      else if (b =? 34) || (b <? 32) then None
      else option_map (cons b) (json_unescape r)
  end.

(* ---------- tokenizer level: the skeleton of a document ---------- *)
(* A deterministic byte scanner emitting skeleton tokens. *)
Section Machine.
  Context {St Tok : Type}.
  Variable step : St -> N -> St * list Tok.
  Fixpoint run (st : St) (s : bytes) : St * list Tok :=
    match s with
    | [] => (st, [])
    | b :: r => let '(st1, t1) := step st b in let '(st2, t2) := run st1 r in (st2, t1 ++ t2)
    end.
  Definition tokens (st : St) (s : bytes) : list Tok := snd (run st s).
  Definition state_after (st : St) (s : bytes) : St := fst (run st s).
End Machine.

(* Markup (XML and HTML alike at this level): text, inside a tag, inside a quoted attribute value.
   The skeleton is every byte of every tag outside attribute values plus the tag and quote delimiters;
   text and attribute values are blanked. *)
Inductive mstate := MText | MTag | MAttrD | MAttrS.
Inductive mtok := TOpen | TClose | TQuote | TRaw (b : N).
Definition mstep (st : mstate) (b : N) : mstate * list mtok :=
  match st with
  | MText => if b =? 60 then (MTag, [TOpen]) else (MText, [])
  | MTag => if b =? 62 then (MText, [TClose])
            else if b =? 34 then (MAttrD, [TQuote])
            else if b =? 39 then (MAttrS, [TQuote])
            else (MTag, [TRaw b])
  | MAttrD => if b =? 34 then (MTag, [TQuote]) else (MAttrD, [])
  | MAttrS => if b =? 39 then (MTag, [TQuote]) else (MAttrS, [])
  end.
Definition m_hole (st : mstate) : bool := match st with MTag => false | _ => true end.

(* JSON: outside a string every byte is skeleton; string contents are blanked *)
Inductive jstate := JOut | JStr | JStrEsc.
Inductive jtok := JBegin | JEnd | JRaw (b : N).
Definition jstep (st : jstate) (b : N) : jstate * list jtok :=
  match st with
  | JOut => if b =? 34 then (JStr, [JBegin]) else (JOut, [JRaw b])
  | JStr => if b =? 92 then (JStrEsc, []) else if b =? 34 then (JOut, [JEnd]) else (JStr, [])
  | JStrEsc => (JStr, [])
  end.
Definition j_hole (st : jstate) : bool := match st with JStr => true | _ => false end.

(* End of a hole: the scanner that looks for the first raw delimiter.  [scan_to d s] = (before, from d on) *)
Fixpoint scan_to (d : N -> bool) (s : bytes) : bytes * bytes :=
  match s with
  | [] => ([], [])
  | b :: r => if d b then ([], s) else let '(a, z) := scan_to d r in (b :: a, z)
  end.
(* JSON string end: first unescaped quote *)
Fixpoint json_scan (s : bytes) : bytes * bytes :=
  match s with
  | [] => ([], [])
  | b :: r =>
      if b =? 34 then ([], s)
      else if b =? 92 then
        match r with
        | [] => ([b], [])
        | c :: r1 => let '(a, z) := json_scan r1 in (b :: c :: a, z)
        end
      else let '(a, z) := json_scan r in (b :: a, z)
  end.

(* the delimiters of the markup contexts, and: every & starts one of the references in [names] *)
Definition markup_meta (b : N) : bool := (b =? 60) || (b =? 62) || (b =? 34) || (b =? 39).
Fixpoint starts_with (p s : bytes) : bool :=
  match p, s with
  | [], _ => true
  | a :: p, b :: s => (a =? b) && starts_with p s
  | _, _ => false
  end.
Fixpoint amp_ok (names : list bytes) (s : bytes) : bool :=
  match s with
  | [] => true
  | b :: r => (if b =? 38 then existsb (fun n => starts_with (n ++ [59]) r) names else true) && amp_ok names r
  end.
Definition xml_names : list bytes := [[108; 116]; [103; 116]; [97; 112; 111; 115]; [97; 109; 112]; [113; 117; 111; 116]].
Definition html_names : list bytes := [[97; 109; 112]; [108; 116]; [103; 116]; [113; 117; 111; 116]; [35; 120; 50; 55]; [35; 120; 50; 70]].

(* A report as fixed text with holes.  [Hole s] is rendered through the context's escaper,
   [RawHole s] is pasted as is (Tera's `| safe`). *)
Inductive piece := Fixed (b : bytes) | Hole (s : bytes) | RawHole (s : bytes).
Definition render (esc : bytes -> bytes) (ps : list piece) : bytes :=
  flat_map (fun p => match p with Fixed b => b | Hole s => esc s | RawHole s => s end) ps.
Definition same_piece (p q : piece) : bool :=
  match p, q with
  | Fixed a, Fixed b => bytes_eqb a b
  | Hole _, Hole _ => true
  | RawHole a, RawHole b => bytes_eqb a b       (* a raw hole must carry the same text *)
  | _, _ => false
  end.
Fixpoint same_shape (ps qs : list piece) : bool :=
  match ps, qs with
  | [], [] => true
  | p :: ps, q :: qs => same_piece p q && same_shape ps qs
  | _, _ => false
  end.
(* every escaped hole sits where the scanner is in a hole state *)
Section Placed.
  Context {St Tok : Type}.
  Variable step : St -> N -> St * list Tok.
  Variable hole : St -> bool.
  Fixpoint well_placed (st : St) (ps : list piece) : bool :=
    match ps with
    | [] => true
    | Fixed b :: ps => well_placed (state_after step st b) ps
    | Hole _ :: ps => hole st && well_placed st ps
    | RawHole s :: ps => well_placed (state_after step st s) ps
    end.
End Placed.

(* quick-xml BytesStart::push_attribute((key, value)) and the Writer: ` key="escaped value"` appended to the tag *)
Definition xml_attr (kv : bytes * bytes) : bytes := 32 :: fst kv ++ [61; 34] ++ xml_escape (snd kv) ++ [34].
Definition xml_start_tag (tag : bytes) (attrs : list (bytes * bytes)) : bytes := 60 :: tag ++ flat_map xml_attr attrs ++ [62].
Definition plain_name (n : bytes) : bool := forallb (fun c => negb (markup_meta c)) n.
Definition attr_toks (k : bytes) : list mtok := TRaw 32 :: map TRaw k ++ [TRaw 61; TQuote; TQuote].

(* ---------- the HTML templates' holes (src/templates/*.html), and what feeds them ---------- *)
(* origin of the data an expression can carry *)
Inductive origin :=
  | OConst      (* literal of the template or of html.rs (top_level, ../, index.html, Directory) *)
  | OOption     (* command line / environment / config value: --abs-link-prefix, BULMA_VERSION, --precision *)
  | ONumber     (* a count, line number, percentage or date computed by grcov *)
  | OMacro      (* output of a macro of macros.html: already-rendered markup *)
  | OName       (* a file or directory name of the report *)
  | OSource.    (* a line of a source file *)
Definition origin_code (o : origin) : N :=
  match o with OConst => 0 | OOption => 1 | ONumber => 2 | OMacro => 3 | OName => 4 | OSource => 5 end.
Record hole_info := mkHole { h_tpl : bytes; h_expr : bytes; h_safe : bool; h_from : list origin }.
Import Coq.Strings.String.StringSyntax.
Definition H (t e : String.string) (safe : bool) (f : list origin) := mkHole (bs t) (bs e) safe f.
Arguments H t%string_scope e%string_scope safe f.
(* one entry per distinct (template, expression text) pair; the check extracts the same list from the
   template files on every run.  `parent.0` (marked `safe` until fix 6a2db8b, defect F13): html.rs gen_html builds it from --abs-link-prefix joined with
   the directory of the file when the prefix is given (../index.html or ./index.html otherwise). *)
Definition html_holes : list hole_info :=
  [ H "base.html" "bulma_url | safe" true [OConst; OOption];
    H "base.html" "date | date(format=""%Y-%m-%d %H:%M"")" false [ONumber];
    H "file.html" "current" false [OName];
    H "file.html" "macros::summary(parents=parents, stats=stats, precision=precision)" false [OMacro];
    H "file.html" "item.0" false [ONumber];
    H "file.html" "highlight_light" false [OConst];
    H "file.html" "highlight" false [OConst];
    H "file.html" "aria_label" false [OConst; ONumber];
    H "file.html" "count" false [OConst; ONumber];
    H "file.html" "item.2" false [OSource];
    H "index.html" "current" false [OConst; OName];
    H "index.html" "macros::summary(parents=parents, stats=stats, precision=precision)" false [OMacro];
    H "index.html" "kind" false [OConst];
    H "index.html" "macros::stats_line(name=item, url=info.abs_prefix~item~""/index.html"", stats=info.stats, precision=precision)" false [OMacro];
    H "index.html" "macros::stats_line(name=item, url=item~""/index.html"", stats=info.stats, precision=precision)" false [OMacro];
    H "index.html" "macros::stats_line(name=item, url=info.abs_prefix~""/""~item~"".html"", stats=info.stats, precision=precision)" false [OMacro];
    H "index.html" "macros::stats_line(name=item, url=item~"".html"", stats=info.stats, precision=precision)" false [OMacro];
    H "macros.html" "kind | capitalize" false [OConst];
    H "macros.html" "per | severity(kind=kind)" false [OConst];
    H "macros.html" "covered" false [ONumber];
    H "macros.html" "total" false [ONumber];
    H "macros.html" "per | round(precision=precision)" false [ONumber];
    H "macros.html" "parent.0" false [OConst; OOption; OName];
    H "macros.html" "parent.1" false [OConst; OName];
    H "macros.html" "current" false [OConst; OName];
    H "macros.html" "self::summary_line(kind=""lines"", covered=stats.covered_lines, total=stats.total_lines, precision=precision)" false [OMacro];
    H "macros.html" "self::summary_line(kind=""functions"", covered=stats.covered_funs, total=stats.total_funs, precision=precision)" false [OMacro];
    H "macros.html" "self::summary_line(kind=""branches"", covered=stats.covered_branches, total=stats.total_branches, precision=precision)" false [OMacro];
    H "macros.html" "url" false [OOption; OName];
    H "macros.html" "name" false [OName];
    H "macros.html" "lines_sev" false [OConst];
    H "macros.html" "lines_per" false [ONumber];
    H "macros.html" "lines_per | round(precision=precision)" false [ONumber];
    H "macros.html" "stats.covered_lines" false [ONumber];
    H "macros.html" "stats.total_lines" false [ONumber];
    H "macros.html" "functions_sev" false [OConst];
    H "macros.html" "functions_per | round(precision=precision)" false [ONumber];
    H "macros.html" "stats.covered_funs" false [ONumber];
    H "macros.html" "stats.total_funs" false [ONumber];
    H "macros.html" "branches_sev" false [OConst];
    H "macros.html" "branches_per | round(precision=precision)" false [ONumber];
    H "macros.html" "stats.covered_branches" false [ONumber];
    H "macros.html" "stats.total_branches" false [ONumber] ].
Definition untrusted (o : origin) : bool := match o with OName | OSource => true | _ => false end.
(* the hole is rendered without escaping: marked safe, or a macro call (Tera never escapes those) *)
Definition unescaped (h : hole_info) : bool := h_safe h || existsb (fun o => match o with OMacro => true | _ => false end) (h_from h).
(* the breadcrumb entry of macros.html:16 as Tera renders it, and the link html.rs:434-450 puts in it *)
Definition parent_link (abs_prefix : option bytes) (parent : bytes) : bytes :=
  match abs_prefix with
  (* PathBuf::from(prefix).join(parent).push(index.html); prefix without trailing slash, parent relative *)
  | Some p => p ++ [47] ++ (match parent with [] => [] | _ => parent ++ [47] end) ++ bs "index.html"
  | None => bs "./index.html"
  end.
Definition breadcrumb_pieces (safe : bool) (link label : bytes) : list piece :=
  [Fixed (bs "<li><a href="""); (if safe then RawHole link else Hole link); Fixed (bs """>"); Hole label; Fixed (bs "</a></li>")].
Definition breadcrumb (safe : bool) (abs_prefix : option bytes) (parent : bytes) : bytes :=
  render html_escape (breadcrumb_pieces safe (parent_link abs_prefix parent) parent).
