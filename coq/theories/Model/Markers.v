(* Exclusion markers: FileFilter::create (src/file_filter.rs:39-110, after the fix commit)
   and their application to a record (src/path_rewriting.rs:373-386).
   Regex matching is the regex crate's: a source line enters the model as six booleans
   (does the configured regex of each kind match it; false when the option is absent). *)
From Grcov Require Export Model.Cov.

Record flags := mkFlags {
  m_line : bool; m_start : bool; m_stop : bool;
  m_brline : bool; m_brstart : bool; m_brstop : bool
}.
Inductive ftype := FLine (n : N) | FBranch (n : N) | FBoth (n : N).

(* the closure of filter_map, with its two captured mutable flags; number is 1-based *)
Fixpoint create_loop (ignore_br ignore : bool) (number : N) (ls : list flags) : list ftype :=
  match ls with
  | [] => []
  | f :: ls =>
      let ignore_br := if ignore_br && m_brstop f then false else ignore_br in
      let ignore := if ignore && m_stop f then false else ignore in
      let ignore_br := if negb ignore_br && m_brstart f then true else ignore_br in
      let ignore := if negb ignore && m_start f then true else ignore in
      let skip_line := ignore || m_line f in
      let skip_branch := ignore_br || m_brline f in
      (match skip_line, skip_branch with
       | true, true => [FBoth number]
       | true, false => [FLine number]
       | false, true => [FBranch number]
       | false, false => []
       end) ++ create_loop ignore_br ignore (number + 1) ls
  end.

(* [enabled]: one of excl_line / excl_start / excl_br_line / excl_br_start is configured;
   [readable]: read_to_string succeeded *)
Definition create (enabled readable : bool) (ls : list flags) : list ftype :=
  if enabled && readable then create_loop false false 1 ls else [].

Definition apply_filter (c : cov) (f : ftype) : cov :=
  match f with
  | FBoth n => mkCov (delete n (c_lines c)) (delete n (c_branches c)) (c_funcs c)
  | FLine n => mkCov (delete n (c_lines c)) (c_branches c) (c_funcs c)
  | FBranch n => mkCov (c_lines c) (delete n (c_branches c)) (c_funcs c)
  end.
Definition apply_filters (fs : list ftype) (c : cov) : cov := foldl apply_filter c fs.

(* --- the property's own wording --- *)
(* line index i (0-based; source line i+1) lies in a region: some line s <= i matches the start
   marker and no line in (s, i] matches the stop marker *)
Definition in_region (start stop : flags -> bool) (ls : list flags) (i : nat) : Prop :=
  exists s : nat, (s <= i)%nat /\ (start <$> ls !! s) = Some true /\
                  forall k : nat, (s < k <= i)%nat -> (stop <$> ls !! k) <> Some true.
Definition excluded (single start stop : flags -> bool) (ls : list flags) (i : nat) : Prop :=
  (single <$> ls !! i) = Some true \/ in_region start stop ls i.
