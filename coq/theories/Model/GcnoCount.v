(* src/reader.rs, counting half: count_on_tree / propagate_counts (stop), add_line_count, get_line_count,
   get_cycles_count / look_for_circuit / unblock / get_cycle_count, finalize, Gcno::compute.
   Executable definitions only.  Every Rust index expression is a checked lookup (None => Panic); u64 `+`/`-`
   wrap (release build).  Recursion that is not structural takes fuel (depth) and yields OutOfFuel. *)
From Grcov Require Export Model.GcnoRead.

Fixpoint ofold {A B} (f : B -> A -> outcome B) (l : list A) (b : B) : outcome B :=
  match l with
  | [] => Ok b
  | x :: l' => let* b' := f b x in ofold f l' b'
  end.

Definition set_counter (e : gedge) (c : N) : gedge := mkEdge (e_src e) (e_dst e) (e_flags e) c (e_cycles e).
Definition set_cycles (e : gedge) (c : N) : gedge := mkEdge (e_src e) (e_dst e) (e_flags e) (e_counter e) c.
Definition sub64 (a b : N) : N := wrap64 (a + two64 - wrap64 b).     (* wrapping `-` on u64 *)

(* u64 `+` is W and u64 `-` is Wsub: (wrap64, sub64) is the release build; (id, N.sub) is exact arithmetic, used by the
   statements that exclude overflow by hypothesis *)
Section arith.
Context (W : N -> N) (Wsub : N -> N -> N).

(* ---- propagate_counts ---- *)
(* one of the two `for edge_id in ..` loops; [rec tgt id edges visited] is the recursive call *)
Fixpoint sum_side (rec : N -> N -> list gedge -> list N -> outcome (N * list gedge * list N))
    (get : gedge -> N) (pred : option N) (ids : list N) (acc : N) (edges : list gedge) (visited : list N)
  : outcome (N * list gedge * list N) :=
  match ids with
  | [] => Ok (acc, edges, visited)
  | id :: ids' =>
      if (match pred with Some p => p =? id | None => false end) then sum_side rec get pred ids' acc edges visited else
      match nthN edges id with
      | None => Panic
      | Some e =>
          if is_on_tree e then
            let* r := rec (get e) id edges visited in
            let '(c, edges', visited') := r in
            sum_side rec get pred ids' (W (acc + c)) edges' visited'
          else sum_side rec get pred ids' (W (acc + e_counter e)) edges visited
      end
  end.
Fixpoint propagate (fuel : nat) (blocks : list gblock) (edges : list gedge) (b : N) (pred : option N) (visited : list N)
  : outcome (N * list gedge * list N) :=
  match fuel with
  | O => OutOfFuel
  | S fuel =>
      if memN b visited then Ok (0, edges, visited) else
      let visited := b :: visited in
      match nthN blocks b with
      | None => Panic
      | Some blk =>
          let rec := fun tgt id ed vis => propagate fuel blocks ed tgt (Some id) vis in
          let* r1 := sum_side rec e_src pred (b_src blk) 0 edges visited in
          let '(pos, edges1, visited1) := r1 in
          let* r2 := sum_side rec e_dst pred (b_dst blk) 0 edges1 visited1 in
          let '(neg, edges2, visited2) := r2 in
          let excess := if neg <=? pos then pos - neg else neg - pos in
          match pred with
          | Some id =>
              match nthN edges2 id with
              | None => Panic
              | Some _ => Ok (excess, alterN (fun e => set_counter e excess) id edges2, visited2)
              end
          | None => Ok (excess, edges2, visited2)
          end
      end
  end.

(* count_on_tree *)
Definition add_tree_counts (edges_rev : list gedge) (blocks : list gblock) : outcome (list gblock) :=
  ofold (fun blocks e =>
           if is_on_tree e then
             match nthN blocks (e_src e) with
             | None => Panic
             | Some _ => Ok (alterN (add_block_counter W (e_counter e)) (e_src e) blocks)
             end
           else Ok blocks) edges_rev blocks.
Definition count_on_tree (version : N) (f : gfun) : outcome gfun :=
  let n := lenN (f_blocks f) in
  if n <? 2 then Ok f else
  let sink := if version <? 48 then n - 1 else 1 in
  let* r := push_arc (f_blocks f) (f_edges f) sink 0 ARC_ON_TREE in
  let '(blocks, edges) := r in
  let* r2 := ofold (fun '(edges, visited) b =>
                      let* r := propagate (S (S (length blocks))) blocks edges b None visited in
                      let '(_, edges', visited') := r in Ok (edges', visited'))
                   (count_from (length blocks) 0) (edges, []) in
  let '(edges', _) := r2 in
  let* blocks' := add_tree_counts (rev edges') blocks in
  Ok (set_graph f blocks' edges' (f_real f)).
Definition stop (g : gcno) : outcome gcno :=
  let* fs := ofold (fun acc f => let* f' := count_on_tree (g_version g) f in Ok (f' :: acc)) (g_funs g) [] in
  Ok (set_funs g (rev fs)).

(* ---- circuits ---- *)
Fixpoint positionN (x : N) (l : list N) (i : N) : option N :=
  match l with [] => None | y :: l' => if y =? x then Some i else positionN x l' (i + 1) end.
Fixpoint removeN {A} (i : N) (l : list A) : list A :=
  match l with [] => [] | x :: l' => if i =? 0 then l' else x :: removeN (N.pred i) l' end.

(* `count = u64::MAX; for e in path { count = min(count, cycles[e]) }`, then `cycles[e] -= count` for each e.
   Every u64 is <= MAX, so the first loop is the minimum of the cycles on the path (MAX for an empty path; the
   code only calls it with a non-empty path) and is written as such.  The order of the path is irrelevant for
   both loops; the model keeps the path with the LAST pushed arc first. *)
Definition get_cycle_count (edges : list gedge) (path : list N) : outcome (N * list gedge) :=
  let* cmin := ofold (fun c e => match nthN edges e with
                                 | None => Panic
                                 | Some ed => Ok (Some (match c with None => e_cycles ed | Some c => N.min c (e_cycles ed) end))
                                 end) path None in
  let count := default U64_MAX cmin in
  let* edges' := ofold (fun edges e => match nthN edges e with
                                       | None => Panic
                                       | Some _ => Ok (alterN (fun ed => set_cycles ed (Wsub (e_cycles ed) count)) e edges)
                                       end) path edges in
  Ok (count, edges').

Fixpoint unblock (fuel : nat) (b : N) (blocked : list N) (lists : list (list N)) : outcome (list N * list (list N)) :=
  match fuel with
  | O => OutOfFuel
  | S fuel =>
      match positionN b blocked 0 with
      | None => Ok (blocked, lists)
      | Some i =>
          match nthN lists i with
          | None => Panic
          | Some lst => ofold (fun '(bl, ls) x => unblock fuel x bl ls) lst (removeN i blocked, removeN i lists)
          end
      end
  end.

Definition cstate : Type := list gedge * list N * list N * list (list N).   (* edges, path, blocked, block_lists *)
Fixpoint look_for_circuit (fuel : nat) (blocks : list gblock) (bs : list N) (start v : N) (st : cstate)
  : outcome (bool * N * cstate) :=
  match fuel with
  | O => OutOfFuel
  | S fuel =>
      let '(edges, path, blocked, lists) := st in
      let blocked := blocked ++ [v] in
      let lists := lists ++ [[]] in
      match nthN blocks v with
      | None => Panic
      | Some blk =>
          let dsts := b_dst blk in
          let* r := ofold (fun '(found, count, (edges, path, blocked, lists)) e =>
                      match nthN edges e with
                      | None => Panic
                      | Some ed =>
                          let w := e_dst ed in
                          if (start <=? w) && memN w bs then
                            if w =? start then
                              let* r := get_cycle_count edges (e :: path) in
                              let '(c, edges') := r in
                              Ok (true, W (count + c), (edges', path, blocked, lists))
                            else if negb (memN w blocked) then
                              let* r := look_for_circuit fuel blocks bs start w (edges, e :: path, blocked, lists) in
                              let '(f, c, (edges', path', blocked', lists')) := r in
                              Ok (found || f, W (count + c), (edges', tl path', blocked', lists'))
                            else Ok (found, count, (edges, path, blocked, lists))
                          else Ok (found, count, (edges, path, blocked, lists))
                      end) dsts (false, 0, (edges, path, blocked, lists)) in
          let '(found, count, (edges, path, blocked, lists)) := r in
          if found then
            let* r := unblock (S (length blocked)) v blocked lists in
            let '(bl, ls) := r in Ok (true, count, (edges, path, bl, ls))
          else
            let* lists' := ofold (fun lists e =>
                             match nthN edges e with
                             | None => Panic
                             | Some ed =>
                                 let w := e_dst ed in
                                 if (start <=? w) || memN w bs then
                                   match positionN w blocked 0 with
                                   | Some i => match nthN lists i with
                                               | None => Panic
                                               | Some lst => Ok (if memN v lst then lists else alterN (fun l => l ++ [v]) i lists)
                                               end
                                   | None => Ok lists
                                   end
                                 else Ok lists
                             end) dsts lists in
            Ok (false, count, (edges, path, blocked, lists'))
      end
  end.

Definition get_cycles_count (fuel : nat) (blocks : list gblock) (edges : list gedge) (bs : list N) : outcome (N * list gedge) :=
  ofold (fun '(count, edges) b =>
           let* r := look_for_circuit fuel blocks bs b b (edges, [], [], []) in
           let '(_, c, (edges', _, _, _)) := r in Ok (W (count + c), edges')) bs (0, edges).

Definition get_line_count (fuel : nat) (blocks : list gblock) (edges : list gedge) (bs : list N) : outcome (N * list gedge) :=
  let* r := ofold (fun '(count, edges) b =>
      match nthN blocks b with
      | None => Panic
      | Some blk =>
          let* count' :=
            (if b_no blk =? 0
             then ofold (fun acc e => match nthN edges e with None => Panic | Some ed => Ok (W (acc + e_counter ed)) end) (b_dst blk) count
             else ofold (fun acc e => match nthN edges e with
                                      | None => Panic
                                      | Some ed => Ok (if memN (e_src ed) bs then acc else W (acc + e_counter ed))
                                      end) (b_src blk) count) in
          let* edges' := ofold (fun edges e => match nthN edges e with
                                               | None => Panic
                                               | Some _ => Ok (alterN (fun ed => set_cycles ed (e_counter ed)) e edges)
                                               end) (b_dst blk) edges in
          Ok (count', edges')
      end) bs (0, edges) in
  let '(count, edges1) := r in
  let* r2 := get_cycles_count fuel blocks edges1 bs in
  let '(c, edges2) := r2 in
  Ok (W (count + c), edges2).

(* ---- add_line_count ---- *)
Definition lines_to_block (blocks : list gblock) : gmap N (list N) :=
  foldl (fun m b => foldl (fun m line => <[line := default [] (m !! line) ++ [b_no b]]> m) m (b_lines b)) ∅ blocks.
Definition circuit_fuel (f : gfun) : nat := (4 * length (f_blocks f) + 16)%nat.
(* executed flag and the function's line map; the FxHashMap `lines_to_block` is visited in map_to_list order *)
Definition add_line_count (f : gfun) : outcome (bool * gmap N N) :=
  let executed := match f_edges f with e :: _ => 0 <? e_counter e | [] => false end in
  if executed then
    let* r := ofold (fun '(edges, acc) '(line, bs) =>
                       match bs with
                       | [b] => match nthN (f_blocks f) b with
                                | None => Panic
                                | Some blk => Ok (edges, <[line := b_counter blk]> acc)
                                end
                       | _ => let* r := get_line_count (circuit_fuel f) (f_blocks f) edges bs in
                              let '(c, edges') := r in Ok (edges', <[line := c]> acc)
                       end) (map_to_list (lines_to_block (f_blocks f))) (f_edges f, ∅) in
    Ok (true, r.2)
  else
    Ok (false, foldl (fun m b => foldl (fun m line => match m !! line with Some _ => m | None => <[line := 0]> m end) m (b_lines b))
                     ∅ (f_blocks f)).

(* ---- finalize ---- *)
Definition branch_line (f : gfun) (blk : gblock) : outcome N :=
  match b_lines blk with
  | [] => ofold (fun lm e => match nthN (f_edges f) e with
                             | None => Panic
                             | Some ed => match nthN (f_blocks f) (e_src ed) with
                                          | None => Panic
                                          | Some s => Ok (N.max lm (b_line_max s))
                                          end
                             end) (b_src blk) 0
  | _ => Ok (b_line_max blk)
  end.
Definition branch_taken (f : gfun) (executed : bool) (blk : gblock) : outcome (list bool) :=
  let* r := ofold (fun acc no => match nthN (f_edges f) no with
                                 | None => Panic
                                 | Some ed => Ok (if is_fake ed then acc else (executed && (0 <? e_counter ed)) :: acc)
                                 end) (b_dst blk) [] in
  Ok (rev r).
Definition fin_branches (f : gfun) (executed : bool) (m : gmap N (list bool)) : outcome (gmap N (list bool)) :=
  ofold (fun m blk =>
           let* line := branch_line f blk in
           if line =? 0 then Ok m else
           let* taken := branch_taken f executed blk in
           if (length taken <=? 1)%nat then Ok m
           else Ok (<[line := default [] (m !! line) ++ taken]> m)) (f_blocks f) m.
Definition fin_fun (br : bool) (res : gmap name cov) (f : gfun) : outcome (gmap name cov) :=
  let* r := add_line_count f in
  let '(executed, flines) := r in
  let c := default empty_cov (res !! f_file f) in
  let funcs := <[f_name f := mkFunc (f_start_line f) executed]> (c_funcs c) in
  let lines := if executed
               then union_with (fun x y => Some (W (x + y))) (c_lines c) flines
               else union_with (fun x _ => Some x) (c_lines c) ((fun _ => 0) <$> flines) in
  let* branches := (if br then fin_branches f executed (c_branches c) else Ok (c_branches c)) in
  Ok (<[f_file f := mkCov lines branches funcs]> res).
Definition finalize (br : bool) (g : gcno) : outcome (gmap name cov) := ofold (fin_fun br) (g_funs g) ∅.

(* Gcno::compute; the result vector (hash-map drain order in the code) as the list of the result map *)
Definition compute_map_gen (gcno_buf : bytes) (gcdas : list bytes) (br : bool) : outcome (gmap name cov) :=
  let* g := read_gcno gcno_buf in
  let* g1 := ofold (read_gcda W) gcdas g in
  let* g2 := stop g1 in
  finalize br g2.
Definition compute_gen (gcno_buf : bytes) (gcdas : list bytes) (br : bool) : outcome (list (name * cov)) :=
  let* m := compute_map_gen gcno_buf gcdas br in Ok (map_to_list m).
End arith.

(* the release build *)
Definition compute_map := compute_map_gen wrap64 sub64.
Definition compute := compute_gen wrap64 sub64.
