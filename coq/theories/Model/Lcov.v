(* parse_lcov and add_branch of src/parser.rs, byte level (DESIGN.md Appendix B),
   as of the tree with the fix: commits for names, BRDA 0, saturating DA sums,
   add_branch slots and end_of_record without SF.  Executable definitions only. *)
From Grcov Require Export Model.Cov Model.Merge.

(* ASCII *)
Definition cLF : N := 10.   Definition cCR : N := 13.
Definition cMinus : N := 45. Definition c0 : N := 48.
Definition cB : N := 66. Definition cD : N := 68. Definition cF : N := 70. Definition cS : N := 83.
Definition ce : N := 101.
Definition is_digit (c : N) : bool := (48 <=? c) && (c <=? 57).
Definition is_upper (c : N) : bool := (65 <=? c) && (c <=? 90).
Definition not_lf (c : N) : bool := negb (c =? cLF).
Definition not_eol (c : N) : bool := negb (c =? cLF) && negb (c =? cCR).

(* `iter.take_while(p)` on the `&mut` iterator, driven to exhaustion: the bytes
   that satisfy p, and the rest AFTER the first failing byte (which is consumed). *)
Fixpoint take_while (p : N -> bool) (l : bytes) : bytes * bytes :=
  match l with
  | [] => ([], [])
  | c :: r => if p c then let '(t, r') := take_while p r in (c :: t, r') else ([], r)
  end.
Definition skip_line (l : bytes) : bytes := snd (take_while not_lf l).

(* .fold(init, |r, &x| r * 10 + uN::from(x - b'0')) in release mode (wrapping) *)
Definition dec_fold (modulus : N) (init : N) (ds : bytes) : N :=
  fold_left (fun r x => (r * 10 + (x - c0)) mod modulus) ds init.

(* key = take_while(is_ascii_uppercase).try_fold(c, |r, x| r.checked_mul(256)?.checked_add(x)) *)
Definition key_fold (c : N) (us : bytes) : option N :=
  fold_left (fun r x => match r with
                        | None => None
                        | Some r => if r * 256 + x <? two32 then Some (r * 256 + x) else None
                        end) us (Some c).
Definition K_SF : N := 83 * 256 + 70.
Definition K_DA : N := 68 * 256 + 65.
Definition K_FN : N := 70 * 256 + 78.
Definition K_FNDA : N := 70 * 16777216 + 78 * 65536 + 68 * 256 + 65.
Definition K_BRDA : N := 66 * 16777216 + 82 * 65536 + 68 * 256 + 65.

(* .any(|&x| x != b'-' && x != b'0') over take_while(not eol): short-circuits *)
Fixpoint brda_taken (l : bytes) : bool * bytes :=
  match l with
  | [] => (false, [])
  | c :: r => if not_eol c
              then (if negb (c =? cMinus) && negb (c =? c0) then (true, r) else brda_taken r)
              else (false, r)
  end.

(* add_branch, transcribed case by case *)
Definition add_branch (m : gmap N (list bool)) (line no : N) (taken : bool) : gmap N (list bool) :=
  let no := N.to_nat no in
  match m !! line with
  | Some v =>
      let l := length v in
      if Nat.eqb no l then <[line := v ++ [taken]]> m
      else if Nat.ltb l no then <[line := v ++ replicate (no - l) false ++ [taken]]> m
      else <[line := alter (fun b => b || taken) no v]> m
  | None => <[line := replicate no false ++ [taken]]> m
  end.

Record pstate := mkP {
  p_file : option name;
  p_lines : gmap N N;
  p_branches : gmap N (list bool);
  p_funcs : gmap name func;
  p_results : list (name * cov)      (* in push order *)
}.
Definition p_init : pstate := mkP None ∅ ∅ ∅ [].

Definition peek (l : bytes) : option N := head l.
(* `if let Some(c) = iter.peek() { if !c.is_ascii_digit() { return Err } }` *)
Definition digit_guard (l : bytes) : bool :=
  match peek l with Some c => is_digit c | None => true end.

(* One iteration of `while let Some(c) = iter.next()`; [l] is what follows [c]. *)
Definition step (branch_enabled : bool) (c : N) (l : bytes) (st : pstate) : outcome (bytes * pstate) :=
  if c =? ce then
    match p_file st with
    | None => Err
    | Some f =>
        Ok (skip_line l,
            mkP None ∅ ∅ ∅ (p_results st ++ [(f, mkCov (p_lines st) (p_branches st) (p_funcs st))]))
    end
  else if c =? cLF then Ok (l, st)
  else if negb ((c =? cS) || (c =? cD) || (c =? cF) || (c =? cB)) then Ok (skip_line l, st)
  else
    let '(us, l) := take_while is_upper l in
    match key_fold c us with
    | None => Err
    | Some key =>
        if key =? K_SF then
          let '(nm, l) := take_while not_eol l in
          Ok (l, mkP (Some nm) (p_lines st) (p_branches st) (p_funcs st) (p_results st))
        else if key =? K_DA then
          if negb (digit_guard l) then Err else
          let '(ds, l) := take_while is_digit l in
          let line_no := dec_fold two32 0 ds in
          match l with
          | [] => Err
          | c :: l =>
              let '(count, l) :=
                if c =? cMinus then (0, skip_line l)
                else let '(ds, l) := take_while is_digit l in
                     (dec_fold two64 ((c + 256 - c0) mod 256) ds, l) in
              let old := default 0 (p_lines st !! line_no) in
              Ok (l, mkP (p_file st) (<[line_no := sat_add64 old count]> (p_lines st))
                         (p_branches st) (p_funcs st) (p_results st))
          end
        else if key =? K_FN then
          if negb (digit_guard l) then Err else
          let '(ds, l) := take_while is_digit l in
          let start := dec_fold two32 0 ds in
          match l with
          | [] => Err
          | _ =>
              let '(nm, l) := take_while not_eol l in
              Ok (l, mkP (p_file st) (p_lines st) (p_branches st)
                         (<[nm := mkFunc start false]> (p_funcs st)) (p_results st))
          end
        else if key =? K_FNDA then
          if negb (digit_guard l) then Err else
          let '(ds, l) := take_while is_digit l in
          let executed := dec_fold two64 0 ds in
          match l with
          | [] => Err
          | _ =>
              let '(nm, l) := take_while not_eol l in
              match p_funcs st !! nm with
              | Some f =>
                  Ok (l, mkP (p_file st) (p_lines st) (p_branches st)
                             (<[nm := mkFunc (f_start f) (f_exec f || negb (executed =? 0))]> (p_funcs st))
                             (p_results st))
              | None => Err
              end
          end
        else if key =? K_BRDA then
          if branch_enabled then
            if negb (digit_guard l) then Err else
            let '(ds, l) := take_while is_digit l in
            let line_no := dec_fold two32 0 ds in
            match l with
            | [] => Err
            | _ =>
                let '(_, l) := take_while is_digit l in
                match l with
                | [] => Err
                | _ =>
                    let '(ds, l) := take_while is_digit l in
                    let branch_number := dec_fold two32 0 ds in
                    match l with
                    | [] => Err
                    | _ =>
                        let '(taken, l) := brda_taken l in
                        Ok (l, mkP (p_file st) (p_lines st)
                                   (add_branch (p_branches st) line_no branch_number taken)
                                   (p_funcs st) (p_results st))
                    end
                end
            end
          else Ok (skip_line l, st)
        else Ok (skip_line l, st)
    end.

Fixpoint parse_loop (fuel : nat) (b : bool) (l : bytes) (st : pstate) : outcome (list (name * cov)) :=
  match l with
  | [] => Ok (p_results st)
  | c :: l =>
      match fuel with
      | O => OutOfFuel
      | S fuel =>
          match step b c l st with
          | Ok (l', st') => parse_loop fuel b l' st'
          | Err => Err
          | Panic => Panic
          | OutOfFuel => OutOfFuel
          end
      end
  end.

Definition parse_lcov (buffer : bytes) (branch_enabled : bool) : outcome (list (name * cov)) :=
  parse_loop (length buffer) branch_enabled buffer p_init.
