(* merge_results and add_results of src/lib.rs (lines 53-134). *)
From Grcov Require Export Model.Cov.

(* for (x, y) in taken.iter().zip(v.iter_mut()) { *y |= x }  then extend with taken[l..] *)
Fixpoint or_vec (v t : list bool) : list bool :=
  match v, t with
  | [], t => t
  | v, [] => v
  | x :: v, y :: t => (x || y) :: or_vec v t
  end.

Definition merge_func (f g : func) : func := mkFunc (f_start f) (f_exec f || f_exec g).

(* algebraic form: `a` is the accumulator (`result`), `b` is `result2` *)
Definition merge (a b : cov) : cov :=
  mkCov (union_with (fun x y => Some (sat_add64 x y)) (c_lines a) (c_lines b))
        (union_with (fun v t => Some (or_vec v t)) (c_branches a) (c_branches b))
        (union_with (fun f g => Some (merge_func f g)) (c_funcs a) (c_funcs b)).

(* loop form: a transcription of the three `for` loops with the entry API *)
Definition entry_upd {K A} `{Countable K} (f : A -> A -> A) (m : gmap K A) (k : K) (y : A) : gmap K A :=
  match m !! k with
  | Some x => <[k := f x y]> m       (* Entry::Occupied *)
  | None => <[k := y]> m             (* Entry::Vacant *)
  end.
Definition merge_loop (a b : cov) : cov :=
  mkCov (foldr (fun '(k, y) m => entry_upd sat_add64 m k y) (c_lines a) (map_to_list (c_lines b)))
        (foldr (fun '(k, y) m => entry_upd or_vec m k y) (c_branches a) (map_to_list (c_branches b)))
        (foldr (fun '(k, y) m => entry_upd merge_func m k y) (c_funcs a) (map_to_list (c_funcs b))).

(* add_results (source_dir = None): insert or merge each (path, cov) *)
Definition add_result (m : filemap) (r : name * cov) : filemap :=
  match m !! r.1 with
  | Some a => <[r.1 := merge a r.2]> m
  | None => <[r.1 := r.2]> m
  end.
Definition add_results (m : filemap) (rs : list (name * cov)) : filemap := foldl add_result m rs.

Definition agg (rs : list cov) : cov := foldl merge empty_cov rs.

(* every order and every parenthesisation of pairwise combination *)
Inductive bintree (A : Type) := Leaf (a : A) | Node (l r : bintree A).
Global Arguments Leaf {A} a.
Global Arguments Node {A} l r.
Fixpoint leaves {A} (t : bintree A) : list A :=
  match t with Leaf a => [a] | Node l r => leaves l ++ leaves r end.
Fixpoint eval_tree (t : bintree cov) : cov :=
  match t with Leaf a => a | Node l r => merge (eval_tree l) (eval_tree r) end.

(* unbounded sum of the counts given for one line; None iff nobody lists the line *)
Fixpoint osum (l : list (option N)) : option N :=
  match l with
  | [] => None
  | None :: l => osum l
  | Some x :: l => Some (x + default 0 (osum l))
  end.
