(* The report writers as encoders into abstract documents (C03), transcribed from
   src/output.rs (output_coveralls 417-513, output_covdir 184-239, output_markdown 621-688, output_files 515-520),
   src/covdir.rs (CDFileStats::get_coverage, into_json), src/cobertura.rs (get_coverage: class lines),
   src/html.rs (gen_html: the items of a file page), and independent decoders of those documents written from what
   the formats mean (an array slot i is line i+1; null / -1 / "no coverage" is "not instrumented"; a branch
   quadruple is (line, block, branch number, taken)).  The serialisation of the documents to JSON / XML / HTML text is
   serde_json / quick-xml / Tera and is not modelled: the check decodes the real text with Python readers and compares
   the result with these documents.  Executable definitions only. *)
From stdpp Require Export sorting.
From Grcov Require Export Model.Cov Model.Stats.

(* BTreeMap iteration order: ascending keys *)
Definition key_le {A} : relation (N * A) := fun a b => a.1 <= b.1.
Global Instance key_le_dec {A} (a b : N * A) : Decision (key_le a b) := decide (a.1 <= b.1).
Definition sorted_kv {A} (m : gmap N A) : list (N * A) := merge_sort key_le (map_to_list m).
(* coverage.keys().last().unwrap_or(&0) *)
Definition last_line {A} (m : gmap N A) : N := foldr (fun p acc => N.max p.1 acc) 0 (map_to_list m).

(* an array with one slot per line 1..n, each slot computed from the lookup of its line number
   (coveralls: `for line in 1..end { lines.get(&line) }`; html: one item per source line;
   covdir: vec![-1; last] then `lines[line_num - 1] = count` for every entry: the same array, line 0 having no slot) *)
Definition line_array {A} (g : option N -> A) (m : gmap N N) (n : N) : list A :=
  map (fun i => g (m !! N.of_nat (S i))) (seq 0 (N.to_nat n)).
(* the same array with a binary line counter (what the check evaluates for arrays of 2^16 slots and more) *)
Fixpoint line_array_from {A} (g : option N -> A) (m : gmap N N) (i : N) (k : nat) : list A :=
  match k with O => [] | S k => g (m !! i) :: line_array_from g m (i + 1) k end.
Definition line_array_n {A} (g : option N -> A) (m : gmap N N) (n : N) : list A := line_array_from g m 1 (N.to_nat n).
(* reading such an array back: slot i speaks about line i+1 *)
Fixpoint decode_from {A} (h : A -> option N) (i : N) (l : list A) : gmap N N :=
  match l with
  | [] => ∅
  | a :: l => let m := decode_from h (i + 1) l in
              match h a with Some c => <[i := c]> m | None => m end
  end.
Definition decode_array {A} (h : A -> option N) (l : list A) : gmap N N := decode_from h 1 l.

(* ---------------------------------------------------------------- coveralls / coveralls+ *)
Record cv_file := mkCvFile {
  cv_name : name;
  cv_coverage : list (option N);            (* null = None *)
  cv_branches : list (N * N * N * N);       (* quadruples (line, block, branch number, taken); JSON: flat, 4 numbers each *)
  cv_functions : option (list (name * N * bool))   (* only with_function_info *)
}.
Definition cv_quads (bl : list (N * list bool)) : list (N * N * N * N) :=
  concat (map (fun '(l, v) => imap (fun (n : nat) (b : bool) => (l, 0, wrap32 (N.of_nat n), if b then 1 else 0)) v) bl).
(* `end = last + 1` in u32 (wraps in release), `for line in 1..end` *)
Definition cv_end (m : gmap N N) : N := wrap32 (last_line m + 1).
Definition encode_coveralls_file (with_fn : bool) (rel : name) (c : cov) : cv_file :=
  mkCvFile rel (line_array id (c_lines c) (cv_end (c_lines c) - 1))
           (cv_quads (sorted_kv (c_branches c)))
           (if with_fn then Some (map (fun '(nm, f) => (nm, f_start f, f_exec f)) (map_to_list (c_funcs c))) else None).
Definition encode_coveralls (with_fn : bool) (rs : list (name * cov)) : list cv_file :=
  map (fun r => encode_coveralls_file with_fn r.1 r.2) rs.

(* decoder: coverage array -> line counts; quadruples -> per line, slot `branch number` := taken *)
Fixpoint set_slot (n : nat) (b : bool) (v : list bool) : list bool :=
  match n, v with
  | O, [] => [b]
  | O, _ :: v => b :: v
  | S n, [] => false :: set_slot n b []
  | S n, x :: v => x :: set_slot n b v
  end.
Definition qstep (acc : gmap N (list bool)) (q : N * N * N * N) : gmap N (list bool) :=
  let '(l, _, n, t) := q in <[l := set_slot (N.to_nat n) (negb (t =? 0)) (default [] (acc !! l))]> acc.
Definition decode_quads (qs : list (N * N * N * N)) : gmap N (list bool) := foldl qstep ∅ qs.
Definition decode_cv_lines (f : cv_file) : gmap N N := decode_array id (cv_coverage f).
Definition decode_cv_branches (f : cv_file) : gmap N (list bool) := decode_quads (cv_branches f).
Definition decode_cv_funcs (f : cv_file) : option (gmap name func) :=
  (fun l => list_to_map (map (fun '(nm, s, e) => (nm, mkFunc s e)) l)) <$> cv_functions f.

(* ---------------------------------------------------------------- covdir *)
(* `*line_count as i64`, -1 for a line without entry *)
Definition cd_cell (o : option N) : Z := match o with Some c => to_i64 c | None => (-1)%Z end.
Definition cd_coverage (m : gmap N N) : list Z := line_array cd_cell m (last_line m).
(* reader: -1 means not instrumented, any other number is the count *)
Definition cd_read (z : Z) : option N := if (z =? -1)%Z then None else Some (Z.to_N z).
Definition decode_cd_lines (l : list Z) : gmap N N := decode_array cd_read l.

(* building the tree: the components of the parent directory, outermost first ("/" for the root of an absolute
   path), are looked up / appended below the global node; the file is appended to the innermost directory *)
Fixpoint cd_insert (comps : list name) (fname : name) (ls : gmap N N) (t : cdtree) {struct comps} : cdtree :=
  match t with
  | CDNode nm fs ds =>
      match comps with
      | [] => CDNode nm (fs ++ [(fname, ls)]) ds
      | c :: rest =>
          CDNode nm fs
            ((fix go (ds : list cdtree) : list cdtree :=
                match ds with
                | [] => [cd_insert rest fname ls (CDNode c [] [])]
                | d :: ds' => if bool_decide (cdt_name d = c) then cd_insert rest fname ls d :: ds'
                              else d :: go ds'
                end) ds)
      end
  end.
(* rel_path.is_relative(): does not start with '/' *)
Definition is_absolute (p : name) : bool := match p with 47 :: _ => true | _ => false end.
(* one result: components of abs path, components of rel path (the last one is the file name), rel path, record, and the
   number of lines of the source file (html only) *)
Record rfile := mkRfile { r_absc : list name; r_relc : list name; r_rel : name; r_cov : cov; r_src : N }.
Definition cd_path (r : rfile) : list name := if is_absolute (r_rel r) then r_absc r else r_relc r.
Definition cd_build (rs : list rfile) : cdtree :=
  foldl (fun t r => let p := cd_path r in
                    cd_insert (removelast p) (List.last p []) (c_lines (r_cov r)) t) (CDNode [] [] []) rs.
(* into_json after set_stats: name, stats, percent, and for files the array *)
Inductive cdout :=
  | CDFile (nm : name) (st : cdstats) (pct : rate) (coverage : list Z)
  | CDDir (nm : name) (st : cdstats) (pct : rate) (children : list cdout).
Definition cd_pct (p : N) (st : cdstats) : rate := covdir_percent (cd_covered st) (cd_total st) p.
Fixpoint cd_render (p : N) (t : cdtree) : cdout :=
  match t with
  | CDNode nm fs ds =>
      let st := cd_set_stats t in
      CDDir nm st (cd_pct p st)
            (map (fun f => CDFile f.1 (cd_file_stats f.2) (cd_pct p (cd_file_stats f.2)) (cd_coverage f.2)) fs
             ++ map (cd_render p) ds)
  end.
Definition encode_covdir (p : N) (rs : list rfile) : cdout := cd_render p (cd_build rs).

(* ---------------------------------------------------------------- markdown *)
(* format_lines: the loop state is (total_missed, finished ranges, start, end); 0 = no open range *)
Definition md_state : Type := N * list (N * N) * N * N.
Definition md_step (st : md_state) (e : N * N) : md_state :=
  let '(tm, missed, s, en) := st in
  if e.2 =? 0 then (tm + 1, missed, (if s =? 0 then e.1 else s), e.1)
  else if negb (s =? 0) then (tm, missed ++ [(s, en)], 0, en)
  else st.
Definition format_lines (ls : list (N * N)) : N * list (N * N) :=
  let '(tm, missed, s, en) := foldl md_step (0, [], 0, 0) ls in
  (tm, if s =? 0 then missed else missed ++ [(s, en)]).
Record md_row := mkMdRow { md_file : name; md_covered : N; md_total : N; md_ranges : list (N * N); md_pct : rate }.
Definition encode_md_row (p : N) (rel : name) (c : cov) : md_row :=
  let '(missed, ranges) := format_lines (sorted_kv (c_lines c)) in
  let total := nlen (map_to_list (c_lines c)) in
  let covered := total - missed in
  mkMdRow rel covered total ranges (markdown_percent covered total p).
Definition encode_markdown (p : N) (rs : list (name * cov)) : list md_row * rate :=
  let rows := map (fun r => encode_md_row p r.1 r.2) rs in
  (rows, markdown_percent (sumN (map md_covered rows)) (sumN (map md_total rows)) p).
(* reader: a line is reported missed iff it lies in one of the printed ranges *)
Definition in_ranges (rg : list (N * N)) (l : N) : bool := existsb (fun r => (r.1 <=? l) && (l <=? r.2)) rg.

(* ---------------------------------------------------------------- cobertura (class lines and totals) *)
(* line_from_number over all_lines = lines.keys(): hits, and the conditions when branches has that line *)
Definition cob_lines (c : cov) : list (N * N * option (list bool)) :=
  map (fun '(k, h) => (k, h, c_branches c !! k)) (sorted_kv (c_lines c)).
Definition decode_cob_lines (ls : list (N * N * option (list bool))) : gmap N N :=
  list_to_map (map (fun l => (l.1.1, l.1.2)) ls).
Definition decode_cob_branches (ls : list (N * N * option (list bool))) : gmap N (list bool) :=
  list_to_map (omap (fun l => (fun v => (l.1.1, v)) <$> l.2) ls).
Definition encode_cobertura (rs : list (name * cov)) : list (name * list (N * N * option (list bool)) * cobstats) * cobstats :=
  let ps := map (fun r => (r.1, cob_lines r.2, cob_from_lines (cob_lines r.2))) rs in
  (ps, foldl cob_add cob0 (map snd ps)).

(* ---------------------------------------------------------------- html (file page items) *)
(* (index, count as i64 or -1) for index = 1 .. number of source lines; the template shows count > 0 as the number,
   count < 0 as "no coverage", 0 as "0" *)
Definition html_rows (c : cov) (src_lines : N) : list Z := line_array cd_cell (c_lines c) src_lines.
Definition html_read (z : Z) : option N := if (z <? 0)%Z then None else Some (Z.to_N z).
Definition decode_html_lines (l : list Z) : gmap N N := decode_array html_read l.
(* the files that get a page: relative rel_path (the source is readable by the property's hypothesis) *)
Definition html_reported (rs : list rfile) : list rfile := filter (fun r => is_absolute (r_rel r) = false) rs.

(* ---------------------------------------------------------------- files *)
Definition encode_files (rs : list (name * cov)) : list name := map fst rs.

(* ---------------------------------------------------------------- ActiveData-ETL (output_activedata_etl, src/output.rs:74-182) *)
(* covered / uncovered: the keys of `lines` with count > 0 / == 0, in BTreeMap order *)
Definition ade_covered (c : cov) : list N := map fst (filter (fun p : N * N => 0 <? p.2 = true) (sorted_kv (c_lines c))).
Definition ade_uncovered (c : cov) : list N := map fst (filter (fun p : N * N => p.2 =? 0 = true) (sorted_kv (c_lines c))).
(* `end = last key (or 0) + 1` in u32 *)
Definition ade_end (c : cov) : N := wrap32 (last_line (c_lines c) + 1).
(* start_indexes: every function's start, sort_unstable *)
Definition ade_starts (c : cov) : list N := merge_sort N.le (map (fun p : name * func => f_start p.2) (map_to_list (c_funcs c))).
(* `func_end = end; for start in &start_indexes { if *start > function.start { func_end = *start; break } }` *)
Definition ade_func_end (starts : list N) (s e : N) : N :=
  match filter (fun x => s < x) starts with x :: _ => x | [] => e end.
Definition ade_fend (c : cov) (f : func) : N := ade_func_end (ade_starts c) (f_start f) (ade_end c).
(* `.filter(|&&x| x >= function.start && x < func_end)` *)
Definition in_range (s e x : N) : bool := (s <=? x) && (x <? e).
Record ade_part := mkAdePart { ap_covered : list N; ap_uncovered : list N; ap_total_covered : N; ap_total_uncovered : N }.
Definition ade_part_of (cv un : list N) : ade_part := mkAdePart cv un (nlen cv) (nlen un).
(* one record per function, in the hash map's iteration order *)
Definition ade_method (c : cov) (f : func) : ade_part :=
  ade_part_of (filter (fun x => in_range (f_start f) (ade_fend c f) x = true) (ade_covered c))
              (filter (fun x => in_range (f_start f) (ade_fend c f) x = true) (ade_uncovered c)).
Definition ade_methods (c : cov) : list (name * ade_part) := map (fun p : name * func => (p.1, ade_method c p.2)) (map_to_list (c_funcs c)).
(* orphan sets: the covered (uncovered) lines, minus every line pushed to some method's list *)
Definition ade_orphan (ms : list (name * ade_part)) (sel : ade_part -> list N) (ls : list N) : list N :=
  filter (fun l => Forall (fun m : name * ade_part => l ∉ sel m.2) ms) ls.
Record ade_file := mkAdeFile { af_name : name; af_methods : list (name * ade_part); af_file : ade_part; af_orphan : ade_part }.
Definition encode_ade_file (rel : name) (c : cov) : ade_file :=
  let ms := ade_methods c in
  mkAdeFile rel ms (ade_part_of (ade_covered c) (ade_uncovered c))
            (ade_part_of (ade_orphan ms ap_covered (ade_covered c)) (ade_orphan ms ap_uncovered (ade_uncovered c))).
Definition encode_ade (rs : list (name * cov)) : list ade_file := map (fun r => encode_ade_file r.1 r.2) rs.
