(* What a well-formed lcov tracefile SAYS (C04), independently of how grcov reads it:
   records, their rendering to bytes, well-formedness, and the declarative meaning
   of a section.  Executable definitions only. *)
From Grcov Require Export Model.Lcov Base.Dec.
Import Coq.Strings.String.StringSyntax.

Inductive rec :=
  | RDA (l c : bytes)                       (* DA:<l>,<c>          digit strings *)
  | RDAneg (l rest : bytes)                 (* DA:<l>,-<rest>      negative count *)
  | RFN (s : bytes) (nm : name)             (* FN:<s>,<nm> *)
  | RFNDA (c : bytes) (nm : name)           (* FNDA:<c>,<nm> *)
  | RBRDA (l b n : bytes) (t : option bytes)  (* BRDA:<l>,<b>,<n>,<t> ; None is '-' *)
  | RSkip (key text : bytes)                (* <KEY>:<text> for a key grcov does not use, first letter in S D F B *)
  | ROther (text : bytes)                   (* any line whose first byte is not e S D F B (TN:, LF:, LH:, VER:, MCDC:, comments..) *)
  | RBlank.

Definition eol (crlf : bool) : bytes := if crlf then [13; 10] else [10].
Definition render_rec (r : rec * bool) : bytes :=
  match r.1 with
  | RDA l c => bs "DA:" ++ l ++ [44] ++ c
  | RDAneg l rest => bs "DA:" ++ l ++ [44; 45] ++ rest
  | RFN s nm => bs "FN:" ++ s ++ [44] ++ nm
  | RFNDA c nm => bs "FNDA:" ++ c ++ [44] ++ nm
  | RBRDA l b n t => bs "BRDA:" ++ l ++ [44] ++ b ++ [44] ++ n ++ [44] ++ default [45] t
  | RSkip key text => key ++ [58] ++ text
  | ROther text => text
  | RBlank => []
  end ++ eol r.2.

Record section := mkSection {
  s_pre : list (rec * bool);      (* lines before SF: only ROther / RBlank *)
  s_name : name;
  s_name_crlf : bool;
  s_recs : list (rec * bool);
  s_end_crlf : bool
}.
Definition render_section (s : section) : bytes :=
  concat (map render_rec (s_pre s)) ++
  bs "SF:" ++ s_name s ++ eol (s_name_crlf s) ++
  concat (map render_rec (s_recs s)) ++
  bs "end_of_record" ++ eol (s_end_crlf s).
Record lfile := mkLfile { l_sections : list section; l_trailer : list (rec * bool) }.
Definition render_file (f : lfile) : bytes :=
  concat (map render_section (l_sections f)) ++ concat (map render_rec (l_trailer f)).

(* --- well-formedness (decidable, as booleans) --- *)
Definition digits (d : bytes) : bool := negb (bool_decide (d = [])) && forallb is_digit d.
Definition name_ok (nm : bytes) : bool := forallb not_eol nm.
Definition no_lf (t : bytes) : bool := forallb not_lf t.
Definition key_val (k : bytes) : N := fold_left (fun r x => r * 256 + x) k 0.
Definition starts_sdfb (c : N) : bool := (c =? cS) || (c =? cD) || (c =? cF) || (c =? cB).
Definition wf_rec (r : rec) : bool :=
  match r with
  | RDA l c => digits l && digits c && (dec_val l <? two32) && (dec_val c <? two64)
  | RDAneg l rest => digits l && (dec_val l <? two32) && no_lf rest
  | RFN s nm => digits s && (dec_val s <? two32) && name_ok nm
  | RFNDA c nm => digits c && (dec_val c <? two64) && name_ok nm
  | RBRDA l b n t => digits l && digits b && digits n && (dec_val l <? two32) && (dec_val n <? two32)
                     && match t with Some d => digits d | None => true end
  | RSkip key text =>
      forallb is_upper key && (Nat.leb (length key) 4) && from_option starts_sdfb false (head key)
      && negb (bool_decide (key_val key ∈ [K_SF; K_DA; K_FN; K_FNDA; K_BRDA])) && no_lf text
  | ROther text =>
      no_lf text && match text with
                    | [] => false
                    | c :: _ => negb (starts_sdfb c) && negb (c =? ce)
                    end
  | RBlank => true
  end.
Definition is_filler (r : rec) : bool := match r with ROther _ | RBlank => true | _ => false end.

Definition fn_names (rs : list rec) : list name :=
  omap (fun r => match r with RFN _ nm => Some nm | _ => None end) rs.
(* every FNDA is preceded by the FN of its function (grcov rejects the file otherwise:
   known finding C04/fnda-before-fn) *)
Fixpoint fnda_after_fn (seen : list name) (rs : list rec) : bool :=
  match rs with
  | [] => true
  | RFN _ nm :: rs => fnda_after_fn (nm :: seen) rs
  | RFNDA _ nm :: rs => bool_decide (nm ∈ seen) && fnda_after_fn seen rs
  | _ :: rs => fnda_after_fn seen rs
  end.
Definition wf_section (s : section) : bool :=
  forallb (fun r => wf_rec r.1 && is_filler r.1) (s_pre s) &&
  name_ok (s_name s) &&
  forallb (fun r => wf_rec r.1) (s_recs s) &&
  bool_decide (NoDup (fn_names (s_recs s).*1)).
Definition KnownClass_fnda_first (s : section) : bool := negb (fnda_after_fn [] (s_recs s).*1).
Definition wf_file (f : lfile) : bool :=
  forallb wf_section (l_sections f) &&
  forallb (fun r => wf_rec r.1 && is_filler r.1) (l_trailer f).

(* --- the meaning of a section's records, order-free --- *)
Definition clamp64 (s : N) : N := N.min s U64_MAX.
(* contribution of one record to the count of line n *)
Definition da_count (n : N) (r : rec) : option N :=
  match r with
  | RDA l c => if dec_val l =? n then Some (dec_val c) else None
  | RDAneg l _ => if dec_val l =? n then Some 0 else None
  | _ => None
  end.
Definition spec_line (rs : list rec) (n : N) : option N := clamp64 <$> osum (map (da_count n) rs).

(* branch numbers recorded for line n, and whether slot i is taken by some record *)
Definition brda_nums (n : N) (rs : list rec) : list N :=
  omap (fun r => match r with RBRDA l _ k _ => if dec_val l =? n then Some (dec_val k) else None | _ => None end) rs.
Definition brda_hits (n i : N) (r : rec) : bool :=
  match r with
  | RBRDA l _ k (Some t) => (dec_val l =? n) && (dec_val k =? i) && (0 <? dec_val t)
  | _ => false
  end.
Definition spec_branch (rs : list rec) (n : N) : option (list bool) :=
  match brda_nums n rs with
  | [] => None
  | k :: ks => Some (map (fun i => existsb (brda_hits n (N.of_nat i)) rs)
                         (seq 0 (S (N.to_nat (foldr N.max k ks)))))
  end.

Definition spec_func (rs : list rec) (f : name) : option func :=
  match omap (fun r => match r with RFN s nm => if bool_decide (nm = f) then Some (dec_val s) else None | _ => None end) rs with
  | [] => None
  | s :: _ => Some (mkFunc s (existsb (fun r => match r with
                                                | RFNDA c nm => bool_decide (nm = f) && negb (dec_val c =? 0)
                                                | _ => false end) rs))
  end.

(* a coverage record is what the section says *)
Definition sec_spec (branch_enabled : bool) (rs : list rec) (c : cov) : Prop :=
  (forall n, c_lines c !! n = spec_line rs n) /\
  (forall n, c_branches c !! n = if branch_enabled then spec_branch rs n else None) /\
  (forall f, c_funcs c !! f = spec_func rs f).

(* executable form of the same, used by the correspondence check and by Examples:
   the record built from the spec over the keys that occur in the section *)
Definition da_lines (rs : list rec) : list N :=
  omap (fun r => match r with RDA l _ | RDAneg l _ => Some (dec_val l) | _ => None end) rs.
Definition br_lines (rs : list rec) : list N :=
  omap (fun r => match r with RBRDA l _ _ _ => Some (dec_val l) | _ => None end) rs.
Definition denote (branch_enabled : bool) (rs : list rec) : cov :=
  mkCov (list_to_map (omap (fun n => (fun c => (n, c)) <$> spec_line rs n) (da_lines rs)))
        (if branch_enabled
         then list_to_map (omap (fun n => (fun v => (n, v)) <$> spec_branch rs n) (br_lines rs))
         else ∅)
        (list_to_map (omap (fun f => (fun g => (f, g)) <$> spec_func rs f) (fn_names rs))).
