(* output_lcov of src/output.rs:241-314 (demangle = false). *)
From Grcov Require Export Model.Cov Base.Dec.
Import Coq.Strings.String.StringSyntax.

Definition ln (k : String.string) (body : bytes) : bytes := bs k ++ body ++ [10].
Global Arguments ln k%string_scope body.
Definition count_true (l : list bool) : N := N.of_nat (length (filter (fun b => b = true) l)).

Definition out_funcs (fs : list (name * func)) : bytes :=
  concat (map (fun '(nm, f) => ln "FN:" (print_dec (f_start f) ++ [44] ++ nm)) fs) ++
  concat (map (fun '(nm, f) => ln "FNDA:" ((if f_exec f then [49] else [48]) ++ [44] ++ nm)) fs) ++
  match fs with
  | [] => ([] : bytes)
  | _ => ln "FNF:" (print_dec (N.of_nat (length fs))) ++
         ln "FNH:" (print_dec (N.of_nat (length (filter (fun p => f_exec p.2 = true) fs))))
  end.

Definition out_branch_line (l : N) (v : list bool) : bytes :=
  concat (imap (fun (n : nat) (b : bool) => ln "BRDA:" (print_dec l ++ bs ",0," ++ print_dec (N.of_nat n) ++ [44] ++
                                         (if b : bool then [49] else [45] : bytes))) v).
Definition out_branches (bsl : list (N * list bool)) : bytes :=
  concat (map (fun '(l, v) => out_branch_line l v) bsl) ++
  ln "BRF:" (print_dec (N.of_nat (length (concat (map snd bsl))))) ++
  ln "BRH:" (print_dec (count_true (concat (map snd bsl)))).

Definition out_lines (ls : list (N * N)) : bytes :=
  concat (map (fun '(l, c) => ln "DA:" (print_dec l ++ [44] ++ print_dec c)) ls) ++
  ln "LF:" (print_dec (N.of_nat (length ls))) ++
  ln "LH:" (print_dec (N.of_nat (length (filter (fun p => 0 <? p.2 = true) ls)))).

Definition out_section (r : name * cov) : bytes :=
  ln "SF:" r.1 ++
  out_funcs (map_to_list (c_funcs r.2)) ++
  out_branches (map_to_list (c_branches r.2)) ++
  out_lines (map_to_list (c_lines r.2)) ++
  bs "end_of_record" ++ [10].

Definition output_lcov (rs : list (name * cov)) : bytes :=
  bs "TN:" ++ [10] ++ concat (map out_section rs).
